import BadgerModel.Mvcc
import BadgerProofs.Lemmas.Txn
import BadgerProofs.Props.C20
/-!
# C28 — writes validate keys and sizes deterministically; accepted transactions fit

`Txn.modify` (txn.go:351) is a `switch` over the validation conditions followed by
`checkSize`; the model is `Db.modify`, whose decision list is `modCheck`
(`modify_eq`, Lemmas/Txn.lean).

The second half of the property ("once all writes were accepted, Commit never fails with
ErrTxnTooBig") compares two size computations of the code:

* `checkSize` (txn.go:335): `txn.size` starts at `len(txnKey)+10` (`finReserve`) and grows by
  `estimateSizeAndSetThreshold(e) + 10` (`perEntryPad = 10`) per accepted entry; `txn.count`
  starts at 1 and grows by 1;
* `sendToWriteCh` (db.go:898), called by `commitAndSend`: sums `estimateSizeAndSetThreshold`
  over the entries *with the 8 timestamp bytes appended to every key* plus the end-of-transaction
  marker (`key = txnKey ++ 8 bytes`, `value = decimal commitTs`), and fails with `ErrTxnTooBig`
  when `count ≥ maxBatchCount ∨ size ≥ maxBatchSize`.

`C28_fits` is stated over these parameters. Its side condition `finReserve ≥ finMax` was FALSE
for the constants of the original code (`len(txnKey)+10 = 21 < 41`, finding F6:
`C28_fits_counterexample`, kept over the old parameters); after the `fix:` commit in /repo
(`size: len(txnKey)+30`, mirrored by `Db.begin`) it holds: `C28_side_condition_today`,
`C28_fits_today`. The reserve is read off the model (`beginReserve`), not hard-wired.

NOTE (model gap, reported): `Db.commit` in `BadgerModel/Mvcc.lean` has no `ErrTxnTooBig` branch
(the `sendToWriteCh` check is not modelled), so the commit-side computation is defined here
(`sendTooBig`), mirroring db.go:902-910.
-/
namespace Badger

/-! ## validation order -/

/-- The verdict of `modify` is the first failing test of the `switch` in txn.go:354-388, in
    this order: read-only, discarded, empty key, reserved `!badger!` prefix, key > 65000 bytes,
    value > ValueLogFileSize, (in memory) value > ValueThreshold, then `checkSize`. -/
theorem C28_validation_order (d : Db) (id : Nat) (t : TxnM) (e : Ent) (h : d.findTxn id = some t) :
    (d.modify id e).2 =
      (if t.update = false then some .readonly
       else if t.discarded = true then some .discarded
       else if e.key = [] then some .emptykey
       else if badgerPrefix <+: e.key then some .invalidkey
       else if 65000 < e.key.length then some .keytoobig
       else if d.opts.vlogFileSize < e.val.length then some .valtoobig
       else if d.opts.inMemory = true ∧ d.opts.threshold < e.val.length then some .valtoobig
       else if d.opts.maxBatchCount ≤ t.count + 1 ∨
           d.opts.maxBatchSize ≤ t.size + estimateSize d.opts.threshold e + 10 then some .txntoobig
       else none) := by
  rw [modify_verdict e h]
  unfold modCheck
  by_cases h1 : t.update = false
  · simp [h1]
  by_cases h2 : t.discarded = true
  · simp [h1, h2]
  by_cases h3 : e.key = []
  · simp [h1, h2, h3]
  by_cases h4 : badgerPrefix <+: e.key
  · simp [h1, h2, h3, h4]
  by_cases h5 : 65000 < e.key.length
  · simp [h1, h2, h3, h4, h5]
  by_cases h6 : d.opts.vlogFileSize < e.val.length
  · simp [h1, h2, h3, h4, h5, h6]
  by_cases h7 : d.opts.inMemory = true ∧ d.opts.threshold < e.val.length
  · simp [h1, h2, h3, h4, h5, h6, h7]
  by_cases h8 : d.opts.maxBatchCount ≤ t.count + 1 ∨
      d.opts.maxBatchSize ≤ t.size + estimateSize d.opts.threshold e + 10
  · simp [h1, h2, h3, h4, h5, h6, h7, h8]
  · simp [h1, h2, h3, h4, h5, h6, h7, h8]

/-- Each verdict as an iff on the inputs. -/
theorem C28_verdict_iff (d : Db) (id : Nat) (t : TxnM) (e : Ent) (h : d.findTxn id = some t) :
    ((d.modify id e).2 = some .readonly ↔ t.update = false) ∧
    ((d.modify id e).2 = some .discarded ↔ t.update = true ∧ t.discarded = true) ∧
    ((d.modify id e).2 = some .emptykey ↔ t.update = true ∧ t.discarded = false ∧ e.key = []) ∧
    ((d.modify id e).2 = some .invalidkey ↔
      t.update = true ∧ t.discarded = false ∧ e.key ≠ [] ∧ badgerPrefix <+: e.key) ∧
    ((d.modify id e).2 = some .keytoobig ↔
      t.update = true ∧ t.discarded = false ∧ e.key ≠ [] ∧ ¬ badgerPrefix <+: e.key ∧
      65000 < e.key.length) ∧
    ((d.modify id e).2 = some .valtoobig ↔
      t.update = true ∧ t.discarded = false ∧ e.key ≠ [] ∧ ¬ badgerPrefix <+: e.key ∧
      e.key.length ≤ 65000 ∧
      (d.opts.vlogFileSize < e.val.length ∨ (d.opts.inMemory = true ∧ d.opts.threshold < e.val.length))) ∧
    ((d.modify id e).2 = some .txntoobig ↔
      t.update = true ∧ t.discarded = false ∧ e.key ≠ [] ∧ ¬ badgerPrefix <+: e.key ∧
      e.key.length ≤ 65000 ∧ e.val.length ≤ d.opts.vlogFileSize ∧
      ¬ (d.opts.inMemory = true ∧ d.opts.threshold < e.val.length) ∧
      (d.opts.maxBatchCount ≤ t.count + 1 ∨
        d.opts.maxBatchSize ≤ t.size + estimateSize d.opts.threshold e + 10)) ∧
    ((d.modify id e).2 = none ↔
      t.update = true ∧ t.discarded = false ∧ e.key ≠ [] ∧ ¬ badgerPrefix <+: e.key ∧
      e.key.length ≤ 65000 ∧ e.val.length ≤ d.opts.vlogFileSize ∧
      ¬ (d.opts.inMemory = true ∧ d.opts.threshold < e.val.length) ∧
      t.count + 1 < d.opts.maxBatchCount ∧
      t.size + estimateSize d.opts.threshold e + 10 < d.opts.maxBatchSize) := by
  rw [C28_validation_order d id t e h]
  by_cases h1 : t.update = false
  · simp [h1]
  have h1' : t.update = true := by simpa using h1
  by_cases h2 : t.discarded = true
  · simp [h1', h2]
  have h2' : t.discarded = false := by simpa using h2
  by_cases h3 : e.key = []
  · simp [h1', h2', h3]
  by_cases h4 : badgerPrefix <+: e.key
  · simp [h1', h2', h3, h4]
  by_cases h5 : 65000 < e.key.length
  · have h5n : ¬ e.key.length ≤ 65000 := by omega
    simp [h1', h2', h3, h4, h5, h5n]
  have h5' : e.key.length ≤ 65000 := by omega
  by_cases h6 : d.opts.vlogFileSize < e.val.length
  · have h6n : ¬ e.val.length ≤ d.opts.vlogFileSize := by omega
    simp [h1', h2', h3, h4, h5, h5', h6, h6n]
  have h6' : e.val.length ≤ d.opts.vlogFileSize := by omega
  by_cases h7 : d.opts.inMemory = true ∧ d.opts.threshold < e.val.length
  · simp [h1', h2', h3, h4, h5, h5', h6, h6', h7]
  by_cases h8a : d.opts.maxBatchCount ≤ t.count + 1
  · have h8an : ¬ t.count + 1 < d.opts.maxBatchCount := by omega
    simp [h1', h2', h3, h4, h5, h5', h6, h6', h7, h8a, h8an]
  have h8a' : t.count + 1 < d.opts.maxBatchCount := by omega
  by_cases h8b : d.opts.maxBatchSize ≤ t.size + estimateSize d.opts.threshold e + 10
  · have h8bn : ¬ t.size + estimateSize d.opts.threshold e + 10 < d.opts.maxBatchSize := by omega
    simp [h1', h2', h3, h4, h5, h5', h6, h6', h7, h8a, h8a', h8b, h8bn]
  · have h8b' : t.size + estimateSize d.opts.threshold e + 10 < d.opts.maxBatchSize := by omega
    simp [h1', h2', h3, h4, h5, h5', h6, h6', h7, h8a, h8a', h8b, h8b']

/-- A transaction that no longer exists (never begun) answers "discarded". -/
theorem C28_unknown_txn (d : Db) (id : Nat) (e : Ent) (h : d.findTxn id = none) :
    d.modify id e = (d, some .discarded) := modify_none e h

/-- A rejected write leaves the whole database — the transaction included — unchanged. -/
theorem C28_reject_no_effect (d : Db) (id : Nat) (e : Ent) (err : ModErr)
    (h : (d.modify id e).2 = some err) : (d.modify id e).1 = d := by
  cases hf : d.findTxn id with
  | none => rw [modify_none e hf]
  | some t =>
    rw [modify_eq e hf] at h ⊢
    cases hc : modCheck d t e with
    | some err' => rfl
    | none => rw [hc] at h; cases h

/-- An accepted write is the pending write of its key afterwards, and `Txn.Get` returns it
    (at version `readTs`), or "not found" when it is a delete / already expired. -/
theorem C28_accept_pending (d : Db) (id : Nat) (t : TxnM) (e : Ent) (hf : d.findTxn id = some t)
    (h : (d.modify id e).2 = none) :
    ∃ t', (d.modify id e).1.findTxn id = some t' ∧ e ∈ t'.pending ∧
      t'.pending.find? (·.key == e.key) = some e ∧ t'.readTs = t.readTs ∧
      (∀ x ∈ t.pending, x.key ≠ e.key → x ∈ t'.pending) ∧
      ((d.modify id e).1.txnGet id e.key).2 =
        (if deletedOrExpired e.emeta e.exp d.now then GetRes.notfound else .found e t.readTs) := by
  have hv := (C28_verdict_iff d id t e hf).2.2.2.2.2.2.2.1 h
  obtain ⟨hu, hd, hk, -⟩ := hv
  rw [modify_eq e hf] at h ⊢
  cases hc : modCheck d t e with
  | some err' => rw [hc] at h; cases h
  | none =>
    have hid : t.id = id := findTxn_id hf
    have hfind : (d.setTxn (modTxn d t e)).findTxn id = some (modTxn d t e) := by
      have := findTxn_setTxn_self d (modTxn d t e)
      rwa [show (modTxn d t e).id = id from hid] at this
    have hp : (modTxn d t e).pending.find? (·.key == e.key) = some e := by
      simp only [modTxn, List.find?_append]
      have : (t.pending.filter (·.key != e.key)).find? (·.key == e.key) = none := by
        rw [List.find?_eq_none]
        intro x hx
        simp only [List.mem_filter, bne_iff_ne, ne_eq] at hx
        simpa using hx.2
      simp [this]
    refine ⟨modTxn d t e, hfind, by simp [modTxn], hp, rfl, ?_, ?_⟩
    · intro x hx hne
      simp [modTxn, hx, hne]
    · show ((d.setTxn (modTxn d t e)).txnGet id e.key).2 = _
      rw [txnGet_pending hfind hk hu hd hp]
      rfl

/-- Determinism: the verdict is a function of the transaction's flags and counters, the key,
    the value length and the options — not of the LSM tree, other transactions, or time. -/
theorem C28_deterministic (d1 d2 : Db) (id : Nat) (t1 t2 : TxnM) (e1 e2 : Ent)
    (h1 : d1.findTxn id = some t1) (h2 : d2.findTxn id = some t2) (ho : d1.opts = d2.opts)
    (hu : t1.update = t2.update) (hd : t1.discarded = t2.discarded) (hc : t1.count = t2.count)
    (hs : t1.size = t2.size) (hk : e1.key = e2.key) (hv : e1.val.length = e2.val.length) :
    (d1.modify id e1).2 = (d2.modify id e2).2 := by
  rw [C28_validation_order d1 id t1 e1 h1, C28_validation_order d2 id t2 e2 h2]
  have he : estimateSize d2.opts.threshold e1 = estimateSize d2.opts.threshold e2 := by
    simp only [estimateSize, hk, hv]
  simp only [ho, hu, hd, hc, hs, hk, hv, he]

/-! ## size accounting: `checkSize` against `sendToWriteCh` -/

/-- parameters of the two size computations (regenerated from the source) -/
structure SizeParams where
  finReserve : Nat        -- initial `txn.size`: room reserved for the end-of-transaction marker
  perEntryPad : Nat       -- what `checkSize` adds per entry on top of the estimate
  tsLen : Nat             -- bytes `commitAndSend` appends to every key (`KeyWithTs`)
  finCost : Nat → Nat     -- `estimateSize` of the end-of-transaction marker, by commit timestamp
  finMax : Nat            -- an upper bound of `finCost`

/-- `txn.size` after the entries `es` were accepted one by one (`checkSize`). -/
def runSize (P : SizeParams) (thr : Nat) (es : List Ent) : Nat :=
  es.foldl (fun s e => s + estimateSize thr e + P.perEntryPad) P.finReserve

/-- every `checkSize` along the way passed (count starts at 1). -/
def acceptedAll (P : SizeParams) (thr maxCount maxSize : Nat) : Nat → Nat → List Ent → Prop
  | _, _, [] => True
  | count, size, e :: es =>
    count + 1 < maxCount ∧ size + estimateSize thr e + P.perEntryPad < maxSize ∧
      acceptedAll P thr maxCount maxSize (count + 1) (size + estimateSize thr e + P.perEntryPad) es

/-- the sum `sendToWriteCh` computes over the request of `commitAndSend`: every entry with the
    timestamp appended to its key, then the marker. -/
def sentSize (P : SizeParams) (thr : Nat) (es : List Ent) (cts : Nat) : Nat :=
  (es.map (fun e => estimateSize thr e + P.tsLen)).sum + P.finCost cts

/-- `count >= maxBatchCount || size >= maxBatchSize` in `sendToWriteCh`. -/
def sendTooBig (P : SizeParams) (thr maxCount maxSize : Nat) (es : List Ent) (cts : Nat) : Prop :=
  es.length + 1 ≥ maxCount ∨ sentSize P thr es cts ≥ maxSize

theorem acceptedAll_bounds (P : SizeParams) (thr maxCount maxSize : Nat) (count size : Nat)
    (es : List Ent) (h : acceptedAll P thr maxCount maxSize count size es) (hne : es ≠ []) :
    count + es.length < maxCount ∧
    size + (es.map (fun e => estimateSize thr e + P.perEntryPad)).sum < maxSize := by
  induction es generalizing count size with
  | nil => exact absurd rfl hne
  | cons e es ih =>
    obtain ⟨h1, h2, h3⟩ := h
    cases es with
    | nil => simp; omega
    | cons e' es' =>
      have := ih (count + 1) _ h3 (by simp)
      simp only [List.length_cons, List.map_cons, List.sum_cons] at this ⊢
      omega

/-- GENERIC fit theorem: if the reserve covers the marker and the per-entry padding covers the
    timestamp suffix, a transaction all of whose writes passed `checkSize` is not rejected by
    `sendToWriteCh`. (`es` = the entries sent, i.e. at most the accepted ones.) -/
theorem C28_fits (P : SizeParams) (thr maxCount maxSize : Nat) (es : List Ent) (cts : Nat)
    (hres : P.finReserve ≥ P.finMax) (hpad : P.perEntryPad ≥ P.tsLen)
    (hfin : P.finCost cts ≤ P.finMax) (hne : es ≠ [])
    (hacc : acceptedAll P thr maxCount maxSize 1 P.finReserve es) :
    ¬ sendTooBig P thr maxCount maxSize es cts := by
  have ⟨hc, hs⟩ := acceptedAll_bounds P thr maxCount maxSize 1 P.finReserve es hacc hne
  have hle : (es.map (fun e => estimateSize thr e + P.tsLen)).sum ≤
      (es.map (fun e => estimateSize thr e + P.perEntryPad)).sum := by
    clear hacc hc hs hne
    induction es with
    | nil => simp
    | cons e es ih => simp only [List.map_cons, List.sum_cons]; omega
  unfold sendTooBig sentSize
  omega

/-- the appended timestamp costs exactly 8 bytes in the estimate -/
theorem estimateSize_keyWithTs (thr : Nat) (e : Ent) (ts : Nat) :
    estimateSize thr { e with key := keyWithTs e.key ts } = estimateSize thr e + 8 := by
  unfold estimateSize
  simp only [keyWithTs_length]
  split <;> omega

/-! ### the model's transactions satisfy `checkSize`'s bookkeeping -/

/-- `txn.size`/`txn.count` dominate what the entries still held by the transaction
    (pending + duplicate writes, i.e. exactly the request of `commitAndSend`) need. -/
def SizeInv (R : Nat) (d : Db) (t : TxnM) : Prop :=
  R + ((t.pending ++ t.dups).map (fun e => estimateSize d.opts.threshold e + 10)).sum ≤ t.size ∧
  (t.pending ++ t.dups).length + 1 ≤ t.count

/-- the reserve `newTransaction` puts into `txn.size`, read off the model -/
def beginReserve : Nat :=
  match ((Db.init {} 0).begin 0 true 0).1.txns with
  | t :: _ => t.size
  | [] => 0

theorem sizeInv_begin (d : Db) (id : Nat) (u : Bool) (mts : Nat) :
    ∃ t, (d.begin id u mts).1.findTxn id = some t ∧ SizeInv beginReserve (d.begin id u mts).1 t := by
  unfold Db.begin
  refine ⟨_, findTxn_setTxn_self _ _, ?_⟩
  simp only [SizeInv, List.append_nil, List.map_nil, List.sum_nil, List.length_nil]
  decide

theorem sum_filter_find_le (w : Ent → Nat) (k : Bytes) (l : List Ent) (o : Ent)
    (h : l.find? (·.key == k) = some o) :
    ((l.filter (·.key != k)).map w).sum + w o ≤ (l.map w).sum := by
  induction l with
  | nil => cases h
  | cons x xs ih =>
    simp only [List.find?_cons] at h
    by_cases hx : x.key = k
    · have hx' : (x.key == k) = true := by simpa using hx
      rw [hx'] at h
      injection h with h; subst h
      have hle : ((xs.filter (·.key != k)).map w).sum ≤ (xs.map w).sum := by
        clear ih hx'
        induction xs with
        | nil => simp
        | cons y ys ih2 =>
          simp only [List.filter_cons]
          split <;> simp only [List.map_cons, List.sum_cons] <;> omega
      simp only [List.filter_cons, hx, bne_self_eq_false, Bool.false_eq_true, if_false,
        List.map_cons, List.sum_cons]
      omega
    · have hx' : (x.key == k) = false := by simpa using hx
      rw [hx'] at h
      have := ih h
      simp only [List.filter_cons, bne, hx', Bool.not_false, if_true, List.map_cons, List.sum_cons]
      simp only [bne] at this
      omega

theorem sum_filter_le (w : Ent → Nat) (p : Ent → Bool) (l : List Ent) :
    ((l.filter p).map w).sum ≤ (l.map w).sum := by
  induction l with
  | nil => simp
  | cons y ys ih =>
    simp only [List.filter_cons]
    split <;> simp only [List.map_cons, List.sum_cons] <;> omega

theorem length_filter_find_lt (k : Bytes) (l : List Ent) (o : Ent)
    (h : l.find? (·.key == k) = some o) : (l.filter (·.key != k)).length + 1 ≤ l.length := by
  have h1 := sum_filter_find_le (fun _ => 1) k l o h
  have h2 : ∀ l : List Ent, (l.map (fun _ => 1)).sum = l.length := by
    intro l; induction l with
    | nil => rfl
    | cons x xs ih => simp only [List.map_cons, List.sum_cons, List.length_cons, ih]; omega
  rw [h2, h2] at h1
  exact h1

/-- `SizeInv` is preserved by an accepted `modify`. -/
theorem sizeInv_modify (R : Nat) (d : Db) (id : Nat) (t : TxnM) (e : Ent) (hf : d.findTxn id = some t)
    (hi : SizeInv R d t) (h : (d.modify id e).2 = none) :
    (d.modify id e).1.findTxn id = some (modTxn d t e) ∧ SizeInv R (d.modify id e).1 (modTxn d t e) ∧
    (modTxn d t e).size < d.opts.maxBatchSize ∧ (modTxn d t e).count < d.opts.maxBatchCount := by
  have hv := (C28_verdict_iff d id t e hf).2.2.2.2.2.2.2.1 h
  rw [modify_eq e hf] at h ⊢
  cases hc : modCheck d t e with
  | some err' => rw [hc] at h; cases h
  | none =>
    have hid : t.id = id := findTxn_id hf
    have hfind : (d.setTxn (modTxn d t e)).findTxn id = some (modTxn d t e) := by
      have := findTxn_setTxn_self d (modTxn d t e)
      rwa [show (modTxn d t e).id = id from hid] at this
    refine ⟨hfind, ?_, hv.2.2.2.2.2.2.2.2, hv.2.2.2.2.2.2.2.1⟩
    obtain ⟨hs, hn⟩ := hi
    simp only [SizeInv, setTxn_opts, modTxn]
    simp only [List.map_append, List.sum_append, List.length_append] at hs hn ⊢
    cases ho : t.pending.find? (·.key == e.key) with
    | none =>
      have h1 := sum_filter_le (fun e => estimateSize d.opts.threshold e + 10) (·.key != e.key) t.pending
      have h2 := List.length_filter_le (·.key != e.key) t.pending
      simp only [List.map_cons, List.map_nil, List.sum_cons, List.sum_nil, List.length_cons, List.length_nil]
      constructor <;> omega
    | some o =>
      have h1 := sum_filter_find_le (fun e => estimateSize d.opts.threshold e + 10) e.key t.pending o ho
      have h2 := length_filter_find_lt e.key t.pending o ho
      simp only [List.map_cons, List.map_nil, List.sum_cons, List.sum_nil, List.length_cons, List.length_nil]
      split
      · simp only [List.map_append, List.sum_append, List.length_append, List.map_cons, List.map_nil,
          List.sum_cons, List.sum_nil, List.length_cons, List.length_nil]
        constructor <;> omega
      · constructor <;> omega

/-- the parameters of the code for a reserve `R`, over an arbitrary marker cost -/
def realParams (R : Nat) (finCost : Nat → Nat) (finMax : Nat) : SizeParams :=
  { finReserve := R, perEntryPad := 10, tsLen := 8, finCost := finCost, finMax := finMax }

/-- Model-level fit theorem with the hypothesis explicit: a model transaction that satisfies the
    bookkeeping invariant for reserve `R` and whose last write was accepted (so
    `size < maxBatchSize`, `count < maxBatchCount`) fits into `sendToWriteCh` **provided the
    marker costs no more than the reserve**. -/
theorem C28_fits_model (R : Nat) (d : Db) (t : TxnM) (finCost : Nat → Nat) (cts : Nat)
    (hi : SizeInv R d t) (hs : t.size < d.opts.maxBatchSize) (hc : t.count < d.opts.maxBatchCount)
    (hfin : finCost cts ≤ R) :
    ¬ sendTooBig (realParams R finCost R) d.opts.threshold d.opts.maxBatchCount
        d.opts.maxBatchSize (t.pending ++ t.dups) cts := by
  obtain ⟨h1, h2⟩ := hi
  have hle : ((t.pending ++ t.dups).map (fun e => estimateSize d.opts.threshold e + 8)).sum ≤
      ((t.pending ++ t.dups).map (fun e => estimateSize d.opts.threshold e + 10)).sum := by
    generalize t.pending ++ t.dups = l
    induction l with
    | nil => simp
    | cons e es ih => simp only [List.map_cons, List.sum_cons]; omega
  unfold sendTooBig sentSize realParams
  simp only
  omega

/-! ### the constants: before and after the F6 fix -/

/-- number of decimal digits (fuel 19 covers every `uint64`) -/
def decLenF : Nat → Nat → Nat
  | 0, _ => 1
  | f + 1, n => if n < 10 then 1 else 1 + decLenF f (n / 10)

def decLen (n : Nat) : Nat := decLenF 19 n

theorem decLenF_le (f n : Nat) : decLenF f n ≤ f + 1 := by
  induction f generalizing n with
  | zero => simp [decLenF]
  | succ f ih =>
    unfold decLenF
    split
    · omega
    · have := ih (n / 10); omega

/-- `estimateSize` of the marker entry `{Key: KeyWithTs(txnKey, cts), Value: strconv(cts)}`. -/
def finCostReal (thr : Nat) (cts : Nat) : Nat :=
  estimateSize thr { key := keyWithTs (List.replicate txnKeyLen 0) cts, ver := 0, emeta := bitFinTxn,
                     umeta := 0, exp := 0, val := List.replicate (decLen cts) 0x30 }

theorem finCostReal_le (thr cts : Nat) : finCostReal thr cts ≤ txnKeyLen + 8 + 20 + 2 := by
  unfold finCostReal estimateSize
  have := decLenF_le 19 cts
  simp only [keyWithTs_length, List.length_replicate, decLen] at *
  split <;> omega

/-- today's reserve (after the F6 `fix:` commit): `len(txnKey) + 30 = 41` -/
theorem C28_reserve_today : beginReserve = txnKeyLen + 8 + 20 + 2 := by decide

/-- the side condition of `C28_fits` holds for today's constants: reserve 41 ≥ marker ≤ 41. -/
theorem C28_side_condition_today :
    (realParams beginReserve (finCostReal 1024) (txnKeyLen + 8 + 20 + 2)).finReserve ≥
      (realParams beginReserve (finCostReal 1024) (txnKeyLen + 8 + 20 + 2)).finMax := by decide

/-- **Accepted transactions fit** (today's code, unconditional): for every model transaction
    satisfying the bookkeeping invariant (`sizeInv_begin`, `sizeInv_modify`) whose last write
    was accepted, `sendToWriteCh` does not answer `ErrTxnTooBig`, whatever the commit
    timestamp and the threshold. -/
theorem C28_fits_today (d : Db) (t : TxnM) (cts : Nat)
    (hi : SizeInv beginReserve d t) (hs : t.size < d.opts.maxBatchSize)
    (hc : t.count < d.opts.maxBatchCount) :
    ¬ sendTooBig (realParams beginReserve (finCostReal d.opts.threshold) beginReserve) d.opts.threshold
        d.opts.maxBatchCount d.opts.maxBatchSize (t.pending ++ t.dups) cts :=
  C28_fits_model beginReserve d t _ cts hi hs hc
    (by rw [C28_reserve_today]; exact finCostReal_le _ _)

/-- the side condition for the ORIGINAL constants (reserve `len(txnKey)+10 = 21`) was false. -/
theorem C28_side_condition_false_before_fix :
    ¬ ((realParams (txnKeyLen + 10) (finCostReal 1024) (txnKeyLen + 8 + 20 + 2)).finReserve ≥
        (realParams (txnKeyLen + 10) (finCostReal 1024) (txnKeyLen + 8 + 20 + 2)).finMax) := by decide

/-- F6 on a small instance, over the ORIGINAL parameters (reserve 21): `maxBatchSize = 35`; one
    entry `a ↦ ""` passes every `checkSize` (`21 + 3 + 10 = 34 < 35`), and at commit timestamp
    1000 `sendToWriteCh` computes `(3 + 8) + (11 + 8 + 4 + 2) = 36 ≥ 35`: `ErrTxnTooBig`.
    (The replay on the real code is the corpus entry for F6; the current model has the fixed
    reserve, so the same instance fits: second part.) -/
theorem C28_fits_counterexample :
    let e : Ent := { key := [0x61], ver := 0, emeta := 0, umeta := 0, exp := 0, val := [] }
    let Pold := realParams (txnKeyLen + 10) (finCostReal 1024) 41
    let Pnew := realParams beginReserve (finCostReal 1024) 41
    (acceptedAll Pold 1024 100 35 1 Pold.finReserve [e] ∧ sendTooBig Pold 1024 100 35 [e] 1000) ∧
    (acceptedAll Pnew 1024 100 55 1 Pnew.finReserve [e] ∧ ¬ sendTooBig Pnew 1024 100 55 [e] 1000) := by
  refine ⟨⟨⟨by decide, by decide, trivial⟩, .inr (by decide)⟩, ⟨⟨by decide, by decide, trivial⟩, ?_⟩⟩
  intro h
  rcases h with h | h
  · revert h; decide
  · revert h; decide

-- non-vacuity of `C28_fits`: parameters with a sufficient reserve (41) and an accepted entry
example :
    let P : SizeParams := realParams 21 (finCostReal 1024) 41
    let P' : SizeParams := { P with finReserve := 41 }
    let e : Ent := { key := [0x61], ver := 0, emeta := 0, umeta := 0, exp := 0, val := [] }
    P'.finReserve ≥ P'.finMax ∧ P'.perEntryPad ≥ P'.tsLen ∧ acceptedAll P' 1024 100 60 1 P'.finReserve [e] := by
  refine ⟨by decide, by decide, by decide, by decide, trivial⟩

-- non-vacuity of the validation theorems: an accepted and a rejected write
example :
    let d0 := Db.init { maxBatchCount := 100, maxBatchSize := 100000 } 0
    let d1 := (d0.begin 1 true 0).1
    (d1.modify 1 { key := [0x61], ver := 0, emeta := 0, umeta := 7, exp := 0, val := [1, 2] }).2 = none ∧
    (d1.modify 1 { key := badgerPrefix ++ [0x61], ver := 0, emeta := 0, umeta := 7, exp := 0, val := [] }).2
      = some .invalidkey ∧
    (d1.modify 1 { key := [], ver := 0, emeta := 0, umeta := 7, exp := 0, val := [] }).2 = some .emptykey := by
  decide

end Badger
