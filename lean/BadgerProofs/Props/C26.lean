import BadgerModel.StreamWriter
import BadgerModel.Spec.Mvcc
import BadgerProofs.Lemmas.StreamOrd
import BadgerProofs.Lemmas.SwL
/-!
# C26 — StreamWriter builds exactly the streamed database (stream_writer.go)

`Prepare`/`PrepareIncremental` choose an empty target level, `Write` demultiplexes the KVs into one
sorted writer per stream, `Flush` cuts the writers' entries into tables, installs them on the target
level, sorts every level by `Smallest`, restarts the oracle above the largest streamed version and
validates. The theorems hold for every file-id list `ids` given to `swFlush` (ids are
identification only). Helper lemmas: `Lemmas/SwL.lean`.
-/
namespace Badger

open SO SWL

/-! ## Specification side -/

/-- the entries of stream `sid` among the KVs written, in arrival order (done markers carry no data) -/
def projStream (kvs : List SKV) (sid : Nat) : List Ent :=
  (kvs.filter (fun kv => !kv.done && kv.sid == sid)).map (·.e)

/-- all data KVs written, in arrival order -/
def dataEnts (kvs : List SKV) : List Ent := (kvs.filter (fun kv => !kv.done)).map (·.e)

/-- the API's precondition ("The streams must not have any overlapping key ranges. Within each
    stream, the keys must be sorted."): every stream is strictly sorted by internal key, and
    two different streams occupy disjoint, ordered user-key ranges. -/
def SwInputOk (kvs : List SKV) : Prop :=
  (∀ sid, SortedEnts (projStream kvs sid)) ∧
  (∀ s1 s2, s1 ≠ s2 →
    (∀ x ∈ projStream kvs s1, ∀ y ∈ projStream kvs s2, cmpBytes x.key y.key = .lt) ∨
    (∀ x ∈ projStream kvs s1, ∀ y ∈ projStream kvs s2, cmpBytes y.key x.key = .lt))

/-- the C14 invariant of one level (same shape as `LevelOk` of `Lemmas/LsmInv.lean`): tables
    non-empty and strictly sorted; on levels `≥ 1` ordered and disjoint by USER key. -/
def SwLevelOk (i : Nat) (tbls : List Tbl) : Prop :=
  (∀ t ∈ tbls, t.ents ≠ [] ∧ SortedEnts t.ents) ∧
  (1 ≤ i → tbls.Pairwise (fun a b => ∀ x ∈ a.ents, ∀ y ∈ b.ents, cmpBytes x.key y.key = .lt))

/-- a freshly prepared writer state: no writer yet, `prevLevel` is 0 (write to the last level)
    or the index of a level of the DB -/
def SwFresh (d : Db) (st : SwState) : Prop :=
  st.writers = [] ∧ st.maxVersion = 0 ∧ st.prevLevel < d.lsm.levels.length

/-- the level the tables go to, once data has been written -/
def swTarget (d : Db) (st0 : SwState) : Nat :=
  (if st0.prevLevel == 0 then d.lsm.levels.length else st0.prevLevel) - 1

/-! ## Glue -/

private theorem projStream_eq (kvs : List SKV) (sid : Nat) : projStream kvs sid = SWL.proj kvs sid := rfl
private theorem dataEnts_eq (kvs : List SKV) : dataEnts kvs = SWL.dataE kvs := rfl

/-- everything the write phase establishes, for a fresh state -/
private theorem sw_written {d : Db} {st0 st : SwState} {bufs : List (List SKV)} (h0 : SwFresh d st0)
    (hw : d.swWriteAll st0 bufs = (st, .ok)) :
    Inv d.swForm st.writers (projStream bufs.flatten) (dataEnts bufs.flatten) := by
  have hI : Inv d.swForm st0.writers (fun _ => []) [] := by rw [h0.1]; exact Inv.nil _
  exact (swWriteAll_inv hI hw).congr (by intro sid; simp [projStream_eq]) (by simp [dataEnts_eq])

private theorem sw_newEnts_sorted {d : Db} {st0 st : SwState} {bufs : List (List SKV)} (h0 : SwFresh d st0)
    (hin : SwInputOk bufs.flatten) (hw : d.swWriteAll st0 bufs = (st, .ok)) :
    SortedEnts st.newEnts :=
  newEnts_sorted (sw_written h0 hw) (swForm_key d) (swForm_ver d) hin.1
    (fun s1 s2 h => (hin.2 s1 s2 h).imp (fun h => h) (fun h x hx y hy => h y hy x hx))

private theorem sw_target {d : Db} {st0 st : SwState} {bufs : List (List SKV)} (h0 : SwFresh d st0)
    (hdata : dataEnts bufs.flatten ≠ []) (hw : d.swWriteAll st0 bufs = (st, .ok)) :
    st.prevLevel - 1 = swTarget d st0 ∧ swTarget d st0 < d.lsm.levels.length := by
  obtain ⟨hp, _⟩ := swWriteAll_scalars hw
  rw [← dataEnts_eq, if_neg hdata] at hp
  have hlt := h0.2.2
  unfold swTarget
  rw [hp]
  refine ⟨rfl, ?_⟩
  split <;> omega

private theorem sw_tables {st : SwState} {sizes ids : List Nat} {tables0 : List Tbl}
    (hs : splitSizes sizes st.newEnts = some tables0) :
    (withIds tables0 ids).map (·.ents) = tables0.map (·.ents) ∧
    tblEnts (withIds tables0 ids) = st.newEnts ∧ ∀ t ∈ withIds tables0 ids, t.ents ≠ [] := by
  obtain ⟨h1, h2⟩ := splitSizes_some hs
  have hm := withIds_ents tables0 ids
  refine ⟨hm, ?_, forall_ents_congr (P := fun l => l ≠ []) hm.symm h2⟩
  unfold tblEnts at h1 ⊢
  rw [hm, h1]

/-! ## Theorems -/

/-- C26_prepare_target. `Prepare` empties the DB; `PrepareIncremental` picks the level just above
    the topmost non-empty one: in both cases the target level exists and is empty, and every level
    above it is empty too.

    Changed w.r.t. the first draft: hypothesis `hlv` added. Without it the statement is false for
    a `Db` value with `lsm.levels = []` (see the counterexample below); every reachable `Db` has
    `lsm.levels.length = opts.maxLevels`, so `hlv` follows from `hl` there. -/
theorem C26_prepare_target (d : Db) (hl : 0 < d.opts.maxLevels) (hlv : 0 < d.lsm.levels.length) :
    (SwFresh (d.swPrepare).1 (d.swPrepare).2 ∧ (d.swPrepare).1.lsm.allEntries = []) ∧
    (∀ st0, d.swPrepareIncremental = .ok st0 →
      SwFresh d st0 ∧ d.lsm.mem = [] ∧ (∀ i, i ≤ swTarget d st0 → d.lsm.levels.getD i [] = [])) := by
  constructor
  · constructor
    · refine ⟨rfl, rfl, ?_⟩
      simp [Db.swPrepare, Lsm.init]
      exact hl
    · have : (d.swPrepare).1.lsm.allEntries.Perm [] := by
        refine (allEntries_perm _).trans ?_
        have : lvlEnts (List.replicate d.opts.maxLevels ([] : List Tbl)) = [] := by
          generalize d.opts.maxLevels = n
          induction n with
          | zero => rfl
          | succ n ih => rw [List.replicate_succ]; exact ih
        simp [Db.swPrepare, Lsm.init, this]
      exact List.Perm.eq_nil this
  · intro st0 h
    unfold Db.swPrepareIncremental at h
    split at h
    · cases h
    · rename_i hmem
      have hm : d.lsm.mem = [] := by
        simp only [Bool.or_eq_true, not_or, Bool.not_eq_true', Bool.not_eq_true] at hmem
        simpa using hmem.1
      split at h
      · rename_i hnone
        cases h
        refine ⟨⟨rfl, rfl, hlv⟩, hm, ?_⟩
        intro i _
        rw [List.getD_eq_getElem?_getD]
        cases hi : d.lsm.levels[i]? with
        | none => rfl
        | some u =>
          have := List.find?_eq_none.mp hnone (i, u) ((mem_zipIdx _ _ _).mpr hi)
          simpa using this
      · rename_i i ts hsome
        split at h
        · cases h
        · rename_i hi0
          cases h
          obtain ⟨h1, h2⟩ := find_zipIdx _ _ _ _ hsome
          have hilt : i < d.lsm.levels.length := by
            rcases Nat.lt_or_ge i d.lsm.levels.length with h | h
            · exact h
            · rw [List.getElem?_eq_none h] at h1; cases h1
          have hi0' : i ≠ 0 := by simpa using hi0
          refine ⟨⟨rfl, rfl, hilt⟩, hm, ?_⟩
          intro j hj
          have hji : j < i := by
            unfold swTarget at hj
            simp only [beq_iff_eq, if_neg hi0'] at hj
            omega
          rw [List.getD_eq_getElem?_getD]
          cases hu : d.lsm.levels[j]? with
          | none => rfl
          | some u =>
            have := h2 j u hji hu
            simpa using this

/-- C26_contents: after `Flush` the database holds exactly the streamed entries (in their
    `handleRequests` form) plus what it held before (nothing after `Prepare`). -/
theorem C26_contents (d : Db) (st0 st : SwState) (bufs : List (List SKV)) (sizes ids : List Nat)
    (d' : Db) (valid : Bool) (h0 : SwFresh d st0)
    (hw : d.swWriteAll st0 bufs = (st, .ok)) (hf : d.swFlush st sizes ids = some (d', valid)) :
    List.Perm d'.lsm.allEntries ((dataEnts bufs.flatten).map d.swForm ++ d.lsm.allEntries) := by
  obtain ⟨tables0, hs, _, hlsm, _⟩ := swFlush_some hf
  obtain ⟨_, hT, _⟩ := sw_tables (ids := ids) hs
  have hI := sw_written h0 hw
  have hidx : withIds tables0 ids ≠ [] → st.prevLevel - 1 < d.lsm.levels.length := by
    intro hne
    have hdata : dataEnts bufs.flatten ≠ [] := by
      intro e
      have hp := newEnts_perm hI
      rw [e, List.map_nil] at hp
      rw [List.Perm.eq_nil hp] at hT
      cases hwi : withIds tables0 ids with
      | nil => exact hne hwi
      | cons t ts =>
        obtain ⟨_, _, hne'⟩ := sw_tables (ids := ids) hs
        rw [hwi] at hT hne'
        simp only [tblEnts_cons, List.append_eq_nil_iff] at hT
        exact hne' t (by simp) hT.1
    obtain ⟨e1, e2⟩ := sw_target h0 hdata hw
    rw [e1]; exact e2
  have hL := flushLevels_perm d st (withIds tables0 ids) hidx
  rw [hT] at hL
  refine (allEntries_perm d'.lsm).trans ?_
  rw [hlsm]
  show ((d.lsm.mem :: d.lsm.imm.reverse).flatten ++ lvlEnts (flushLevels d st (withIds tables0 ids))).Perm _
  refine (List.Perm.append (List.Perm.refl _) hL).trans ?_
  refine (List.perm_append_comm_assoc _ _ _).trans ?_
  exact List.Perm.append (newEnts_perm hI) (allEntries_perm d.lsm).symm

/-- C26_levels_valid: under the API's precondition the target level (empty before, see
    `C26_prepare_target`) satisfies the C14 invariant after `Flush`, holds the streamed entries
    in internal-key order, and passes `validate`. -/
theorem C26_levels_valid (d : Db) (st0 st : SwState) (bufs : List (List SKV)) (sizes ids : List Nat)
    (d' : Db) (valid : Bool) (h0 : SwFresh d st0) (hin : SwInputOk bufs.flatten)
    (hempty : d.lsm.levels.getD (swTarget d st0) [] = [])
    (hdata : dataEnts bufs.flatten ≠ [])
    (hw : d.swWriteAll st0 bufs = (st, .ok)) (hf : d.swFlush st sizes ids = some (d', valid)) :
    SwLevelOk (swTarget d st0) (d'.lsm.levels.getD (swTarget d st0) []) ∧
    ((d'.lsm.levels.getD (swTarget d st0) []).Pairwise
      (fun a b => ∀ x ∈ a.ents, ∀ y ∈ b.ents, cmpBytes x.key y.key = .lt)) ∧
    SortedEnts ((d'.lsm.levels.getD (swTarget d st0) []).map (·.ents)).flatten ∧
    levelValid (d'.lsm.levels.getD (swTarget d st0) []) = true := by
  obtain ⟨tables0, hs, hk, hlsm, _⟩ := swFlush_some hf
  obtain ⟨hm, hT, hne⟩ := sw_tables (ids := ids) hs
  obtain ⟨e1, e2⟩ := sw_target h0 hdata hw
  have hsorted := sw_newEnts_sorted h0 hin hw
  have hT0 : tblEnts tables0 = st.newEnts := (splitSizes_some hs).1
  -- the new tables: key-disjoint, ordered
  have hpk : (withIds tables0 ids).Pairwise
      (fun a b => ∀ x ∈ a.ents, ∀ y ∈ b.ents, cmpBytes x.key y.key = .lt) :=
    pairwise_ents_congr (R := fun a b => ∀ x ∈ a, ∀ y ∈ b, cmpBytes x.key y.key = .lt) hm.symm
      (keyCuts_pairwise hk (hT0 ▸ hsorted))
  have hflat : SortedEnts ((withIds tables0 ids).map (·.ents)).flatten := by
    have : ((withIds tables0 ids).map (·.ents)).flatten = st.newEnts := hT
    rw [this]; exact hsorted
  obtain ⟨hs1, hs2⟩ := sorted_flatten.mp hflat
  have hpe : (withIds tables0 ids).Pairwise (fun a b => ∀ x ∈ a.ents, ∀ y ∈ b.ents, elt x y) :=
    List.pairwise_map.mp hs2
  -- the level after the flush is exactly the new tables
  have hlevel : d'.lsm.levels.getD (swTarget d st0) [] = withIds tables0 ids := by
    rw [hlsm]
    show (flushLevels d st (withIds tables0 ids)).getD (swTarget d st0) [] = _
    rw [← e1] at hempty e2 ⊢
    rw [flushLevels_getD d st _ e2 hempty]
    exact sortBySmallest_id hne hpe
  rw [hlevel]
  refine ⟨⟨?_, fun _ => hpk⟩, hpk, hflat, levelValid_of_sorted hne hpe⟩
  intro t ht
  exact ⟨hne t ht, hs1 t.ents (List.mem_map.mpr ⟨t, ht, rfl⟩)⟩

/-- C26_ts: in normal mode the next commit timestamp is above every streamed version and is
    never lowered. -/
theorem C26_ts (d : Db) (st0 st : SwState) (bufs : List (List SKV)) (sizes ids : List Nat)
    (d' : Db) (valid : Bool) (h0 : SwFresh d st0) (hm : d.opts.managed = false)
    (hw : d.swWriteAll st0 bufs = (st, .ok)) (hf : d.swFlush st sizes ids = some (d', valid)) :
    d.nextTs ≤ d'.nextTs ∧ ∀ e ∈ dataEnts bufs.flatten, e.ver < d'.nextTs := by
  obtain ⟨_, _, _, _, hts⟩ := swFlush_some hf
  obtain ⟨_, _, hv, _⟩ := swWriteAll_scalars hw
  have _ := h0
  rw [hts]
  unfold flushTs
  simp only [hm, Bool.false_eq_true, if_false]
  constructor
  · split <;> omega
  · intro e he
    have := hv e he
    split <;> omega

/-- C26_batching_irrelevant: two write sequences that deliver the same entries per stream (any
    batching into buffers, any interleaving of the stream ids, done markers anywhere) give the
    same `Flush` result. -/
theorem C26_batching_irrelevant (d : Db) (st0 st1 st2 : SwState) (bufs1 bufs2 : List (List SKV))
    (sizes ids : List Nat) (h0 : SwFresh d st0) (hin : SwInputOk bufs1.flatten)
    (hproj : ∀ sid, projStream bufs1.flatten sid = projStream bufs2.flatten sid)
    (hw1 : d.swWriteAll st0 bufs1 = (st1, .ok)) (hw2 : d.swWriteAll st0 bufs2 = (st2, .ok)) :
    d.swFlush st1 sizes ids = d.swFlush st2 sizes ids := by
  have hin2 : SwInputOk bufs2.flatten :=
    ⟨fun sid => hproj sid ▸ hin.1 sid, fun s1 s2 h => by rw [← hproj s1, ← hproj s2]; exact hin.2 s1 s2 h⟩
  have hmem : ∀ e, e ∈ dataEnts bufs1.flatten ↔ e ∈ dataEnts bufs2.flatten := by
    intro e
    rw [dataEnts_eq, dataEnts_eq, mem_dataE, mem_dataE]
    constructor
    · rintro ⟨sid, h⟩; exact ⟨sid, by rw [← projStream_eq, ← hproj sid]; exact h⟩
    · rintro ⟨sid, h⟩; exact ⟨sid, by rw [← projStream_eq, hproj sid]; exact h⟩
  have hnil : dataEnts bufs1.flatten = [] ↔ dataEnts bufs2.flatten = [] := by
    simp only [List.eq_nil_iff_forall_not_mem, hmem]
  obtain ⟨p1, a1, b1, c1⟩ := swWriteAll_scalars hw1
  obtain ⟨p2, a2, b2, c2⟩ := swWriteAll_scalars hw2
  rw [← dataEnts_eq] at p1 p2 b1 b2 c1 c2
  apply swFlush_congr
  · apply sorted_ext (sw_newEnts_sorted h0 hin hw1) (sw_newEnts_sorted h0 hin2 hw2)
    intro x
    rw [(newEnts_perm (sw_written h0 hw1)).mem_iff, (newEnts_perm (sw_written h0 hw2)).mem_iff]
    simp only [List.mem_map, hmem]
  · rw [p1, p2]
    by_cases h : dataEnts bufs1.flatten = []
    · rw [if_pos h, if_pos (hnil.mp h)]
    · rw [if_neg h, if_neg (fun h' => h (hnil.mpr h'))]
  · have le12 : st1.maxVersion ≤ st2.maxVersion := by
      rcases c1 with c1 | ⟨e, he, hv⟩
      · omega
      · have := b2 e ((hmem e).mp he); omega
    have le21 : st2.maxVersion ≤ st1.maxVersion := by
      rcases c2 with c2 | ⟨e, he, hv⟩
      · omega
      · have := b1 e ((hmem e).mpr he); omega
    omega


/-! ## Non-vacuity: a concrete run with two streams, three buffers, done markers -/

namespace C26Sample

def mk (k : UInt8) (v : Nat) (val : Bytes := [1]) : Ent :=
  { key := [k], ver := v, emeta := 0, umeta := 0, exp := 0, val := val }

/-- three levels, value threshold 2 (so `1@9` below gets the value-pointer bit) -/
def d0 : Db := { opts := { maxLevels := 3, threshold := 2 }, lsm := Lsm.init 3, nextTs := 4 }

/-- stream 1 = `1@9, 1@4, 2@3`, stream 2 = `5@7`, interleaved over three buffers -/
def bufsA : List (List SKV) :=
  [[{ sid := 2, e := mk 5 7 }, { sid := 1, e := mk 1 9 [1, 2, 3] }, { sid := 1, e := mk 1 4 }],
   [{ sid := 2, done := true, e := mk 0 0 }, { sid := 1, e := mk 2 3 }],
   [{ sid := 1, done := true, e := mk 0 0 }]]

/-- the same streams, batched differently, no done marker for stream 2 -/
def bufsB : List (List SKV) :=
  [[{ sid := 1, e := mk 1 9 [1, 2, 3] }],
   [{ sid := 1, e := mk 1 4 }, { sid := 2, e := mk 5 7 }, { sid := 1, e := mk 2 3 },
    { sid := 1, done := true, e := mk 0 0 }]]

def sizes0 : List Nat := [2, 2]
def ids0 : List Nat := [11, 12]

/-- a decidable sufficient condition for `SwInputOk`: check the stream ids that occur -/
theorem inputOk_of_sids (kvs : List SKV) (sids : List Nat) (hs : ∀ kv ∈ kvs, kv.sid ∈ sids)
    (h1 : ∀ s ∈ sids, (projStream kvs s).Pairwise (fun a b => entCmp a b = .lt))
    (h2 : ∀ s1 ∈ sids, ∀ s2 ∈ sids, s1 ≠ s2 →
      (∀ x ∈ projStream kvs s1, ∀ y ∈ projStream kvs s2, cmpBytes x.key y.key = .lt) ∨
      (∀ x ∈ projStream kvs s1, ∀ y ∈ projStream kvs s2, cmpBytes y.key x.key = .lt)) :
    SwInputOk kvs := by
  have hnil : ∀ s, s ∉ sids → projStream kvs s = [] := by
    intro s hns
    simp only [projStream, List.map_eq_nil_iff, List.filter_eq_nil_iff, Bool.and_eq_true,
      beq_iff_eq, not_and]
    intro kv hkv _ e
    exact hns (e ▸ hs kv hkv)
  constructor
  · intro sid
    by_cases h : sid ∈ sids
    · exact h1 sid h
    · rw [hnil sid h]; exact SO.sorted_nil
  · intro s1 s2 hne
    by_cases ha : s1 ∈ sids
    · by_cases hb : s2 ∈ sids
      · exact h2 s1 ha s2 hb hne
      · left; intro x _ y hy; rw [hnil s2 hb] at hy; cases hy
    · left; intro x hx; rw [hnil s1 ha] at hx; cases hx

theorem inputOkA : SwInputOk bufsA.flatten :=
  inputOk_of_sids _ [1, 2] (by decide) (by decide) (by decide)

theorem fresh0 : SwFresh d0 {} := ⟨rfl, rfl, by decide⟩

/-- the hypotheses of `C26_contents`, `C26_levels_valid`, `C26_ts` hold together on the sample
    (and the data is not empty, the target level is empty before) -/
theorem run :
    ∃ st d' valid, SwFresh d0 {} ∧ SwInputOk bufsA.flatten ∧
      d0.lsm.levels.getD (swTarget d0 {}) [] = [] ∧ dataEnts bufsA.flatten ≠ [] ∧
      d0.opts.managed = false ∧
      d0.swWriteAll {} bufsA = (st, .ok) ∧ d0.swFlush st sizes0 ids0 = some (d', valid) := by
  have h1 : (d0.swWriteAll {} bufsA).2 = .ok := by decide
  have h2 : (d0.swFlush (d0.swWriteAll {} bufsA).1 sizes0 ids0).isSome = true := by decide
  obtain ⟨⟨d', v⟩, h⟩ := Option.isSome_iff_exists.mp h2
  exact ⟨(d0.swWriteAll {} bufsA).1, d', v, fresh0, inputOkA, by decide, by decide, by decide,
    Prod.ext rfl h1, h⟩

end C26Sample

open C26Sample in
/-- non-vacuity of `C26_prepare_target`: `Prepare` on the sample, `PrepareIncremental` on a DB
    whose last level holds a table (target = level 1) -/
example : 0 < d0.opts.maxLevels ∧ 0 < d0.lsm.levels.length ∧
    (∃ st0, ({ d0 with lsm := { d0.lsm with levels := [[], [], [{ ents := [mk 1 1] }]] } } : Db).swPrepareIncremental
      = .ok st0 ∧ st0.prevLevel = 2) ∧
    (∃ st0, d0.swPrepareIncremental = .ok st0 ∧ st0.prevLevel = 0) :=
  ⟨by decide, by decide, ⟨{ prevLevel := 2 }, rfl, rfl⟩, ⟨{}, rfl, rfl⟩⟩

open C26Sample in
/-- the counterexample that forced `hlv`: with `lsm.levels = []` (and `maxLevels = 7 > 0`)
    `PrepareIncremental` succeeds but there is no level to write to. -/
example : let d : Db := { opts := {}, lsm := { mem := [], imm := [], levels := [] } }
    0 < d.opts.maxLevels ∧ (∃ st0, d.swPrepareIncremental = .ok st0 ∧ ¬ SwFresh d st0) :=
  ⟨by decide, {}, rfl, fun h => absurd h.2.2 (by decide)⟩

open C26Sample in
/-- non-vacuity of `C26_contents` / `C26_levels_valid` / `C26_ts`: all hypotheses hold on the sample -/
example : ∃ st d' valid, SwFresh d0 {} ∧ SwInputOk bufsA.flatten ∧
    d0.lsm.levels.getD (swTarget d0 {}) [] = [] ∧ dataEnts bufsA.flatten ≠ [] ∧
    d0.opts.managed = false ∧
    d0.swWriteAll {} bufsA = (st, .ok) ∧ d0.swFlush st sizes0 ids0 = some (d', valid) := run

open C26Sample in
/-- what the sample produces: level 2 = `[1@9(vptr) 1@4] [2@3 5@7]`, `nextTs = 10` -/
example : ((d0.swFlush (d0.swWriteAll {} bufsA).1 sizes0 ids0).map
      (fun r => (r.1.lsm.levels.getD 2 [], r.1.nextTs, r.2))) =
    some ([{ ents := [{ mk 1 9 [1, 2, 3] with emeta := 2 }, mk 1 4], id := 11 },
           { ents := [mk 2 3, mk 5 7], id := 12 }], 10, true) := by decide

open C26Sample in
/-- non-vacuity of `C26_batching_irrelevant`: the two batchings deliver the same streams, both
    write sequences succeed -/
example : SwFresh d0 {} ∧ SwInputOk bufsA.flatten ∧
    (∀ sid, projStream bufsA.flatten sid = projStream bufsB.flatten sid) ∧
    (d0.swWriteAll {} bufsA).2 = .ok ∧ (d0.swWriteAll {} bufsB).2 = .ok ∧ bufsA.flatten.length ≠ bufsB.flatten.length := by
  refine ⟨fresh0, inputOkA, ?_, by decide, by decide, by decide⟩
  intro sid
  by_cases h1 : sid = 1
  · subst h1; decide
  · by_cases h2 : sid = 2
    · subst h2; decide
    · have hb1 : (1 == sid) = false := beq_eq_false_iff_ne.mpr (fun e => h1 e.symm)
      have hb2 : (2 == sid) = false := beq_eq_false_iff_ne.mpr (fun e => h2 e.symm)
      simp [projStream, bufsA, bufsB, hb1, hb2]

/-! ## F20: an incremental stream write puts tables above the base level -/

def f20k1 : Ent := { key := [0x6b], ver := 1, emeta := 0, umeta := 0, exp := 0, val := [0x61] }
def f20k3 : Ent := { key := [0x6b], ver := 3, emeta := 0, umeta := 0, exp := 0, val := [0x62] }
def f20k4 : Ent := { key := [0x6b], ver := 4, emeta := 65, umeta := 0, exp := 0, val := [] }
def f20z5 : Ent := { key := [0x7a], ver := 5, emeta := 64, umeta := 0, exp := 0, val := [1] }
/-- `k = a @1` was streamed to the last level of an empty 3-level DB -/
def f20Db1 : Db := { opts := { maxLevels := 3 }, lsm := { mem := [], imm := [], levels := [[], [], [{ ents := [f20k1] }]] }, nextTs := 2 }
/-- `k = b @3` streamed incrementally (to level 1), then `delete k @4`, a commit `@5`, a flush -/
def f20Before : Lsm := { mem := [], imm := [], levels := [[{ ents := [f20k4, f20z5] }], [{ ents := [f20k3] }], [{ ents := [f20k1] }]] }
/-- the L0 → L2 compaction (base level 2: level 1 is jumped over) with discard timestamp 4:
    `subcompact` of the merge of the L0 table and the overlapping L2 table -/
def f20After : Lsm := { mem := [], imm := [], levels := [[], [{ ents := [f20k3] }],
  [{ ents := subcompact { discardTs := 4, numKeep := 1, hasOverlap := false, now := 0, dropPrefixes := [] } [f20k4, f20k1, f20z5] }]] }

/-- witness: `PrepareIncremental` on a DB whose only data is on the last level targets level 1;
    after the later L0 → L2 compaction the deleted key reads its old streamed value again. -/
theorem C26_F20_skipped_level_witness :
    (f20Db1.swPrepareIncremental.toOption.map (swTarget f20Db1)) = some 1 ∧
    f20After.levels = [[], [{ ents := [f20k3] }], [{ ents := [f20z5] }]] ∧
    visible 0 (f20Before.get [0x6b] 10) = none ∧
    visible 0 (f20After.get [0x6b] 10) = some f20k3 := by
  decide

end Badger
