import BadgerProofs.Props.C01Reach
import BadgerProofs.Props.C29Run
/-!
# C29 over the HISTORY of commits: DropPrefix / DropAll remove exactly the requested data

`ReachD` extends the reachability relation `Reach` of `C01Reach.lean` (commits, flushes,
picker-valid compactions) by two more steps:

* `dropPrefix`: the whole `DB.DropPrefix(ps)` run of `BadgerModel/Drop.lean`
  (`Lsm.dropPrefixRun`: flush, same-level rewrites of the table groups bottom-up, L0 → base);
  the committed history becomes `hist.filter (fun e => !hasAnyPrefix e.key ps)`;
* `dropAll`: `DB.DropAll`; the history becomes `[]`.

`C29_reachD_good`: every state reached this way is good (`LsmGood`, and everything stored is in
the *filtered* history). `C29_reachD_reads`: a read at `ts ≥` every discard timestamp used
returns the newest committed write `≤ ts` **that was not dropped** — for a key under a dropped
prefix only the writes committed after the drop, for every other key exactly what it returned
before. That is "DropPrefix / DropAll remove exactly the requested data" for every history.

Scope (finding F27b): `ps` is the list of prefixes the run actually drops, i.e. the list *after*
`filterPrefixesToDrop`, which skips a requested prefix under which its iterator finds no visible
key. That filter (a `Txn` iterator over the whole store) is not modelled here; leftovers under a
skipped prefix are versions that were invisible to that iterator (deleted / expired), and for them
the theorem says what it says for every undropped key: reads are unchanged.
-/
namespace Badger

/-! ## the flush of `DropPrefix` in a state without immutable memtables -/

theorem flushAll_eq_flush {s : Lsm} (himm : s.imm = []) (ids : List Nat) :
    s.flushAll ids = s.flush (ids.getD 0 0) := by
  obtain ⟨mem, imm, levels⟩ := s
  simp only at himm
  subst himm
  unfold Lsm.flushAll Lsm.flush
  cases levels with
  | nil => simp
  | cons l0 rest =>
    cases mem with
    | nil => simp [zipIdx]
    | cons a m => simp [zipIdx]

/-! ## the last step of the run, case by case -/

theorem dropL0Run_cases {s s' : Lsm} {ps : List Bytes} {base numKeep : Nat} {steps steps' : List DropStep}
    (hrun : s.dropL0Run ps base numKeep steps = some (s', steps')) :
    (s' = s ∧ steps' = steps ∧ s.levels.getD 0 [] = []) ∨
    (∃ st, steps = st :: steps' ∧ s.levels.getD 0 [] ≠ [] ∧ 0 < base ∧
      s.compact (l0Cd s ps base st) st.discardTs numKeep st.now = some s') := by
  by_cases hemp : (s.levels.getD 0 []).isEmpty = true
  · unfold Lsm.dropL0Run at hrun
    simp only [hemp, if_true, Option.some.injEq, Prod.mk.injEq] at hrun
    exact .inl ⟨hrun.1.symm, hrun.2.symm, List.isEmpty_iff.mp hemp⟩
  · have hemp' : (s.levels.getD 0 []).isEmpty = false := by simpa using hemp
    have hne : s.levels.getD 0 [] ≠ [] := by
      intro h0; rw [h0] at hemp'; simp at hemp'
    by_cases hb0 : (base == 0) = true
    · unfold Lsm.dropL0Run at hrun
      simp only [hemp', Bool.false_eq_true, if_false, hb0, if_true] at hrun
      cases hrun
    · have hb0' : (base == 0) = false := by simpa using hb0
      have hbpos : 0 < base := by
        have : base ≠ 0 := by simpa using hb0
        omega
      cases steps with
      | nil =>
        unfold Lsm.dropL0Run at hrun
        simp only [hemp', Bool.false_eq_true, if_false, hb0'] at hrun
        cases hrun
      | cons st steps1 =>
        rw [dropL0Run_eq s ps base numKeep st steps1 hemp' hb0'] at hrun
        cases hc : s.compact (l0Cd s ps base st) st.discardTs numKeep st.now with
        | none => rw [hc] at hrun; cases hrun
        | some s2 =>
          rw [hc] at hrun
          simp only [Option.some.injEq, Prod.mk.injEq] at hrun
          obtain ⟨rfl, rfl⟩ := hrun
          exact .inr ⟨st, rfl, hne, hbpos, hc⟩

/-- the cut condition for *every* compaction of the run: the same-level rewrites (`DropCuts`) and
    the final L0 → base compaction -/
def DropCutsAll (s : Lsm) (ps : List Bytes) (flushIds : List Nat) (base numKeep : Nat)
    (steps : List DropStep) : Prop :=
  DropCuts s ps flushIds numKeep steps ∧
  ∀ s2 st rest,
    Lsm.dropLevelsRun ps numKeep (dropLevels (s.flushAll flushIds)) (s.flushAll flushIds) steps =
      some (s2, st :: rest) →
    StepCuts s2 (l0Cd s2 ps base st) st.discardTs numKeep st.now

/-- **the whole `DropPrefix` run keeps a good state good**, and only removes entries -/
theorem dropPrefixRun_good {s s' : Lsm} {ps : List Bytes} {flushIds : List Nat} {base numKeep : Nat}
    {steps : List DropStep} (hg : LsmGood s) (hbl : base < s.levels.length)
    (hbetween : ∀ j, 0 < j → j < base → s.levels.getD j [] = [])
    (hcuts : DropCutsAll s ps flushIds base numKeep steps)
    (hrun : s.dropPrefixRun ps flushIds base numKeep steps = some s') :
    LsmGood s' ∧ ∀ e ∈ s'.allEntries, e ∈ s.allEntries := by
  obtain ⟨h, hv, hl, hu, himm⟩ := hg
  have h0 : 0 < s.levels.length := by omega
  unfold Lsm.dropPrefixRun at hrun
  split at hrun
  · simp only [Option.some.injEq] at hrun
    subst hrun
    exact ⟨⟨h, hv, hl, hu, himm⟩, fun _ he => he⟩
  · simp only at hrun
    have i1 := flushAll_inv h h0 flushIds
    have v1 := flushAll_verBound hv h0 flushIds
    have l1 := flushAll_layeredX hl h0 flushIds
    obtain ⟨_, fi, fl, fo⟩ := flushAll_spec h0 flushIds
    cases h2 : Lsm.dropLevelsRun ps numKeep (dropLevels (s.flushAll flushIds)) (s.flushAll flushIds) steps with
    | none => rw [h2] at hrun; cases hrun
    | some r =>
      obtain ⟨s2, steps2⟩ := r
      rw [h2] at hrun
      simp only at hrun
      obtain ⟨o2, _⟩ := levelsRun_reads _ _ _ _ _
        (fun l hl' => mem_dropLevels.mp hl') i1 v1 l1 hcuts.1 h2
      have sub2 : ∀ e ∈ s2.allEntries, e ∈ s.allEntries := by
        intro e he
        have := o2.sub e he
        rwa [allEntries_flushAll h0] at this
      have imm2 : s2.imm = [] := o2.imm.trans fi
      cases h3 : s2.dropL0Run ps base numKeep steps2 with
      | none => rw [h3] at hrun; cases hrun
      | some r3 =>
        obtain ⟨s3, steps3⟩ := r3
        rw [h3] at hrun
        cases steps3 with
        | cons _ _ => cases hrun
        | nil =>
          simp only [Option.some.injEq] at hrun
          subst hrun
          rcases dropL0Run_cases h3 with ⟨rfl, _, _⟩ | ⟨st, hst, hne, hbpos, hc⟩
          · exact ⟨⟨o2.inv, o2.ver, o2.lay, LL.kvFun_subset hu sub2, imm2⟩, sub2⟩
          · have hbetween2 : ∀ j, 0 < j → j < base → s2.levels.getD j [] = [] := by
              intro j hj1 hj2
              apply o2.empty j
              rw [getD_congr (fo j hj1)]
              exact hbetween j hj1 hj2
            obtain ⟨hok, _, hto⟩ := l0Cd_ok o2.inv (ps := ps) st hne hbpos
              (by rw [o2.len, fl]; exact hbl) hbetween2
            have hcutL0 := hcuts.2 s2 st [] (by rw [h2, hst])
            have sub3 : ∀ e ∈ s3.allEntries, e ∈ s.allEntries :=
              fun e he => sub2 e (LL.mem_allEntries_compact' o2.inv hok hc he)
            refine ⟨⟨C14_compact_inv o2.inv o2.ver hok hc hcutL0, C14_compact_verBound o2.inv o2.ver hok hc,
              C14_compact_layeredX o2.inv o2.lay hok (fun _ => hto) hc, LL.kvFun_subset hu sub3, ?_⟩, sub3⟩
            obtain ⟨_, _, rfl⟩ := LL.compact_some hc
            exact imm2


/-! ## reachability with drops -/

/-- the largest discard timestamp / clock the compactions of a run reported -/
def stepsD (steps : List DropStep) : Nat := steps.foldr (fun st m => max st.discardTs m) 0
def stepsN (steps : List DropStep) : Nat := steps.foldr (fun st m => max st.now m) 0

theorem le_stepsD {steps : List DropStep} {st : DropStep} (h : st ∈ steps) : st.discardTs ≤ stepsD steps := by
  induction steps with
  | nil => cases h
  | cons a l ih =>
    simp only [stepsD, List.foldr_cons]
    rcases List.mem_cons.mp h with rfl | h'
    · exact Nat.le_max_left _ _
    · exact Nat.le_trans (ih h') (Nat.le_max_right _ _)

theorem le_stepsN {steps : List DropStep} {st : DropStep} (h : st ∈ steps) : st.now ≤ stepsN steps := by
  induction steps with
  | nil => cases h
  | cons a l ih =>
    simp only [stepsN, List.foldr_cons]
    rcases List.mem_cons.mp h with rfl | h'
    · exact Nat.le_max_left _ _
    · exact Nat.le_trans (ih h') (Nat.le_max_right _ _)

/-- the entries of the history a `DropPrefix(ps)` leaves -/
def notDropped (ps : List Bytes) (e : Ent) : Bool := !hasAnyPrefix e.key ps

/-- `Reach` (commits, flushes, picker-valid compactions) plus `DropPrefix` runs and `DropAll`.
    `hist` = every committed entry that has not been dropped since. The hypotheses of `dropPrefix`
    are the ones that are not invariants of reachable states: the base level is a level, nothing lies
    between L0 and it (`levelTargets`), the reported steps fit (`hrun`), and the implementation cut
    every output table where the user key changes (`DropCutsAll`). -/
inductive ReachD (nlev : Nat) : List Ent → Nat → Nat → Lsm → Prop
  | init : ReachD nlev [] 0 0 (Lsm.init nlev)
  | put {hist : List Ent} {dm nm : Nat} {s : Lsm} (r : ReachD nlev hist dm nm s) (e : Ent)
      (hpos : 0 < e.ver) (hmax : e.ver ≤ maxU64)
      (hfresh : ∀ x ∈ hist, x.key = e.key → x.ver < e.ver) : ReachD nlev (e :: hist) dm nm (s.putEnt e)
  | flush {hist : List Ent} {dm nm : Nat} {s : Lsm} (r : ReachD nlev hist dm nm s) (id : Nat) :
      ReachD nlev hist dm nm (s.flush id)
  | resort {hist : List Ent} {dm nm : Nat} {s : Lsm} (r : ReachD nlev hist dm nm s) {l0 l0' : List Tbl}
      {rest : List (List Tbl)} (hl : s.levels = l0 :: rest) (hp : l0'.Perm l0) :
      ReachD nlev hist dm nm { s with levels := l0' :: rest }
  | compact {hist : List Ent} {dm nm : Nat} {s s' : Lsm} (r : ReachD nlev hist dm nm s) (cd : CompactDef)
      (d n now' : Nat) (hi : ChoiceIdxOk s cd) (htop : cd.top ≠ []) (hvc : validChoice s cd = true)
      (hdp : cd.dropPrefixes = []) (hs : s.compact cd d n now' = some s')
      (hcut : ∀ new0, splitSizes cd.outSizes (compactOutput s cd d n now').1 = some new0 →
        CutsAtKeyChange (withIds new0 cd.outIds)) :
      ReachD nlev hist (max dm d) (max nm now') s'
  | dropPrefix {hist : List Ent} {dm nm : Nat} {s s' : Lsm} (r : ReachD nlev hist dm nm s)
      (ps : List Bytes) (flushIds : List Nat) (base numKeep : Nat) (steps : List DropStep)
      (hbl : base < s.levels.length) (hbetween : ∀ j, 0 < j → j < base → s.levels.getD j [] = [])
      (hcuts : DropCutsAll s ps flushIds base numKeep steps)
      (hrun : s.dropPrefixRun ps flushIds base numKeep steps = some s') :
      ReachD nlev (hist.filter (notDropped ps)) (max dm (stepsD steps)) (max nm (stepsN steps)) s'
  | dropAll {hist : List Ent} {dm nm : Nat} {s : Lsm} (r : ReachD nlev hist dm nm s) :
      ReachD nlev [] dm nm s.dropAll

/-- histories without drops are histories -/
theorem Reach.toReachD {nlev : Nat} {hist : List Ent} {dm nm : Nat} {s : Lsm}
    (r : Reach nlev hist dm nm s) : ReachD nlev hist dm nm s := by
  induction r with
  | init => exact .init
  | put _ e hpos hmax hfresh ih => exact .put ih e hpos hmax hfresh
  | flush _ id ih => exact .flush ih id
  | resort _ hl hp ih => exact .resort ih hl hp
  | compact _ cd d n now' hi htop hvc hdp hs hcut ih => exact .compact ih cd d n now' hi htop hvc hdp hs hcut

theorem dropAll_no_entries (s : Lsm) (e : Ent) : e ∉ s.dropAll.allEntries := by
  rw [C29_dropAll_empty]; simp

/-- what holds in every state reachable with drops: the state is good, and everything stored is a
    committed entry that has not been dropped -/
theorem C29_reachD_inv {nlev : Nat} {hist : List Ent} {dm nm : Nat} {s : Lsm} (r : ReachD nlev hist dm nm s) :
    ReachInv hist s := by
  induction r with
  | init => exact ⟨LL.init_good nlev, fun e he => by simp at he, fun e he => absurd he (LL.init_no_entries nlev e)⟩
  | put _ e hpos hmax hfresh ih =>
    obtain ⟨⟨h, hv, hl, hu, himm⟩, hho, hsub⟩ := ih
    refine ⟨⟨LL.put_inv h hpos, LL.put_verBound hv hmax,
      LL.put_layeredX hl (fun x hx hk => Nat.le_of_lt (hfresh x (hsub x hx) hk)),
      LL.put_keyVerUnique hu (fun x hx hk => hfresh x (hsub x hx) hk), himm⟩, ?_, ?_⟩
    · intro x hx
      rcases List.mem_cons.mp hx with rfl | hx'
      · exact ⟨hpos, hmax⟩
      · exact hho x hx'
    · intro x hx
      rcases LL.mem_allEntries_put hx with rfl | hx'
      · simp
      · exact List.mem_cons_of_mem _ (hsub x hx')
  | @flush hist dm nm s _ id ih =>
    obtain ⟨⟨h, hv, hl, hu, himm⟩, hho, hsub⟩ := ih
    refine ⟨⟨C14_flush_inv h id, fun x hx => hv x ((LL.mem_allEntries_flush s id x).mp hx),
      C14_flush_layeredX hl himm id, C14_flush_keyVerUnique hu id, ?_⟩, hho,
      fun x hx => hsub x ((LL.mem_allEntries_flush s id x).mp hx)⟩
    rcases LL.flush_eq_self_or s id with he | ⟨_, _, _, _, he⟩ <;> rw [he] <;> exact himm
  | resort _ hl hp ih =>
    obtain ⟨⟨h, hv, hlx, hu, himm⟩, hho, hsub⟩ := ih
    exact ⟨⟨LL.resort_inv h hl hp, fun x hx => hv x ((LL.mem_allEntries_resort hl hp x).mp hx),
      LL.resort_layeredX hlx hl hp, LL.resort_keyVerUnique hu hl hp, himm⟩, hho,
      fun x hx => hsub x ((LL.mem_allEntries_resort hl hp x).mp hx)⟩
  | compact _ cd d n now' hi htop hvc hdp hs hcut ih =>
    obtain ⟨⟨h, hv, hl, hu, himm⟩, hho, hsub⟩ := ih
    have hc := C12_validChoice_compactOk h hv hi htop hvc
    refine ⟨⟨C14_compact_inv h hv hc hs hcut, C14_compact_verBound h hv hc hs,
      C14_compact_layeredX h hl hc (fun hk => C12_validChoice_topsOldest h hi.1 htop hvc hk) hs,
      C14_compact_keyVerUnique h hu hc hs, ?_⟩, hho,
      fun x hx => hsub x (LL.mem_allEntries_compact' h hc hs hx)⟩
    obtain ⟨_, _, rfl⟩ := LL.compact_some hs; exact himm
  | dropPrefix _ ps flushIds base numKeep steps hbl hbetween hcuts hrun ih =>
    obtain ⟨hg, hho, hsub⟩ := ih
    obtain ⟨hg', hsub'⟩ := dropPrefixRun_good hg hbl hbetween hcuts hrun
    refine ⟨hg', fun e he => hho e (List.mem_filter.mp he).1, ?_⟩
    intro e he
    refine List.mem_filter.mpr ⟨hsub e (hsub' e he), ?_⟩
    have := C29_prefix_gone hg.1 hg.2.1 (by omega) hrun e he
    simp [notDropped, this]
  | @dropAll hist dm nm s _ _ =>
    rw [Lsm.dropAll_eq_init]
    exact ⟨LL.init_good _, fun e he => by simp at he, fun e he => absurd he (LL.init_no_entries _ e)⟩

/-- **C29 over histories (good states)** — every state reached by commits, flushes, picker-valid
    compactions, `DropPrefix` runs and `DropAll` is good -/
theorem C29_reachD_good {nlev : Nat} {hist : List Ent} {dm nm : Nat} {s : Lsm} (r : ReachD nlev hist dm nm s) :
    LsmGood s := (C29_reachD_inv r).1

/-- … and stores only committed entries that have not been dropped -/
theorem C29_reachD_stored {nlev : Nat} {hist : List Ent} {dm nm : Nat} {s : Lsm} (r : ReachD nlev hist dm nm s) :
    ∀ e ∈ s.allEntries, e ∈ hist := (C29_reachD_inv r).2.2

/-- in particular nothing under a dropped prefix is stored until it is committed again -/
theorem C29_reachD_dropped_gone {nlev : Nat} {hist : List Ent} {dm nm : Nat} {s s' : Lsm}
    (r : ReachD nlev hist dm nm s) (ps : List Bytes) (flushIds : List Nat) (base numKeep : Nat)
    (steps : List DropStep) (hbl : base < s.levels.length)
    (hrun : s.dropPrefixRun ps flushIds base numKeep steps = some s') :
    ∀ e ∈ s'.allEntries, hasAnyPrefix e.key ps = false := by
  obtain ⟨h, hv, _⟩ := C29_reachD_good r
  exact C29_prefix_gone h hv (by omega) hrun

/-- **C29 over histories (reads)** — in a state reached by any sequence of commits, flushes,
    picker-valid compactions, `DropPrefix` runs and `DropAll`s, a read at `ts ≥` every discard
    timestamp used so far (clock `≥` every compaction's clock) returns the newest committed write
    `≤ ts` of the key **among the writes that were not dropped**: `hist` is the committed history
    with, at every `DropPrefix(ps)`, the entries under `ps` removed, and emptied at every `DropAll`. -/
theorem C29_reachD_reads {nlev : Nat} {hist : List Ent} {dm nm : Nat} {s : Lsm} (r : ReachD nlev hist dm nm s)
    {ts now : Nat} (hts : dm ≤ ts) (hnow : nm ≤ now) (k : Bytes) :
    visible now (s.get k ts) = visible now (newestLE hist k ts) := by
  induction r with
  | init =>
    rw [C01_get_spec (LL.init_good nlev).1]
    have : newestLE (Lsm.init nlev).allEntries k ts = none :=
      LL.newestLE_eq_none.mpr (fun x hx => absurd hx (LL.init_no_entries nlev x))
    rw [this]; rfl
  | @put hist dm nm s r e hpos hmax hfresh ih =>
    obtain ⟨⟨h, _⟩, _, hsub⟩ := C29_reachD_inv r
    rw [LL.put_get h hpos, LL.newestLE_cons, LL.newestLE_cons, ← C01_get_spec h]
    by_cases hc : e.key = k ∧ e.ver ≤ ts
    · have hcand : LL.cand k ts e = some e := by unfold LL.cand; rw [if_pos hc]
      rw [hcand]
      have h1 : LL.pick (some e) (s.get k ts) = some e := by
        cases hg : s.get k ts with
        | none => rfl
        | some x =>
          obtain ⟨m1, m2, _, _⟩ := C01_get_some h hg
          have := hfresh x (hsub x m1) (m2.trans hc.1.symm)
          simp only [LL.pick]; rw [if_neg (by omega)]
      have h2 : LL.pick (some e) (newestLE hist k ts) = some e := by
        cases hg : newestLE hist k ts with
        | none => rfl
        | some x =>
          obtain ⟨m1, m2, _, _⟩ := LL.newestLE_some hg
          have := hfresh x m1 (m2.trans hc.1.symm)
          simp only [LL.pick]; rw [if_neg (by omega)]
      rw [h1, h2]
    · have hcand : LL.cand k ts e = none := by unfold LL.cand; rw [if_neg hc]
      rw [hcand]
      exact ih hts hnow
  | @flush hist dm nm s r id ih =>
    obtain ⟨⟨h, _, _, _, himm⟩, _, _⟩ := C29_reachD_inv r
    rw [C12_flush_reads_noimm h himm]
    exact ih hts hnow
  | @resort hist dm nm s r l0 l0' rest hl hp ih =>
    obtain ⟨⟨h, _, _, hu, _⟩, _, _⟩ := C29_reachD_inv r
    have hf : TblsFun l0 := by
      intro a ha b hb x hx y hy hk hv
      exact hu x (LL.mem_allEntries.mpr (.inr (.inr ⟨0, l0, a, by rw [hl]; rfl, ha, hx⟩)))
        y (LL.mem_allEntries.mpr (.inr (.inr ⟨0, l0, b, by rw [hl]; rfl, hb, hy⟩))) hk hv
    rw [LL.resort_get h hl hp hf]
    exact ih hts hnow
  | @compact hist dm nm s s' r cd d n now' hi htop hvc hdp hs hcut ih =>
    obtain ⟨⟨h, hv, hl, hu, _⟩, _, _⟩ := C29_reachD_inv r
    rw [C12_compact_reads_valid h hv hl hu hi htop hvc hdp hs (by omega) (by omega)]
    exact ih (by omega) (by omega)
  | @dropPrefix hist dm nm s s' r ps flushIds base numKeep steps hbl hbetween hcuts hrun ih =>
    obtain ⟨⟨h, hv, hl, hu, himm⟩, _, hsub⟩ := C29_reachD_inv r
    have hg' := (dropPrefixRun_good ⟨h, hv, hl, hu, himm⟩ hbl hbetween hcuts hrun).1
    cases hk : hasAnyPrefix k ps with
    | true =>
      rw [C29_prefix_invisible h hv (by omega) hrun (LL.lsmInv_weaken hg'.1) hk ts]
      have : newestLE (hist.filter (notDropped ps)) k ts = none := by
        rw [newestLE_eq_none_iff]
        intro x hx hq
        have := (List.mem_filter.mp hx).2
        simp only [notDropped, hq.1, hk] at this
        cases this
      rw [this]
    | false =>
      rw [C29_others_unchanged h hv hl (by omega) hbl hbetween hcuts.1 hrun hk
        (fun st hst => ⟨Nat.le_trans (le_stepsD hst) (by omega), Nat.le_trans (le_stepsN hst) (by omega)⟩)]
      rw [ih (by omega) (by omega)]
      have hF := newestLE_filter_of_key (q := notDropped ps) (k := k)
        (fun e he => by simp [notDropped, he, hk]) hist ts
      rw [hF]
  | @dropAll hist dm nm s r ih =>
    rw [Lsm.dropAll_eq_init, C01_get_spec (LL.init_good _).1]
    have : newestLE (Lsm.init s.levels.length).allEntries k ts = none :=
      LL.newestLE_eq_none.mpr (fun x hx => absurd hx (LL.init_no_entries _ x))
    rw [this]; rfl

/-- the two readings of `C29_reachD_reads` right after a `DropPrefix(ps)`:
    a key under a dropped prefix reads as absent, every other key as before the drop -/
theorem C29_reachD_after_drop {nlev : Nat} {hist : List Ent} {dm nm : Nat} {s s' : Lsm}
    (r : ReachD nlev hist dm nm s) (ps : List Bytes) (flushIds : List Nat) (base numKeep : Nat)
    (steps : List DropStep) (hbl : base < s.levels.length)
    (hbetween : ∀ j, 0 < j → j < base → s.levels.getD j [] = [])
    (hcuts : DropCutsAll s ps flushIds base numKeep steps)
    (hrun : s.dropPrefixRun ps flushIds base numKeep steps = some s')
    {ts now : Nat} (hts : max dm (stepsD steps) ≤ ts) (hnow : max nm (stepsN steps) ≤ now) (k : Bytes) :
    (hasAnyPrefix k ps = true → visible now (s'.get k ts) = none) ∧
    (hasAnyPrefix k ps = false → visible now (s'.get k ts) = visible now (s.get k ts)) := by
  have r' := ReachD.dropPrefix r ps flushIds base numKeep steps hbl hbetween hcuts hrun
  have hr' := C29_reachD_reads r' hts hnow k
  constructor
  · intro hk
    rw [hr']
    have : newestLE (hist.filter (notDropped ps)) k ts = none := by
      rw [newestLE_eq_none_iff]
      intro x hx hq
      have := (List.mem_filter.mp hx).2
      simp only [notDropped, hq.1, hk] at this
      cases this
    rw [this]; rfl
  · intro hk
    rw [hr', C29_reachD_reads r (by omega) (by omega) k]
    rw [newestLE_filter_of_key (q := notDropped ps) (k := k) (fun e he => by simp [notDropped, he, hk]) hist ts]

/-- the filtered history stays well formed: an internal key determines the entry -/
theorem C29_reachD_hist_unique {nlev : Nat} {hist : List Ent} {dm nm : Nat} {s : Lsm}
    (r : ReachD nlev hist dm nm s) : LL.KVFun hist := by
  induction r with
  | init => intro x hx; simp at hx
  | put _ e _ _ hfresh ih =>
    intro x hx y hy hk hv
    rcases List.mem_cons.mp hx with rfl | hx' <;> rcases List.mem_cons.mp hy with rfl | hy'
    · rfl
    · have := hfresh y hy' hk.symm; omega
    · have := hfresh x hx' hk; omega
    · exact ih x hx' y hy' hk hv
  | flush _ _ ih => exact ih
  | resort _ _ _ ih => exact ih
  | compact _ _ _ _ _ _ _ _ _ _ _ ih => exact ih
  | dropPrefix _ _ _ _ _ _ _ _ _ _ ih =>
    exact LL.kvFun_subset ih (fun x hx => (List.mem_filter.mp hx).1)
  | dropAll _ _ => intro x hx; simp at hx

/-! ## non-vacuity: a concrete history with a drop in the middle -/

namespace C29ReachSample

def E2 : Ent := ⟨[2], 1, 0, 0, 0, [20]⟩
def E3 : Ent := ⟨[3], 1, 0, 0, 0, [30]⟩
def E1 : Ent := ⟨[1], 2, 0, 0, 0, [10]⟩
def E2' : Ent := ⟨[2], 3, 0, 0, 0, [21]⟩

def S3 : Lsm := (((Lsm.init 2).putEnt E2).putEnt E3).flush 5
def cd4 : CompactDef :=
  { thisLevel := 0, nextLevel := 1, top := [0], bot := [], outSizes := [2], dropPrefixes := [] }
def S4 : Lsm := { mem := [], imm := [], levels := [[], [{ ents := [E2, E3] }]] }
def S5 : Lsm := S4.putEnt E1
def SF : Lsm := { mem := [], imm := [], levels := [[{ ents := [E1], id := 7 }], [{ ents := [E2, E3] }]] }
def SA : Lsm := { mem := [], imm := [], levels := [[{ ents := [E1], id := 7 }], [{ ents := [E3], id := 8 }]] }
def S6 : Lsm := { mem := [], imm := [], levels := [[], [{ ents := [E1], id := 9 }, { ents := [E3], id := 8 }]] }
def st1 : DropStep := { outSizes := [1], outIds := [8], discardTs := 0, now := 0 }
def st2 : DropStep := { outSizes := [1], outIds := [9], discardTs := 0, now := 0 }

theorem r4 : ReachD 2 [E3, E2] (max 0 0) (max 0 0) S4 := by
  have r1 : ReachD 2 [E2] 0 0 ((Lsm.init 2).putEnt E2) :=
    ReachD.put ReachD.init E2 (by decide) (by decide) (by simp)
  have r2 : ReachD 2 [E3, E2] 0 0 (((Lsm.init 2).putEnt E2).putEnt E3) :=
    ReachD.put r1 E3 (by decide) (by decide) (by intro x hx hk; simp at hx; subst hx; simp [E2, E3] at hk)
  have r3 : ReachD 2 [E3, E2] 0 0 S3 := ReachD.flush r2 5
  have hsplit : splitSizes cd4.outSizes (compactOutput S3 cd4 0 1 0).1 = some [{ ents := [E2, E3] }] := by
    simp only [compactOutput, mergeAll_eq_F]; decide
  exact ReachD.compact r3 cd4 0 1 0 (by decide) (by decide) (by decide) rfl (by lsm_decide)
    (by intro new0 h; rw [hsplit] at h; cases h; simp [withIds, cd4, CutsAtKeyChange])

theorem r5 : ReachD 2 [E1, E3, E2] (max 0 0) (max 0 0) S5 :=
  ReachD.put r4 E1 (by decide) (by decide)
    (by intro x hx hk; simp at hx; rcases hx with rfl | rfl <;> simp [E1, E2, E3] at hk)

theorem e1 : S5.flushAll [7] = SF := by decide
theorem e2 : dropLevels SF = [1] := by decide
theorem hg : (dropGroups (SF.levels.getD 1 []) [[2]]).map (fun g => pickIdx (SF.levels.getD 1 []) g) =
    [[{ ents := [E2, E3] }]] := by decide
theorem e3 : SF.dropLevelRun 1 [[2]] 1 [st1, st2] = some (SA, [st2]) := by
  simp only [Lsm.dropLevelRun, hg, Lsm.dropGroupsRun, Lsm.dropGroupStep, Lsm.compact, compactOutput,
    mergeAll_eq_F]
  decide
theorem e5 : SA.dropL0Run [[2]] 1 1 [st2] = some (S6, []) := by
  simp only [Lsm.dropL0Run, Lsm.compact, compactOutput, mergeAll_eq_F]
  decide
theorem run6 : S5.dropPrefixRun [[2]] [7] 1 1 [st1, st2] = some S6 := by
  simp only [Lsm.dropPrefixRun, e1, e2, Lsm.dropLevelsRun, e3, e5]
  decide

theorem e3' : Lsm.dropLevelsRun [[2]] 1 (dropLevels (S5.flushAll [7])) (S5.flushAll [7]) [st1, st2] =
    some (SA, [st2]) := by
  simp only [e1, e2, Lsm.dropLevelsRun, e3]

theorem cuts6 : DropCutsAll S5 [[2]] [7] 1 1 [st1, st2] := by
  refine ⟨?_, ?_⟩
  · unfold DropCuts
    rw [e1, e2]
    simp only [levelsCuts, e3, levelCuts, hg, groupsCuts, and_true]
    refine ⟨?_, by split <;> trivial⟩
    intro new0 h
    have hout : (compactOutput SF (groupCd SF 1 [[2]] [{ ents := [E2, E3] }] st1) st1.discardTs 1 st1.now).1 =
        [E3] := by
      simp only [compactOutput, mergeAll_eq_F]; decide
    rw [hout] at h
    have : new0 = [{ ents := [E3] }] := by
      simp [splitSizes, groupCd, st1] at h
      exact h.symm
    subst this
    simp [withIds, groupCd, st1, CutsAtKeyChange]
  · intro s2 st rest h
    rw [e3'] at h
    simp only [Option.some.injEq, Prod.mk.injEq, List.cons.injEq] at h
    obtain ⟨rfl, rfl, rfl⟩ := h
    intro new0 h
    have hout : (compactOutput SA (l0Cd SA [[2]] 1 st2) st2.discardTs 1 st2.now).1 = [E1] := by
      simp only [compactOutput, mergeAll_eq_F]; decide
    rw [hout] at h
    have : new0 = [{ ents := [E1] }] := by
      simp [splitSizes, l0Cd, st2] at h
      exact h.symm
    subst this
    simp [withIds, l0Cd, st2, CutsAtKeyChange]

/-- commits, a flush, a picker-valid compaction, a commit, `DropPrefix([2])` (one same-level
    rewrite on L1 and the L0 → L1 compaction), and a commit under the dropped prefix afterwards -/
theorem r7 : ReachD 2 [E2', E1, E3] (max (max 0 0) (stepsD [st1, st2])) (max (max 0 0) (stepsN [st1, st2]))
    (S6.putEnt E2') := by
  have r6 := ReachD.dropPrefix r5 [[2]] [7] 1 1 [st1, st2] (by decide)
    (by intro j h1 h2; omega) cuts6 run6
  have hh : [E1, E3, E2].filter (notDropped [[2]]) = [E1, E3] := by decide
  rw [hh] at r6
  exact ReachD.put r6 E2' (by decide) (by decide)
    (by intro x hx hk; simp at hx; rcases hx with rfl | rfl <;> simp [E1, E2', E3] at hk)

end C29ReachSample

open C29ReachSample in
/-- non-vacuity of `C29_reachD_reads`: after the drop the old `[2]@1` is gone for good (a read of
    key `[2]` at `ts = 2` finds nothing although `[2]@1` was committed), the write committed after the
    drop is found at `ts = 5`, and key `[3]` reads as ever -/
theorem C29_reachD_sample :
    LsmGood (S6.putEnt E2') ∧
    visible 0 ((S6.putEnt E2').get [2] 2) = none ∧
    visible 0 ((S6.putEnt E2').get [2] 5) = some E2' ∧
    visible 0 ((S6.putEnt E2').get [3] 5) = some E3 := by
  refine ⟨C29_reachD_good r7, ?_, ?_, ?_⟩
  · rw [C29_reachD_reads r7 (by decide) (by decide)]; decide
  · rw [C29_reachD_reads r7 (by decide) (by decide)]; decide
  · rw [C29_reachD_reads r7 (by decide) (by decide)]; decide

end Badger
