import BadgerProofs.Props.C29State
import BadgerProofs.Lemmas.LsmReads
/-!
# C29 — a DropPrefix same-level rewrite leaves the reads of all other keys unchanged

The compactions `dropPrefixes` runs on the levels `≥ 1` have a shape of their own
(`thisLevel = nextLevel`, `top = nil`, `bot` = a run of consecutive tables, on *any* level, with
`dropPrefixes ≠ []`), which `CompactOk` of `Lemmas/LsmCompact.lean` does not cover. This file
proves read preservation for that shape (`C29_group_step_reads`): for every key without a dropped
prefix, every `ts ≥ discardTs` and every clock `now ≥` the compaction's clock, the specified read
result `visible now (newestLE allEntries k ts)` is the same before and after.

The composition over the whole `DropPrefix` run is `C29_others_unchanged` in `Props/C29Run.lean`.
-/
namespace Badger

/-- the shape of a `dropPrefixes` rewrite of one table group -/
structure IsDropGroup (s : Lsm) (cd : CompactDef) : Prop where
  lvl1 : 1 ≤ cd.thisLevel
  lt : cd.thisLevel < s.levels.length
  same : cd.nextLevel = cd.thisLevel
  top : cd.top = []
  /-- `bot` lists positions in increasing order … -/
  incr : cd.bot.Pairwise (· < ·)
  /-- … that form a contiguous block: every other position is left or right of all of them -/
  convex : ∀ j, j ∉ cd.bot → (∀ j' ∈ cd.bot, j < j') ∨ (∀ j' ∈ cd.bot, j' < j)

namespace DG

variable {s : Lsm} {cd : CompactDef}

theorem tops_nil (g : IsDropGroup s cd) : cdTops s cd = [] := by
  unfold cdTops; rw [g.top]; rfl

theorem topEnts_nil (g : IsDropGroup s cd) : LL.topEnts s cd = [] := by
  unfold LL.topEnts; rw [tops_nil g]; rfl

theorem next_lt (g : IsDropGroup s cd) : cd.nextLevel < s.levels.length := g.same ▸ g.lt

theorem level (h : LsmInv s) (g : IsDropGroup s cd) :
    s.levels[cd.nextLevel]? = some (cdNextT s cd) ∧ LevelOk cd.nextLevel (cdNextT s cd) := by
  have := LL.levels_getD (next_lt g)
  exact ⟨this, h.level this⟩

theorem keptIdx_eq (g : IsDropGroup s cd) : LL.keptIdx cd = cd.bot := by
  unfold LL.keptIdx; rw [if_pos g.same.symm, g.top]; rfl

theorem bots_keyDisjoint (h : LsmInv s) (g : IsDropGroup s cd) : KeyDisjoint (cdBots s cd) := by
  have hkd := (level h g).2.2 (g.same ▸ g.lvl1)
  have hpw := List.pairwise_iff_getElem.mp hkd
  unfold cdBots pickIdx KeyDisjoint
  apply List.Pairwise.filterMap _ _ g.incr
  intro j j' hjj b hb b' hb'
  obtain ⟨h1, rfl⟩ := List.getElem?_eq_some_iff.mp hb
  obtain ⟨h2, rfl⟩ := List.getElem?_eq_some_iff.mp hb'
  exact hpw j j' h1 h2 hjj

theorem botEnts_sorted (h : LsmInv s) (g : IsDropGroup s cd) : SortedEnts (LL.botEnts s cd) := by
  have hl := (level h g).2
  exact LL.flatten_sorted_of_keyDisjoint (fun t ht => (hl.1 t (LL.bots_mem ht)).2)
    (bots_keyDisjoint h g)

/-- a user key read by the rewrite does not occur in a table that stays -/
theorem bot_kept_key_ne (h : LsmInv s) (g : IsDropGroup s cd) {x y : Ent} (hx : x ∈ LL.botEnts s cd)
    (hy : y ∈ LL.keptEnts s cd) : x.key ≠ y.key := by
  obtain ⟨t1, ht1, hx1⟩ := LL.mem_botEnts.mp hx
  obtain ⟨t2, ht2, hy2⟩ := LL.mem_keptEnts.mp hy
  rw [keptIdx_eq g] at ht2
  obtain ⟨j1, hj1, hg1⟩ := LL.mem_pickIdx.mp ht1
  obtain ⟨j2, hg2, hj2⟩ := LL.mem_removeIdx.mp ht2
  have hne : j1 ≠ j2 := fun e => hj2 (e ▸ hj1)
  have hkd := (level h g).2.2 (g.same ▸ g.lvl1)
  rcases LL.level_sep_of_ne hkd hg1 hg2 hne with hs | hs
  · exact LL.klt_ne (hs x hx1 y hy2)
  · exact fun e => LL.klt_ne (hs y hy2 x hx1) e.symm

/-- the parameters and the input stream of the rewrite -/
def params (s : Lsm) (cd : CompactDef) (d n now : Nat) : CParams :=
  { discardTs := d, numKeep := n, hasOverlap := LL.cdHasOverlap s cd, now := now,
    dropPrefixes := cd.dropPrefixes }

def validEnts (s : Lsm) (cd : CompactDef) : List Ent :=
  (((cdBots s cd).filter (fun t => !skippedByKeepTable cd.dropPrefixes t)).map (·.ents)).flatten

theorem output_eq (g : IsDropGroup s cd) (d n now : Nat) :
    (compactOutput s cd d n now).1 = subcompact (params s cd d n now) (validEnts s cd) := by
  rw [compactOutput_validBots]
  have htops : pickIdx (s.levels.getD cd.thisLevel []) cd.top = [] := by rw [g.top]; rfl
  rw [htops]
  simp only [List.reverse_nil, List.map_nil, ite_self, List.nil_append, mergeAll, List.foldr_cons,
    List.foldr_nil, merge2_nil_right]
  unfold params validEnts LL.cdHasOverlap cdTops cdBots cdNextT cdThisT
  rw [g.top]
  rfl

theorem flatten_filter_sublist (q : Tbl → Bool) (l : List Tbl) :
    ((l.filter q).map (·.ents)).flatten.Sublist (l.map (·.ents)).flatten := by
  induction l with
  | nil => exact List.Sublist.refl _
  | cons t l ih =>
    rw [List.filter_cons]
    split
    · simp only [List.map_cons, List.flatten_cons]
      exact List.Sublist.append (List.Sublist.refl _) ih
    · simp only [List.map_cons, List.flatten_cons]
      exact ih.trans (List.sublist_append_right _ _)

theorem validEnts_sublist : (validEnts s cd).Sublist (LL.botEnts s cd) := by
  unfold validEnts LL.botEnts
  exact flatten_filter_sublist _ _

theorem mem_validEnts {e : Ent} (he : e ∈ validEnts s cd) : e ∈ LL.botEnts s cd :=
  validEnts_sublist.subset he

/-- skipping the all-prefix tables does not change the read of a key without a dropped prefix -/
theorem newestLE_flatten_filter {q : Tbl → Bool} {k : Bytes}
    (l : List Tbl) (hq : ∀ t ∈ l, q t = false → ∀ e ∈ t.ents, e.key ≠ k) (ts : Nat) :
    newestLE ((l.filter q).map (·.ents)).flatten k ts = newestLE (l.map (·.ents)).flatten k ts := by
  induction l with
  | nil => rfl
  | cons t l ih =>
    have ih' := ih (fun t' ht' => hq t' (List.mem_cons_of_mem _ ht'))
    rw [List.filter_cons]
    cases hqt : q t with
    | true =>
      simp only [if_true, List.map_cons, List.flatten_cons, newestLE_append, ih']
    | false =>
      simp only [Bool.false_eq_true, if_false, List.map_cons, List.flatten_cons, newestLE_append, ih']
      have : newestLE t.ents k ts = none := by
        rw [newestLE_eq_none_iff]
        intro x hx hk
        exact hq t List.mem_cons_self hqt x hx hk.1
      rw [this, pick_none_left]

theorem nl_validEnts (h : LsmInv s) (g : IsDropGroup s cd) {k : Bytes}
    (hk : hasAnyPrefix k cd.dropPrefixes = false) (ts : Nat) :
    newestLE (validEnts s cd) k ts = newestLE (LL.botEnts s cd) k ts := by
  unfold validEnts LL.botEnts
  apply newestLE_flatten_filter
  intro t ht hsk e he hek
  have hsk' : skippedByKeepTable cd.dropPrefixes t = true := by simpa using hsk
  have hts : SortedEnts t.ents := ((level h g).2.1 t (LL.bots_mem ht)).2
  have := C29_keepTable_sound hts hsk' e he
  rw [hek, hk] at this; cases this

/-- `hasOverlap = false`: nothing of the rewritten key range lives below the level -/
theorem below_no_key (h : LsmInv s) (hv : VerBound s) (g : IsDropGroup s cd)
    (hov : LL.cdHasOverlap s cd = false) {e : Ent} (he : e ∈ LL.botEnts s cd) (ts : Nat) :
    LL.readLv e.key ts (cd.nextLevel + 1) (s.levels.drop (cd.nextLevel + 1)) = none := by
  have hokAll : ∀ t ∈ cdTops s cd ++ cdBots s cd, TblOk t := by
    intro t ht
    rw [tops_nil g, List.nil_append] at ht
    exact (level h g).2.1 t (LL.bots_mem ht)
  obtain ⟨t0, ht0, _⟩ := LL.mem_botEnts.mp he
  obtain ⟨lo, hi, hkr⟩ := LL.keyRangeOf_some hokAll (by
    rw [tops_nil g, List.nil_append]; exact List.ne_nil_of_mem ht0)
  obtain ⟨hlo, hhi, hcov⟩ := LL.keyRangeOf_cover hokAll hkr
  have hecov : LL.kle lo.key e.key ∧ LL.kle e.key hi.key := by
    obtain ⟨t, ht, het⟩ := LL.mem_botEnts.mp he
    exact hcov t (List.mem_append_right _ ht) e het
  have hov := (LL.cdHasOverlap_false hov).2
  unfold checkOverlap at hov
  rw [hkr] at hov
  simp only at hov
  apply LL.readLv_eq_none
  intro tbls htb t ht x hx hk
  obtain ⟨j, hj, rfl⟩ := List.getElem_of_mem htb
  have hjl : cd.nextLevel + 1 + j < s.levels.length := by simp at hj; omega
  have hlv : s.levels[cd.nextLevel + 1 + j]? = some (s.levels.drop (cd.nextLevel + 1))[j] := by
    rw [List.getElem_drop]; exact List.getElem?_eq_getElem hjl
  have hnov : tblOverlaps lo hi t = false := by
    have h1 := List.any_eq_false.mp hov (cd.nextLevel + 1 + j, (s.levels.drop (cd.nextLevel + 1))[j])
      ((LL.mem_zipIdx _ _ _).mpr hlv)
    simp only [Bool.and_eq_true, decide_eq_true_eq, not_and] at h1
    have h2 := h1 (by omega)
    have h3 := List.any_eq_false.mp (by simpa using h2) t ht
    simpa using h3
  have htok : TblOk t := (h.level hlv).1 t ht
  have hver : ∀ y ∈ t.ents, y.ver ≤ maxU64 :=
    fun y hy => hv y (LL.mem_allEntries.mpr (.inr (.inr ⟨_, _, t, hlv, ht, hy⟩)))
  rcases LL.not_overlap_sides htok hver hlo hhi hnov with hs | hs
  · exact hecov.1 (hk ▸ hs x hx)
  · exact hecov.2 (hk ▸ hs x hx)

/-- what a read finds above the level is at least as new as anything in the rewritten tables -/
theorem upper_rec (hl : LayeredX s) (g : IsDropGroup s cd) {k : Bytes} {ts : Nat} {x e : Ent}
    (hx : LL.pick (newestLE (LL.memEnts s) k ts) (LL.readLv k ts 0 (s.levels.take cd.nextLevel)) = some x)
    (he : e ∈ LL.botEnts s cd) (hk : e.key = k) : e.ver ≤ x.ver := by
  obtain ⟨t, ht, het⟩ := LL.mem_botEnts.mp he
  have htT : t ∈ cdNextT s cd := LL.bots_mem ht
  have hlv : s.levels[cd.nextLevel]? = some (cdNextT s cd) := LL.levels_getD (next_lt g)
  rcases LL.pick_some hx with ⟨h1, _⟩ | ⟨h1, _⟩
  · obtain ⟨m1, m2, _, _⟩ := LL.newestLE_some h1
    exact LL.layeredX_mem_level hl m1 hlv htT het (m2.trans hk.symm)
  · obtain ⟨j, tbls, t', hj, ht', hxt, hxk, _⟩ := LL.readLv_some h1
    have hjlt : j < cd.nextLevel := by
      have := (List.getElem?_eq_some_iff.mp hj).1
      simp at this; omega
    have hj' : s.levels[j]? = some tbls := by
      rw [List.getElem?_take] at hj
      rwa [if_pos hjlt] at hj
    exact LL.layeredX_levels hl hj' hlv hjlt ht' htT hxt het (hxk.trans hk.symm)

end DG

/-- **C29** — one `dropPrefixes` rewrite of a table group (`IsDropGroup`) on a well-formed state
    leaves the specified read of every key *without* a dropped prefix unchanged, at every
    `ts ≥ discardTs` and on every clock `now ≥` the compaction's clock. (`LayeredX`: recency across
    sources; `VerBound`: `uint64` versions.) -/
theorem C29_group_step_reads {s s' : Lsm} {cd : CompactDef} {d n now' now ts : Nat} {k : Bytes}
    (h : LsmInv s) (hv : VerBound s) (hl : LayeredX s) (g : IsDropGroup s cd)
    (hs : s.compact cd d n now' = some s') (hk : hasAnyPrefix k cd.dropPrefixes = false)
    (hts : d ≤ ts) (hnow : now' ≤ now) :
    s'.specGet k ts now = s.specGet k ts now := by
  obtain ⟨new0, hsp, rfl⟩ := LL.compact_some hs
  have hq := DG.next_lt g
  have hn1 : 1 ≤ cd.nextLevel := g.same ▸ g.lvl1
  unfold Lsm.specGet
  rw [LL.newestLE_allEntries, LL.newestLE_allEntries]
  have hmem : LL.memEnts ({ s with levels := LL.newLevels s cd new0 } : Lsm) = LL.memEnts s := rfl
  rw [hmem]
  simp only
  have hnl : LL.newLevels s cd new0 = s.levels.set cd.nextLevel (LL.newNext s cd new0) := by
    unfold LL.newLevels; rw [if_pos g.same.symm]
  rw [hnl, LL.readLv_split k ts hq, LL.readLv_split_self k ts hq, LL.nextT_eq hq]
  -- the level before and after, as "rewritten part ⊔ kept part"
  have hold_sorted : SortedEnts (LL.lvlChunk cd.nextLevel (cdNextT s cd)) := by
    unfold LL.lvlChunk; rw [if_neg (by omega)]
    exact (LL.levelOk_weaken (DG.level h g).2).2 hn1
  have hold_mem : ∀ e, e ∈ LL.lvlChunk cd.nextLevel (cdNextT s cd) ↔
      e ∈ LL.botEnts s cd ∨ e ∈ LL.keptEnts s cd := by
    intro e
    rw [LL.mem_lvlChunk, LL.mem_botEnts, LL.mem_keptEnts, DG.keptIdx_eq g]
    unfold cdBots
    constructor
    · rintro ⟨t, ht, he⟩
      rcases (LL.mem_pick_or_remove _ cd.bot t).mp ht with h1 | h1
      · exact .inl ⟨t, h1, he⟩
      · exact .inr ⟨t, h1, he⟩
    · rintro (⟨t, ht, he⟩ | ⟨t, ht, he⟩)
      · exact ⟨t, (LL.mem_pick_or_remove _ cd.bot t).mpr (.inl ht), he⟩
      · exact ⟨t, (LL.mem_pick_or_remove _ cd.bot t).mpr (.inr ht), he⟩
  have hold := LL.newestLE_union hold_sorted hold_mem k ts
  -- the output
  have hout := DG.output_eq g d n now'
  have hout_mem : ∀ e ∈ (compactOutput s cd d n now').1, e ∈ LL.botEnts s cd := by
    intro e he
    rcases LL.mem_compactOutput he with h1 | h1
    · rw [DG.topEnts_nil g] at h1; cases h1
    · exact h1
  have hvalid_sorted : SortedEnts (DG.validEnts s cd) :=
    (DG.botEnts_sorted h g).sublist DG.validEnts_sublist
  have hout_sorted : SortedEnts (compactOutput s cd d n now').1 := by
    rw [hout]; exact C12_filter_sorted _ hvalid_sorted
  have hnew_mem : ∀ e, e ∈ LL.lvlChunk cd.nextLevel (LL.newNext s cd new0) ↔
      e ∈ (compactOutput s cd d n now').1 ∨ e ∈ LL.keptEnts s cd := by
    intro e
    rw [LL.mem_lvlChunk, LL.mem_keptEnts]
    unfold LL.newNext
    rw [if_pos g.same.symm, g.top, List.nil_append, DG.keptIdx_eq g]
    constructor
    · rintro ⟨t, ht, he⟩
      rw [LL.mem_sortBySmallest] at ht
      rcases List.mem_append.mp ht with h1 | h1
      · exact .inr ⟨t, h1, he⟩
      · left
        have h2 : t.ents ∈ (withIds new0 cd.outIds).map (·.ents) := List.mem_map.mpr ⟨t, h1, rfl⟩
        rw [LL.withIds_map_ents] at h2
        rw [← (LL.splitSizes_spec hsp).1]
        exact List.mem_flatten.mpr ⟨t.ents, h2, he⟩
    · rintro (he | ⟨t, ht, he⟩)
      · rw [← (LL.splitSizes_spec hsp).1, ← LL.withIds_map_ents new0 cd.outIds] at he
        obtain ⟨l, hl', hel⟩ := List.mem_flatten.mp he
        obtain ⟨t, ht, rfl⟩ := List.mem_map.mp hl'
        exact ⟨t, LL.mem_sortBySmallest.mpr (List.mem_append_right _ ht), hel⟩
      · exact ⟨t, LL.mem_sortBySmallest.mpr (List.mem_append_left _ ht), he⟩
  have hnew_kv : LL.KVFun (LL.lvlChunk cd.nextLevel (LL.newNext s cd new0)) := by
    intro x hx y hy hxy hver
    rcases (hnew_mem x).mp hx with hx1 | hx1 <;> rcases (hnew_mem y).mp hy with hy1 | hy1
    · exact hout_sorted.eq_of_key_ver hx1 hy1 hxy hver
    · exact absurd hxy (DG.bot_kept_key_ne h g (hout_mem x hx1) hy1)
    · exact absurd hxy.symm (DG.bot_kept_key_ne h g (hout_mem y hy1) hx1)
    · exact hold_sorted.eq_of_key_ver ((hold_mem x).mpr (.inr hx1)) ((hold_mem y).mpr (.inr hy1)) hxy hver
  have hnew := LL.newestLE_union_kv hnew_kv hnew_mem k ts
  rw [hold, hnew]
  -- is `k` one of the rewritten keys?
  by_cases hB : ∃ e ∈ LL.botEnts s cd, e.key = k
  · obtain ⟨e0, he0, hk0⟩ := hB
    have hK : newestLE (LL.keptEnts s cd) k ts = none := by
      apply LL.newestLE_eq_none.mpr
      rintro y hy ⟨hyk, _⟩
      exact DG.bot_kept_key_ne h g he0 hy (hk0.trans hyk.symm)
    rw [hK, LL.pick_none_right, LL.pick_none_right]
    have key : ∀ v : Option Ent,
        LL.pick (newestLE (LL.memEnts s) k ts) (LL.pick (LL.readLv k ts 0 (s.levels.take cd.nextLevel))
          (LL.pick v (LL.readLv k ts (cd.nextLevel + 1) (s.levels.drop (cd.nextLevel + 1))))) =
        LL.pick (LL.pick (newestLE (LL.memEnts s) k ts) (LL.readLv k ts 0 (s.levels.take cd.nextLevel)))
          (LL.pick v (LL.readLv k ts (cd.nextLevel + 1) (s.levels.drop (cd.nextLevel + 1)))) :=
      fun v => (LL.pick_assoc _ _ _).symm
    rw [key, key]
    apply LL.read_fallthrough
    rw [hout]
    have hp : (DG.params s cd d n now').discardTs ≤ ts := hts
    have hkp : hasAnyPrefix k (DG.params s cd d n now').dropPrefixes = false := hk
    rcases C29_filter_other_keys_refined hvalid_sorted hp hkp with heq | ⟨hnone, hov, e, he, hdead⟩
    · left; rw [heq, DG.nl_validEnts h g hk]
    · right
      rw [DG.nl_validEnts h g hk] at he
      obtain ⟨m1, m2, _, _⟩ := LL.newestLE_some he
      refine ⟨hnone, e, he, deletedOrExpired_mono hnow hdead, ?_, ?_⟩
      · have := DG.below_no_key h hv g hov m1 ts
        rwa [m2] at this
      · intro x hx
        exact DG.upper_rec hl g hx m1 m2
  · have hBn : newestLE (LL.botEnts s cd) k ts = none := by
      apply LL.newestLE_eq_none.mpr
      rintro y hy ⟨hyk, _⟩
      exact hB ⟨y, hy, hyk⟩
    have hOn : newestLE (compactOutput s cd d n now').1 k ts = none := by
      apply LL.newestLE_eq_none.mpr
      rintro y hy ⟨hyk, _⟩
      exact hB ⟨y, hout_mem y hy, hyk⟩
    rw [hBn, hOn]

/-- the same for the model's read path, given that the state after the rewrite is well formed
    (`LsmInvW`: every level `≥ 1` sorted by internal key — which holds when the implementation
    cuts its output tables in key order, as it does) -/
theorem C29_group_step_get {s s' : Lsm} {cd : CompactDef} {d n now' now ts : Nat} {k : Bytes}
    (h : LsmInv s) (hv : VerBound s) (hl : LayeredX s) (g : IsDropGroup s cd)
    (hs : s.compact cd d n now' = some s') (hinv' : LsmInvW s')
    (hk : hasAnyPrefix k cd.dropPrefixes = false) (hts : d ≤ ts) (hnow : now' ≤ now) :
    visible now (s'.get k ts) = visible now (s.get k ts) := by
  have := C29_group_step_reads h hv hl g hs hk hts hnow
  unfold Lsm.specGet at this
  rw [LL.get_eq_newestLE hinv', LL.get_eq_newestLE (LL.lsmInv_weaken h)]
  exact this

/-! ## the invariants survive a drop-group rewrite -/

namespace DG

variable {s : Lsm} {cd : CompactDef}

theorem out_mem_bots (g : IsDropGroup s cd) {d n now : Nat} {e : Ent}
    (he : e ∈ (compactOutput s cd d n now).1) : e ∈ LL.botEnts s cd := by
  rcases LL.mem_compactOutput he with h1 | h1
  · rw [topEnts_nil g] at h1; cases h1
  · exact h1

theorem out_sorted (h : LsmInv s) (g : IsDropGroup s cd) (d n now : Nat) :
    SortedEnts (compactOutput s cd d n now).1 := by
  rw [output_eq g]
  exact C12_filter_sorted _ ((botEnts_sorted h g).sublist validEnts_sublist)

/-- the tables the rewrite writes: well-formed, made of output entries, in internal-key order -/
theorem new_tables (h : LsmInv s) (g : IsDropGroup s cd) {d n now : Nat} {new0 : List Tbl}
    (hsp : splitSizes cd.outSizes (compactOutput s cd d n now).1 = some new0) :
    (∀ t ∈ withIds new0 cd.outIds, TblOk t ∧ ∀ e ∈ t.ents, e ∈ (compactOutput s cd d n now).1) ∧
    (withIds new0 cd.outIds).Pairwise (LL.Sep LL.elt) := by
  obtain ⟨hflat, hne⟩ := LL.splitSizes_spec hsp
  have hs := out_sorted h g d n now
  rw [← hflat, ← LL.withIds_map_ents new0 cd.outIds, LL.flatten_sorted_iff] at hs
  refine ⟨?_, hs.2⟩
  intro t ht
  have hte : t.ents ∈ (new0.map (·.ents)) := by
    rw [← LL.withIds_map_ents new0 cd.outIds]; exact List.mem_map.mpr ⟨t, ht, rfl⟩
  obtain ⟨t0, ht0, het0⟩ := List.mem_map.mp hte
  refine ⟨⟨?_, hs.1 t ht⟩, ?_⟩
  · rw [← het0]; exact hne t0 ht0
  · intro e he
    rw [← hflat]
    exact List.mem_flatten.mpr ⟨t.ents, hte, he⟩

/-- every entry stored on a level after the rewrite was stored on the same level before -/
theorem entry_origin (h : LsmInv s) (g : IsDropGroup s cd) {d n now : Nat} {new0 : List Tbl}
    (hsp : splitSizes cd.outSizes (compactOutput s cd d n now).1 = some new0)
    {i : Nat} {tbls : List Tbl} {t : Tbl} {e : Ent}
    (hi : (LL.newLevels s cd new0)[i]? = some tbls) (ht : t ∈ tbls) (he : e ∈ t.ents) :
    ∃ tb t0, s.levels[i]? = some tb ∧ t0 ∈ tb ∧ e ∈ t0.ents := by
  rw [LL.newLevels_get new0 g.lt (next_lt g) i, if_neg (fun e => e.2 g.same.symm)] at hi
  by_cases hin : i = cd.nextLevel
  · rw [if_pos hin] at hi
    simp only [Option.some.injEq] at hi
    subst hi
    unfold LL.newNext at ht
    rw [LL.mem_sortBySmallest, if_pos g.same.symm, g.top, List.nil_append] at ht
    refine ⟨cdNextT s cd, ?_⟩
    rcases List.mem_append.mp ht with h1 | h1
    · obtain ⟨j, hj, _⟩ := LL.mem_removeIdx.mp h1
      exact ⟨t, hin ▸ (level h g).1, List.mem_of_getElem? hj, he⟩
    · have := out_mem_bots g (((new_tables h g hsp).1 t h1).2 e he)
      obtain ⟨t0, ht0, het0⟩ := LL.mem_botEnts.mp this
      exact ⟨t0, hin ▸ (level h g).1, LL.bots_mem ht0, het0⟩
  · rw [if_neg hin] at hi
    exact ⟨tbls, t, hi, ht, he⟩

theorem mem_allEntries_after (h : LsmInv s) (g : IsDropGroup s cd) {d n now : Nat} {new0 : List Tbl}
    (hsp : splitSizes cd.outSizes (compactOutput s cd d n now).1 = some new0) {e : Ent}
    (he : e ∈ ({ s with levels := LL.newLevels s cd new0 } : Lsm).allEntries) : e ∈ s.allEntries := by
  rcases LL.mem_allEntries.mp he with h1 | h1 | ⟨i, tbls, t, hi, ht, het⟩
  · exact LL.mem_allEntries.mpr (.inl h1)
  · exact LL.mem_allEntries.mpr (.inr (.inl h1))
  · obtain ⟨tb, t0, h1, h2, h3⟩ := entry_origin h g hsp hi ht het
    exact LL.mem_allEntries.mpr (.inr (.inr ⟨i, tb, t0, h1, h2, h3⟩))

end DG

/-- **C29** — a drop-group rewrite preserves the structural invariant (tables non-empty and
    sorted, levels `≥ 1` key-disjoint, positive versions), provided the implementation cuts its
    output tables where the user key changes (as `addKeys` does; checked by the harness). -/
theorem C29_group_step_inv {s s' : Lsm} {cd : CompactDef} {d n now : Nat} (h : LsmInv s)
    (g : IsDropGroup s cd) (hs : s.compact cd d n now = some s')
    (hcut : ∀ new0, splitSizes cd.outSizes (compactOutput s cd d n now).1 = some new0 →
      CutsAtKeyChange (withIds new0 cd.outIds)) : LsmInv s' := by
  obtain ⟨new0, hsp, rfl⟩ := LL.compact_some hs
  refine ⟨h.1, h.2.1, ?_, fun e he => h.2.2.2 e (DG.mem_allEntries_after h g hsp he)⟩
  rintro ⟨i, tbls⟩ hp
  have hi := (LL.mem_zipIdx _ _ _).mp hp
  simp only at hi
  have hi0 := hi
  rw [LL.newLevels_get new0 g.lt (DG.next_lt g) i, if_neg (fun e => e.2 g.same.symm)] at hi
  by_cases hin : i = cd.nextLevel
  · rw [if_pos hin] at hi
    simp only [Option.some.injEq] at hi
    subst hi
    simp only
    obtain ⟨hlv, hok, hkd⟩ := DG.level h g
    have hn1 : 1 ≤ cd.nextLevel := g.same ▸ g.lvl1
    obtain ⟨hnew, hnewp⟩ := DG.new_tables h g hsp
    have hmemb : ∀ t, t ∈ LL.newNext s cd new0 ↔
        t ∈ removeIdx (cdNextT s cd) cd.bot ∨ t ∈ withIds new0 cd.outIds := by
      intro t
      unfold LL.newNext
      rw [LL.mem_sortBySmallest, if_pos g.same.symm, g.top, List.nil_append, List.mem_append]
    have hallok : ∀ t ∈ removeIdx (cdNextT s cd) cd.bot ++ withIds new0 cd.outIds, TblOk t := by
      intro t ht
      rcases List.mem_append.mp ht with h1 | h1
      · obtain ⟨j, hj, _⟩ := LL.mem_removeIdx.mp h1
        exact hok t (List.mem_of_getElem? hj)
      · exact (hnew t h1).1
    refine ⟨fun t ht => hallok t (List.mem_append.mpr ((hmemb t).mp ht)), fun _ => ?_⟩
    unfold LL.newNext
    rw [if_pos g.same.symm, g.top, List.nil_append]
    apply LL.sortBySmallest_pairwise LL.sepRel_keyLt (fun t ht => (hallok t ht).1)
    have hT := hkd hn1
    rw [List.pairwise_append]
    refine ⟨?_, ?_, ?_⟩
    · exact (List.Pairwise.sublist (LL.removeIdx_sublist _ _) hT).imp (fun h => .inl h)
    · exact (LL.cuts_pairwise (fun t ht => (hnew t ht).1) hnewp (hcut new0 hsp)).imp (fun h => .inl h)
    · intro a ha b hb
      obtain ⟨j, hj, hjb⟩ := LL.mem_removeIdx.mp ha
      have hjlt := (List.getElem?_eq_some_iff.mp hj).1
      have hside := g.convex j hjb
      have hpw := List.pairwise_iff_getElem.mp hT
      -- every entry of `b` lives in a table of the block
      have hfrom : ∀ y ∈ b.ents, ∃ j', ∃ hj' : j' < (cdNextT s cd).length,
          j' ∈ cd.bot ∧ y ∈ ((cdNextT s cd)[j']).ents := by
        intro y hy
        have := DG.out_mem_bots g ((hnew b hb).2 y hy)
        obtain ⟨t0, ht0, hy0⟩ := LL.mem_botEnts.mp this
        obtain ⟨j', hj'm, hj'⟩ := LL.mem_pickIdx.mp ht0
        obtain ⟨hlt', rfl⟩ := List.getElem?_eq_some_iff.mp hj'
        exact ⟨j', hlt', hj'm, hy0⟩
      obtain ⟨_, rfl⟩ := List.getElem?_eq_some_iff.mp hj
      rcases hside with hl | hr
      · left
        intro x hx y hy
        obtain ⟨j', hj', h1, hy'⟩ := hfrom y hy
        exact hpw j j' hjlt hj' (hl j' h1) x hx y hy'
      · right
        intro y hy x hx
        obtain ⟨j', hj', h1, hy'⟩ := hfrom y hy
        exact hpw j' j hj' hjlt (hr j' h1) y hy' x hx
  · rw [if_neg hin] at hi
    exact h.2.2.1 (i, tbls) ((LL.mem_zipIdx _ _ _).mpr hi)

/-- a drop-group rewrite only removes entries -/
theorem C29_group_step_subset {s s' : Lsm} {cd : CompactDef} {d n now : Nat} (h : LsmInv s)
    (g : IsDropGroup s cd) (hs : s.compact cd d n now = some s') :
    ∀ e ∈ s'.allEntries, e ∈ s.allEntries := by
  obtain ⟨new0, hsp, rfl⟩ := LL.compact_some hs
  exact fun e he => DG.mem_allEntries_after h g hsp he

/-- versions stay `uint64`s -/
theorem C29_group_step_verBound {s s' : Lsm} {cd : CompactDef} {d n now : Nat} (h : LsmInv s)
    (hv : VerBound s) (g : IsDropGroup s cd) (hs : s.compact cd d n now = some s') : VerBound s' := by
  obtain ⟨new0, hsp, rfl⟩ := LL.compact_some hs
  exact fun e he => hv e (DG.mem_allEntries_after h g hsp he)

/-- recency across sources survives: nothing moves to another level -/
theorem C29_group_step_layeredX {s s' : Lsm} {cd : CompactDef} {d n now : Nat} (h : LsmInv s)
    (hl : LayeredX s) (g : IsDropGroup s cd) (hs : s.compact cd d n now = some s') : LayeredX s' := by
  obtain ⟨new0, hsp, rfl⟩ := LL.compact_some hs
  obtain ⟨p1, p2, p3⟩ := (LL.layeredX_iff s).mp hl
  rw [LL.layeredX_iff]
  refine ⟨p1, ?_, ?_⟩
  · intro x hx i tbls t hi ht e he hk
    obtain ⟨tb, t0, h1, h2, h3⟩ := DG.entry_origin h g hsp hi ht he
    exact p2 x hx i tb t0 h1 h2 e h3 hk
  · intro i i' tbls tbls' t t' hi hi' hlt ht ht' x hx e he hk
    obtain ⟨tb, t0, f1, f2, f3⟩ := DG.entry_origin h g hsp hi ht hx
    obtain ⟨tb', t0', g1, g2, g3⟩ := DG.entry_origin h g hsp hi' ht' he
    exact p3 i i' tb tb' t0 t0' f1 g1 hlt f2 g2 x f3 e g3 hk

/-- a run of consecutive positions is such a block (`C29_dropGroups_consecutive`) -/
theorem isDropGroup_of_run {s : Lsm} {lvl a m : Nat} {outS outI : List Nat} {ps : List Bytes}
    (h1 : 1 ≤ lvl) (hlt : lvl < s.levels.length) :
    IsDropGroup s { thisLevel := lvl, nextLevel := lvl, top := [], bot := List.range' a m,
                    outSizes := outS, outIds := outI, dropPrefixes := ps } where
  lvl1 := h1
  lt := hlt
  same := rfl
  top := rfl
  incr := by
    simp only
    exact List.pairwise_lt_range'
  convex := by
    intro j hj
    simp only [List.mem_range'_1] at hj ⊢
    by_cases h : j < a
    · exact .inl (fun j' hj' => by omega)
    · exact .inr (fun j' hj' => by omega)

end Badger
