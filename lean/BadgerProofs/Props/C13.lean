import BadgerProofs.Lemmas.Sorted
/-!
# C13 — what the compaction filter (`subcompact` = the `addKeys` loop of levels.go) retains

For a sorted input stream `es` and no `dropPrefixes`, the filter is characterised *exactly*
(`C13_keep_n`, and in equational form `subcompact_eq_filter`) by three readable predicates
of the list:

* `counted p e`      — `e.ver ≤ discardTs` and `e` is not a merge entry (the versions the loop counts);
* `stops p es e`     — `e` is counted and is dead (deleted/expired at `p.now`), or carries
                       `bitDiscardEarlierVersions`, or is the `numKeep`-th counted version of its key;
* `belowBoundary p es e` — some strictly newer version of the same key `stops`.

The first entry of a key that `stops` is the *boundary* (`isBoundary`). An entry is dropped iff it
is below a boundary, or it is itself a dead boundary and `hasOverlap = false`.
-/
namespace Badger

/-- the versions the loop counts: at or below the discard watermark and not a merge entry -/
def counted (p : CParams) (e : Ent) : Bool :=
  decide (e.ver ≤ p.discardTs) && !hasBit e.emeta bitMerge

/-- deleted or expired on the compaction's clock -/
def deadAt (p : CParams) (e : Ent) : Bool := deletedOrExpired e.emeta e.exp p.now

/-- number of counted versions of `e`'s key that are strictly newer than `e` -/
def countedBefore (p : CParams) (es : List Ent) (e : Ent) : Nat :=
  (es.filter (fun x => decide (x.key = e.key ∧ e.ver < x.ver) && counted p x)).length

/-- `e` makes the loop set `skipKey`: it is counted and dead / discard-earlier / the `numKeep`-th -/
def stops (p : CParams) (es : List Ent) (e : Ent) : Bool :=
  counted p e &&
    (deadAt p e || hasBit e.emeta bitDiscardEarlier || countedBefore p es e + 1 == p.numKeep)

/-- a strictly newer version of the same key stops -/
def belowBoundary (p : CParams) (es : List Ent) (e : Ent) : Bool :=
  es.any (fun x => decide (x.key = e.key ∧ e.ver < x.ver) && stops p es x)

/-- the boundary of a key: its first (newest) version that stops -/
def isBoundary (p : CParams) (es : List Ent) (e : Ent) : Bool :=
  stops p es e && !belowBoundary p es e

/-- the retention rule -/
def keeps (p : CParams) (es : List Ent) (e : Ent) : Bool :=
  !belowBoundary p es e && !(isBoundary p es e && deadAt p e && !p.hasOverlap)

/-! ## the loop body without `dropPrefixes`, in a readable normal form -/

theorem hasAnyPrefix_nil (ik : Bytes) : hasAnyPrefix ik [] = false := rfl

/-- `numVersions` as seen by entry `e` (after the `lastKey` reset) -/
def baseCount (st : FState) (e : Ent) : Nat :=
  if st.lastKey = some e.key then st.numVersions else 0

theorem filtStep_eq (p : CParams) (hp : p.dropPrefixes = []) (st : FState) (e : Ent) :
    filtStep p st e =
      if st.skipKey = some e.key then (st, false) else
      if counted p e then
        if deadAt p e || hasBit e.emeta bitDiscardEarlier || baseCount st e + 1 == p.numKeep then
          ({ lastKey := some e.key, skipKey := some e.key, numVersions := baseCount st e + 1 },
            !deadAt p e || p.hasOverlap)
        else ({ lastKey := some e.key, skipKey := none, numVersions := baseCount st e + 1 }, true)
      else ({ lastKey := some e.key, skipKey := none, numVersions := baseCount st e }, true) := by
  unfold filtStep baseCount
  rw [hp, hasAnyPrefix_nil]
  simp only [Bool.false_eq_true, if_false, beq_iff_eq]
  by_cases hskip : st.skipKey = some e.key
  · simp [hskip]
  · simp only [hskip, if_false]
    by_cases hl : st.lastKey = some e.key
    · by_cases hc : counted p e = true
      · have hc' := hc
        simp only [counted, Bool.and_eq_true, decide_eq_true_eq, Bool.not_eq_true'] at hc'
        cases hd : deadAt p e <;> cases hde : hasBit e.emeta bitDiscardEarlier <;>
          cases ho : p.hasOverlap <;>
          by_cases hn : st.numVersions + 1 = p.numKeep <;>
          simp_all [deadAt, counted]
      · have hc' : (decide (e.ver ≤ p.discardTs) && !hasBit e.emeta bitMerge) = false := by
          simpa [counted] using hc
        simp [hl, hc, hc']
    · by_cases hc : counted p e = true
      · have hc' := hc
        simp only [counted, Bool.and_eq_true, decide_eq_true_eq, Bool.not_eq_true'] at hc'
        cases hd : deadAt p e <;> cases hde : hasBit e.emeta bitDiscardEarlier <;>
          cases ho : p.hasOverlap <;>
          by_cases hn : 0 + 1 = p.numKeep <;>
          simp_all [deadAt, counted]
      · have hc' : (decide (e.ver ≤ p.discardTs) && !hasBit e.emeta bitMerge) = false := by
          simpa [counted] using hc
        simp [hl, hc, hc']


/-! ## the loop invariant -/

/-- same-key entries of a sorted list are contiguous: if the prefix before `e` holds an entry
    of `e`'s key then the last entry of the prefix has that key -/
theorem lastKey_of_sorted {pre rest : List Ent} {e x : Ent} (h : SortedEnts (pre ++ e :: rest))
    (hx : x ∈ pre) (hk : x.key = e.key) : pre.getLast?.map (·.key) = some e.key := by
  rcases List.eq_nil_or_concat pre with rfl | ⟨ini, l, rfl⟩
  · cases hx
  · rw [List.concat_eq_append] at *
    rw [List.getLast?_concat]
    simp only [Option.map_some, Option.some.injEq]
    rw [sortedEnts_append] at h
    have hle : entCmp l e = .lt := h.2.2 l (by simp) e List.mem_cons_self
    rcases List.mem_append.mp hx with hx | hx
    · have hxl : entCmp x l = .lt := (sortedEnts_append.mp h.1).2.2 x hx l (by simp)
      rw [entCmp_key_squeeze hxl hle hk, hk]
    · simp only [List.mem_singleton] at hx
      rw [← hx, hk]

theorem countedBefore_eq_prefix (p : CParams) {pre rest : List Ent} {e : Ent}
    (h : SortedEnts (pre ++ e :: rest)) :
    countedBefore p (pre ++ e :: rest) e =
      (pre.filter (fun x => decide (x.key = e.key) && counted p x)).length := by
  unfold countedBefore
  rw [List.filter_append, List.length_append]
  have h2 : (e :: rest).filter (fun x => decide (x.key = e.key ∧ e.ver < x.ver) && counted p x) = [] := by
    rw [List.filter_eq_nil_iff]
    intro x hx hq
    simp only [Bool.and_eq_true, decide_eq_true_eq] at hq
    have hlt : entCmp x e = .lt := (entCmp_lt_same_key hq.1.1).mpr hq.1.2
    exact (sortedEnts_append.mp h).2.1.head_le hx hlt
  rw [h2, List.length_nil, Nat.add_zero]
  congr 1
  apply List.filter_congr
  intro x hx
  by_cases hk : x.key = e.key
  · have := h.prefix_newer hx hk
    simp [hk, this]
  · simp [hk]

theorem belowBoundary_iff (p : CParams) {pre rest : List Ent} {e : Ent}
    (h : SortedEnts (pre ++ e :: rest)) :
    belowBoundary p (pre ++ e :: rest) e = true ↔
      ∃ x ∈ pre, x.key = e.key ∧ stops p (pre ++ e :: rest) x = true := by
  unfold belowBoundary
  rw [List.any_eq_true]
  constructor
  · rintro ⟨x, hx, hq⟩
    simp only [Bool.and_eq_true, decide_eq_true_eq] at hq
    exact ⟨x, h.newer_mem_prefix hx hq.1.1 hq.1.2, hq.1.1, hq.2⟩
  · rintro ⟨x, hx, hk, hst⟩
    refine ⟨x, List.mem_append_left _ hx, ?_⟩
    simp only [Bool.and_eq_true, decide_eq_true_eq]
    exact ⟨⟨hk, h.prefix_newer hx hk⟩, hst⟩

/-- the state of the `addKeys` loop after the prefix `pre` of the sorted stream `es` -/
structure FInv (p : CParams) (es pre : List Ent) (st : FState) : Prop where
  last : st.lastKey = pre.getLast?.map (·.key)
  skip : ∀ k, st.skipKey = some k →
    st.lastKey = some k ∧ ∃ x ∈ pre, x.key = k ∧ stops p es x = true
  skip' : ∀ x ∈ pre, stops p es x = true → st.lastKey = some x.key → st.skipKey = some x.key
  num : st.skipKey = none → ∀ k, st.lastKey = some k →
    st.numVersions = (pre.filter (fun x => decide (x.key = k) && counted p x)).length

theorem FInv.init (p : CParams) (es : List Ent) : FInv p es [] {} where
  last := rfl
  skip := by intro k h; cases h
  skip' := by intro x hx; cases hx
  num := by intro _ k h; cases h

theorem filtStep_spec {p : CParams} (hp : p.dropPrefixes = []) {es pre rest : List Ent} {e : Ent}
    {st : FState} (hes : es = pre ++ e :: rest) (hs : SortedEnts es) (hinv : FInv p es pre st) :
    (filtStep p st e).2 = keeps p es e ∧ FInv p es (pre ++ [e]) (filtStep p st e).1 := by
  have hs' : SortedEnts (pre ++ e :: rest) := hes ▸ hs
  have hlastE : (pre ++ [e]).getLast?.map (·.key) = some e.key := by
    rw [List.getLast?_concat]; rfl
  -- skipping ↔ below a boundary
  have hbelow : belowBoundary p es e = true ↔ st.skipKey = some e.key := by
    rw [hes, belowBoundary_iff p hs', ← hes]
    constructor
    · rintro ⟨x, hx, hk, hst⟩
      have := hinv.skip' x hx hst (by rw [hinv.last, hk]; exact lastKey_of_sorted hs' hx hk)
      rw [this, hk]
    · intro h
      exact (hinv.skip _ h).2
  -- the counter seen by `e`
  have hcb : countedBefore p es e =
      (pre.filter (fun x => decide (x.key = e.key) && counted p x)).length := by
    rw [hes]; exact countedBefore_eq_prefix p hs'
  have hbase : st.skipKey ≠ some e.key → baseCount st e = countedBefore p es e := by
    intro hskip
    rw [hcb]; unfold baseCount
    by_cases hl : st.lastKey = some e.key
    · rw [if_pos hl]
      have hnone : st.skipKey = none := by
        cases hsk : st.skipKey with
        | none => rfl
        | some k =>
          have := (hinv.skip k hsk).1
          rw [hl] at this; cases this; exact absurd hsk hskip
      exact hinv.num hnone _ hl
    · rw [if_neg hl]
      symm
      rw [List.length_eq_zero_iff, List.filter_eq_nil_iff]
      intro x hx hq
      simp only [Bool.and_eq_true, decide_eq_true_eq] at hq
      exact hl (by rw [hinv.last]; exact lastKey_of_sorted hs' hx hq.1)
  rw [filtStep_eq p hp]
  by_cases hskip : st.skipKey = some e.key
  · -- skipped: below a boundary
    rw [if_pos hskip]
    have hb := hbelow.mpr hskip
    refine ⟨by simp [keeps, hb], ?_⟩
    have hl : st.lastKey = some e.key := (hinv.skip _ hskip).1
    exact {
      last := by rw [hlastE]; exact hl
      skip := by
        intro k hk
        obtain ⟨h1, x, hx, h2⟩ := hinv.skip k hk
        exact ⟨h1, x, List.mem_append_left _ hx, h2⟩
      skip' := by
        intro x _ _ hlx
        rw [hl] at hlx
        simp only [Option.some.injEq] at hlx
        rw [← hlx]; exact hskip
      num := by intro hn; rw [hskip] at hn; cases hn }
  · rw [if_neg hskip]
    have hb : belowBoundary p es e = false := by
      cases h : belowBoundary p es e with
      | false => rfl
      | true => exact absurd (hbelow.mp h) hskip
    have hbc := hbase hskip
    -- no older stopper of this key in the prefix
    have hnostop : ∀ x ∈ pre, stops p es x = true → x.key ≠ e.key := by
      intro x hx hst hk
      have : belowBoundary p es e = true := by
        rw [hes, belowBoundary_iff p hs', ← hes]; exact ⟨x, hx, hk, hst⟩
      rw [hb] at this; cases this
    by_cases hc : counted p e = true
    · rw [if_pos hc]
      have hstops : stops p es e =
          (deadAt p e || hasBit e.emeta bitDiscardEarlier || baseCount st e + 1 == p.numKeep) := by
        unfold stops; rw [hc, hbc]; simp
      by_cases hst : (deadAt p e || hasBit e.emeta bitDiscardEarlier ||
          baseCount st e + 1 == p.numKeep) = true
      · rw [if_pos hst]
        rw [hst] at hstops
        refine ⟨?_, ?_⟩
        · simp only [keeps, isBoundary, hb, hstops]
          cases deadAt p e <;> cases p.hasOverlap <;> rfl
        · exact {
            last := by rw [hlastE]
            skip := by
              intro k hk
              simp only [Option.some.injEq] at hk
              subst hk
              exact ⟨rfl, e, by simp, rfl, hstops⟩
            skip' := by
              intro x _ _ hlx
              simp only [Option.some.injEq] at hlx
              simp only [hlx]
            num := by intro hn; cases hn }
      · rw [if_neg hst]
        have hst' : stops p es e = false := by
          rw [hstops]; simpa using hst
        refine ⟨by simp [keeps, isBoundary, hb, hst'], ?_⟩
        exact {
          last := by rw [hlastE]
          skip := by intro k hk; cases hk
          skip' := by
            intro x hx hsx hlx
            simp only [Option.some.injEq] at hlx
            rcases List.mem_append.mp hx with hx | hx
            · exact absurd hlx.symm (hnostop x hx hsx)
            · simp only [List.mem_singleton] at hx
              rw [hx, hst'] at hsx; cases hsx
          num := by
            intro _ k hk
            simp only [Option.some.injEq] at hk
            subst hk
            simp only [List.filter_append, List.length_append]
            rw [hbc, hcb]
            simp [hc] }
    · rw [if_neg hc]
      have hc' : counted p e = false := by simpa using hc
      have hst' : stops p es e = false := by unfold stops; rw [hc']; rfl
      refine ⟨by simp [keeps, isBoundary, hb, hst'], ?_⟩
      exact {
        last := by rw [hlastE]
        skip := by intro k hk; cases hk
        skip' := by
          intro x hx hsx hlx
          simp only [Option.some.injEq] at hlx
          rcases List.mem_append.mp hx with hx | hx
          · exact absurd hlx.symm (hnostop x hx hsx)
          · simp only [List.mem_singleton] at hx
            rw [hx, hst'] at hsx; cases hsx
        num := by
          intro _ k hk
          simp only [Option.some.injEq] at hk
          subst hk
          simp only [List.filter_append, List.length_append]
          rw [hbc, hcb]
          simp [hc'] }

theorem filtRun_cons (p : CParams) (st : FState) (e : Ent) (es : List Ent) :
    filtRun p st (e :: es) =
      if (filtStep p st e).2 then e :: filtRun p (filtStep p st e).1 es
      else filtRun p (filtStep p st e).1 es := by
  rw [filtRun]

theorem filtRun_eq_filter {p : CParams} (hp : p.dropPrefixes = []) {es : List Ent}
    (hs : SortedEnts es) :
    ∀ (rest pre : List Ent) (st : FState), es = pre ++ rest → FInv p es pre st →
      filtRun p st rest = rest.filter (keeps p es) := by
  intro rest
  induction rest with
  | nil => intros; rfl
  | cons e rest ih =>
    intro pre st hes hinv
    obtain ⟨hk, hinv'⟩ := filtStep_spec hp hes hs hinv
    rw [filtRun_cons, hk, List.filter_cons,
      ih (pre ++ [e]) _ (by rw [hes, List.append_cons]) hinv']

/-- **The filter, exactly**: on a sorted stream (and without `dropPrefixes`) `subcompact` is the
    list filter of the retention rule `keeps`. -/
theorem subcompact_eq_filter {p : CParams} (hp : p.dropPrefixes = []) {es : List Ent}
    (hs : SortedEnts es) : subcompact p es = es.filter (keeps p es) :=
  filtRun_eq_filter hp hs es [] {} rfl (FInv.init p es)

/-! ## C13: the retention theorems -/

/-- **C13 (main statement)** — exact characterisation of what the compaction filter retains:
    an entry of the sorted input survives iff it is not below a boundary of its key and it is
    not a dead boundary dropped for lack of overlap. -/
theorem C13_keep_n {p : CParams} {es : List Ent} (hs : SortedEnts es) (hp : p.dropPrefixes = [])
    (e : Ent) :
    e ∈ subcompact p es ↔
      e ∈ es ∧ belowBoundary p es e = false ∧
        ¬(isBoundary p es e = true ∧ deadAt p e = true ∧ p.hasOverlap = false) := by
  rw [subcompact_eq_filter hp hs, List.mem_filter]
  unfold keeps
  cases belowBoundary p es e <;> cases isBoundary p es e <;> cases deadAt p e <;>
    cases p.hasOverlap <;> simp

/-- the boundary of a key is unique -/
theorem C13_boundary_unique {p : CParams} {es : List Ent} {a b : Ent} (ha : a ∈ es) (hb : b ∈ es)
    (hk : a.key = b.key) (h1 : isBoundary p es a = true) (h2 : isBoundary p es b = true) :
    a.ver = b.ver := by
  simp only [isBoundary, Bool.and_eq_true, Bool.not_eq_true', belowBoundary,
    List.any_eq_false, decide_eq_true_eq, not_and, Bool.not_eq_true] at h1 h2
  rcases Nat.lt_trichotomy a.ver b.ver with h | h | h
  · have := h1.2 b hb ⟨hk.symm, h⟩; rw [h2.1] at this; cases this
  · exact h
  · have := h2.2 a ha ⟨hk, h⟩; rw [h1.1] at this; cases this

theorem exists_max_ver : ∀ (l : List Ent), l ≠ [] → ∃ x ∈ l, ∀ y ∈ l, y.ver ≤ x.ver
  | [], h => absurd rfl h
  | [a], _ => ⟨a, by simp, by simp⟩
  | a :: b :: l, _ => by
    obtain ⟨x, hx, hmax⟩ := exists_max_ver (b :: l) (by simp)
    by_cases h : x.ver ≤ a.ver
    · refine ⟨a, by simp, ?_⟩
      intro y hy
      rcases List.mem_cons.mp hy with rfl | hy
      · exact Nat.le_refl _
      · exact Nat.le_trans (hmax y hy) h
    · refine ⟨x, List.mem_cons_of_mem _ hx, ?_⟩
      intro y hy
      rcases List.mem_cons.mp hy with rfl | hy
      · omega
      · exact hmax y hy

/-- "below a boundary" really means: a strictly newer entry of the key is *the* boundary -/
theorem C13_below_iff_boundary_above {p : CParams} {es : List Ent} (e : Ent) :
    belowBoundary p es e = true ↔
      ∃ b ∈ es, b.key = e.key ∧ e.ver < b.ver ∧ isBoundary p es b = true := by
  constructor
  · intro h
    -- the newest stopper above `e`
    let S := es.filter (fun x => decide (x.key = e.key ∧ e.ver < x.ver) && stops p es x)
    have hS : S ≠ [] := by
      intro hnil
      simp only [belowBoundary, List.any_eq_true] at h
      obtain ⟨x, hx, hq⟩ := h
      have : x ∈ S := List.mem_filter.mpr ⟨hx, hq⟩
      rw [hnil] at this; cases this
    obtain ⟨b, hb, hmax⟩ := exists_max_ver S hS
    have hb' := List.mem_filter.mp hb
    simp only [Bool.and_eq_true, decide_eq_true_eq] at hb'
    refine ⟨b, hb'.1, hb'.2.1.1, hb'.2.1.2, ?_⟩
    simp only [isBoundary, Bool.and_eq_true, Bool.not_eq_true', hb'.2.2, true_and]
    cases hbb : belowBoundary p es b with
    | false => rfl
    | true =>
      simp only [belowBoundary, List.any_eq_true, Bool.and_eq_true, decide_eq_true_eq] at hbb
      obtain ⟨y, hy, ⟨hyk, hyv⟩, hys⟩ := hbb
      have : y ∈ S := by
        refine List.mem_filter.mpr ⟨hy, ?_⟩
        simp only [Bool.and_eq_true, decide_eq_true_eq]
        exact ⟨⟨hyk.trans hb'.2.1.1, by omega⟩, hys⟩
      have := hmax y this
      omega
  · rintro ⟨b, hb, hk, hv, hbd⟩
    simp only [isBoundary, Bool.and_eq_true] at hbd
    simp only [belowBoundary, List.any_eq_true, Bool.and_eq_true, decide_eq_true_eq]
    exact ⟨b, hb, ⟨hk, hv⟩, hbd.1⟩

/-- **C13** — compaction never removes a version newer than the discard watermark. -/
theorem C13_keep_above {p : CParams} {es : List Ent} {e : Ent} (hs : SortedEnts es)
    (hp : p.dropPrefixes = []) (he : e ∈ es) (hv : p.discardTs < e.ver) : e ∈ subcompact p es := by
  rw [C13_keep_n hs hp]
  have hnc : counted p e = false := by
    simp only [counted, Bool.and_eq_false_imp, decide_eq_true_eq]; intro h; omega
  refine ⟨he, ?_, ?_⟩
  · simp only [belowBoundary, List.any_eq_false, Bool.and_eq_true, decide_eq_true_eq, not_and,
      Bool.not_eq_true]
    intro x _ hx
    cases hst : stops p es x with
    | false => rfl
    | true =>
      simp only [stops, counted, Bool.and_eq_true, decide_eq_true_eq] at hst
      omega
  · intro h
    simp only [isBoundary, stops, hnc, Bool.false_and] at h
    cases h.1

/-- **C13** — entries carrying the merge bit are never dropped by the count/dead rule: a merge
    entry is dropped only when it lies below a boundary of its key, i.e. when some strictly newer
    version of the key `stops`. -/
theorem C13_merge_not_counted {p : CParams} {es : List Ent} {e : Ent} (hs : SortedEnts es)
    (hp : p.dropPrefixes = []) (he : e ∈ es) (hm : hasBit e.emeta bitMerge = true)
    (hno : ∀ e' ∈ es, e'.key = e.key → e'.ver > e.ver → stops p es e' = false) :
    e ∈ subcompact p es := by
  rw [C13_keep_n hs hp]
  have hnc : counted p e = false := by simp [counted, hm]
  refine ⟨he, ?_, ?_⟩
  · simp only [belowBoundary, List.any_eq_false, Bool.and_eq_true, decide_eq_true_eq, not_and,
      Bool.not_eq_true]
    intro x hx hq
    exact hno x hx hq.1 hq.2
  · intro h
    simp only [isBoundary, stops, hnc, Bool.false_and] at h
    cases h.1

/-- and exactly: a merge entry survives iff it is not below a boundary -/
theorem C13_merge_iff {p : CParams} {es : List Ent} {e : Ent} (hs : SortedEnts es)
    (hp : p.dropPrefixes = []) (hm : hasBit e.emeta bitMerge = true) :
    e ∈ subcompact p es ↔ e ∈ es ∧ belowBoundary p es e = false := by
  rw [C13_keep_n hs hp]
  have hnc : counted p e = false := by simp [counted, hm]
  have : isBoundary p es e = false := by simp [isBoundary, stops, hnc]
  simp [this]

/-- merge entries are not counted towards `numKeep` -/
theorem C13_merge_uncounted (p : CParams) (e : Ent) (hm : hasBit e.emeta bitMerge = true) :
    counted p e = false := by simp [counted, hm]

/-- everything of a key after (= older than) its boundary is dropped -/
theorem C13_below_dropped {p : CParams} {es : List Ent} {e : Ent} (hs : SortedEnts es)
    (hp : p.dropPrefixes = []) (hb : belowBoundary p es e = true) : e ∉ subcompact p es := by
  rw [C13_keep_n hs hp, hb]; simp

/-- the boundary entry itself is kept iff it is live or the key range overlaps lower levels -/
theorem C13_boundary_kept_iff {p : CParams} {es : List Ent} {e : Ent} (hs : SortedEnts es)
    (hp : p.dropPrefixes = []) (he : e ∈ es) (hb : isBoundary p es e = true) :
    e ∈ subcompact p es ↔ deadAt p e = false ∨ p.hasOverlap = true := by
  rw [C13_keep_n hs hp]
  have hnb : belowBoundary p es e = false := by
    simp only [isBoundary, Bool.and_eq_true, Bool.not_eq_true'] at hb; exact hb.2
  cases deadAt p e <;> cases p.hasOverlap <;> simp [he, hnb, hb]

theorem filter_length_succ_le {α : Type} {f g : α → Bool} {x : α} :
    ∀ {l : List α}, (∀ y ∈ l, f y = true → g y = true) → x ∈ l → g x = true → f x = false →
      (l.filter f).length + 1 ≤ (l.filter g).length
  | [], _, hx, _, _ => by cases hx
  | a :: l, hfg, hx, hgx, hfx => by
    have hmono : (l.filter f).length ≤ (l.filter g).length := by
      have : (l.filter f).Sublist (l.filter g) := by
        have h1 : l.filter f = (l.filter g).filter f := by
          rw [List.filter_filter]
          apply List.filter_congr
          intro y hy
          cases hf : f y with
          | false => rfl
          | true => simp [hfg y (List.mem_cons_of_mem _ hy) hf]
        rw [h1]; exact List.filter_sublist
      exact this.length_le
    by_cases hxa : x = a
    · subst hxa
      simp only [List.filter_cons, hfx, hgx, if_true, List.length_cons]
      simp only [Bool.false_eq_true, if_false]
      omega
    · have hx' : x ∈ l := by
        rcases List.mem_cons.mp hx with h | h
        · exact absurd h hxa
        · exact h
      have ih := filter_length_succ_le (l := l)
        (fun y hy => hfg y (List.mem_cons_of_mem _ hy)) hx' hgx hfx
      simp only [List.filter_cons]
      cases hfa : f a with
      | false =>
        simp only [Bool.false_eq_true, if_false]
        split
        · simp only [List.length_cons]; omega
        · exact ih
      | true =>
        simp only [hfg a List.mem_cons_self hfa, if_true, List.length_cons]
        omega

/-- a counted, strictly newer version of the same key has a strictly smaller index -/
theorem countedBefore_lt {p : CParams} {es : List Ent} {e x : Ent} (hx : x ∈ es)
    (hk : x.key = e.key) (hv : e.ver < x.ver) (hc : counted p x = true) :
    countedBefore p es x + 1 ≤ countedBefore p es e := by
  unfold countedBefore
  apply filter_length_succ_le (x := x) _ hx
  · simp [hk, hv, hc]
  · simp
  · intro y _ hy
    simp only [Bool.and_eq_true, decide_eq_true_eq] at hy ⊢
    exact ⟨⟨hy.1.1.trans hk, by omega⟩, hy.2⟩

/-- **C13** — the newest versions are kept: if no strictly newer counted version of `e`'s key is
    dead or discard-earlier, and `e` is not counted or is among the first `numKeep` counted
    versions, then `e` is not below a boundary; it is kept unless it is itself a dead boundary
    with `hasOverlap = false`. In particular the first `min(numKeep, index of the first
    dead/discard-earlier version)` counted versions that are live survive. -/
theorem C13_keep_newest {p : CParams} {es : List Ent} {e : Ent} (hs : SortedEnts es)
    (hp : p.dropPrefixes = []) (he : e ∈ es)
    (hlive : ∀ x ∈ es, x.key = e.key → e.ver < x.ver → counted p x = true →
      deadAt p x = false ∧ hasBit x.emeta bitDiscardEarlier = false)
    (hn : countedBefore p es e < p.numKeep)
    (hself : deadAt p e = false ∨ p.hasOverlap = true ∨ counted p e = false) :
    e ∈ subcompact p es := by
  rw [C13_keep_n hs hp]
  refine ⟨he, ?_, ?_⟩
  · simp only [belowBoundary, List.any_eq_false, Bool.and_eq_true, decide_eq_true_eq, not_and,
      Bool.not_eq_true]
    intro x hx hq
    cases hst : stops p es x with
    | false => rfl
    | true =>
      simp only [stops, Bool.and_eq_true, Bool.or_eq_true, beq_iff_eq] at hst
      obtain ⟨hc, hst⟩ := hst
      have hl := hlive x hx hq.1 hq.2 hc
      have := countedBefore_lt hx hq.1 hq.2 hc
      rcases hst with (hst | hst) | hst
      · rw [hl.1] at hst; cases hst
      · rw [hl.2] at hst; cases hst
      · omega
  · rintro ⟨hb, hd, ho⟩
    rcases hself with h | h | h
    · rw [h] at hd; cases hd
    · rw [h] at ho; cases ho
    · simp only [isBoundary, stops, h, Bool.false_and] at hb; cases hb

/-! ## with `dropPrefixes`: the prefix test happens first and does not touch the loop state -/

/-- the parameters with the prefix list cleared -/
def CParams.noPrefixes (p : CParams) : CParams := { p with dropPrefixes := [] }

theorem filtStep_noPrefixes (p : CParams) (st : FState) (e : Ent)
    (h : hasAnyPrefix e.key p.dropPrefixes = false) :
    filtStep p st e = filtStep p.noPrefixes st e := by
  unfold filtStep
  rw [h]
  rfl

theorem filtRun_dropPrefixes (p : CParams) (st : FState) (es : List Ent) :
    filtRun p st es =
      filtRun p.noPrefixes st (es.filter (fun e => !hasAnyPrefix e.key p.dropPrefixes)) := by
  induction es generalizing st with
  | nil => rfl
  | cons e es ih =>
    cases h : hasAnyPrefix e.key p.dropPrefixes with
    | true =>
      have : filtStep p st e = (st, false) := by simp [filtStep, h]
      rw [filtRun_cons, this, List.filter_cons]
      simp only [h, Bool.not_true, Bool.false_eq_true, if_false]
      exact ih st
    | false =>
      rw [filtRun_cons, List.filter_cons]
      simp only [h, Bool.not_false, if_true]
      rw [filtRun_cons, ← filtStep_noPrefixes p st e h, ih]

/-- a compaction with `dropPrefixes` is the prefix filter (on *encoded* keys, as in the code)
    followed by the plain compaction filter -/
theorem subcompact_dropPrefixes (p : CParams) (es : List Ent) :
    subcompact p es =
      subcompact p.noPrefixes (es.filter (fun e => !hasAnyPrefix e.key p.dropPrefixes)) :=
  filtRun_dropPrefixes p {} es

/-- `C13_keep_n` for arbitrary `dropPrefixes`: the boundaries are those of the stream with the
    prefixed entries removed. -/
theorem C13_keep_n_prefixes {p : CParams} {es : List Ent} (hs : SortedEnts es) (e : Ent) :
    e ∈ subcompact p es ↔
      e ∈ es ∧ hasAnyPrefix e.key p.dropPrefixes = false ∧
        keeps p.noPrefixes (es.filter (fun e => !hasAnyPrefix e.key p.dropPrefixes)) e = true := by
  rw [subcompact_dropPrefixes, subcompact_eq_filter (p := p.noPrefixes) rfl (hs.filter _),
    List.mem_filter, List.mem_filter]
  simp [and_assoc]

/-! ## sanity: a concrete stream exercising every branch -/

section Sanity

private def mk (k : Nat) (v : Nat) (m : Nat) (exp : Nat := 0) : Ent :=
  { key := [UInt8.ofNat k], ver := v, emeta := m, umeta := 0, exp := exp, val := [] }

/-- key 1: 12 (above the watermark), 9 (1st counted), 8 (merge entry, not counted),
           7 (2nd counted = `numKeep`: the live boundary, kept), 5 (below: dropped);
    key 2: 6 (deleted: dead boundary), 4 (below: dropped);
    key 3: 9 (expired at 50 ≤ now: dead boundary), 3 (below);
    key 4: 3 (discard-earlier: live boundary, kept), 2 (below: dropped), -/
private def sample : List Ent :=
  [mk 1 12 0, mk 1 9 0, mk 1 8 bitMerge, mk 1 7 0, mk 1 5 0,
   mk 2 6 bitDelete, mk 2 4 0,
   mk 3 9 0 50, mk 3 3 0,
   mk 4 3 bitDiscardEarlier, mk 4 2 0]

private def prm (ov : Bool) : CParams :=
  { discardTs := 10, numKeep := 2, hasOverlap := ov, now := 100, dropPrefixes := [] }

example : SortedEnts sample := by decide

example : subcompact (prm false) sample =
    [mk 1 12 0, mk 1 9 0, mk 1 8 bitMerge, mk 1 7 0, mk 4 3 bitDiscardEarlier] := by decide

example : subcompact (prm true) sample =
    [mk 1 12 0, mk 1 9 0, mk 1 8 bitMerge, mk 1 7 0, mk 2 6 bitDelete, mk 3 9 0 50,
     mk 4 3 bitDiscardEarlier] := by decide

example : sample.filter (keeps (prm false) sample) = subcompact (prm false) sample := by decide
example : sample.filter (keeps (prm true) sample) = subcompact (prm true) sample := by decide

example : sample.filter (isBoundary (prm false) sample) =
    [mk 1 7 0, mk 2 6 bitDelete, mk 3 9 0 50, mk 4 3 bitDiscardEarlier] := by decide

example : sample.filter (belowBoundary (prm false) sample) =
    [mk 1 5 0, mk 2 4 0, mk 3 3 0, mk 4 2 0] := by decide

example : sample.map (countedBefore (prm false) sample) = [0, 0, 1, 1, 2, 0, 1, 0, 1, 0, 1] := by
  decide

-- `numKeep = 0` never triggers the count rule (the Go code compares `numVersions == 0` after `++`)
example : subcompact { prm false with numKeep := 0 } [mk 1 9 0, mk 1 7 0, mk 1 5 0] =
    [mk 1 9 0, mk 1 7 0, mk 1 5 0] := by decide

-- non-vacuity of the hypotheses of C13_keep_above / C13_merge_not_counted
example : mk 1 12 0 ∈ sample ∧ (prm false).discardTs < (mk 1 12 0).ver := by decide
example : hasBit (mk 1 8 bitMerge).emeta bitMerge = true ∧
    ∀ e' ∈ sample, e'.key = (mk 1 8 bitMerge).key → e'.ver > (mk 1 8 bitMerge).ver →
      stops (prm false) sample e' = false := by decide

-- non-vacuity of C13_keep_newest (entry 1@7: one counted version above it, `numKeep = 2`)
example : (∀ x ∈ sample, x.key = (mk 1 7 0).key → (mk 1 7 0).ver < x.ver →
      counted (prm false) x = true →
      deadAt (prm false) x = false ∧ hasBit x.emeta bitDiscardEarlier = false) ∧
    countedBefore (prm false) sample (mk 1 7 0) < (prm false).numKeep ∧
    deadAt (prm false) (mk 1 7 0) = false := by decide

-- with a prefix: key 1 entirely dropped, the rest as before
example : subcompact { prm false with dropPrefixes := [[1]] } sample =
    [mk 4 3 bitDiscardEarlier] := by decide

end Sanity

end Badger
