import BadgerModel.Batch
import BadgerProofs.Lemmas.Sorted
/-!
# C27 — WriteBatch applies every operation, later operations winning

Buffer core of `BadgerModel/Batch.lean` (`Buf.add` = the tail of `Txn.modify`, `Buf.emit` = the
order of `commitAndSend`: `duplicateWrites` then `pendingWrites`, since badger commit 2dbbdab).

Reads are `newestLE` (the newest version `≤ ts` of a key); the memtable after a write stream `ws`
serves exactly the reads of `ws.reverse ++ mem` (`newestLE_applyWrites`: the last write of a
`(key, version)` wins), so "the database reflects the fold of the issued operations, last one
per (key, version) winning" is `newestLE (applyWrites mem emitted) = newestLE (applyWrites mem issued)`.

* `C27_spec_read`: what the issued operations of one internal transaction mean is
  `pick (pendingWrites entry) (duplicateWrites, latest first)`.
* `C27_last_wins` / `C27_last_wins_all_splits`: **the** theorem — for every operation sequence
  (explicit versions or not), every cut into internal transactions (split oracle) and every
  commit timestamp, normal and managed mode, no side condition.
* Historical (the order before commit 2dbbdab, `Buf.emitOld`: pending first — finding F8):
  `C27_old_order_counterexample`, `C27_old_order_deleteAt_counterexample` (the statement was
  false), `C27_old_order_last_wins_side` (it held exactly under `Buf.NoClash`),
  `C27_noClash_iff_history` (C27Hist.lean: the side condition on the operation history).
* `C27_commit_last_wins` (C27Db.lean): the same for one internal transaction of the `Db` model;
  `C27_normal_latest` (C27Normal.lean): normal mode in user terms (latest read = last operation).
-/
namespace Badger

/-! ## reads of a write stream -/

/-- the memtable after the writes `ws` serves the reads of `ws.reverse ++ mem`: later writes first -/
theorem newestLE_applyWrites (mem ws : List Ent) (k : Bytes) (ts : Nat) :
    newestLE (applyWrites mem ws) k ts = newestLE (ws.reverse ++ mem) k ts := by
  induction ws generalizing mem with
  | nil => rfl
  | cons w ws ih =>
    show newestLE (applyWrites (memPut w mem) ws) k ts = _
    rw [ih, newestLE_append, newestLE_memPut, List.reverse_cons, List.append_assoc, newestLE_append]
    rfl

/-- last-write-wins read of a stream: `lw l = newestLE l.reverse` -/
def lw (l : List Ent) (k : Bytes) (ts : Nat) : Option Ent := newestLE l.reverse k ts

theorem lw_nil (k : Bytes) (ts : Nat) : lw [] k ts = none := rfl

theorem lw_append (a b : List Ent) (k : Bytes) (ts : Nat) :
    lw (a ++ b) k ts = pick (lw b k ts) (lw a k ts) := by
  unfold lw; rw [List.reverse_append, newestLE_append]

theorem lw_singleton (e : Ent) (k : Bytes) (ts : Nat) : lw [e] k ts = cand k ts e := by
  unfold lw; rw [List.reverse_singleton, newestLE_cons, newestLE_nil, pick_none_right]

theorem lw_snoc (l : List Ent) (e : Ent) (k : Bytes) (ts : Nat) :
    lw (l ++ [e]) k ts = pick (cand k ts e) (lw l k ts) := by
  rw [lw_append, lw_singleton]

theorem lw_cons (e : Ent) (l : List Ent) (k : Bytes) (ts : Nat) :
    lw (e :: l) k ts = pick (lw l k ts) (cand k ts e) := by
  have : e :: l = [e] ++ l := rfl
  rw [this, lw_append, lw_singleton]

theorem lw_eq_none {l : List Ent} {k : Bytes} {ts : Nat} (h : ∀ x ∈ l, x.key ≠ k) : lw l k ts = none := by
  unfold lw; rw [newestLE_eq_none_iff]
  intro x hx hc
  exact h x (List.mem_reverse.mp hx) hc.1

theorem lw_some_mem {l : List Ent} {k : Bytes} {ts : Nat} {e : Ent} (h : lw l k ts = some e) :
    e ∈ l ∧ e.key = k ∧ e.ver ≤ ts := by
  obtain ⟨h1, h2⟩ := newestLE_some_mem h
  exact ⟨List.mem_reverse.mp h1, h2⟩

/-- filtering out entries of other keys does not change the read of `k` -/
theorem lw_filter {l : List Ent} {k : Bytes} {ts : Nat} (q : Ent → Bool)
    (h : ∀ x ∈ l, x.key = k → q x = true) : lw (l.filter q) k ts = lw l k ts := by
  induction l with
  | nil => rfl
  | cons x xs ih =>
    have ih' := ih (fun y hy => h y (List.mem_cons_of_mem _ hy))
    rw [List.filter_cons]
    by_cases hq : q x = true
    · rw [if_pos hq, lw_cons, lw_cons, ih']
    · rw [if_neg hq, lw_cons, ih']
      have : x.key ≠ k := fun hk => hq (h x List.mem_cons_self hk)
      rw [cand_neg (fun hc => this hc.1), pick_none_right]

/-- the concatenation of streams: equal reads of the pieces give equal reads of the whole -/
theorem lw_flatten_congr {α : Type} (f g : α → List Ent) (l : List α) (k : Bytes) (ts : Nat)
    (h : ∀ x ∈ l, lw (f x) k ts = lw (g x) k ts) :
    lw (l.map f).flatten k ts = lw (l.map g).flatten k ts := by
  induction l with
  | nil => rfl
  | cons x xs ih =>
    simp only [List.map_cons, List.flatten_cons, lw_append]
    rw [h x List.mem_cons_self, ih (fun y hy => h y (List.mem_cons_of_mem _ hy))]

/-! ## version resolution -/

@[simp] theorem atTs_key (cts : Nat) (e : Ent) : (e.atTs cts).key = e.key := rfl
@[simp] theorem atTs_ver (cts : Nat) (e : Ent) : (e.atTs cts).ver = effVer cts e.ver := rfl

/-! ## the buffer invariant -/

/-- `pendingWrites` is a map: at most one entry per key -/
def Buf.KeysDistinct (b : Buf) : Prop := b.pending.Pairwise (fun x y => x.key ≠ y.key)

theorem Buf.add_keysDistinct {b : Buf} (h : b.KeysDistinct) (e : Ent) : (b.add e).KeysDistinct := by
  unfold Buf.KeysDistinct Buf.add
  simp only
  rw [List.pairwise_append]
  refine ⟨h.sublist List.filter_sublist, List.pairwise_singleton _ _, ?_⟩
  intro x hx y hy
  rw [List.mem_singleton] at hy; subst hy
  have := (List.mem_filter.mp hx).2
  simpa using this

theorem Buf.addAll_keysDistinct {b : Buf} (h : b.KeysDistinct) (es : List Ent) :
    (b.addAll es).KeysDistinct := by
  induction es generalizing b with
  | nil => exact h
  | cons e es ih => exact ih (Buf.add_keysDistinct h e)

theorem Buf.empty_keysDistinct : ({} : Buf).KeysDistinct := List.Pairwise.nil

/-- `g` is a finalisation of the entries of a transaction committing at `cts`: it keeps the key
    and resolves the version as `setVersion` does (it may change meta bits: `bitTxn`,
    `bitValuePointer`). `Ent.atTs cts` and `finEnt d keep cts` (Lemmas/Txn.lean) are instances. -/
structure Resolves (cts : Nat) (g : Ent → Ent) : Prop where
  key : ∀ e, (g e).key = e.key
  ver : ∀ e, (g e).ver = effVer cts e.ver

theorem atTs_resolves (cts : Nat) : Resolves cts (Ent.atTs cts) := ⟨fun _ => rfl, fun _ => rfl⟩

/-- read of the `pendingWrites` map: its entry for `k`, if any -/
theorem lw_pending_eq_find {cts : Nat} {g : Ent → Ent} (hg : Resolves cts g) {l : List Ent}
    (h : l.Pairwise (fun x y => x.key ≠ y.key)) (k : Bytes) (ts : Nat) :
    lw (l.map g) k ts =
      match l.find? (·.key == k) with
      | some o => cand k ts (g o)
      | none => none := by
  induction l with
  | nil => rfl
  | cons x xs ih =>
    rw [List.pairwise_cons] at h
    rw [List.map_cons, lw_cons, List.find?_cons]
    by_cases hk : x.key = k
    · have hb : (x.key == k) = true := by simpa using hk
      rw [hb]
      have : lw (xs.map g) k ts = none := by
        apply lw_eq_none
        intro y hy
        obtain ⟨z, hz, rfl⟩ := List.mem_map.mp hy
        rw [hg.key]
        exact fun hzk => h.1 z hz (hk.trans hzk.symm)
      rw [this, pick_none_left]
    · have hb : (x.key == k) = false := by simpa using hk
      rw [hb, ih h.2, cand_neg (x := g x) (fun hc => hk ((hg.key x).symm.trans hc.1)), pick_none_right]

theorem lw_filter_map (g : Ent → Ent) (hg : ∀ x, (g x).key = x.key) {l : List Ent} {k : Bytes} {ts : Nat}
    (q : Ent → Bool) (h : ∀ x ∈ l, x.key = k → q x = true) :
    lw ((l.filter q).map g) k ts = lw (l.map g) k ts := by
  induction l with
  | nil => rfl
  | cons x xs ih =>
    have ih' := ih (fun y hy => h y (List.mem_cons_of_mem _ hy))
    rw [List.filter_cons]
    by_cases hq : q x = true
    · rw [if_pos hq, List.map_cons, List.map_cons, lw_cons, lw_cons, ih']
    · rw [if_neg hq, List.map_cons, lw_cons, ih']
      have : x.key ≠ k := fun hk => hq (h x List.mem_cons_self hk)
      rw [cand_neg (x := g x) (fun hc => this ((hg x).symm.trans hc.1)), pick_none_right]

/-- one `Txn.modify`: the new operation is read first, then what the buffer meant before -/
theorem Buf.add_read {cts : Nat} {g : Ent → Ent} (hg : Resolves cts g) (b : Buf) (hb : b.KeysDistinct)
    (e : Ent) (k : Bytes) (ts : Nat) :
    pick (lw ((b.add e).pending.map g) k ts) (lw ((b.add e).dups.map g) k ts) =
      pick (cand k ts (g e)) (pick (lw (b.pending.map g) k ts) (lw (b.dups.map g) k ts)) := by
  have hp : (b.add e).pending = b.pending.filter (fun x => x.key != e.key) ++ [e] := rfl
  have hd : (b.add e).dups = (match b.pending.find? (fun x => x.key == e.key) with
      | some o => if o.ver != e.ver then b.dups ++ [o] else b.dups
      | none => b.dups) := rfl
  rw [hp, List.map_append, List.map_cons, List.map_nil, lw_snoc, hd]
  by_cases hk : e.key = k
  · subst hk
    have hfil : lw ((b.pending.filter (fun x => x.key != e.key)).map g) e.key ts = none := by
      apply lw_eq_none
      intro y hy
      obtain ⟨z, hz, rfl⟩ := List.mem_map.mp hy
      have := (List.mem_filter.mp hz).2
      rw [hg.key]; intro hzk; simp [hzk] at this
    rw [hfil, pick_none_right, lw_pending_eq_find hg hb e.key ts]
    cases hold : b.pending.find? (fun x => x.key == e.key) with
    | none => simp only []; rw [pick_none_left]
    | some o =>
      simp only []
      have hok : o.key = e.key := by simpa using List.find?_some hold
      by_cases hv : o.ver = e.ver
      · have hne : (o.ver != e.ver) = false := by simp [hv]
        rw [hne]; simp only [Bool.false_eq_true, if_false]
        have hvv : (g o).ver = (g e).ver := by rw [hg.ver, hg.ver, hv]
        by_cases hc : (g e).ver ≤ ts
        · rw [cand_pos (x := g e) (hg.key e) hc,
            cand_pos (x := g o) ((hg.key o).trans hok) (by rw [hvv]; exact hc),
            ← pick_assoc, pick_absorb (by rw [hvv]; exact Nat.le_refl _)]
        · rw [cand_neg (x := g e) (fun h => hc h.2),
            cand_neg (x := g o) (fun h => hc (by rw [← hvv]; exact h.2))]
          simp
      · have hne : (o.ver != e.ver) = true := by simp [hv]
        rw [hne]; simp only [if_true, List.map_append, List.map_cons, List.map_nil, lw_snoc]
  · rw [cand_neg (x := g e) (fun h => hk ((hg.key e).symm.trans h.1)), pick_none_left, pick_none_left]
    have hfil : lw ((b.pending.filter (fun x => x.key != e.key)).map g) k ts = lw (b.pending.map g) k ts := by
      apply lw_filter_map _ hg.key
      intro x _ hxk
      simp only [bne_iff_ne, ne_eq]
      intro hxe; exact hk (hxe.symm.trans hxk)
    rw [hfil]
    congr 1
    cases hold : b.pending.find? (fun x => x.key == e.key) with
    | none => rfl
    | some o =>
      simp only []
      have hok : o.key = e.key := by simpa using List.find?_some hold
      split
      · rw [List.map_append, List.map_cons, List.map_nil, lw_snoc,
          cand_neg (x := g o) (fun h => hk (hok.symm.trans ((hg.key o).symm.trans h.1))), pick_none_left]
      · rfl

/-- **the meaning of one internal transaction** (no side condition): the issued operations read
    as "the `pendingWrites` entry first, then `duplicateWrites` latest first". -/
theorem C27_spec_read {cts : Nat} {g : Ent → Ent} (hg : Resolves cts g) (b : Buf) (hb : b.KeysDistinct)
    (es : List Ent) (k : Bytes) (ts : Nat) :
    pick (lw ((b.addAll es).pending.map g) k ts) (lw ((b.addAll es).dups.map g) k ts) =
      pick (lw (es.map g) k ts) (pick (lw (b.pending.map g) k ts) (lw (b.dups.map g) k ts)) := by
  induction es generalizing b with
  | nil => simp [Buf.addAll, lw_nil]
  | cons e es ih =>
    show pick (lw (((b.add e).addAll es).pending.map _) k ts) (lw (((b.add e).addAll es).dups.map _) k ts) = _
    rw [ih (b.add e) (Buf.add_keysDistinct hb e), Buf.add_read hg b hb, List.map_cons, lw_cons, pick_assoc]

/-! ## one internal transaction -/

theorem emit_read (g : Ent → Ent) (b : Buf) (k : Bytes) (ts : Nat) :
    lw (b.emit.map g) k ts = pick (lw (b.pending.map g) k ts) (lw (b.dups.map g) k ts) := by
  unfold Buf.emit; rw [List.map_append, lw_append]

theorem emitOld_read (g : Ent → Ent) (b : Buf) (k : Bytes) (ts : Nat) :
    lw (b.emitOld.map g) k ts = pick (lw (b.dups.map g) k ts) (lw (b.pending.map g) k ts) := by
  unfold Buf.emitOld; rw [List.map_append, lw_append]

/-- a buffer filled from empty by the operations `ops` means `ops`, later operations first -/
theorem buf_spec_read {cts : Nat} {g : Ent → Ent} (hg : Resolves cts g) (ops : List Ent) (k : Bytes) (ts : Nat) :
    pick (lw ((Buf.addAll {} ops).pending.map g) k ts) (lw ((Buf.addAll {} ops).dups.map g) k ts) =
      lw (ops.map g) k ts := by
  rw [C27_spec_read hg {} Buf.empty_keysDistinct ops k ts]
  simp [lw_nil]

/-- **one internal transaction** (the order of `commitAndSend`: `duplicateWrites`, then
    `pendingWrites`): what it sends to the write channel reads exactly like the operations it
    received, applied one by one in issue order — no side condition. `g` is any finalisation
    of the entries (`Resolves`: `Ent.atTs`, or `finEnt` of the `Db` model). -/
theorem C27_buf_last_wins {cts : Nat} {g : Ent → Ent} (hg : Resolves cts g) (ops : List Ent) (k : Bytes) (ts : Nat) :
    lw ((Buf.addAll {} ops).emit.map g) k ts = lw (ops.map g) k ts := by
  rw [emit_read, buf_spec_read hg]

/-- the order before commit 2dbbdab (`pendingWrites` first) wrote what was issued only when no
    duplicate collided with the pending entry of its key (historical). -/
theorem C27_old_order_buf {cts : Nat} {g : Ent → Ent} (hg : Resolves cts g) (ops : List Ent)
    (h : (Buf.addAll {} ops).NoClash cts) (k : Bytes) (ts : Nat) :
    lw ((Buf.addAll {} ops).emitOld.map g) k ts = lw (ops.map g) k ts := by
  rw [emitOld_read, ← buf_spec_read hg ops k ts]
  cases hD : lw ((Buf.addAll {} ops).dups.map g) k ts with
  | none => simp
  | some d' =>
    cases hP : lw ((Buf.addAll {} ops).pending.map g) k ts with
    | none => simp
    | some p' =>
      obtain ⟨hdm, hdk, _⟩ := lw_some_mem hD
      obtain ⟨hpm, hpk, _⟩ := lw_some_mem hP
      obtain ⟨d, hd, rfl⟩ := List.mem_map.mp hdm
      obtain ⟨p, hp, rfl⟩ := List.mem_map.mp hpm
      apply pick_comm_of_ver_ne
      rw [hg.ver, hg.ver]
      exact h d hd p hp ((hg.key d).symm.trans (hdk.trans (hpk.symm.trans (hg.key p))))

theorem C27_segment_last_wins (s : Seg) (k : Bytes) (ts : Nat) :
    lw s.emitted k ts = lw s.issued k ts :=
  C27_buf_last_wins (atTs_resolves s.cts) s.ops k ts

theorem C27_old_order_segment (s : Seg) (h : s.NoClash) (k : Bytes) (ts : Nat) :
    lw s.emittedOld k ts = lw s.issued k ts :=
  C27_old_order_buf (atTs_resolves s.cts) s.ops h k ts

/-! ## the whole batch -/

theorem batch_read_congr (f g : Seg → List Ent) (segs : List Seg) (mem : List Ent) (k : Bytes) (ts : Nat)
    (h : ∀ s ∈ segs, lw (f s) k ts = lw (g s) k ts) :
    newestLE (applyWrites mem (segs.map f).flatten) k ts = newestLE (applyWrites mem (segs.map g).flatten) k ts := by
  rw [newestLE_applyWrites, newestLE_applyWrites, newestLE_append, newestLE_append]
  congr 1
  exact lw_flatten_congr f g segs k ts h

/-- **C27**: whatever the cut of the batch into internal transactions (split points, commit
    timestamps), whatever the operations (explicit versions or not, repeated (key, version)
    pairs in any pattern), every read of the memtable after the batch equals the read after
    applying the issued operations one by one in issue order: the last operation on a
    (key, version) wins. -/
theorem C27_last_wins (segs : List Seg) (mem : List Ent) (k : Bytes) (ts : Nat) :
    newestLE (applyWrites mem (batchEmitted segs)) k ts = newestLE (applyWrites mem (batchIssued segs)) k ts :=
  batch_read_congr Seg.emitted Seg.issued segs mem k ts (fun s _ => C27_segment_last_wins s k ts)

/-- the batch against a split oracle (`full i`: the i-th operation found the transaction full) -/
def C27_statement (managed : Bool) : Prop :=
  ∀ (ts0 : Nat) (full : Nat → Bool) (ops mem : List Ent) (k : Bytes) (ts : Nat),
    newestLE (batchRun managed ts0 full ops mem) k ts =
      newestLE (applyWrites mem (batchIssued (assignTs managed ts0 (segments full 0 [] ops)))) k ts

/-- **C27, all operation sequences, all split oracles**, normal mode (`managed = false`: Set,
    SetEntry, Delete and also DeleteAt) and managed mode (`NewWriteBatchAt`,
    `NewManagedWriteBatch`: SetEntryAt, DeleteAt, …): no side condition. -/
theorem C27_last_wins_all_splits (managed : Bool) : C27_statement managed :=
  fun _ _ _ mem k ts => C27_last_wins _ mem k ts

/-- the segmentation loses nothing and keeps the issue order -/
theorem C27_segments_flatten (full : Nat → Bool) (i : Nat) (cur ops : List Ent) :
    (segments full i cur ops).flatten = cur ++ ops := by
  induction ops generalizing i cur with
  | nil => simp [segments]
  | cons e es ih =>
    unfold segments
    split
    · rw [List.flatten_cons, ih]; simp
    · rw [ih]; simp

theorem assignTs_ops (managed : Bool) (ts0 : Nat) (l : List (List Ent)) :
    (assignTs managed ts0 l).map Seg.ops = l := by
  induction l generalizing ts0 with
  | nil => rfl
  | cons x xs ih =>
    unfold assignTs
    split
    · simp [ih]
    · split <;> simp [ih]

theorem segments_mem (full : Nat → Bool) (i : Nat) (cur ops : List Ent) :
    ∀ seg ∈ segments full i cur ops, ∀ e ∈ seg, e ∈ cur ∨ e ∈ ops := by
  induction ops generalizing i cur with
  | nil => intro seg hs e he; simp [segments] at hs; subst hs; exact .inl he
  | cons x xs ih =>
    intro seg hs e he
    unfold segments at hs
    split at hs
    · rcases List.mem_cons.mp hs with rfl | hs
      · exact .inl he
      · rcases ih _ _ seg hs e he with h | h
        · rw [List.mem_singleton] at h; subst h; exact .inr List.mem_cons_self
        · exact .inr (List.mem_cons_of_mem _ h)
    · rcases ih _ _ seg hs e he with h | h
      · rcases List.mem_append.mp h with h | h
        · exact .inl h
        · rw [List.mem_singleton] at h; subst h; exact .inr List.mem_cons_self
      · exact .inr (List.mem_cons_of_mem _ h)

/-- operations without explicit versions stay so in every internal transaction -/
theorem C27_normal_side (ts0 : Nat) (full : Nat → Bool) (ops : List Ent) (h0 : ∀ e ∈ ops, e.ver = 0) :
    ∀ s ∈ assignTs false ts0 (segments full 0 [] ops), ∀ e ∈ s.ops, e.ver = 0 := by
  intro s hs e he
  have hm : s.ops ∈ (assignTs false ts0 (segments full 0 [] ops)).map Seg.ops := List.mem_map_of_mem hs
  rw [assignTs_ops] at hm
  rcases segments_mem full 0 [] ops s.ops hm e he with h | h
  · cases h
  · exact h0 e h

/-! ## the order before commit 2dbbdab (finding F8, historical) -/

theorem C27_old_order_last_wins (segs : List Seg) (h : ∀ s ∈ segs, s.NoClash) (mem : List Ent) (k : Bytes) (ts : Nat) :
    newestLE (applyWrites mem (batchEmittedOld segs)) k ts = newestLE (applyWrites mem (batchIssued segs)) k ts :=
  batch_read_congr Seg.emittedOld Seg.issued segs mem k ts (fun s hs => C27_old_order_segment s (h s hs) k ts)

def C27_oldStatement (managed : Bool) (side : List Seg → Prop) : Prop :=
  ∀ (ts0 : Nat) (full : Nat → Bool) (ops mem : List Ent) (k : Bytes) (ts : Nat),
    side (assignTs managed ts0 (segments full 0 [] ops)) →
    newestLE (batchRunOld managed ts0 full ops mem) k ts =
      newestLE (applyWrites mem (batchIssued (assignTs managed ts0 (segments full 0 [] ops)))) k ts

/-- the old order was right exactly under the side condition `Seg.NoClash`
    (`C27_noClash_iff_history` in C27Hist.lean spells it out on the operation history) -/
theorem C27_old_order_last_wins_side (managed : Bool) :
    C27_oldStatement managed (fun segs => ∀ s ∈ segs, s.NoClash) :=
  fun _ _ _ mem k ts h => C27_old_order_last_wins _ h mem k ts

theorem addAll_no_dups {b : Buf} {es : List Ent} (hb : ∀ p ∈ b.pending, p.ver = 0) (hd : b.dups = [])
    (he : ∀ e ∈ es, e.ver = 0) : (b.addAll es).dups = [] := by
  induction es generalizing b with
  | nil => exact hd
  | cons e es ih =>
    have hev : e.ver = 0 := he e List.mem_cons_self
    apply ih (b := b.add e)
    · intro p hp
      unfold Buf.add at hp
      simp only [List.mem_append, List.mem_singleton] at hp
      rcases hp with hp | rfl
      · exact hb p (List.mem_filter.mp hp).1
      · exact hev
    · unfold Buf.add
      simp only
      cases hold : b.pending.find? (·.key == e.key) with
      | none => exact hd
      | some o =>
        have : o.ver = 0 := hb o (List.mem_of_find?_eq_some hold)
        simp [this, hev, hd]
    · exact fun x hx => he x (List.mem_cons_of_mem _ hx)

/-- without explicit versions `duplicateWrites` stays empty: the old order was right there too -/
theorem C27_old_order_last_wins_normal :
    C27_oldStatement false (fun segs => ∀ s ∈ segs, ∀ e ∈ s.ops, e.ver = 0) := by
  intro ts0 full ops mem k ts h
  apply C27_old_order_last_wins
  intro s hs
  unfold Seg.NoClash Buf.NoClash
  rw [addAll_no_dups (b := {}) (by simp) rfl (h s hs)]
  simp

def f8Key : Bytes := [0x6b]
/-- `SetEntryAt(k,"v1",5); SetEntryAt(k,"v2",7); SetEntryAt(k,"v3",5)` -/
def f8Ops : List Ent :=
  [ { key := f8Key, ver := 5, emeta := 0, umeta := 0, exp := 0, val := [0x76, 0x31] },
    { key := f8Key, ver := 7, emeta := 0, umeta := 0, exp := 0, val := [0x76, 0x32] },
    { key := f8Key, ver := 5, emeta := 0, umeta := 0, exp := 0, val := [0x76, 0x33] } ]

/-- today the read at version 5 returns the last write ("v3") … -/
example : (newestLE (batchRun true 0 (fun _ => false) f8Ops []) f8Key 5).map (·.val) = some [0x76, 0x33] := by decide
/-- … with the old order it returned the FIRST write ("v1") -/
example : (newestLE (batchRunOld true 0 (fun _ => false) f8Ops []) f8Key 5).map (·.val) = some [0x76, 0x31] := by decide
example : (newestLE (applyWrites [] (batchIssued (assignTs true 0 (segments (fun _ => false) 0 [] f8Ops)))) f8Key 5).map (·.val)
    = some [0x76, 0x33] := by decide

/-- finding F8 (fixed by commit 2dbbdab): with `pendingWrites` emitted first the statement is
    false without the side condition. -/
theorem C27_old_order_counterexample : ¬ C27_oldStatement true (fun _ => True) := by
  intro h
  have := h 0 (fun _ => false) f8Ops [] f8Key 5 trivial
  revert this
  decide

/-- the same mechanism in a normal batch, through `DeleteAt` (which has no mode check):
    `Set(k,"v1"); DeleteAt(k,9); Set(k,"v3")` — with the old order the commit version of `k` read "v1". -/
def f8NormalOps : List Ent :=
  [ { key := f8Key, ver := 0, emeta := 0, umeta := 0, exp := 0, val := [0x76, 0x31] },
    delEnt f8Key 9,
    { key := f8Key, ver := 0, emeta := 0, umeta := 0, exp := 0, val := [0x76, 0x33] } ]

theorem C27_old_order_deleteAt_counterexample : ¬ C27_oldStatement false (fun _ => True) := by
  intro h
  have := h 1 (fun _ => false) f8NormalOps [] f8Key 1 trivial
  revert this
  decide

example : (newestLE (batchRun false 1 (fun _ => false) f8NormalOps []) f8Key 1).map (·.val) = some [0x76, 0x33] := by decide

-- non-vacuity of the old side condition: A-B-A-C (the repeated version is not the key's last
-- one) cut into two internal transactions satisfies it, A-B-A does not
example : ∀ s ∈ assignTs true 4 (segments (fun i => i == 2) 0 []
    (f8Ops ++ [{ key := f8Key, ver := 9, emeta := 0, umeta := 0, exp := 0, val := [] }])), s.NoClash := by decide
example : ¬ (∀ s ∈ assignTs true 0 (segments (fun _ => false) 0 [] f8Ops), s.NoClash) := by decide

end Badger
