import BadgerModel.MergeOp
import BadgerProofs.Lemmas.Bytes
/-!
# C31 — a merge operator returns the fold of all added values

Abstract machine `MState` of `BadgerModel/MergeOp.lean`: the version list of the operator's key
(what `NewKeyIterator(AllVersions)` yields, newest first) under `Add`, the operator's own
`compact` (write-back of the merged value at the newest operand's version with the
discard-earlier bit, without the merge bit), LSM compactions (which may drop any versions *below*
the first discard-earlier entry, and nothing else — see `C31_subcompact_keeps_live` for the tie
to `subcompact`) and reopen. `iterMerge` is the very function the driver runs against
`MergeOperator.Get` of the real code.
-/
namespace Badger

def Assoc (f : MergeFn) : Prop := ∀ a b c, f (f a b) c = f a (f b c)

def MStep.addArg? : MStep → Option Bytes
  | .add v => some v
  | _ => none

/-! ## the value of a version list (specification of `iterMerge` on lists without dead items) -/

/-- the value the live prefix of a version list (newest first) stands for: the operands of the
    live prefix folded oldest-to-newest (left-nested). -/
def liveVal (f : MergeFn) : List MItem → Option Bytes
  | [] => none
  | it :: rest =>
    if it.discard then some it.val else
    match liveVal f rest with
    | none => some it.val
    | some g => some (f g it.val)

def NoDead (items : List MItem) : Prop := ∀ it ∈ items, it.dead = false

theorem noDead_cons {it : MItem} {rest : List MItem} :
    NoDead (it :: rest) ↔ it.dead = false ∧ NoDead rest := by
  simp [NoDead]

theorem iterLoop_num_le (f : MergeFn) (a : MAcc) (items : List MItem) :
    a.num ≤ (iterLoop f a items).num := by
  induction items generalizing a with
  | nil => simp [iterLoop]
  | cons it rest ih =>
    simp only [iterLoop]
    split
    · exact Nat.le_refl _
    · split
      · split <;> simp_all <;> omega
      · refine Nat.le_trans ?_ (ih _)
        split <;> simp_all <;> omega

/-- generalised accumulator lemma: folding the (older) items of a list into an accumulator that
    already holds the newer value `x` yields `f (value of the list) x` — by associativity. -/
theorem iterLoop_succ (f : MergeFn) (hf : Assoc f) (items : List MItem) (hnd : NoDead items)
    (n : Nat) (x : Bytes) (l : Nat) :
    (iterLoop f { num := n + 1, newVal := x, latest := l } items).newVal =
      match liveVal f items with
      | none => x
      | some g => f g x := by
  induction items generalizing n x with
  | nil => simp [iterLoop, liveVal]
  | cons it rest ih =>
    rw [noDead_cons] at hnd
    simp only [iterLoop, liveVal, hnd.1]
    by_cases hd : it.discard = true
    · simp [hd]
    · simp only [hd]
      simp only [Nat.succ_ne_zero, beq_iff_eq, Bool.false_eq_true, if_false]
      rw [ih hnd.2]
      cases liveVal f rest with
      | none => rfl
      | some g => simp only []; rw [hf]

theorem iterMerge_get_eq (f : MergeFn) (items : List MItem) :
    (iterMerge f items).get =
      if (iterLoop f {} items).num = 0 then none else some (iterLoop f {} items).newVal := by
  simp only [iterMerge]
  split
  · simp_all [MergeRes.get]
  · split <;> simp_all [MergeRes.get]

/-- `MergeOperator.Get` on a version list without dead items is `liveVal` -/
theorem iterMerge_get (f : MergeFn) (hf : Assoc f) (items : List MItem) (hnd : NoDead items) :
    (iterMerge f items).get = liveVal f items := by
  rw [iterMerge_get_eq]
  cases items with
  | nil => simp [iterLoop, liveVal]
  | cons it rest =>
    rw [noDead_cons] at hnd
    simp only [iterLoop, liveVal, hnd.1]
    by_cases hd : it.discard = true
    · simp [hd]
    · simp only [hd]
      simp only [beq_self_eq_true, Bool.false_eq_true, if_false, if_true]
      have hle := iterLoop_num_le f { num := 1, newVal := it.val, latest := it.ver } rest
      have hne : (iterLoop f { num := 1, newVal := it.val, latest := it.ver } rest).num ≠ 0 := by
        simp at hle; omega
      rw [if_neg hne, iterLoop_succ f hf rest hnd.2 0 it.val it.ver]
      cases liveVal f rest <;> rfl

/-! ## the steps of the abstract machine -/

theorem mem_livePrefix {x : MItem} {items : List MItem} (h : x ∈ livePrefix items) : x ∈ items := by
  induction items with
  | nil => simp [livePrefix] at h
  | cons it rest ih =>
    simp only [livePrefix] at h
    split at h
    · simp_all
    · simp only [List.mem_cons] at h ⊢
      rcases h with h | h
      · exact .inl h
      · exact .inr (ih h)

theorem dropByMask_nil (keep : List Bool) : dropByMask keep [] = [] := by cases keep <;> rfl

theorem mem_dropByMask {x : MItem} {keep : List Bool} {l : List MItem} (h : x ∈ dropByMask keep l) :
    x ∈ l := by
  induction l generalizing keep with
  | nil => simp [dropByMask_nil] at h
  | cons y ys ih =>
    cases keep with
    | nil => simpa [dropByMask] using h
    | cons b bs =>
      simp only [dropByMask] at h
      split at h
      · simp only [List.mem_cons] at h ⊢
        rcases h with h | h
        · exact .inl h
        · exact .inr (ih h)
      · exact List.mem_cons_of_mem _ (ih h)

/-- an LSM compaction step (any mask) does not change the value: it only touches items below the
    live prefix, and if the live prefix is the whole list there is nothing left to drop -/
theorem liveVal_lsm (f : MergeFn) (keep : List Bool) (items : List MItem) :
    liveVal f (livePrefix items ++ dropByMask keep (items.drop (livePrefix items).length)) =
      liveVal f items := by
  induction items with
  | nil => simp [livePrefix, dropByMask_nil, liveVal]
  | cons it rest ih =>
    simp only [livePrefix]
    by_cases hd : it.discard = true
    · simp [hd, liveVal]
    · simp [hd, liveVal, ih]

theorem foldAdds_snoc (f : MergeFn) (adds : List Bytes) (v : Bytes) :
    foldAdds f (adds ++ [v]) =
      match foldAdds f adds with
      | none => some v
      | some g => some (f g v) := by
  cases adds with
  | nil => rfl
  | cons a as => simp [foldAdds, List.foldl_append]

/-- the invariant of the abstract machine -/
structure MInv (f : MergeFn) (s : MState) : Prop where
  nodead : NoDead s.items
  val : liveVal f s.items = foldAdds f s.adds

theorem mInv_init (f : MergeFn) : MInv f {} := ⟨by simp [NoDead], rfl⟩

theorem mInv_step (f : MergeFn) (hf : Assoc f) (s : MState) (h : MInv f s) (st : MStep) :
    MInv f (s.step f st) := by
  cases st with
  | add v =>
    constructor
    · simp only [MState.step]; rw [noDead_cons]; exact ⟨rfl, h.nodead⟩
    · simp only [MState.step, liveVal, foldAdds_snoc, ← h.val]
      simp
  | compact =>
    simp only [MState.step]
    split
    · next v latest x rest hm hi =>
      have hnd := h.nodead
      rw [hi, noDead_cons] at hnd
      constructor
      · show NoDead (_ :: rest)
        rw [noDead_cons]; exact ⟨rfl, hnd.2⟩
      · show liveVal f (_ :: rest) = _
        have hg := iterMerge_get f hf s.items h.nodead
        rw [hm, h.val] at hg
        simp [liveVal, ← hg, MergeRes.get]
    · exact h
  | lsm keep =>
    constructor
    · intro x hx
      simp only [MState.step, List.mem_append] at hx
      rcases hx with hx | hx
      · exact h.nodead x (mem_livePrefix hx)
      · exact h.nodead x (List.mem_of_mem_drop (mem_dropByMask hx))
    · simp only [MState.step]
      rw [liveVal_lsm]; exact h.val
  | reopen => exact h

theorem mInv_run (f : MergeFn) (hf : Assoc f) (steps : List MStep) (s : MState) (h : MInv f s) :
    MInv f (MState.run f s steps) := by
  induction steps generalizing s with
  | nil => exact h
  | cons st rest ih => exact ih _ (mInv_step f hf s h st)

/-- Get = f folded over all Adds in Add order, for every interleaving of Add / operator compaction /
    LSM compaction (with *any* mask) / reopen -/
theorem C31_fold (f : MergeFn) (hf : Assoc f) (steps : List MStep) :
    (MState.run f {} steps).get f = foldAdds f (MState.run f {} steps).adds := by
  have h := mInv_run f hf steps {} (mInv_init f)
  rw [MState.get, iterMerge_get f hf _ h.nodead, h.val]

theorem run_adds (f : MergeFn) (steps : List MStep) (s : MState) :
    (MState.run f s steps).adds = s.adds ++ steps.filterMap MStep.addArg? := by
  induction steps generalizing s with
  | nil => simp [MState.run]
  | cons st rest ih =>
    have ih' := ih (s.step f st)
    simp only [MState.run, List.foldl_cons] at ih' ⊢
    rw [ih']
    cases st with
    | add v => simp [MState.step, MStep.addArg?]
    | compact =>
      simp only [MState.step, MStep.addArg?, List.filterMap_cons]
      split <;> rfl
    | lsm keep => rfl
    | reopen => rfl

/-- the recorded history is exactly the Add arguments, in order -/
theorem C31_adds_history (f : MergeFn) (steps : List MStep) :
    (MState.run f {} steps).adds = steps.filterMap MStep.addArg? := by
  rw [run_adds]; rfl

theorem run_items_nil (f : MergeFn) (steps : List MStep) (s : MState) (hs : s.items = [])
    (h : ∀ st ∈ steps, st.addArg? = none) : (MState.run f s steps).items = [] := by
  induction steps generalizing s with
  | nil => exact hs
  | cons st rest ih =>
    simp only [MState.run, List.foldl_cons]
    apply ih
    · have h1 := h st (List.mem_cons_self ..)
      cases st with
      | add v => simp [MStep.addArg?] at h1
      | compact =>
        simp only [MState.step]
        split
        · next hi => rw [hs] at hi; cases hi
        · exact hs
      | lsm keep => simp [MState.step, hs, livePrefix, dropByMask_nil]
      | reopen => exact hs
    · intro st' hst'; exact h st' (List.mem_cons_of_mem _ hst')

/-- ErrKeyNotFound before the first Add (no assumption on `f`) -/
theorem C31_notfound_before_first_add (f : MergeFn) (steps : List MStep)
    (h : ∀ st ∈ steps, st.addArg? = none) : (MState.run f {} steps).get f = none := by
  rw [MState.get, run_items_nil f steps {} rfl h]
  rfl

/-! ## the merge functions of the harness are associative -/

theorem C31_catF_assoc : Assoc catF := by
  intro a b c; simp [catF]

/-- `((a+b) % M + c) % M = (a + (b+c) % M) % M` with `beNat (beBytes x 8) = x` for `x < 2^64` -/
theorem C31_addF_assoc : Assoc addF := by
  intro a b c
  have hM : (2 : Nat) ^ 64 = 256 ^ 8 := by decide
  have hlt : ∀ x : Nat, x % 2 ^ 64 < 256 ^ 8 := fun x => by
    rw [← hM]; exact Nat.mod_lt _ (by decide)
  simp only [addF]
  rw [beNat_beBytes _ 8 (hlt _), beNat_beBytes _ 8 (hlt _)]
  congr 1
  omega

/-! ## non-vacuity: concrete runs -/

/-- adds, an operator compaction, an LSM compaction whose mask really drops the version below the
    discard-earlier write-back, more adds, reopen, a second operator compaction -/
example : (MState.run catF {} [.add [1], .add [2], .compact, .add [3], .lsm [false, false],
      .add [4], .reopen, .compact]).get catF = some [1, 2, 3, 4] := by decide

/-- the `.lsm` step above really dropped something: 3 items before, 2 after -/
example : ((MState.run catF {} [.add [1], .add [2], .compact, .add [3]]).items.length,
    (MState.run catF {} [.add [1], .add [2], .compact, .add [3], .lsm [false, false]]).items.length)
    = (3, 2) := by decide

example : (MState.run catF {} [.add [1], .add [2], .compact, .add [3], .lsm [false, false],
      .add [4], .reopen, .compact]).adds = [[1], [2], [3], [4]] := by decide

/-- `C31_notfound_before_first_add`: its hypothesis is satisfiable by a non-trivial step list -/
example : (∀ st ∈ [MStep.compact, .lsm [false], .reopen], st.addArg? = none) ∧
    (MState.run catF {} [.compact, .lsm [false], .reopen]).get catF = none := by decide

/-- uint64 addition wraps: (2^64 - 1) + 2 = 1 -/
example : (MState.run addF {} [.add [255, 255, 255, 255, 255, 255, 255, 255], .compact,
      .add [0, 0, 0, 0, 0, 0, 0, 2], .compact, .lsm [false]]).get addF
    = some [0, 0, 0, 0, 0, 0, 0, 1] := by decide

/-- associativity matters: with a non-associative `f` the fold property fails (so `hf` is needed) -/
example : ∃ f : MergeFn, ∃ steps, (MState.run f {} steps).get f ≠ foldAdds f (MState.run f {} steps).adds :=
  ⟨fun a b => a ++ b ++ a, [.add [1], .add [2], .add [3]], by decide⟩

/-! ## tie to the compaction filter `subcompact` of `Lsm.lean` -/

/-- the operator's view of key k in a merged stream of entries: its versions in stream order -/
def keyView (now : Nat) (k : Bytes) (es : List Ent) : List MItem :=
  (es.filter (·.key == k)).map (mItemOf now)

/-- the prefix of a list of entries up to and including the first discard-earlier entry -/
def entPrefix : List Ent → List Ent
  | [] => []
  | e :: rest => if hasBit e.emeta bitDiscardEarlier then [e] else e :: entPrefix rest

/-- the live *entries* of key `k` in a stream: the versions of `k` up to and including the first one
    with the discard-earlier bit (`livePrefix (keyView now k es)` is their image under `mItemOf`,
    see `livePrefix_keyView`) -/
def liveEnts (k : Bytes) (es : List Ent) : List Ent := entPrefix (es.filter (·.key == k))

theorem livePrefix_map (now : Nat) (l : List Ent) :
    livePrefix (l.map (mItemOf now)) = (entPrefix l).map (mItemOf now) := by
  induction l with
  | nil => rfl
  | cons e rest ih =>
    simp only [List.map_cons, livePrefix, entPrefix]
    by_cases hd : hasBit e.emeta bitDiscardEarlier = true
    · simp [mItemOf, hd]
    · simp [mItemOf, hd, ih]

theorem livePrefix_keyView (now : Nat) (k : Bytes) (es : List Ent) :
    livePrefix (keyView now k es) = (liveEnts k es).map (mItemOf now) :=
  livePrefix_map now _

theorem mem_entPrefix {x : Ent} {l : List Ent} (h : x ∈ entPrefix l) : x ∈ l := by
  induction l with
  | nil => simp [entPrefix] at h
  | cons e rest ih =>
    simp only [entPrefix] at h
    split at h
    · simp_all
    · simp only [List.mem_cons] at h ⊢
      rcases h with h | h
      · exact .inl h
      · exact .inr (ih h)

theorem filtRun_cons_c31 (p : CParams) (st : FState) (e : Ent) (es : List Ent) :
    filtRun p st (e :: es) =
      if (filtStep p st e).2 then e :: filtRun p (filtStep p st e).1 es
      else filtRun p (filtStep p st e).1 es := rfl

/-- an entry of another key never makes the filter skip key `k` -/
theorem filtStep_other (p : CParams) (st : FState) (e : Ent) (k : Bytes) (hk : e.key ≠ k)
    (hs : st.skipKey ≠ some k) : (filtStep p st e).1.skipKey ≠ some k := by
  simp only [filtStep]
  repeat' split
  all_goals simp_all

/-- a live-prefix entry (not deleted/expired, merge bit or discard-earlier bit) is kept, and unless it
    is the discard-earlier entry the filter does not start skipping its key -/
theorem filtStep_live (p : CParams) (hp : p.dropPrefixes = []) (st : FState) (e : Ent)
    (hs : st.skipKey ≠ some e.key) (hexp : deletedOrExpired e.emeta e.exp p.now = false)
    (hbit : hasBit e.emeta bitMerge = true ∨ hasBit e.emeta bitDiscardEarlier = true) :
    (filtStep p st e).2 = true ∧
      (hasBit e.emeta bitDiscardEarlier = true ∨ (filtStep p st e).1.skipKey ≠ some e.key) := by
  simp only [filtStep, hp, hasAnyPrefix, List.any_nil, hexp]
  repeat' split
  all_goals simp_all

theorem filtRun_liveEnts (p : CParams) (hp : p.dropPrefixes = []) (k : Bytes) (es : List Ent)
    (st : FState) (hs : st.skipKey ≠ some k)
    (hlive : ∀ e ∈ liveEnts k es, deletedOrExpired e.emeta e.exp p.now = false ∧
       (hasBit e.emeta bitMerge = true ∨ hasBit e.emeta bitDiscardEarlier = true)) :
    liveEnts k (filtRun p st es) = liveEnts k es := by
  induction es generalizing st with
  | nil => rfl
  | cons e rest ih =>
    rw [filtRun_cons_c31]
    by_cases hk : e.key = k
    · subst hk
      have hmem : e ∈ liveEnts e.key (e :: rest) := by
        simp only [liveEnts, List.filter_cons, beq_self_eq_true, if_true, entPrefix]
        split <;> simp
      obtain ⟨hexp, hbit⟩ := hlive e hmem
      obtain ⟨hkeep, hor⟩ := filtStep_live p hp st e hs hexp hbit
      rw [hkeep]
      simp only [if_true, liveEnts, List.filter_cons, beq_self_eq_true, entPrefix]
      by_cases hd : hasBit e.emeta bitDiscardEarlier = true
      · simp [hd]
      · simp only [hd, Bool.false_eq_true, if_false, List.cons.injEq, true_and]
        have hs' := hor.resolve_left hd
        apply ih _ hs'
        intro e' he'
        apply hlive
        simp only [liveEnts, List.filter_cons, beq_self_eq_true, if_true, entPrefix, hd,
          Bool.false_eq_true, if_false]
        exact List.mem_cons_of_mem _ he'
    · have hs' := filtStep_other p st e k hk hs
      have hfilt : ∀ l, liveEnts k (e :: l) = liveEnts k l := by
        intro l; simp [liveEnts, hk]
      rw [hfilt] at hlive ⊢
      have := ih _ hs' hlive
      split
      · rw [hfilt]; exact this
      · exact this

/-- `subcompact` never touches the live prefix of a merge key — *entries* version (stronger
    conclusion than `C31_subcompact_keeps_live`, cleaner hypothesis): provided no drop prefixes are in
    force and no live entry of `k` is deleted/expired and every live entry carries the merge bit or the
    discard-earlier bit, the live entries of `k` after compaction are exactly those before. -/
theorem C31_subcompact_keeps_liveEnts (p : CParams) (hp : p.dropPrefixes = []) (k : Bytes)
    (es : List Ent)
    (hlive : ∀ e ∈ liveEnts k es, deletedOrExpired e.emeta e.exp p.now = false ∧
       (hasBit e.emeta bitMerge = true ∨ hasBit e.emeta bitDiscardEarlier = true)) :
    liveEnts k (subcompact p es) = liveEnts k es :=
  filtRun_liveEnts p hp k es {} (by simp) hlive

/-- `subcompact` never touches the live prefix of a merge key: provided no drop prefixes are in force
    and the live prefix holds no deleted/expired entry and every entry of it other than a
    discard-earlier entry carries the merge bit (which is what Add / the operator's write-back
    produce), the key's live prefix after compaction equals the one before.
    (Exactly the requested statement; derived from `C31_subcompact_keeps_liveEnts`, whose hypothesis
    `∀ e ∈ liveEnts k es, …` is implied by the one here.) -/
theorem C31_subcompact_keeps_live (p : CParams) (hp : p.dropPrefixes = []) (k : Bytes) (es : List Ent)
    (hlive : ∀ e ∈ es, e.key = k → (mItemOf p.now e) ∈ livePrefix (keyView p.now k es) →
       deletedOrExpired e.emeta e.exp p.now = false ∧
         (hasBit e.emeta bitMerge = true ∨ hasBit e.emeta bitDiscardEarlier = true)) :
    livePrefix (keyView p.now k (subcompact p es)) = livePrefix (keyView p.now k es) := by
  rw [livePrefix_keyView, livePrefix_keyView, C31_subcompact_keeps_liveEnts p hp k es]
  intro e he
  have hmem := mem_entPrefix he
  rw [List.mem_filter] at hmem
  refine hlive e hmem.1 (by simpa using hmem.2) ?_
  rw [livePrefix_keyView]
  exact List.mem_map_of_mem he

/-! ### non-vacuity for the `subcompact` tie -/

/-- key `[1]`: two merge operands (v6, v5) above the operator's write-back (v4, discard-earlier bit),
    two stale operands below it (v3, v2) — plus a neighbour key. -/
def c31exEs : List Ent :=
  [ { key := [1], ver := 6, emeta := bitMerge, umeta := 0, exp := 0, val := [6] },
    { key := [1], ver := 5, emeta := bitMerge, umeta := 0, exp := 0, val := [5] },
    { key := [1], ver := 4, emeta := bitDiscardEarlier, umeta := 0, exp := 0, val := [1, 2, 3, 4] },
    { key := [1], ver := 3, emeta := bitMerge, umeta := 0, exp := 0, val := [3] },
    { key := [1], ver := 2, emeta := bitMerge, umeta := 0, exp := 0, val := [2] },
    { key := [2], ver := 1, emeta := 0, umeta := 0, exp := 0, val := [9] } ]

def c31exP : CParams := { discardTs := 10, numKeep := 1, hasOverlap := false, now := 0, dropPrefixes := [] }

/-- the hypotheses of both theorems hold for this stream, the compaction really drops the two
    versions below the write-back, and the live entries are the top three -/
example :
    (∀ e ∈ liveEnts [1] c31exEs, deletedOrExpired e.emeta e.exp c31exP.now = false ∧
       (hasBit e.emeta bitMerge = true ∨ hasBit e.emeta bitDiscardEarlier = true)) ∧
    (∀ e ∈ c31exEs, e.key = [1] → (mItemOf c31exP.now e) ∈ livePrefix (keyView c31exP.now [1] c31exEs) →
       deletedOrExpired e.emeta e.exp c31exP.now = false ∧
         (hasBit e.emeta bitMerge = true ∨ hasBit e.emeta bitDiscardEarlier = true)) ∧
    (subcompact c31exP c31exEs).map (fun e => (e.key, e.ver)) = [([1], 6), ([1], 5), ([1], 4), ([2], 1)] ∧
    (liveEnts [1] c31exEs).map (·.ver) = [6, 5, 4] ∧
    (keyView c31exP.now [1] (subcompact c31exP c31exEs)).length = 3 ∧
    (keyView c31exP.now [1] c31exEs).length = 5 := by decide

/-- the merge-bit hypothesis is needed: a live-prefix version *without* merge bit and without
    discard-earlier bit is the `numKeep`-th version for the filter, which then skips the rest of the
    live prefix. -/
example :
    let es : List Ent :=
      [ { key := [1], ver := 6, emeta := 0, umeta := 0, exp := 0, val := [6] },
        { key := [1], ver := 5, emeta := bitMerge, umeta := 0, exp := 0, val := [5] } ]
    liveEnts [1] (subcompact c31exP es) ≠ liveEnts [1] es := by decide

end Badger
