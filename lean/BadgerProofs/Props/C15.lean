import BadgerModel.Vlog
import BadgerProofs.Props.C12
import BadgerProofs.Props.C12Filter
/-!
# C15 — value-log GC never changes, loses or resurrects data

Model: `BadgerModel/Vlog.lean` (`gcScan`/`scanDecide` = the scan of `valueLog.rewrite` with
`discardEntry`; `GcDb.gcEnd` = write-back through the normal write path + deletion now/deferred;
`GcDb.discardTs` = the `gcActive/gcDiscardTs` clamp of `subcompact`).

What is proved (all for arbitrary states / lists; the tie to the code is engine `gc`):

* `C15_writeback_read_eq` — the exact effect of re-putting an entry `e'` on every read;
  `C15_writeback_reads` — re-putting the entry the scan found (same `(key, ver)`, same logical
  content) changes no read; `C15_writeback_shadowed` — nor does re-putting below a surviving newer
  version.
* `C15_scan_sound` — every record of the file that a visible read can reach through a pointer is in
  the scan's move list (so what the scan discards is unreachable).
* `C15_delete_safe` — after the write-back of every scanned record no visible read reaches a
  pointer into the file; `C15_unlink_resolve` — unlinking a file nobody points into changes no
  resolution.
* `C15_no_resurrect` — WITH the clamp (`discardTs ≤ gcTs`) a compaction running between scan and
  write-back keeps, for every read at `ts ≥ discardTs`, a version `≥ v` of a scanned key `k@v`,
  PROVIDED no version of `k` in `[v, gcTs]` is dead (deleted/expired) — which is exactly "every
  delete of the key is committed after the rewrite started, with a larger timestamp".
* `C15_iter_items_readable*` — while an iterator is open no value-log step unlinks a file, so every
  item that resolved keeps resolving.

What is FALSE on the code as it is (negation witnesses, each replayed on the real code):

* `C15_resurrect_without_clamp` — #2286: without the clamp a delete + compaction between scan and
  write-back brings the key back; `C15_clamp_protects_witness`: with the clamp the same history is safe.
* `C15_resurrect_counterexample` (finding F21a) — WITH the clamp: the delete was committed BEFORE the
  rewrite started (tombstone version ≤ gcTs); the compaction between scan and write-back drops
  tombstone and old version; the write-back resurrects the key.
* `C15_resurrect_after_gc_counterexample` (finding F21b) — no race: the write-back lands ABOVE an
  older-level tombstone; a later compaction of that level alone (`hasOverlap` looks only below) drops
  the tombstone. `C15_writeback_breaks_layering`: the write-back violates `LayeredX`, the hypothesis
  every C12 read-preservation theorem needs.
* `C15_get_item_stale_counterexample` (finding F3) — an `Item` from `Txn.Get` is not an iterator: the
  file is unlinked at once and the item's value reads as empty (with a nil error in the Go code).
-/
namespace Badger

/-! ## pointers -/

theorem decodePtr_encodePtr_fst (fid idx : Nat) (h : fid < 2 ^ 32) : (decodePtr (encodePtr fid idx)).1 = fid := by
  show beNat ((beBytes fid 4 ++ beBytes idx 4).take 4) = fid
  rw [List.take_left' (beBytes_length fid 4)]
  exact beNat_beBytes fid 4 (by omega)

theorem decodePtr_encodePtr_snd (fid idx : Nat) (hi : idx < 2 ^ 32) : (decodePtr (encodePtr fid idx)).2 = idx := by
  show beNat ((beBytes fid 4 ++ beBytes idx 4).drop 4) = idx
  rw [List.drop_left' (beBytes_length fid 4)]
  exact beNat_beBytes idx 4 (by omega)

theorem decodePtr_encodePtr (fid idx : Nat) (h : fid < 2 ^ 32) (hi : idx < 2 ^ 32) :
    decodePtr (encodePtr fid idx) = (fid, idx) :=
  Prod.ext (decodePtr_encodePtr_fst fid idx h) (decodePtr_encodePtr_snd fid idx hi)

example : decodePtr (encodePtr 3 7) = (3, 7) := by decide

/-! ## reads under a re-put (`memPut` of an entry whose `(key, ver)` may already exist) -/

/-- the entry served for `(k, ts)` is also the entry served for its own internal key -/
theorem newestLE_at_ver {es : List Ent} {k : Bytes} {ts : Nat} {e : Ent} (h : newestLE es k ts = some e) :
    newestLE es k e.ver = some e := by
  induction es generalizing e with
  | nil => simp at h
  | cons x xs ih =>
    rw [LL.newestLE_cons] at h ⊢
    rcases LL.pick_some h with ⟨h1, h2⟩ | ⟨h1, h2⟩
    · obtain ⟨rfl, hk, hv⟩ := LL.cand_some h1
      have hc : LL.cand k e.ver e = some e := by simp [LL.cand, hk]
      rw [hc]
      cases hr : newestLE xs k e.ver with
      | none => rfl
      | some q =>
        have := (LL.newestLE_some hr).2.2.1
        simp only [LL.pick]; rw [if_neg (by omega)]
    · rw [ih h1]
      obtain ⟨_, hk, hv, _⟩ := LL.newestLE_some h1
      unfold LL.cand
      by_cases hx : x.key = k ∧ x.ver ≤ e.ver
      · rw [if_pos hx]
        have hc : LL.cand k ts x = some x := by
          unfold LL.cand; rw [if_pos ⟨hx.1, by omega⟩]
        have := h2 x hc
        simp only [LL.pick]; rw [if_pos this]
      · rw [if_neg hx]; rfl

/-- **C15 (write-back, exact effect)** — after `memPut e'` a read of `(k, ts)` returns `e'` exactly
    when `e'` is a candidate (`e'.key = k`, `e'.ver ≤ ts`) and what the read returned before has a
    version `≤ e'.ver` (or nothing was returned); otherwise the read is untouched. -/
theorem C15_writeback_read_eq {s : Lsm} (h : LsmInv s) {e' : Ent} (hpos : 0 < e'.ver) (k : Bytes) (ts : Nat) :
    (s.putEnt e').get k ts =
      if e'.key = k ∧ e'.ver ≤ ts ∧ (∀ x, s.get k ts = some x → x.ver ≤ e'.ver) then some e' else s.get k ts := by
  rw [LL.put_get h hpos, LL.newestLE_cons, ← C01_get_spec h]
  unfold LL.cand
  by_cases hc : e'.key = k ∧ e'.ver ≤ ts
  · rw [if_pos hc]
    cases hg : s.get k ts with
    | none => simp [hc, LL.pick]
    | some x =>
      simp only [LL.pick]
      by_cases hv : e'.ver < x.ver
      · rw [if_pos hv, if_neg]
        rintro ⟨_, _, h3⟩
        have := h3 x rfl
        omega
      · rw [if_neg hv, if_pos]
        exact ⟨hc.1, hc.2, fun y hy => by cases hy; omega⟩
  · rw [if_neg hc, if_neg (fun h3 => hc ⟨h3.1, h3.2.1⟩)]
    rfl

/-- deadness is part of the user-visible content -/
theorem dead_of_view {vl vl' : Vlog} {a b : Ent} (h : viewOf vl a = viewOf vl' b) (now : Nat) :
    deletedOrExpired a.emeta a.exp now = deletedOrExpired b.emeta b.exp now := by
  have h1 : hasBit a.emeta bitDelete = hasBit b.emeta bitDelete := congrArg View.deleted h
  have h2 : a.exp = b.exp := congrArg View.exp h
  unfold deletedOrExpired
  rw [h1, h2]

/-- **C15 (write-back)** — re-putting an entry with the `(key, ver)` of the entry the LSM currently
    serves for that internal key (`discardEntry`'s version test) and the same user-visible content
    (user meta, expiry, delete/discard/merge bits, logical value) leaves `visible (get k ts)`, seen
    through `viewOf`, unchanged for EVERY `k` and `ts`. (The physical entry returned does change: new
    pointer, `bitTxn` stripped.) -/
theorem C15_writeback_reads {s : Lsm} (h : LsmInv s) {vl : Vlog} {e0 e' : Ent} (hpos : 0 < e'.ver)
    (hcur : s.get e'.key e'.ver = some e0) (hver : e0.ver = e'.ver) (hview : viewOf vl e' = viewOf vl e0)
    (now : Nat) (k : Bytes) (ts : Nat) :
    (visible now ((s.putEnt e').get k ts)).map (viewOf vl) = (visible now (s.get k ts)).map (viewOf vl) := by
  rw [C15_writeback_read_eq h hpos]
  split
  · rename_i hc
    obtain ⟨hk, hts, hle⟩ := hc
    -- the read returned something of version ≥ e'.ver (e0 is there), hence exactly e'.ver, hence e0
    rw [C01_get_spec h] at hcur hle ⊢
    obtain ⟨m0, k0, _, _⟩ := LL.newestLE_some hcur
    cases hg : newestLE s.allEntries k ts with
    | none => exact absurd ⟨k0.trans hk, by omega⟩ (LL.newestLE_eq_none.mp hg e0 m0)
    | some x =>
      have hx := LL.newestLE_some hg
      have h1 : x.ver ≤ e'.ver := hle x hg
      have h2 : e0.ver ≤ x.ver := hx.2.2.2 e0 m0 (k0.trans hk) (by omega)
      have hxv : x.ver = e'.ver := by omega
      have hx0 : x = e0 := by
        have := newestLE_at_ver hg
        rw [hxv, ← hk, hcur] at this
        exact (Option.some.inj this).symm
      subst hx0
      simp only [visible, dead_of_view hview now]
      split <;> simp [hview]
  · rfl

/-- **C15 (write-back below a survivor)** — re-putting `k@v` changes no read at which a strictly
    newer version of `k` is served. -/
theorem C15_writeback_shadowed {s : Lsm} (h : LsmInv s) {e' x : Ent} (hpos : 0 < e'.ver) {k : Bytes} {ts : Nat}
    (hx : s.get k ts = some x) (hnew : e'.ver < x.ver) : (s.putEnt e').get k ts = s.get k ts := by
  rw [C15_writeback_read_eq h hpos, if_neg]
  rintro ⟨_, _, h3⟩
  have := h3 x hx
  omega

/-! ## the scan -/

/-- what links a pointer entry to the record it points at: the record was written for the entry's
    internal key and is dead exactly when the entry is (same delete bit and expiry) -/
structure PtrRec (now : Nat) (e : Ent) (r : VRec) : Prop where
  key : r.key = e.key
  ver : r.ver = e.ver
  dead : deletedOrExpired r.rmeta r.exp now = deletedOrExpired e.emeta e.exp now

theorem mem_gcScan {lsm : Lsm} {now : Nat} {f : VFile} {r : VRec} :
    r ∈ gcScan lsm now f ↔ ∃ i, f.recs[i]? = some r ∧ gcMoves lsm now f.fid i r = true := by
  unfold gcScan
  rw [List.mem_filterMap]
  constructor
  · rintro ⟨⟨i, r'⟩, hm, hf⟩
    simp only at hf
    split at hf
    · rename_i hmv
      cases hf
      exact ⟨i, (LL.mem_zipIdx _ _ _).mp hm, hmv⟩
    · cases hf
  · rintro ⟨i, hi, hmv⟩
    exact ⟨(i, r), (LL.mem_zipIdx _ _ _).mpr hi, by simp [hmv]⟩

/-- **C15 (scan)** — if a read of ANY key at ANY timestamp returns a visible pointer entry whose
    pointer is position `idx` of file `f`, and the record there is the one written for it, then the
    scan moves that record. Contrapositive: a record the scan classifies as discardable (dead,
    version gone from the LSM, LSM entry inline / pointing elsewhere) is not the target of any entry a
    read can return — in particular of no entry whose version was superseded, deleted or compacted
    away. -/
theorem C15_scan_sound {lsm : Lsm} (h : LsmInv lsm) {f : VFile} {now : Nat} {k : Bytes} {ts : Nat} {e : Ent}
    {r : VRec} {idx : Nat}
    (hget : lsm.get k ts = some e) (hvis : deletedOrExpired e.emeta e.exp now = false)
    (hp : hasBit e.emeta bitValuePointer = true) (hfin : hasBit e.emeta bitFinTxn = false)
    (hloc : decodePtr e.val = (f.fid, idx)) (hr : f.recs[idx]? = some r) (hpr : PtrRec now e r) :
    r ∈ gcScan lsm now f := by
  rw [mem_gcScan]
  refine ⟨idx, hr, ?_⟩
  have hself : lsm.get r.key r.ver = some e := by
    rw [C01_get_spec h] at hget ⊢
    have hk := (LL.newestLE_some hget).2.1
    rw [hpr.key, hpr.ver, hk]
    exact newestLE_at_ver hget
  unfold gcMoves scanDecide
  rw [hpr.dead, hvis, hself]
  simp [hpr.ver, hp, hfin, hloc]

/-- a scan parked after `k` records and resumed with the LSM unchanged selects what the one-piece
    scan selects (`GcDb.gcBeginAt` + `GcDb.gcCont` vs `GcDb.gcBegin`) -/
theorem C15_scan_split (lsm : Lsm) (now : Nat) (f : VFile) (k : Nat) :
    gcScanPart lsm now f.fid ((zipIdx f.recs).take k) ++ gcScanPart lsm now f.fid ((zipIdx f.recs).drop k) =
      gcScan lsm now f := by
  unfold gcScanPart gcScan
  rw [← List.filterMap_append, List.take_append_drop]

/-! ## write-back of everything scanned, then unlinking -/

theorem putAll_cons (s : Lsm) (w : Ent) (W : List Ent) : s.putAll (w :: W) = (s.putEnt w).putAll W := rfl

theorem putAll_inv {s : Lsm} (h : LsmInv s) {W : List Ent} (hW : ∀ w ∈ W, 0 < w.ver) : LsmInv (s.putAll W) := by
  induction W generalizing s with
  | nil => exact h
  | cons w W ih =>
    rw [putAll_cons]
    exact ih (LL.put_inv h (hW w List.mem_cons_self)) (fun x hx => hW x (List.mem_cons_of_mem _ hx))

/-- a batch of puts reads like the batch (last put first) in front of the old entries -/
theorem putAll_get {s : Lsm} (h : LsmInv s) {W : List Ent} (hW : ∀ w ∈ W, 0 < w.ver) (k : Bytes) (ts : Nat) :
    (s.putAll W).get k ts = newestLE (W.reverse ++ s.allEntries) k ts := by
  induction W generalizing s with
  | nil => simpa [Lsm.putAll] using C01_get_spec h k ts
  | cons w W ih =>
    have hw := hW w List.mem_cons_self
    rw [putAll_cons, ih (LL.put_inv h hw) (fun x hx => hW x (List.mem_cons_of_mem _ hx)),
      LL.newestLE_append, ← C01_get_spec (LL.put_inv h hw), LL.put_get h hw, ← LL.newestLE_append]
    simp

/-- every visible pointer entry that a read can return and that points into `f` points at a
    record of `f` written for it (the part of `PtrOk` that concerns `f`) -/
def PtrOkInto (s : Lsm) (f : VFile) (now : Nat) : Prop :=
  ∀ k ts e, s.get k ts = some e → deletedOrExpired e.emeta e.exp now = false →
    hasBit e.emeta bitValuePointer = true → (decodePtr e.val).1 = f.fid →
    hasBit e.emeta bitFinTxn = false ∧ ∃ r, f.recs[(decodePtr e.val).2]? = some r ∧ PtrRec now e r

/-- **C15 (delete, no interleaving)** — once every record the scan selected has been re-put (with
    its `(key, ver)`, pointing into another file), no read of any key at any timestamp returns a
    visible pointer into `f`. -/
theorem C15_delete_safe {s : Lsm} (h : LsmInv s) {f : VFile} {now : Nat} {W : List Ent}
    (hWpos : ∀ w ∈ W, 0 < w.ver)
    (hWptr : ∀ w ∈ W, hasBit w.emeta bitValuePointer = true → (decodePtr w.val).1 ≠ f.fid)
    (hWall : ∀ r ∈ gcScan s now f, ∃ w ∈ W, w.key = r.key ∧ w.ver = r.ver)
    (hptr : PtrOkInto s f now) :
    ∀ k ts e, (s.putAll W).get k ts = some e → deletedOrExpired e.emeta e.exp now = false →
      hasBit e.emeta bitValuePointer = true → (decodePtr e.val).1 ≠ f.fid := by
  intro k ts e hg hvis hp hfid
  rw [putAll_get h hWpos, LL.newestLE_append] at hg
  rcases LL.pick_some hg with ⟨h1, _⟩ | ⟨h1, h2⟩
  · have := (LL.newestLE_some h1).1
    exact hWptr e (List.mem_reverse.mp this) hp hfid
  · have hget : s.get k ts = some e := by rw [C01_get_spec h]; exact h1
    obtain ⟨hfin, r, hr, hpr⟩ := hptr k ts e hget hvis hp hfid
    have hsc := C15_scan_sound h hget hvis hp hfin (Prod.ext hfid rfl) hr hpr
    obtain ⟨w, hw, hwk, hwv⟩ := hWall r hsc
    obtain ⟨_, ek, ev, _⟩ := LL.newestLE_some h1
    have hwk' : w.key = k := by rw [hwk, hpr.key, ek]
    have hwv' : w.ver = e.ver := by rw [hwv, hpr.ver]
    cases hl : newestLE W.reverse k ts with
    | none =>
      exact LL.newestLE_eq_none.mp hl w (List.mem_reverse.mpr hw) ⟨hwk', by omega⟩
    | some a =>
      have := (LL.newestLE_some hl).2.2.2 w (List.mem_reverse.mpr hw) hwk' (by omega)
      have := h2 a hl
      omega

theorem find?_filter_ne (l : List VFile) (fid fid' : Nat) (hne : fid' ≠ fid) :
    (l.filter (·.fid != fid)).find? (·.fid == fid') = l.find? (·.fid == fid') := by
  induction l with
  | nil => rfl
  | cons x xs ih =>
    by_cases hx : x.fid = fid
    · have h1 : (x.fid != fid) = false := by simp [hx]
      have h2 : (x.fid == fid') = false := by simp [hx]; omega
      rw [List.filter_cons, h1]
      simp only [Bool.false_eq_true, if_false]
      rw [List.find?_cons, h2]
      exact ih
    · have h1 : (x.fid != fid) = true := by simp [hx]
      rw [List.filter_cons, h1]
      simp only [if_true]
      rw [List.find?_cons, List.find?_cons, ih]

/-- **C15 (unlink)** — removing a file from `filesMap` changes the resolution of no entry that does
    not point into it. With `C15_delete_safe`: after scan + write-back, unlinking `f` leaves every
    visible read resolvable as before. -/
theorem C15_unlink_resolve (vl : Vlog) (fid : Nat) (e : Ent)
    (h : hasBit e.emeta bitValuePointer = true → (decodePtr e.val).1 ≠ fid) :
    resolve { vl with files := vl.files.filter (·.fid != fid) } e = resolve vl e := by
  unfold resolve
  by_cases hp : hasBit e.emeta bitValuePointer = true
  · rw [if_pos hp, if_pos hp]
    simp only [Vlog.read, Vlog.file?]
    rw [find?_filter_ne _ _ _ (h hp)]
  · rw [if_neg hp, if_neg hp]

/-! ## compactions between scan and write-back: the `gcDiscardTs` clamp (#2286) -/

/-- `GcDb.discardTs` never exceeds the oracle's watermark, and while a rewrite is in flight
    (`gcTs > 0`) it does not exceed `gcDiscardTs` -/
theorem C15_clamp_le (g : GcDb) : g.discardTs ≤ g.db.discardAtOrBelow ∧
    (g.gcActive = true → 0 < g.gcTs → g.discardTs ≤ g.gcTs) := by
  unfold GcDb.discardTs
  constructor
  · simp only; split
    · rename_i hc; simp only [Bool.and_eq_true, decide_eq_true_eq] at hc; omega
    · exact Nat.le_refl _
  · intro ha hpos
    simp only; split
    · exact Nat.le_refl _
    · rename_i hc
      simp only [Bool.and_eq_true, decide_eq_true_eq, ha, hpos, true_and] at hc
      omega

/-- **C15 (no resurrection, with the clamp)** — `es` is the merged input of a compaction that runs
    while a rewrite is between scan and write-back, `p.discardTs ≤ gcTs` (the clamp), `k@v` is an
    entry of the input (the scan saw it). If no version of `k` in `[v, gcTs]` is dead at the
    compaction's clock — i.e. every delete/expiry of `k` above `v` carries a version `> gcTs`, "was
    committed after the rewrite started" — then for every `ts ≥ discardTs` with `v ≤ ts` the compacted
    stream still answers the read of `(k, ts)` with the very same entry as before, of version `≥ v`;
    so (by `C15_writeback_read_eq`) the write-back of `k@v` either re-puts what is there or lands
    below a survivor: nothing comes back.
    The side condition is NOT implied by the code (finding F21, `C15_resurrect_counterexample`). -/
theorem C15_no_resurrect {p : CParams} {es : List Ent} (hs : SortedEnts es) (hp : p.dropPrefixes = [])
    {gcTs : Nat} (hclamp : p.discardTs ≤ gcTs) {k : Bytes} {v : Nat}
    (hmem : ∃ e ∈ es, e.key = k ∧ e.ver = v)
    (hnd : ∀ x ∈ es, x.key = k → v ≤ x.ver → x.ver ≤ gcTs → deletedOrExpired x.emeta x.exp p.now = false)
    {ts : Nat} (hts : p.discardTs ≤ ts) (hv : v ≤ ts) :
    ∃ y, newestLE (subcompact p es) k ts = some y ∧ v ≤ y.ver ∧ newestLE es k ts = some y := by
  obtain ⟨e0, he0, hk0, hv0⟩ := hmem
  cases hr : newestLE es k ts with
  | none => exact absurd ⟨hk0, by omega⟩ (LL.newestLE_eq_none.mp hr e0 he0)
  | some e =>
    obtain ⟨hm, hk, hle, hmax⟩ := LL.newestLE_some hr
    have hge : v ≤ e.ver := by have := hmax e0 he0 hk0 (by omega); omega
    rcases C12_filter_reads_refined hs hp hts k with h | ⟨hnone, _, e', he', hd⟩
    · exact ⟨e, by rw [h, hr], hge, rfl⟩
    · exfalso
      rw [hr] at he'; cases he'
      -- `e` was dropped: its version is at most the discard timestamp, hence at most gcTs
      have hnot : e ∉ subcompact p es := fun hin =>
        LL.newestLE_eq_none.mp hnone e hin ⟨hk, hle⟩
      have hlow : e.ver ≤ p.discardTs := by
        apply Classical.byContradiction
        intro hgt
        exact hnot (C13_keep_above hs hp hm (by omega))
      have := hnd e hm hk hge (by omega)
      rw [this] at hd; cases hd

/-! ## open iterators: deferred deletion -/

theorem find?_append_some {l l' : List VFile} {q : VFile → Bool} {f : VFile} (h : l.find? q = some f) :
    (l ++ l').find? q = some f := by
  rw [List.find?_append, h]; rfl

theorem read_append {vl : Vlog} {r r' : VRec} {fid idx : Nat} (h : vl.read fid idx = some r) :
    (vl.append r').read fid idx = some r := by
  unfold Vlog.read Vlog.file? at *
  unfold Vlog.append
  simp only
  generalize vl.files = l at h ⊢
  induction l with
  | nil => simp at h
  | cons x xs ih =>
    rw [List.map_cons, List.find?_cons]
    rw [List.find?_cons] at h
    by_cases hx : x.fid = fid
    · have h1 : (x.fid == fid) = true := by simp [hx]
      rw [h1] at h
      simp only at h
      by_cases hm : (x.fid == vl.maxFid) = true
      · simp only [hm, if_true, h1]
        rw [List.getElem?_append_left]
        · exact h
        · exact (List.getElem?_eq_some_iff.mp h).1
      · simp only [hm, Bool.false_eq_true, if_false, h1]
        exact h
    · have h1 : (x.fid == fid) = false := by simp [hx]
      rw [h1] at h
      simp only at h
      have h2 : ((if (x.fid == vl.maxFid) = true then { x with recs := x.recs ++ [r'] } else x).fid == fid) = false := by
        split <;> simp [hx]
      rw [h2]
      exact ih h

theorem read_rotate {vl : Vlog} {r : VRec} {fid idx : Nat} (h : vl.read fid idx = some r) :
    vl.rotate.read fid idx = some r := by
  unfold Vlog.read Vlog.file? Vlog.rotate at *
  simp only
  cases hf : vl.files.find? (·.fid == fid) with
  | none => rw [hf] at h; cases h
  | some f => rw [hf] at h; rw [find?_append_some hf]; exact h

theorem read_writeEntries {thr : Nat} {es : List Ent} {vl : Vlog} {n : Nat} {r : VRec} {fid idx : Nat}
    (h : vl.read fid idx = some r) : (writeEntries thr vl n es).1.read fid idx = some r := by
  induction es generalizing vl n with
  | nil => exact h
  | cons e es ih =>
    unfold writeEntries
    split
    · exact ih h
    · exact ih (read_append h)

/-- the write path only appends: whatever could be read can still be read -/
theorem read_writeReq {vl : Vlog} {thr : Nat} {es : List Ent} {r : VRec} {fid idx : Nat}
    (h : vl.read fid idx = some r) : (vl.writeReq thr es).1.read fid idx = some r := by
  unfold Vlog.writeReq
  simp only
  have h1 := read_writeEntries (thr := thr) (es := es) (n := 0) h
  have h2 : ({ (writeEntries thr vl 0 es).1 with
      nWritten := (writeEntries thr vl 0 es).1.nWritten + (writeEntries thr vl 0 es).2.1 } : Vlog).read fid idx = some r := h1
  split
  · exact read_rotate h2
  · exact h2

theorem resolve_of_read {vl vl' : Vlog} (h : ∀ fid idx r, vl.read fid idx = some r → vl'.read fid idx = some r)
    {e : Ent} {v : Bytes} (hr : resolve vl e = some v) : resolve vl' e = some v := by
  unfold resolve at *
  split
  · rename_i hp
    rw [if_pos hp] at hr
    simp only [Option.map_eq_some_iff] at hr ⊢
    obtain ⟨r, h1, h2⟩ := hr
    exact ⟨r, h _ _ _ h1, h2⟩
  · rename_i hp
    rw [if_neg hp] at hr
    exact hr

/-- a step of the value log as seen by a reader that keeps an iterator open: a write request
    (commit or GC write-back), the deletion phase of a rewrite, another iterator opening, another
    iterator closing (ours stays open, so the count stays positive) -/
inductive VlogStep : Vlog → Vlog → Prop
  | write (vl : Vlog) (thr : Nat) (es : List Ent) : VlogStep vl (vl.writeReq thr es).1
  | gcDelete (vl : Vlog) (fid : Nat) : VlogStep vl (vl.gcDelete fid).1
  | iterOpen (vl : Vlog) : VlogStep vl vl.iterOpen
  | iterClose (vl : Vlog) (h : 1 < vl.iterCount) : VlogStep vl vl.iterClose

theorem writeEntries_iterCount (thr : Nat) (es : List Ent) (vl : Vlog) (n : Nat) :
    (writeEntries thr vl n es).1.iterCount = vl.iterCount := by
  induction es generalizing vl n with
  | nil => rfl
  | cons e es ih =>
    unfold writeEntries
    split
    · exact ih _ _
    · rw [ih]; rfl

theorem writeReq_iterCount (vl : Vlog) (thr : Nat) (es : List Ent) :
    (vl.writeReq thr es).1.iterCount = vl.iterCount := by
  unfold Vlog.writeReq
  simp only
  split
  · exact writeEntries_iterCount thr es vl 0
  · exact writeEntries_iterCount thr es vl 0

/-- **C15 (iterators, one step)** — while an iterator is open (`iteratorCount > 0`) no step of the
    value log removes a file: the rewrite's deletion phase defers (`filesToBeDeleted`), the write
    path only appends. Every entry that resolved keeps resolving to the same value, and the count
    stays positive. -/
theorem C15_iter_items_readable_step {vl vl' : Vlog} (st : VlogStep vl vl') (hit : 0 < vl.iterCount) :
    0 < vl'.iterCount ∧ ∀ e v, resolve vl e = some v → resolve vl' e = some v := by
  cases st with
  | write thr es =>
    exact ⟨by rw [writeReq_iterCount]; exact hit, fun e v h => resolve_of_read (fun _ _ _ => read_writeReq) h⟩
  | gcDelete fid =>
    unfold Vlog.gcDelete
    have : (vl.iterCount == 0) = false := by simp; omega
    simp only [this, Bool.false_eq_true, if_false]
    exact ⟨hit, fun e v h => h⟩
  | iterOpen => exact ⟨Nat.succ_pos _, fun e v h => h⟩
  | iterClose h1 =>
    unfold Vlog.iterClose
    have : (vl.iterCount - 1 != 0) = true := by simp; omega
    simp only [this, if_true]
    exact ⟨by show 0 < vl.iterCount - 1; omega, fun e v h => h⟩

inductive VlogRun : Vlog → Vlog → Prop
  | refl (vl : Vlog) : VlogRun vl vl
  | step {a b c : Vlog} (r : VlogRun a b) (st : VlogStep b c) : VlogRun a c

/-- **C15 (iterators)** — the item of an open iterator stays readable, with the same value, across
    any number of commits, GC write-backs and GC deletion phases, and across other iterators coming
    and going, for as long as its iterator is open. -/
theorem C15_iter_items_readable {vl vl' : Vlog} (r : VlogRun vl vl') (hit : 0 < vl.iterCount)
    {e : Ent} {v : Bytes} (h : resolve vl e = some v) : resolve vl' e = some v ∧ itemValue vl' e = v := by
  have key : 0 < vl'.iterCount ∧ ∀ e v, resolve vl e = some v → resolve vl' e = some v := by
    induction r with
    | refl => exact ⟨hit, fun _ _ h => h⟩
    | step _ st ih =>
      obtain ⟨h1, h2⟩ := ih
      obtain ⟨h3, h4⟩ := C15_iter_items_readable_step st h1
      exact ⟨h3, fun e v h => h4 e v (h2 e v h)⟩
  have := key.2 e v h
  exact ⟨this, by unfold itemValue; rw [this]; rfl⟩

/-- the deferred files go when the last iterator closes (`decrIteratorCount`) -/
theorem C15_last_iterator_unlinks (vl : Vlog) (h : vl.iterCount = 1) :
    vl.iterClose.tbd = [] ∧ vl.iterClose.iterCount = 0 ∧
      ∀ f ∈ vl.iterClose.files, f ∈ vl.files ∧ ¬ vl.tbd.contains f.fid = true := by
  unfold Vlog.iterClose
  have : (vl.iterCount - 1 != 0) = false := by simp [h]
  simp only [this, Bool.false_eq_true, if_false]
  refine ⟨trivial, trivial, ?_⟩
  intro f hf
  have := List.mem_filter.mp hf
  exact ⟨this.1, by simpa using this.2⟩

/-! ## the whole write-back batch; what keeps later compactions safe -/

/-- **C15 (write-back, whole batch)** — re-putting a batch `W` in which every entry carries the
    `(key, ver)` and the user-visible content of the entry the LSM served for that internal key
    (in the state the batch is applied to) changes no read of any key at any timestamp. -/
theorem C15_writeback_batch_reads {s : Lsm} (h : LsmInv s) {vl : Vlog} {W : List Ent}
    (hWpos : ∀ w ∈ W, 0 < w.ver)
    (hW : ∀ w ∈ W, ∃ e0, s.get w.key w.ver = some e0 ∧ e0.ver = w.ver ∧ viewOf vl w = viewOf vl e0)
    (now : Nat) (k : Bytes) (ts : Nat) :
    (visible now ((s.putAll W).get k ts)).map (viewOf vl) = (visible now (s.get k ts)).map (viewOf vl) := by
  rw [putAll_get h hWpos, LL.newestLE_append, C01_get_spec h]
  cases hl : newestLE W.reverse k ts with
  | none => rfl
  | some a =>
    obtain ⟨ma, ka, va, _⟩ := LL.newestLE_some hl
    obtain ⟨e0, hcur, hver, hview⟩ := hW a (List.mem_reverse.mp ma)
    rw [C01_get_spec h] at hcur
    obtain ⟨m0, k0, _, _⟩ := LL.newestLE_some hcur
    cases hg : newestLE s.allEntries k ts with
    | none => exact absurd ⟨k0.trans ka, by omega⟩ (LL.newestLE_eq_none.mp hg e0 m0)
    | some x =>
      have hx := LL.newestLE_some hg
      have h2 : e0.ver ≤ x.ver := hx.2.2.2 e0 m0 (k0.trans ka) (by omega)
      simp only [LL.pick]
      by_cases hlt : a.ver < x.ver
      · rw [if_pos hlt]
      · rw [if_neg hlt]
        have hxv : x.ver = a.ver := by omega
        have hx0 : x = e0 := by
          have := newestLE_at_ver hg
          rw [hxv, ← ka, hcur] at this
          exact (Option.some.inj this).symm
        subst hx0
        simp only [visible, dead_of_view hview now]
        split <;> simp [hview]

/-- stored below the active memtable: in an immutable memtable or in a table of some level -/
def Lsm.belowMem (s : Lsm) (y : Ent) : Prop :=
  (∃ m ∈ s.imm, y ∈ m) ∨
    ∃ (i : Nat) (tbls : List Tbl) (t : Tbl), s.levels[i]? = some tbls ∧ t ∈ tbls ∧ y ∈ t.ents

theorem memPut_self_mem (e : Ent) (m : List Ent) : e ∈ memPut e m := by
  induction m with
  | nil => simp [memPut]
  | cons x xs ih => unfold memPut; split <;> simp [ih]

/-- **C15 (the exact condition under which a write-back is a legitimate put)** — the re-put keeps
    the recency invariant `LayeredX` (which every C12 read-preservation theorem needs) iff every
    version of the key stored BELOW the active memtable is `≤` the version written back, i.e. iff
    every newer version of the key is still in the active memtable (where it cannot be compacted
    away separately). `rewrite` checks nothing of the kind (`discardEntry` looks up `key@ver` only). -/
theorem C15_writeback_layering_iff {s : Lsm} (hl : LayeredX s) (e : Ent) :
    LayeredX (s.putEnt e) ↔ ∀ y, s.belowMem y → y.key = e.key → y.ver ≤ e.ver := by
  obtain ⟨p1, p2, p3⟩ := (LL.layeredX_iff s).mp hl
  rw [LL.layeredX_iff]
  constructor
  · rintro ⟨q1, q2, _⟩ y hy hk
    have he : e ∈ (s.putEnt e).mem := memPut_self_mem e s.mem
    rcases hy with ⟨m, hm, hym⟩ | ⟨i, tbls, t, hi, ht, hyt⟩
    · exact (List.pairwise_cons.mp q1).1 m (List.mem_reverse.mpr hm) e he y hym hk.symm
    · exact q2 e (List.mem_append_left _ he) i tbls t hi ht y hyt hk.symm
  · intro hnew
    have hmemE : ∀ x ∈ LL.memEnts (s.putEnt e), x = e ∨ x ∈ LL.memEnts s := by
      intro x hx
      unfold LL.memEnts Lsm.putEnt at hx
      rcases List.mem_append.mp hx with h1 | h1
      · rcases mem_memPut_imp h1 with h2 | h2
        · exact .inl h2
        · exact .inr (List.mem_append_left _ h2)
      · exact .inr (List.mem_append_right _ h1)
    refine ⟨?_, ?_, p3⟩
    · obtain ⟨q1, q2⟩ := List.pairwise_cons.mp p1
      refine List.pairwise_cons.mpr ⟨?_, q2⟩
      intro m hm x hx y hy hk
      rcases mem_memPut_imp hx with rfl | hx
      · exact hnew y (.inl ⟨m, List.mem_reverse.mp hm, hy⟩) hk.symm
      · exact q1 m hm x hx y hy hk
    · intro x hx i tbls t hi ht y hy hk
      rcases hmemE x hx with rfl | hx
      · exact hnew y (.inr ⟨i, tbls, t, hi, ht, hy⟩) hk.symm
      · exact p2 x hx i tbls t hi ht y hy hk

/-- **C15 (positive)** — a write-back satisfying that condition is as good as a commit: every later
    well-formed compaction (any kind; `TopsOldest` / `TblsFun` as in `C12_compact_reads_weak`)
    preserves every read at or above its discard timestamp. -/
theorem C15_writeback_then_compact_reads {s s' : Lsm} {e' : Ent} {cd : CompactDef} {d n now' now ts : Nat}
    {k : Bytes} (h : LsmInv s) (hv : VerBound s) (hl : LayeredX s) (hpos : 0 < e'.ver) (hmax : e'.ver ≤ maxU64)
    (hsafe : ∀ y, s.belowMem y → y.key = e'.key → y.ver ≤ e'.ver)
    (hc : CompactOk (s.putEnt e') cd)
    (hto : IsL0Lbase (s.putEnt e') cd → TopsOldest (s.putEnt e') cd)
    (hfun : IsL0L0 (s.putEnt e') cd → TblsFun (cdThisT (s.putEnt e') cd))
    (hdp : cd.dropPrefixes = []) (hs : (s.putEnt e').compact cd d n now' = some s') (hts : d ≤ ts)
    (hnow : now' ≤ now) :
    visible now (s'.get k ts) = visible now ((s.putEnt e').get k ts) :=
  C12_compact_reads_weak (LL.put_inv h hpos) (LL.put_verBound hv hmax)
    ((C15_writeback_layering_iff hl e').mpr hsafe) hc hto hfun hdp hs hts hnow

/-! ## concrete histories (each replayed on the real code by engine `gc`, see corpus/C15)

Key `k = [1]`, value `[42]` in value-log file 1 (record 0); `k@1` points at it. Managed mode with
`SetDiscardTs(9)` so that the oracle's watermark is a constant; `NumVersionsToKeep = 1`. -/

def C15_opts : Opts := { managed := true, numKeep := 1, threshold := 1, maxLevels := 2 }
def C15_mkDb (l : Lsm) : Db := { opts := C15_opts, lsm := l, discardTs := 9 }
/-- `k@1`, value pointer (file 1, record 0) -/
def C15_kOld : Ent := ⟨[1], 1, 2, 7, 0, encodePtr 1 0⟩
/-- `k@1` as the rewrite re-puts it: value pointer (file 2, record 0) -/
def C15_kNew : Ent := ⟨[1], 1, 2, 7, 0, encodePtr 2 0⟩
/-- delete marker `k@2` -/
def C15_tomb : Ent := ⟨[1], 2, 1, 0, 0, []⟩
def C15_rec : VRec := ⟨[1], 1, 0, 7, 0, [42]⟩
def C15_vl0 : Vlog := { files := [⟨1, [C15_rec]⟩, ⟨2, []⟩], maxFid := 2, maxEntries := 10 }
def C15_view42 : View :=
  { key := [1], ver := 1, deleted := false, discardEarlier := false, merge := false, umeta := 7, exp := 0, val := some [42] }
def C15_withLsm (g : GcDb) (l : Lsm) : GcDb := { g with db := { g.db with lsm := l } }

example : resolve C15_vl0 C15_kOld = some [42] ∧ viewOf C15_vl0 C15_kOld = C15_view42 := by decide

/-! ### #2286: the race the clamp is for -/

def C15_r_g0 : GcDb :=
  { db := C15_mkDb { mem := [], imm := [], levels := [[{ ents := [C15_kOld], id := 1 }], []] }, vl := C15_vl0 }
def C15_r_g1 : GcDb := { C15_r_g0 with gcTs := 1, gcActive := true }
def C15_run : GcRun := { fid := 1, wb := [C15_rec] }
/-- after the scan: `k` deleted at ts 2, memtable flushed -/
def C15_r_sDel : Lsm :=
  { mem := [], imm := [], levels := [[{ ents := [C15_kOld], id := 1 }, { ents := [C15_tomb], id := 2 }], []] }
def C15_r_cd : CompactDef := { thisLevel := 0, nextLevel := 1, top := [0, 1], bot := [], outSizes := [], dropPrefixes := [] }
def C15_r_cdClamped : CompactDef := { C15_r_cd with outSizes := [2], outIds := [3] }
def C15_r_sGood : Lsm :=
  { mem := [], imm := [], levels := [[], [{ ents := [C15_tomb, C15_kOld], id := 3 }]] }

/-- **#2286 without the clamp** — scan (`k@1` is live), then `Delete(k)` at ts 2 + flush + an
    L0 → L1 compaction that runs with the oracle's watermark 9: marker and old version are dropped
    (nothing below), the write-back re-puts `k@1`, and the deleted key reads `[42]` again. -/
theorem C15_resurrect_without_clamp :
    C15_r_g0.gcBegin 1 = .ok (C15_r_g1, C15_run) ∧
    (C15_r_g1.db.lsm.putEnt C15_tomb).flush 2 = C15_r_sDel ∧
    visible 0 (C15_r_sDel.get [1] 5) = none ∧
    C15_r_g1.db.discardAtOrBelow = 9 ∧
    C15_r_sDel.compact C15_r_cd 9 1 0 = some { mem := [], imm := [], levels := [[], []] } ∧
    ((C15_withLsm C15_r_g1 { mem := [], imm := [], levels := [[], []] }).gcEnd C15_run).1.read [1] 5 = some C15_view42 := by
  refine ⟨rfl, by decide, by decide, by decide, by lsm_decide, by decide⟩

/-- **the same history with the clamp** — `GcDb.discardTs` is `gcDiscardTs = 1`: the marker `k@2`
    is above it and survives, the write-back lands in the memtable ABOVE it (older version above a
    newer one!), and the read still says "deleted" — as long as the marker stays. -/
theorem C15_clamp_protects_witness :
    C15_r_g1.discardTs = 1 ∧
    C15_r_sDel.compact C15_r_cdClamped C15_r_g1.discardTs 1 0 = some C15_r_sGood ∧
    ((C15_withLsm C15_r_g1 C15_r_sGood).gcEnd C15_run).1.read [1] 5 = none ∧
    ((C15_withLsm C15_r_g1 C15_r_sGood).gcEnd C15_run).1.db.lsm.mem = [C15_kNew] := by
  refine ⟨by decide, by lsm_decide, by decide, by decide⟩

/-- hypotheses of `C15_no_resurrect` on that history: the merged input, clamp, `k@1` present, no
    dead version of `k` in `[1, gcTs = 1]`; conclusion instance at `ts = 5` -/
example :
    let p : CParams := { discardTs := 1, numKeep := 1, hasOverlap := false, now := 0, dropPrefixes := [] }
    SortedEnts [C15_tomb, C15_kOld] ∧ p.discardTs ≤ 1 ∧
    (∀ x ∈ [C15_tomb, C15_kOld], x.key = [1] → 1 ≤ x.ver → x.ver ≤ 1 → deletedOrExpired x.emeta x.exp p.now = false) ∧
    newestLE (subcompact p [C15_tomb, C15_kOld]) [1] 5 = some C15_tomb := by decide

/-! ### finding F21: the clamp does not cover a delete committed BEFORE the rewrite started -/

/-- L0 holds the marker `k@2` and `k@1`: `k` is deleted, nothing compacted yet -/
def C15_a_g0 : GcDb :=
  { db := C15_mkDb { mem := [], imm := [], levels := [[{ ents := [C15_tomb, C15_kOld], id := 1 }], []] }, vl := C15_vl0 }
def C15_a_g1 : GcDb := { C15_a_g0 with gcTs := 2, gcActive := true }
def C15_a_cd : CompactDef := { thisLevel := 0, nextLevel := 1, top := [0], bot := [], outSizes := [], dropPrefixes := [] }

/-- **F21 (a), the property is false on the code as it is** — `Delete(k)` at ts 2 is committed, THEN
    the rewrite of file 1 starts: `gcDiscardTs = MaxVersion = 2`; the scan finds `k@1` in the LSM with
    a pointer to this record (`discardEntry` does not look at newer versions) and selects it; an
    L0 → L1 compaction between scan and write-back runs with `discardTs = min(9, 2) = 2`: the marker
    `k@2` is not above the clamp, nothing is below, marker and `k@1` are dropped; the write-back
    re-puts `k@1`: `Get(k)` returns `[42]`. Before the rewrite it returned "not found". -/
theorem C15_resurrect_counterexample :
    C15_a_g0.read [1] 5 = none ∧
    C15_a_g0.gcBegin 1 = .ok (C15_a_g1, C15_run) ∧
    C15_a_g1.discardTs = 2 ∧
    C15_a_g1.db.lsm.compact C15_a_cd C15_a_g1.discardTs 1 0 = some { mem := [], imm := [], levels := [[], []] } ∧
    ((C15_withLsm C15_a_g1 { mem := [], imm := [], levels := [[], []] }).gcEnd C15_run).1.read [1] 5 = some C15_view42 := by
  refine ⟨by decide, rfl, by decide, by lsm_decide, by decide⟩

/-- the side condition of `C15_no_resurrect` is what fails: `k@2 ∈ [v, gcTs] = [1, 2]` is dead -/
example : ¬ (∀ x ∈ [C15_tomb, C15_kOld], x.key = [1] → 1 ≤ x.ver → x.ver ≤ 2 → deletedOrExpired x.emeta x.exp 0 = false) := by
  decide

/-- three levels: marker `k@2` and `k@1` sit in L1 (put there by a compaction that ran while a
    reader at ts 1 was open), nothing in L2 -/
def C15_b_s0 : Lsm := { mem := [], imm := [], levels := [[], [{ ents := [C15_tomb, C15_kOld], id := 4 }], []] }
def C15_b_g0 : GcDb := { db := { C15_mkDb C15_b_s0 with opts := { C15_opts with maxLevels := 3 } }, vl := C15_vl0 }
def C15_b_sWb : Lsm := { C15_b_s0 with mem := [C15_kNew] }
def C15_b_cd : CompactDef := { thisLevel := 1, nextLevel := 2, top := [0], bot := [], outSizes := [], dropPrefixes := [] }

/-- **F21 (b), no race at all** — a complete rewrite of file 1 (scan, write-back, unlink) in a
    quiescent database: reads are unchanged (`k` is still deleted) but `k@1` now sits in the
    memtable ABOVE the marker `k@2` of L1. A later L1 → L2 compaction (`hasOverlap` inspects only
    the levels below L2) drops the marker and the old `k@1`; the memtable copy becomes visible. -/
theorem C15_resurrect_after_gc_counterexample :
    ∃ g1 run, C15_b_g0.gcBegin 1 = .ok (g1, run) ∧
      (g1.gcEnd run).1.db.lsm = C15_b_sWb ∧
      (g1.gcEnd run).1.gcActive = false ∧ (g1.gcEnd run).2.2 = true ∧
      (g1.gcEnd run).1.read [1] 5 = none ∧
      (g1.gcEnd run).1.discardTs = 9 ∧
      C15_b_sWb.compact C15_b_cd 9 1 0 = some { mem := [C15_kNew], imm := [], levels := [[], [], []] } ∧
      (C15_withLsm (g1.gcEnd run).1 { mem := [C15_kNew], imm := [], levels := [[], [], []] }).read [1] 5 = some C15_view42 :=
  ⟨{ C15_b_g0 with gcTs := 2, gcActive := true }, C15_run, rfl, by decide, by decide, by decide, by decide, by decide,
    by lsm_decide, by decide⟩

/-- **why C12 does not apply** — the write-back is a `put` whose version is not fresh: from a state
    satisfying everything `C12_step_stable` needs (`LsmGood`: invariant, `uint64` versions, recency
    `LayeredX`, unique internal keys) it produces a state violating `LayeredX` (an older version of `k`
    in a source searched before the one holding a newer version) and `KeyVerUnique`; and it is not a
    `LsmStep.put` (that constructor demands `x.ver < e.ver` for every stored version of the key). -/
theorem C15_writeback_breaks_layering :
    LsmGood C15_b_s0 ∧ LsmInv (C15_b_s0.putEnt C15_kNew) ∧
      ¬ LayeredX (C15_b_s0.putEnt C15_kNew) ∧ ¬ KeyVerUnique (C15_b_s0.putEnt C15_kNew) ∧
      ¬ (∀ x ∈ C15_b_s0.allEntries, x.key = C15_kNew.key → x.ver < C15_kNew.ver) := by
  refine ⟨by decide, by decide, by decide, by decide, by decide⟩

/-! ### F12 (managed mode): a delete committed after the rewrite started, at a timestamp `≤ gcDiscardTs` -/

def C15_j5 : Ent := ⟨[2], 5, 0, 0, 0, [9]⟩
def C15_m_g0 : GcDb :=
  { db := C15_mkDb { mem := [], imm := [], levels := [[{ ents := [C15_kOld, C15_j5], id := 1 }], []] }, vl := C15_vl0 }
def C15_m_g1 : GcDb := { C15_m_g0 with gcTs := 5, gcActive := true }
def C15_tomb3 : Ent := ⟨[1], 3, 1, 0, 0, []⟩
def C15_m_sDel : Lsm :=
  { mem := [], imm := [], levels := [[{ ents := [C15_kOld, C15_j5], id := 1 }, { ents := [C15_tomb3], id := 2 }], []] }
def C15_m_cd : CompactDef :=
  { thisLevel := 0, nextLevel := 1, top := [0, 1], bot := [], outSizes := [1], outIds := [3], dropPrefixes := [] }
def C15_m_sBad : Lsm := { mem := [], imm := [], levels := [[], [{ ents := [C15_j5], id := 3 }]] }

/-- **F12 = F21 in managed mode** — another key was committed at ts 5, so `gcDiscardTs = 5`; after
    the scan `Delete(k)` is committed AT ts 3 (`CommitAt(3)`, allowed in managed mode); the clamp
    `discardTs = min(9, 5) = 5` does not protect the marker `k@3`; the write-back resurrects `k`. -/
theorem C15_resurrect_managed_old_ts_counterexample :
    C15_m_g0.gcBegin 1 = .ok (C15_m_g1, C15_run) ∧
    (C15_m_g1.db.lsm.putEnt C15_tomb3).flush 2 = C15_m_sDel ∧
    visible 0 (C15_m_sDel.get [1] 5) = none ∧
    C15_m_g1.discardTs = 5 ∧
    C15_m_sDel.compact C15_m_cd C15_m_g1.discardTs 1 0 = some C15_m_sBad ∧
    ((C15_withLsm C15_m_g1 C15_m_sBad).gcEnd C15_run).1.read [1] 5 = some C15_view42 := by
  refine ⟨rfl, by decide, by decide, by decide, by lsm_decide, by decide⟩

/-! ### finding F3: an `Item` from `Txn.Get` does not pin its value-log file -/

def C15_i_g0 : GcDb :=
  { db := C15_mkDb { mem := [C15_kOld], imm := [], levels := [[], []] }, vl := C15_vl0 }

/-- **F3, the property is false on the code as it is** — `item := txn.Get(k)` (the item holds the
    pointer into file 1; `itemValue` = `[42]`); a rewrite of file 1 with no ITERATOR open unlinks the
    file at once (`iteratorCount() == 0`; a Get item is not counted); the transaction is still open
    but `item.ValueCopy` now yields the empty value (`yieldItemValue` swallows the read error and
    returns nil, nil). A fresh `Get` in the same transaction is fine. With an iterator open the
    file would have been kept. -/
theorem C15_get_item_stale_counterexample :
    ∃ g1 run item,
      C15_i_g0.db.lsm.get [1] 5 = some item ∧ itemValue C15_i_g0.vl item = [42] ∧
      C15_i_g0.gcBegin 1 = .ok (g1, run) ∧
      (g1.gcEnd run).2.2 = true ∧                                   -- unlinked now
      resolve (g1.gcEnd run).1.vl item = none ∧ itemValue (g1.gcEnd run).1.vl item = [] ∧
      (g1.gcEnd run).1.read [1] 5 = some C15_view42 ∧              -- the data is not lost: a fresh Get reads it
      -- with an iterator open the deletion is deferred and the item stays readable
      (({ g1 with vl := g1.vl.iterOpen } : GcDb).gcEnd run).2.2 = false ∧
      itemValue (({ g1 with vl := g1.vl.iterOpen } : GcDb).gcEnd run).1.vl item = [42] :=
  ⟨{ C15_i_g0 with gcTs := 1, gcActive := true }, C15_run, C15_kOld, by decide, by decide, rfl, by decide, by decide,
    by decide, by decide, by decide, by decide⟩

end Badger
