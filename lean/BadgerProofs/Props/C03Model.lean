import BadgerModel.Mvcc
import BadgerProofs.Lemmas.Txn
import BadgerProofs.Props.C06
/-!
# C03 (model part) — commits are atomic, uniquely timestamped, and rejected commits leave no trace

The sequential model `Db.commit` applies a transaction in ONE step (`commitAndSend` +
`writeRequests`, txn.go:521 / db.go:813): these theorems are the step-granularity content of
C03. The concurrent part of the property (a reader starting between timestamp allocation and
the memtable write; `writeChLock` ordering) belongs to the `conc` engine (DESIGN §6 C03) and is
not claimed here.
-/
namespace Badger

/-- Normal mode: a successful commit returns `nextTxnTs` and increments it (`newCommitTs`). -/
theorem C03_commit_ts_fresh_db (d : Db) (id mts ts : Nat) (hm : d.opts.managed = false)
    (h : (d.commit id mts).2 = .ok ts) :
    ts = d.nextTs ∧ (d.commit id mts).1.nextTs = d.nextTs + 1 := by
  obtain ⟨t, hf, hg, hts⟩ := commit_ok_inv h
  have := (commit_goes mts hf hg).2.2.1
  simp only [commitTsOf, hm, Bool.false_eq_true, if_false] at hts this
  exact ⟨hts, this⟩

/-- No operation decreases `nextTxnTs`, and none switches the timestamp mode. -/
theorem C03_nextTs_monotone (d : Db) (ops : List Op) :
    d.nextTs ≤ (d.run ops).nextTs ∧ (d.run ops).opts.managed = d.opts.managed :=
  ⟨run_nextTs_ge d ops, (run_opts d ops).1⟩

/-- Commit timestamps strictly increase along any operation sequence (normal mode): a commit
    answered `ts1`, then any operations, then a commit answered `ts2` ⟹ `ts1 < ts2`. In
    particular they are distinct. -/
theorem C03_commit_ts_strictly_increasing (d : Db) (id1 m1 ts1 : Nat) (ops : List Op)
    (id2 m2 ts2 : Nat) (hm : d.opts.managed = false)
    (h1 : (d.commit id1 m1).2 = .ok ts1)
    (h2 : (((d.commit id1 m1).1.run ops).commit id2 m2).2 = .ok ts2) : ts1 < ts2 := by
  obtain ⟨e1, e2⟩ := C03_commit_ts_fresh_db d id1 m1 ts1 hm h1
  have hm' : ((d.commit id1 m1).1.run ops).opts.managed = false := by
    rw [(run_opts _ ops).1, commit_opts]; exact hm
  obtain ⟨e3, -⟩ := C03_commit_ts_fresh_db _ id2 m2 ts2 hm' h2
  have := run_nextTs_ge (d.commit id1 m1).1 ops
  omega

/-- Atomic application: after `ok cts`
    * every entry of the transaction occupies its `(key, version)` slot of the memtable
      (version = `cts`, or the entry's own non-zero version);
    * nothing else of the LSM tree changed (immutable memtables and levels are the same);
    * a read at any timestamp below all written versions — in normal mode: any `ts < cts` —
      sees none of them: the abstract read `newestLE` and the concrete `DB.get` are unchanged
      for every key.
    Together with `C06_commit_newest` (reads at `ts ≥ cts` see each written key) no reader
    of the model observes part of a transaction. -/
theorem C03_commit_atomic (d : Db) (id mts cts : Nat) (t : TxnM)
    (hf : d.findTxn id = some t) (hok : (d.commit id mts).2 = .ok cts) :
    (∀ e ∈ t.pending ++ t.dups, ∃ x ∈ (d.commit id mts).1.lsm.mem,
        x.key = e.key ∧ x.ver = (if e.ver = 0 then cts else e.ver)) ∧
    (d.commit id mts).1.lsm.imm = d.lsm.imm ∧ (d.commit id mts).1.lsm.levels = d.lsm.levels ∧
    (∀ ts, (∀ e ∈ t.pending ++ t.dups, ts < (if e.ver = 0 then cts else e.ver)) →
      ∀ k, newestLE (d.commit id mts).1.lsm.allEntries k ts = newestLE d.lsm.allEntries k ts ∧
           (d.commit id mts).1.lsm.get k ts = d.lsm.get k ts) := by
  obtain ⟨t', hf', hg, hcts⟩ := commit_ok_inv hok
  rw [hf] at hf'; injection hf' with hf'; subst hf'
  have hl := (commit_goes mts hf hg).2.1
  rw [← hcts] at hl
  rw [hl]
  refine ⟨?_, rfl, rfl, ?_⟩
  · intro e he
    have hin : finEnt d (keepTogetherOf t) cts e ∈ commitEntries d t cts :=
      mem_commitEntries.mpr ⟨e, he, rfl⟩
    obtain ⟨x, hx, h1, h2⟩ := slot_foldl_memPut (m := d.lsm.mem) (.inl hin)
    exact ⟨x, hx, by rw [h1, finEnt_key], by rw [h2, finEnt_ver]⟩
  · intro ts hts k
    have hnew : ∀ x ∈ commitEntries d t cts, ts < x.ver := by
      intro x hx
      obtain ⟨e, he, rfl⟩ := mem_commitEntries.mp hx
      rw [finEnt_ver]; exact hts e he
    constructor
    · apply newestLE_congr_filter
      rw [allEntries_eq, allEntries_eq, restEntries_mem]
      simp only [List.filter_append]
      congr 1
      rw [filter_and_ver, filter_and_ver, filter_le_foldl_memPut _ _ _ hnew]
    · exact get_mem_congr d.lsm _ k ts (srcGet_foldl_memPut_newer _ _ k ts hnew)

/-- Normal-mode reading of `C03_commit_atomic`: every write has version 0, so all of them are
    stored at `cts`, and every read below `cts` is unchanged. -/
theorem C03_commit_atomic_normal (d : Db) (id mts cts : Nat) (t : TxnM)
    (hf : d.findTxn id = some t) (hok : (d.commit id mts).2 = .ok cts)
    (hv : ∀ e ∈ t.pending ++ t.dups, e.ver = 0) :
    (∀ e ∈ t.pending ++ t.dups, ∃ x ∈ (d.commit id mts).1.lsm.mem, x.key = e.key ∧ x.ver = cts) ∧
    (∀ ts, ts < cts → ∀ k,
      newestLE (d.commit id mts).1.lsm.allEntries k ts = newestLE d.lsm.allEntries k ts ∧
      (d.commit id mts).1.lsm.get k ts = d.lsm.get k ts) := by
  obtain ⟨h1, -, -, h2⟩ := C03_commit_atomic d id mts cts t hf hok
  constructor
  · intro e he
    obtain ⟨x, hx, hk, hver⟩ := h1 e he
    rw [if_pos (hv e he)] at hver
    exact ⟨x, hx, hk, hver⟩
  · intro ts hts k
    exact h2 ts (fun e he => by rw [if_pos (hv e he)]; exact hts) k

/-- A commit rejected by conflict detection leaves no trace in the LSM tree, the timestamp
    counter or the list of committed transactions (it only discards the transaction). -/
theorem C03_conflict_no_trace (d : Db) (id mts : Nat) (h : (d.commit id mts).2 = .conflict) :
    (d.commit id mts).1.lsm = d.lsm ∧ (d.commit id mts).1.nextTs = d.nextTs ∧
    (d.commit id mts).1.committed = d.committed := by
  cases hf : d.findTxn id with
  | none => rw [commit_none mts hf] at h; cases h
  | some t =>
    cases hg : commitGoes d t mts with
    | false =>
      rcases commit_stops mts hf hg with h' | ⟨s, h'⟩ | h'
      · rw [h'] at h; cases h
      · rw [h'] at h; cases h
      · rw [h']; simp
    | true =>
      rw [(commit_goes mts hf hg).1] at h; cases h

/-- Likewise for every error answer (discarded transaction, zero commit timestamp in managed
    mode) and for the empty transaction (`noop`). -/
theorem C03_rejected_no_trace_db (d : Db) (id mts : Nat)
    (h : (∃ s, (d.commit id mts).2 = .err s) ∨ (d.commit id mts).2 = .noop) :
    (d.commit id mts).1.lsm = d.lsm ∧ (d.commit id mts).1.nextTs = d.nextTs ∧
    (d.commit id mts).1.committed = d.committed := by
  cases hf : d.findTxn id with
  | none => rw [commit_none mts hf]; exact ⟨rfl, rfl, rfl⟩
  | some t =>
    cases hg : commitGoes d t mts with
    | false =>
      rcases commit_stops mts hf hg with h' | ⟨s, h'⟩ | h' <;> rw [h'] <;> simp
    | true =>
      rw [(commit_goes mts hf hg).1] at h
      rcases h with ⟨s, h⟩ | h <;> cases h

-- non-vacuity: two commits in a row get timestamps 1 and 2; a conflicting commit is rejected
example :
    let d0 := Db.init { maxBatchCount := 100, maxBatchSize := 100000 } 0
    let d1 := (d0.begin 1 true 0).1
    let d2 := (d1.begin 2 true 0).1
    let e : Ent := { key := [0x61], ver := 0, emeta := 0, umeta := 7, exp := 0, val := [1, 2] }
    let d3 := (d2.modify 1 e).1
    let d4 := (d3.txnGet 2 [0x61]).1
    let d5 := (d4.modify 2 { e with val := [3] }).1
    let r1 := d5.commit 1 0
    let r2 := r1.1.commit 2 0
    (match r1.2 with | .ok ts => ts == 1 | _ => false) = true ∧
    (match r2.2 with | .conflict => true | _ => false) = true ∧
    r2.1.lsm.mem.length = 1 ∧ r2.1.nextTs = 2 := by decide

end Badger
