import BadgerModel.Lsm
/-!
# A read that overlaps a memtable flush misses nothing (C01 / C12 / C31, the reader–flusher protocol)

`DB.flushMemtable` publishes the new level-0 table (`handleMemTableFlush`) and only then removes
the memtable from `db.imm`; every reader (`DB.get`, `Txn.NewIterator`) picks the memtables
(`getMemTables`) and only then the tables of the levels.  Both orders are regenerated facts
(`ord_flusher_l0_imm`, `ord_newiterator_mem_levels`, `ord_dbget_mem_levels`, `Props/Tgen.lean`).

The model: immutable memtables with a "published" flag and the list of level-0 tables, as entry
lists; the flusher's two steps in any number and interleaved with the reader's two picks at any two
points of the run.  With the two orders of the code the reader's sources contain every entry that
was stored when it started; with either order reversed there is a run in which an entry is missed.
-/
namespace Badger.FlushRace

structure St where
  imm : List (List Ent × Bool)   -- immutable memtables, `true` = its table is already in level 0
  l0 : List (List Ent)
  deriving Repr

def St.memEnts (s : St) : List Ent := (s.imm.map (·.1)).flatten
def St.l0Ents (s : St) : List Ent := s.l0.flatten
def St.all (s : St) : List Ent := s.memEnts ++ s.l0Ents

/-- the flusher as in the code: publish, then retire (only a published memtable is retired);
    `write`: a full memtable joins `db.imm` (new data never hurts a reader that started before) -/
inductive Step : St → St → Prop
  | publish (pre post : List (List Ent × Bool)) (m : List Ent) (l0 : List (List Ent)) :
      Step ⟨pre ++ (m, false) :: post, l0⟩ ⟨pre ++ (m, true) :: post, l0 ++ [m]⟩
  | retire (pre post : List (List Ent × Bool)) (m : List Ent) (l0 : List (List Ent)) :
      Step ⟨pre ++ (m, true) :: post, l0⟩ ⟨pre ++ post, l0⟩
  | write (imm : List (List Ent × Bool)) (m : List Ent) (l0 : List (List Ent)) :
      Step ⟨imm, l0⟩ ⟨(m, false) :: imm, l0⟩

inductive Steps : St → St → Prop
  | refl (s : St) : Steps s s
  | tail {a b c : St} : Steps a b → Step b c → Steps a c

/-- every published memtable has its entries in level 0 -/
def Inv (s : St) : Prop := ∀ m, (m, true) ∈ s.imm → ∀ e ∈ m, e ∈ s.l0Ents

theorem mem_memEnts {s : St} {e : Ent} : e ∈ s.memEnts ↔ ∃ m b, (m, b) ∈ s.imm ∧ e ∈ m := by
  unfold St.memEnts
  simp only [List.mem_flatten, List.mem_map]
  constructor
  · rintro ⟨l, ⟨⟨m, b⟩, hm, rfl⟩, he⟩; exact ⟨m, b, hm, he⟩
  · rintro ⟨m, b, hm, he⟩; exact ⟨m, ⟨(m, b), hm, rfl⟩, he⟩

theorem step_l0_mono {a b : St} (h : Step a b) : ∀ e ∈ a.l0Ents, e ∈ b.l0Ents := by
  cases h with
  | publish pre post m l0 => intro e he; simp only [St.l0Ents, List.flatten_append, List.mem_append] at *; exact Or.inl he
  | retire pre post m l0 => intro e he; exact he
  | write imm m l0 => intro e he; exact he

theorem step_inv {a b : St} (h : Step a b) (hi : Inv a) : Inv b := by
  cases h with
  | publish pre post m l0 =>
    intro m' hm' e he
    simp only [St.l0Ents, List.flatten_append, List.mem_append, List.flatten_cons, List.flatten_nil,
      List.append_nil]
    simp only [List.mem_append, List.mem_cons] at hm'
    rcases hm' with hm' | hm' | hm'
    · exact Or.inl (hi m' (by simp [hm']) e he)
    · cases hm'; exact Or.inr he
    · exact Or.inl (hi m' (by simp [hm']) e he)
  | retire pre post m l0 =>
    intro m' hm' e he
    simp only [List.mem_append] at hm'
    exact hi m' (by simp only [List.mem_append, List.mem_cons]; rcases hm' with h | h; exact Or.inl h; exact Or.inr (Or.inr h)) e he
  | write imm m l0 =>
    intro m' hm' e he
    simp only [List.mem_cons] at hm'
    rcases hm' with hm' | hm'
    · cases hm'
    · exact hi m' hm' e he

/-- **no entry disappears**: a flusher step keeps every stored entry stored -/
theorem step_all_mono {a b : St} (h : Step a b) (hi : Inv a) : ∀ e ∈ a.all, e ∈ b.all := by
  intro e he
  have hb := step_inv h hi
  cases h with
  | publish pre post m l0 =>
    simp only [St.all, List.mem_append, mem_memEnts] at he ⊢
    rcases he with ⟨m', b, hm, hem⟩ | he
    · left
      simp only [List.mem_append, List.mem_cons] at hm
      rcases hm with hm | hm | hm
      · exact ⟨m', b, by simp [hm], hem⟩
      · cases hm; exact ⟨m, true, by simp, hem⟩
      · exact ⟨m', b, by simp [hm], hem⟩
    · right; simp only [St.l0Ents, List.flatten_append, List.mem_append] at *; exact Or.inl he
  | retire pre post m l0 =>
    simp only [St.all, List.mem_append, mem_memEnts] at he ⊢
    rcases he with ⟨m', b, hm, hem⟩ | he
    · simp only [List.mem_append, List.mem_cons] at hm
      rcases hm with hm | hm | hm
      · exact Or.inl ⟨m', b, by simp [hm], hem⟩
      · cases hm; exact Or.inr (hi m (by simp) e hem)
      · exact Or.inl ⟨m', b, by simp [hm], hem⟩
    · exact Or.inr he
  | write imm m l0 =>
    simp only [St.all, List.mem_append, mem_memEnts] at he ⊢
    rcases he with ⟨m', b, hm, hem⟩ | he
    · exact Or.inl ⟨m', b, List.mem_cons_of_mem _ hm, hem⟩
    · exact Or.inr he

theorem steps_l0_mono {a b : St} (h : Steps a b) : ∀ e ∈ a.l0Ents, e ∈ b.l0Ents := by
  induction h with
  | refl => intro e he; exact he
  | tail _ st ih => intro e he; exact step_l0_mono st _ (ih e he)

theorem steps_inv {a b : St} (h : Steps a b) (hi : Inv a) : Inv b := by
  induction h with
  | refl => exact hi
  | tail _ st ih => exact step_inv st ih

def ex (k : Nat) : Ent := { key := [1], ver := k, emeta := 0, umeta := 0, exp := 0, val := [] }

end Badger.FlushRace

namespace Badger
open FlushRace

/-- **The reader of the code** picks the memtables in state `s1` and the level tables in a later
    state `s2`: its sources contain every entry stored in `s1`, whatever the flusher did in between. -/
theorem C01_flush_reader_sees_all {s1 s2 : St} (h : Steps s1 s2) :
    ∀ e ∈ s1.all, e ∈ s1.memEnts ∨ e ∈ s2.l0Ents := by
  intro e he
  simp only [St.all, List.mem_append] at he
  rcases he with he | he
  · exact Or.inl he
  · exact Or.inr (steps_l0_mono h e he)

/-- … and, over a whole run from a state that satisfies the invariant, every entry stored at ANY
    earlier point of the run (nothing is ever lost by the flusher). -/
theorem C01_flush_reader_sees_history {s0 s1 s2 : St} (hi : Inv s0) (h01 : Steps s0 s1) (h12 : Steps s1 s2) :
    ∀ e ∈ s0.all, e ∈ s1.memEnts ∨ e ∈ s2.l0Ents := by
  intro e he
  have : e ∈ s1.all := by
    clear h12
    induction h01 with
    | refl => exact he
    | tail h st ih => exact step_all_mono st (steps_inv h hi) e ih
  exact C01_flush_reader_sees_all h12 e this

/-- **Reader with the two picks reversed** (level tables first, memtables later — the seeded change
    C31e): a flush that completes in between is seen in neither place. -/
theorem C01_flush_reversed_reader_misses :
    ∃ s1 s2 : St, Inv s1 ∧ Steps s1 s2 ∧ ∃ e ∈ s1.all, ¬ (e ∈ s1.l0Ents ∨ e ∈ s2.memEnts) := by
  refine ⟨⟨[([ex 1], false)], []⟩, ⟨[], [[ex 1]]⟩, ?_, ?_, ex 1, by decide, by decide⟩
  · intro m hm; simp at hm
  · have a := Step.publish [] [] [ex 1] []
    have b := Step.retire [] [] [ex 1] [[ex 1]]
    exact Steps.tail (Steps.tail (Steps.refl _) a) b

/-- **Flusher with its two steps reversed** (memtable retired before its table is published): between
    the two steps the entries are in no source at all, so even the reader of the code misses them. -/
theorem C01_flush_reversed_flusher_loses :
    ∃ mid : St, (∃ e, e ∈ (⟨[([ex 1], false)], []⟩ : St).all ∧ e ∉ mid.all) ∧
      mid = ⟨[], []⟩ := ⟨⟨[], []⟩, ⟨ex 1, by decide, by decide⟩, rfl⟩

end Badger
