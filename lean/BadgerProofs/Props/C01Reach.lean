import BadgerModel.Mvcc
import BadgerProofs.Props.C12Choice
/-!
# C01 — reachable LSM states are good, and a read equals the newest committed write `≤ ts`
over the HISTORY of commits

`Reach nlev hist dmax nowmax s`: `s` is reached from `Lsm.init nlev` by a finite sequence of
* commits: `memPut` of an entry whose version is `>` every committed version of its own key (no
  order is required across different keys, so managed-mode histories with caller-chosen,
  globally non-monotone commit timestamps are covered; a batch commit at one fresh timestamp is a
  sequence of such steps with pairwise distinct keys, `C01_reach_commit`),
* memtable flushes,
* re-orderings of level 0 (`resort`: what `Open` does when it sorts L0 by file id — nothing below
  depends on the order of the L0 tables),
* compactions the production pickers can choose (`validChoice`, checked at run time against the
  implementation) whose output tables are cut only where the user key changes;
`hist` lists every entry ever committed, `dmax` / `nowmax` are the largest `discardTs` / clock any
compaction used. No hypothesis about the state is left: `C01_reach_good`, `C01_reach_reads`.
-/
namespace Badger

inductive Reach (nlev : Nat) : List Ent → Nat → Nat → Lsm → Prop
  | init : Reach nlev [] 0 0 (Lsm.init nlev)
  | put {hist : List Ent} {dm nm : Nat} {s : Lsm} (r : Reach nlev hist dm nm s) (e : Ent)
      (hpos : 0 < e.ver) (hmax : e.ver ≤ maxU64)
      (hfresh : ∀ x ∈ hist, x.key = e.key → x.ver < e.ver) : Reach nlev (e :: hist) dm nm (s.putEnt e)
  | flush {hist : List Ent} {dm nm : Nat} {s : Lsm} (r : Reach nlev hist dm nm s) (id : Nat) :
      Reach nlev hist dm nm (s.flush id)
  | resort {hist : List Ent} {dm nm : Nat} {s : Lsm} (r : Reach nlev hist dm nm s) {l0 l0' : List Tbl}
      {rest : List (List Tbl)} (hl : s.levels = l0 :: rest) (hp : l0'.Perm l0) :
      Reach nlev hist dm nm { s with levels := l0' :: rest }
  | compact {hist : List Ent} {dm nm : Nat} {s s' : Lsm} (r : Reach nlev hist dm nm s) (cd : CompactDef)
      (d n now' : Nat) (hi : ChoiceIdxOk s cd) (htop : cd.top ≠ []) (hvc : validChoice s cd = true)
      (hdp : cd.dropPrefixes = []) (hs : s.compact cd d n now' = some s')
      (hcut : ∀ new0, splitSizes cd.outSizes (compactOutput s cd d n now').1 = some new0 →
        CutsAtKeyChange (withIds new0 cd.outIds)) :
      Reach nlev hist (max dm d) (max nm now') s'

namespace LL

theorem init_no_entries (n : Nat) (e : Ent) : e ∉ (Lsm.init n).allEntries := by
  intro h
  rw [mem_allEntries] at h
  rcases h with h | ⟨m, hm, _⟩ | ⟨i, tbls, t, hi, ht, _⟩
  · simp [Lsm.init] at h
  · simp [Lsm.init] at hm
  · have : tbls ∈ (Lsm.init n).levels := List.mem_of_getElem? hi
    simp [Lsm.init] at this
    rw [this.2] at ht; simp at ht

theorem init_good (n : Nat) : LsmGood (Lsm.init n) := by
  have hlv : ∀ (i : Nat) (tbls : List Tbl), (Lsm.init n).levels[i]? = some tbls → tbls = [] := by
    intro i tbls hi
    have : tbls ∈ (Lsm.init n).levels := List.mem_of_getElem? hi
    simp [Lsm.init] at this
    exact this.2
  refine ⟨⟨sorted_nil, by simp [Lsm.init], ?_, fun e he => absurd he (init_no_entries n e)⟩,
    fun e he => absurd he (init_no_entries n e), ?_, fun x hx => absurd hx (init_no_entries n x), rfl⟩
  · rintro ⟨i, tbls⟩ hp
    have := hlv i tbls ((mem_zipIdx _ _ _).mp hp)
    subst this
    exact ⟨by simp, fun _ => List.Pairwise.nil⟩
  · rw [layeredX_iff]
    refine ⟨by simp [Lsm.init], ?_, ?_⟩
    · intro x hx
      unfold memEnts at hx; simp [Lsm.init] at hx
    · intro i i' tbls tbls' t t' hi _ _ ht
      rw [hlv i tbls hi] at ht; simp at ht

theorem mem_allEntries_compact' {s s' : Lsm} {cd : CompactDef} {d n now : Nat} (h : LsmInv s)
    (hc : CompactOk s cd) (hs : s.compact cd d n now = some s') {e : Ent} (he : e ∈ s'.allEntries) :
    e ∈ s.allEntries := by
  obtain ⟨new0, hsp, rfl⟩ := compact_some hs
  exact mem_allEntries_compact h hc hsp he

end LL

/-- committed versions are positive `uint64`s -/
def HistOk (hist : List Ent) : Prop := ∀ e ∈ hist, 0 < e.ver ∧ e.ver ≤ maxU64

/-- what holds in every reachable state: it is good, the history is well formed, and everything
    stored was committed. (No statement about the ORDER of the L0 tables: since the F28 repair of the
    picker nothing depends on it.) -/
def ReachInv (hist : List Ent) (s : Lsm) : Prop :=
  LsmGood s ∧ HistOk hist ∧ ∀ e ∈ s.allEntries, e ∈ hist

theorem C01_reach_inv {nlev : Nat} {hist : List Ent} {dm nm : Nat} {s : Lsm} (r : Reach nlev hist dm nm s) :
    ReachInv hist s := by
  induction r with
  | init => exact ⟨LL.init_good nlev, fun e he => by simp at he, fun e he => absurd he (LL.init_no_entries nlev e)⟩
  | put _ e hpos hmax hfresh ih =>
    obtain ⟨⟨h, hv, hl, hu, himm⟩, hho, hsub⟩ := ih
    refine ⟨⟨LL.put_inv h hpos, LL.put_verBound hv hmax,
      LL.put_layeredX hl (fun x hx hk => Nat.le_of_lt (hfresh x (hsub x hx) hk)),
      LL.put_keyVerUnique hu (fun x hx hk => hfresh x (hsub x hx) hk), himm⟩, ?_, ?_⟩
    · intro x hx
      rcases List.mem_cons.mp hx with rfl | hx'
      · exact ⟨hpos, hmax⟩
      · exact hho x hx'
    · intro x hx
      rcases LL.mem_allEntries_put hx with rfl | hx'
      · simp
      · exact List.mem_cons_of_mem _ (hsub x hx')
  | @flush hist dm nm s _ id ih =>
    obtain ⟨⟨h, hv, hl, hu, himm⟩, hho, hsub⟩ := ih
    refine ⟨⟨C14_flush_inv h id, fun x hx => hv x ((LL.mem_allEntries_flush s id x).mp hx),
      C14_flush_layeredX hl himm id, C14_flush_keyVerUnique hu id, ?_⟩, hho,
      fun x hx => hsub x ((LL.mem_allEntries_flush s id x).mp hx)⟩
    rcases LL.flush_eq_self_or s id with he | ⟨_, _, _, _, he⟩ <;> rw [he] <;> exact himm
  | resort _ hl hp ih =>
    obtain ⟨⟨h, hv, hlx, hu, himm⟩, hho, hsub⟩ := ih
    exact ⟨⟨LL.resort_inv h hl hp, fun x hx => hv x ((LL.mem_allEntries_resort hl hp x).mp hx),
      LL.resort_layeredX hlx hl hp, LL.resort_keyVerUnique hu hl hp, himm⟩, hho,
      fun x hx => hsub x ((LL.mem_allEntries_resort hl hp x).mp hx)⟩
  | compact _ cd d n now' hi htop hvc hdp hs hcut ih =>
    obtain ⟨⟨h, hv, hl, hu, himm⟩, hho, hsub⟩ := ih
    have hc := C12_validChoice_compactOk h hv hi htop hvc
    refine ⟨⟨C14_compact_inv h hv hc hs hcut, C14_compact_verBound h hv hc hs,
      C14_compact_layeredX h hl hc (fun hk => C12_validChoice_topsOldest h hi.1 htop hvc hk) hs,
      C14_compact_keyVerUnique h hu hc hs, ?_⟩, hho,
      fun x hx => hsub x (LL.mem_allEntries_compact' h hc hs hx)⟩
    obtain ⟨_, _, rfl⟩ := LL.compact_some hs; exact himm

/-- (b) every reachable state is good: the structural invariant, `uint64` versions, recency across
    sources, uniqueness of internal keys — the hypotheses of C01 / C12 / C14 — hold with no
    assumption about the state. -/
theorem C01_reach_good {nlev : Nat} {hist : List Ent} {dm nm : Nat} {s : Lsm} (r : Reach nlev hist dm nm s) :
    LsmGood s := (C01_reach_inv r).1

/-- in particular `DB.get` computes the MVCC specification on every reachable state -/
theorem C01_reach_get_spec {nlev : Nat} {hist : List Ent} {dm nm : Nat} {s : Lsm} (r : Reach nlev hist dm nm s)
    (k : Bytes) (ts : Nat) : s.get k ts = newestLE s.allEntries k ts :=
  C01_get_spec (C01_reach_good r).1 k ts

/-- (b) end to end: in a reachable state a read at `ts ≥` every `discardTs` used so far (at a clock
    `≥` every compaction's clock) returns the newest committed write `≤ ts` of the key over the whole
    HISTORY of commits — whatever has been flushed, compacted or dropped since. -/
theorem C01_reach_reads {nlev : Nat} {hist : List Ent} {dm nm : Nat} {s : Lsm} (r : Reach nlev hist dm nm s)
    {ts now : Nat} (hts : dm ≤ ts) (hnow : nm ≤ now) (k : Bytes) :
    visible now (s.get k ts) = visible now (newestLE hist k ts) := by
  induction r with
  | init =>
    rw [C01_get_spec (LL.init_good nlev).1]
    have : newestLE (Lsm.init nlev).allEntries k ts = none :=
      LL.newestLE_eq_none.mpr (fun x hx => absurd hx (LL.init_no_entries nlev x))
    rw [this]; rfl
  | @put hist dm nm s r e hpos hmax hfresh ih =>
    obtain ⟨⟨h, _⟩, _, hsub⟩ := C01_reach_inv r
    rw [LL.put_get h hpos, LL.newestLE_cons, LL.newestLE_cons, ← C01_get_spec h]
    by_cases hc : e.key = k ∧ e.ver ≤ ts
    · have hcand : LL.cand k ts e = some e := by unfold LL.cand; rw [if_pos hc]
      rw [hcand]
      have h1 : LL.pick (some e) (s.get k ts) = some e := by
        cases hg : s.get k ts with
        | none => rfl
        | some x =>
          obtain ⟨m1, m2, _, _⟩ := C01_get_some h hg
          have := hfresh x (hsub x m1) (m2.trans hc.1.symm)
          simp only [LL.pick]; rw [if_neg (by omega)]
      have h2 : LL.pick (some e) (newestLE hist k ts) = some e := by
        cases hg : newestLE hist k ts with
        | none => rfl
        | some x =>
          obtain ⟨m1, m2, _, _⟩ := LL.newestLE_some hg
          have := hfresh x m1 (m2.trans hc.1.symm)
          simp only [LL.pick]; rw [if_neg (by omega)]
      rw [h1, h2]
    · have hcand : LL.cand k ts e = none := by unfold LL.cand; rw [if_neg hc]
      rw [hcand]
      exact ih hts hnow
  | @flush hist dm nm s r id ih =>
    obtain ⟨⟨h, _, _, _, himm⟩, _, _⟩ := C01_reach_inv r
    rw [C12_flush_reads_noimm h himm]
    exact ih hts hnow
  | @resort hist dm nm s r l0 l0' rest hl hp ih =>
    obtain ⟨⟨h, _, _, hu, _⟩, _, _⟩ := C01_reach_inv r
    have hf : TblsFun l0 := by
      intro a ha b hb x hx y hy hk hv
      exact hu x (LL.mem_allEntries.mpr (.inr (.inr ⟨0, l0, a, by rw [hl]; rfl, ha, hx⟩)))
        y (LL.mem_allEntries.mpr (.inr (.inr ⟨0, l0, b, by rw [hl]; rfl, hb, hy⟩))) hk hv
    rw [LL.resort_get h hl hp hf]
    exact ih hts hnow
  | @compact hist dm nm s s' r cd d n now' hi htop hvc hdp hs hcut ih =>
    obtain ⟨⟨h, hv, hl, hu, _⟩, _, _⟩ := C01_reach_inv r
    rw [C12_compact_reads_valid h hv hl hu hi htop hvc hdp hs (by omega) (by omega)]
    exact ih (by omega) (by omega)

/-- the committed history is itself well formed: an internal key determines the entry -/
theorem C01_reach_hist_unique {nlev : Nat} {hist : List Ent} {dm nm : Nat} {s : Lsm}
    (r : Reach nlev hist dm nm s) : LL.KVFun hist := by
  induction r with
  | init => intro x hx; simp at hx
  | put _ e _ _ hfresh ih =>
    intro x hx y hy hk hv
    rcases List.mem_cons.mp hx with rfl | hx' <;> rcases List.mem_cons.mp hy with rfl | hy'
    · rfl
    · have := hfresh y hy' hk.symm; omega
    · have := hfresh x hx' hk; omega
    · exact ih x hx' y hy' hk hv
  | flush _ _ ih => exact ih
  | resort _ _ _ ih => exact ih
  | compact _ _ _ _ _ _ _ _ _ _ _ ih => exact ih

theorem C01_reach_commit_aux {nlev : Nat} {hist : List Ent} {dm nm : Nat} {s : Lsm}
    (r : Reach nlev hist dm nm s) (es : List Ent) (v : Nat) (hv : ∀ e ∈ es, e.ver = v) (hpos : 0 < v)
    (hmax : v ≤ maxU64) (hge : ∀ x ∈ hist, x.ver ≤ v)
    (hfresh : ∀ x ∈ hist, ∀ e ∈ es, x.key = e.key → x.ver < v)
    (hkeys : es.Pairwise (fun a b => a.key ≠ b.key)) :
    Reach nlev (es.reverse ++ hist) dm nm (es.foldl (fun s e => s.putEnt e) s) := by
  induction es generalizing hist s with
  | nil => simpa using r
  | cons e es ih =>
    obtain ⟨hk1, hk2⟩ := List.pairwise_cons.mp hkeys
    have hev : e.ver = v := hv e (by simp)
    have r1 : Reach nlev (e :: hist) dm nm (s.putEnt e) :=
      Reach.put r e (by omega) (by omega)
        (fun x hx hk => by have := hfresh x hx e (by simp) hk; omega)
    simp only [List.foldl_cons, List.reverse_cons, List.append_assoc, List.singleton_append]
    apply ih r1 (fun e' he' => hv e' (List.mem_cons_of_mem _ he'))
    · intro x hx
      rcases List.mem_cons.mp hx with rfl | hx
      · omega
      · exact hge x hx
    · intro x hx e' he' hk
      rcases List.mem_cons.mp hx with rfl | hx
      · exact absurd hk (hk1 e' he')
      · exact hfresh x hx e' (List.mem_cons_of_mem _ he') hk
    · exact hk2

/-- a batch commit at one fresh timestamp `v` larger than every version so far, with pairwise
    distinct keys, is a sequence of `put`s -/
theorem C01_reach_commit {nlev : Nat} {hist : List Ent} {dm nm : Nat} {s : Lsm} (r : Reach nlev hist dm nm s)
    (es : List Ent) (v : Nat) (hv : ∀ e ∈ es, e.ver = v) (hpos : 0 < v) (hmax : v ≤ maxU64)
    (hnew : ∀ x ∈ hist, x.ver < v) (hkeys : es.Pairwise (fun a b => a.key ≠ b.key)) :
    Reach nlev (es.reverse ++ hist) dm nm (es.foldl (fun s e => s.putEnt e) s) :=
  C01_reach_commit_aux r es v hv hpos hmax (fun x hx => Nat.le_of_lt (hnew x hx))
    (fun x hx _ _ _ => hnew x hx) hkeys

/-- the memtable after the batch is what `Db.commit` computes (`entries.foldl memPut`) -/
theorem C01_foldl_putEnt (s : Lsm) (es : List Ent) :
    es.foldl (fun s e => s.putEnt e) s = { s with mem := es.foldl (fun m e => memPut e m) s.mem } := by
  induction es generalizing s with
  | nil => rfl
  | cons e es ih => simp only [List.foldl_cons]; rw [ih]; rfl

/-! ## the transaction layer on top (bridge to `Db.txnGet`) -/

/-- what `Txn.Get` reports for a snapshot result -/
def getResOf : Option Ent → GetRes
  | some e => .found e e.ver
  | none => .notfound

/-- `Txn.Get` of a key the transaction has not written itself, in a database whose LSM part is
    reachable: it reports the newest committed write `≤ readTs` over the history of commits (absent if
    that is a delete marker or expired), provided the transaction's read timestamp is not below a
    `discardTs` some compaction used and the clock did not go back. (In normal mode
    `discardTs = readMark.doneUntil ≤` the read timestamp of every open transaction — the watermark
    property C34 — and commit timestamps are fresh and increasing (C27); composing those `Db`-level
    invariants with this lemma along `Db.run` is not done here.) -/
theorem C01_reach_txnGet {nlev : Nat} {hist : List Ent} {dm nm : Nat} {d : Db} {id : Nat} {t : TxnM} {k : Bytes}
    (r : Reach nlev hist dm nm d.lsm) (hf : d.findTxn id = some t) (hk : k.isEmpty = false)
    (hdisc : t.discarded = false) (hpend : (if t.update then t.pending.find? (·.key == k) else none) = none)
    (hts : dm ≤ t.readTs) (hnow : nm ≤ d.now) :
    (d.txnGet id k).2 = getResOf (visible d.now (newestLE hist k t.readTs)) := by
  rw [← C01_reach_reads r hts hnow k]
  unfold Db.txnGet
  rw [hf]
  simp only [hk, hdisc, Bool.false_eq_true, if_false, hpend]
  have key : ∀ d' : Db, d'.lsm = d.lsm → d'.now = d.now →
      (match d'.lsm.get k t.readTs with
        | none => (d', GetRes.notfound)
        | some e => if deletedOrExpired e.emeta e.exp d'.now then (d', GetRes.notfound) else (d', GetRes.found e e.ver)).2 =
      getResOf (visible d.now (d.lsm.get k t.readTs)) := by
    intro d' hl hn
    rw [hl, hn]
    cases hg : d.lsm.get k t.readTs with
    | none => rfl
    | some e =>
      simp only [visible]
      split <;> rfl
  cases hu : t.update
  · simp only [Bool.false_eq_true, if_false]
    exact key d rfl rfl
  · simp only [if_true]
    exact key _ rfl rfl

/-! non-vacuity: `init 2` → commit `1@1` → flush → the pickers' L0 → L1 compaction -/
def C01_reachE : Ent := ⟨[1], 1, 0, 0, 0, [7]⟩
def C01_reachS2 : Lsm := ((Lsm.init 2).putEnt C01_reachE).flush 5
def C01_reachCd : CompactDef :=
  { thisLevel := 0, nextLevel := 1, top := [0], bot := [], outSizes := [1], dropPrefixes := [] }
def C01_reachS3 : Lsm := { mem := [], imm := [], levels := [[], [{ ents := [C01_reachE] }]] }

example : Reach 2 [C01_reachE] 0 0 C01_reachS3 ∧
    visible 0 (C01_reachS3.get [1] 4) = visible 0 (newestLE [C01_reachE] [1] 4) := by
  have r1 : Reach 2 [C01_reachE] 0 0 ((Lsm.init 2).putEnt C01_reachE) :=
    Reach.put Reach.init C01_reachE (by decide) (by decide) (by simp)
  have r2 : Reach 2 [C01_reachE] 0 0 C01_reachS2 := Reach.flush r1 5
  have hsplit : splitSizes C01_reachCd.outSizes (compactOutput C01_reachS2 C01_reachCd 0 1 0).1 =
      some [{ ents := [C01_reachE] }] := by
    simp only [compactOutput, mergeAll_eq_F]; decide
  have r3 : Reach 2 [C01_reachE] (max 0 0) (max 0 0) C01_reachS3 :=
    Reach.compact r2 C01_reachCd 0 1 0 (by decide) (by decide) (by decide) rfl (by lsm_decide)
      (by intro new0 h; rw [hsplit] at h; cases h; simp [withIds, C01_reachCd, CutsAtKeyChange])
  exact ⟨r3, C01_reach_reads r3 (by decide) (by decide) [1]⟩

/-! non-vacuity of `resort`: two flushed tables, L0 re-ordered as a reopen may do -/
def C01_reachE2 : Ent := ⟨[2], 2, 0, 0, 0, [8]⟩

example : ∃ s, Reach 2 [C01_reachE2, C01_reachE] 0 0 s ∧
    s.levels = [[{ ents := [C01_reachE2], id := 6 }, { ents := [C01_reachE], id := 5 }], []] ∧
    visible 0 (s.get [1] 4) = visible 0 (newestLE [C01_reachE2, C01_reachE] [1] 4) := by
  have r1 : Reach 2 [C01_reachE] 0 0 ((Lsm.init 2).putEnt C01_reachE) :=
    Reach.put Reach.init C01_reachE (by decide) (by decide) (by simp)
  have r2 := Reach.flush r1 5
  have r3 := Reach.put r2 C01_reachE2 (by decide) (by decide) (by decide)
  have r4 := Reach.flush r3 6
  have r5 := Reach.resort r4 (l0 := [{ ents := [C01_reachE], id := 5 }, { ents := [C01_reachE2], id := 6 }])
    (l0' := [{ ents := [C01_reachE2], id := 6 }, { ents := [C01_reachE], id := 5 }]) (rest := [[]]) (by decide)
    (List.Perm.swap _ _ _)
  exact ⟨_, r5, rfl, C01_reach_reads r5 (by decide) (by decide) [1]⟩

end Badger
