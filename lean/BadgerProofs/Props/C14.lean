import BadgerProofs.Lemmas.LsmReads
/-!
# C14 — the structural invariant of the LSM tree is preserved

`LsmInv` (`Lemmas/LsmInv.lean`): memtables sorted, every table non-empty and sorted, and on every
level `≥ 1` the tables are ordered and disjoint by USER key (all versions of a user key on a level
live in one table), versions positive.
-/
namespace Badger

/-- `LevelOk` on a level `≥ 1` in the textbook form: every table non-empty and sorted, and for
    consecutive tables the last user key of the first is strictly below the first user key of the
    second — i.e. all versions of a user key on the level live in one table. -/
theorem C14_levelOk_iff_consecutive {i : Nat} {tbls : List Tbl} (hi : 1 ≤ i) :
    LevelOk i tbls ↔ (∀ t ∈ tbls, TblOk t) ∧ KeyDisjointC tbls := by
  unfold LevelOk
  constructor
  · rintro ⟨h1, h2⟩; exact ⟨h1, (LL.keyDisjoint_iff_consecutive h1).mp (h2 hi)⟩
  · rintro ⟨h1, h2⟩; exact ⟨h1, fun _ => (LL.keyDisjoint_iff_consecutive h1).mpr h2⟩

/-- C14 proper: under the invariant, on a level `≥ 1` two stored versions of the same user key are
    in the same table. -/
theorem C14_one_table_per_key {s : Lsm} (h : LsmInv s) {i : Nat} {tbls : List Tbl} (hi : 1 ≤ i)
    (hl : s.levels[i]? = some tbls) {j j' : Nat} {a b : Tbl} (hj : tbls[j]? = some a) (hj' : tbls[j']? = some b)
    {x y : Ent} (hx : x ∈ a.ents) (hy : y ∈ b.ents) (hk : x.key = y.key) : j = j' := by
  apply Classical.byContradiction
  intro hne
  rcases LL.level_sep_of_ne ((h.level hl).2 hi) hj hj' hne with hs | hs
  · exact LL.klt_ne (hs x hx y hy) hk
  · exact LL.klt_ne (hs y hy x hx) hk.symm

/-- flushing the memtable (it becomes the newest L0 table) preserves the invariant -/
theorem C14_flush_inv {s : Lsm} (h : LsmInv s) (id : Nat) : LsmInv (s.flush id) := by
  rcases LL.flush_eq_self_or s id with he | ⟨l0, rest, hl, hne, he⟩
  · rw [he]; exact h
  · have hpos : PosVer (s.flush id) := fun e he' => h.2.2.2 e ((LL.mem_allEntries_flush s id e).mp he')
    rw [he] at hpos ⊢
    refine ⟨LL.sorted_nil, h.2.1, ?_, hpos⟩
    rintro ⟨i, tbls⟩ hp
    have hp' := (LL.mem_zipIdx _ _ _).mp hp
    cases i with
    | zero =>
      simp at hp'
      subst hp'
      have h0 := h.level (i := 0) (tbls := l0) (by rw [hl]; rfl)
      refine ⟨?_, by simp⟩
      intro t ht
      rcases List.mem_append.mp ht with ht | ht
      · exact h0.1 t ht
      · simp at ht; subst ht; exact ⟨hne, h.1⟩
    | succ j =>
      simp at hp'
      exact h.level (i := j + 1) (by rw [hl]; simpa using hp')

/-- (C) a well-formed compaction preserves the invariant — in particular C14 proper: on every
    level `≥ 1` all versions of a user key live in one table. Needs that the implementation cut its
    output tables only where the user key changes (`CutsAtKeyChange`, which `addKeys` guarantees and
    the harness checks on every real compaction) and that versions fit a `uint64` (`VerBound`: the
    overlap test widens the range to `key@MaxUint64 … key@0`). -/
theorem C14_compact_inv {s s' : Lsm} {cd : CompactDef} {d n now : Nat} (h : LsmInv s) (hv : VerBound s)
    (hc : CompactOk s cd) (hs : s.compact cd d n now = some s')
    (hcut : ∀ new0, splitSizes cd.outSizes (compactOutput s cd d n now).1 = some new0 →
      CutsAtKeyChange (withIds new0 cd.outIds)) : LsmInv s' := by
  obtain ⟨new0, hsp, rfl⟩ := LL.compact_some hs
  refine ⟨h.1, h.2.1, ?_, fun e he => h.2.2.2 e (LL.mem_allEntries_compact h hc hsp he)⟩
  rintro ⟨i, tbls⟩ hp
  have hi := (LL.mem_zipIdx _ _ _).mp hp
  have hN := LL.cuts_pairwise (fun t ht => ((LL.new_tables h hc hsp).1 t ht).1) (LL.new_tables h hc hsp).2
    (hcut new0 hsp)
  exact LL.compact_levels h hv hc hsp LL.sepRel_keyLt (fun _ _ hab => hab) hN hi

/-- versions stay within `uint64` -/
theorem C14_compact_verBound {s s' : Lsm} {cd : CompactDef} {d n now : Nat} (h : LsmInv s) (hv : VerBound s)
    (hc : CompactOk s cd) (hs : s.compact cd d n now = some s') : VerBound s' :=
  LL.compact_verBound h hv hc hs

/-- without the cut condition the levels are still sorted by internal key (enough for `get`) -/
theorem C14_compact_inv_weak {s s' : Lsm} {cd : CompactDef} {d n now : Nat} (h : LsmInv s) (hv : VerBound s)
    (hc : CompactOk s cd) (hs : s.compact cd d n now = some s') : LsmInvW s' :=
  LL.compact_invW h hv hc hs

/-- (C) the full recency invariant `Layered` (L0 in age order) survives every well-formed compaction
    other than L0 → L0 (data only moves down; L0 → Lbase takes the oldest L0 tables). For L0 → L0
    see `C14_L0L0_breaks_layered` and `C14_compact_layeredX`. -/
theorem C14_compact_layered {s s' : Lsm} {cd : CompactDef} {d n now : Nat} (h : LsmInv s) (hl : Layered s)
    (hc : CompactOk s cd) (hnot : ¬ IsL0L0 s cd) (hs : s.compact cd d n now = some s') : Layered s' :=
  LL.compact_layered h hl hc hnot hs

/-- `Layered` = `LayeredX` (recency across sources, L0 taken as one source) + L0 in age order -/
theorem C14_layered_iff_X (s : Lsm) : Layered s ↔ LayeredX s ∧ LL.L0Aged s := LL.layered_iff_X s

/-- (C) what EVERY well-formed compaction preserves, L0 → L0 included: recency across sources with
    L0 taken as one source. (L0 → Lbase: under `TopsOldest`, automatic when L0 is in age order.)
    Together with `KeyVerUnique` this is the invariant that suffices for the reads (C12). -/
theorem C14_compact_layeredX {s s' : Lsm} {cd : CompactDef} {d n now : Nat} (h : LsmInv s) (hl : LayeredX s)
    (hc : CompactOk s cd) (hto : IsL0Lbase s cd → TopsOldest s cd)
    (hs : s.compact cd d n now = some s') : LayeredX s' :=
  LL.compact_layeredX h hl hc hto hs

theorem C14_flush_layeredX {s : Lsm} (hl : LayeredX s) (himm : s.imm = []) (id : Nat) : LayeredX (s.flush id) :=
  LL.flush_layeredX hl himm id

theorem C14_put_layeredX {s : Lsm} (hl : LayeredX s) {e : Ent}
    (hnew : ∀ x ∈ s.allEntries, x.key = e.key → x.ver ≤ e.ver) : LayeredX (s.putEnt e) :=
  LL.put_layeredX hl hnew

/-- uniqueness of internal keys is preserved by every step (entries are only moved or dropped;
    a commit brings a fresh, larger version) -/
theorem C14_compact_keyVerUnique {s s' : Lsm} {cd : CompactDef} {d n now : Nat} (h : LsmInv s)
    (hu : KeyVerUnique s) (hc : CompactOk s cd) (hs : s.compact cd d n now = some s') : KeyVerUnique s' :=
  LL.compact_keyVerUnique h hu hc hs

theorem C14_flush_keyVerUnique {s : Lsm} (hu : KeyVerUnique s) (id : Nat) : KeyVerUnique (s.flush id) :=
  LL.flush_keyVerUnique hu id

theorem C14_put_keyVerUnique {s : Lsm} (hu : KeyVerUnique s) {e : Ent}
    (hnew : ∀ x ∈ s.allEntries, x.key = e.key → x.ver < e.ver) : KeyVerUnique (s.putEnt e) :=
  LL.put_keyVerUnique hu hnew

def C14_l0l0State : Lsm :=
  { mem := [], imm := [],
    levels := [[{ ents := [⟨[1], 1, 0, 0, 0, [1]⟩] }, { ents := [⟨[1], 2, 0, 0, 0, [2]⟩] },
                { ents := [⟨[1], 3, 0, 0, 0, [3]⟩] }], []] }
def C14_l0l0Cd : CompactDef :=
  { thisLevel := 0, nextLevel := 0, top := [0, 2], bot := [], outSizes := [2], dropPrefixes := [] }
def C14_l0l0State' : Lsm :=
  { mem := [], imm := [],
    levels := [[{ ents := [⟨[1], 3, 0, 0, 0, [3]⟩, ⟨[1], 1, 0, 0, 0, [1]⟩] }, { ents := [⟨[1], 2, 0, 0, 0, [2]⟩] }], []] }

/-- full `Layered` (L0 in age order) is NOT preserved by L0 → L0: merging the oldest and the newest
    table leaves a table that is both older and newer than the one left out, so no order of L0 is
    an age order; `LayeredX` and `KeyVerUnique` survive. -/
theorem C14_L0L0_breaks_layered :
    LsmInv C14_l0l0State ∧ VerBound C14_l0l0State ∧ Layered C14_l0l0State ∧ KeyVerUnique C14_l0l0State ∧
      CompactOk C14_l0l0State C14_l0l0Cd ∧ IsL0L0 C14_l0l0State C14_l0l0Cd ∧
      C14_l0l0State.compact C14_l0l0Cd 0 2 0 = some C14_l0l0State' ∧
      ¬ Layered C14_l0l0State' ∧ LayeredX C14_l0l0State' ∧ KeyVerUnique C14_l0l0State' := by
  refine ⟨by decide, by decide, by decide, by decide, by decide, by decide, by lsm_decide, by decide, by decide,
    by decide⟩

/-- flushing keeps `Layered` (no immutable memtable: the only way the model's `flush` is used) -/
theorem C14_flush_layered {s : Lsm} (hl : Layered s) (himm : s.imm = []) (id : Nat) : Layered (s.flush id) :=
  LL.flush_layered hl himm id

/-- the write path (`memPut` of a committed entry with a positive version) preserves the invariant -/
theorem C14_put_inv {s : Lsm} (h : LsmInv s) {e : Ent} (he : 0 < e.ver) : LsmInv (s.putEnt e) :=
  LL.put_inv h he

/-- … and recency, when the new version is at least as new as every stored version of its key
    (commit timestamps increase) -/
theorem C14_put_layered {s : Lsm} (hl : Layered s) {e : Ent}
    (hnew : ∀ x ∈ s.allEntries, x.key = e.key → x.ver ≤ e.ver) : Layered (s.putEnt e) :=
  LL.put_layered hl hnew

/-- `CutsAtKeyChange` is needed: cutting the output in the middle of a user key puts two versions of
    that key into different tables of level 1. -/
def C14_cutState : Lsm :=
  { mem := [], imm := [], levels := [[{ ents := [⟨[1], 2, 0, 0, 0, []⟩, ⟨[1], 1, 0, 0, 0, []⟩] }], []] }
def C14_cutCd : CompactDef :=
  { thisLevel := 0, nextLevel := 1, top := [0], bot := [], outSizes := [1, 1], dropPrefixes := [] }
def C14_cutState' : Lsm :=
  { mem := [], imm := [], levels := [[], [{ ents := [⟨[1], 2, 0, 0, 0, []⟩] }, { ents := [⟨[1], 1, 0, 0, 0, []⟩] }]] }

theorem C14_cut_inside_key_breaks_inv :
    LsmInv C14_cutState ∧ VerBound C14_cutState ∧ CompactOk C14_cutState C14_cutCd ∧
      C14_cutState.compact C14_cutCd 0 2 0 = some C14_cutState' ∧ ¬ LsmInv C14_cutState' := by
  refine ⟨by decide, by decide, by decide, by lsm_decide, by decide⟩

/-! non-vacuity: an L0→L2 compaction with a non-empty bottom run -/
def C14_exState : Lsm :=
  { mem := [], imm := [],
    levels := [[{ ents := [⟨[1], 3, 0, 0, 0, []⟩, ⟨[2], 2, 0, 0, 0, []⟩] }, { ents := [⟨[1], 4, 0, 0, 0, []⟩] }], [],
               [{ ents := [⟨[1], 1, 0, 0, 0, []⟩] }, { ents := [⟨[3], 1, 0, 0, 0, []⟩] }]] }
def C14_exCd : CompactDef :=
  { thisLevel := 0, nextLevel := 2, top := [0], bot := [0], outSizes := [2, 1], dropPrefixes := [] }

example : LsmInv C14_exState ∧ VerBound C14_exState ∧ CompactOk C14_exState C14_exCd := by decide
def C14_exState' : Lsm :=
  { mem := [], imm := [],
    levels := [[{ ents := [⟨[1], 4, 0, 0, 0, []⟩] }], [],
               [{ ents := [⟨[1], 3, 0, 0, 0, []⟩, ⟨[1], 1, 0, 0, 0, []⟩] }, { ents := [⟨[2], 2, 0, 0, 0, []⟩] },
                { ents := [⟨[3], 1, 0, 0, 0, []⟩] }]] }
example : C14_exState.compact C14_exCd 0 2 0 = some C14_exState' ∧ LsmInv C14_exState' := by
  refine ⟨by lsm_decide, by decide⟩

end Badger
