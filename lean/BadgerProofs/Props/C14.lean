import BadgerProofs.Lemmas.LsmInv
/-!
# C14 — the structural invariant of the LSM tree is preserved

`LsmInv` (`Lemmas/LsmInv.lean`): memtables sorted, every table non-empty and sorted, and on every
level `≥ 1` the tables are ordered and disjoint by USER key (all versions of a user key on a level
live in one table), versions positive.
-/
namespace Badger

/-- flushing the memtable (it becomes the newest L0 table) preserves the invariant -/
theorem C14_flush_inv {s : Lsm} (h : LsmInv s) (id : Nat) : LsmInv (s.flush id) := by
  rcases LL.flush_eq_self_or s id with he | ⟨l0, rest, hl, hne, he⟩
  · rw [he]; exact h
  · have hpos : PosVer (s.flush id) := fun e he' => h.2.2.2 e ((LL.mem_allEntries_flush s id e).mp he')
    rw [he] at hpos ⊢
    refine ⟨LL.sorted_nil, h.2.1, ?_, hpos⟩
    rintro ⟨i, tbls⟩ hp
    have hp' := (LL.mem_zipIdx _ _ _).mp hp
    cases i with
    | zero =>
      simp at hp'
      subst hp'
      have h0 := h.level (i := 0) (tbls := l0) (by rw [hl]; rfl)
      refine ⟨?_, by simp⟩
      intro t ht
      rcases List.mem_append.mp ht with ht | ht
      · exact h0.1 t ht
      · simp at ht; subst ht; exact ⟨hne, h.1⟩
    | succ j =>
      simp at hp'
      exact h.level (i := j + 1) (by rw [hl]; simpa using hp')

end Badger
