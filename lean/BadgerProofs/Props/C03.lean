import BadgerModel.Oracle
import BadgerProofs.Lemmas.Oracle
import BadgerProofs.Props.C02
/-!
# C03 — commits are uniquely timestamped and visible to later readers: **oracle-level part**

PARTIAL for C03 as a whole: proved here are the statements that only involve the oracle
(`newCommitTs`, `readTs`, `doneCommit`): timestamps are unique and increase in allocation order, a
transaction started after `doneCommit(ts)` returned reads at `≥ ts` and (C34) only after every
commit `≤` its read timestamp was reported applied, a rejected commit leaves no trace in the oracle.

Not in this file (write pipeline; to be added by the coordinator on top of `Label.doneCommit` /
`Sys.allocatedNotDone`, which are the hooks): `C03_channel_order` (writeChLock keeps write-channel
order = commit-ts order), `C03_apply_order`, `C03_atomic` (no partial visibility),
`C03_rejected_no_trace` for `.toobig/.blocked/.closed`. The link is the hypothesis under which
`doneCommit ts` is enabled: the pipeline model must enable it only once the request carrying `ts`
has been applied to the memtable.
-/
namespace Badger

/-- **Commit timestamps are pairwise distinct and strictly increasing in allocation order**: the
    ghost history (one entry per successful `newCommitTs`, in the order the calls took `o.Lock`)
    is strictly sorted by timestamp; every timestamp is above `MaxVersion()` at `Open` and below
    `nextTxnTs`. -/
theorem C03_ts_unique_increasing {d : Bool} {n : Nat} {s : Sys} (h : OReach false d n s) :
    s.hist.Pairwise (fun a b => a.ts < b.ts) ∧ (∀ e ∈ s.hist, n < e.ts ∧ e.ts < s.o.nextTxnTs) :=
  ⟨h.inv.histSorted, h.inv.histLt⟩

/-- … in particular the timestamp a successful `Commit` returns is `nextTxnTs`, larger than every
    timestamp handed out before. -/
theorem C03_commit_ts_fresh {d : Bool} {n : Nat} {s : Sys} (h : OReach false d n s) (tid : Nat) (ts : Nat)
    (x : TxnSt) (hx : s.txns[tid]? = some x) (hph : x.phase = .active)
    (hok : s.commitResult tid = some (.ok ts)) : ∀ e ∈ s.hist, e.ts < ts := by
  have hI := h.inv
  have hxm := List.mem_of_getElem? hx
  simp only [Sys.commitResult, hx, Option.some.injEq] at hok
  cases hc : s.o.hasConflict x.t with
  | true =>
    have e : s.o.newCommitTs x.t = (s.o, x.t, .conflict) := by simp [Oracle.newCommitTs, hc]
    rw [e] at hok; cases hok
  | false =>
    rw [hI.newCommitTs_eq x hxm (by rw [hph]; decide) hc] at hok
    simp only [CommitResult.ok.injEq] at hok
    intro e he; rw [← hok]; exact (hI.histLt e he).2

/-- **Visible after acknowledgement**: in every reachable state, if `doneCommit(ts)` has been called
    (which `Commit` does before returning nil / before running the `CommitWith` callback), the read
    timestamp handed to a transaction that starts now is `≥ ts`; and (`C34_readTs_sees_applied`)
    that transaction only leaves `readTs()` once every commit `≤` its read timestamp — `ts` included
    — has been reported applied. Both facts persist: later states are reachable states. -/
theorem C03_visible_after_ack {d : Bool} {n : Nat} {s : Sys} (h : OReach false d n s) (ts : Nat)
    (hack : ts ∈ s.doneCommits) : ts ≤ s.o.readTsBegin.2 := by
  have hI := h.inv
  obtain ⟨e, he, rfl⟩ := List.mem_map.mp (hI.doneSub ts hack)
  have := (hI.histLt e he).2
  simp only [Oracle.readTsBegin]
  omega

/-- The read timestamp of every transaction is below `nextTxnTs`, and a transaction that starts
    later never gets a smaller read timestamp (`nextTxnTs` only grows). -/
theorem C03_readTs_lt_next {d : Bool} {n : Nat} {s : Sys} (h : OReach false d n s) :
    ∀ x ∈ s.txns, x.t.readTs < s.o.nextTxnTs := h.inv.readTsLt

/-- A commit rejected by conflict detection leaves no trace in the oracle (= `C02_conflict_no_trace`). -/
theorem C03_rejected_no_trace (o : Oracle) (t : Txn) (hcf : (o.newCommitTs t).2.2 = .conflict) :
    (o.newCommitTs t).1 = o := (C02_conflict_no_trace o t hcf).1

/-- The assertions `AssertTrue(maxReadTs >= lastCleanupTs)`, `AssertTrue(ts >= lastCleanupTs)` and
    the watermark assertion never fire in normal mode: no reachable state is crashed. -/
theorem C03_oracle_never_asserts {d : Bool} {n : Nat} {s : Sys} (h : OReach false d n s) : s.crashed = false :=
  h.inv.live

-- non-vacuity: three commits, timestamps 1,2,3; a reader started after doneCommit 1 reads at >= 1
example : (((Sys.opened false true 0).runLabels
    [.begin true, .waitCheck 0, .write 0 1, .commit 0, .begin true, .waitCheck 1, .doneCommit 1,
     .procTxnMark, .procTxnMark, .procTxnMark, .procTxnMark]).map
      (fun s => (s.hist.map (·.ts), s.doneCommits, s.o.readTsBegin.2, s.txns.map (·.phase)))) =
    some ([1], [1], 1, [.closed, .active]) := by decide

end Badger
