import BadgerModel.Pipeline
/-!
# C38 — public calls and Close always return (no deadlock)

`BadgerModel/Pipeline.lean` is a small-step model of the write pipeline, the flusher, the L0
stall, the L0 compaction and the shutdown sequence of `DB.close`. Proved here:

* `C38_inv` — an inductive invariant of all reachable states (queues within capacity,
  `imm = flushChan + [flusher busy]`, which goroutine can still be alive in which phase of
  `Close`, …) and its observable projection `C38_coarse_inv` (checked by the harness on states
  sampled from the real DB under stress).
* `C38_no_stuck_partial` — deadlock freedom: with at least two compactors, in every reachable
  state in which some public call is pending, an internal step that is not a poll is enabled
  (in particular a stalled writer / flusher / `Close` always has an enabled step of the
  flusher or of a compaction that falsifies the guard it polls on) — *provided* `Close` did not
  set `blockWrites` while a caller was between the `blockWrites` check and the send on
  `writeCh` (`late = false`).
* `C38_no_stuck_fails` — **finding F38a**: without that proviso the statement is false for the
  code as it is. A caller that passed the check before `Close` and sends after `doWrites` has
  exited either leaves its request in `writeCh` for ever (`req.Wait()` never returns; the Lean
  witness) or panics with `send on closed channel` (replayed deterministically on the real code
  by the harness, `corpus/C38/f38a.ops`).
* `C38_measure_decreases`, `C38_bounded`, `C38_close_terminates` — a measure that every
  internal non-poll step decreases and polls leave unchanged: from any reachable state every
  execution without new calls has at most `measure s` non-poll steps, and once `Close` is
  issued (no late caller) every execution consists of internal steps only, performs at most
  `measure s` non-poll steps, and as long as `Close` has not returned a non-poll step is
  enabled. Hence under weak fairness (a poller is not scheduled for ever while a non-poll step
  stays enabled) `Close` returns.
* `C38_zero_compactors_stuck` — the hypothesis on compactors is needed: with `NumCompactors = 0`
  a reachable state has a pending write and only polls enabled.

Partial (labelled in props/C38.json): scheduler fairness, `time.Sleep` polling and RWMutex
writer preference are abstracted; `DropAll`/`DropPrefix`/`Flatten`/publisher are not modelled;
the stress engine is a test, not a proof.
-/
namespace Badger
open Pipeline

namespace Pipeline

structure Inv (c : Cfg) (s : State) : Prop where
  chanCap : s.writeCh ≤ c.writeChCap
  flushCap : s.flushChan ≤ c.numMemtables
  immEq : s.imm = s.flushChan + (if s.fl = .build ∨ s.fl = .addL0 ∨ s.fl = .popImm then 1 else 0)
  l0comp_le : s.l0comp ≤ s.l0
  l0_le : s.l0 ≤ c.l0Stall
  wrNone : s.wr = .none → s.wrReqs = 0 ∧ s.wrLeft = 0
  wrLeft_le : s.wrLeft ≤ s.wrReqs
  wrWork : (s.wr = .ensure ∨ s.wr = .toLSM) → 1 ≤ s.wrLeft
  wrFin : (s.wr = .finish ∨ s.wr = .release) → s.wrLeft = 0
  wrRel : s.wr = .release → s.wrReqs = 0
  wrVlog : s.wr = .vlog → s.wrLeft = s.wrReqs
  dwIdle : s.dw = .idle → s.batch = 0
  dwDone : (s.dw = .closedWrite ∨ s.dw = .exited) → s.batch = 0
  dwInline : s.dw = .closedWrite → s.wr ≠ .none
  dwExited : s.dw = .exited → s.wr = .none
  dwClosed : (s.dw = .closedDrain ∨ s.dw = .closedPush ∨ s.dw = .closedWrite ∨ s.dw = .exited) →
    3 ≤ s.cl.rank
  clPub : 4 ≤ s.cl.rank → s.dw = .exited
  flExited : s.fl = .exited → 7 ≤ s.cl.rank ∧ s.flushChan = 0
  clComp : 8 ≤ s.cl.rank → s.fl = .exited
  clTail : 9 ≤ s.cl.rank → s.l0comp = 0
  lateSenders : s.late = false → 1 ≤ s.cl.rank → s.senders = 0
  lateCh : s.late = false → (s.dw = .closedPush ∨ s.dw = .closedWrite ∨ s.dw = .exited) → s.writeCh = 0
  gcClose : 2 ≤ s.cl.rank → s.gcRunning = false
  dwColl : (s.dw = .collect ∨ s.dw = .pushPending) → 1 ≤ s.batch
  notCalledLate : s.cl = .notCalled → s.late = false

theorem Inv_init (c : Cfg) : Inv c State.init := by
  constructor <;> simp [State.init, CL.rank]

set_option maxHeartbeats 2000000 in
theorem Inv_step (c : Cfg) (s s' : State) (l : Label) (hi : Inv c s)
    (h : step c s l = some s') : Inv c s' := by
  obtain ⟨i1, i2, i3, i4, i5, i6, i7, i8, i9, i10, i11, i12, i13, i14, i15, i16, i17, i18, i19, i20,
    i21, i22, i23, i24, i25⟩ := hi
  cases l <;> simp only [step] at h <;> (split at h <;> cases h) <;> constructor <;>
    grind [State.blocked, State.writesSignalled, State.writeChClosed, State.flushChanClosed,
      State.compSignalled, CL.rank, spawn]

theorem Reach_Inv {c : Cfg} {s : State} (h : Reach c s) : Inv c s := by
  induction h with
  | init => exact Inv_init c
  | step l _ hs ih => exact Inv_step c _ _ l ih hs

/-! ### progress -/

set_option maxHeartbeats 4000000 in
theorem helper_ok (c : Cfg) (s : State) (hc : c.WF) (h2 : 2 ≤ c.numCompactors) (hi : Inv c s)
    (hl : s.late = false) (hp : 0 < pendingCalls s) :
    (step c s (helper c s)).isSome = true ∧ (helper c s).isPoll = false ∧ (helper c s).isEnv = false := by
  obtain ⟨i1, i2, i3, i4, i5, i6, i7, i8, i9, i10, i11, i12, i13, i14, i15, i16, i17, i18, i19, i20,
    i21, i22, i23, i24, i25⟩ := hi
  obtain ⟨w1, w2, w3, w4⟩ := hc
  unfold helper flushProgress writersProgress
  (repeat' split) <;>
    simp only [step, Label.isPoll, Label.isEnv] <;>
    grind [State.blocked, State.writesSignalled, State.writeChClosed, State.flushChanClosed,
      State.compSignalled, CL.rank, spawn, pendingCalls]

/-! ### measure -/

def dwPts : DW → Nat
  | .idle => 7 | .collect => 7 | .pushPending => 7 | .closedDrain => 6 | .closedPush => 5
  | .closedWrite => 1 | .exited => 0
def wrPts : WR → Nat
  | .none => 0 | .release => 1 | .finish => 2 | .ensure => 2 | .toLSM => 1 | .vlog => 3
def flPts : FL → Nat
  | .exited => 0 | .idle => 1 | .build => 8 | .addL0 => 7 | .popImm => 2
def clPts : CL → Nat
  | .notCalled => 0 | .blocked => 12 | .gcStopped => 11 | .waitWrites => 10 | .pub => 9 | .mt => 8
  | .stopFlush => 7 | .waitFlush => 6 | .waitComp => 5 | .tail => 4 | .returned => 0

/-- An upper bound on the number of internal non-poll steps still possible: every request
    still has to travel `writeCh → batch → memtable`, a full or dirty memtable still has to be
    rotated, every queued memtable costs a flush (and an L0 table), every L0 table a compaction,
    every goroutine its remaining control points. -/
def measure (s : State) : Nat :=
  32 * s.senders + 31 * s.writeCh + 30 * s.batch + 25 * s.wrLeft + wrPts s.wr + dwPts s.dw +
  (if s.mtFull then 10 else 0) + (if s.mtDirty then 10 else 0) + 8 * s.flushChan + flPts s.fl +
  3 * s.l0 + (if s.l0comp = 0 then 1 else 0) + (if s.gcRunning then 1 else 0) + clPts s.cl

set_option maxHeartbeats 2000000 in
theorem measure_step (c : Cfg) (s s' : State) (l : Label) (hi : Inv c s)
    (h : step c s l = some s') (he : l.isEnv = false) :
    (l.isPoll = true → s' = s) ∧ (l.isPoll = false → measure s' < measure s) := by
  obtain ⟨i1, i2, i3, i4, i5, i6, i7, i8, i9, i10, i11, i12, i13, i14, i15, i16, i17, i18, i19, i20,
    i21, i22, i23, i24, i25⟩ := hi
  cases l <;> simp only [step] at h <;> (split at h <;> cases h) <;>
    simp only [Label.isPoll, Label.isEnv] at he ⊢ <;>
    grind [measure, dwPts, wrPts, flPts, clPts, spawn]

theorem rank_pos {x : CL} (h : x ≠ .notCalled) : 1 ≤ x.rank := by
  cases x <;> simp [CL.rank] at *

theorem late_step (c : Cfg) (s s' : State) (l : Label) (h : step c s l = some s')
    (hcl : s.cl ≠ .notCalled) : s'.late = s.late ∧ s'.cl ≠ .notCalled ∧ l.isEnv = false := by
  have hpos := rank_pos hcl
  cases l <;> simp only [step] at h <;> (split at h <;> cases h) <;>
    grind [State.blocked, CL.rank, spawn, Label.isEnv]

end Pipeline

/-- **Invariant** of every reachable state of the pipeline model. -/
theorem C38_inv (c : Cfg) (s : State) (h : Reach c s) : Inv c s := Reach_Inv h

/-- The observable projection of the invariant (what the harness checks on every state sampled
    from the real DB): `flushChan` and `writeCh` within capacity, `len(imm)` equal to
    `len(flushChan)` or one more, L0 never above `NumLevelZeroTablesStall`. -/
theorem C38_coarse_inv (c : Cfg) (s : State) (h : Reach c s) : coarseOK (s.coarse c) = true := by
  have hi := Reach_Inv h
  have h1 := hi.flushCap
  have h2 := hi.l0_le
  have h3 := hi.immEq
  have h4 := hi.chanCap
  have a : s.flushChan ≤ s.imm := by rw [h3]; omega
  have b : s.imm ≤ s.flushChan + 1 := by rw [h3]; split <;> omega
  simp [coarseOK, State.coarse, h1, h2, h4, a, b]

/-- The full statement of deadlock freedom as a safety property. -/
def C38_no_stuckStatement : Prop :=
  ∀ (c : Cfg) (s : State), c.WF → 2 ≤ c.numCompactors → Reach c s → 0 < pendingCalls s →
    ∃ l, l.isPoll = false ∧ l.isEnv = false ∧ (step c s l).isSome = true

/-- **No stuck state (partial: no caller between the `blockWrites` check and the send when
    `Close` begins).** With at least two compactors, in every reachable state with a pending
    public call some internal step other than a poll is enabled; for a stalled writer, flusher or
    `Close` it is a step of the flusher or an L0 compaction step (`flushProgress`), i.e. the
    guard being polled can be falsified. -/
theorem C38_no_stuck_partial (c : Cfg) (s : State) (hc : c.WF) (h2 : 2 ≤ c.numCompactors)
    (hr : Reach c s) (hl : s.late = false) (hp : 0 < pendingCalls s) :
    ∃ l, l.isPoll = false ∧ l.isEnv = false ∧ (step c s l).isSome = true :=
  let ⟨a, b, d⟩ := helper_ok c s hc h2 (Reach_Inv hr) hl hp
  ⟨helper c s, b, d, a⟩

namespace Pipeline

theorem run_reach (c : Cfg) : ∀ (ls : List Label) (s s' : State), Reach c s → run c s ls = some s' →
    Reach c s' := by
  intro ls
  induction ls with
  | nil => intro s s' hr h; simp [run] at h; subst h; exact hr
  | cons l ls ih =>
    intro s s' hr h
    simp only [run] at h
    split at h
    · rename_i s1 hs1; exact ih s1 s' (Reach.step l hr hs1) h
    · cases h

def cfgSmall : Cfg := { writeChCap := 2, numMemtables := 1, l0Tables := 1, l0Stall := 2, numCompactors := 2 }

/-- F38a: a caller passes the `blockWrites` check, `Close` runs to the point where `doWrites` has
    exited, the caller's request enters `writeCh`, `Close` completes. -/
def lateTrace : List Label :=
  [.callBegin, .closeCall, .closeGc, .closeSignalWrites, .dwSeeClosed, .dwDrainDone, .dwClosedPush,
   .wrVlog, .wrRelease, .send, .closeWriteCh, .closePub, .closeSkipMt, .closeFlushChan, .flExit,
   .closeSignalComp, .closeCompDone, .closeReturn]

def lateStuck : State :=
  { State.init with writeCh := 1, dw := .exited, fl := .exited, cl := .returned, late := true }

theorem lateTrace_run : run cfgSmall State.init lateTrace = some lateStuck := by decide

theorem lateStuck_dead (l : Label) (hp : l.isPoll = false) (he : l.isEnv = false) :
    step cfgSmall lateStuck l = none := by
  cases l <;> first | rfl | (simp [Label.isPoll] at hp; done) | (simp [Label.isEnv] at he; done) |
    (simp [step, lateStuck, State.init, State.compSignalled, CL.rank])

end Pipeline

/-- **Finding F38a: the full statement is false for the code as it is.** After the trace
    `lateTrace` (one caller between check and send while `Close` runs) `Close` has returned, one
    request sits in `writeCh`, its caller waits in `req.Wait()`, and no step is enabled. -/
theorem C38_no_stuck_fails : ¬ C38_no_stuckStatement := by
  intro h
  have hr : Reach cfgSmall lateStuck := run_reach _ _ _ _ Reach.init lateTrace_run
  obtain ⟨l, hp, he, hs⟩ := h cfgSmall lateStuck (by simp [Cfg.WF, cfgSmall]) (by decide) hr (by decide)
  rw [lateStuck_dead l hp he] at hs
  cases hs

/-- **Measure.** Polls do not change the state; every other internal step decreases `measure`. -/
theorem C38_measure_decreases (c : Cfg) (s s' : State) (l : Label) (hr : Reach c s)
    (h : step c s l = some s') (he : l.isEnv = false) :
    (l.isPoll = true → s' = s) ∧ (l.isPoll = false → measure s' < measure s) :=
  measure_step c s s' l (Reach_Inv hr) h he

/-- **Bounded progress.** From a reachable state, an execution without new public calls
    contains at most `measure s` steps that are not polls. -/
theorem C38_bounded (c : Cfg) : ∀ (ls : List Label) (s s' : State), Reach c s →
    (∀ l ∈ ls, l.isEnv = false) → run c s ls = some s' →
    (ls.filter (fun l => !l.isPoll)).length + measure s' ≤ measure s := by
  intro ls
  induction ls with
  | nil => intro s s' _ _ h; simp [run] at h; subst h; simp
  | cons l ls ih =>
    intro s s' hr he h
    simp only [run] at h
    split at h
    · rename_i s1 hs1
      have hl := he l (List.mem_cons_self ..)
      have hm := measure_step c s s1 l (Reach_Inv hr) hs1 hl
      have := ih s1 s' (Reach.step l hr hs1) (fun x hx => he x (List.mem_cons_of_mem _ hx)) h
      by_cases hp : l.isPoll = true
      · have e := hm.1 hp
        simp only [List.filter_cons, hp, Bool.not_true, Bool.false_eq_true, if_false]
        rw [e] at this; exact this
      · have hp' : l.isPoll = false := by simpa using hp
        have d := hm.2 hp'
        simp only [List.filter_cons, hp', Bool.not_false, if_true, List.length_cons]
        omega
    · cases h

/-- **Close terminates (under weak fairness of the non-poll steps).** Once `Close` has been
    issued with no caller between check and send (`late = false`), for every execution `ls`
    from that state: all its steps are internal (new writes and GC runs are refused), it has at
    most `measure s` non-poll steps, and in its last state either `Close` has returned or a
    non-poll internal step is enabled. So an execution in which polls are not scheduled for ever
    while a non-poll step is enabled reaches `cl = returned` after at most `measure s` non-poll
    steps. -/
theorem C38_close_terminates (c : Cfg) (hc : c.WF) (h2 : 2 ≤ c.numCompactors) :
    ∀ (ls : List Label) (s s' : State), Reach c s → s.late = false → s.cl ≠ .notCalled →
    run c s ls = some s' →
    (∀ l ∈ ls, l.isEnv = false) ∧
    (ls.filter (fun l => !l.isPoll)).length + measure s' ≤ measure s ∧
    (s'.cl = .returned ∨ ∃ l, l.isPoll = false ∧ l.isEnv = false ∧ (step c s' l).isSome = true) := by
  intro ls
  induction ls with
  | nil =>
    intro s s' hr hl hcl h
    simp [run] at h; subst h
    refine ⟨by simp, by simp, ?_⟩
    by_cases hret : s.cl = .returned
    · exact Or.inl hret
    · refine Or.inr (C38_no_stuck_partial c s hc h2 hr hl ?_)
      unfold pendingCalls
      have : ¬ (s.cl = .notCalled ∨ s.cl = .returned) := by
        intro h; rcases h with h | h; exact hcl h; exact hret h
      simp [this]
  | cons l ls ih =>
    intro s s' hr hl hcl h
    simp only [run] at h
    split at h
    · rename_i s1 hs1
      obtain ⟨l1, l2, l3⟩ := late_step c s s1 l hs1 hcl
      obtain ⟨a, b, d⟩ := ih s1 s' (Reach.step l hr hs1) (by rw [l1]; exact hl) l2 h
      have hm := measure_step c s s1 l (Reach_Inv hr) hs1 l3
      refine ⟨?_, ?_, d⟩
      · intro x hx
        rcases List.mem_cons.mp hx with e | e
        · subst e; exact l3
        · exact a x e
      · by_cases hp : l.isPoll = true
        · have e := hm.1 hp
          simp only [List.filter_cons, hp, Bool.not_true, Bool.false_eq_true, if_false]
          rw [e] at b; exact b
        · have hp' : l.isPoll = false := by simpa using hp
          have dd := hm.2 hp'
          simp only [List.filter_cons, hp', Bool.not_false, if_true, List.length_cons]
          omega
    · cases h

namespace Pipeline

def cfgNoComp : Cfg := { writeChCap := 2, numMemtables := 1, l0Tables := 1, l0Stall := 2, numCompactors := 0 }

/-- one write that fills the memtable -/
def fillOnce : List Label :=
  [.callBegin, .send, .dwRecv, .dwPush, .wrVlog]

/-- Three memtables are filled and rotated; two become L0 tables (the stall threshold), the
    third waits in `addLevel0Table`, the fourth write finds `flushChan` full. -/
def stallTrace : List Label :=
  [ .callBegin, .send, .dwRecv, .dwPush, .wrVlog, .wrRoomOk, .wrToLSM true, .wrFinish, .wrRelease,
    .callBegin, .send, .dwRecv, .dwPush, .wrVlog, .wrRotate, .wrToLSM true, .wrFinish, .wrRelease,
    .flTake, .flBuild, .flAdd, .flPop,
    .callBegin, .send, .dwRecv, .dwPush, .wrVlog, .wrRotate, .wrToLSM true, .wrFinish, .wrRelease,
    .flTake, .flBuild, .flAdd, .flPop,
    .callBegin, .send, .dwRecv, .dwPush, .wrVlog, .wrRotate, .wrToLSM true, .wrFinish, .wrRelease,
    .flTake, .flBuild,
    .callBegin, .send, .dwRecv, .dwPush, .wrVlog, .wrRotate, .wrToLSM true, .wrFinish, .wrRelease,
    .callBegin, .send, .dwRecv, .dwPush, .wrVlog ]

def stallStuck : State :=
  { State.init with wr := .ensure, wrReqs := 1, wrLeft := 1, mtFull := true, mtDirty := true,
                    flushChan := 1, imm := 2, fl := .addL0, l0 := 2 }

theorem stallTrace_run : run cfgNoComp State.init stallTrace = some stallStuck := by decide

theorem stallStuck_dead (l : Label) (hp : l.isPoll = false) (he : l.isEnv = false) :
    step cfgNoComp stallStuck l = none := by
  cases l <;> first | rfl | (simp [Label.isPoll] at hp; done) | (simp [Label.isEnv] at he; done) |
    (simp [step, stallStuck, State.init, cfgNoComp])

end Pipeline

/-- **The compactor hypothesis is needed.** With `NumCompactors = 0` (allowed by `Open`) a
    reachable state has a pending write, no late caller, and nothing but polls enabled. -/
theorem C38_zero_compactors_stuck :
    ∃ s, Reach cfgNoComp s ∧ s.late = false ∧ 0 < pendingCalls s ∧
      ∀ l, l.isPoll = false → l.isEnv = false → step cfgNoComp s l = none :=
  ⟨stallStuck, run_reach _ _ _ _ Reach.init stallTrace_run, rfl, by decide, stallStuck_dead⟩

/-- **Finding F38c (witness).** A commit refused after `orc.Stop()` leaves its timestamp
    unmarked, so the `readTs` that `WriteBatch.commit` issues right afterwards blocks for ever;
    the same commit refused *before* the stop is marked done and `readTs` returns. -/
theorem C38_F38c_witness :
    (({} : Orc).run [.stop, .commitRefused, .readTs]).2 = ["ok", "err-blocked", "blocks-forever"] ∧
    (({} : Orc).run [.commitRefused, .stop, .readTs]).2 = ["err-blocked", "ok", "returns"] := by
  decide

-- non-vacuity: a reachable state with a stalled writer, a stalled flusher and a Close in flight,
-- where the theorem provides a compaction step
example : ∃ s, run cfgSmall State.init
    [ .callBegin, .send, .dwRecv, .dwPush, .wrVlog, .wrRoomOk, .wrToLSM true, .wrFinish, .wrRelease,
      .callBegin, .send, .dwRecv, .dwPush, .wrVlog, .wrRotate, .wrToLSM true, .wrFinish, .wrRelease,
      .flTake, .flBuild, .flAdd, .flPop,
      .callBegin, .send, .dwRecv, .dwPush, .wrVlog, .wrRotate, .wrToLSM true, .wrFinish, .wrRelease,
      .flTake, .flBuild, .flAdd, .flPop,
      .callBegin, .send, .dwRecv, .dwPush, .wrVlog, .wrRotate, .wrToLSM true, .wrFinish, .wrRelease,
      .flTake, .flBuild, .closeCall ] = some s ∧ helper cfgSmall s = .closeGc ∧ s.l0 = 2 := by
  refine ⟨_, rfl, ?_, ?_⟩ <;> decide

end Badger
