import BadgerModel.Extracted
/-!
# T-gen facts for the log-record properties (C16, C09).
Kept apart from `Tgen.lean` (which imports the LSM model) because the log model and the LSM
model both declare the meta-bit constants; here the regenerated values are compared with the
numbers the log model uses.
-/
namespace Badger
open Extracted

theorem C16_tgen_log_consts : Extracted.vlogHeaderSize = 20 ∧ Extracted.maxHeaderSize = 22 ∧
    Extracted.bitTxn = 64 ∧ Extracted.bitFinTxn = 128 ∧ Extracted.bitValuePointer = 2 ∧
    Extracted.bitDelete = 1 := by decide

/-- The reads of `safeRead.Entry` are the ones the model's `readFull` / `headerDecodeFrom` mirror:
    header via `DecodeFrom` (two `ReadByte`, three `binary.ReadUvarint`), key‖value and checksum via
    `io.ReadFull` (no bare `Read`, which returns short counts at refill boundaries of the
    `bufio.Reader` that `iterate` uses), in this order. -/
theorem C16_tgen_saferead_reads : Extracted.ord_saferead_reads = "ascending" ∧
    Extracted.has_saferead_bare_read = "no" ∧ Extracted.ord_header_decodefrom_reads = "ascending" ∧
    Extracted.has_iterate_bufio = "yes" := by decide

theorem C09_tgen_saferead_reads : Extracted.ord_saferead_reads = "ascending" ∧
    Extracted.has_saferead_bare_read = "no" := by decide

theorem C09_tgen_log_consts : Extracted.vlogHeaderSize = 20 ∧ Extracted.maxHeaderSize = 22 ∧
    Extracted.bitTxn = 64 ∧ Extracted.bitFinTxn = 128 := by decide

theorem C17_tgen_manifest_consts :
    Extracted.manifestDeletionsRewriteThreshold = 10000 ∧ Extracted.manifestDeletionsRatio = 10 ∧
    Extracted.op_manifest_rewrite_threshold = ">" := by decide

/-- C20: the streaming header decoder reads two single bytes and three uvarints, in this order, from
    the hashing reader (`C20_header_decodeFrom` is proved for exactly these reads; a bare `Read` of
    two bytes returns one at a refill boundary of the `bufio.Reader` — seed C20e). -/
theorem C20_tgen_header_decodefrom : Extracted.ord_header_decodefrom_reads = "ascending" ∧
    Extracted.has_iterate_bufio = "yes" := by decide

end Badger
