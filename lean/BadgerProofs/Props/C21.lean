import BadgerModel.Merge
import BadgerProofs.Lemmas.MergeIter
/-!
# C21 — merged iteration yields the sorted union with earliest-source precedence

Model: `BadgerModel/Source.lean` (leaf iterators), `BadgerModel/Merge.lean`
(`table.MergeIterator`, `table.NewMergeIterator`, `mergeSpec`).

Structure of the proof
* `Lemmas/MergeLists.lean`: list level (two-way `mergeLists`, `mergeSpecG`, uniqueness of
  strictly sorted lists).
* `Lemmas/MergeIter.lean`: `IterSpec` (what it means to be a cursor over a sorted list) and
  `mergeIterSpec`: one `MergeIterator` level over *arbitrary* children that satisfy
  `IterSpec` satisfies `IterSpec` for the merge of the children's lists.
* here: induction over the recursive construction of `NewMergeIterator` (any number of
  inputs, hence any nesting depth), and the property theorems.

All statements are for *every* history of `Rewind/Seek/Next` calls before the call of
interest (`hist`), because `Rewind`/`Seek` must work from whatever state earlier calls left.
-/
namespace Badger

/-- `it`, in its current (fresh) state, is a cursor over `all` positioned at the end. -/
def Sat (cmp : Bytes → Bytes → Ordering) (it : AnyIter) (all : List ItEntry) : Prop :=
  ∃ S : IterSpec it.ops cmp all, S.R it.st []

section Generic
variable {σ : Type} {o : IterOps σ} {cmp : Bytes → Bytes → Ordering} {all : List ItEntry}

theorem IterSpec.cur_eq (S : IterSpec o cmp all) {s : σ} {L : List ItEntry} (h : S.R s L) :
    o.cur s = L.head? := by
  unfold IterOps.cur
  cases L with
  | nil => simp [S.valid h]
  | cons e L => simp [S.valid h, S.key h, S.value h]

theorem IterSpec.apply_R (S : IterSpec o cmp all) {s : σ} {L : List ItEntry} (h : S.R s L)
    (op : IterOp) :
    S.R (o.apply s op)
      (match op with
       | .rewind => all
       | .seek k => all.dropWhile (fun e => cmp e.key k == .lt)
       | .next => L.tail) := by
  cases op with
  | rewind => exact S.rewind h
  | seek k => exact S.seek k h
  | next =>
    cases L with
    | nil => exact S.next_nil h
    | cons e L => exact S.next h

theorem IterSpec.run_R (S : IterSpec o cmp all) {s : σ} {L : List ItEntry} (h : S.R s L)
    (ops : List IterOp) : ∃ L', S.R (o.run s ops) L' := by
  induction ops generalizing s L with
  | nil => exact ⟨L, h⟩
  | cons op ops ih => exact ih (S.apply_R h op)

theorem IterSpec.collect_eq (S : IterSpec o cmp all) {s : σ} {L : List ItEntry} (h : S.R s L)
    (n : Nat) : o.collect n s = L.take n := by
  induction n generalizing s L with
  | zero => simp [IterOps.collect]
  | succ n ih =>
    cases L with
    | nil => simp [IterOps.collect, S.valid h]
    | cons e L => simp [IterOps.collect, S.valid h, S.key h, S.value h, ih (S.next h)]

/-- Two cursors over the same list that are positioned alike stay alike under every
    sequence of calls (so they are observationally equivalent). -/
theorem IterSpec.run_sim {σ' : Type} {o' : IterOps σ'} (S : IterSpec o cmp all)
    (S' : IterSpec o' cmp all) {s : σ} {s' : σ'} {L : List ItEntry} (h : S.R s L) (h' : S'.R s' L)
    (ops : List IterOp) : ∃ L', S.R (o.run s ops) L' ∧ S'.R (o'.run s' ops) L' := by
  induction ops generalizing s s' L with
  | nil => exact ⟨L, h, h'⟩
  | cons op ops ih => exact ih (S.apply_R h op) (S'.apply_R h' op)

theorem IterSpec.valid_after_nexts (S : IterSpec o cmp all) {s : σ} {L : List ItEntry}
    (h : S.R s L) (n : Nat) :
    o.valid (o.run s (List.replicate n .next)) = decide (n < L.length) := by
  induction n generalizing s L with
  | zero =>
    rw [show o.run s (List.replicate 0 IterOp.next) = s from rfl, S.valid h]; cases L <;> simp
  | succ n ih =>
    rw [List.replicate_succ]
    show o.valid (o.run (o.next s) (List.replicate n .next)) = _
    cases L with
    | nil => rw [ih (S.next_nil h)]; simp
    | cons e L => rw [ih (S.next h)]; simp

end Generic

/-! ## The tree built by `NewMergeIterator` -/

/-- One level: `NewMergeIterator([a, b], reverse)` over children that are cursors over
    `allA`, `allB` is a cursor over their merge.  `a`, `b` are arbitrary iterators, e.g.
    themselves `MergeIterator`s. -/
theorem C21_merge_level (rev : Bool) (a b : AnyIter) (allA allB : List ItEntry)
    (ha : Sat (dcmp rev) a allA) (hb : Sat (dcmp rev) b allB) :
    Sat (dcmp rev) (newMerge2 a b rev) (mergeLists (dcmp rev) allA allB) := by
  obtain ⟨SA, hA⟩ := ha
  obtain ⟨SB, hB⟩ := hb
  exact ⟨mergeIterSpec (dcmp_total rev) SA SB rev rfl,
    mergeR_init (dcmp_total rev) SA SB rev rfl hA hB⟩

theorem Sat.sorted {cmp : Bytes → Bytes → Ordering} {it : AnyIter} {all : List ItEntry}
    (h : Sat cmp it all) : SortedBy cmp all := by
  obtain ⟨S, _⟩ := h; exact S.sorted_all

theorem newMergeIteratorF_sat (rev : Bool) (fuel : Nat) (ps : List (AnyIter × List ItEntry))
    (hlen : ps.length ≤ fuel) (hne : ps ≠ [])
    (hs : ∀ p ∈ ps, Sat (dcmp rev) p.1 p.2) :
    ∃ it, newMergeIteratorF fuel (ps.map Prod.fst) rev = some it ∧
      Sat (dcmp rev) it (mergeSpecG (dcmp rev) (ps.map Prod.snd)) := by
  have T := dcmp_total rev
  induction fuel generalizing ps with
  | zero =>
    cases ps with
    | nil => exact absurd rfl hne
    | cons p ps => simp at hlen
  | succ fuel ih =>
    match ps, hlen, hne, hs with
    | [], _, hne, _ => exact absurd rfl hne
    | [p], _, _, hs =>
      have hp := hs p (by simp)
      refine ⟨p.1, by simp [newMergeIteratorF], ?_⟩
      simp only [List.map_cons, List.map_nil]
      rw [mergeSpecG_singleton T _ hp.sorted]
      exact hp
    | [p, q], _, _, hs =>
      have hp := hs p (by simp)
      have hq := hs q (by simp)
      refine ⟨newMerge2 p.1 q.1 rev, by simp [newMergeIteratorF], ?_⟩
      have := mergeSpecG_append T [p.2] [q.2] (by simpa using hp.sorted) (by simpa using hq.sorted)
      simp only [List.map_cons, List.map_nil]
      rw [show [p.2, q.2] = [p.2] ++ [q.2] from rfl, this, mergeSpecG_singleton T _ hp.sorted,
        mergeSpecG_singleton T _ hq.sorted]
      exact C21_merge_level rev p.1 q.1 p.2 q.2 hp hq
    | p :: q :: r :: rest, hlen, _, hs =>
      let ps := p :: q :: r :: rest
      have hmid1 : 1 ≤ ps.length / 2 := by simp [ps]; omega
      have hmid2 : ps.length / 2 < ps.length := by simp [ps]; omega
      have hl1 : (ps.take (ps.length / 2)).length ≤ fuel := by
        simp only [List.length_take]; simp [ps] at hlen ⊢; omega
      have hl2 : (ps.drop (ps.length / 2)).length ≤ fuel := by
        simp only [List.length_drop]; simp [ps] at hlen ⊢; omega
      have hn1 : ps.take (ps.length / 2) ≠ [] := by
        intro h; have := congrArg List.length h; simp only [List.length_take, List.length_nil] at this
        omega
      have hn2 : ps.drop (ps.length / 2) ≠ [] := by
        intro h; have := congrArg List.length h; simp only [List.length_drop, List.length_nil] at this
        omega
      have hs1 : ∀ p ∈ ps.take (ps.length / 2), Sat (dcmp rev) p.1 p.2 :=
        fun p hp => hs p (List.mem_of_mem_take hp)
      have hs2 : ∀ p ∈ ps.drop (ps.length / 2), Sat (dcmp rev) p.1 p.2 :=
        fun p hp => hs p (List.mem_of_mem_drop hp)
      obtain ⟨l, hl, hsl⟩ := ih _ hl1 hn1 hs1
      obtain ⟨rr, hr, hsr⟩ := ih _ hl2 hn2 hs2
      refine ⟨newMerge2 l rr rev, ?_, ?_⟩
      · have e1 : List.map Prod.fst (p :: q :: r :: rest) = (List.map Prod.fst ps) := rfl
        rw [e1]
        have hlen3 : (List.map Prod.fst ps).length = ps.length := by simp
        have : ∃ x y z w, List.map Prod.fst ps = x :: y :: z :: w := ⟨p.1, q.1, r.1, _, rfl⟩
        obtain ⟨x, y, z, w, hxyz⟩ := this
        rw [List.map_take, List.map_drop] at *
        rw [← hlen3] at hl hr
        generalize List.map Prod.fst ps = is at *
        subst hxyz
        rw [newMergeIteratorF] <;> first | (simp only [hl, hr]) | simp
      · have e2 : List.map Prod.snd (p :: q :: r :: rest) =
            List.map Prod.snd (ps.take (ps.length / 2)) ++
              List.map Prod.snd (ps.drop (ps.length / 2)) := by
          rw [← List.map_append, List.take_append_drop]
        rw [e2, mergeSpecG_append T]
        · exact C21_merge_level rev l rr _ _ hsl hsr
        · intro l hl
          obtain ⟨p, hp, rfl⟩ := List.mem_map.mp hl
          exact (hs1 p hp).sorted
        · intro l hl
          obtain ⟨p, hp, rfl⟩ := List.mem_map.mp hl
          exact (hs2 p hp).sorted

/-- `NewMergeIterator` over any non-empty list of iterators that are cursors over strictly
    sorted lists is a cursor over the sorted union with earliest-input precedence. -/
theorem C21_newMergeIterator (rev : Bool) (ps : List (AnyIter × List ItEntry)) (hne : ps ≠ [])
    (hs : ∀ p ∈ ps, Sat (dcmp rev) p.1 p.2) :
    ∃ it, newMergeIterator (ps.map Prod.fst) rev = some it ∧
      Sat (dcmp rev) it (mergeSpecG (dcmp rev) (ps.map Prod.snd)) := by
  unfold newMergeIterator
  exact newMergeIteratorF_sat rev _ ps (by simp) hne hs

/-- `NewMergeIterator(nil)` is `nil`. -/
theorem C21_newMergeIterator_empty (rev : Bool) : (newMergeIterator [] rev).isNone := by
  simp [newMergeIterator, newMergeIteratorF]

/-! ## Slice-backed sources as inputs -/

/-- the leaf iterators handed to `NewMergeIterator` -/
def sourcesOf (inputs : List (List ItEntry)) (rev : Bool) : List AnyIter :=
  inputs.map (fun l => (Source.mk' l rev).toIter)

/-- the entries in iteration order -/
def dirList (rev : Bool) (l : List ItEntry) : List ItEntry := if rev then l.reverse else l

theorem source_sat (rev : Bool) (l : List ItEntry) (hs : SortedBy compareKeys l) :
    Sat (dcmp rev) (Source.mk' l rev).toIter (dirList rev l) :=
  ⟨sourceSpec l rev hs, ⟨rfl, rfl, rfl, SortedBy.nil⟩⟩

theorem mergeSpecG_dir (rev : Bool) (inputs : List (List ItEntry))
    (hs : ∀ l ∈ inputs, SortedBy compareKeys l) :
    mergeSpecG (dcmp rev) (inputs.map (dirList rev)) = dirList rev (mergeSpec inputs) := by
  cases rev
  · have : dirList false = id := by funext l; simp [dirList]
    simp [this, dcmp_false, mergeSpec]
  · simp only [dirList, if_true, dcmp_true, mergeSpec]
    exact mergeSpecG_reverse compareKeys_total inputs hs

theorem merge_sources_sat (rev : Bool) (inputs : List (List ItEntry)) (hne : inputs ≠ [])
    (hs : ∀ l ∈ inputs, SortedBy compareKeys l) :
    ∃ it, newMergeIterator (sourcesOf inputs rev) rev = some it ∧
      Sat (dcmp rev) it (dirList rev (mergeSpec inputs)) := by
  let ps : List (AnyIter × List ItEntry) :=
    inputs.map (fun l => ((Source.mk' l rev).toIter, dirList rev l))
  have h1 : ps.map Prod.fst = sourcesOf inputs rev := by simp [ps, sourcesOf]
  have h2 : ps.map Prod.snd = inputs.map (dirList rev) := by simp [ps]
  have := C21_newMergeIterator rev ps (by simpa [ps] using hne) (by
    intro p hp
    obtain ⟨l, hl, rfl⟩ := List.mem_map.mp hp
    exact source_sat rev l (hs l hl))
  rwa [h1, h2, mergeSpecG_dir rev inputs hs] at this

/-- **Refinement**: the iterator built by `NewMergeIterator` over `n ≥ 1` sources is
    observationally equivalent — `Valid/Key/Value` after every sequence of
    `Rewind/Seek/Next` calls — to a single source over `mergeSpec inputs`. -/
theorem C21_refines_source (rev : Bool) (inputs : List (List ItEntry)) (hne : inputs ≠ [])
    (hs : ∀ l ∈ inputs, SortedBy compareKeys l) :
    ∃ it, newMergeIterator (sourcesOf inputs rev) rev = some it ∧
      ∀ calls : List IterOp,
        (it.run calls).cur = ((Source.mk' (mergeSpec inputs) rev).toIter.run calls).cur := by
  obtain ⟨it, hit, S, hR⟩ := merge_sources_sat rev inputs hne hs
  refine ⟨it, hit, ?_⟩
  intro calls
  have hsorted : SortedBy compareKeys (mergeSpec inputs) := sortedBy_mergeSpecG compareKeys_total _
  obtain ⟨S', hR'⟩ := source_sat rev (mergeSpec inputs) hsorted
  obtain ⟨L', h1, h2⟩ := S.run_sim S' hR hR' calls
  show it.ops.cur (it.ops.run it.st calls) = Source.ops.cur (Source.ops.run _ calls)
  rw [S.cur_eq h1]
  exact (S'.cur_eq h2).symm

/-- **Forward**: whatever calls were made before (`hist`), `Rewind` followed by repeated
    `Next` yields exactly `mergeSpec inputs` (`collect n` is the consumer loop cut off after
    `n` entries; take `n ≥` the length for the whole sequence, and see
    `C21_forward_exhausted`). -/
theorem C21_forward (inputs : List (List ItEntry)) (hne : inputs ≠ [])
    (hs : ∀ l ∈ inputs, SortedBy compareKeys l) :
    ∃ it, newMergeIterator (sourcesOf inputs false) false = some it ∧
      ∀ (hist : List IterOp) (n : Nat),
        ((it.run hist).rewind).collect n = (mergeSpec inputs).take n := by
  obtain ⟨it, hit, S, hR⟩ := merge_sources_sat false inputs hne hs
  refine ⟨it, hit, ?_⟩
  intro hist n
  obtain ⟨L', h1⟩ := S.run_R hR hist
  exact S.collect_eq (S.rewind h1) n

/-- after the last entry the iterator is invalid -/
theorem C21_forward_exhausted (inputs : List (List ItEntry)) (hne : inputs ≠ [])
    (hs : ∀ l ∈ inputs, SortedBy compareKeys l) :
    ∃ it, newMergeIterator (sourcesOf inputs false) false = some it ∧
      ∀ (hist : List IterOp) (n : Nat),
        (((it.run hist).rewind).run (List.replicate n .next)).valid =
          decide (n < (mergeSpec inputs).length) := by
  obtain ⟨it, hit, S, hR⟩ := merge_sources_sat false inputs hne hs
  refine ⟨it, hit, ?_⟩
  intro hist n
  obtain ⟨L', h1⟩ := S.run_R hR hist
  exact S.valid_after_nexts (S.rewind h1) n

/-- **Reverse**: with reverse sources and `reverse = true` the sequence is the reversed spec. -/
theorem C21_reverse (inputs : List (List ItEntry)) (hne : inputs ≠ [])
    (hs : ∀ l ∈ inputs, SortedBy compareKeys l) :
    ∃ it, newMergeIterator (sourcesOf inputs true) true = some it ∧
      ∀ (hist : List IterOp) (n : Nat),
        ((it.run hist).rewind).collect n = (mergeSpec inputs).reverse.take n := by
  obtain ⟨it, hit, S, hR⟩ := merge_sources_sat true inputs hne hs
  refine ⟨it, hit, ?_⟩
  intro hist n
  obtain ⟨L', h1⟩ := S.run_R hR hist
  exact S.collect_eq (S.rewind h1) n

/-- **Seek**: after `Seek k` (from any state) the remaining sequence is the suffix of
    `mergeSpec inputs` starting at the first entry with key `≥ k`; in reverse, the reversed
    prefix ending at the last entry with key `≤ k`. -/
theorem C21_seek (inputs : List (List ItEntry)) (hne : inputs ≠ [])
    (hs : ∀ l ∈ inputs, SortedBy compareKeys l) :
    (∃ it, newMergeIterator (sourcesOf inputs false) false = some it ∧
      ∀ (hist : List IterOp) (k : Bytes) (n : Nat),
        ((it.run hist).seek k).collect n =
          ((mergeSpec inputs).dropWhile (fun e => compareKeys e.key k == .lt)).take n) ∧
    (∃ it, newMergeIterator (sourcesOf inputs true) true = some it ∧
      ∀ (hist : List IterOp) (k : Bytes) (n : Nat),
        ((it.run hist).seek k).collect n =
          ((mergeSpec inputs).reverse.dropWhile (fun e => compareKeys e.key k == .gt)).take n) := by
  constructor
  · obtain ⟨it, hit, S, hR⟩ := merge_sources_sat false inputs hne hs
    refine ⟨it, hit, ?_⟩
    intro hist k n
    obtain ⟨L', h1⟩ := S.run_R hR hist
    have := S.collect_eq (S.seek k h1) n
    show it.ops.collect n (it.ops.seek k (it.ops.run it.st hist)) = _
    simpa [dirList, dcmp_false] using this
  · obtain ⟨it, hit, S, hR⟩ := merge_sources_sat true inputs hne hs
    refine ⟨it, hit, ?_⟩
    intro hist k n
    obtain ⟨L', h1⟩ := S.run_R hR hist
    have := S.collect_eq (S.seek k h1) n
    have hgt : ∀ e : ItEntry, (dcmp true e.key k == .lt) = (compareKeys e.key k == .gt) := by
      intro e
      simp only [dcmp, if_true]
      rw [← compareKeys_total.swap e.key k]
      cases compareKeys e.key k <;> rfl
    show it.ops.collect n (it.ops.seek k (it.ops.run it.st hist)) = _
    simpa [dirList, hgt] using this

/-- **Earliest wins**: the spec list is strictly sorted (so every internal key occurs exactly
    once) and contains exactly the entries `e` that occur in the earliest input holding
    an entry with `e`'s key. -/
theorem C21_earliest_wins (inputs : List (List ItEntry))
    (hs : ∀ l ∈ inputs, SortedBy compareKeys l) :
    SortedBy compareKeys (mergeSpec inputs) ∧
    (keysOf (mergeSpec inputs)).Nodup ∧
    ∀ e : ItEntry, e ∈ mergeSpec inputs ↔
      ∃ i, ∃ h : i < inputs.length, e ∈ inputs[i] ∧
        ∀ j, ∀ hj : j < i, e.key ∉ keysOf (inputs[j]'(Nat.lt_trans hj h)) := by
  have T := compareKeys_total
  have hsorted : SortedBy compareKeys (mergeSpec inputs) := sortedBy_mergeSpecG T _
  refine ⟨hsorted, ?_, ?_⟩
  · unfold keysOf
    rw [List.nodup_iff_pairwise_ne, List.pairwise_map]
    exact List.Pairwise.imp (fun h => T.ne_of_lt h) hsorted
  · intro e
    unfold mergeSpec
    rw [mem_mergeSpecG T _ hs]
    clear hs hsorted
    induction inputs with
    | nil => simp [FirstWith]
    | cons l rest ih =>
      simp only [FirstWith, ih]
      constructor
      · rintro (h | ⟨hk, i, hi, he, hall⟩)
        · exact ⟨0, by simp, h, by intro j hj; omega⟩
        · refine ⟨i + 1, by simp; omega, he, ?_⟩
          intro j hj
          cases j with
          | zero => exact hk
          | succ j => exact hall j (by omega)
      · rintro ⟨i, hi, he, hj⟩
        cases i with
        | zero => exact .inl he
        | succ i =>
          refine .inr ⟨hj 0 (by omega), i, by simpa using hi, he, ?_⟩
          intro j hj'
          exact hj (j + 1) (by omega)

/-- The iteration bound that the model puts on the `for mi.Valid()` loop of `Next` is never
    what ends the loop: in every positioned state of a `MergeIterator` whose children are
    cursors, the loop is left through its own condition. -/
theorem C21_next_loop_exits {α β : Type} {A : IterOps α} {B : IterOps β} {allA allB : List ItEntry}
    (rev : Bool) (SA : IterSpec A (dcmp rev) allA) (SB : IterSpec B (dcmp rev) allB)
    (m : MergeSt α β) (L : List ItEntry)
    (h : (mergeIterSpec (dcmp_total rev) SA SB rev rfl).R m L) :
    (MergeSt.nextLoop A B (MergeSt.size A B m + 1) m).loopCond = false := by
  cases L with
  | cons e L =>
    obtain ⟨_, _, _, _, _, hex⟩ := nextLoop_cons (dcmp_total rev) SA SB rev rfl h (MergeSt.size A B m)
    exact hex
  | nil =>
    obtain ⟨Ll, Lr, hp, hf, hck, hL⟩ := h
    have sh := small_head SA SB rev hp hf
    rw [← hL] at sh
    have hcond : m.loopCond = false := by unfold MergeSt.loopCond; simp [sh.1]
    rw [nextLoop_of_not_cond hcond]; exact hcond

/-! ## Non-vacuity: concrete instances -/

section Examples
private def k (c : UInt8) (ts : Nat) : Bytes := keyWithTs [c] ts
private def in1 : List ItEntry := [⟨k 0x61 5, [1]⟩, ⟨k 0x62 5, [2]⟩]
private def in2 : List ItEntry := [⟨k 0x61 5, [3]⟩, ⟨k 0x61 3, [4]⟩, ⟨k 0x63 1, [5]⟩]
private def in3 : List ItEntry := [⟨k 0x60 5, [6]⟩, ⟨k 0x63 1, [7]⟩]

-- three sorted inputs sharing internal keys (a@5 in 1 and 2; c@1 in 2 and 3)
example : ∀ l ∈ [in1, in2, in3], SortedBy compareKeys l := by
  simp only [List.mem_cons, List.mem_nil_iff, or_false, SortedBy]
  rintro l (rfl | rfl | rfl) <;> decide

example : mergeSpec [in1, in2, in3] =
    [⟨k 0x60 5, [6]⟩, ⟨k 0x61 5, [1]⟩, ⟨k 0x61 3, [4]⟩, ⟨k 0x62 5, [2]⟩, ⟨k 0x63 1, [5]⟩] := by
  decide

-- the model iterator on the same inputs, forward, reverse and after a seek to an absent key
example : (match newMergeIterator (sourcesOf [in1, in2, in3] false) false with
    | some it => it.rewind.collect 10
    | none => []) = mergeSpec [in1, in2, in3] := by decide

example : (match newMergeIterator (sourcesOf [in1, in2, in3] true) true with
    | some it => it.rewind.collect 10
    | none => []) = (mergeSpec [in1, in2, in3]).reverse := by decide

example : (match newMergeIterator (sourcesOf [in1, in2, in3] false) false with
    | some it => ((it.rewind.next.next).seek (k 0x61 4)).collect 2
    | none => []) = [⟨k 0x61 3, [4]⟩, ⟨k 0x62 5, [2]⟩] := by decide
end Examples

end Badger
