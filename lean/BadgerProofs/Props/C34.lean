import BadgerModel.Watermark
import BadgerProofs.Lemmas.Watermark
import BadgerProofs.Lemmas.WatermarkInv
import BadgerModel.Oracle
import BadgerProofs.Lemmas.Oracle
import BadgerProofs.Lemmas.OracleLive
/-!
# C34 — watermark part: `y.WaterMark.process` never reports an unfinished index as done and never
strands a waiter.

All theorems quantify over **every** sequence of marks (`WM.init.run ms`, `ms : List Mark`):
the `process` goroutine handles marks one at a time in channel order, so the set of reachable
states of a watermark is exactly `{ WM.init.run ms }`.

Vocabulary (defined in `Lemmas/WatermarkInv.lean`): `WM.Inv` the loop invariant; `Mark.procs`
the `processOne(index, done)` calls a mark expands to; `netCount ps i` = number of `Begin(i)` minus
number of `Done(i)`; `marksOK strict g ms` the usage discipline of badger's oracle (every `Done`
matches an unfinished `Begin`; `Begin`s in non-decreasing — `strict`: strictly increasing — index
order); `WM.opened n` the watermark as `DB.Open` leaves it (`Done(n)` on a fresh one).
The oracle-level theorem `C34_readTs_sees_applied` is at the end (it uses `Lemmas/Oracle.lean`).
-/
namespace Badger

/-! ## The property theorems -/

/-- **`doneUntil` never decreases**: along any sequence of marks, from any reachable state. -/
theorem C34_monotone (ms ns : List Mark) :
    (WM.init.run ms).doneUntil ≤ (WM.init.run (ms ++ ns)).doneUntil := by
  rw [WM.run_append]
  exact (WM.runW_trans _ (WM.run_inv ms) ns).mono

/-- **`doneUntil` is never ahead of a pending index**: in every reachable state every index whose
    `pending` count is positive (more `Begin`s than `Done`s since it was last popped) is
    `≥ doneUntil`. No hypothesis on the order of the marks. -/
theorem C34_not_ahead (ms : List Mark) (i : Nat) (h : (WM.init.run ms).pending.val i > 0) :
    (WM.init.run ms).doneUntil ≤ i := by
  have hI := WM.run_inv ms
  exact hI.heapGe i ((hI.sync i).mpr (Pending.val_pos_isSome _ _ h))

/-- **Waiters**: after every mark (a) no stored waiter has `idx ≤ doneUntil`, (b) every waiter
    released by the step is released with `doneUntil ≥` its index, (c) no waiter is lost: one that
    was stored before the step is still stored or has just been released. -/
theorem C34_waiters_released (ms : List Mark) (m : Mark) :
    let s := WM.init.run ms
    let r := s.step m
    (∀ k ∈ r.1.waiters.flat, r.1.doneUntil < k.idx) ∧
    (∀ k ∈ r.2, k.idx ≤ r.1.doneUntil) ∧
    (∀ k ∈ s.waiters.flat, k ∈ r.1.waiters.flat ∨ k ∈ r.2) := by
  intro s r
  have t := WM.step_trans s (WM.run_inv ms) m
  refine ⟨?_, t.woke, t.conserve⟩
  intro k hk
  obtain ⟨p, hp, e, _⟩ := (Waiters.mem_flat _ _).mp hk
  rw [← e]; exact t.inv.wAhead p hp

/-- A `wait` mark is answered immediately iff `doneUntil ≥ idx`, otherwise the waiter is stored
    (so `WaitForMark` returns at once exactly when the index is already done). -/
theorem C34_wait_mark (ms : List Mark) (idx w : Nat) (hf : (WM.init.run ms).failed = false) :
    let s := WM.init.run ms
    let r := s.step (.wait idx w)
    (idx ≤ s.doneUntil → r.2 = [⟨w, idx⟩] ∧ r.1 = s) ∧
    (s.doneUntil < idx → r.2 = [] ∧ ⟨w, idx⟩ ∈ r.1.waiters.flat) := by
  intro s r
  constructor
  · intro h
    simp only [r, WM.step]
    rw [if_neg (by simp [s, hf]), if_pos h]; exact ⟨rfl, rfl⟩
  · intro h
    simp only [r, WM.step]
    rw [if_neg (by simp [s, hf]), if_neg (by omega)]
    exact ⟨rfl, (Waiters.flat_add _ _ _ _).mpr (.inl rfl)⟩

/-- **Both notification paths compute the same result** in every reachable state, for every
    possible new value `til ≥ doneUntil` of the watermark — whichever the
    `until-doneUntil <= len(waiters)` test selects: same remaining `waiters` map, same list of
    released channels. -/
theorem C34_two_notify_paths_equal (ms : List Mark) (til : Nat)
    (h : (WM.init.run ms).doneUntil ≤ til) :
    let s := WM.init.run ms
    notifyRange s.waiters (s.doneUntil + 1) (til - s.doneUntil) = notifyMap s.waiters til := by
  intro s
  have hI := WM.run_inv ms
  exact notifyRange_eq_notifyMap _ _ _ hI.wSorted hI.wAhead h

/-- … and `til ≥ doneUntil` does hold where the code makes the choice: inside `processOne` the
    value `until` produced by the pop loop is `≥ doneUntil` (so the `uint64` subtraction
    `until - doneUntil` cannot wrap). -/
theorem C34_until_ge_doneUntil (ms : List Mark) (i : Nat) (d : Bool)
    (hf : (WM.init.run ms).failed = false) (hle : (WM.init.run ms).doneUntil ≤ i) :
    let s := WM.init.run ms
    let h1 := if (s.pending i).isSome then s.heap else heapPush i s.heap
    let p1 := s.pending.set i (s.pending.val i + (if d then -1 else 1))
    s.doneUntil ≤ (popLoop p1 h1 s.doneUntil).2.2 := by
  intro s h1 p1
  obtain ⟨_, _, e1, e2, sp, _⟩ := WM.processOne_eq s (WM.run_inv ms) i d hf hle
  subst e1 e2
  exact sp.mono

/-- **The `doneUntil > index` assertion never fires** for a watermark opened at `n` and used with
    matched `Done`s and non-decreasing `Begin`s (both watermarks of the oracle). -/
theorem C34_no_assert (n : Nat) (ms : List Mark) (hok : marksOK false (Ghost.opened n) ms) :
    ((WM.opened n).run ms).failed = false :=
  (WM.run_ghost _ _ (WM.opened_inv n) (WM.opened_grel n) ms false hok (by simp)).1.live

/-- **Strict form of `C34_not_ahead`**: when every index is begun at most once and in
    increasing order (`txnMark`), `doneUntil` is *strictly* below every pending index. Without
    "begun once" the statement is false (`C34_not_ahead_strict_needs_once`). -/
theorem C34_not_ahead_strict (n : Nat) (ms : List Mark) (hok : marksOK true (Ghost.opened n) ms)
    (i : Nat) (h : ((WM.opened n).run ms).pending.val i > 0) : ((WM.opened n).run ms).doneUntil < i :=
  (WM.run_ghost _ _ (WM.opened_inv n) (WM.opened_grel n) ms true hok (fun _ => WM.opened_strict n)).2 rfl i h

/-- Re-beginning the index the watermark stands on (two readers with the same read timestamp,
    `readMark`) gives `pending i > 0` with `doneUntil = i`: strictness really needs "begun once". -/
theorem C34_not_ahead_strict_needs_once :
    let s := (WM.opened 4).run [.begin 5, .done 5, .begin 5]
    marksOK false (Ghost.opened 4) [.begin 5, .done 5, .begin 5] ∧ s.pending.val 5 > 0 ∧ s.doneUntil = 5 := by
  decide

/-- `pending` is exactly "Begins minus Dones" under the discipline. -/
theorem C34_pending_is_net (n : Nat) (ms : List Mark) (hok : marksOK false (Ghost.opened n) ms) (i : Nat) :
    ((WM.opened n).run ms).pending.val i = netCount (ms.flatMap Mark.procs) i := by
  have h := (WM.run_ghost _ _ (WM.opened_inv n) (WM.opened_grel n) ms false hok (by simp)).1
  rw [h.cnt, Ghost.run_cnt]; simp [Ghost.opened]

/-- **Progress**: for a watermark opened at `n` and used with matched `Done`s and non-decreasing
    `Begin`s, if `t` is `n` or occurs in some `Begin`/`Done` mark, and every index `≤ t` has been
    `Done` as often as it was begun, then `doneUntil ≥ t`. -/
theorem C34_progress (n : Nat) (ms : List Mark) (hok : marksOK false (Ghost.opened n) ms) (t : Nat)
    (hseen : t = n ∨ ∃ p ∈ ms.flatMap Mark.procs, p.1 = t)
    (hdone : ∀ i ≤ t, netCount (ms.flatMap Mark.procs) i = 0) :
    t ≤ ((WM.opened n).run ms).doneUntil := by
  have hI : ((WM.opened n).run ms).Inv := (WM.runW_trans _ (WM.opened_inv n) ms).inv
  have h := (WM.run_ghost _ _ (WM.opened_inv n) (WM.opened_grel n) ms false hok (by simp)).1
  have hs : (Ghost.run (Ghost.opened n) ms).seen t := by
    rw [Ghost.run_seen]
    rcases hseen with e | e
    · right; simp [Ghost.opened, e]
    · left; exact e
  rcases h.seen t hs with hm | hl
  · exfalso
    cases hh : ((WM.opened n).run ms).heap with
    | nil => rw [hh] at hm; simp at hm
    | cons x rest =>
      have hpos := hI.headPos x rest hh
      have hxt : x ≤ t := by
        have hs := hI.heapSorted
        have hm' : t ∈ ((WM.opened n).run ms).heap := hm
        rw [hh] at hs hm'
        rcases List.mem_cons.mp hm' with e | hm'
        · omega
        · exact Nat.le_of_lt ((List.pairwise_cons.mp hs).1 t hm')
      have : ((WM.opened n).run ms).pending.val x = 0 := by
        rw [C34_pending_is_net n ms hok]; exact hdone x hxt
      have hpos' : ((WM.opened n).run ms).pending.val x > 0 := hpos
      omega
  · exact hl

/-- **No reader is stranded**: under the discipline, a waiter registered for `idx` anywhere in
    the run has been released as soon as `doneUntil ≥ idx` (together with `C34_progress`: as
    soon as every begun index `≤ idx` is done, provided `idx` itself was begun). -/
theorem C34_waiter_not_stranded (n : Nat) (ms : List Mark) (hok : marksOK false (Ghost.opened n) ms)
    (idx w : Nat) (hreg : Mark.wait idx w ∈ ms) (hdone : idx ≤ ((WM.opened n).run ms).doneUntil) :
    (⟨w, idx⟩ : Wakeup) ∈ ((WM.opened n).runW ms).2 := by
  have hnf := C34_no_assert n ms hok
  rcases WM.runW_conserve _ (WM.opened_inv n) ms hnf ⟨w, idx⟩ (.inl hreg) with h | h
  · exfalso
    obtain ⟨p, hp, e, _⟩ := (Waiters.mem_flat _ _).mp h
    have := (WM.runW_trans _ (WM.opened_inv n) ms).inv.wAhead p hp
    simp only at e
    have h2 : ((WM.opened n).runW ms).1.doneUntil = ((WM.opened n).run ms).doneUntil := rfl
    rw [h2] at this
    omega
  · exact h

-- non-vacuity of the discipline: a txnMark-like and a readMark-like trace
example : marksOK true (Ghost.opened 4) [.begin 5, .begin 6, .wait 6 1, .done 6, .done 5] := by decide
example : marksOK false (Ghost.opened 4) [.begin 4, .begin 4, .done 4, .begin 5, .done 4, .done 5] := by
  decide
example : ((WM.opened 4).run [.begin 5, .begin 6, .wait 6 1, .done 6, .done 5]).doneUntil = 6 := by decide

-- non-vacuity / concrete runs (both notification paths are exercised)
example : (WM.init.run [.begin 3, .wait 3 1, .begin 5, .done 5, .done 3]).doneUntil = 5 := by decide
example : (WM.init.runW [.begin 3, .wait 3 1, .begin 5, .done 5, .done 3]).2 = [⟨1, 3⟩] := by decide
example : usesRangePath 0 5 1 = false ∧ usesRangePath 0 1 1 = true := by decide
example : (WM.init.runW [.begin 1, .wait 1 7, .done 1]).2 = [⟨7, 1⟩] := by decide
example : (WM.init.run [.begin 3, .begin 5, .done 5]).pending.val 3 > 0 := by decide


/-! ## Oracle level (`BadgerModel/Oracle.lean`): a transaction never starts at a timestamp while a
commit at or below it is still being applied

`OReach false d n s`: all reachable states of the oracle transition system in normal mode, any
number of transactions, any interleaving, the two `process` goroutines lagging arbitrarily. -/

/-- **`readTs` sees only applied commits.** In every reachable state, a transaction whose
    `NewTransaction` has returned (phase `active`, later `closing`/`closed`) with read timestamp `r`
    satisfies: every commit timestamp `≤ r` that was ever handed out has had `doneCommit` called —
    which the write pipeline does only after the memtable write. (All such timestamps were handed
    out before the transaction began: later ones are `> r`, `C03_ts_unique_increasing`.) -/
theorem C34_readTs_sees_applied {d : Bool} {n : Nat} {s : Sys} (h : OReach false d n s) (tid : Nat)
    (x : TxnSt) (hx : s.txns[tid]? = some x)
    (hret : x.phase = .active ∨ x.phase = .closing ∨ x.phase = .closed) :
    ∀ e ∈ s.hist, e.ts ≤ x.t.readTs → e.ts ∈ s.doneCommits :=
  h.inv.applied x (List.mem_of_getElem? hx) hret

/-- The guard itself: whenever `txnMark.DoneUntil() ≥ r` holds *now* (the `WaitForMark` fast path),
    every handed-out commit timestamp `≤ r` has been reported done; and `WaitForMark`'s wake-up is
    only sent with `DoneUntil() ≥ r` (`C34_waiters_released`). -/
theorem C34_doneUntil_means_applied {d : Bool} {n : Nat} {s : Sys} (h : OReach false d n s) (r : Nat)
    (hr : r ≤ s.o.txnMark.doneUntil) : ∀ e ∈ s.hist, e.ts ≤ r → e.ts ∈ s.doneCommits :=
  h.inv.applied_of_doneUntil r hr

/-- Both watermarks of the oracle are used within the discipline of `C34_no_assert` /
    `C34_not_ahead_strict` / `C34_progress`: the marks sent to `readMark` are matched and
    non-decreasing, those sent to `txnMark` matched and strictly increasing; neither `process`
    goroutine (nor `newCommitTs`/`cleanup`) ever asserts. -/
theorem C34_oracle_discipline {d : Bool} {n : Nat} {s : Sys} (h : OReach false d n s) :
    marksOK false (Ghost.opened n) s.rmSent ∧ marksOK true (Ghost.opened n) s.tmSent ∧
    s.o.readMark.virt = (WM.opened n).run s.rmSent ∧ s.o.txnMark.virt = (WM.opened n).run s.tmSent ∧
    s.crashed = false :=
  ⟨h.inv.rmOK, h.inv.tmOK, h.inv.rmTracks.virt, h.inv.tmTracks.virt, h.inv.live⟩

/-- `DoneUntil()` read now never exceeds what it will be once the channel is drained (the process
    goroutine only lags), for both watermarks. -/
theorem C34_doneUntil_lags {d : Bool} {n : Nat} {s : Sys} (h : OReach false d n s) :
    s.o.readMark.doneUntil ≤ s.o.readMark.virt.doneUntil ∧
    s.o.txnMark.doneUntil ≤ s.o.txnMark.virt.doneUntil := by
  have hI := h.inv
  rw [hI.rmTracks.virt, hI.tmTracks.virt]
  exact ⟨hI.rmTracks.le_virt, hI.tmTracks.le_virt⟩

/-- **No reader is stranded (oracle level).** In every reachable state in which `txnMark`'s channel
    is drained (`process` has caught up), a transaction still parked in `WaitForMark` with read
    timestamp `r` is waiting for a commit timestamp `≤ r` that was handed out and has not been
    reported done. Contrapositive: once every commit at or below its read timestamp is done and
    `process` has handled the marks, `NewTransaction` has returned. -/
theorem C34_reader_released {d : Bool} {n : Nat} {s : Sys} (h : OReach false d n s)
    (hq : s.o.txnMark.q = []) (tid : Nat) (x : TxnSt) (hx : s.txns[tid]? = some x)
    (hp : x.phase = .parked) : ∃ e ∈ s.hist, e.ts ≤ x.t.readTs ∧ e.ts ∉ s.doneCommits :=
  SysInv.parked_has_reason h hq tid x hx hp

/-- **`txnMark` never reports a timestamp done that has not been handed out yet** (nor `readMark` a
    read timestamp that could not have been handed out): `DoneUntil() < nextTxnTs` for both marks in
    every reachable state — also in the states right after a commit was rejected by
    `sendToWriteCh` (its timestamp stays consumed: `doneCommit`). If the timestamp were handed back
    (`nextTxnTs = cts` with `txnMark.Done(cts)`, seeded/C03-abort-commit-ts-reuse) the next commit would
    be considered applied before it is written and `C34_readTs_sees_applied` would fail. -/
theorem C34_marks_below_next {d : Bool} {n : Nat} {s : Sys} (h : OReach false d n s) :
    s.o.txnMark.doneUntil < s.o.nextTxnTs ∧ s.o.readMark.doneUntil < s.o.nextTxnTs := by
  have hI := h.inv
  refine ⟨?_, hI.readDoneUntil_lt⟩
  have h1 := hI.tmTracks.le_virt
  have h2 := hI.tmVirt.1.duLe
  have h3 := hI.tmMax
  simp only [AWM.doneUntil]
  omega

-- non-vacuity: a reader that starts while commit 1 is in flight parks, and is released by doneCommit
example : (((Sys.opened false true 0).runLabels
    [.procTxnMark, .begin true, .waitCheck 0, .write 0 1, .commit 0, .begin false, .waitCheck 1,
     .procTxnMark, .procTxnMark]).map (fun s => (s.txns.map (·.phase), s.o.txnMark.doneUntil))) =
    some ([.closed, .parked], 0) := by decide
example : (((Sys.opened false true 0).runLabels
    [.procTxnMark, .begin true, .waitCheck 0, .write 0 1, .commit 0, .begin false, .waitCheck 1,
     .procTxnMark, .procTxnMark, .doneCommit 1, .procTxnMark]).map
      (fun s => (s.txns.map (·.phase), s.o.txnMark.doneUntil, s.doneCommits))) =
    some ([.closed, .active], 1, [1]) := by decide

end Badger
