import BadgerModel.DirLock
import BadgerModel.Extracted
/-!
# C35 — directory locking excludes a second writer

All theorems quantify over every state reachable by an arbitrary finite sequence of
open / close / kill attempts of any number of DB instances in any number of processes,
with shared or separate `Dir` / `ValueDir`, and any path-to-directory resolution `ρ`
(two paths may name the same directory).

Trusted: the kernel's `flock` behaves as `DirLock.flock` / `DirLock.unflock`.
-/
namespace Badger
open DirLock

namespace DirLock

/-- number of guards `g` held by all open instances -/
def cntS (insts : List Inst) (g : Guard) : Nat := (insts.map (fun x => x.guards.count g)).sum

/-- the lock state of one directory agrees with the numbers of exclusive / shared guards -/
def P (l : LockSt) (rw ro : Nat) : Prop :=
  (rw = 0 ∧ l = (match ro with | 0 => LockSt.free | k + 1 => LockSt.shared k)) ∨
  (rw = 1 ∧ ro = 0 ∧ l = LockSt.exclusive)

def Cons (locks : Nat → LockSt) (c : Guard → Nat) : Prop :=
  ∀ d, P (locks d) (c ⟨d, false⟩) (c ⟨d, true⟩)

/-- The invariant: the kernel's lock table is exactly the summary of the guards held by the
    open instances (at most one exclusive guard and then no shared one, …). -/
def Inv (s : Sys) : Prop := Cons s.locks (cntS s.insts)

theorem P_flock {l : LockSt} {rw ro : Nat} (h : P l rw ro) (b : Bool) {l' : LockSt}
    (hf : flock l b = some l') :
    P l' (if b then rw else rw + 1) (if b then ro + 1 else ro) := by
  rcases h with ⟨h1, h2⟩ | ⟨h1, h2, h3⟩
  · subst h1
    cases ro with
    | zero =>
      subst h2
      cases b <;> simp [flock] at hf <;> subst hf <;> simp [P]
    | succ k =>
      subst h2
      cases b <;> simp [flock] at hf
      subst hf; simp [P]
  · subst h1; subst h2; subst h3
    cases b <;> simp [flock] at hf

theorem P_unflock {l : LockSt} {rw ro : Nat} (h : P l rw ro) (b : Bool)
    (hpos : if b then 1 ≤ ro else 1 ≤ rw) :
    P (unflock l b) (if b then rw else rw - 1) (if b then ro - 1 else ro) := by
  rcases h with ⟨h1, h2⟩ | ⟨h1, h2, h3⟩
  · subst h1
    cases b with
    | false => simp at hpos
    | true =>
      simp at hpos
      cases ro with
      | zero => omega
      | succ k =>
        subst h2
        cases k <;> simp [unflock, P]
  · subst h1; subst h2; subst h3
    cases b with
    | false => simp [unflock, P]
    | true => simp at hpos

theorem upd_same {α : Type} (f : Nat → α) (k : Nat) (v : α) : upd f k v k = v := by simp [upd]
theorem upd_other {α : Type} (f : Nat → α) (k x : Nat) (v : α) (h : x ≠ k) : upd f k v x = f x := by
  simp [upd, h]

/-- taking a lock: one more guard of that kind -/
theorem Cons_acquire {locks : Nat → LockSt} {c c' : Guard → Nat} (hc : Cons locks c)
    (d : Nat) (ro : Bool) {l : LockSt} (hf : flock (locks d) ro = some l)
    (h1 : c' ⟨d, ro⟩ = c ⟨d, ro⟩ + 1) (h2 : ∀ g, g ≠ ⟨d, ro⟩ → c' g = c g) :
    Cons (upd locks d l) c' := by
  intro d'
  by_cases hd : d' = d
  · subst hd
    rw [upd_same]
    have := P_flock (hc d') ro hf
    cases ro with
    | false =>
      have e2 : c' ⟨d', true⟩ = c ⟨d', true⟩ := h2 _ (by simp)
      simp at this; rw [h1, e2]; exact this
    | true =>
      have e2 : c' ⟨d', false⟩ = c ⟨d', false⟩ := h2 _ (by simp)
      simp at this; rw [h1, e2]; exact this
  · rw [upd_other _ _ _ _ hd]
    have e1 : c' ⟨d', false⟩ = c ⟨d', false⟩ := h2 _ (by simp [hd])
    have e2 : c' ⟨d', true⟩ = c ⟨d', true⟩ := h2 _ (by simp [hd])
    rw [e1, e2]; exact hc d'

/-- dropping a lock that is held: one guard of that kind less -/
theorem Cons_release {locks : Nat → LockSt} {c c' : Guard → Nat} (hc : Cons locks c)
    (g : Guard) (hpos : 1 ≤ c g)
    (h1 : c' g = c g - 1) (h2 : ∀ h, h ≠ g → c' h = c h) :
    Cons (upd locks g.dir (unflock (locks g.dir) g.ro)) c' := by
  obtain ⟨d, ro⟩ := g
  intro d'
  by_cases hd : d' = d
  · subst hd
    simp only
    rw [upd_same]
    have := P_unflock (hc d') ro (by cases ro <;> simpa using hpos)
    cases ro with
    | false =>
      have e2 : c' ⟨d', true⟩ = c ⟨d', true⟩ := h2 _ (by simp)
      simp at this; rw [h1, e2]; exact this
    | true =>
      have e2 : c' ⟨d', false⟩ = c ⟨d', false⟩ := h2 _ (by simp)
      simp at this; rw [h1, e2]; exact this
  · simp only
    rw [upd_other _ _ _ _ hd]
    have e1 : c' ⟨d', false⟩ = c ⟨d', false⟩ := h2 _ (by simp [hd])
    have e2 : c' ⟨d', true⟩ = c ⟨d', true⟩ := h2 _ (by simp [hd])
    rw [e1, e2]; exact hc d'

theorem Cons_congr {locks : Nat → LockSt} {c c' : Guard → Nat} (hc : Cons locks c)
    (h : ∀ g, c' g = c g) : Cons locks c' := by
  intro d; rw [h, h]; exact hc d

/-! ### release / dropLock on the lock table -/

/-- both ways of giving up a guard act the same on the lock table -/
def LockDrop (f : Sys → Guard → Sys) : Prop :=
  ∀ s g, (f s g).locks = upd s.locks g.dir (unflock (s.locks g.dir) g.ro) ∧ (f s g).insts = s.insts

theorem release_lockDrop : LockDrop release := by intro s g; exact ⟨rfl, rfl⟩
theorem dropLock_lockDrop : LockDrop dropLock := by intro s g; exact ⟨rfl, rfl⟩

theorem foldl_guards_insts {f : Sys → Guard → Sys} (hf : LockDrop f) (gs : List Guard) (s : Sys) :
    (gs.foldl f s).insts = s.insts := by
  induction gs generalizing s with
  | nil => rfl
  | cons g gs ih => simp only [List.foldl_cons]; rw [ih, (hf s g).2]

/-- giving up a list of held guards -/
theorem Cons_foldl_guards {f : Sys → Guard → Sys} (hf : LockDrop f) (gs : List Guard) :
    ∀ (s : Sys) (c : Guard → Nat), Cons s.locks c → (∀ g, gs.count g ≤ c g) →
      Cons (gs.foldl f s).locks (fun g => c g - gs.count g) := by
  induction gs with
  | nil => intro s c hc _; simpa using hc
  | cons g gs ih =>
    intro s c hc hle
    simp only [List.foldl_cons]
    have hg : 1 ≤ c g := by have := hle g; simp at this; omega
    have h1 : Cons (f s g).locks (fun h => if h = g then c h - 1 else c h) := by
      rw [(hf s g).1]
      exact Cons_release hc g hg (by simp) (by intro h hh; simp [hh])
    have := ih (f s g) _ h1 (by
      intro h
      have := hle h
      by_cases e : h = g
      · subst e; simp at this ⊢; omega
      · have e' : (g == h) = false := by simp; exact fun x => e x.symm
        simp [List.count_cons, e, e'] at this ⊢; exact this)
    refine Cons_congr this ?_
    intro h
    by_cases e : h = g
    · subst e; simp; omega
    · have e' : (g == h) = false := by simp; exact fun x => e x.symm
      simp [List.count_cons, e, e']

theorem cntS_cons (x : Inst) (xs : List Inst) (g : Guard) :
    cntS (x :: xs) g = x.guards.count g + cntS xs g := by simp [cntS]

theorem cntS_filter (p : Inst → Bool) (xs : List Inst) (g : Guard) :
    cntS xs g = cntS (xs.filter p) g + cntS (xs.filter (fun x => !p x)) g := by
  induction xs with
  | nil => simp [cntS]
  | cons x xs ih =>
    by_cases hp : p x = true
    · simp [List.filter_cons, hp, cntS_cons]; omega
    · have hp' : p x = false := by simpa using hp
      simp [List.filter_cons, hp', cntS_cons]; omega

/-- giving up all guards of a list of instances -/
theorem Cons_foldl_insts {f : Sys → Guard → Sys} (hf : LockDrop f) (dead : List Inst) :
    ∀ (s : Sys) (c : Guard → Nat), Cons s.locks c → (∀ g, cntS dead g ≤ c g) →
      Cons (dead.foldl (fun acc x => x.guards.foldl f acc) s).locks (fun g => c g - cntS dead g) := by
  induction dead with
  | nil => intro s c hc _; simpa [cntS] using hc
  | cons x xs ih =>
    intro s c hc hle
    simp only [List.foldl_cons]
    have h1 := Cons_foldl_guards hf x.guards s c hc (by
      intro g; have := hle g; rw [cntS_cons] at this; omega)
    have := ih (x.guards.foldl f s) _ h1 (by
      intro g; have := hle g; rw [cntS_cons] at this; omega)
    refine Cons_congr this ?_
    intro g; rw [cntS_cons]; omega

theorem foldl_insts_insts {f : Sys → Guard → Sys} (hf : LockDrop f) (dead : List Inst) (s : Sys) :
    (dead.foldl (fun acc x => x.guards.foldl f acc) s).insts = s.insts := by
  induction dead generalizing s with
  | nil => rfl
  | cons x xs ih => simp only [List.foldl_cons]; rw [ih, foldl_guards_insts hf]

theorem Inv_removeInsts {f : Sys → Guard → Sys} (hf : LockDrop f) (p : Inst → Bool) (s : Sys)
    (h : Inv s) : Inv (removeInsts f p s) := by
  unfold Inv removeInsts
  simp only
  have := Cons_foldl_insts hf (s.insts.filter p) s (cntS s.insts) h (by
    intro g; have := cntS_filter p s.insts g; omega)
  refine Cons_congr this ?_
  intro g; have := cntS_filter p s.insts g; omega

/-! ### open -/

theorem acquire_locks {s s1 : Sys} {d : Nat} {ro : Bool} {p : Nat} (h : acquire s d ro p = some s1) :
    ∃ l, flock (s.locks d) ro = some l ∧ s1.locks = upd s.locks d l ∧ s1.insts = s.insts := by
  unfold acquire at h
  split at h
  · cases h
  · rename_i l hl
    cases h
    exact ⟨l, hl, rfl, rfl⟩

theorem unflock_flock {l l' : LockSt} {ro : Bool} (h : flock l ro = some l') : unflock l' ro = l := by
  cases l <;> cases ro <;> simp [flock] at h <;> subst h <;> simp [unflock]

/-- a lock taken and given up again leaves the lock table as it was -/
theorem acquire_release_locks {s s1 : Sys} {d : Nat} {ro : Bool} {p : Nat}
    (h : acquire s d ro p = some s1) :
    upd s1.locks d (unflock (s1.locks d) ro) = s.locks := by
  obtain ⟨l, hl, e, _⟩ := acquire_locks h
  funext x
  rw [e]
  by_cases hx : x = d
  · subst hx; simp [upd, unflock_flock hl]
  · simp [upd, hx]

theorem hasInst_false_iff (s : Sys) (i : Nat) : hasInst s i = false ↔ ∀ x ∈ s.insts, x.id ≠ i := by
  simp [hasInst]

end DirLock

/-- A failed `Open` (lock conflict on either directory, or any later failure) leaves the lock
    table and the set of open instances exactly as they were: no lock leaks, and the guard on
    `Dir` is given back when `ValueDir` cannot be locked. -/
theorem C35_no_leak_on_failed_open (ρ : Nat → Nat) (s : Sys) (a : OpenArgs)
    (h : (openDb ρ s a).2 ≠ Res.ok) :
    (openDb ρ s a).1.locks = s.locks ∧ (openDb ρ s a).1.insts = s.insts := by
  unfold openDb at h ⊢
  by_cases h0 : hasInst s a.inst = true
  · simp [h0]
  · simp only [h0] at h ⊢
    by_cases hb : a.bypass = true
    · simp only [hb, if_true] at h ⊢
      by_cases hfl : a.failLater = true
      · simp [hfl]
      · simp [hfl] at h
    · simp only [hb] at h ⊢
      cases h1 : acquire s (ρ a.dirPath) a.ro a.proc with
      | none => simp
      | some s1 =>
        simp only [h1] at h ⊢
        obtain ⟨l1, hl1, e1, i1⟩ := acquire_locks h1
        by_cases hv : a.vdirPath = a.dirPath
        · simp only [hv, if_true] at h ⊢
          by_cases hfl : a.failLater = true
          · simp only [hfl, if_true]
            exact ⟨acquire_release_locks h1, i1⟩
          · simp [hfl] at h
        · simp only [hv, if_false] at h ⊢
          cases h2 : acquire s1 (ρ a.vdirPath) a.ro a.proc with
          | none =>
            simp only
            exact ⟨acquire_release_locks h1, i1⟩
          | some s2 =>
            simp only [h2] at h ⊢
            obtain ⟨l2, hl2, e2, i2⟩ := acquire_locks h2
            by_cases hfl : a.failLater = true
            · simp only [hfl, if_true]
              refine ⟨?_, by simp [release, i2, i1]⟩
              have r2 : (release s2 ⟨ρ a.vdirPath, a.ro⟩).locks = s1.locks := acquire_release_locks h2
              show upd (release s2 ⟨ρ a.vdirPath, a.ro⟩).locks (ρ a.dirPath)
                (unflock ((release s2 ⟨ρ a.vdirPath, a.ro⟩).locks (ρ a.dirPath)) a.ro) = s.locks
              rw [r2]; exact acquire_release_locks h1
            · simp [hfl] at h

namespace DirLock

theorem Inv_openDb (ρ : Nat → Nat) (s : Sys) (a : OpenArgs) (h : Inv s) : Inv (openDb ρ s a).1 := by
  by_cases hok : (openDb ρ s a).2 = Res.ok
  · unfold openDb at hok ⊢
    by_cases h0 : hasInst s a.inst = true
    · simp [h0] at hok
    · simp only [h0, Bool.false_eq_true, ↓reduceIte] at hok ⊢
      by_cases hb : a.bypass = true
      · simp only [hb, if_true] at hok ⊢
        by_cases hfl : a.failLater = true
        · simp [hfl] at hok
        · simp only [hfl, Bool.false_eq_true, ↓reduceIte]
          refine Cons_congr h ?_
          intro g; simp [cntS_cons]
      · simp only [hb, Bool.false_eq_true, ↓reduceIte] at hok ⊢
        cases h1 : acquire s (ρ a.dirPath) a.ro a.proc with
        | none => simp [h1] at hok
        | some s1 =>
          simp only [h1] at hok ⊢
          obtain ⟨l1, hl1, e1, i1⟩ := acquire_locks h1
          have c1 : Cons s1.locks (fun g => cntS s.insts g + if g = ⟨ρ a.dirPath, a.ro⟩ then 1 else 0) := by
            rw [e1]
            exact Cons_acquire h _ _ hl1 (by simp) (by intro g hg; simp [hg])
          by_cases hv : a.vdirPath = a.dirPath
          · simp only [hv, if_true] at hok ⊢
            by_cases hfl : a.failLater = true
            · simp [hfl] at hok
            · simp only [hfl, Bool.false_eq_true, ↓reduceIte]
              refine Cons_congr c1 ?_
              intro g
              simp only [cntS_cons, i1]
              by_cases e : g = ⟨ρ a.dirPath, a.ro⟩
              · subst e; simp; omega
              · have e' : ((⟨ρ a.dirPath, a.ro⟩ : Guard) == g) = false := by
                  simp; exact fun x => e x.symm
                simp [e, List.count_cons, e']
          · simp only [hv, if_false] at hok ⊢
            cases h2 : acquire s1 (ρ a.vdirPath) a.ro a.proc with
            | none => simp [h2] at hok
            | some s2 =>
              simp only [h2] at hok ⊢
              obtain ⟨l2, hl2, e2, i2⟩ := acquire_locks h2
              by_cases hfl : a.failLater = true
              · simp [hfl] at hok
              · simp only [hfl, Bool.false_eq_true, ↓reduceIte]
                have c2 : Cons s2.locks (fun g => (cntS s.insts g + if g = ⟨ρ a.dirPath, a.ro⟩ then 1 else 0)
                    + if g = ⟨ρ a.vdirPath, a.ro⟩ then 1 else 0) := by
                  rw [e2]
                  exact Cons_acquire c1 _ _ hl2 (by simp) (by intro g hg; simp [hg])
                refine Cons_congr c2 ?_
                intro g
                simp only [cntS_cons, i2, i1]
                by_cases ea : g = ⟨ρ a.dirPath, a.ro⟩ <;> by_cases eb : g = ⟨ρ a.vdirPath, a.ro⟩
                · subst ea
                  have : ρ a.vdirPath = ρ a.dirPath := by
                    have := congrArg Guard.dir eb; simpa using this.symm
                  simp [List.count_cons, this]; omega
                · subst ea
                  have e' : ((⟨ρ a.vdirPath, a.ro⟩ : Guard) == ⟨ρ a.dirPath, a.ro⟩) = false := by
                    simp; intro x; exact eb (by simp [x])
                  simp [List.count_cons, e', eb]; omega
                · subst eb
                  have e' : ((⟨ρ a.dirPath, a.ro⟩ : Guard) == ⟨ρ a.vdirPath, a.ro⟩) = false := by
                    simp; intro x; exact ea (by simp [x])
                  simp [List.count_cons, e', ea]; omega
                · have e1' : ((⟨ρ a.dirPath, a.ro⟩ : Guard) == g) = false := by
                    simp; exact fun x => ea x.symm
                  have e2' : ((⟨ρ a.vdirPath, a.ro⟩ : Guard) == g) = false := by
                    simp; exact fun x => eb x.symm
                  simp [List.count_cons, e1', e2', ea, eb]
  · obtain ⟨hl, hi⟩ := C35_no_leak_on_failed_open ρ s a hok
    unfold Inv; rw [hl, hi]; exact h

theorem Inv_step (ρ : Nat → Nat) (s : Sys) (o : Op) (h : Inv s) : Inv (step ρ s o).1 := by
  cases o with
  | openDb a => exact Inv_openDb ρ s a h
  | closeDb i => exact Inv_removeInsts release_lockDrop _ s h
  | crash p => exact Inv_removeInsts dropLock_lockDrop _ s h

theorem Inv_init : Inv Sys.init := by
  intro d; simp [Sys.init, cntS, P]

theorem Inv_run (ρ : Nat → Nat) (ops : List Op) : ∀ s, Inv s → Inv (run ρ s ops) := by
  induction ops with
  | nil => intro s h; exact h
  | cons o os ih => intro s h; exact ih _ (Inv_step ρ s o h)

theorem Reach_Inv {ρ : Nat → Nat} {s : Sys} (h : Reach ρ s) : Inv s := by
  obtain ⟨ops, rfl⟩ := h
  exact Inv_run ρ ops _ Inv_init

theorem cntS_pos_of_mem {insts : List Inst} {x : Inst} {g : Guard} (hx : x ∈ insts)
    (hg : g ∈ x.guards) : 1 ≤ cntS insts g := by
  induction insts with
  | nil => cases hx
  | cons y ys ih =>
    rw [cntS_cons]
    rcases List.mem_cons.mp hx with e | e
    · subst e
      have : 0 < x.guards.count g := List.count_pos_iff.mpr hg
      omega
    · have := ih e; omega

theorem count_le_cntS {insts : List Inst} {x : Inst} (hx : x ∈ insts) (g : Guard) :
    x.guards.count g ≤ cntS insts g := by
  induction insts with
  | nil => cases hx
  | cons y ys ih =>
    rw [cntS_cons]
    rcases List.mem_cons.mp hx with e | e
    · subst e; omega
    · have := ih e; omega

theorem cntS_zero_of_none {insts : List Inst} {g : Guard} (h : ∀ x ∈ insts, g ∉ x.guards) :
    cntS insts g = 0 := by
  induction insts with
  | nil => simp [cntS]
  | cons y ys ih =>
    rw [cntS_cons, ih (fun x hx => h x (List.mem_cons_of_mem _ hx))]
    have := h y (List.mem_cons_self ..)
    simp [List.count_eq_zero.mpr this]

/-- instance `i` is open and holds directory `d` exclusively (read-write) -/
def holdsRW (s : Sys) (i d : Nat) : Prop := ∃ x ∈ s.insts, x.id = i ∧ (⟨d, false⟩ : Guard) ∈ x.guards

theorem exclusive_of_holdsRW {s : Sys} (h : Inv s) {i d : Nat} (hh : holdsRW s i d) :
    s.locks d = LockSt.exclusive := by
  obtain ⟨x, hx, _, hg⟩ := hh
  have := cntS_pos_of_mem hx hg
  rcases h d with ⟨h1, _⟩ | ⟨_, _, h3⟩
  · omega
  · exact h3

end DirLock

/-- **Exclusion.** While an instance (in this or any other process) holds directory `d`
    read-write, every other `Open` — read-write or read-only — whose `Dir` or `ValueDir`
    resolves to `d` fails with the lock error, and leaves the lock table untouched. -/
theorem C35_exclusion (ρ : Nat → Nat) (s : Sys) (hr : Reach ρ s) (i d : Nat) (hh : holdsRW s i d)
    (a : OpenArgs) (hb : a.bypass = false) (hfresh : hasInst s a.inst = false)
    (hd : ρ a.dirPath = d ∨ ρ a.vdirPath = d) :
    (step ρ s (.openDb a)).2 = Res.locked ∧ (step ρ s (.openDb a)).1.locks = s.locks := by
  have hex := exclusive_of_holdsRW (Reach_Inv hr) hh
  have hres : (openDb ρ s a).2 = Res.locked := by
    unfold openDb
    simp only [hfresh, hb]
    cases h1 : acquire s (ρ a.dirPath) a.ro a.proc with
    | none => simp
    | some s1 =>
      obtain ⟨l1, hl1, e1, _⟩ := acquire_locks h1
      have hne : ρ a.dirPath ≠ d := by
        intro e; rw [e, hex] at hl1; simp [flock] at hl1
      have hvd : ρ a.vdirPath = d := by rcases hd with h | h; exact absurd h hne; exact h
      have hv : a.vdirPath ≠ a.dirPath := by intro e; rw [e] at hvd; exact hne hvd
      simp only [Bool.false_eq_true, if_false, hv]
      have : acquire s1 (ρ a.vdirPath) a.ro a.proc = none := by
        unfold acquire
        rw [e1, hvd, upd_other _ _ _ _ (Ne.symm hne), hex]
        simp [flock]
      simp [this]
  refine ⟨hres, ?_⟩
  exact (C35_no_leak_on_failed_open ρ s a (by show (openDb ρ s a).2 ≠ Res.ok; rw [hres]; decide)).1

/-- **Read-only opens coexist.** If nobody holds `Dir` / `ValueDir` read-write (free, or held by
    any number of read-only instances), a read-only `Open` whose later steps do not fail
    succeeds, every instance that was open stays open, and the directories end up share-locked. -/
theorem C35_ro_coexist (ρ : Nat → Nat) (s : Sys) (hr : Reach ρ s) (a : OpenArgs)
    (hro : a.ro = true) (hb : a.bypass = false) (hfl : a.failLater = false)
    (hfresh : hasInst s a.inst = false)
    (hnone : ∀ x ∈ s.insts, (⟨ρ a.dirPath, false⟩ : Guard) ∉ x.guards ∧
                             (⟨ρ a.vdirPath, false⟩ : Guard) ∉ x.guards) :
    (step ρ s (.openDb a)).2 = Res.ok ∧
    (∀ x ∈ s.insts, x ∈ (step ρ s (.openDb a)).1.insts) ∧
    (∃ k, (step ρ s (.openDb a)).1.locks (ρ a.dirPath) = LockSt.shared k) ∧
    (∃ k, (step ρ s (.openDb a)).1.locks (ρ a.vdirPath) = LockSt.shared k) := by
  have hinv := Reach_Inv hr
  have nx : ∀ d, cntS s.insts ⟨d, false⟩ = 0 → s.locks d ≠ LockSt.exclusive := by
    intro d h0 he
    rcases hinv d with ⟨_, h2⟩ | ⟨h1, _, _⟩
    · rw [he] at h2; split at h2 <;> cases h2
    · omega
  have n1 := nx _ (cntS_zero_of_none (fun x hx => (hnone x hx).1))
  have n2 := nx _ (cntS_zero_of_none (fun x hx => (hnone x hx).2))
  have fl : ∀ l : LockSt, l ≠ .exclusive → ∃ k, flock l true = some (.shared k) := by
    intro l hl; cases l with
    | free => exact ⟨0, rfl⟩
    | shared k => exact ⟨k + 1, rfl⟩
    | exclusive => exact absurd rfl hl
  obtain ⟨k1, hk1⟩ := fl _ n1
  show (openDb ρ s a).2 = Res.ok ∧ (∀ x ∈ s.insts, x ∈ (openDb ρ s a).1.insts) ∧
    (∃ k, (openDb ρ s a).1.locks (ρ a.dirPath) = LockSt.shared k) ∧
    (∃ k, (openDb ρ s a).1.locks (ρ a.vdirPath) = LockSt.shared k)
  unfold openDb
  simp only [hfresh, hb, hfl, hro, acquire, hk1, Bool.false_eq_true, if_false, if_true]
  by_cases hv : a.vdirPath = a.dirPath
  · simp only [hv, if_true]
    refine ⟨by simp, fun x hx => by simp [hx], ⟨k1, by simp [upd]⟩, ⟨k1, by simp [upd]⟩⟩
  · simp only [hv, if_false]
    have n2' : upd s.locks (ρ a.dirPath) (LockSt.shared k1) (ρ a.vdirPath) ≠ LockSt.exclusive := by
      by_cases e : ρ a.vdirPath = ρ a.dirPath
      · rw [e, upd_same]; simp
      · rw [upd_other _ _ _ _ e]; exact n2
    obtain ⟨k2, hk2⟩ := fl _ n2'
    simp only [hk2]
    refine ⟨by simp, fun x hx => by simp [hx], ?_, ⟨k2, by simp [upd]⟩⟩
    by_cases e : ρ a.dirPath = ρ a.vdirPath
    · exact ⟨k2, by rw [e]; simp [upd]⟩
    · exact ⟨k1, by rw [upd_other _ _ _ _ e]; simp [upd]⟩

/-- **Close releases.** After `Close` of a read-write instance the directories it held are free,
    and a following `Open` of the same `Dir` / `ValueDir` (read-write or read-only, by any
    process) succeeds. -/
theorem C35_release (ρ : Nat → Nat) (s : Sys) (hr : Reach ρ s) (x : Inst) (hx : x ∈ s.insts)
    (dp vp : Nat)
    (hg : (vp = dp ∧ x.guards = [⟨ρ dp, false⟩]) ∨
          (vp ≠ dp ∧ x.guards = [⟨ρ dp, false⟩, ⟨ρ vp, false⟩]))
    (a : OpenArgs) (hd : a.dirPath = dp) (hvd : a.vdirPath = vp)
    (hb : a.bypass = false) (hfl : a.failLater = false)
    (hfresh : hasInst (step ρ s (.closeDb x.id)).1 a.inst = false) :
    (step ρ s (.closeDb x.id)).1.locks (ρ dp) = LockSt.free ∧
    (step ρ s (.closeDb x.id)).1.locks (ρ vp) = LockSt.free ∧
    (step ρ (step ρ s (.closeDb x.id)).1 (.openDb a)).2 = Res.ok := by
  have hinv := Reach_Inv hr
  have hinv' : Inv (step ρ s (.closeDb x.id)).1 := Inv_step ρ s _ hinv
  -- guards of `x` are exclusive guards: before the close nobody else holds these directories
  have key : ∀ d, (⟨d, false⟩ : Guard) ∈ x.guards →
      (step ρ s (.closeDb x.id)).1.locks d = LockSt.free ∧ x.guards.count ⟨d, false⟩ = 1 := by
    intro d hd'
    have hpos := cntS_pos_of_mem hx hd'
    have hrw : cntS s.insts ⟨d, false⟩ = 1 ∧ cntS s.insts ⟨d, true⟩ = 0 := by
      rcases hinv d with ⟨h1, _⟩ | ⟨h1, h2, _⟩
      · omega
      · exact ⟨h1, h2⟩
    have hsplit := fun g => cntS_filter (fun y => y.id == x.id) s.insts g
    have hxin : x ∈ s.insts.filter (fun y => y.id == x.id) := by
      simp [List.mem_filter, hx]
    have hdead : 1 ≤ cntS (s.insts.filter (fun y => y.id == x.id)) ⟨d, false⟩ := cntS_pos_of_mem hxin hd'
    have hcnt : 1 ≤ x.guards.count ⟨d, false⟩ := List.count_pos_iff.mpr hd'
    have hle : x.guards.count ⟨d, false⟩ ≤ cntS s.insts ⟨d, false⟩ := count_le_cntS hx _
    have a1 := hsplit ⟨d, false⟩
    have a2 := hsplit ⟨d, true⟩
    have hlive : (step ρ s (.closeDb x.id)).1.insts = s.insts.filter (fun y => !(y.id == x.id)) := rfl
    refine ⟨?_, by omega⟩
    rcases hinv' d with ⟨_, h2⟩ | ⟨h1, _, _⟩
    · rw [hlive] at h2
      have z : cntS (s.insts.filter (fun y => !(y.id == x.id))) ⟨d, true⟩ = 0 := by omega
      rw [z] at h2; exact h2
    · rw [hlive] at h1; omega
  have hmem1 : (⟨ρ dp, false⟩ : Guard) ∈ x.guards := by rcases hg with ⟨_, e⟩ | ⟨_, e⟩ <;> simp [e]
  have hmem2 : (⟨ρ vp, false⟩ : Guard) ∈ x.guards := by
    rcases hg with ⟨e0, e⟩ | ⟨_, e⟩
    · subst e0; simp [e]
    · simp [e]
  obtain ⟨f1, c1⟩ := key _ hmem1
  obtain ⟨f2, _⟩ := key _ hmem2
  refine ⟨f1, f2, ?_⟩
  show (openDb ρ (step ρ s (.closeDb x.id)).1 a).2 = Res.ok
  have fl : ∀ ro, ∃ l, flock LockSt.free ro = some l := by
    intro ro; cases ro <;> simp [flock]
  obtain ⟨l1, hl1⟩ := fl a.ro
  unfold openDb
  simp only [hfresh, hb, hfl, acquire, hd, hvd, f1, hl1, Bool.false_eq_true, if_false]
  by_cases hv : vp = dp
  · simp [hv]
  · simp only [hv, if_false]
    have hne : ρ vp ≠ ρ dp := by
      intro e
      rcases hg with ⟨e0, _⟩ | ⟨_, eg⟩
      · exact hv e0
      · rw [eg, e] at c1; simp at c1
    rw [upd_other _ _ _ _ hne, f2]
    obtain ⟨l2, hl2⟩ := fl a.ro
    simp [hl2]

namespace DirLock

theorem cntS_append (a b : List Inst) (g : Guard) : cntS (a ++ b) g = cntS a g + cntS b g := by
  simp [cntS]

end DirLock

/-- **No two handles share a directory unless both are read-only.** In every reachable state,
    two different open instances (`x` before `y` in the list of open instances) holding a guard
    on the same directory `d` — as `Dir` or as `ValueDir` of either — both hold it shared: no two
    read-write handles share `Dir` or `ValueDir`, and a read-write handle shares with nobody. -/
theorem C35_no_shared_rw (ρ : Nat → Nat) (s : Sys) (hr : Reach ρ s) (l1 l2 l3 : List Inst)
    (x y : Inst) (hs : s.insts = l1 ++ x :: (l2 ++ y :: l3)) (d : Nat) (rx ry : Bool)
    (hx : (⟨d, rx⟩ : Guard) ∈ x.guards) (hy : (⟨d, ry⟩ : Guard) ∈ y.guards) :
    rx = true ∧ ry = true := by
  have hinv := Reach_Inv hr d
  have hxin : x ∈ s.insts := by rw [hs]; simp
  have hyin : y ∈ s.insts := by rw [hs]; simp
  have cx := cntS_pos_of_mem hxin hx
  have cy := cntS_pos_of_mem hyin hy
  have two : ∀ g : Guard, x.guards.count g + y.guards.count g ≤ cntS s.insts g := by
    intro g
    rw [hs, cntS_append, cntS_cons, cntS_append, cntS_cons]; omega
  cases rx <;> cases ry
  · -- two exclusive guards on one directory
    have := two ⟨d, false⟩
    have a : 1 ≤ x.guards.count ⟨d, false⟩ := List.count_pos_iff.mpr hx
    have b : 1 ≤ y.guards.count ⟨d, false⟩ := List.count_pos_iff.mpr hy
    rcases hinv with ⟨h1, _⟩ | ⟨h1, _, _⟩ <;> omega
  · rcases hinv with ⟨h1, _⟩ | ⟨_, h2, _⟩ <;> omega
  · rcases hinv with ⟨h1, _⟩ | ⟨_, h2, _⟩ <;> omega
  · exact ⟨rfl, rfl⟩

/-- **T-gen.** The decision to lock `ValueDir` separately in `Open` is the comparison
    `absValueDir != absDir` of the two absolute path strings (regenerated from /repo's db.go on
    every run): exactly the model's `a.vdirPath = a.dirPath` test. Any other test (a prefix
    test, a missing test) makes this `decide` fail. -/
theorem C35_tgen_valuedir_cmp : Extracted.op_open_valuedir_cmp = "!=" := by decide

/-! ### non-vacuity: concrete scripts -/

section examples
open DirLock
private def ρ0 : Nat → Nat := fun p => p % 3   -- paths 3,4,5 are second names of directories 0,1,2
private def rwA : OpenArgs := ⟨1, 0, 0, 1, false, false, false⟩   -- Dir 0, ValueDir 1, read-write
private def roB : OpenArgs := ⟨2, 1, 0, 0, true, false, false⟩    -- Dir = ValueDir = 0, read-only, other process
private def rwC : OpenArgs := ⟨3, 1, 2, 1, false, false, false⟩   -- Dir 2, ValueDir 1 (shared with A)
private def roD : OpenArgs := ⟨4, 2, 0, 3, true, false, false⟩    -- Dir 0 and ValueDir "3" = directory 0 again

-- a second opener (read-only, other process) of a directory held read-write is refused
example : (step ρ0 (run ρ0 Sys.init [.openDb rwA]) (.openDb roB)).2 = Res.locked := by decide
-- ValueDir conflict: the Dir lock of the failed open is given back (directory 2 is free again)
example : (step ρ0 (run ρ0 Sys.init [.openDb rwA]) (.openDb rwC)).2 = Res.locked ∧
    (step ρ0 (run ρ0 Sys.init [.openDb rwA]) (.openDb rwC)).1.locks 2 = LockSt.free := by decide
-- read-only instances coexist (also through two names of one directory: two shared guards)
example : (run ρ0 Sys.init [.openDb roB, .openDb roD]).locks 0 = LockSt.shared 2 := by decide
-- after Close the directory can be opened again
example : (step ρ0 (run ρ0 Sys.init [.openDb rwA, .closeDb 1]) (.openDb roB)).2 = Res.ok := by decide
-- a read-write open whose Dir and ValueDir are two names of one directory conflicts with itself
example : (step ρ0 Sys.init (.openDb ⟨5, 0, 0, 3, false, false, false⟩)).2 = Res.locked := by decide
-- two handles with different Dir but the same ValueDir: the second is refused
example : (step ρ0 (run ρ0 Sys.init [.openDb rwA]) (.openDb rwC)).2 = Res.locked := by decide
-- a killed process loses its lock but leaves the pid file
example : (run ρ0 Sys.init [.openDb rwA, .crash 0]).locks 0 = LockSt.free ∧
    (run ρ0 Sys.init [.openDb rwA, .crash 0]).pidf 0 = some 0 := by decide
end examples

end Badger
