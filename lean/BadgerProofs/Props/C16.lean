import BadgerProofs.Lemmas.LogUnits
/-!
# C16 — log records round-trip and replay in transaction units

Model: `BadgerModel/Log.lean` (`encodeEntry`, `decodeEntry`, `safeReadEntry`, `iterate`),
`BadgerModel/Crc.lean`. Encryption is an arbitrary key stream `ks : Nat → UInt8` per record
offset (`cipher off`), the unencrypted file is `noKs`; every theorem holds for all key streams.
`Entry.WF` = what badger can write: `len(key) ≤ 65536`, `len(key)+len(value) < 2^32`,
`expiresAt < 2^64`. `LogUnit.WF` = a non-transactional record, or ≥ 1 records with `bitTxn` and
commit timestamp `ts ≠ 0` in the key followed by a `bitFinTxn` marker whose value parses to `ts`.
-/
namespace Badger

/-- The checksum covers exactly the bytes written before it (header and *encrypted* key‖value),
    stored big-endian in the last four bytes. -/
theorem C16_crc_scope (ks : Nat → UInt8) (e : Entry) :
    encodeEntry ks e = encodeBody ks e ++ beBytes (crc32c (encodeBody ks e)) 4 ∧
    encodeBody ks e = headerEncode (entryHeader e) ++ xorFrom ks 0 (e.key ++ e.value) :=
  ⟨rfl, rfl⟩

/-- The unencrypted record is `header ‖ key ‖ value ‖ crc`. -/
theorem C16_plain_layout (e : Entry) :
    encodeBody noKs e = headerEncode (entryHeader e) ++ e.key ++ e.value := by
  simp [encodeBody, xorFrom_noKs]

/-- `decodeEntry (encodeEntry e) = e` for every key stream (in particular `noKs`, the
    unencrypted file), whatever bytes follow the record in the buffer. -/
theorem C16_roundtrip (ks : Nat → UInt8) (e : Entry) (rest : Bytes)
    (hkv : e.key.length + e.value.length < 2 ^ 32) (hexp : e.expiresAt < 2 ^ 64) :
    decodeEntry ks (encodeEntry ks e ++ rest) = some e :=
  decodeEntry_encode ks e rest hkv hexp

theorem C16_roundtrip_plain (e : Entry) (rest : Bytes)
    (hkv : e.key.length + e.value.length < 2 ^ 32) (hexp : e.expiresAt < 2 ^ 64) :
    decodeEntry noKs (encodeEntry noKs e ++ rest) = some e :=
  decodeEntry_encode noKs e rest hkv hexp

/-- `safeRead.Entry` on a stream that starts with an encoded record returns exactly the entry
    (and `hlen` = header length), checksum verified, whatever follows. -/
theorem C16_safeRead_roundtrip (ks : Nat → UInt8) (e : Entry) (rest : Bytes) (wf : e.WF) :
    safeReadEntry ks (encodeEntry ks e ++ rest) = .ok (e, hdrLen e) :=
  safeRead_encode ks e rest wf

/-- Every strict prefix of a record is a short read (`io.EOF`, `io.ErrUnexpectedEOF` or
    `errTruncate`): never accepted, never an error that aborts `iterate`, never a panic. -/
theorem C16_safeRead_prefix (ks ks' : Nat → UInt8) (e : Entry) (wf : e.WF) (j : Nat)
    (hj : j < (encodeEntry ks e).length) :
    Torn (safeReadEntry ks' ((encodeEntry ks e).take j)) :=
  safeRead_take ks ks' e wf j hj

/-- **Write order and value pointers.** Iterating the concatenation of well-formed units
    delivers exactly their payload records in write order, each with
    `vptr = (fid, offset of the record, encoded length)`; the returned end offset is the end
    of the file content. -/
theorem C16_iterate_order (fid : Nat) (cipher : Nat → Nat → UInt8) (us : List LogUnit)
    (wf : ∀ u ∈ us, u.WF) :
    iterate fid cipher (encodeAll cipher vlogHeaderSize (unitsEntries us)) =
      ⟨none, deliveredUnits fid cipher vlogHeaderSize us,
        vlogHeaderSize + encLen cipher vlogHeaderSize (unitsEntries us)⟩ := by
  unfold iterate
  have hle := length_le_encLen cipher (unitsEntries us) vlogHeaderSize
  have hfuel : (encodeAll cipher vlogHeaderSize (unitsEntries us)).length + 1 =
      (unitsEntries us).length +
        ((encodeAll cipher vlogHeaderSize (unitsEntries us)).length - (unitsEntries us).length + 1) := by
    unfold encLen at hle; omega
  have := iterGo_units fid cipher us
    ((encodeAll cipher vlogHeaderSize (unitsEntries us)).length - (unitsEntries us).length + 1)
    vlogHeaderSize [] wf
  rw [List.append_nil] at this
  rw [hfuel, this, iterGo_nil]
  simp [IterResult.prepend]

/-- **Value pointers point at the records.** Every `(entry, vptr)` delivered for well-formed units
    has `vptr.Fid = fid`, and the `vptr.Len` bytes at file offset `vptr.Offset` are exactly the
    encoding of that entry — so reading the value log at the pointer (`logFile.read` +
    `decodeEntry`) returns the entry (`C16_roundtrip`). -/
theorem C16_vptr_points_at_record (fid : Nat) (cipher : Nat → Nat → UInt8) (us : List LogUnit)
    (d : Entry × ValuePointer) (hd : d ∈ deliveredUnits fid cipher vlogHeaderSize us) :
    d.2.fid = fid ∧ vlogHeaderSize ≤ d.2.offset ∧
    ((encodeAll cipher vlogHeaderSize (unitsEntries us)).drop (d.2.offset - vlogHeaderSize)).take d.2.len =
      encodeEntry (cipher d.2.offset) d.1 := by
  have := deliveredUnits_points fid cipher us vlogHeaderSize [] d hd
  simpa using this

/-- **Transaction units.** After any well-formed units, the records `p` of a transaction that
    is *not* followed contiguously by its own end marker — the file ends, is torn, or continues
    with anything that `Breaks` the transaction (a record without `bitTxn`, a record or marker
    of another timestamp, an unparsable marker, a zero entry) — are not delivered, nothing
    after them is, and the end offset is the end of the last complete unit. Together with
    `C16_iterate_order` (complete units *are* delivered): a `bitTxn` record is delivered iff
    its `bitFinTxn` marker with the same timestamp follows contiguously. -/
theorem C16_txn_units (fid : Nat) (cipher : Nat → Nat → UInt8) (us : List LogUnit)
    (wf : ∀ u ∈ us, u.WF) (ts : Nat) (hts : ts ≠ 0) (p : List Entry)
    (hp : ∀ e ∈ p, TxnEntry ts e) (tail : Bytes)
    (hb : Breaks
      (cipher (vlogHeaderSize + encLen cipher vlogHeaderSize (unitsEntries us ++ p)))
      (if p = [] then 0 else ts) tail) :
    iterate fid cipher (encodeAll cipher vlogHeaderSize (unitsEntries us ++ p) ++ tail) =
      ⟨none, deliveredUnits fid cipher vlogHeaderSize us,
        vlogHeaderSize + encLen cipher vlogHeaderSize (unitsEntries us)⟩ := by
  unfold iterate
  rw [encodeAll_append, List.append_assoc]
  generalize hcontent : encodeAll cipher vlogHeaderSize (unitsEntries us) ++
    (encodeAll cipher (vlogHeaderSize + encLen cipher vlogHeaderSize (unitsEntries us)) p ++ tail) = content
  have h1 := length_le_encLen cipher (unitsEntries us) vlogHeaderSize
  have h2 := length_le_encLen cipher p (vlogHeaderSize + encLen cipher vlogHeaderSize (unitsEntries us))
  have hlen : (unitsEntries us).length + p.length ≤ content.length := by
    rw [← hcontent]; simp only [List.length_append]; unfold encLen at h1 h2 ⊢; omega
  have hfuel : content.length + 1 = (unitsEntries us).length +
      (p.length + ((content.length - (unitsEntries us).length - p.length) + 1)) := by omega
  rw [hfuel, ← hcontent, iterGo_units fid cipher us _ _ _ wf]
  rw [iterGo_partial fid cipher ts hts p hp]
  · simp [IterResult.prepend]
  · have : vlogHeaderSize + encLen cipher vlogHeaderSize (unitsEntries us) +
        encLen cipher (vlogHeaderSize + encLen cipher vlogHeaderSize (unitsEntries us)) p =
        vlogHeaderSize + encLen cipher vlogHeaderSize (unitsEntries us ++ p) := by
      simp only [encLen, encodeAll_append, List.length_append]; omega
    rw [this]; exact hb

/-- **Corruption, general form.** Replacing the stored key‖value bytes of a record by other
    bytes of the same length is detected (`errTruncate`) whenever the CRC32-C of the altered
    record body differs from the original one. -/
theorem C16_corruption (ks ks' : Nat → UInt8) (e : Entry) (x' rest : Bytes) (wf : e.WF)
    (hlen : x'.length = e.key.length + e.value.length)
    (hcrc : crc32c (headerEncode (entryHeader e) ++ x') ≠ crc32c (encodeBody ks e)) :
    safeReadEntry ks' (headerEncode (entryHeader e) ++ x' ++
      beBytes (crc32c (encodeBody ks e)) 4 ++ rest) = .error .truncate :=
  safeRead_badcrc ks ks' e x' rest wf hlen hcrc

/-- CRC32-C detects every single-byte change (no hypothesis). -/
theorem C16_crc_single_byte (pre suf : Bytes) (a b : UInt8) (hab : a ≠ b) :
    crc32c (pre ++ a :: suf) ≠ crc32c (pre ++ b :: suf) :=
  crc32c_single_byte pre suf a b hab

/-- **Corruption, single byte, unconditional.** If the encoded record is `pre ++ a :: suf` with
    the byte `a` inside the key‖value region, then replacing `a` by any other byte yields a
    record that `safeRead.Entry` rejects with `errTruncate` — for every key stream. -/
theorem C16_corruption_single_byte (ks ks' : Nat → UInt8) (e : Entry) (wf : e.WF)
    (pre suf rest : Bytes) (a b : UInt8) (henc : encodeEntry ks e = pre ++ a :: suf)
    (hlo : hdrLen e ≤ pre.length) (hhi : pre.length < hdrLen e + e.key.length + e.value.length)
    (hab : b ≠ a) :
    safeReadEntry ks' (pre ++ b :: suf ++ rest) = .error .truncate :=
  safeRead_single_byte ks ks' e wf pre suf rest a b henc hlo hhi hab

/-- A record with one altered key/value byte stops the replay: units before it are delivered,
    it and everything after it (and the open transaction it belongs to) are not. -/
theorem C16_corruption_stops_replay (fid : Nat) (cipher : Nat → Nat → UInt8) (us : List LogUnit)
    (wf : ∀ u ∈ us, u.WF) (ts : Nat) (hts : ts ≠ 0) (p : List Entry)
    (hp : ∀ e ∈ p, TxnEntry ts e) (e : Entry) (wfe : e.WF) (ks : Nat → UInt8)
    (pre suf rest : Bytes) (a b : UInt8) (henc : encodeEntry ks e = pre ++ a :: suf)
    (hlo : hdrLen e ≤ pre.length) (hhi : pre.length < hdrLen e + e.key.length + e.value.length)
    (hab : b ≠ a) :
    iterate fid cipher (encodeAll cipher vlogHeaderSize (unitsEntries us ++ p) ++
        (pre ++ b :: suf ++ rest)) =
      ⟨none, deliveredUnits fid cipher vlogHeaderSize us,
        vlogHeaderSize + encLen cipher vlogHeaderSize (unitsEntries us)⟩ :=
  C16_txn_units fid cipher us wf ts hts p hp _
    (Or.inl ⟨.truncate, Or.inr (Or.inr rfl),
      safeRead_single_byte ks _ e wfe pre suf rest a b henc hlo hhi hab⟩)

/-! ### `strconv.FormatUint` / `ParseUint`: the end marker badger writes is well formed -/

theorem decBytesF_ne_nil (f : Nat) : ∀ (n : Nat) (acc : Bytes), acc ≠ [] → decBytesF f n acc ≠ [] := by
  induction f with
  | zero => intro n acc h; exact h
  | succ f ih =>
    intro n acc _
    simp only [decBytesF]
    split
    · simp
    · exact ih _ _ (by simp)

theorem decBytesF_succ_ne_nil (f n : Nat) (acc : Bytes) : decBytesF (f + 1) n acc ≠ [] := by
  simp only [decBytesF]
  split
  · simp
  · exact decBytesF_ne_nil _ _ _ (by simp)

theorem parseDigits_decBytesF (f : Nat) : ∀ (n : Nat) (acc : Bytes), n < 10 ^ f →
    ∃ L, ∀ a, parseDigits a (decBytesF f n acc) = parseDigits (a * 10 ^ L + n) acc := by
  induction f with
  | zero =>
    intro n acc h
    refine ⟨0, fun a => ?_⟩
    have : n = 0 := by simpa using h
    subst this; simp [decBytesF]
  | succ f ih =>
    intro n acc h
    have hd : (UInt8.ofNat (48 + n % 10)).toNat = 48 + n % 10 := u8_ofNat_toNat _ (by omega)
    simp only [decBytesF]
    split
    · rename_i h0
      refine ⟨1, fun a => ?_⟩
      simp only [parseDigits, hd]
      rw [if_pos (by omega)]
      congr 1
      have : n % 10 = n := by omega
      omega
    · rename_i h0
      have hlt : n / 10 < 10 ^ f := by
        rw [Nat.pow_succ] at h; omega
      obtain ⟨L, hL⟩ := ih (n / 10) (UInt8.ofNat (48 + n % 10) :: acc) hlt
      refine ⟨L + 1, fun a => ?_⟩
      rw [hL a]
      simp only [parseDigits, hd]
      rw [if_pos (by omega)]
      congr 1
      rw [Nat.pow_succ, ← Nat.mul_assoc]
      have := Nat.div_add_mod n 10
      generalize a * 10 ^ L = m at *
      omega

/-- The value badger writes into the end-of-transaction marker (`strconv.FormatUint(ts, 10)`)
    parses back to `ts` (`strconv.ParseUint(.., 10, 64)`), for every `uint64`. -/
theorem C16_fin_marker_value (ts : Nat) (h : ts < 2 ^ 64) : parseUintDec (decBytes ts) = some ts := by
  unfold parseUintDec decBytes
  have hne : decBytesF 20 ts [] ≠ [] := decBytesF_succ_ne_nil 19 ts []
  rw [if_neg hne]
  obtain ⟨L, hL⟩ := parseDigits_decBytesF 20 ts [] (by omega)
  rw [hL 0]
  simp [parseDigits, h]

/-! ### non-vacuity: concrete logs -/

/-- `put k1@5=v` outside a transaction, then a transaction at ts 7 with two records + marker. -/
def exUnits : List LogUnit :=
  [ .single ⟨keyWithTs [0x6b, 0x31] 5, [0x76], 0, 0, 0⟩,
    .txn 7 [⟨keyWithTs [0x61] 7, [1, 2], 0, 0x40, 9⟩, ⟨keyWithTs [0x62] 7, [], 100, 0x41, 0⟩]
      ⟨keyWithTs [0x21] 7, decBytes 7, 0, 0x80, 0⟩ ]

example : ∀ u ∈ exUnits, u.WF := by
  intro u hu
  simp only [exUnits, List.mem_cons, List.mem_nil_iff, or_false] at hu
  rcases hu with rfl | rfl
  · refine ⟨⟨by decide, by decide, by decide⟩, by decide, by decide, by decide⟩
  · refine ⟨by decide, by decide, ?_, ⟨by decide, by decide, by decide⟩, by decide, by decide,
      by decide, by decide⟩
    intro e he
    simp only [List.mem_cons, List.mem_nil_iff, or_false] at he
    rcases he with rfl | rfl <;>
      exact ⟨⟨by decide, by decide, by decide⟩, by decide, by decide⟩

set_option maxRecDepth 100000 in
example : (iterate 3 (fun _ => noKs) (encodeAll (fun _ => noKs) 20 (unitsEntries exUnits))).delivered.map
    (fun d => (d.2.offset, d.2.len)) = [(20, 20), (40, 20), (60, 18)] := by decide

end Badger
