import BadgerProofs.Props.C01Db
import BadgerProofs.Props.C14
/-!
# Corollaries of the database-level reachability theorem for C06, C14, C33

All statements are about EVERY state reachable in normal mode (`DbReach`), with no hypothesis about
the state.
-/
namespace Badger

/-- **C14 over every history**: the LSM tree of every reachable database state satisfies the whole
    structural invariant (`LsmGood`: sorted tables, levels `≥ 1` disjoint and sorted, table bounds,
    `uint64` versions, recency across sources, unique internal keys). -/
theorem C14_db_structure {o : Opts} {hist : List Ent} {d : Db} (hm : o.managed = false)
    (r : DbReach o hist d) : LsmGood d.lsm := by
  obtain ⟨dm, nm, R, _, _⟩ := (DbL.inv_of_reach hm r).l.reach
  exact C01_reach_good R

/-- …in particular all versions of a user key live in ONE table of a level `≥ 1` -/
theorem C14_db_one_table_per_key {o : Opts} {hist : List Ent} {d : Db} (hm : o.managed = false)
    (r : DbReach o hist d) {i : Nat} {tbls : List Tbl} (hi : 1 ≤ i)
    (hl : d.lsm.levels[i]? = some tbls) {j j' : Nat} {a b : Tbl} (hj : tbls[j]? = some a) (hj' : tbls[j']? = some b)
    {x y : Ent} (hx : x ∈ a.ents) (hy : y ∈ b.ents) (hk : x.key = y.key) : j = j' :=
  C14_one_table_per_key (C14_db_structure hm r).1 hi hl hj hj' hx hy hk

/-- …and every stored entry was written by a commit of the history -/
theorem C14_db_entries_committed {o : Opts} {hist : List Ent} {d : Db} (hm : o.managed = false)
    (r : DbReach o hist d) : ∀ e ∈ d.lsm.allEntries, e ∈ hist := by
  obtain ⟨dm, nm, R, _, _⟩ := (DbL.inv_of_reach hm r).l.reach
  exact (C01_reach_inv R).2.2

/-- **C33 over every history**: a key whose newest committed version `≤ readTs` has expired (or is a
    delete marker) reads as not found; a live one is returned as written. -/
theorem C33_db_expiry {o : Opts} {hist : List Ent} {d : Db} (hm : o.managed = false)
    (r : DbReach o hist d) {id : Nat} {t : TxnM} {k : Bytes} (hf : d.findTxn id = some t)
    (hk : k.isEmpty = false) (hdisc : t.discarded = false)
    (hpend : (if t.update then t.pending.find? (·.key == k) else none) = none) (e : Ent)
    (hn : newestLE hist k t.readTs = some e) :
    (deletedOrExpired e.emeta e.exp d.now = true → (d.txnGet id k).2 = .notfound) ∧
    (deletedOrExpired e.emeta e.exp d.now = false → (d.txnGet id k).2 = .found e e.ver) := by
  have h := C01_db_snapshot hm r hf hk hdisc hpend
  rw [hn] at h
  constructor
  · intro hd; rw [h]; simp [visible, hd, getResOf]
  · intro hd; rw [h]; simp [visible, hd, getResOf]

/-- an entry with `ExpiresAt = 0` that is not a delete marker never expires -/
theorem C33_no_ttl_never_expires (m now : Nat) (h : hasBit m bitDelete = false) :
    deletedOrExpired m 0 now = false := by
  simp [deletedOrExpired, h]

/-- **C06 over every history**: what a successful commit puts into the history carries exactly
    the key, value, user meta and expiry of the pending writes, at the commit timestamp; only the
    internal meta bits (transaction bit, value-pointer bit) differ. -/
theorem C06_db_fields_preserved {d : Db} (id : Nat) {t : TxnM}
    (hf : d.findTxn id = some t) :
    ∀ x ∈ d.commitHist id, ∃ e0 ∈ t.pending,
      x.key = e0.key ∧ x.val = e0.val ∧ x.umeta = e0.umeta ∧ x.exp = e0.exp ∧ x.ver = d.nextTs := by
  intro x hx
  unfold Db.commitHist at hx
  rw [hf] at hx
  split at hx
  · rename_i t' _ heq _
    cases heq
    obtain ⟨e0, he0, rfl⟩ := List.mem_map.mp (List.mem_reverse.mp hx)
    refine ⟨e0, he0, ?_⟩
    unfold Db.lsmForm
    split <;> exact ⟨rfl, rfl, rfl, rfl, rfl⟩
  · cases hx

/-- …and a later `Get` returns such an entry unchanged (`C01_db_snapshot` returns a member of the
    history): value, user meta and expiry read back exactly as written. -/
theorem C06_db_readback {o : Opts} {hist : List Ent} {d : Db} (hm : o.managed = false)
    (r : DbReach o hist d) {id : Nat} {t : TxnM} {k : Bytes} (hf : d.findTxn id = some t)
    (hk : k.isEmpty = false) (hdisc : t.discarded = false)
    (hpend : (if t.update then t.pending.find? (·.key == k) else none) = none) (e : Ent) (v : Nat)
    (hres : (d.txnGet id k).2 = .found e v) :
    e ∈ hist ∧ e.key = k ∧ e.ver = v ∧ v ≤ t.readTs := by
  have h := C01_db_snapshot hm r hf hk hdisc hpend
  rw [hres] at h
  cases hn : newestLE hist k t.readTs with
  | none => rw [hn] at h; simp [visible, getResOf] at h
  | some x =>
    rw [hn] at h
    simp only [visible] at h
    split at h
    · simp [getResOf] at h
    · simp only [getResOf] at h
      injection h with h1 h2
      subst h1
      obtain ⟨hm1, hk1, hv1, _⟩ := LL.newestLE_some hn
      exact ⟨hm1, hk1, h2.symm, by omega⟩

/-- **C12 over every history**: two reachable database states with the same commit history answer
    every read at a timestamp at or above both discard watermarks identically, whatever flushes
    and compactions (L0→base, L0→L0, level→level, last-level rewrites, any picker-valid choice of
    tables, any split of the output) led to them. In particular no flush/compaction sequence changes
    such a read, no committed write is lost and no overwritten or deleted version comes back. -/
theorem C12_db_history_determines_reads {o : Opts} {hist : List Ent} {d1 d2 : Db} (hm : o.managed = false)
    (r1 : DbReach o hist d1) (r2 : DbReach o hist d2) (k : Bytes) (ts now : Nat)
    (h1 : d1.discardAtOrBelow ≤ ts) (h2 : d2.discardAtOrBelow ≤ ts) (hn1 : d1.now ≤ now) (hn2 : d2.now ≤ now) :
    visible now (d1.lsm.get k ts) = visible now (d2.lsm.get k ts) := by
  have i1 := DbL.inv_of_reach hm r1
  have i2 := DbL.inv_of_reach hm r2
  obtain ⟨dm1, nm1, R1, a1, b1⟩ := i1.l.reach
  obtain ⟨dm2, nm2, R2, a2, b2⟩ := i2.l.reach
  unfold Db.discardAtOrBelow at h1 h2
  rw [DbL.managed_false hm i1] at h1
  rw [DbL.managed_false hm i2] at h2
  have h1 : d1.readMark.doneUntil ≤ ts := by simpa using h1
  have h2 : d2.readMark.doneUntil ≤ ts := by simpa using h2
  rw [C01_reach_reads R1 (by omega) (by omega) k, C01_reach_reads R2 (by omega) (by omega) k]

/-- **C07 inside a history**: `Close` + `Open` (memtable flushed, L0 re-sorted by file id, oracle
    and watermarks rebuilt from `MaxVersion()`) changes no read at a timestamp at or above both
    watermarks — as long as the timestamps do not go back (`hnext`; the excluded case is F29). -/
theorem C07_db_reopen_preserves_reads {o : Opts} {hist : List Ent} {d : Db} (hm : o.managed = false)
    (r : DbReach o hist d) (fid : Nat)
    (hnext : d.nextTs ≤ ({ d with lsm := d.lsm.flush fid } : Db).closeOpen.nextTs) (k : Bytes) (ts now : Nat)
    (h1 : d.discardAtOrBelow ≤ ts) (h2 : ({ d with lsm := d.lsm.flush fid } : Db).closeOpen.discardAtOrBelow ≤ ts)
    (hn : d.now ≤ now) :
    visible now (({ d with lsm := d.lsm.flush fid } : Db).closeOpen.lsm.get k ts) = visible now (d.lsm.get k ts) := by
  have hn2 : ({ d with lsm := d.lsm.flush fid } : Db).closeOpen.now ≤ now := by
    have := (DbL.closeOpen_fields ({ d with lsm := d.lsm.flush fid } : Db)).2.1
    rw [this]; exact hn
  exact (C12_db_history_determines_reads hm r (DbReach.reopen r fid hnext) k ts now h1 h2 hn hn2).symm

/- A transaction begun after the reopen reads the commit history as before: `DbReach.reopen` is a step
   of `DbReach`, so `C01_db_snapshot`, `C05_db_scan*`, `C02_db_*` apply to the reopened state unchanged. -/

end Badger
