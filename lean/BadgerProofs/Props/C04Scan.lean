import BadgerProofs.Props.C05Db
/-!
# C04 composed: a read-write transaction's full forward scan in every reachable state

The iterator of a transaction with pending writes yields, per key: its own pending write (value,
user meta, expiry; nothing if it is a delete or has expired) when it has one, and otherwise exactly
what the snapshot holds — the newest committed write `≤ readTs` over the commit history, if live.
-/
namespace Badger

theorem C04_db_scan {o : Opts} {hist : List Ent} {d : Db} (hm : o.managed = false)
    (r : DbReach o hist d) {id : Nat} {t : TxnM} (hf : d.findTxn id = some t) (hdisc : t.discarded = false)
    (io : IterOpts) (hrev : io.reverse = false) (hall : io.allVersions = false)
    (hsince : io.sinceTs = 0) (hpfx : io.prefix_ = []) (hpk : io.prefixIsKey = false)
    (hh : io.internalAccess = true ∨
      ((∀ e ∈ hist, badgerPrefix.isPrefixOf e.ikey = false) ∧ ∀ e ∈ pendingSource t, badgerPrefix.isPrefixOf e.ikey = false)) :
    ∃ L, d.iterate id io none = some L ∧
      (∀ x, x ∈ L ↔
        ((x ∈ pendingSource t ∧ deletedOrExpired x.emeta x.exp d.now = false) ∨
         ((∀ p ∈ pendingSource t, p.key ≠ x.key) ∧ visible d.now (newestLE hist x.key t.readTs) = some x))) ∧
      L.Pairwise (fun a b => cmpBytes a.key b.key = .lt) := by
  have h := DbL.inv_of_reach hm r
  obtain ⟨dm, nm, R, h1, h2⟩ := h.l.reach
  have R' : Reach d.opts.maxLevels hist dm nm d.lsm := by rw [h.l.opts]; exact R
  have hgood := C01_reach_good R'
  have hsub := (C01_reach_inv R').2.2
  have hle := C34_db_discard_below_open hm r hf hdisc
  unfold Db.discardAtOrBelow at hle
  rw [DbL.managed_false hm h] at hle
  have hle : d.readMark.doneUntil ≤ t.readTs := by simpa using hle
  have hsrc := sources_sorted hgood.1
  have hsrcs : ∀ s ∈ pendingSource t :: d.lsm.sources, SortedEnts s := by
    intro s hs
    rcases List.mem_cons.mp hs with rfl | hs
    · exact pendingSource_sorted t
    · exact hsrc s hs
  have hmerged : SortedEnts (mergeAll (pendingSource t :: d.lsm.sources)) := mergeAll_sorted hsrcs
  have hflat : (pendingSource t :: d.lsm.sources).flatten = pendingSource t ++ d.lsm.allEntries := by
    simp [Lsm.allEntries]
  have hn : NoHidden io (mergeAll (pendingSource t :: d.lsm.sources)) := by
    rcases hh with hh | ⟨hh1, hh2⟩
    · exact .inl hh
    · right
      intro e he
      have := C12_merge_mem_flatten he
      rw [hflat] at this
      rcases List.mem_append.mp this with hp | ha
      · exact hh2 e hp
      · exact hh1 e (hsub e ha)
  have hsk : io.prefix_.isPrefixOf (seekKeyOf io none) = true := C05_rewind_key io none (.inl rfl)
  have hvp : ∀ l : List Ent, validPrefix io l = l := by
    intro l; unfold validPrefix
    simp only [hpk, hpfx, Bool.false_eq_true, if_false, List.isPrefixOf]
    induction l with
    | nil => rfl
    | cons a l ih => simp [ih]
  -- the newest version of a key in the merged stream
  have hnew_pending : ∀ p ∈ pendingSource t,
      newestLE (mergeAll (pendingSource t :: d.lsm.sources)) p.key t.readTs = some p :=
    fun p hp => (C04_iter_pending_first d t p hsrc hp).2.2.2.1
  have hnew_other : ∀ k, (∀ p ∈ pendingSource t, p.key ≠ k) →
      newestLE (mergeAll (pendingSource t :: d.lsm.sources)) k t.readTs = d.lsm.get k t.readTs := by
    intro k hk
    rw [newestLE_mergeAll hsrcs, hflat, LL.newestLE_append,
      LL.newestLE_eq_none.mpr (fun x hx hc => hk x hx hc.1), LL.pick_none_left, ← C01_reach_get_spec R']
  refine ⟨_, C05_iterate_forward d id t io none hf hsrc hrev hall hn hsk, ?_, ?_⟩
  · intro x
    rw [hvp, mem_specScanFwd hmerged, hsince, C05_newestVisible_since_zero, hpfx]
    have hvis := C01_reach_reads R' (ts := t.readTs) (now := d.now) (by omega) h2 x.key
    have hseek : ¬ cmpBytes x.key (seekKeyOf io none) = .lt := by
      simp only [seekKeyOf, hpfx]; cases x.key <;> simp [cmpBytes]
    constructor
    · rintro ⟨_, _, _, hnew, hlive⟩
      by_cases hp : ∃ p ∈ pendingSource t, p.key = x.key
      · obtain ⟨p, hpm, hpk'⟩ := hp
        have := hnew_pending p hpm
        rw [hpk', hnew] at this
        have hxp : x = p := by simpa using this
        left; rw [hxp]; exact ⟨hpm, by rw [← hxp]; exact hlive⟩
      · have hp' : ∀ p ∈ pendingSource t, p.key ≠ x.key := fun p hpm hc => hp ⟨p, hpm, hc⟩
        right
        refine ⟨hp', ?_⟩
        rw [hnew_other x.key hp'] at hnew
        rw [← hvis, hnew]
        simp [visible, hlive]
    · rintro (⟨hpm, hlive⟩ | ⟨hp', hv⟩)
      · exact ⟨(C04_iter_pending_first d t x hsrc hpm).1, hseek, fun y _ _ _ => by simp,
          hnew_pending x hpm, hlive⟩
      · rw [← hvis] at hv
        cases hg : d.lsm.get x.key t.readTs with
        | none => rw [hg] at hv; simp [visible] at hv
        | some e =>
          rw [hg] at hv
          simp only [visible] at hv
          split at hv
          · cases hv
          · rename_i hlive
            have hex : e = x := by simpa using hv
            subst hex
            have hm' := hnew_other e.key hp'
            rw [hg] at hm'
            exact ⟨(newestLE_some_mem hm').1, hseek, fun y _ _ _ => by simp, hm', by simpa using hlive⟩
  · rw [hvp]
    exact C05_exactly_once_fwd _ hmerged _ _ _ _ _

end Badger
