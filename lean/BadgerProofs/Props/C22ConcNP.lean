import BadgerProofs.Props.C22Conc
/-!
# C22, concurrent half: no assertion of `Put` fails, and which value wins

`SkipConc` has an explicit `Pc.panic` state for the three `y.AssertTrue`s of `Put`
(`i > 1` when `prev[i] == nil`; `prev[i] != next[i]` above the old list height;
`i == 0` when the key shows up after a failed CAS).  Here: `Pc.panic` is unreachable under
every schedule (`C22_conc_no_assert_fails`).

The argument: (1) `prev[i]`/`next[i]` are recorded for all levels `≤ listHeight ≥ 1`, so
`prev[i] == nil` implies `i ≥ 2`; (2) a key is on a level `≥ 1` only through the goroutine that
linked it on level 0 — at most one goroutine per key is ever past its level-0 CAS (a second one
would have had to CAS the key in between two adjacent nodes of a sorted chain that already
contains it) — so a goroutine working on level `i ≥ 1` never finds its own key there.

Values (`C22_conc_step_value`, `C22_conc_value_of_put`): every atomic step either leaves every
node's value alone or is the publishing access (`setValue`, or the level-0 CAS) of one `Put` and
makes that `Put`'s value the value of its key; so the value of a key is always the value of the
last publishing access on it in the schedule, and it is the value of one of the `Put`s.
-/
namespace Badger
namespace SkipConc
open Skiplist

/-- `prev[j]`/`next[j]` have been computed -/
def hasSpl (l : PutLocal) (j : Nat) : Prop := lookupSpl l.spl j ≠ none

theorem lookupSpl_cons (e : Nat × SkRef × SkRef) (spl : List (Nat × SkRef × SkRef)) (j : Nat) :
    lookupSpl (e :: spl) j = if e.1 = j then some e.2 else lookupSpl spl j := by
  unfold lookupSpl
  by_cases h : e.1 = j
  · simp [h]
  · have : (e.1 == j) = false := by simpa using h
    simp [this, h]

/-- past the level-0 CAS: working on a level `≥ 1` -/
def isUpper : Pc → Prop
  | .link i => 1 ≤ i
  | .cas i => 1 ≤ i
  | .linkScan i _ _ => 1 ≤ i
  | _ => False

/-- the goroutine's key is on no level `≥ i` (claimed only for `i ≥ 1`) -/
def AbsentFrom (s : Skiplist) (key : Bytes) (i : Nat) : Prop :=
  1 ≤ i → ∀ i', i ≤ i' → key ∉ s.level i'

def Spl (l : PutLocal) : Prop := 1 ≤ l.lh ∧ ∀ j, j ≤ l.lh → hasSpl l j

def PcNP (s : Skiplist) (l : PutLocal) : Prop :=
  match l.pc with
  | .scan i _ => 1 ≤ l.lh ∧ i < l.lh ∧ ∀ j, i < j → j ≤ l.lh → hasSpl l j
  | .loadH => Spl l
  | .casH seen => Spl l ∧ seen < l.h
  | .link i => Spl l ∧ AbsentFrom s l.key i
  | .cas i => hasSpl l i ∧ Spl l ∧ AbsentFrom s l.key i
  | .linkScan i _ retry => Spl l ∧ (retry = false → 1 < i) ∧ AbsentFrom s l.key i
  | .panic => False
  | _ => True

theorem hasSpl_cons_self {l l' : PutLocal} {i : Nat} {p n : SkRef}
    (h : l'.spl = (i, p, n) :: l.spl) : hasSpl l' i := by
  simp [hasSpl, h, lookupSpl_cons]

theorem hasSpl_cons_of {l l' : PutLocal} {i j : Nat} {p n : SkRef}
    (h : l'.spl = (i, p, n) :: l.spl) (hj : hasSpl l j) : hasSpl l' j := by
  unfold hasSpl at *
  rw [h, lookupSpl_cons]
  split
  · simp
  · exact hj

theorem stepPut_np (s : Skiplist) (l : PutLocal)
    (hsorted : ∀ i, KSorted (s.level i)) (hsub : ∀ i k, k ∈ s.level (i + 1) → k ∈ s.level i)
    (hl : LocalOK s l) (hh : 1 ≤ s.height) (hn : PcNP s l) :
    PcNP (stepPut s l).1 (stepPut s l).2 ∧ 1 ≤ (stepPut s l).1.height ∧
    (stepPut s l).2.key = l.key ∧
    (isUpper (stepPut s l).2.pc → isUpper l.pc ∨ (l.pc = .cas 0 ∧ l.key ∉ s.level 0)) ∧
    (∀ j k, k ∈ (stepPut s l).1.level j → k ∈ s.level j ∨ (k = l.key ∧ l.pc = .cas j)) := by
  have hsub0 : ∀ i k, k ∈ s.level i → k ∈ s.level 0 := by
    intro i
    induction i with
    | zero => exact fun _ h => h
    | succ i ih => exact fun k h => ih k (hsub i k h)
  obtain ⟨hspl, hpc⟩ := hl
  unfold PcOK at hpc
  unfold PcNP at hn
  unfold stepPut
  split
  · -- start
    refine ⟨?_, hh, rfl, ?_, fun _ _ h => .inl h⟩
    · have h0 : s.height ≠ 0 := by omega
      unfold PcNP; simp only [h0, if_false]
      refine ⟨hh, by omega, ?_⟩
      intro j h1 h2
      have : j = s.height := by omega
      subst this
      simp [hasSpl, lookupSpl_cons]
    · have h0 : s.height ≠ 0 := by omega
      simp [h0, isUpper]
  · -- scan
    rename_i i before hpc'
    rw [hpc'] at hpc hn
    simp only at hn
    split
    · exact ⟨by unfold PcNP; exact hn, hh, rfl, by simp [isUpper], fun _ _ h => .inl h⟩
    · exact ⟨by unfold PcNP; trivial, hh, rfl, by simp [isUpper], fun _ _ h => .inl h⟩
    · rename_i p n _
      refine ⟨?_, hh, rfl, ?_, fun _ _ h => .inl h⟩
      · unfold PcNP nextLevel; simp only
        by_cases h0 : i = 0
        · subst h0
          simp only [if_true]
          refine ⟨hn.1, ?_⟩
          intro j hj
          by_cases hj0 : j = 0
          · subst hj0; exact hasSpl_cons_self rfl
          · exact hasSpl_cons_of rfl (hn.2.2 j (by omega) hj)
        · simp only [h0, if_false]
          refine ⟨hn.1, by omega, ?_⟩
          intro j h1 h2
          by_cases hji : j = i
          · subst hji; exact hasSpl_cons_self rfl
          · exact hasSpl_cons_of rfl (hn.2.2 j (by omega) h2)
      · unfold nextLevel; split <;> simp [isUpper]
  · -- setval
    exact ⟨by unfold PcNP; trivial, hh, rfl, by simp [isUpper], fun _ _ h => .inl h⟩
  · -- loadH
    rename_i hpc'
    rw [hpc'] at hn
    simp only at hn
    split
    · rename_i hgt
      exact ⟨by unfold PcNP; exact ⟨hn, hgt⟩, hh, rfl, by simp [isUpper], fun _ _ h => .inl h⟩
    · exact ⟨by unfold PcNP; exact ⟨hn, fun h => by omega⟩, hh, rfl, by simp [isUpper],
        fun _ _ h => .inl h⟩
  · -- casH
    rename_i seen hpc'
    rw [hpc'] at hn
    simp only at hn
    split
    · refine ⟨by unfold PcNP; exact ⟨hn.1, fun h => by omega⟩, ?_, rfl, by simp [isUpper],
        fun _ _ h => .inl h⟩
      show 1 ≤ l.h
      omega
    · exact ⟨by unfold PcNP; exact hn.1, hh, rfl, by simp [isUpper], fun _ _ h => .inl h⟩
  · -- link
    rename_i i hpc'
    rw [hpc'] at hn
    simp only at hn
    split
    · exact ⟨by unfold PcNP; trivial, hh, rfl, by simp [isUpper], fun _ _ h => .inl h⟩
    · split
      · rename_i pn hlk
        refine ⟨?_, hh, rfl, ?_, fun _ _ h => .inl h⟩
        · unfold PcNP; simp only
          exact ⟨by unfold hasSpl; rw [hlk]; simp, hn.1, hn.2⟩
        · intro hu; left; rw [hpc']; exact hu
      · rename_i hlk
        split
        · rename_i h1
          refine ⟨?_, hh, rfl, ?_, fun _ _ h => .inl h⟩
          · unfold PcNP; simp only
            exact ⟨hn.1, fun _ => h1, hn.2⟩
          · intro hu; left; rw [hpc']; exact hu
        · -- `prev[i] == nil` with `i ≤ 1`: impossible, both levels were recorded
          rename_i h1
          exfalso
          exact hn.1.2 i (by have := hn.1.1; omega) hlk
  · -- linkScan
    rename_i i before retry hpc'
    rw [hpc'] at hpc hn
    simp only at hn
    have hsc := scanStep_spec (s := s) (key := l.key) (before := before) (i := i) hpc.1
    split <;> rename_i heq <;> rw [heq] at hsc
    · refine ⟨by unfold PcNP; exact hn, hh, rfl, ?_, fun _ _ h => .inl h⟩
      intro hu; left; rw [hpc']; exact hu
    · split
      · exact ⟨by unfold PcNP; trivial, hh, rfl, by simp [isUpper], fun _ _ h => .inl h⟩
      · -- the key was found on level `i` although this is not a level-0 retry: impossible
        rename_i hcond
        exfalso
        by_cases hi : 1 ≤ i
        · exact hn.2.2 hi i (Nat.le_refl _) hsc.2
        · have hi0 : i = 0 := by omega
          cases retry with
          | false => have := hn.2.1 rfl; omega
          | true => simp [hi0] at hcond
    · rename_i p n
      refine ⟨?_, hh, rfl, ?_, fun _ _ h => .inl h⟩
      · unfold PcNP; simp only
        refine ⟨hasSpl_cons_self rfl, ⟨hn.1.1, fun j hj => hasSpl_cons_of rfl (hn.1.2 j hj)⟩,
          hn.2.2⟩
      · intro hu; left; rw [hpc']; exact hu
  · -- cas
    rename_i i hpc'
    rw [hpc'] at hpc hn
    simp only at hn
    split
    · rename_i hlk
      exact absurd hlk hn.1
    · rename_i p nx hlk
      have hmem := lookupSpl_mem hlk
      obtain ⟨hp, hnx⟩ := hspl i p nx hmem
      split
      · rename_i hcas
        have hcas' : s.getNext p i = nx := by simpa using hcas
        obtain ⟨_, hmem', hnot⟩ := cas_chain (hsorted i) hp hnx hcas'
        have hlev : ∀ j, (if i = 0 then (s.insertAt i p l.key).setValue l.key l.v
              else s.insertAt i p l.key).level j =
            if j = i then insertAfter p l.key (s.level i) else s.level j := by
          intro j; split <;> simp [level_insertAt]
        refine ⟨?_, ?_, rfl, ?_, ?_⟩
        · unfold PcNP; simp only
          refine ⟨hn.2.1, ?_⟩
          intro _ i' hi'
          rw [hlev i', if_neg (by omega)]
          by_cases hi : 1 ≤ i
          · exact hn.2.2 hi i' (by omega)
          · have hi0 : i = 0 := by omega
            subst hi0
            exact fun hm => hnot (hsub0 i' _ hm)
        · split <;> exact hh
        · intro _
          by_cases hi : 1 ≤ i
          · left; rw [hpc']; exact hi
          · right
            have hi0 : i = 0 := by omega
            subst hi0
            exact ⟨hpc', hnot⟩
        · intro j k hk
          rw [hlev j] at hk
          by_cases hj : j = i
          · subst hj
            simp only [if_true] at hk
            rcases (hmem' k).mp hk with h | h
            · exact .inr ⟨h, hpc'⟩
            · exact .inl h
          · simp only [hj, if_false] at hk; exact .inl hk
      · refine ⟨?_, hh, rfl, ?_, fun _ _ h => .inl h⟩
        · unfold PcNP; simp only
          exact ⟨hn.2.1, (fun h => by cases h), hn.2.2⟩
        · intro hu; left; rw [hpc']; exact hu
  · -- done
    rename_i hpc'
    exact ⟨by unfold PcNP; rw [hpc']; trivial, hh, rfl, by rw [hpc']; simp [isUpper],
      fun _ _ h => .inl h⟩
  · -- panic
    rename_i hpc'
    rw [hpc'] at hn
    exact absurd hn (by simp)

/-- at most one goroutine per key is past its level-0 CAS -/
def Uniq (c : CState) : Prop :=
  ∀ (a b : Nat) (la lb : PutLocal), a ≠ b → c.ts[a]? = some la → c.ts[b]? = some lb → la.key = lb.key →
    ¬ (isUpper la.pc ∧ isUpper lb.pc)

structure NPInv (c : CState) : Prop where
  inv : CInv c
  height : 1 ≤ c.s.height
  np : ∀ (b : Nat) (l : PutLocal), c.ts[b]? = some l → PcNP c.s l
  uniq : Uniq c

theorem upper_mem0 {s : Skiplist} {l : PutLocal} (h : LocalOK s l) (hu : isUpper l.pc) :
    l.key ∈ s.level 0 := by
  have hp := h.pc
  unfold PcOK at hp
  unfold isUpper at hu
  split at hu
  · rename_i i heq; rw [heq] at hp; exact hp 0 (by omega)
  · rename_i i heq; rw [heq] at hp; exact hp 0 (by omega)
  · rename_i i _ _ heq; rw [heq] at hp; exact hp.2 0 (by omega)
  · exact absurd hu (by simp)

/-- the facts about a goroutine survive a step of another goroutine that does not put the
    same key on an upper level -/
theorem PcNP.other {s s' : Skiplist} {l : PutLocal} (h : PcNP s l)
    (hkeep : isUpper l.pc → ∀ j, 1 ≤ j → l.key ∈ s'.level j → l.key ∈ s.level j) :
    PcNP s' l := by
  unfold PcNP at h ⊢
  cases hpc : l.pc <;> rw [hpc] at h hkeep <;> simp only [isUpper] at hkeep <;> simp only at h ⊢
  all_goals first
    | exact h
    | skip
  · rename_i i
    exact ⟨h.1, fun hi i' hi' hm => h.2 hi i' hi' (hkeep hi i' (by omega) hm)⟩
  · rename_i i before retry
    exact ⟨h.1, h.2.1, fun hi i' hi' hm => h.2.2 hi i' hi' (hkeep hi i' (by omega) hm)⟩
  · rename_i i
    exact ⟨h.1, h.2.1, fun hi i' hi' hm => h.2.2 hi i' hi' (hkeep hi i' (by omega) hm)⟩

theorem getElem?_set_cases {α : Type} (ts : List α) (t b : Nat) (x y : α)
    (h : (ts.set t x)[b]? = some y) : (b = t ∧ y = x ∧ t < ts.length) ∨ (b ≠ t ∧ ts[b]? = some y) := by
  rw [List.getElem?_set] at h
  by_cases hb : t = b
  · subst hb
    simp only [if_true] at h
    split at h
    · rename_i hlt; left; exact ⟨rfl, by injection h with h; exact h.symm, hlt⟩
    · cases h
  · simp only [hb, if_false] at h
    exact .inr ⟨fun e => hb e.symm, h⟩

theorem step_np (c : CState) (t : Nat) (hc : NPInv c) : NPInv (step c t) := by
  have hinv' := step_inv c t hc.inv
  unfold step at hinv' ⊢
  cases ht : c.ts[t]? with
  | none => exact hc
  | some l =>
    rw [ht] at hinv'
    simp only at hinv' ⊢
    have hlm : l ∈ c.ts := List.mem_of_getElem? ht
    have hlok := hc.inv.locals l hlm
    obtain ⟨h1, h2, h3, h4, h5⟩ :=
      stepPut_np c.s l hc.inv.sorted hc.inv.subset hlok hc.height (hc.np t l ht)
    refine ⟨hinv', h2, ?_, ?_⟩
    · intro b l2 hb
      rcases getElem?_set_cases _ _ _ _ _ hb with ⟨_, rfl, _⟩ | ⟨hbt, hb'⟩
      · exact h1
      · apply (hc.np b l2 hb').other
        intro hu j hj hm
        rcases h5 j _ hm with h | ⟨hk, hpc⟩
        · exact h
        · exfalso
          refine hc.uniq t b l l2 (fun e => hbt e.symm) ht hb' hk.symm ⟨?_, hu⟩
          rw [hpc]; exact hj
    · intro a b la lb hab ha hb hkey ⟨hua, hub⟩
      rcases getElem?_set_cases _ _ _ _ _ ha with ⟨rfl, rfl, _⟩ | ⟨hat, ha'⟩
      · rcases getElem?_set_cases _ _ _ _ _ hb with ⟨rfl, _, _⟩ | ⟨hbt, hb'⟩
        · exact hab rfl
        · rw [h3] at hkey
          rcases h4 hua with h | ⟨_, hnot⟩
          · exact hc.uniq a b l lb hab ht hb' hkey ⟨h, hub⟩
          · exact hnot (hkey ▸ upper_mem0 (hc.inv.locals lb (List.mem_of_getElem? hb')) hub)
      · rcases getElem?_set_cases _ _ _ _ _ hb with ⟨rfl, rfl, _⟩ | ⟨hbt, hb'⟩
        · rw [h3] at hkey
          rcases h4 hub with h | ⟨_, hnot⟩
          · exact hc.uniq a b la l hab ha' ht hkey ⟨hua, h⟩
          · exact hnot (hkey ▸ upper_mem0 (hc.inv.locals la (List.mem_of_getElem? ha')) hua)
        · exact hc.uniq a b la lb hab ha' hb' hkey ⟨hua, hub⟩

theorem init_np (puts : List (Bytes × Bytes × Nat)) : NPInv (initState puts) := by
  refine ⟨init_inv puts, by simp [initState, Skiplist.empty], ?_, ?_⟩
  · intro b l hb
    have hm := List.mem_of_getElem? hb
    simp only [initState, List.mem_map] at hm
    obtain ⟨p, _, rfl⟩ := hm
    unfold PcNP; trivial
  · intro a b la lb _ ha hb _ ⟨hua, _⟩
    have hm := List.mem_of_getElem? ha
    simp only [initState, List.mem_map] at hm
    obtain ⟨p, _, rfl⟩ := hm
    exact hua

theorem run_np (c : CState) (sched : List Nat) (hc : NPInv c) : NPInv (run c sched) := by
  induction sched generalizing c with
  | nil => exact hc
  | cons t ts ih => exact ih (step c t) (step_np c t hc)

end SkipConc

open SkipConc in
/-- **No assertion of `Put` fails under contention**: for any set of concurrent `Put`s and any
    interleaving of their atomic steps no goroutine ever reaches `Pc.panic`
    (`y.AssertTrue(i > 1)`, `y.AssertTrue(prev[i] != next[i])`,
    `y.AssertTruef(i == 0, "Equality can happen only on base level")`). -/
theorem C22_conc_no_assert_fails (puts : List (Bytes × Bytes × Nat)) (sched : List Nat) :
    ∀ l ∈ (run (initState puts) sched).ts, l.pc ≠ .panic := by
  intro l hl hp
  have hc := run_np _ sched (init_np puts)
  obtain ⟨b, hb⟩ := List.getElem?_of_mem hl
  have := hc.np b l hb
  unfold PcNP at this
  rw [hp] at this
  exact this

open SkipConc in
/-- … and at most one of several racing `Put`s of the same key links a node; the others end in
    `setValue` on that node (no key is ever linked twice: `C22_conc_sorted`). -/
theorem C22_conc_single_owner (puts : List (Bytes × Bytes × Nat)) (sched : List Nat) :
    ∀ (a b : Nat) (la lb : PutLocal), a ≠ b → (run (initState puts) sched).ts[a]? = some la →
      (run (initState puts) sched).ts[b]? = some lb → la.key = lb.key →
      ¬ (isUpper la.pc ∧ isUpper lb.pc) :=
  (run_np _ sched (init_np puts)).uniq

/-! ## Which value wins -/

namespace SkipConc

/-- the step is a publishing access: `setValue`, or a level-0 CAS that succeeds -/
def publishes (s : Skiplist) (l : PutLocal) : Prop :=
  (stepPut s l).1.vals ≠ s.vals

theorem stepPut_vals_cases (s : Skiplist) (l : PutLocal) (hl : LocalOK s l) :
    (stepPut s l).1.vals = s.vals ∨ (stepPut s l).1.vals = (l.key, l.v) :: s.vals := by
  have hp := hl.pc
  unfold PcOK at hp
  unfold stepPut
  split
  · exact .inl rfl
  · split <;> exact .inl rfl
  · rename_i k heq
    rw [heq] at hp
    right; rw [hp.1]; rfl
  · split <;> exact .inl rfl
  · split <;> exact .inl rfl
  · split
    · exact .inl rfl
    · split
      · exact .inl rfl
      · split <;> exact .inl rfl
  · split
    · exact .inl rfl
    · split <;> exact .inl rfl
    · exact .inl rfl
  · split
    · exact .inl rfl
    · split
      · split
        · exact .inr rfl
        · exact .inl rfl
      · exact .inl rfl
  · exact .inl rfl
  · exact .inl rfl

/-- every node on level 0 has a value slot, and every slot is the `(key, value)` of a `Put` -/
structure ValInv (puts : List (Bytes × Bytes × Nat)) (c : CState) : Prop where
  threads : ∀ l ∈ c.ts, ∃ p ∈ puts, l.key = p.1 ∧ l.v = p.2.1
  slots : ∀ slot ∈ c.s.vals, ∃ p ∈ puts, slot = (p.1, p.2.1)
  has : ∀ k ∈ c.s.level 0, ∃ v, (k, v) ∈ c.s.vals

theorem stepPut_key_v (s : Skiplist) (l : PutLocal) :
    (stepPut s l).2.key = l.key ∧ (stepPut s l).2.v = l.v := by
  unfold stepPut
  split
  all_goals first
    | exact ⟨rfl, rfl⟩
    | (split <;> first
        | exact ⟨rfl, rfl⟩
        | (split <;> first
            | exact ⟨rfl, rfl⟩
            | (split <;> exact ⟨rfl, rfl⟩)))

end SkipConc

open SkipConc in
/-- **Last publishing access wins**: a step of goroutine `t` (executing `Put(key, v)`) either
    leaves the value of every key unchanged, or it is that `Put`'s publishing access and then
    `key` has value `v` and every other key keeps its value. -/
theorem C22_conc_step_value (c : CState) (hc : CInv c) (t : Nat) (l : PutLocal)
    (ht : c.ts[t]? = some l) :
    (∀ k, (step c t).s.valueOf k = c.s.valueOf k) ∨
    ((step c t).s.valueOf l.key = l.v ∧ ∀ k, k ≠ l.key → (step c t).s.valueOf k = c.s.valueOf k) := by
  have hlok := hc.locals l (List.mem_of_getElem? ht)
  have hv : (step c t).s.vals = (stepPut c.s l).1.vals := by unfold step; rw [ht]
  rcases stepPut_vals_cases c.s l hlok with h | h
  · left; intro k; unfold Skiplist.valueOf; rw [hv, h]
  · right
    refine ⟨?_, ?_⟩
    · unfold Skiplist.valueOf; rw [hv, h]; simp
    · intro k hk
      unfold Skiplist.valueOf; rw [hv, h]
      have : (k == l.key) = false := by simpa using hk
      simp [List.lookup_cons, this]

open SkipConc in
/-- **The value of a key is the value of one of the `Put`s of that key**, in every reachable
    state, for every key that is in the list. -/
theorem C22_conc_value_of_put (puts : List (Bytes × Bytes × Nat)) (sched : List Nat) :
    ∀ k ∈ (run (initState puts) sched).s.level 0,
      ∃ p ∈ puts, p.1 = k ∧ (run (initState puts) sched).s.valueOf k = p.2.1 := by
  -- invariant along the run
  have key : ∀ (sched : List Nat) (c : CState), CInv c → ValInv puts c → ValInv puts (run c sched) := by
    intro sched
    induction sched with
    | nil => exact fun c _ h => h
    | cons t ts ih =>
      intro c hc hv
      apply ih (step c t) (step_inv c t hc)
      unfold step
      cases ht : c.ts[t]? with
      | none => exact hv
      | some l =>
        simp only
        have hlm := List.mem_of_getElem? ht
        have hlok := hc.locals l hlm
        obtain ⟨pl, hpl, hk, hvv⟩ := hv.threads l hlm
        have hkv := stepPut_key_v c.s l
        have hvals := stepPut_vals_cases c.s l hlok
        obtain ⟨_, _, _, hgrow⟩ := stepPut_inv c.s l hc.sorted hc.subset hlok
        refine ⟨?_, ?_, ?_⟩
        · intro l' hl'
          rcases List.mem_or_eq_of_mem_set hl' with h | h
          · exact hv.threads l' h
          · subst h; exact ⟨pl, hpl, hkv.1 ▸ hk, hkv.2 ▸ hvv⟩
        · intro slot hs
          rcases hvals with h | h
          · rw [h] at hs; exact hv.slots slot hs
          · rw [h] at hs
            rcases List.mem_cons.mp hs with h' | h'
            · exact ⟨pl, hpl, by rw [h', hk, hvv]⟩
            · exact hv.slots slot h'
        · intro k hk0
          -- a key new on level 0 comes with its slot
          have hnew : k ∈ c.s.level 0 ∨ (k = l.key ∧ (stepPut c.s l).1.vals = (l.key, l.v) :: c.s.vals) := by
            by_cases hold : k ∈ c.s.level 0
            · exact .inl hold
            · right
              -- only a successful level-0 CAS changes level 0
              have hp := hlok.pc
              unfold PcOK at hp
              revert hk0
              unfold stepPut
              split
              all_goals try (intro hk0; exact absurd hk0 hold)
              · split <;> (intro hk0; exact absurd hk0 hold)
              · split <;> (intro hk0; exact absurd hk0 hold)
              · split <;> (intro hk0; exact absurd hk0 hold)
              · split
                · intro hk0; exact absurd hk0 hold
                · split
                  · intro hk0; exact absurd hk0 hold
                  · split <;> (intro hk0; exact absurd hk0 hold)
              · split
                · intro hk0; exact absurd hk0 hold
                · split <;> (intro hk0; exact absurd hk0 hold)
                · intro hk0; exact absurd hk0 hold
              · rename_i i heq
                split
                · intro hk0; exact absurd hk0 hold
                · rename_i p nx hlk
                  split
                  · rename_i hcas
                    by_cases hi : i = 0
                    · subst hi
                      simp only [if_true]
                      intro hk0
                      have hmem := lookupSpl_mem hlk
                      obtain ⟨hpp, hnx⟩ := hlok.spl 0 p nx hmem
                      obtain ⟨_, hmem', _⟩ := cas_chain (hc.sorted 0) hpp hnx (by simpa using hcas)
                      rw [level_setValue, Skiplist.level_insertAt] at hk0
                      simp only [if_true] at hk0
                      rcases (hmem' k).mp hk0 with h | h
                      · exact ⟨h, rfl⟩
                      · exact absurd h hold
                    · simp only [hi, if_false]
                      intro hk0
                      rw [Skiplist.level_insertAt] at hk0
                      have : (0 : Nat) ≠ i := fun e => hi e.symm
                      simp only [this, if_false] at hk0
                      exact absurd hk0 hold
                  · intro hk0; exact absurd hk0 hold
          rcases hnew with h | ⟨h1, h2⟩
          · obtain ⟨v, hv'⟩ := hv.has k h
            rcases hvals with hh | hh
            · exact ⟨v, hh ▸ hv'⟩
            · exact ⟨v, hh ▸ List.mem_cons_of_mem _ hv'⟩
          · exact ⟨l.v, by rw [h2, h1]; exact List.mem_cons_self⟩
  have hinit : ValInv puts (initState puts) := by
    refine ⟨?_, ?_, ?_⟩
    · intro l hl
      simp only [initState, List.mem_map] at hl
      obtain ⟨p, hp, rfl⟩ := hl
      exact ⟨p, hp, rfl, rfl⟩
    · intro slot hs; simp [initState, Skiplist.empty] at hs
    · intro k hk; simp [initState, Skiplist.empty, Skiplist.level] at hk
  have hv := key sched _ (init_inv puts) hinit
  intro k hk
  obtain ⟨v, hmem⟩ := hv.has k hk
  -- the newest slot of `k`
  have : ∃ v', (run (initState puts) sched).s.vals.lookup k = some v' ∧
      (k, v') ∈ (run (initState puts) sched).s.vals := by
    generalize (run (initState puts) sched).s.vals = vals at hmem
    induction vals with
    | nil => simp at hmem
    | cons e es ih =>
      obtain ⟨a, b⟩ := e
      by_cases hka : k = a
      · subst hka; exact ⟨b, by simp, by simp⟩
      · have hne : (k == a) = false := by simpa using hka
        rcases List.mem_cons.mp hmem with h | h
        · simp only [Prod.mk.injEq] at h; exact absurd h.1 hka
        · obtain ⟨v', h1, h2⟩ := ih h
          exact ⟨v', by simp [List.lookup_cons, hne, h1], List.mem_cons_of_mem _ h2⟩
  obtain ⟨v', hlook, hin⟩ := this
  obtain ⟨p, hp, heq⟩ := hv.slots _ hin
  simp only [Prod.mk.injEq] at heq
  exact ⟨p, hp, heq.1.symm, by unfold Skiplist.valueOf; rw [hlook]; exact heq.2⟩

end Badger
