import BadgerProofs.Lemmas.CompactStatus
import BadgerProofs.Props.C20
/-!
# C14 / C12 — concurrently running compactions are kept apart by `compactStatus`

Model: `BadgerModel/CompactStatus.lean` (compaction.go `compareAndAdd`, `delete`, `overlapsWith`,
and the registration at the end of `fillTablesL0ToL0`). `Reach n cs fl` = the status `cs` after any
history of admissions, refusals and deletions, with the ghost list `fl` of the compactions in flight.

Hypotheses on the history (what the callers in levels.go guarantee, checked on the real callers by
the harness): ranges handed to `compareAndAdd` are `Proper` (non-empty, not `inf`, left ≤ right:
`getKeyRange`), a same-level compaction (Lmax→Lmax) passes `nextRange = thisRange`
(see `C14_cstatus_lmax_leak_witness` for what happens otherwise), the tables of an admitted
compaction are distinct and belong to no compaction in flight, `delete` is called for compactions
in flight only, and at most one L0→L0 compaction runs at a time (compactor 0 only).
-/
namespace Badger.CS
open Badger

/-- A compaction in flight: what was registered for it. `l0` = registered by `fillTablesL0ToL0`. -/
structure Ent where
  cd : CDef
  l0 : Bool
deriving DecidableEq

/-- The ranges registered on level `l` for an entry. -/
def regAt (l : Nat) (e : Ent) : List KeyRange :=
  if e.l0 then (if l = 0 then [infRange] else []) else rangesAt l e.cd

/-- What `getKeyRange` returns: not empty, not infinite, left ≤ right. -/
def Proper (r : KeyRange) : Prop := r.isEmpty = false ∧ r.inf = false ∧ compareKeys r.left r.right ≠ .gt

/-- The two closed key intervals have no key in common. -/
def Apart (a b : KeyRange) : Prop := compareKeys a.right b.left = .lt ∨ compareKeys b.right a.left = .lt

def NoOv (a b : Ent) : Prop :=
  ∀ l, ∀ ra ∈ regAt l a, ∀ rb ∈ regAt l b, ra.overlapsWith rb = false ∨ rb.overlapsWith ra = false

def Sep (a b : Ent) : Prop := a.l0 = true ∨ b.l0 = true ∨ NoOv a b

def IdsDisj (a b : Ent) : Prop := ∀ id, id ∈ a.cd.ids → id ∉ b.cd.ids

/-- Shape of what the callers register. -/
def ShapeC (n : Nat) (cd : CDef) : Prop :=
  cd.thisLevel < n ∧ cd.nextLevel < n ∧ Proper cd.thisRange ∧ Proper cd.nextRange ∧
  (cd.thisLevel = cd.nextLevel → cd.nextRange = cd.thisRange)

def Shape (n : Nat) (e : Ent) : Prop :=
  if e.l0 then e.cd = l0l0Def e.cd.ids ∧ 0 < n else ShapeC n e.cd

structure Inv (n : Nat) (cs : CStatus) (fl : List Ent) : Prop where
  len : cs.levels.length = n
  sound : ∀ e ∈ fl, ∀ l, ∀ r ∈ regAt l e, r ∈ (cs.level l).ranges
  complete : ∀ l, ∀ r ∈ (cs.level l).ranges, ∃ e ∈ fl, r ∈ regAt l e
  idsSound : ∀ e ∈ fl, ∀ id ∈ e.cd.ids, id ∈ cs.tables
  idsComplete : ∀ id ∈ cs.tables, ∃ e ∈ fl, id ∈ e.cd.ids
  sep : fl.Pairwise Sep
  idsDisj : fl.Pairwise IdsDisj
  idsNodup : ∀ e ∈ fl, e.cd.ids.Nodup
  shape : ∀ e ∈ fl, Shape n e
  oneL0 : fl.Pairwise (fun a b => ¬(a.l0 = true ∧ b.l0 = true))

inductive Reach (n : Nat) : CStatus → List Ent → Prop
  | init : Reach n (CStatus.init n) []
  | accept {cs cs' fl cd} : Reach n cs fl → ShapeC n cd → cd.ids.Nodup → (∀ id ∈ cd.ids, id ∉ cs.tables) →
      cs.compareAndAdd cd = some (cs', true) → Reach n cs' (fl ++ [⟨cd, false⟩])
  | refuse {cs cs' fl cd} : Reach n cs fl → cs.compareAndAdd cd = some (cs', false) → Reach n cs' fl
  | delete {cs cs' fl e} : Reach n cs fl → e ∈ fl → cs.delete e.cd = some cs' → Reach n cs' (fl.filter (· ≠ e))
  | l0l0 {cs cs' fl cands out} : Reach n cs fl → 0 < n → (∀ e ∈ fl, e.l0 = false) → cands.Nodup →
      cs.l0l0 cands = (cs', some out) → Reach n cs' (fl ++ [⟨l0l0Def out, true⟩])
  | l0l0No {cs cs' fl cands} : Reach n cs fl → cs.l0l0 cands = (cs', none) → Reach n cs' fl

/-! ## facts about ranges -/

theorem proper_self_overlap {r : KeyRange} (h : Proper r) : r.overlapsWith r = true := by
  obtain ⟨h1, h2, h3⟩ := h
  unfold KeyRange.overlapsWith
  have h4 : compareKeys r.right r.left ≠ .lt := fun h => h3 ((Badger.Tbl.compareKeys_gt_iff _ _).mpr h)
  simp [h1, h2, h3, h4]

theorem apart_of_not_overlap {a b : KeyRange} (ha : Proper a) (hb : Proper b)
    (h : a.overlapsWith b = false ∨ b.overlapsWith a = false) : Apart a b := by
  obtain ⟨a1, a2, _⟩ := ha
  obtain ⟨b1, b2, _⟩ := hb
  unfold Apart
  rcases h with h | h
  · unfold KeyRange.overlapsWith at h
    simp only [a1, b1, a2, b2, Bool.false_eq_true, if_false, Bool.or_self] at h
    by_cases c1 : compareKeys a.left b.right = .gt
    · exact Or.inr ((Badger.Tbl.compareKeys_gt_iff _ _).mp c1)
    · by_cases c2 : compareKeys a.right b.left = .lt
      · exact Or.inl c2
      · simp [c1, c2] at h
  · unfold KeyRange.overlapsWith at h
    simp only [a1, b1, a2, b2, Bool.false_eq_true, if_false, Bool.or_self] at h
    by_cases c1 : compareKeys b.left a.right = .gt
    · exact Or.inl ((Badger.Tbl.compareKeys_gt_iff _ _).mp c1)
    · by_cases c2 : compareKeys b.right a.left = .lt
      · exact Or.inr c2
      · simp [c1, c2] at h

theorem sep_symm : ∀ {a b : Ent}, Sep a b → Sep b a := by
  intro a b h
  rcases h with h | h | h
  · exact Or.inr (Or.inl h)
  · exact Or.inl h
  · exact Or.inr (Or.inr (fun l rb hb ra ha => (h l ra ha rb hb).symm))

theorem idsDisj_symm : ∀ {a b : Ent}, IdsDisj a b → IdsDisj b a := fun h id hb ha => h id ha hb


/-! ## the invariant -/

theorem inv_init (n : Nat) : Inv n (CStatus.init n) [] := by
  refine ⟨by simp [CStatus.init], by simp, ?_, by simp, by simp [CStatus.init], by simp, by simp, by simp, by simp, by simp⟩
  intro l r hr
  simp only [CStatus.level, CStatus.init, List.getD_eq_getElem?_getD] at hr
  by_cases h : l < n
  · simp [List.getElem?_replicate, h] at hr
  · simp [List.getElem?_replicate, h] at hr

theorem regAt_false (l : Nat) (cd : CDef) : regAt l ⟨cd, false⟩ = rangesAt l cd := by simp [regAt]

theorem regAt_l0 (l : Nat) (cd : CDef) : regAt l ⟨cd, true⟩ = if l = 0 then [infRange] else [] := by simp [regAt]

theorem mem_rangesAt {l : Nat} {cd : CDef} {r : KeyRange} :
    r ∈ rangesAt l cd ↔ (cd.thisLevel = l ∧ r = cd.thisRange) ∨ (cd.nextLevel = l ∧ r = cd.nextRange) := by
  unfold rangesAt
  by_cases a : cd.thisLevel = l <;> by_cases b : cd.nextLevel = l <;> simp [a, b]

/-- Entries of an invariant state: a registered range of a non-L0→L0 entry is proper. -/
theorem reg_proper {n : Nat} {e : Ent} (hs : Shape n e) (h0 : e.l0 = false) {l : Nat} {r : KeyRange}
    (hr : r ∈ regAt l e) : Proper r := by
  unfold Shape at hs; simp only [h0, Bool.false_eq_true, if_false] at hs
  unfold regAt at hr; simp only [h0, Bool.false_eq_true, if_false] at hr
  rcases mem_rangesAt.mp hr with ⟨_, rfl⟩ | ⟨_, rfl⟩
  · exact hs.2.2.1
  · exact hs.2.2.2.1

theorem inv_accept {n : Nat} {cs cs' : CStatus} {fl : List Ent} {cd : CDef} (hi : Inv n cs fl)
    (hs : ShapeC n cd) (hn : cd.ids.Nodup) (hf : ∀ id ∈ cd.ids, id ∉ cs.tables)
    (h : cs.compareAndAdd cd = some (cs', true)) : Inv n cs' (fl ++ [⟨cd, false⟩]) := by
  obtain ⟨hlen, _, _, ho1, ho2, hr, ht⟩ := caa_spec h
  have hov : ∀ l, ∀ rb ∈ rangesAt l cd, ∀ ra ∈ (cs.level l).ranges, ra.overlapsWith rb = false := by
    intro l rb hrb ra hra
    rcases mem_rangesAt.mp hrb with ⟨rfl, rfl⟩ | ⟨rfl, rfl⟩
    · simp only [LevelCS.overlapsWith, List.any_eq_false] at ho1
      simpa using ho1 ra hra
    · simp only [LevelCS.overlapsWith, List.any_eq_false] at ho2
      simpa using ho2 ra hra
  refine ⟨hlen.trans hi.len, ?_, ?_, ?_, ?_, ?_, ?_, ?_, ?_, ?_⟩
  · intro e he l r hre
    rw [hr l]
    rcases List.mem_append.mp he with he | he
    · exact List.mem_append_left _ (hi.sound e he l r hre)
    · simp only [List.mem_singleton] at he; subst he
      exact List.mem_append_right _ (by simpa [regAt_false] using hre)
  · intro l r hrr
    rw [hr l] at hrr
    rcases List.mem_append.mp hrr with h1 | h1
    · obtain ⟨e, he, hre⟩ := hi.complete l r h1
      exact ⟨e, List.mem_append_left _ he, hre⟩
    · exact ⟨⟨cd, false⟩, by simp, by simpa [regAt_false] using h1⟩
  · intro e he id hid
    rw [ht id]
    rcases List.mem_append.mp he with he | he
    · exact Or.inr (hi.idsSound e he id hid)
    · simp only [List.mem_singleton] at he; subst he; exact Or.inl hid
  · intro id hid
    rcases (ht id).mp hid with h1 | h1
    · exact ⟨⟨cd, false⟩, by simp, h1⟩
    · obtain ⟨e, he, hie⟩ := hi.idsComplete id h1
      exact ⟨e, List.mem_append_left _ he, hie⟩
  · rw [List.pairwise_append]
    refine ⟨hi.sep, by simp, ?_⟩
    intro a ha b hb
    simp only [List.mem_singleton] at hb; subst hb
    refine Or.inr (Or.inr ?_)
    intro l ra hra rb hrb
    exact Or.inl (hov l rb (by simpa [regAt_false] using hrb) ra (hi.sound a ha l ra hra))
  · rw [List.pairwise_append]
    refine ⟨hi.idsDisj, by simp, ?_⟩
    intro a ha b hb
    simp only [List.mem_singleton] at hb; subst hb
    intro id hida hidc
    exact hf id hidc (hi.idsSound a ha id hida)
  · intro e he
    rcases List.mem_append.mp he with he | he
    · exact hi.idsNodup e he
    · simp only [List.mem_singleton] at he; subst he; exact hn
  · intro e he
    rcases List.mem_append.mp he with he | he
    · exact hi.shape e he
    · simp only [List.mem_singleton] at he; subst he; simpa [Shape] using hs
  · rw [List.pairwise_append]
    refine ⟨hi.oneL0, by simp, ?_⟩
    intro a _ b hb
    simp only [List.mem_singleton] at hb; subst hb
    simp

theorem inv_l0l0 {n : Nat} {cs cs' : CStatus} {fl : List Ent} {cands out : List Nat} (hi : Inv n cs fl)
    (hn0 : 0 < n) (hno : ∀ e ∈ fl, e.l0 = false) (hnd : cands.Nodup)
    (h : cs.l0l0 cands = (cs', some out)) : Inv n cs' (fl ++ [⟨l0l0Def out, true⟩]) := by
  obtain ⟨hlen, hout, hr, ht⟩ := l0l0_spec h
  have hpos : 0 < cs.levels.length := by rw [hi.len]; exact hn0
  have hids : (l0l0Def out).ids = out := rfl
  refine ⟨hlen.trans hi.len, ?_, ?_, ?_, ?_, ?_, ?_, ?_, ?_, ?_⟩
  · intro e he l r hre
    rw [hr l]
    rcases List.mem_append.mp he with he | he
    · exact List.mem_append_left _ (hi.sound e he l r hre)
    · simp only [List.mem_singleton] at he; subst he
      apply List.mem_append_right
      rw [regAt_l0] at hre
      by_cases hl : l = 0 <;> simp_all
  · intro l r hrr
    rw [hr l] at hrr
    rcases List.mem_append.mp hrr with h1 | h1
    · obtain ⟨e, he, hre⟩ := hi.complete l r h1
      exact ⟨e, List.mem_append_left _ he, hre⟩
    · refine ⟨⟨l0l0Def out, true⟩, by simp, ?_⟩
      rw [regAt_l0]
      by_cases hl : l = 0 <;> simp_all
  · intro e he id hid
    rw [ht id]
    rcases List.mem_append.mp he with he | he
    · exact Or.inr (hi.idsSound e he id hid)
    · simp only [List.mem_singleton] at he; subst he; exact Or.inl hid
  · intro id hid
    rcases (ht id).mp hid with h1 | h1
    · exact ⟨⟨l0l0Def out, true⟩, by simp, h1⟩
    · obtain ⟨e, he, hie⟩ := hi.idsComplete id h1
      exact ⟨e, List.mem_append_left _ he, hie⟩
  · rw [List.pairwise_append]
    refine ⟨hi.sep, by simp, ?_⟩
    intro a _ b hb
    simp only [List.mem_singleton] at hb; subst hb
    exact Or.inr (Or.inl rfl)
  · rw [List.pairwise_append]
    refine ⟨hi.idsDisj, by simp, ?_⟩
    intro a ha b hb
    simp only [List.mem_singleton] at hb; subst hb
    intro id hida hidc
    rw [hids, hout, List.mem_filter] at hidc
    have := hi.idsSound a ha id hida
    simp [this] at hidc
  · intro e he
    rcases List.mem_append.mp he with he | he
    · exact hi.idsNodup e he
    · simp only [List.mem_singleton] at he; subst he
      rw [hids, hout]; exact hnd.filter _
  · intro e he
    rcases List.mem_append.mp he with he | he
    · exact hi.shape e he
    · simp only [List.mem_singleton] at he; subst he; simp [Shape, hn0, l0l0Def]
  · rw [List.pairwise_append]
    refine ⟨hi.oneL0, by simp, ?_⟩
    intro a ha b hb
    simp only [List.mem_singleton] at hb; subst hb
    simp [hno a ha]

theorem pairwise_sym_forall {α : Type} {R : α → α → Prop} (hs : ∀ {a b}, R a b → R b a) {l : List α}
    (h : l.Pairwise R) : ∀ a ∈ l, ∀ b ∈ l, a ≠ b → R a b := by
  induction h with
  | nil => simp
  | cons hx _ ih =>
    intro a ha b hb hne
    rcases List.mem_cons.mp ha with ha1 | ha1
    · rcases List.mem_cons.mp hb with hb1 | hb1
      · exact absurd (ha1.trans hb1.symm) hne
      · subst ha1; exact hx b hb1
    · rcases List.mem_cons.mp hb with hb1 | hb1
      · subst hb1; exact hs (hx a ha1)
      · exact ih a ha1 b hb1 hne

/-- Under the caller's shape, `delete` looks for exactly the ranges that were registered. -/
theorem mem_delAt_iff {n : Nat} {e : Ent} (hs : Shape n e) (l : Nat) (r : KeyRange) :
    r ∈ delAt l e.cd ↔ r ∈ regAt l e := by
  unfold Shape at hs
  cases h0 : e.l0
  · simp only [h0, Bool.false_eq_true, if_false] at hs
    obtain ⟨_, _, _, hp, heq⟩ := hs
    simp only [regAt, h0, Bool.false_eq_true, if_false, mem_rangesAt, delAt, List.mem_append]
    by_cases c : e.cd.thisLevel = e.cd.nextLevel
    · have := heq c
      by_cases a : e.cd.thisLevel = l <;> simp [a, c, this] <;> grind
    · by_cases a : e.cd.thisLevel = l <;> by_cases b : e.cd.nextLevel = l <;> simp [a, b, c, hp.1]
      exact absurd (a.trans b.symm) c
  · simp only [h0, if_true] at hs
    rw [hs.1]
    simp only [regAt, h0, if_true, delAt, l0l0Def]
    by_cases a : l = 0
    · subst a; simp
    · have : ¬ 0 = l := fun h => a h.symm
      simp [a, this]

/-- Two different compactions in flight never have the same range registered on a level. -/
theorem reg_distinct {n : Nat} {cs : CStatus} {fl : List Ent} (hi : Inv n cs fl) {a b : Ent}
    (ha : a ∈ fl) (hb : b ∈ fl) (hne : a ≠ b) {l : Nat} {r : KeyRange} (hra : r ∈ regAt l a) : r ∉ regAt l b := by
  intro hrb
  have hsep := pairwise_sym_forall (fun h => sep_symm h) hi.sep a ha b hb hne
  have hone := pairwise_sym_forall (R := fun a b => ¬(a.l0 = true ∧ b.l0 = true))
    (fun h hc => h ⟨hc.2, hc.1⟩) hi.oneL0 a ha b hb hne
  cases ha0 : a.l0 <;> cases hb0 : b.l0
  · have pa := reg_proper (hi.shape a ha) ha0 hra
    rcases hsep with h | h | h
    · simp [ha0] at h
    · simp [hb0] at h
    · have := h l r hra r hrb
      simp [proper_self_overlap pa] at this
  · have pa := reg_proper (hi.shape a ha) ha0 hra
    simp only [regAt, hb0, if_true] at hrb
    by_cases hl : l = 0
    · simp only [hl, if_true, List.mem_singleton] at hrb
      subst hrb; simp [Proper, infRange] at pa
    · simp [hl] at hrb
  · have pb := reg_proper (hi.shape b hb) hb0 hrb
    simp only [regAt, ha0, if_true] at hra
    by_cases hl : l = 0
    · simp only [hl, if_true, List.mem_singleton] at hra
      subst hra; simp [Proper, infRange] at pb
    · simp [hl] at hra
  · exact hone ⟨ha0, hb0⟩

theorem inv_delete {n : Nat} {cs cs' : CStatus} {fl : List Ent} {e0 : Ent} (hi : Inv n cs fl)
    (he0 : e0 ∈ fl) (h : cs.delete e0.cd = some cs') : Inv n cs' (fl.filter (· ≠ e0)) := by
  obtain ⟨hlen, hr, ht⟩ := delete_spec h
  have hshape := hi.shape e0 he0
  have hids : cs'.tables = cs.tables.filter (fun x => decide (x ∉ e0.cd.ids)) := by
    have := delIds_eq e0.cd.ids cs.tables (hi.idsNodup e0 he0) (hi.idsSound e0 he0)
    rw [this] at ht; exact (Option.some.inj ht).symm
  have hmem : ∀ e, e ∈ fl.filter (· ≠ e0) ↔ e ∈ fl ∧ e ≠ e0 := by
    intro e; simp [List.mem_filter]
  refine ⟨hlen.trans hi.len, ?_, ?_, ?_, ?_, hi.sep.filter _, hi.idsDisj.filter _, ?_, ?_, hi.oneL0.filter _⟩
  · intro e he l r hre
    obtain ⟨he, hne⟩ := (hmem e).mp he
    rw [hr l r]
    refine ⟨hi.sound e he l r hre, ?_⟩
    rw [mem_delAt_iff hshape]
    exact reg_distinct hi he he0 hne hre
  · intro l r hrr
    obtain ⟨h1, h2⟩ := (hr l r).mp hrr
    rw [mem_delAt_iff hshape] at h2
    obtain ⟨e, he, hre⟩ := hi.complete l r h1
    refine ⟨e, (hmem e).mpr ⟨he, ?_⟩, hre⟩
    intro heq; subst heq; exact h2 hre
  · intro e he id hid
    obtain ⟨he, hne⟩ := (hmem e).mp he
    rw [hids, List.mem_filter]
    refine ⟨hi.idsSound e he id hid, ?_⟩
    have := pairwise_sym_forall (fun h => idsDisj_symm h) hi.idsDisj e he e0 he0 hne id hid
    simpa using this
  · intro id hid
    rw [hids, List.mem_filter] at hid
    obtain ⟨e, he, hie⟩ := hi.idsComplete id hid.1
    refine ⟨e, (hmem e).mpr ⟨he, ?_⟩, hie⟩
    intro heq; subst heq; simp [hie] at hid
  · intro e he; exact hi.idsNodup e ((hmem e).mp he).1
  · intro e he; exact hi.shape e ((hmem e).mp he).1

/-- `delete` of a compaction in flight never reaches `log.Fatal("keyRange not found")` nor a failing
`y.AssertTrue(ok)`. -/
theorem delete_ok {n : Nat} {cs : CStatus} {fl : List Ent} {e0 : Ent} (hi : Inv n cs fl) (he0 : e0 ∈ fl) :
    (cs.delete e0.cd).isSome := by
  have hshape := hi.shape e0 he0
  have hreg : ∀ l r, r ∈ delAt l e0.cd → r ∈ (cs.level l).ranges := fun l r h =>
    hi.sound e0 he0 l r ((mem_delAt_iff hshape l r).mp h)
  have hlv : e0.cd.thisLevel < cs.levels.length ∧ e0.cd.nextLevel < cs.levels.length := by
    rw [hi.len]
    unfold Shape at hshape
    cases h0 : e0.l0
    · simp only [h0, Bool.false_eq_true, if_false] at hshape; exact ⟨hshape.1, hshape.2.1⟩
    · simp only [h0, if_true] at hshape; rw [hshape.1]; exact ⟨hshape.2, hshape.2⟩
  apply delete_isSome hlv
  · exact hreg _ _ (by simp [delAt])
  · intro h1 h2; exact hreg _ _ (by simp [delAt, h1, h2])
  · rw [delIds_eq e0.cd.ids cs.tables (hi.idsNodup e0 he0) (hi.idsSound e0 he0)]; rfl

end Badger.CS

namespace Badger
open Badger.CS

/-! ## property theorems -/

/-- Every reachable status satisfies the invariant. -/
theorem C14_cstatus_inv {n : Nat} {cs : CStatus} {fl : List Ent} (h : Reach n cs fl) : Inv n cs fl := by
  induction h with
  | init => exact inv_init n
  | accept _ hs hn hf hc ih => exact inv_accept ih hs hn hf hc
  | refuse _ hc ih => rw [caa_false hc]; exact ih
  | delete _ he hd ih => exact inv_delete ih he hd
  | l0l0 _ hn0 hno hnd hl ih => exact inv_l0l0 ih hn0 hno hnd hl
  | l0l0No _ hl ih =>
    have : _ = _ := hl
    unfold CStatus.l0l0 at hl
    simp only at hl
    split at hl
    · simp only [Prod.mk.injEq, and_true] at hl; rw [← hl]; exact ih
    · simp at hl

/-- MUTUAL EXCLUSION. Two different compactions in flight that were admitted by `compareAndAdd` never
have key ranges with a common key registered on the same level — whatever the order of admissions,
refusals and deletions before. (An L0→L0 compaction registers `infRange` without a test; for it the
guarantee is `C14_cstatus_tables_disjoint` and `C14_cstatus_l0l0_blocks`.) -/
theorem C14_cstatus_exclusive {n : Nat} {cs : CStatus} {fl : List Ent} (h : Reach n cs fl) {a b : Ent}
    (ha : a ∈ fl) (hb : b ∈ fl) (hne : a ≠ b) (ha0 : a.l0 = false) (hb0 : b.l0 = false)
    {l : Nat} {ra rb : KeyRange} (hra : ra ∈ regAt l a) (hrb : rb ∈ regAt l b) : Apart ra rb := by
  have hi := C14_cstatus_inv h
  have hsep := pairwise_sym_forall (fun h => sep_symm h) hi.sep a ha b hb hne
  rcases hsep with h1 | h1 | h1
  · simp [ha0] at h1
  · simp [hb0] at h1
  · exact apart_of_not_overlap (reg_proper (hi.shape a ha) ha0 hra) (reg_proper (hi.shape b hb) hb0 hrb)
      (h1 l ra hra rb hrb)

/-- Key `k` (an internal key) lies in the closed interval of `r`, by `y.CompareKeys`. -/
def Within (r : KeyRange) (k : Bytes) : Prop := compareKeys k r.left ≠ .lt ∧ compareKeys r.right k ≠ .lt

theorem apart_no_common_key {ra rb : KeyRange} (h : Apart ra rb) (k : Bytes) : ¬(Within ra k ∧ Within rb k) := by
  rintro ⟨⟨a1, a2⟩, ⟨b1, b2⟩⟩
  rcases h with h | h
  · exact b1 (Badger.Tbl.compareKeys_lt_of_not_lt_of_lt k ra.right rb.left a2 h)
  · exact a1 (Badger.Tbl.compareKeys_lt_of_not_lt_of_lt k rb.right ra.left b2 h)

/-- Key-level reading of the mutual exclusion: no internal key lies inside the registered ranges of two
different `compareAndAdd`-admitted compactions on one level — so tables whose keys lie inside the
ranges registered for them (what `getKeyRange` over `cd.top` / `cd.bot` guarantees) are touched by at
most one running compaction. -/
theorem C14_cstatus_no_common_key {n : Nat} {cs : CStatus} {fl : List Ent} (h : Reach n cs fl) {a b : Ent}
    (ha : a ∈ fl) (hb : b ∈ fl) (hne : a ≠ b) (ha0 : a.l0 = false) (hb0 : b.l0 = false)
    {l : Nat} {ra rb : KeyRange} (hra : ra ∈ regAt l a) (hrb : rb ∈ regAt l b) (k : Bytes) :
    ¬(Within ra k ∧ Within rb k) :=
  apart_no_common_key (C14_cstatus_exclusive h ha hb hne ha0 hb0 hra hrb) k

/-- Two different compactions in flight never share a table — for an L0→L0 compaction this is
established by the `cs.tables` filter of `fillTablesL0ToL0`, for the others it is the caller's
hypothesis carried along. -/
theorem C14_cstatus_tables_disjoint {n : Nat} {cs : CStatus} {fl : List Ent} (h : Reach n cs fl) {a b : Ent}
    (ha : a ∈ fl) (hb : b ∈ fl) (hne : a ≠ b) : ∀ id ∈ a.cd.ids, id ∉ b.cd.ids :=
  pairwise_sym_forall (fun h => idsDisj_symm h) (C14_cstatus_inv h).idsDisj a ha b hb hne

/-- The registered table set is exactly the union of the tables of the compactions in flight. -/
theorem C14_cstatus_tables_exact {n : Nat} {cs : CStatus} {fl : List Ent} (h : Reach n cs fl) (id : Nat) :
    id ∈ cs.tables ↔ ∃ e ∈ fl, id ∈ e.cd.ids :=
  ⟨(C14_cstatus_inv h).idsComplete id, fun ⟨e, he, hid⟩ => (C14_cstatus_inv h).idsSound e he id hid⟩

/-- `compactStatus.delete` of a compaction in flight never ends in `log.Fatal` / a failed assertion. -/
theorem C14_cstatus_delete_ok {n : Nat} {cs : CStatus} {fl : List Ent} (h : Reach n cs fl) {e : Ent}
    (he : e ∈ fl) : (cs.delete e.cd).isSome := delete_ok (C14_cstatus_inv h) he

/-- NO LEAK: when no compaction is in flight, no range and no table id is registered: nothing stays
blocked. -/
theorem C14_cstatus_no_leak {n : Nat} {cs : CStatus} (h : Reach n cs []) :
    (∀ l, (cs.level l).ranges = []) ∧ cs.tables = [] := by
  have hi := C14_cstatus_inv h
  constructor
  · intro l
    apply List.eq_nil_iff_forall_not_mem.mpr
    intro r hr; obtain ⟨e, he, _⟩ := hi.complete l r hr; simp at he
  · apply List.eq_nil_iff_forall_not_mem.mpr
    intro id hid; obtain ⟨e, he, _⟩ := hi.idsComplete id hid; simp at he

/-- While an L0→L0 compaction is registered (`infRange` on level 0), `compareAndAdd` refuses every
compaction out of level 0 ("Avoid any other L0 -> Lbase from happening"). -/
theorem C14_cstatus_l0l0_blocks {cs cs' : CStatus} {cd : CDef} {ok : Bool}
    (hinf : infRange ∈ (cs.level 0).ranges) (h0 : cd.thisLevel = 0) (hne : cd.thisRange.isEmpty = false)
    (h : cs.compareAndAdd cd = some (cs', ok)) : ok = false := by
  cases ok
  · rfl
  · obtain ⟨_, _, _, ho1, _⟩ := caa_spec h
    rw [h0] at ho1
    simp only [LevelCS.overlapsWith, List.any_eq_false] at ho1
    have := ho1 infRange hinf
    simp only [KeyRange.overlapsWith, hne] at this
    simp [infRange, KeyRange.isEmpty] at this

/-! ## what the `nextRange = thisRange` hypothesis excludes (observation O-cs1, DESIGN §7)

`fillMaxLevelTables` starts with `nextRange = thisRange` but then EXTENDS `nextRange` over the
following tables it adds to `cd.bot` (`collectBotTables`, levels.go:1360). `compareAndAdd` registers
both ranges on the last level; `delete` skips `nextRange` because both level handlers are the same.
The extended range stays registered for ever: -/
def leakCd : CDef :=
  { thisLevel := 2, nextLevel := 2,
    thisRange := { left := keyWithTs [0x61] maxU64, right := keyWithTs [0x62] 0 },
    nextRange := { left := keyWithTs [0x61] maxU64, right := keyWithTs [0x64] 0 }, thisSize := 10, ids := [1, 2] }

def leakNext : CDef :=
  { thisLevel := 1, nextLevel := 2, thisRange := leakCd.thisRange, nextRange := leakCd.thisRange, ids := [3] }

theorem C14_cstatus_lmax_leak_witness :
    ∃ cs1 cs2, (CStatus.init 3).compareAndAdd leakCd = some (cs1, true) ∧ cs1.delete leakCd = some cs2 ∧
      (cs2.level 2).ranges = [leakCd.nextRange] ∧ cs2.tables = [] ∧
      -- and from then on a compaction INTO that range of the last level is refused:
      ∃ cs3, cs2.compareAndAdd leakNext = some (cs3, false) := by
  refine ⟨_, _, rfl, rfl, rfl, rfl, _, rfl⟩

/-! ## non-vacuity: a reachable status with two compactions in flight and one L0→L0 -/
def exA : CDef :=
  { thisLevel := 1, nextLevel := 2,
    thisRange := { left := keyWithTs [0x61] maxU64, right := keyWithTs [0x62] 0 },
    nextRange := { left := keyWithTs [0x61] maxU64, right := keyWithTs [0x63] 0 }, ids := [1, 2] }
def exB : CDef :=
  { thisLevel := 1, nextLevel := 2,
    thisRange := { left := keyWithTs [0x65] maxU64, right := keyWithTs [0x66] 0 },
    nextRange := { left := keyWithTs [0x65] maxU64, right := keyWithTs [0x66] 0 }, ids := [3] }

theorem exA_shape : ShapeC 3 exA := by
  refine ⟨by decide, by decide, ⟨rfl, rfl, by decide⟩, ⟨rfl, rfl, by decide⟩, by decide⟩

theorem exB_shape : ShapeC 3 exB := by
  refine ⟨by decide, by decide, ⟨rfl, rfl, by decide⟩, ⟨rfl, rfl, by decide⟩, by decide⟩

/-- The hypotheses of the theorems are satisfiable: both compactions are admitted, an L0→L0 compaction
registers on top of them, and the theorems apply to the resulting status. -/
theorem C14_cstatus_nonvacuous :
    ∃ cs, Reach 3 cs [⟨exA, false⟩, ⟨exB, false⟩, ⟨l0l0Def [10, 11, 12, 13], true⟩] ∧
      Apart exA.nextRange exB.nextRange := by
  have r1 : Reach 3 _ ([] ++ [⟨exA, false⟩]) :=
    Reach.accept (cs' := ((CStatus.init 3).compareAndAdd exA).get!.1) Reach.init exA_shape (by decide) (by decide) rfl
  have r2 : Reach 3 _ (([] ++ [⟨exA, false⟩]) ++ [⟨exB, false⟩]) :=
    Reach.accept (cs' := ((((CStatus.init 3).compareAndAdd exA).get!.1).compareAndAdd exB).get!.1)
      r1 exB_shape (by decide) (by decide) rfl
  have r3 := Reach.l0l0 (cands := [10, 1, 11, 12, 13]) (out := [10, 11, 12, 13])
    (cs' := (((((CStatus.init 3).compareAndAdd exA).get!.1).compareAndAdd exB).get!.1.l0l0 [10, 1, 11, 12, 13]).1)
    r2 (by decide) (by simp) (by decide) rfl
  refine ⟨_, r3, ?_⟩
  exact C14_cstatus_exclusive r3 (a := ⟨exA, false⟩) (b := ⟨exB, false⟩) (by simp) (by simp) (by decide) rfl rfl
    (l := 2) (by simp [regAt, rangesAt, exA]) (by simp [regAt, rangesAt, exB])

/-! ## the ranges the callers register: `getKeyRange` -/

/-- `getKeyRange` for given extreme keys (compaction.go:98-123): all versions of the smallest and of
the biggest user key: `[parseKey(smallest)@MaxUint64, parseKey(biggest)@0]`. -/
def getKeyRangeOf (smallest biggest : Bytes) : KeyRange :=
  { left := keyWithTs (parseKey smallest) maxU64, right := keyWithTs (parseKey biggest) 0 }

theorem keyWithTs_ne_nil (k : Bytes) (ts : Nat) : (keyWithTs k ts).isEmpty = false := by
  have := keyWithTs_length k ts
  cases h : keyWithTs k ts with
  | nil => rw [h] at this; simp at this
  | cons _ _ => rfl

/-- What `getKeyRange` returns is `Proper` (the hypothesis of `Reach.accept`), for any tables whose
smallest key is not above their biggest key. -/
theorem C14_getKeyRange_proper (a b : Bytes) (s t : Nat) (hs : s ≤ maxU64) (ht : t ≤ maxU64)
    (h : compareKeys (keyWithTs a s) (keyWithTs b t) ≠ .gt) :
    Proper (getKeyRangeOf (keyWithTs a s) (keyWithTs b t)) := by
  unfold getKeyRangeOf
  rw [C20_parseKey_keyWithTs, C20_parseKey_keyWithTs]
  refine ⟨by simp [KeyRange.isEmpty, keyWithTs_ne_nil], rfl, ?_⟩
  rw [C20_compareKeys_order a b s t hs ht] at h
  rw [C20_compareKeys_order a b maxU64 0 (Nat.le_refl _) (Nat.zero_le _)]
  cases hc : cmpBytes a b with
  | lt => simp
  | gt => simp [hc] at h
  | eq =>
    simp only
    rw [Nat.compare_eq_lt.mpr (by unfold maxU64; omega)]; simp

/-- Every key of the tables (between their smallest and their biggest key) lies `Within` the range
`getKeyRange` registers for them. -/
theorem C14_getKeyRange_within (a b c : Bytes) (s t u : Nat) (hs : s ≤ maxU64) (ht : t ≤ maxU64) (hu : u ≤ maxU64)
    (h1 : compareKeys (keyWithTs a s) (keyWithTs c u) ≠ .gt)
    (h2 : compareKeys (keyWithTs c u) (keyWithTs b t) ≠ .gt) :
    Within (getKeyRangeOf (keyWithTs a s) (keyWithTs b t)) (keyWithTs c u) := by
  unfold getKeyRangeOf Within
  rw [C20_parseKey_keyWithTs, C20_parseKey_keyWithTs]
  simp only
  rw [C20_compareKeys_order a c s u hs hu] at h1
  rw [C20_compareKeys_order c b u t hu ht] at h2
  rw [C20_compareKeys_order c a u maxU64 hu (Nat.le_refl _), C20_compareKeys_order b c 0 u (Nat.zero_le _) hu]
  constructor
  · have hsw := cmpBytes_swap a c
    cases hc : cmpBytes c a with
    | gt => simp
    | lt =>
      have hac : cmpBytes a c = .gt := by
        rw [hc] at hsw
        cases hx : cmpBytes a c <;> rw [hx] at hsw <;> simp [Ordering.swap] at hsw ⊢
      simp [hac] at h1
    | eq =>
      simp only
      intro hlt
      rw [Nat.compare_eq_lt] at hlt; omega
  · have hsw := cmpBytes_swap c b
    cases hc : cmpBytes b c with
    | gt => simp
    | lt =>
      have hcb : cmpBytes c b = .gt := by
        rw [hc] at hsw
        cases hx : cmpBytes c b <;> rw [hx] at hsw <;> simp [Ordering.swap] at hsw ⊢
      simp [hcb] at h2
    | eq =>
      simp only
      intro hlt
      rw [Nat.compare_eq_lt] at hlt; omega

end Badger
