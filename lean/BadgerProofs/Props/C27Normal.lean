import BadgerProofs.Props.C27
import BadgerProofs.Props.C27Hist
/-!
# C27, normal mode, in user terms

For a batch of `Set` / `SetEntry` / `Delete` operations on a normal-mode database (commit
timestamps `ts0, ts0+1, …` above every stored version), however the batch was split into
internal transactions: a read at any timestamp at or above the batch's last commit returns, for
every key the batch touched, the **last operation issued on that key** (`C27_normal_latest`),
and is unchanged for every other key (`C27_normal_untouched`).
-/
namespace Badger

/-- a stream whose versions do not increase towards the end and stay `≤ ts` is read by `find?` -/
theorem newestLE_antitone {R : List Ent} (hp : R.Pairwise (fun a b => b.ver ≤ a.ver))
    {ts : Nat} (hts : ∀ e ∈ R, e.ver ≤ ts) (k : Bytes) :
    newestLE R k ts = R.find? (·.key == k) := by
  induction R with
  | nil => rfl
  | cons x xs ih =>
    rw [List.pairwise_cons] at hp
    rw [newestLE_cons, List.find?_cons, ih hp.2 (fun e he => hts e (List.mem_cons_of_mem _ he))]
    by_cases hk : x.key = k
    · have hb : (x.key == k) = true := by simpa using hk
      rw [hb, cand_pos hk (hts x List.mem_cons_self)]
      cases hf : xs.find? (·.key == k) with
      | none => rfl
      | some y => exact pick_absorb (hp.1 y (List.mem_of_find?_eq_some hf))
    · have hb : (x.key == k) = false := by simpa using hk
      rw [hb, cand_neg (fun hc => hk hc.1), pick_none_left]

/-- the issued stream of a normal-mode batch: versions start at `ts0`, never decrease, and stay
    below `ts0 +` the number of operations -/
theorem issued_versions (ts0 : Nat) (l : List (List Ent)) (h0 : ∀ seg ∈ l, ∀ e ∈ seg, e.ver = 0) :
    (∀ e ∈ batchIssued (assignTs false ts0 l), ts0 ≤ e.ver ∧ e.ver ≤ ts0 + l.flatten.length) ∧
    (batchIssued (assignTs false ts0 l)).Pairwise (fun a b => a.ver ≤ b.ver) := by
  induction l generalizing ts0 with
  | nil => exact ⟨fun e he => (by simp [assignTs, batchIssued] at he), (by simp [assignTs, batchIssued])⟩
  | cons ops rest ih =>
    have hops : ∀ e ∈ ops, e.ver = 0 := h0 ops List.mem_cons_self
    have hrest : ∀ seg ∈ rest, ∀ e ∈ seg, e.ver = 0 := fun s hs => h0 s (List.mem_cons_of_mem _ hs)
    -- every entry this transaction issues carries its commit timestamp
    have hiss : ∀ e ∈ (ops.map (Ent.atTs ts0)), e.ver = ts0 := by
      intro e he
      obtain ⟨x, hx, rfl⟩ := List.mem_map.mp he
      rw [atTs_ver, hops x hx]; rfl
    by_cases hemp : ops = []
    · subst hemp
      have : batchIssued (assignTs false ts0 ([] :: rest)) = batchIssued (assignTs false ts0 rest) := by
        simp [assignTs, batchIssued, Seg.issued]
      rw [this]
      obtain ⟨h1, h2⟩ := ih ts0 hrest
      exact ⟨fun e he => by simpa using h1 e he, h2⟩
    · have hne : ops.isEmpty = false := by cases ops with | nil => exact absurd rfl hemp | cons _ _ => rfl
      have : batchIssued (assignTs false ts0 (ops :: rest)) =
          ops.map (Ent.atTs ts0) ++ batchIssued (assignTs false (ts0 + 1) rest) := by
        simp [assignTs, hne, batchIssued, Seg.issued]
      rw [this]
      obtain ⟨h1, h2⟩ := ih (ts0 + 1) hrest
      have hlen : 0 < ops.length := by cases ops with | nil => exact absurd rfl hemp | cons _ _ => simp
      constructor
      · intro e he
        rcases List.mem_append.mp he with he | he
        · rw [hiss e he]; exact ⟨Nat.le_refl _, Nat.le_add_right _ _⟩
        · have := h1 e he
          simp only [List.flatten_cons, List.length_append]
          omega
      · rw [List.pairwise_append]
        refine ⟨?_, h2, ?_⟩
        · rw [List.pairwise_iff_forall_sublist]
          intro a b hab
          have ha := hiss a (hab.subset (by simp))
          have hb := hiss b (hab.subset (by simp))
          omega
        · intro a ha b hb
          rw [hiss a ha]; have := (h1 b hb).1; omega

/-- the issued stream is the operation list, only the versions are filled in -/
theorem issued_strip (ts0 : Nat) (l : List (List Ent)) (h0 : ∀ seg ∈ l, ∀ e ∈ seg, e.ver = 0) :
    (batchIssued (assignTs false ts0 l)).map (fun e => { e with ver := 0 }) = l.flatten := by
  induction l generalizing ts0 with
  | nil => rfl
  | cons ops rest ih =>
    have hops : ∀ e ∈ ops, e.ver = 0 := h0 ops List.mem_cons_self
    have hrest : ∀ seg ∈ rest, ∀ e ∈ seg, e.ver = 0 := fun s hs => h0 s (List.mem_cons_of_mem _ hs)
    have hs : (ops.map (Ent.atTs ts0)).map (fun e => { e with ver := 0 }) = ops := by
      rw [List.map_map]
      conv => rhs; rw [← List.map_id ops]
      apply List.map_congr_left
      intro e he
      have := hops e he
      cases e; simp_all [Ent.atTs]
    unfold assignTs
    simp only [Bool.false_eq_true, if_false]
    split
    · simp only [batchIssued, List.map_cons, List.flatten_cons, List.map_append, Seg.issued]
      rw [hs]; congr 1; exact ih ts0 hrest
    · simp only [batchIssued, List.map_cons, List.flatten_cons, List.map_append, Seg.issued]
      rw [hs]; congr 1; exact ih (ts0 + 1) hrest

theorem find?_map_strip (L : List Ent) (k : Bytes) :
    (L.find? (·.key == k)).map (fun e => { e with ver := 0 }) =
      (L.map (fun e => ({ e with ver := 0 } : Ent))).find? (·.key == k) := by
  induction L with
  | nil => rfl
  | cons x xs ih =>
    rw [List.map_cons, List.find?_cons, List.find?_cons]
    show _ = (match (x.key == k) with | true => _ | false => _)
    cases (x.key == k) <;> simp [ih]

/-- **normal mode, touched keys**: a read at or above the batch's last commit timestamp returns
    the last operation issued on the key, at a version `≥ ts0` (its internal transaction's
    commit timestamp) — for every operation sequence and every split oracle. -/
theorem C27_normal_latest (ts0 : Nat) (full : Nat → Bool) (ops mem : List Ent)
    (h0 : ∀ e ∈ ops, e.ver = 0) (hm : ∀ x ∈ mem, x.ver < ts0) (k : Bytes) (ts : Nat)
    (hts : ts0 + ops.length ≤ ts) (e : Ent) (hl : lastOn ops k = some e) :
    ∃ v, ts0 ≤ v ∧ newestLE (batchRun false ts0 full ops mem) k ts = some { e with ver := v } := by
  have hside := C27_normal_side ts0 full ops h0
  rw [C27_last_wins_all_splits false ts0 full ops mem k ts, newestLE_applyWrites, newestLE_append]
  have hsegs : ∀ seg ∈ segments full 0 [] ops, ∀ x ∈ seg, x.ver = 0 := by
    intro seg hs x hx
    rcases segments_mem full 0 [] ops seg hs x hx with h | h
    · cases h
    · exact h0 x h
  obtain ⟨hv, hp⟩ := issued_versions ts0 (segments full 0 [] ops) hsegs
  have hflat : (segments full 0 [] ops).flatten = ops := by rw [C27_segments_flatten]; rfl
  rw [hflat] at hv
  generalize hL : batchIssued (assignTs false ts0 (segments full 0 [] ops)) = L at hv hp
  have hstrip : L.map (fun e => { e with ver := 0 }) = ops := by
    rw [← hL, issued_strip ts0 _ hsegs, hflat]
  have hread : newestLE L.reverse k ts = L.reverse.find? (·.key == k) :=
    newestLE_antitone (List.pairwise_reverse.mpr hp)
      (fun x hx => Nat.le_trans (hv x (List.mem_reverse.mp hx)).2 hts) k
  have hfind : (L.reverse.find? (·.key == k)).map (fun e => { e with ver := 0 }) = some e := by
    rw [find?_map_strip, List.map_reverse, hstrip]; exact hl
  cases hf : L.reverse.find? (·.key == k) with
  | none => rw [hf] at hfind; cases hfind
  | some e' =>
    rw [hf] at hfind
    have hee : ({ e' with ver := 0 } : Ent) = e := by simpa using hfind
    have hmem : e' ∈ L := List.mem_reverse.mp (List.mem_of_find?_eq_some hf)
    refine ⟨e'.ver, (hv e' hmem).1, ?_⟩
    rw [hread, hf]
    have : ({ e with ver := e'.ver } : Ent) = e' := by rw [← hee]
    rw [this]
    cases hmm : newestLE mem k ts with
    | none => rfl
    | some m =>
      have := hm m (newestLE_some_mem hmm).1
      exact pick_absorb (by have := (hv e' hmem).1; omega)

/-- **normal mode, untouched keys** read as before the batch -/
theorem C27_normal_untouched (ts0 : Nat) (full : Nat → Bool) (ops mem : List Ent)
    (h0 : ∀ e ∈ ops, e.ver = 0) (k : Bytes) (ts : Nat) (hl : ∀ e ∈ ops, e.key ≠ k) :
    newestLE (batchRun false ts0 full ops mem) k ts = newestLE mem k ts := by
  have hside := C27_normal_side ts0 full ops h0
  rw [C27_last_wins_all_splits false ts0 full ops mem k ts, newestLE_applyWrites, newestLE_append]
  have hsegs : ∀ seg ∈ segments full 0 [] ops, ∀ x ∈ seg, x.ver = 0 := by
    intro seg hs x hx
    rcases segments_mem full 0 [] ops seg hs x hx with h | h
    · cases h
    · exact h0 x h
  have hflat : (segments full 0 [] ops).flatten = ops := by rw [C27_segments_flatten]; rfl
  have hnone : newestLE (batchIssued (assignTs false ts0 (segments full 0 [] ops))).reverse k ts = none := by
    rw [newestLE_eq_none_iff]
    intro x hx hc
    have hx' := List.mem_reverse.mp hx
    have : ({ x with ver := 0 } : Ent) ∈ ops := by
      rw [← hflat, ← issued_strip ts0 _ hsegs]
      exact List.mem_map_of_mem (f := fun e => ({ e with ver := 0 } : Ent)) hx'
    exact hl _ this hc.1
  rw [hnone, pick_none_left]

-- non-vacuity: three operations on two keys, split after the first one
example : ∃ v, 7 ≤ v ∧ newestLE (batchRun false 7 (fun i => i == 1) [
      { key := [1], ver := 0, emeta := 0, umeta := 0, exp := 0, val := [10] },
      { key := [2], ver := 0, emeta := 0, umeta := 0, exp := 0, val := [20] },
      { key := [1], ver := 0, emeta := 0, umeta := 0, exp := 0, val := [11] }]
      [{ key := [1], ver := 3, emeta := 0, umeta := 0, exp := 0, val := [9] }]) [1] 100
    = some { key := [1], ver := v, emeta := 0, umeta := 0, exp := 0, val := [11] } :=
  ⟨8, by decide, by decide⟩

end Badger
