import BadgerProofs.Props.C29
import BadgerProofs.Lemmas.LsmCompact
/-!
# C29 — DropPrefix on the LSM state machine

`C29_prefix_gone`: after `Lsm.dropPrefixRun` (flush, same-level rewrites of the table groups of
every level `≥ 1` bottom-up, L0 → base level) no entry of any source has a user key with a
dropped prefix; hence (`C29_prefix_invisible`) such a key reads as absent.

Structure of the proof: the groups cover every table that holds a prefixed key
(`C29_dropGroups_cover` + `C29_containsPrefix_complete`), a same-level compaction replaces the
group's tables by tables without prefixed keys (`C29_filter_no_prefix`) and touches nothing else,
and the L0 → base compaction takes *all* of L0.
-/
namespace Badger

open LL

/-- no entry of the table has a user key with a dropped prefix -/
def NoPrefixT (ps : List Bytes) (t : Tbl) : Prop := ∀ e ∈ t.ents, hasAnyPrefix e.key ps = false

/-- what `containsPrefix` needs of a table: non-empty, sorted, `uint64` versions -/
def TblV (t : Tbl) : Prop := t.ents ≠ [] ∧ SortedEnts t.ents ∧ ∀ e ∈ t.ents, e.ver ≤ maxU64

theorem getD_of_getElem? {s : Lsm} {j : Nat} {l : List Tbl} (h : s.levels[j]? = some l) :
    s.levels.getD j [] = l := by
  rw [List.getD_eq_getElem?_getD, h]; rfl

theorem getD_congr {s s' : Lsm} {j : Nat} (h : s'.levels[j]? = s.levels[j]?) :
    s'.levels.getD j [] = s.levels.getD j [] := by
  rw [List.getD_eq_getElem?_getD, List.getD_eq_getElem?_getD, h]

/-- the tables a compaction writes hold no key with a dropped prefix -/
theorem new_tables_noPrefix {s : Lsm} {cd : CompactDef} {d n now : Nat} {new0 : List Tbl}
    (hsp : splitSizes cd.outSizes (compactOutput s cd d n now).1 = some new0) :
    ∀ t ∈ withIds new0 cd.outIds, NoPrefixT cd.dropPrefixes t := by
  intro t ht e he
  have h1 : t.ents ∈ (withIds new0 cd.outIds).map (·.ents) := List.mem_map.mpr ⟨t, ht, rfl⟩
  rw [withIds_map_ents] at h1
  have h2 : e ∈ (new0.map (·.ents)).flatten := List.mem_flatten.mpr ⟨t.ents, h1, he⟩
  rw [(splitSizes_spec hsp).1, compactOutput_validBots] at h2
  exact C29_filter_no_prefix _ _ e h2

/-- a same-level compaction without top tables: everything outside the level is untouched, and
    the level consists of the tables not selected plus tables free of dropped prefixes -/
theorem compact_same_level {s s' : Lsm} {cd : CompactDef} {d n now : Nat}
    (hl : cd.thisLevel < s.levels.length) (hn : cd.nextLevel = cd.thisLevel) (htop : cd.top = [])
    (h : s.compact cd d n now = some s') :
    s'.mem = s.mem ∧ s'.imm = s.imm ∧ s'.levels.length = s.levels.length ∧
    (∀ j, j ≠ cd.thisLevel → s'.levels[j]? = s.levels[j]?) ∧
    ∀ t ∈ s'.levels.getD cd.thisLevel [],
      (∃ j, (s.levels.getD cd.thisLevel [])[j]? = some t ∧ j ∉ cd.bot) ∨ NoPrefixT cd.dropPrefixes t := by
  obtain ⟨new0, hsp, rfl⟩ := compact_some h
  have hg := newLevels_get (s := s) (cd := cd) new0 hl (hn ▸ hl)
  refine ⟨rfl, rfl, ?_, ?_, ?_⟩
  · simp only [newLevels]; split <;> simp
  · intro j hj
    have := hg j
    rw [if_neg (fun e => e.2 hn.symm), if_neg (by rw [hn]; exact hj)] at this
    exact this
  · intro t ht
    have := hg cd.thisLevel
    rw [if_neg (fun e => e.2 hn.symm), if_pos hn.symm] at this
    have hlv : ({ s with levels := newLevels s cd new0 } : Lsm).levels.getD cd.thisLevel [] = newNext s cd new0 :=
      getD_of_getElem? (s := { s with levels := newLevels s cd new0 }) this
    rw [hlv] at ht
    unfold newNext at ht
    rw [mem_sortBySmallest] at ht
    rcases List.mem_append.mp ht with ht | ht
    · left
      rw [if_pos hn.symm, htop, List.nil_append] at ht
      unfold cdNextT at ht
      rw [hn] at ht
      exact mem_removeIdx.mp ht
    · right
      exact new_tables_noPrefix hsp t ht

/-- positions selected for a group: exactly those whose table is in the group -/
theorem mem_groupPositions {cur grp : List Tbl} {j : Nat} :
    j ∈ (zipIdx cur).filterMap (fun (p : Nat × Tbl) => if p.2 ∈ grp then some p.1 else none) ↔
      ∃ t, cur[j]? = some t ∧ t ∈ grp := by
  simp only [List.mem_filterMap]
  constructor
  · rintro ⟨⟨i, t⟩, hm, hq⟩
    by_cases ht : t ∈ grp
    · simp only [ht, if_true, Option.some.injEq] at hq
      subst hq
      exact ⟨t, (mem_zipIdx _ _ _).mp hm, ht⟩
    · simp [ht] at hq
  · rintro ⟨t, hj, ht⟩
    exact ⟨(j, t), (mem_zipIdx _ _ _).mpr hj, by simp [ht]⟩

/-- the result of a (partial) run of `dropPrefixes` on one level -/
structure LevelDone (ps : List Bytes) (lvl : Nat) (s s' : Lsm) : Prop where
  mem : s'.mem = s.mem
  imm : s'.imm = s.imm
  len : s'.levels.length = s.levels.length
  other : ∀ j, j ≠ lvl → s'.levels[j]? = s.levels[j]?
  clean : ∀ t ∈ s'.levels.getD lvl [], NoPrefixT ps t

theorem dropGroupsRun_spec (ps : List Bytes) (numKeep lvl : Nat) :
    ∀ (groups : List (List Tbl)) (s : Lsm) (steps : List DropStep) (s' : Lsm) (steps' : List DropStep),
      lvl < s.levels.length →
      Lsm.dropGroupsRun lvl ps numKeep groups s steps = some (s', steps') →
      (∀ t ∈ s.levels.getD lvl [], NoPrefixT ps t ∨ ∃ g ∈ groups, t ∈ g) →
      LevelDone ps lvl s s' := by
  intro groups
  induction groups with
  | nil =>
    intro s steps s' steps' _ h hinv
    simp only [Lsm.dropGroupsRun, Option.some.injEq, Prod.mk.injEq] at h
    obtain ⟨rfl, _⟩ := h
    refine ⟨rfl, rfl, rfl, fun _ _ => rfl, ?_⟩
    intro t ht
    rcases hinv t ht with h | ⟨g, hg, _⟩
    · exact h
    · cases hg
  | cons g gs ih =>
    intro s steps s' steps' hl h hinv
    cases steps with
    | nil => simp [Lsm.dropGroupsRun] at h
    | cons st steps =>
      rw [Lsm.dropGroupsRun] at h
      cases hstep : s.dropGroupStep lvl ps numKeep g st with
      | none => rw [hstep] at h; cases h
      | some s1 =>
        rw [hstep] at h
        simp only at h
        unfold Lsm.dropGroupStep at hstep
        simp only at hstep
        split at hstep
        · cases hstep
        · obtain ⟨m1, i1, l1, o1, c1⟩ := compact_same_level (by exact hl) rfl rfl hstep
          have hinv1 : ∀ t ∈ s1.levels.getD lvl [], NoPrefixT ps t ∨ ∃ g' ∈ gs, t ∈ g' := by
            intro t ht
            rcases c1 t ht with ⟨j, hj, hnb⟩ | hnp
            · have htm : t ∈ s.levels.getD lvl [] := List.mem_of_getElem? hj
              rcases hinv t htm with h | ⟨g', hg', htg⟩
              · exact .inl h
              · rcases List.mem_cons.mp hg' with rfl | hg'
                · exact absurd (mem_groupPositions.mpr ⟨t, hj, htg⟩) hnb
                · exact .inr ⟨g', hg', htg⟩
            · exact .inl hnp
          have d2 := ih s1 steps s' steps' (by omega) h hinv1
          exact {
            mem := d2.mem.trans m1
            imm := d2.imm.trans i1
            len := d2.len.trans l1
            other := fun j hj => (d2.other j hj).trans (o1 j hj)
            clean := d2.clean }

/-- one level: afterwards no table of the level holds a prefixed key -/
theorem dropLevelRun_spec {ps : List Bytes} {numKeep lvl : Nat} {s s' : Lsm} {steps steps' : List DropStep}
    (hl : lvl < s.levels.length) (hv : ∀ t ∈ s.levels.getD lvl [], TblV t)
    (h : s.dropLevelRun lvl ps numKeep steps = some (s', steps')) : LevelDone ps lvl s s' := by
  unfold Lsm.dropLevelRun at h
  apply dropGroupsRun_spec ps numKeep lvl _ s steps s' steps' hl h
  intro t ht
  obtain ⟨hne, hs, hver⟩ := hv t ht
  by_cases hc : t.containsAnyPrefixes ps = true
  · right
    obtain ⟨j, hj, rfl⟩ := List.getElem_of_mem ht
    have hj' : (s.levels.getD lvl [])[j]? = some (s.levels.getD lvl [])[j] := List.getElem?_eq_getElem hj
    obtain ⟨g, hg, hjg⟩ := C29_dropGroups_cover hj' hc
    exact ⟨pickIdx (s.levels.getD lvl []) g, List.mem_map.mpr ⟨g, hg, rfl⟩, mem_pickIdx.mpr ⟨j, hjg, hj'⟩⟩
  · left
    intro e he
    cases hp : hasAnyPrefix e.key ps with
    | false => rfl
    | true => exact absurd ((C29_containsAnyPrefixes_iff hne hs hver ps).mpr ⟨e, he, hp⟩) hc

theorem dropLevelsRun_spec (ps : List Bytes) (numKeep : Nat) :
    ∀ (lvls : List Nat) (s : Lsm) (steps : List DropStep) (s' : Lsm) (steps' : List DropStep),
      lvls.Nodup → (∀ l ∈ lvls, l < s.levels.length) →
      (∀ l ∈ lvls, ∀ t ∈ s.levels.getD l [], TblV t) →
      Lsm.dropLevelsRun ps numKeep lvls s steps = some (s', steps') →
      s'.mem = s.mem ∧ s'.imm = s.imm ∧ s'.levels.length = s.levels.length ∧
      (∀ j, j ∉ lvls → s'.levels[j]? = s.levels[j]?) ∧
      ∀ l ∈ lvls, ∀ t ∈ s'.levels.getD l [], NoPrefixT ps t := by
  intro lvls
  induction lvls with
  | nil =>
    intro s steps s' steps' _ _ _ h
    simp only [Lsm.dropLevelsRun, Option.some.injEq, Prod.mk.injEq] at h
    obtain ⟨rfl, _⟩ := h
    exact ⟨rfl, rfl, rfl, fun _ _ => rfl, fun l hl => by cases hl⟩
  | cons lvl lvls ih =>
    intro s steps s' steps' hnd hlt hv h
    rw [Lsm.dropLevelsRun] at h
    cases h1 : s.dropLevelRun lvl ps numKeep steps with
    | none => rw [h1] at h; cases h
    | some r =>
      obtain ⟨s1, steps1⟩ := r
      rw [h1] at h
      simp only at h
      have d1 := dropLevelRun_spec (hlt lvl List.mem_cons_self) (hv lvl List.mem_cons_self) h1
      have hnd' := (List.nodup_cons.mp hnd)
      obtain ⟨m2, i2, l2, o2, c2⟩ := ih s1 steps1 s' steps' hnd'.2
        (fun l hl => by rw [d1.len]; exact hlt l (List.mem_cons_of_mem _ hl))
        (fun l hl t ht => by
          have hne : l ≠ lvl := fun e => hnd'.1 (e ▸ hl)
          rw [getD_congr (d1.other l hne)] at ht
          exact hv l (List.mem_cons_of_mem _ hl) t ht) h
      refine ⟨m2.trans d1.mem, i2.trans d1.imm, l2.trans d1.len, ?_, ?_⟩
      · intro j hj
        have hj1 : j ≠ lvl := fun e => hj (e ▸ List.mem_cons_self)
        have hj2 : j ∉ lvls := fun e => hj (List.mem_cons_of_mem _ e)
        exact (o2 j hj2).trans (d1.other j hj1)
      · intro l hl t ht
        rcases List.mem_cons.mp hl with rfl | hl
        · rw [getD_congr (o2 l hnd'.1)] at ht
          exact d1.clean t ht
        · exact c2 l hl t ht

/-- the final L0 → base compaction: L0 is emptied, the base level stays free of prefixed keys -/
theorem dropL0Run_spec {ps : List Bytes} {base numKeep : Nat} {s s' : Lsm} {steps steps' : List DropStep}
    (h : s.dropL0Run ps base numKeep steps = some (s', steps'))
    (hclean : ∀ j, 1 ≤ j → ∀ t ∈ s.levels.getD j [], NoPrefixT ps t) :
    s'.mem = s.mem ∧ s'.imm = s.imm ∧ ∀ j, ∀ t ∈ s'.levels.getD j [], NoPrefixT ps t := by
  unfold Lsm.dropL0Run at h
  simp only at h
  split at h
  · rename_i hemp
    simp only [Option.some.injEq, Prod.mk.injEq] at h
    obtain ⟨rfl, _⟩ := h
    refine ⟨rfl, rfl, ?_⟩
    intro j t ht
    cases j with
    | zero =>
      rw [List.isEmpty_iff] at hemp
      rw [hemp] at ht; cases ht
    | succ j => exact hclean (j + 1) (by omega) t ht
  · rename_i hne
    split at h
    · cases h
    · rename_i hb
      have hb' : base ≠ 0 := by simpa using hb
      cases steps with
      | nil => cases h
      | cons st steps1 =>
        simp only at h
        split at h
        · rename_i s2 hc
          simp only [Option.some.injEq, Prod.mk.injEq] at h
          obtain ⟨rfl, _⟩ := h
          obtain ⟨new0, hsp, rfl⟩ := compact_some hc
          refine ⟨rfl, rfl, ?_⟩
          have h0 : 0 < s.levels.length := by
            apply Nat.pos_of_ne_zero
            intro h0
            have : s.levels = [] := List.eq_nil_of_length_eq_zero h0
            rw [this] at hne; simp at hne
          intro j t ht
          simp only [newLevels, cdThisT] at ht
          rw [if_neg (fun e => hb' e.symm)] at ht
          rw [List.getD_eq_getElem?_getD, List.getElem?_set] at ht
          by_cases hj0 : 0 = j
          · subst hj0
            simp only [List.length_set, h0, if_true] at ht
            rw [removeIdx_range, List.drop_length] at ht
            simp at ht
          · rw [if_neg hj0, List.getElem?_set] at ht
            have hj1 : 1 ≤ j := by omega
            by_cases hbj : base = j
            · subst hbj
              simp only [if_true] at ht
              split at ht
              · simp only [Option.getD_some] at ht
                unfold newNext at ht
                rw [mem_sortBySmallest] at ht
                rcases List.mem_append.mp ht with ht | ht
                · rw [if_neg (fun e => hb' e.symm)] at ht
                  obtain ⟨i, hi, _⟩ := mem_removeIdx.mp ht
                  exact hclean base hj1 t (List.mem_of_getElem? hi)
                · exact new_tables_noPrefix hsp t ht
              · simp at ht
            · rw [if_neg hbj, ← List.getD_eq_getElem?_getD] at ht
              exact hclean j hj1 t ht
        · cases h

/-! ## the whole run -/

theorem flushAll_spec {s : Lsm} (h0 : 0 < s.levels.length) (ids : List Nat) :
    (s.flushAll ids).mem = [] ∧ (s.flushAll ids).imm = [] ∧
      (s.flushAll ids).levels.length = s.levels.length ∧
      ∀ j, 1 ≤ j → (s.flushAll ids).levels[j]? = s.levels[j]? := by
  unfold Lsm.flushAll
  cases hl : s.levels with
  | nil => rw [hl] at h0; cases h0
  | cons l0 rest =>
    refine ⟨rfl, rfl, by simp, ?_⟩
    intro j hj
    cases j with
    | zero => omega
    | succ j => simp

theorem mem_dropLevels {s : Lsm} {l : Nat} : l ∈ dropLevels s ↔ 1 ≤ l ∧ l < s.levels.length := by
  simp [dropLevels, and_comm]

theorem dropLevels_nodup (s : Lsm) : (dropLevels s).Nodup := by
  unfold dropLevels
  rw [List.Nodup, List.pairwise_reverse]
  exact (List.Pairwise.sublist List.filter_sublist List.nodup_range).imp (fun h => Ne.symm h)

theorem tblV_of_inv {s : Lsm} (hinv : LsmInv s) (hv : VerBound s) {j : Nat} {tbls : List Tbl}
    (hj : s.levels[j]? = some tbls) {t : Tbl} (ht : t ∈ tbls) : TblV t := by
  have hok := (hinv.level hj).1 t ht
  refine ⟨hok.1, hok.2, ?_⟩
  intro e he
  exact hv e (mem_allEntries.mpr (.inr (.inr ⟨j, tbls, t, hj, ht, he⟩)))

/-- **C29** — after `DropPrefix(ps)` no entry of any source (memtables, L0, deeper levels) has a
    user key with one of the prefixes. `LsmInv`: tables non-empty and sorted, levels `≥ 1`
    key-disjoint; `VerBound`: versions are `uint64`s (the `isPresent` seek uses
    `KeyWithTs(prefix, MaxUint64)`). -/
theorem C29_prefix_gone {s s' : Lsm} {ps : List Bytes} {flushIds : List Nat} {base numKeep : Nat}
    {steps : List DropStep} (hinv : LsmInv s) (hv : VerBound s) (h0 : 0 < s.levels.length)
    (h : s.dropPrefixRun ps flushIds base numKeep steps = some s') :
    ∀ e ∈ s'.allEntries, hasAnyPrefix e.key ps = false := by
  unfold Lsm.dropPrefixRun at h
  split at h
  · rename_i hemp
    rw [List.isEmpty_iff] at hemp
    intro e _; rw [hemp]; rfl
  · simp only at h
    obtain ⟨fm, fi, fl, fo⟩ := flushAll_spec h0 flushIds
    cases h1 : Lsm.dropLevelsRun ps numKeep (dropLevels (s.flushAll flushIds)) (s.flushAll flushIds) steps with
    | none => rw [h1] at h; cases h
    | some r =>
      obtain ⟨s2, steps2⟩ := r
      rw [h1] at h
      simp only at h
      obtain ⟨m2, i2, l2, _, c2⟩ := dropLevelsRun_spec ps numKeep _ _ _ _ _ (dropLevels_nodup _)
        (fun l hl => (mem_dropLevels.mp hl).2)
        (fun l hl t ht => by
          have hl' := mem_dropLevels.mp hl
          have hlv : s.levels[l]? = some ((s.flushAll flushIds).levels.getD l []) := by
            rw [← fo l hl'.1]; exact levels_getD hl'.2
          exact tblV_of_inv hinv hv hlv ht) h1
      cases h3 : s2.dropL0Run ps base numKeep steps2 with
      | none => rw [h3] at h; cases h
      | some r3 =>
        obtain ⟨s3, steps3⟩ := r3
        rw [h3] at h
        cases steps3 with
        | cons _ _ => cases h
        | nil =>
          simp only [Option.some.injEq] at h
          subst h
          obtain ⟨m3, i3, c3⟩ := dropL0Run_spec h3 (fun j hj t ht => by
            by_cases hjl : j < s2.levels.length
            · exact c2 j (mem_dropLevels.mpr ⟨hj, by rw [← l2]; exact hjl⟩) t ht
            · rw [List.getD_eq_getElem?_getD, List.getElem?_eq_none (by omega)] at ht
              cases ht)
          intro e he
          rcases mem_allEntries.mp he with hm | ⟨m, hm, _⟩ | ⟨i, tbls, t, hi, ht, het⟩
          · rw [m3, m2, fm] at hm; cases hm
          · rw [i3, i2, fi] at hm; cases hm
          · exact c3 i t (by rw [getD_of_getElem? hi]; exact ht) e het

/-- **C29** — what a read must return (`Lsm.specGet`) for a key with a dropped prefix after
    `DropPrefix`: absent, at every timestamp and on every clock. -/
theorem C29_prefix_invisible_spec {s s' : Lsm} {ps : List Bytes} {flushIds : List Nat} {base numKeep : Nat}
    {steps : List DropStep} (hinv : LsmInv s) (hv : VerBound s) (h0 : 0 < s.levels.length)
    (h : s.dropPrefixRun ps flushIds base numKeep steps = some s') {k : Bytes}
    (hk : hasAnyPrefix k ps = true) (ts now : Nat) : s'.specGet k ts now = none := by
  unfold Lsm.specGet
  have : newestLE s'.allEntries k ts = none := by
    rw [newestLE_eq_none_iff]
    intro x hx hq
    have := C29_prefix_gone hinv hv h0 h x hx
    rw [hq.1, hk] at this; cases this
  rw [this]; rfl

/-- the same for the model's real read path `Lsm.get`, given that the resulting state is
    well-formed (levels sorted by internal key: `LsmInvW`) -/
theorem C29_prefix_invisible {s s' : Lsm} {ps : List Bytes} {flushIds : List Nat} {base numKeep : Nat}
    {steps : List DropStep} (hinv : LsmInv s) (hv : VerBound s) (h0 : 0 < s.levels.length)
    (h : s.dropPrefixRun ps flushIds base numKeep steps = some s') (hinv' : LsmInvW s') {k : Bytes}
    (hk : hasAnyPrefix k ps = true) (ts : Nat) : s'.get k ts = none := by
  rw [get_eq_newestLE hinv', newestLE_eq_none_iff]
  intro x hx hq
  have := C29_prefix_gone hinv hv h0 h x hx
  rw [hq.1, hk] at this; cases this

/-! ## sanity: a concrete run (memtable + immutable + L0 + a deeper level, two prefixed tables
forming one group, one of them skipped by `keepTable`) -/

namespace C29Sample

def mk (k : List Nat) (v : Nat) : Ent :=
  { key := k.map UInt8.ofNat, ver := v, emeta := 0, umeta := 0, exp := 0, val := [] }

def deep : List Tbl :=
  [{ ents := [mk [1] 1, mk [1, 5] 1], id := 1 }, { ents := [mk [2] 1, mk [2, 0] 1], id := 2 },
   { ents := [mk [2, 1] 1, mk [3] 1], id := 3 }, { ents := [mk [4] 1, mk [5] 1], id := 4 },
   { ents := [mk [8] 1, mk [9] 1], id := 6 }]

def s0 : Lsm :=
  { mem := [mk [2, 1] 9], imm := [[mk [1] 3]], levels := [[{ ents := [mk [1] 2, mk [5] 2], id := 10 }], [], deep] }

def sF : Lsm :=
  { mem := [], imm := [], levels := [[{ ents := [mk [1] 2, mk [5] 2], id := 10 }, { ents := [mk [1] 3], id := 20 },
      { ents := [mk [2, 1] 9], id := 21 }], [], deep] }

def sA : Lsm :=
  { sF with levels := [[{ ents := [mk [1] 2, mk [5] 2], id := 10 }, { ents := [mk [1] 3], id := 20 },
      { ents := [mk [2, 1] 9], id := 21 }], [],
    [{ ents := [mk [1] 1, mk [1, 5] 1], id := 1 }, { ents := [mk [3] 1], id := 30 },
     { ents := [mk [4] 1, mk [5] 1], id := 4 }, { ents := [mk [8] 1, mk [9] 1], id := 6 }]] }

def sEnd : Lsm :=
  { mem := [], imm := [], levels := [[], [],
    [{ ents := [mk [1] 3, mk [1] 2, mk [1] 1, mk [1, 5] 1, mk [3] 1], id := 31 },
     { ents := [mk [4] 1, mk [5] 2, mk [5] 1], id := 32 }, { ents := [mk [8] 1, mk [9] 1], id := 6 }]] }

def st1 : DropStep := { outSizes := [1], outIds := [30], discardTs := 0, now := 0 }
def st2 : DropStep := { outSizes := [5, 3], outIds := [31, 32], discardTs := 0, now := 0 }

example : LsmInv s0 ∧ VerBound s0 ∧ 0 < s0.levels.length := by decide
example : (s0.flushAll [20, 21]).dropPlan [[2]] = [(2, [[2, 3]])] := by decide

theorem e1 : s0.flushAll [20, 21] = sF := by decide
theorem e2 : dropLevels sF = [2, 1] := by decide
theorem e3 : sF.dropLevelRun 2 [[2]] 1 [st1, st2] = some (sA, [st2]) := by
  have hg : (dropGroups (sF.levels.getD 2 []) [[2]]).map (fun g => pickIdx (sF.levels.getD 2 []) g) =
      [[{ ents := [mk [2] 1, mk [2, 0] 1], id := 2 }, { ents := [mk [2, 1] 1, mk [3] 1], id := 3 }]] := by
    decide
  simp only [Lsm.dropLevelRun, hg, Lsm.dropGroupsRun, Lsm.dropGroupStep, Lsm.compact, compactOutput,
    mergeAll_eq_F]
  decide
theorem e4 : sA.dropLevelRun 1 [[2]] 1 [st2] = some (sA, [st2]) := by decide
theorem e5 : sA.dropL0Run [[2]] 2 1 [st2] = some (sEnd, []) := by
  simp only [Lsm.dropL0Run, Lsm.compact, compactOutput, mergeAll_eq_F]
  decide

end C29Sample

open C29Sample in
/-- the run on the sample state: the memtable entry `[2,1]@9`, the all-prefix table #2 (skipped by
    `keepTable`) and the prefixed half of table #3 disappear, everything else stays -/
theorem C29_sample_run : s0.dropPrefixRun [[2]] [20, 21] 2 1 [st1, st2] = some sEnd := by
  simp only [Lsm.dropPrefixRun, e1, e2, Lsm.dropLevelsRun, e3, e4, e5]
  decide

open C29Sample in
example : ∀ e ∈ sEnd.allEntries, hasAnyPrefix e.key [[2]] = false :=
  C29_prefix_gone (by decide) (by decide) (by decide) C29_sample_run

end Badger
