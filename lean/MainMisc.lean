import BadgerModel.Driver.Loop
import BadgerModel.Driver.Batch
/-! `bmd_misc <engine>`: line-protocol driver (see CONVENTIONS.md). Engines: `batch`, `seq`, `mergeop`. -/
open Badger.Driver

def main (args : List String) : IO UInt32 := do
  let stdin ← IO.getStdin
  let stdout ← IO.getStdout
  match args with
  | ["batch"] => statefulLoop stdin stdout batchStep ({} : BatchSt); return 0
  | ["seq"] => statefulLoop stdin stdout seqStep ({} : SeqSt); return 0
  | ["mergeop"] => statefulLoop stdin stdout mergeopStep ({} : MergeSt); return 0
  | _ => IO.eprintln "usage: bmd_misc <batch|seq|mergeop>"; return 2
