import BadgerModel.Driver.Loop
import BadgerModel.Driver.Stream
/-! `bmd_stream <engine>`: line-protocol driver (see CONVENTIONS.md). Engines `stream`, `backup`,
`swriter` share one step function (sessions start with `reset`). -/
open Badger.Driver

def main (args : List String) : IO UInt32 := do
  let stdin ← IO.getStdin
  let stdout ← IO.getStdout
  match args with
  | ["stream"] | ["backup"] | ["swriter"] =>
    statefulLoop stdin stdout streamStep ({} : StreamDrv); return 0
  | _ => IO.eprintln "usage: bmd_stream <stream|backup|swriter>"; return 2
