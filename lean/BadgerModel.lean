import BadgerModel.Bytes
import BadgerModel.Key
