import BadgerModel.Driver.AuxEng
import BadgerModel.Driver.Loop
import BadgerModel.Driver.CStatus
/-! `bmd_aux <engine>`: line-protocol driver (see CONVENTIONS.md). Engines: `manifest`
(stateful), `bloom` (stateless), `trie` (stateful). -/
open Badger.Driver

def main (args : List String) : IO UInt32 := do
  let stdin ← IO.getStdin
  let stdout ← IO.getStdout
  match args with
  | ["manifest"] => statefulLoop stdin stdout manifestStep {}; return 0
  | ["bloom"] => statelessLoop stdin stdout bloomStep; return 0
  | ["trie"] => statefulLoop stdin stdout trieStep {}; return 0
  | ["subscribe"] => statefulLoop stdin stdout subscribeStep {}; return 0
  | ["cstatus"] => statefulLoop stdin stdout cstatusStep { cs := Badger.CS.CStatus.init 7 }; return 0
  | _ => IO.eprintln "usage: bmd_aux <manifest|bloom|trie|subscribe|cstatus>"; return 2
