import BadgerModel.Skiplist
/-!
# `skl.Skiplist.Put` under concurrency: a small-step model (C22, concurrent half)

Any number of goroutines run `Put` concurrently.  The shared state is the `Skiplist` of
`BadgerModel/Skiplist.lean` (one key chain per level + node payloads + `height`); every access
of a `Put` to shared memory is its own atomic step:

* `s.getHeight()` (twice), the `height` CAS;
* every `s.getNext(before, level)` inside `findSpliceForLevel` (one tower load per step; the
  comparison with the loaded node's immutable key is local and folded into the same step);
* `prev[i].casNextOffset(i, next[i], x)`: compares the *current* successor of `prev[i]` on
  level `i` with `next[i]` and, if equal, links `x` in (on level 0 this is the moment the new
  node and its value become visible);
* `node.setValue` (one atomic 64-bit store).

Thread-local work (`randomHeight`, `newNode`, writing `x.tower[i]` of the not yet linked level)
is not a step of its own.  A scheduler picks which goroutine moves next; `run` executes a
schedule.  Readers (`Get`, iterators) do not write shared state, so they do not appear: every
state they can observe is a reachable state of this system.

Not modelled: the arena (bump allocation by atomic add, exhaustion), weak memory (Go atomics
are sequentially consistent), node identity other than by key (sound because level 0 never
holds two nodes with the same key — that is part of the invariant proved in `C22Conc`).
-/
namespace Badger
namespace SkipConc

/-- program counter of one in-flight `Put` -/
inductive Pc where
  | start                                   -- before `listHeight := s.getHeight()`
  | scan (i : Nat) (before : SkRef)         -- first loop: inside `findSpliceForLevel(key, before, i)`
  | setval (k : Bytes)                      -- about to run `node(k).setValue(v)`
  | loadH                                   -- `listHeight = s.getHeight()` (after `newNode`)
  | casH (seen : Nat)                       -- `s.height.CompareAndSwap(seen, height)`
  | link (i : Nat)                          -- top of the `for {}` of level `i` in the second loop
  | linkScan (i : Nat) (before : SkRef) (retry : Bool)  -- `findSpliceForLevel` in the second loop
  | cas (i : Nat)                           -- `prev[i].casNextOffset(i, next[i], x)`
  | done
  | panic                                   -- a `y.AssertTrue` failed
deriving DecidableEq, Repr

/-- one goroutine executing `Put(key, v)` with `randomHeight() = h` -/
structure PutLocal where
  key : Bytes
  v : Bytes
  h : Nat
  pc : Pc := .start
  lh : Nat := 0                              -- `listHeight` read at the start
  spl : List (Nat × SkRef × SkRef) := []     -- `(i, prev[i], next[i])` computed so far
deriving Repr

def lookupSpl (spl : List (Nat × SkRef × SkRef)) (i : Nat) : Option (SkRef × SkRef) :=
  (spl.find? (fun e => e.1 == i)).map (fun e => e.2)

/-- leaving level `i` of the first loop with `prev[i] = p` -/
def nextLevel (i : Nat) (p : SkRef) : Pc := if i = 0 then .loadH else .scan (i - 1) p

/-- outcome of one iteration of the `findSpliceForLevel` loop -/
inductive ScanOut where
  | move (nk : Bytes)            -- `before = next`: keep moving right
  | found (nk : Bytes)           -- equality case: `return next, next`
  | splice (p n : SkRef)         -- `return before, next`
deriving Repr

/-- one iteration of the loop of `findSpliceForLevel(key, before, i)`: the atomic load
    `next := s.getNext(before, i)` and the (local) comparison with `next.key` -/
def scanStep (s : Skiplist) (key : Bytes) (before : SkRef) (i : Nat) : ScanOut :=
  match s.getNext before i with
  | .node nk =>
    match compareKeys key nk with
    | .eq => .found nk
    | .lt => .splice before (.node nk)
    | .gt => .move nk
  | _ => .splice before .nil

/-- one atomic step of a `Put` -/
def stepPut (s : Skiplist) (l : PutLocal) : Skiplist × PutLocal :=
  match l.pc with
  | .start =>
    -- listHeight := s.getHeight(); prev[listHeight] = s.head; next[listHeight] = nil
    (s, { l with lh := s.height, spl := [(s.height, .head, .nil)],
                 pc := if s.height = 0 then .loadH else .scan (s.height - 1) .head })
  | .scan i before =>
    match scanStep s l.key before i with
    | .move nk => (s, { l with pc := .scan i (.node nk) })
    | .found nk => (s, { l with pc := .setval nk })        -- prev[i] == next[i]
    | .splice p n => (s, { l with spl := (i, p, n) :: l.spl, pc := nextLevel i p })
  | .setval k => (s.setValue k l.v, { l with pc := .done })
  | .loadH =>
    if l.h > s.height then (s, { l with pc := .casH s.height }) else (s, { l with pc := .link 0 })
  | .casH seen =>
    if s.height = seen then ({ s with height := l.h }, { l with pc := .link 0 })
    else (s, { l with pc := .loadH })
  | .link i =>
    if i ≥ l.h then (s, { l with pc := .done })
    else
      match lookupSpl l.spl i with
      | some _ => (s, { l with pc := .cas i })
      | none =>                                   -- prev[i] == nil
        if i > 1 then (s, { l with pc := .linkScan i .head false })   -- y.AssertTrue(i > 1)
        else (s, { l with pc := .panic })
  | .linkScan i before retry =>
    match scanStep s l.key before i with
    | .move nk => (s, { l with pc := .linkScan i (.node nk) retry })
    | .found nk =>
      -- prev[i] == next[i]: first search: y.AssertTrue(prev[i] != next[i]) fails;
      -- after a failed CAS: y.AssertTruef(i == 0, …); prev[i].setValue(v); return
      if retry && i == 0 then (s, { l with pc := .setval nk }) else (s, { l with pc := .panic })
    | .splice p n => (s, { l with spl := (i, p, n) :: l.spl, pc := .cas i })
  | .cas i =>
    match lookupSpl l.spl i with
    | none => (s, { l with pc := .panic })
    | some (p, nx) =>
      if s.getNext p i == nx then
        -- the CAS succeeds: x is linked between prev[i] and next[i]; on level 0 this makes the
        -- node (and its value) visible
        (if i = 0 then (s.insertAt i p l.key).setValue l.key l.v else s.insertAt i p l.key,
         { l with pc := .link (i + 1) })
      else (s, { l with pc := .linkScan i p true })
  | .done => (s, l)
  | .panic => (s, l)

structure CState where
  s : Skiplist
  ts : List PutLocal

/-- goroutine `t` performs its next atomic step (no-op if there is no such goroutine) -/
def step (c : CState) (t : Nat) : CState :=
  match c.ts[t]? with
  | none => c
  | some l =>
    let r := stepPut c.s l
    { s := r.1, ts := c.ts.set t r.2 }

/-- run a schedule -/
def run (c : CState) (sched : List Nat) : CState := sched.foldl step c

/-- a fresh skiplist and a set of `Put` calls about to start -/
def initState (puts : List (Bytes × Bytes × Nat)) : CState :=
  { s := Skiplist.empty, ts := puts.map (fun p => { key := p.1, v := p.2.1, h := p.2.2 }) }

end SkipConc
end Badger
