import BadgerModel.Watermark
/-!
# The timestamp oracle (`/repo/txn.go`: `oracle`, `committedTxn`, the oracle-facing part of `Txn`)

Two layers.

* **`Oracle`** — the Go struct with its methods as pure functions, branch by branch:
  `readTs` (split at the point where it releases `o.Lock`: `readTsBegin`, then the
  `WaitForMark` fast-path test `readTsWait`), `hasConflict`, `newCommitTs`, `doneRead`,
  `cleanupCommittedTransactions`, `doneCommit`, `setDiscardTs`, `discardAtOrBelow`.
  Every method that runs under `o.Lock` is one atomic function. The two watermarks are `AWM`s:
  a `WM` (state of the `process` goroutine) plus the FIFO of marks sent but not yet processed,
  because `Begin/Done` only *send* and `DoneUntil()` reads whatever `process` has published so
  far. `y.AssertTrue` failures (`log.Fatalf`) are explicit results (`fatal` / `none`).
* **`Sys`** — the transition system used by C02/C03/C34: the oracle, a table of transactions,
  and ghost history (`hist`: every transaction that obtained a commit timestamp, never pruned;
  `doneCommits`; the marks sent to each watermark). A `Label` is one atomic step of some
  goroutine: a transaction begins (`readTsBegin`), tests/parks in `WaitForMark`, reads, writes,
  commits (`newCommitTs`), is discarded (`doneRead`), the write pipeline reports a commit as
  applied (`doneCommit`), a `process` goroutine handles one mark, managed-mode calls.
  `OReach` is reachability from `Sys.opened`. The write pipeline itself (write channel order,
  memtable application) is not part of this file: its only interaction with the oracle is the
  `doneCommit ts` step, which the pipeline model enables once the request is applied
  (hook for C03: `Label.doneCommit`, `Sys.allocatedNotDone`).

Fingerprints (`z.MemHash`) are arbitrary `Nat`s. Timestamps are `Nat`s (`uint64`, no overflow).
-/
namespace Badger

/-! ## Watermark with its channel -/

structure AWM where
  wm : WM := WM.init
  /-- `markCh`: sent, not yet received by `process` (oldest first) -/
  q : List Mark := []

/-- `w.markCh <- m` (with `lastIndex.Store` folded into `WM.step`). -/
def AWM.send (a : AWM) (m : Mark) : AWM := { a with q := a.q ++ [m] }

/-- `DoneUntil()` as read by another goroutine now. -/
def AWM.doneUntil (a : AWM) : Nat := a.wm.doneUntil

/-- One iteration of `process`: the oldest queued mark. `none` when the channel is empty. -/
def AWM.process (a : AWM) : Option (AWM × List Wakeup) :=
  match a.q with
  | [] => none
  | m :: q => let r := a.wm.step m; some ({ wm := r.1, q := q }, r.2)

/-- Handle everything that is queued (what a quiescence barrier waits for). -/
def AWM.drain (a : AWM) : AWM × List Wakeup :=
  let r := a.wm.runW a.q
  ({ wm := r.1, q := [] }, r.2)

/-- The state `process` will be in once the channel is drained. -/
def AWM.virt (a : AWM) : WM := a.wm.run a.q

/-! ## Oracle -/

/-- `committedTxn`: `conflictKeys` is a set of fingerprints (Go: `map[uint64]struct{}`). -/
structure CommittedTxn where
  ts : Nat
  conflictKeys : List Nat
  deriving Repr, DecidableEq

/-- The oracle-facing fields of `Txn`. -/
structure Txn where
  readTs : Nat := 0
  /-- set by `CommitAt` in managed mode -/
  commitTs : Nat := 0
  /-- fingerprints appended by `addReadKey` (update transactions only) -/
  reads : List Nat := []
  /-- fingerprints of written keys (only filled when `DetectConflicts`) -/
  conflictKeys : List Nat := []
  update : Bool := true
  doneRead : Bool := false
  /-- `len(pendingWrites) > 0` -/
  hasWrites : Bool := false
  deriving Repr, DecidableEq

structure Oracle where
  isManaged : Bool := false
  detectConflicts : Bool := true
  nextTxnTs : Nat := 0
  txnMark : AWM := {}
  readMark : AWM := {}
  discardTs : Nat := 0
  committedTxns : List CommittedTxn := []
  lastCleanupTs : Nat := 0

/-- `newOracle` followed by what `DB.Open` does with `n = MaxVersion()`:
    `nextTxnTs = n; txnMark.Done(n); readMark.Done(n); nextTxnTs++`. -/
def Oracle.opened (managed detect : Bool) (n : Nat) : Oracle :=
  { isManaged := managed, detectConflicts := detect, nextTxnTs := n + 1,
    txnMark := ({} : AWM).send (.done n), readMark := ({} : AWM).send (.done n) }

/-- `readTs`, first half (under `o.Lock`): `readTs = nextTxnTs - 1; readMark.Begin(readTs)`.
    (Panics in managed mode; callers never do that. `nextTxnTs ≥ 1` after `Open`.) -/
def Oracle.readTsBegin (o : Oracle) : Oracle × Nat :=
  let r := o.nextTxnTs - 1
  ({ o with readMark := o.readMark.send (.begin r) }, r)

/-- `readTs`, second half: `txnMark.WaitForMark(ctx, readTs)` — either the fast path
    (`DoneUntil() >= index`: returns `true`) or a `wait` mark is sent and the caller blocks on the
    waiter channel until `process` closes it. -/
def Oracle.readTsWait (o : Oracle) (r waiter : Nat) : Oracle × Bool :=
  if o.txnMark.doneUntil ≥ r then (o, true)
  else ({ o with txnMark := o.txnMark.send (.wait r waiter) }, false)

/-- `hasConflict`. -/
def Oracle.hasConflict (o : Oracle) (t : Txn) : Bool :=
  if t.reads.isEmpty then false
  else o.committedTxns.any (fun c =>
    if c.ts ≤ t.readTs then false else t.reads.any (fun ro => c.conflictKeys.contains ro))

/-- `doneRead`. -/
def Oracle.doneRead (o : Oracle) (t : Txn) : Oracle × Txn :=
  if !t.doneRead then
    ({ o with readMark := o.readMark.send (.done t.readTs) }, { t with doneRead := true })
  else (o, t)

/-- `cleanupCommittedTransactions` (caller holds `o.Lock`); `none` = `AssertTrue(maxReadTs >=
    lastCleanupTs)` failed. -/
def Oracle.cleanup (o : Oracle) : Option Oracle :=
  if !o.detectConflicts then some o else
  let maxReadTs := if o.isManaged then o.discardTs else o.readMark.doneUntil
  if maxReadTs < o.lastCleanupTs then none
  else if maxReadTs = o.lastCleanupTs then some o
  else some { o with lastCleanupTs := maxReadTs,
                     committedTxns := o.committedTxns.filter (fun c => !(decide (c.ts ≤ maxReadTs))) }

inductive CommitResult where
  | conflict
  | ok (ts : Nat)
  /-- a `y.AssertTrue` fired (`log.Fatalf`) -/
  | fatal
  deriving Repr, DecidableEq

/-- `newCommitTs` (under `o.Lock`). -/
def Oracle.newCommitTs (o : Oracle) (t : Txn) : Oracle × Txn × CommitResult :=
  if o.hasConflict t then (o, t, .conflict) else
  if !o.isManaged then
    let r := o.doneRead t
    match r.1.cleanup with
    | none => (r.1, r.2, .fatal)
    | some o2 =>
      let ts := o2.nextTxnTs
      let o3 := { o2 with nextTxnTs := ts + 1, txnMark := o2.txnMark.send (.begin ts) }
      if ts < o3.lastCleanupTs then (o3, r.2, .fatal) else
      let o4 := if o3.detectConflicts then
          { o3 with committedTxns := o3.committedTxns ++ [⟨ts, t.conflictKeys⟩] } else o3
      (o4, r.2, .ok ts)
  else
    let ts := t.commitTs
    if ts < o.lastCleanupTs then (o, t, .fatal) else
    let o4 := if o.detectConflicts then
        { o with committedTxns := o.committedTxns ++ [⟨ts, t.conflictKeys⟩] } else o
    (o4, t, .ok ts)

/-- `doneCommit`. -/
def Oracle.doneCommit (o : Oracle) (cts : Nat) : Oracle :=
  if o.isManaged then o else { o with txnMark := o.txnMark.send (.done cts) }

/-- `setDiscardTs`. -/
def Oracle.setDiscardTs (o : Oracle) (ts : Nat) : Option Oracle :=
  ({ o with discardTs := ts }).cleanup

/-- `discardAtOrBelow`. -/
def Oracle.discardAtOrBelow (o : Oracle) : Nat :=
  if o.isManaged then o.discardTs else o.readMark.doneUntil

/-- Quiescence of both watermarks (every sent mark processed). Returns the wake-ups of `txnMark`
    (nobody waits on `readMark`). -/
def Oracle.drain (o : Oracle) : Oracle × List Wakeup :=
  let t := o.txnMark.drain
  let r := o.readMark.drain
  ({ o with txnMark := t.1, readMark := r.1 }, t.2)

/-! ## Transactions around the oracle: the transition system -/

/-- Where a transaction is in its life. `started`: `readTsBegin` done, `WaitForMark` not yet
    tested; `parked`: blocked in `WaitForMark` on a registered waiter; `active`: `NewTransaction`
    returned; `closing`: `Commit` got `ErrConflict`, its deferred `Discard` has not run yet;
    `closed`: discarded. -/
inductive Phase where
  | started | parked | active | closing | closed
  deriving Repr, DecidableEq

structure TxnSt where
  t : Txn
  phase : Phase
  /-- ghost: the commit timestamp it obtained, if any -/
  committedAt : Option Nat := none
  deriving Repr, DecidableEq

/-- Ghost record of a transaction that obtained a commit timestamp. -/
structure HistEntry where
  ts : Nat
  readTs : Nat
  reads : List Nat
  conflictKeys : List Nat
  tid : Nat
  deriving Repr, DecidableEq

structure Sys where
  o : Oracle
  /-- transaction table; the index is the transaction id (also used as waiter id) -/
  txns : List TxnSt := []
  /-- ghost: every successful `newCommitTs`, in allocation order (never pruned) -/
  hist : List HistEntry := []
  /-- ghost: timestamps for which `doneCommit` was called -/
  doneCommits : List Nat := []
  /-- ghost: marks sent to `readMark` / `txnMark` after the opening `Done(n)` -/
  rmSent : List Mark := []
  tmSent : List Mark := []
  /-- ghost: `MaxVersion()` at `Open` -/
  n0 : Nat := 0
  /-- a `y.AssertTrue` fired somewhere: the process is gone -/
  crashed : Bool := false

def Sys.opened (managed detect : Bool) (n : Nat) : Sys :=
  { o := Oracle.opened managed detect n, n0 := n }

inductive Label where
  /-- `db.NewTransaction(update)` up to the release of `o.Lock` in `readTs` (normal mode) -/
  | begin (update : Bool)
  /-- `WaitForMark`: fast-path test; returns (→ `active`) or sends the waiter mark (→ `parked`) -/
  | waitCheck (tid : Nat)
  /-- one iteration of `txnMark.process` / `readMark.process` -/
  | procTxnMark
  | procReadMark
  /-- `addReadKey(fp)` (from `Get`, `Iterator.Item`, `Seek`) -/
  | read (tid fp : Nat)
  /-- `modify`: `conflictKeys[fp] = {}` and a pending write -/
  | write (tid fp : Nat)
  /-- `Commit` of a transaction with pending writes: `newCommitTs` -/
  | commit (tid : Nat)
  /-- `Discard` (also `Commit` without pending writes, and the deferred `Discard` of `Commit`) -/
  | discard (tid : Nat)
  /-- the write pipeline (or a failed `sendToWriteCh`) calls `doneCommit(ts)` -/
  | doneCommit (ts : Nat)
  /-- managed mode: `NewTransactionAt(readTs, update)` -/
  | beginAt (readTs : Nat) (update : Bool)
  /-- managed mode: `CommitAt(ts)` of a transaction with pending writes -/
  | commitAt (tid ts : Nat)
  /-- managed mode: `SetDiscardTs(ts)` -/
  | setDiscardTs (ts : Nat)
  /-- `cleanupCommittedTransactions` under `o.Lock` at an arbitrary moment (production only calls
      it from `newCommitTs`/`setDiscardTs`; the verification harness also calls it after
      quiescence, so the transition system allows it anywhere — a superset of production) -/
  | cleanup
  deriving Repr, DecidableEq

/-- Deliver wake-ups: the parked transactions whose waiter channel was closed return from
    `WaitForMark` (waiter id = transaction id = position in the table; `i` is the id of the head). -/
def wakeFrom (i : Nat) (wk : List Wakeup) : List TxnSt → List TxnSt
  | [] => []
  | x :: xs =>
    (if x.phase = .parked ∧ wk.any (fun k => k.waiter == i) then { x with phase := .active } else x)
      :: wakeFrom (i + 1) wk xs

def wakeTxns (txns : List TxnSt) (wk : List Wakeup) : List TxnSt := wakeFrom 0 wk txns

/-- The timestamps handed out and not yet reported done (what the pipeline still owes). -/
def Sys.allocatedNotDone (s : Sys) : List Nat :=
  (s.hist.map (·.ts)).filter (fun ts => !s.doneCommits.contains ts)

/-- Result of `Commit` for transaction `tid` in state `s` (the `newCommitTs` call). -/
def Sys.commitResult (s : Sys) (tid : Nat) : Option CommitResult :=
  match s.txns[tid]? with
  | some x => some (s.o.newCommitTs x.t).2.2
  | none => none

/-- One atomic step; `none` when the label is not enabled in `s`. -/
def Sys.step (s : Sys) : Label → Option Sys
  | .begin update =>
    if s.crashed ∨ s.o.isManaged then none else
    let r := s.o.readTsBegin
    some { s with o := r.1,
                  txns := s.txns ++ [{ t := { readTs := r.2, update := update }, phase := .started }],
                  rmSent := s.rmSent ++ [.begin r.2] }
  | .waitCheck tid =>
    if s.crashed then none else
    match s.txns[tid]? with
    | some x =>
      if x.phase ≠ .started then none else
      let r := s.o.readTsWait x.t.readTs tid
      if r.2 then some { s with o := r.1, txns := s.txns.set tid { x with phase := .active } }
      else some { s with o := r.1, txns := s.txns.set tid { x with phase := .parked },
                         tmSent := s.tmSent ++ [.wait x.t.readTs tid] }
    | none => none
  | .procTxnMark =>
    if s.crashed then none else
    match s.o.txnMark.process with
    | some (a, wk) =>
      some { s with o := { s.o with txnMark := a }, txns := wakeTxns s.txns wk, crashed := a.wm.failed }
    | none => none
  | .procReadMark =>
    if s.crashed then none else
    match s.o.readMark.process with
    | some (a, _) => some { s with o := { s.o with readMark := a }, crashed := a.wm.failed }
    | none => none
  | .read tid fp =>
    if s.crashed then none else
    match s.txns[tid]? with
    | some x =>
      if x.phase ≠ .active then none else
      if x.t.update then
        some { s with txns := s.txns.set tid { x with t := { x.t with reads := x.t.reads ++ [fp] } } }
      else some s
    | none => none
  | .write tid fp =>
    if s.crashed then none else
    match s.txns[tid]? with
    | some x =>
      if x.phase ≠ .active ∨ !x.t.update then none else
      let ck := if s.o.detectConflicts ∧ !x.t.conflictKeys.contains fp then x.t.conflictKeys ++ [fp]
                else x.t.conflictKeys
      some { s with txns := s.txns.set tid { x with t := { x.t with conflictKeys := ck, hasWrites := true } } }
    | none => none
  | .commit tid =>
    if s.crashed ∨ s.o.isManaged then none else
    match s.txns[tid]? with
    | some x =>
      if x.phase ≠ .active ∨ !x.t.update ∨ !x.t.hasWrites then none else
      let r := s.o.newCommitTs x.t
      match r.2.2 with
      | .conflict => some { s with o := r.1, txns := s.txns.set tid { x with t := r.2.1, phase := .closing } }
      | .fatal => some { s with o := r.1, crashed := true }
      | .ok ts =>
        some { s with o := r.1,
                      txns := s.txns.set tid { t := r.2.1, phase := .closed, committedAt := some ts },
                      hist := s.hist ++ [⟨ts, x.t.readTs, x.t.reads, x.t.conflictKeys, tid⟩],
                      rmSent := s.rmSent ++ [.done x.t.readTs],
                      tmSent := s.tmSent ++ [.begin ts] }
    | none => none
  | .discard tid =>
    if s.crashed then none else
    match s.txns[tid]? with
    | some x =>
      if x.phase ≠ .active ∧ x.phase ≠ .closing then none else
      if s.o.isManaged then some { s with txns := s.txns.set tid { x with phase := .closed } } else
      let r := s.o.doneRead x.t
      some { s with o := r.1, txns := s.txns.set tid { x with t := r.2, phase := .closed },
                    rmSent := if x.t.doneRead then s.rmSent else s.rmSent ++ [.done x.t.readTs] }
    | none => none
  | .doneCommit ts =>
    if s.crashed ∨ !s.allocatedNotDone.contains ts then none else
    some { s with o := s.o.doneCommit ts, doneCommits := s.doneCommits ++ [ts],
                  tmSent := if s.o.isManaged then s.tmSent else s.tmSent ++ [.done ts] }
  | .beginAt readTs update =>
    if s.crashed ∨ !s.o.isManaged then none else
    some { s with txns := s.txns ++ [{ t := { readTs := readTs, update := update }, phase := .active }] }
  | .commitAt tid ts =>
    if s.crashed ∨ !s.o.isManaged then none else
    match s.txns[tid]? with
    | some x =>
      if x.phase ≠ .active ∨ !x.t.update ∨ !x.t.hasWrites then none else
      let t := { x.t with commitTs := ts }
      let r := s.o.newCommitTs t
      match r.2.2 with
      | .conflict => some { s with o := r.1, txns := s.txns.set tid { x with t := r.2.1, phase := .closing } }
      | .fatal => some { s with o := r.1, crashed := true }
      | .ok cts =>
        some { s with o := r.1,
                      txns := s.txns.set tid { t := r.2.1, phase := .closed, committedAt := some cts },
                      hist := s.hist ++ [⟨cts, x.t.readTs, x.t.reads, x.t.conflictKeys, tid⟩] }
    | none => none
  | .setDiscardTs ts =>
    if s.crashed ∨ !s.o.isManaged then none else
    match s.o.setDiscardTs ts with
    | some o => some { s with o := o }
    | none => some { s with crashed := true }
  | .cleanup =>
    if s.crashed then none else
    match s.o.cleanup with
    | some o => some { s with o := o }
    | none => some { s with crashed := true }

/-- Reachable states of a database opened at `MaxVersion() = n`. -/
inductive OReach (managed detect : Bool) (n : Nat) : Sys → Prop where
  | init : OReach managed detect n (Sys.opened managed detect n)
  | step {s s' : Sys} (l : Label) : OReach managed detect n s → s.step l = some s' → OReach managed detect n s'

/-- A transaction holds the read mark: it has sent `readMark.Begin(readTs)` and not yet
    `readMark.Done(readTs)`. -/
def TxnSt.holdsRead (x : TxnSt) : Bool := x.phase != .closed && !x.t.doneRead

/-- Still able to commit. -/
def TxnSt.isOpen (x : TxnSt) : Bool :=
  x.phase == .started || x.phase == .parked || x.phase == .active

end Badger
