import BadgerModel.Trie
import BadgerModel.Key
/-!
# The publisher (`publisher.go`) and the subscriber loop of `DB.Subscribe` (`db.go`) as a state
machine.

* `newSubscriber` takes the next id, registers the subscriber and *then* adds its matches to the
  trie one by one; a match whose ignore string does not parse makes it return an error and the
  registration is undone (since the fix of finding F24; before, the subscriber stayed registered
  without a `Subscribe` loop and `DB.Close` waited for it forever). `ok` is therefore always true.
* `publishUpdates(reqs)`: requests in the order of `writeRequests`, entries in request order; for
  every entry `ids = trie.Get(y.ParseKey(e.Key))` (after the fix of finding F10) and one `pb.KV`
  (`Key = ParseKey`, `Value`, `Meta = [UserMeta]`, `ExpiresAt`, `Version = ParseTs`) is appended to
  the batch of every id; each non-empty batch is sent to the subscriber's channel (`queue`).
  Entries with internal `!badger!` keys (the transaction end marker `!badger!txn`) are treated like
  any other entry, exactly as in the code.
* the loop of `DB.Subscribe`: `deliver` hands queued batches to the callback (the `slurp` of the Go
  code takes whatever is in the channel; any non-empty prefix of the queue covers every
  interleaving with the publisher); `cancel` (context cancelled or callback error): the channel is
  drained — pending batches are **dropped** — and the subscriber deleted; `close` (DB closing,
  `cleanSubscribers`): the subscriber is deleted and the loop hands the pending batches to the
  callback before returning.

`delivered` is the log of what the callbacks have received (a ghost of the callers' state).
-/
namespace Badger

/-- An `Entry` as the publisher sees it: internal key (user key ++ 8 timestamp bytes). -/
structure PubEntry where
  ikey : Bytes
  value : Bytes
  userMeta : Nat
  expiresAt : Nat
deriving DecidableEq, Repr

/-- `pb.KV` as filled in by `publishUpdates`. -/
structure KV where
  key : Bytes
  value : Bytes
  userMeta : Nat
  expiresAt : Nat
  version : Nat
deriving DecidableEq, Repr

def kvOf (e : PubEntry) : KV :=
  { key := parseKey e.ikey, value := e.value, userMeta := e.userMeta, expiresAt := e.expiresAt,
    version := parseTs e.ikey }

/-- `subscriber` (the `active` flag is 1 for as long as the subscriber is in the map: it is
    cleared immediately before `deleteSubscriber`). -/
structure Sub where
  id : Nat
  matchList : List (Bytes × Bytes)   -- (prefix, ignore string)
  ok : Bool                          -- `newSubscriber` returned no error: a `Subscribe` loop exists
  queue : List (List KV)             -- `sendCh`
deriving Repr

structure Publisher where
  trie : Trie
  nextID : Nat
  subs : List Sub                    -- `p.subscribers`
  delivered : List (Nat × KV)        -- (subscriber id, kv) in the order the callbacks received them

def Publisher.empty : Publisher := { trie := Trie.empty, nextID := 0, subs := [], delivered := [] }

/-- The `AddMatch` loop of `newSubscriber`: stops at the first error. -/
def addMatchesFor (t : Trie) (id : Nat) : List (Bytes × Bytes) → Trie × Bool
  | [] => (t, true)
  | (p, ig) :: rest =>
    match t.addMatch p ig id with
    | none => (t, false)
    | some t' => addMatchesFor t' id rest

/-- The `DeleteMatch` loop of `deleteSubscriber` / `cleanSubscribers` (errors ignored). -/
def delMatchesFor (t : Trie) (id : Nat) : List (Bytes × Bytes) → Trie
  | [] => t
  | (p, ig) :: rest => delMatchesFor ((t.deleteMatch p ig id).getD t) id rest

/-- The matches before the first one whose ignore string does not parse. -/
def okPrefix : List (Bytes × Bytes) → List (Bytes × Bytes)
  | [] => []
  | (p, ig) :: rest => if (parseIgnoreBytes ig).isSome then (p, ig) :: okPrefix rest else []

/-- `newSubscriber`: the new state and the id, or `none` for an error. On the error path (a match
    whose ignore string does not parse) the registration is undone — the matches added so far are
    deleted again and the subscriber is removed (fix of finding F24); the id stays consumed. -/
def Publisher.subscribe (p : Publisher) (ms : List (Bytes × Bytes)) : Publisher × Option Nat :=
  let r := addMatchesFor p.trie p.nextID ms
  if r.2 then
    ({ p with trie := r.1, nextID := p.nextID + 1,
              subs := p.subs ++ [{ id := p.nextID, matchList := ms, ok := true, queue := [] }] },
     some p.nextID)
  else
    ({ p with trie := delMatchesFor r.1 p.nextID (okPrefix ms), nextID := p.nextID + 1 }, none)

/-- `batchedUpdates[id]` after the double loop of `publishUpdates`: the KVs of the entries whose
    id set contains `id`, in request and entry order. -/
def batchFor (t : Trie) (id : Nat) (reqs : List (List PubEntry)) : List KV :=
  reqs.flatten.filterMap (fun e => if id ∈ t.get (parseKey e.ikey) then some (kvOf e) else none)

/-- `publishUpdates(reqs)`. -/
def Publisher.publish (p : Publisher) (reqs : List (List PubEntry)) : Publisher :=
  { p with subs := p.subs.map (fun s =>
      let b := batchFor p.trie s.id reqs
      if b.isEmpty then s else { s with queue := s.queue ++ [b] }) }

def Publisher.find (p : Publisher) (id : Nat) : Option Sub := p.subs.find? (fun s => s.id == id)

/-- The `Subscribe` loop hands the first `n` queued batches to the callback. -/
def Publisher.deliver (p : Publisher) (id n : Nat) : Publisher :=
  match p.find id with
  | none => p
  | some s =>
    if s.ok then
      { p with subs := p.subs.map (fun x => if x.id == id then { x with queue := x.queue.drop n } else x)
               delivered := p.delivered ++ ((s.queue.take n).flatten.map (fun kv => (id, kv))) }
    else p

/-- Context cancelled (or callback error): `active = 0`, `drain()`, `deleteSubscriber`. -/
def Publisher.cancel (p : Publisher) (id : Nat) : Publisher :=
  match p.find id with
  | none => p
  | some s =>
    if s.ok then
      { p with trie := delMatchesFor p.trie id s.matchList
               subs := p.subs.filter (fun x => x.id != id) }
    else p

/-- DB closing: `cleanSubscribers` deletes the subscriber, the loop delivers what is pending. -/
def Publisher.close (p : Publisher) (id : Nat) : Publisher :=
  match p.find id with
  | none => p
  | some s =>
    if s.ok then
      { p with trie := delMatchesFor p.trie id s.matchList
               subs := p.subs.filter (fun x => x.id != id)
               delivered := p.delivered ++ (s.queue.flatten.map (fun kv => (id, kv))) }
    else p

/-- What the callback of subscriber `id` has received so far, in order. -/
def Publisher.deliveredTo (p : Publisher) (id : Nat) : List KV :=
  p.delivered.filterMap (fun x => if x.1 = id then some x.2 else none)

/-- Steps of the system: the write pipeline calls `publish` with the requests in the order of
    `writeRequests` (commit-timestamp order, C03). -/
inductive PubStep where
  | subscribe (ms : List (Bytes × Bytes))
  | publish (reqs : List (List PubEntry))
  | deliver (id n : Nat)
  | cancel (id : Nat)
  | close (id : Nat)

def Publisher.step (p : Publisher) : PubStep → Publisher
  | .subscribe ms => (p.subscribe ms).1
  | .publish reqs => p.publish reqs
  | .deliver id n => p.deliver id n
  | .cancel id => p.cancel id
  | .close id => p.close id

def Publisher.run (steps : List PubStep) : Publisher := steps.foldl Publisher.step Publisher.empty

end Badger
