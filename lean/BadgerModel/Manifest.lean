import BadgerModel.Bytes
/-!
# MANIFEST (`manifest.go`): `Manifest`, `applyManifestChange` / `applyChangeSet`, the file
framing, `ReplayManifestFile`, `manifestFile.addChanges` with the rewrite rule, `helpRewrite`,
`helpOpenOrCreateManifestFile`.

The model follows the Go code as it is, including:
* `TableManifest.Level = uint8(tc.Level)` while `build.Levels` is indexed with the full
  `uint32` level (they disagree for levels ≥ 256, which badger never emits);
* a DELETE of an unknown table is not an error (it removes the id from every level and counts
  as a deletion);
* `applyChangeSet` stops at the first error and leaves the manifest partially modified
  (`addChanges` then returns the error without writing);
* `ReplayManifestFile` compares the frame length with the number of bytes left in the file
  before it allocates the payload buffer; a longer record is a torn tail (fix of finding F16).

The protobuf payload encoding, the CRC and the Go map iteration order used by `asChanges` are
parameters (`Codec`); `BadgerModel/ManifestPb.lean` and `BadgerModel/Crc.lean` provide the
concrete instance used by the driver (real protobuf wire format, bit-level CRC32-C, ascending
table ids).
-/
namespace Badger

/-- `TableManifest`. `level` is a `uint8`. -/
structure TableManifest where
  level : Nat
  keyID : Nat
  compression : Nat
deriving DecidableEq, Repr

/-- `pb.ManifestChange`. `op`: 0 = CREATE, 1 = DELETE, anything else is invalid
    (an `int32` enum kept as its two's-complement `uint32` value). -/
structure Change where
  id : Nat
  op : Nat
  level : Nat
  keyId : Nat
  encAlgo : Nat
  compression : Nat
deriving DecidableEq, Repr

/-- `newCreateChange` (`EncryptionAlgo_aes = 0`). -/
def Change.create (id level keyId compression : Nat) : Change :=
  { id, op := 0, level, keyId, encAlgo := 0, compression }

/-- `newDeleteChange`. -/
def Change.delete (id : Nat) : Change :=
  { id, op := 1, level := 0, keyId := 0, encAlgo := 0, compression := 0 }

abbrev ChangeSet := List Change

/-- `Manifest`. `levels[l]` is the set of table ids of level `l` (a duplicate-free list),
    `tables` the map id → `TableManifest` (an association list with at most one entry per id). -/
structure Manifest where
  levels : List (List Nat)
  tables : List (Nat × TableManifest)
  creations : Nat
  deletions : Nat
deriving DecidableEq, Repr

/-- `createManifest()`. -/
def Manifest.empty : Manifest := { levels := [], tables := [], creations := 0, deletions := 0 }

def Manifest.lookup (m : Manifest) (id : Nat) : Option TableManifest := m.tables.lookup id

inductive ManifestErr where
  | tableExists (id : Nat)   -- "MANIFEST invalid, table %d exists"
  | invalidOp                -- "MANIFEST file has invalid manifestChange op"
deriving DecidableEq, Repr

/-- Set insertion (`Tables[id] = struct{}{}`). -/
def setInsert (id : Nat) (s : List Nat) : List Nat := if id ∈ s then s else id :: s

/-- Set removal (`delete(level.Tables, id)`). -/
def setErase (id : Nat) (s : List Nat) : List Nat := s.filter (· ≠ id)

/-- `for len(build.Levels) <= level { append(empty level) }`. -/
def growLevels (levels : List (List Nat)) (level : Nat) : List (List Nat) :=
  levels ++ List.replicate (level + 1 - levels.length) []

/-- `applyManifestChange`. -/
def applyChange (m : Manifest) (c : Change) : Except ManifestErr Manifest :=
  if c.op = 0 then
    match m.lookup c.id with
    | some _ => .error (.tableExists c.id)
    | none =>
      let tm : TableManifest := { level := c.level % 256, keyID := c.keyId, compression := c.compression }
      let levels := growLevels m.levels c.level
      .ok { levels := levels.modify c.level (setInsert c.id)
            tables := (c.id, tm) :: m.tables
            creations := m.creations + 1
            deletions := m.deletions }
  else if c.op = 1 then
    match m.lookup c.id with
    | none =>
      .ok { m with levels := m.levels.map (setErase c.id), deletions := m.deletions + 1 }
    | some tm =>
      .ok { levels := m.levels.modify tm.level (setErase c.id)
            tables := m.tables.filter (fun e => e.1 ≠ c.id)
            creations := m.creations
            deletions := m.deletions + 1 }
  else .error .invalidOp

/-- `applyChangeSet`: the manifest is modified in place, so on an error the changes before the
    failing one stay applied. -/
def applyChangeSet (m : Manifest) : ChangeSet → Manifest × Option ManifestErr
  | [] => (m, none)
  | c :: cs =>
    match applyChange m c with
    | .error e => (m, some e)
    | .ok m' => applyChangeSet m' cs

/-! ## parameters -/

/-- What the model does not define itself: CRC32-C (`crc`), protobuf (`enc`/`dec`) and the
    iteration order of the Go map `Tables` in `asChanges` (`ord`). -/
structure Codec where
  crc : Bytes → Nat
  enc : ChangeSet → Bytes
  dec : Bytes → Option ChangeSet
  ord : List (Nat × TableManifest) → List (Nat × TableManifest)

/-- The Go types of the fields of `pb.ManifestChange` (`uint64`, `uint32`, `int32` enums). -/
def Change.InRange (c : Change) : Prop :=
  c.id < 2 ^ 64 ∧ c.op < 2 ^ 32 ∧ c.level < 2 ^ 32 ∧ c.keyId < 2 ^ 64 ∧ c.encAlgo < 2 ^ 32 ∧
  c.compression < 2 ^ 32

def ChangeSet.InRange (cs : ChangeSet) : Prop := ∀ c, c ∈ cs → c.InRange

/-- The assumed contracts of the parameters: the checksum is a `uint32`, unmarshalling a
    marshalled change set (of values that fit their Go types) gives it back, the map iteration
    order is some permutation. -/
structure Codec.Valid (cd : Codec) : Prop where
  crc_lt : ∀ b, cd.crc b < 2 ^ 32
  dec_enc : ∀ cs, ChangeSet.InRange cs → cd.dec (cd.enc cs) = some cs
  ord_perm : ∀ l, (cd.ord l).Perm l

/-! ## file format -/

def magicText : Bytes := [0x42, 0x64, 0x67, 0x72]     -- "Bdgr"
def badgerMagicVersion : Nat := 8

/-- magicText (4) | externalMagic (2, BE) | badgerMagicVersion (2, BE). -/
def manifestHeader (ext : Nat) : Bytes := magicText ++ beBytes ext 2 ++ beBytes badgerMagicVersion 2

/-- len (4, BE, `uint32(len(buf))`) | crc32c(buf) (4, BE) | buf. -/
def frame (cd : Codec) (payload : Bytes) : Bytes :=
  beBytes payload.length 4 ++ beBytes (cd.crc payload) 4 ++ payload

/-- `asChanges`: one CREATE per table, in map iteration order. -/
def asChanges (cd : Codec) (m : Manifest) : ChangeSet :=
  (cd.ord m.tables).map (fun e => Change.create e.1 e.2.level e.2.keyID e.2.compression)

/-- The file written by `helpRewrite`: header and a single change set of all tables. -/
def rewriteFile (cd : Codec) (ext : Nat) (m : Manifest) : Bytes :=
  manifestHeader ext ++ frame cd (cd.enc (asChanges cd m))

/-- `Manifest.clone`: `applyChangeSet(createManifest(), asChanges())` (`y.Check` cannot fail:
    table ids are distinct). -/
def Manifest.clone (cd : Codec) (m : Manifest) : Manifest :=
  (applyChangeSet Manifest.empty (asChanges cd m)).1

/-! ## `ReplayManifestFile` -/

inductive ReplayErr where
  | badMagic
  | unsupportedVersion (v : Nat)
  | extMagicMismatch
  | badChecksum
  | decode                   -- proto.Unmarshal error
  | apply (e : ManifestErr)
deriving DecidableEq, Repr

abbrev ReplayResult := Except ReplayErr (Manifest × Nat)

instance : DecidableEq ReplayResult := fun a b =>
  match a, b with
  | .ok x, .ok y => if h : x = y then isTrue (by rw [h]) else isFalse (fun h' => by cases h'; exact h rfl)
  | .error x, .error y => if h : x = y then isTrue (by rw [h]) else isFalse (fun h' => by cases h'; exact h rfl)
  | .ok _, .error _ => isFalse (fun h => by cases h)
  | .error _, .ok _ => isFalse (fun h => by cases h)

/-- The `for` loop of `ReplayManifestFile` on the unread rest of the file (`rest.length` is
    `stat.Size() - r.count`), `off` the reader's count, `fuel ≥ rest.length` suffices.
    A record whose length field exceeds what is left of the file is a torn append: the loop stops
    (since the fix of finding F16; before, `length > uint32(stat.Size())` was a hard error and
    only lengths between the rest of the file and the file size ended in the short read). -/
def replayLoop (cd : Codec) : Nat → Bytes → Nat → Manifest → ReplayResult
  | 0, _, off, build => .ok (build, off)
  | fuel + 1, rest, off, build =>
    if rest.length < 8 then .ok (build, off)            -- EOF / UnexpectedEOF on lenCrcBuf
    else
      let length := beNat (rest.take 4)
      let body := rest.drop 8
      if body.length < length then .ok (build, off)     -- int64(length) > stat.Size() - r.count
      else
        let buf := body.take length
        if cd.crc buf ≠ beNat ((rest.drop 4).take 4) then .error .badChecksum
        else match cd.dec buf with
          | none => .error .decode
          | some cs =>
            match applyChangeSet build cs with
            | (_, some e) => .error (.apply e)
            | (build', none) => replayLoop cd fuel (body.drop length) (off + 8 + length) build'

/-- `ReplayManifestFile(fp, extMagic)`: the manifest and the truncation offset. -/
def replay (cd : Codec) (file : Bytes) (ext : Nat) : ReplayResult :=
  if file.length < 8 then .error .badMagic
  else if file.take 4 ≠ magicText then .error .badMagic
  else
    let extVersion := beNat ((file.drop 4).take 2)
    let version := beNat ((file.drop 6).take 2)
    if version ≠ badgerMagicVersion then .error (.unsupportedVersion version)
    else if extVersion ≠ ext % 2 ^ 16 then .error .extMagicMismatch
    else replayLoop cd file.length (file.drop 8) 8 Manifest.empty

/-! ## `manifestFile` -/

/-- `manifestFile`: the bytes of `MANIFEST`, the in-memory manifest, the rewrite threshold and
    the external magic. -/
structure MFile where
  file : Bytes
  manifest : Manifest
  threshold : Int
  ext : Nat
  pos : Nat          -- offset of the file descriptor `fp`: where the next `fp.Write` lands
deriving DecidableEq

/-- `fp.Write(b)` with the descriptor at offset `pos`: a write beyond the end of the file leaves a
    hole of zero bytes, a write inside it overwrites. -/
def writeAt (file : Bytes) (pos : Nat) (b : Bytes) : Bytes :=
  file.take pos ++ List.replicate (pos - file.length) 0 ++ b ++ file.drop (pos + b.length)

/-- `helpOpenOrCreateManifestFile` when no MANIFEST exists. -/
def MFile.create (cd : Codec) (ext : Nat) (threshold : Int) : MFile :=
  { file := rewriteFile cd ext Manifest.empty
    manifest := Manifest.empty.clone cd
    threshold, ext
    pos := (rewriteFile cd ext Manifest.empty).length }     -- helpRewrite: Seek(0, io.SeekEnd)

/-- `helpOpenOrCreateManifestFile` on an existing MANIFEST (read-write): replay, truncate at
    the returned offset, **seek to the new end of the file** (replay has left the descriptor at the
    old end; without the `Seek(0, io.SeekEnd)` the next append would land beyond a hole of zeros),
    keep a clone. Returns the replayed manifest as well. -/
def MFile.openExisting (cd : Codec) (file : Bytes) (ext : Nat) (threshold : Int) :
    Except ReplayErr (MFile × Manifest) :=
  match replay cd file ext with
  | .error e => .error e
  | .ok (m, off) =>
    .ok ({ file := file.take off, manifest := m.clone cd, threshold, ext, pos := (file.take off).length }, m)

/-- The rewrite rule of `addChanges`. -/
def shouldRewrite (m : Manifest) (threshold : Int) : Bool :=
  decide ((m.deletions : Int) > threshold ∧
          (m.deletions : Int) > 10 * ((m.creations : Int) - (m.deletions : Int)))

/-- `manifestFile.addChanges`. -/
def MFile.addChanges (cd : Codec) (mf : MFile) (cs : ChangeSet) : MFile × Option ManifestErr :=
  let buf := cd.enc cs
  match applyChangeSet mf.manifest cs with
  | (m', some e) => ({ mf with manifest := m' }, some e)
  | (m', none) =>
    if shouldRewrite m' mf.threshold then
      -- rewrite(): helpRewrite, then Creations = len(Tables), Deletions = 0
      ({ mf with file := rewriteFile cd mf.ext m'
                 manifest := { m' with creations := m'.tables.length, deletions := 0 }
                 pos := (rewriteFile cd mf.ext m').length }, none)
    else
      ({ mf with file := writeAt mf.file mf.pos (frame cd buf), manifest := m'
                 pos := mf.pos + (frame cd buf).length }, none)

end Badger
