import BadgerModel.Bytes
/-!
# CRC32-C (Castagnoli), bit-level

Matches Go `crc32.Checksum(data, crc32.MakeTable(crc32.Castagnoli))` / `crc32.New(table)` +
`Write` + `Sum32`: reflected algorithm, polynomial `0x82F63B78`, initial register
`0xFFFFFFFF`, final xor `0xFFFFFFFF`. The register is a `Nat < 2^32`.
-/
namespace Badger

def crcPoly : Nat := 0x82F63B78

/-- One bit: shift right, xor the polynomial in when the bit shifted out was 1. -/
def crcBit (c : Nat) : Nat := (c / 2) ^^^ (if c % 2 = 1 then crcPoly else 0)

/-- One byte: xor into the low 8 bits, then 8 bit steps. -/
def crcByte (c : Nat) (b : UInt8) : Nat :=
  crcBit (crcBit (crcBit (crcBit (crcBit (crcBit (crcBit (crcBit (c ^^^ b.toNat))))))))

/-- Register after feeding `data` (Go `crc32.Update` without the pre/post inversion). -/
def crcUpdate (c : Nat) : Bytes → Nat
  | [] => c
  | b :: bs => crcUpdate (crcByte c b) bs

/-- `crc32.Checksum(data, CastagnoliCrcTable)`. -/
def crc32c (data : Bytes) : Nat := crcUpdate 0xFFFFFFFF data ^^^ 0xFFFFFFFF

end Badger
