/-!
# Directory locks (`dir_unix.go`, `db.go` Open / Close)

`acquireDirectoryLock` opens the directory, takes `flock(LOCK_EX|LOCK_NB)` (read-write) or
`flock(LOCK_SH|LOCK_NB)` (read-only) on the fresh open file description and, for the
exclusive case only, writes the pid file `LOCK`; `release` removes the pid file (exclusive
only) and closes the descriptor. `Open` locks `Dir` and — when `filepath.Abs(ValueDir) ≠
filepath.Abs(Dir)`, a comparison of *path strings* — `ValueDir`; every failure after the first
lock releases what was taken (deferred releases, value-dir guard first); `Close` releases the
`Dir` guard, then the `ValueDir` guard. `InMemory` / `BypassLockGuard` take no lock at all.

Kernel `flock` semantics are a parameter of the model (trusted, DESIGN §3): locks belong to an
open file description, a shared lock is compatible with shared locks only, the non-blocking
request fails instead of waiting, closing the description (or the death of the process)
drops the lock.

Directories are identified by a number (the inode); *paths* are numbers resolved by
`ρ : Nat → Nat` (two different paths may resolve to the same directory: symlinks).
-/
namespace Badger.DirLock

/-- State of the `flock` on one directory inode: `shared k` = `k+1` shared holders. -/
inductive LockSt where
  | free
  | shared (extra : Nat)
  | exclusive
  deriving DecidableEq, Repr, Inhabited

/-- `flock(fd, LOCK_SH|LOCK_NB)` (`ro`) / `flock(fd, LOCK_EX|LOCK_NB)` on a fresh description:
    the new lock state, or `none` for `EWOULDBLOCK`. -/
def flock (l : LockSt) (ro : Bool) : Option LockSt :=
  match l, ro with
  | .free, false => some .exclusive
  | .free, true => some (.shared 0)
  | .shared k, true => some (.shared (k + 1))
  | .shared _, false => none
  | .exclusive, _ => none

/-- Closing a description that holds a lock of the given kind. -/
def unflock (l : LockSt) (ro : Bool) : LockSt :=
  match l, ro with
  | .exclusive, false => .free
  | .shared 0, true => .free
  | .shared (k + 1), true => .shared k
  | l, _ => l

def upd {α : Type} (f : Nat → α) (k : Nat) (v : α) : Nat → α :=
  fun x => if x = k then v else f x

/-- `directoryLockGuard`: the directory (inode) and whether the lock is shared. -/
structure Guard where
  dir : Nat
  ro : Bool
  deriving DecidableEq, Repr

/-- An open `*DB`: script label, owning process, how it was opened, the guards it holds
    (`dirLockGuard`, `valueDirGuard`; none with `BypassLockGuard` / `InMemory`). -/
structure Inst where
  id : Nat
  proc : Nat
  ro : Bool
  guards : List Guard
  deriving DecidableEq, Repr

structure Sys where
  locks : Nat → LockSt
  /-- content of the pid file `LOCK` per directory (the pid = process number) -/
  pidf : Nat → Option Nat
  insts : List Inst

def Sys.init : Sys := { locks := fun _ => .free, pidf := fun _ => none, insts := [] }

/-- `acquireDirectoryLock(dir, "LOCK", ro)` by process `proc`. -/
def acquire (s : Sys) (d : Nat) (ro : Bool) (proc : Nat) : Option Sys :=
  match flock (s.locks d) ro with
  | none => none
  | some l =>
    some { s with locks := upd s.locks d l,
                  pidf := if ro then s.pidf else upd s.pidf d (some proc) }

/-- `guard.release()`: remove the pid file (exclusive only), close the descriptor. -/
def release (s : Sys) (g : Guard) : Sys :=
  { s with pidf := if g.ro then s.pidf else upd s.pidf g.dir none,
           locks := upd s.locks g.dir (unflock (s.locks g.dir) g.ro) }

/-- The kernel closes the descriptor of a dead process: the lock goes, the pid file stays. -/
def dropLock (s : Sys) (g : Guard) : Sys :=
  { s with locks := upd s.locks g.dir (unflock (s.locks g.dir) g.ro) }

structure OpenArgs where
  inst : Nat
  proc : Nat
  dirPath : Nat
  vdirPath : Nat
  ro : Bool
  /-- `InMemory` or `BypassLockGuard` -/
  bypass : Bool
  /-- some step of `Open` after the locks fails (no MANIFEST in a read-only open, key
      registry mismatch, …): environment input -/
  failLater : Bool
  deriving Repr

inductive Res where
  | ok | locked | err | badop
  deriving DecidableEq, Repr

def Res.str : Res → String
  | .ok => "ok" | .locked => "locked" | .err => "err" | .badop => "bad-op"

def hasInst (s : Sys) (i : Nat) : Bool := s.insts.any (fun x => x.id == i)

/-- `Open(opt)`, lock-relevant part. -/
def openDb (ρ : Nat → Nat) (s : Sys) (a : OpenArgs) : Sys × Res :=
  if hasInst s a.inst then (s, .badop)
  else if a.bypass then
    if a.failLater then (s, .err)
    else ({ s with insts := ⟨a.inst, a.proc, a.ro, []⟩ :: s.insts }, .ok)
  else
    match acquire s (ρ a.dirPath) a.ro a.proc with
    | none => (s, .locked)
    | some s1 =>
      let g1 : Guard := ⟨ρ a.dirPath, a.ro⟩
      if a.vdirPath = a.dirPath then
        if a.failLater then (release s1 g1, .err)
        else ({ s1 with insts := ⟨a.inst, a.proc, a.ro, [g1]⟩ :: s1.insts }, .ok)
      else
        match acquire s1 (ρ a.vdirPath) a.ro a.proc with
        | none => (release s1 g1, .locked)
        | some s2 =>
          let g2 : Guard := ⟨ρ a.vdirPath, a.ro⟩
          -- deferred releases run last-in first-out: value-dir guard, then dir guard
          if a.failLater then (release (release s2 g2) g1, .err)
          else ({ s2 with insts := ⟨a.inst, a.proc, a.ro, [g1, g2]⟩ :: s2.insts }, .ok)

/-- The instances selected by `p` disappear; each of their guards is given up with `f`
    (`release` for a `Close`, `dropLock` for a killed process). -/
def removeInsts (f : Sys → Guard → Sys) (p : Inst → Bool) (s : Sys) : Sys :=
  let dead := s.insts.filter p
  let s' := dead.foldl (fun acc x => x.guards.foldl f acc) s
  { s' with insts := s.insts.filter (fun x => !p x) }

/-- `db.Close()`: releases `dirLockGuard`, then `valueDirGuard`. A second `Close` (or a
    `Close` of a label that is not open) is a no-op (`closeOnce`). Labels are unique among
    open instances (`openDb` refuses a label in use). -/
def closeDb (s : Sys) (i : Nat) : Sys × Res :=
  (removeInsts release (fun x => x.id == i) s, .ok)

/-- SIGKILL of process `p`: every instance of `p` disappears, its descriptors are closed by
    the kernel, pid files are left behind. -/
def crash (s : Sys) (p : Nat) : Sys × Res :=
  (removeInsts dropLock (fun x => x.proc == p) s, .ok)

inductive Op where
  | openDb (a : OpenArgs)
  | closeDb (inst : Nat)
  | crash (proc : Nat)

def step (ρ : Nat → Nat) (s : Sys) : Op → Sys × Res
  | .openDb a => openDb ρ s a
  | .closeDb i => closeDb s i
  | .crash p => crash s p

def run (ρ : Nat → Nat) (s : Sys) : List Op → Sys
  | [] => s
  | o :: os => run ρ (step ρ s o).1 os

/-- States reachable from the initial (all free, nothing open) state by any finite sequence of
    open / close / kill attempts of any number of instances and processes. -/
def Reach (ρ : Nat → Nat) (s : Sys) : Prop := ∃ ops, run ρ Sys.init ops = s

end Badger.DirLock
