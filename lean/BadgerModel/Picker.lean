import BadgerModel.Lsm
/-!
# Which tables a compaction may take (`fillTablesL0ToLbase`, `fillTablesL0ToL0`, `fillTables`,
`fillMaxLevelTables`, `overlappingTables` in levels.go / level_handler.go)

The heuristic part of the pickers (which eligible table is tried first, sizes, ages, scores) is
not modelled; the *structural* part is, exactly:
* L0→Lbase takes the longest prefix of L0 whose key ranges chain-overlap — all of L0 when prefixes
  are being dropped or when a table behind that prefix overlaps its range (F28) — and, from the base level, exactly the tables whose range
  intersects the range of those;
* Li→Li+1 takes one table and exactly the intersecting run of the next level;
* L0→L0 takes at least four L0 tables and nothing else;
* Lmax→Lmax takes one table and a run of tables directly following it.
`validChoice` is checked by the driver on every compaction the implementation performs.
-/
namespace Badger

-- `Tbl.keyRange`, `rangeOverlaps`, `rangeExtend`, `rangeOfTables` live in `Lsm.lean` (used by `compactOutput`).

/-- `fillTablesL0ToLbase`: number of L0 tables taken from the front. -/
def l0PrefixLen : List Tbl → Option (Bytes × Bytes) → Nat
  | [], _ => 0
  | t :: ts, kr =>
    match t.keyRange with
    | none => 0
    | some d => if rangeOverlaps kr d then 1 + l0PrefixLen ts (rangeExtend kr d) else 0

/-- an L0 table with a user-key range overlapping `kr` -/
def overlapsRange (kr : Option (Bytes × Bytes)) (t : Tbl) : Bool :=
  match t.keyRange with
  | some d => rangeOverlaps kr d
  | none => false

/-- `fillTablesL0ToLbase` after the F28 repair: the chain-overlapping prefix, unless an L0 table
    behind it overlaps the range of the prefix — then ALL of L0 (L0 is not always in age order:
    `Open` sorts it by file id and the output of an L0 → L0 compaction gets a new id although it holds
    the oldest data; a table left behind must not share a key range with the tables moved down). -/
def l0PickLen (l0 : List Tbl) : Nat :=
  let n := l0PrefixLen l0 none
  if (l0.drop n).any (overlapsRange (rangeOfTables (l0.take n))) then l0.length else n

/-- `overlappingTables(kr)` on a sorted level: indices `[left, right)`. -/
def overlapIdx (tbls : List Tbl) (kr : Option (Bytes × Bytes)) : List Nat :=
  match kr with
  | none => []
  | some (lo, hi) =>
    let left := (tbls.takeWhile (fun t => match t.biggest with
      | some b => cmpBytes b.key lo == .lt
      | none => true)).length
    let right := (tbls.takeWhile (fun t => match t.smallest with
      | some a => cmpBytes a.key hi != .gt
      | none => true)).length
    (List.range right).drop left

def isContiguousFrom (l : List Nat) : Bool :=
  match l with
  | [] => true
  | a :: _ => l == (List.range l.length).map (· + a)

/-- the structural constraints of the production pickers; `none` = fine, `some msg` = what is wrong -/
def choiceProblem (s : Lsm) (cd : CompactDef) : Option String :=
  let thisT := s.levels.getD cd.thisLevel []
  let nextT := s.levels.getD cd.nextLevel []
  let tops := pickIdx thisT cd.top
  if cd.top.isEmpty then none            -- DropPrefix same-level rewrite: judged by the drop plan
  else if cd.thisLevel == 0 && cd.nextLevel == 0 then
    if !cd.bot.isEmpty then some "L0->L0 with bottom tables"
    else if cd.top.length < 4 then some s!"L0->L0 of {cd.top.length} tables (needs 4)"
    else none
  else if cd.thisLevel == 0 then
    let n := if cd.dropPrefixes.isEmpty then l0PickLen thisT else thisT.length
    let wantTop := List.range n
    let wantBot := overlapIdx nextT (rangeOfTables tops)
    let between := ((List.range cd.nextLevel).drop 1).any (fun j => !(s.levels.getD j []).isEmpty)
    if cd.top != wantTop then some s!"L0->Lbase top={cd.top} expected {wantTop} (the overlapping prefix, or all of L0 if a table behind it overlaps)"
    else if cd.bot != wantBot then some s!"L0->Lbase bot={cd.bot} expected {wantBot}"
    else if between then some s!"L0->L{cd.nextLevel} jumps over a non-empty level"
    else none
  else if cd.thisLevel == cd.nextLevel then
    match cd.top with
    | [i] =>
      if isContiguousFrom cd.bot && (cd.bot.isEmpty || cd.bot.head? == some (i + 1)) then none
      else some s!"Lmax->Lmax top={cd.top} bot={cd.bot}: bottom tables must directly follow the top table"
    | _ => some "Lmax->Lmax with several top tables"
  else if cd.nextLevel == cd.thisLevel + 1 then
    match cd.top with
    | [_] =>
      let wantBot := overlapIdx nextT (rangeOfTables tops)
      if cd.bot != wantBot then some s!"L{cd.thisLevel}->L{cd.nextLevel} bot={cd.bot} expected {wantBot}" else none
    | _ => some "Li->Li+1 with several top tables"
  else some s!"compaction from L{cd.thisLevel} to L{cd.nextLevel}"

def validChoice (s : Lsm) (cd : CompactDef) : Bool := (choiceProblem s cd).isNone

/-- `addKeys` starts a new output table only when the user key changes: on a level ≥ 1 no user key
    may be spread over two of the tables a compaction produced (hypothesis `CutsAtKeyChange` of
    `C14_compact_inv`). Returns the first key found on both sides of a cut. -/
def cutProblem (sizes : List Nat) (out : List Ent) : Option Bytes :=
  match sizes with
  | [] => none
  | n :: rest =>
    let a := out.take n
    let b := out.drop n
    match a.getLast?, b.head? with
    | some x, some y => if rest.isEmpty then none else if x.key == y.key then some x.key else cutProblem rest b
    | _, _ => none

end Badger
