import BadgerModel.Mvcc
import BadgerModel.Spec.Mvcc
/-!
# Close + Open inside a history (`DB.Close`, `Open`), on-disk databases

`Close` flushes the memtable (a separate `flush` step of the driver, with the table id the
implementation reports), `Open` rebuilds the in-memory state from the tables:
* level 0 is sorted by file id (`levelHandler.initTables`), levels `≥ 1` by smallest key (they
  already are);
* `nextTxnTs = MaxVersion() + 1` where `MaxVersion` is the largest version in any table or memtable
  (the end-of-transaction markers are written to the WAL only, `memTable.Put` keeps them out of the
  skiplist, so they do not count: after a compaction has dropped the newest versions the timestamps
  handed out after a reopen may repeat earlier ones);
* both watermarks are set to `MaxVersion()` (`txnMark.Done`, `readMark.Done`);
* the managed-mode discard timestamp, `committedTxns` and all transactions are gone.
-/
namespace Badger

def insertById (t : Tbl) : List Tbl → List Tbl
  | [] => [t]
  | x :: xs => if t.id < x.id then t :: x :: xs else x :: insertById t xs

def sortTblsById (ts : List Tbl) : List Tbl := ts.foldr insertById []

/-- `DB.MaxVersion()` -/
def Db.maxVersion (d : Db) : Nat := d.lsm.allEntries.foldl (fun m e => max m e.ver) 0

def Db.closeOpen (d : Db) : Db :=
  let lsm : Lsm := match d.lsm.levels with
    | [] => d.lsm
    | l0 :: rest => { d.lsm with levels := sortTblsById l0 :: rest }
  let d1 := { d with lsm := lsm }
  let mv := d1.maxVersion
  { d1 with nextTs := mv + 1, readMark := ({} : Wm).done mv, discardTs := 0, committed := [],
            lastCleanupTs := 0, txns := [] }

end Badger
