import BadgerModel.Bytes
/-!
# Internal keys (`y/y.go`): `KeyWithTs`, `ParseTs`, `ParseKey`, `CompareKeys`, `SameKey`.
Timestamps are `Nat`s below `2^64` (Go `uint64`).
-/
namespace Badger

def maxU64 : Nat := 2 ^ 64 - 1

/-- `y.KeyWithTs`: user key followed by big-endian `MaxUint64 - ts`. -/
def keyWithTs (key : Bytes) (ts : Nat) : Bytes := key ++ beBytes (maxU64 - ts) 8

/-- `y.ParseTs`: 0 for keys of length ≤ 8. -/
def parseTs (key : Bytes) : Nat :=
  if key.length ≤ 8 then 0 else maxU64 - beNat (key.drop (key.length - 8))

/-- `y.ParseKey`: `nil` (here `[]`) for keys shorter than 8. -/
def parseKey (key : Bytes) : Bytes :=
  if key.length < 8 then [] else key.take (key.length - 8)

/-- `y.CompareKeys` (callers guarantee `len ≥ 8`; Go panics otherwise). -/
def compareKeys (k1 k2 : Bytes) : Ordering :=
  match cmpBytes (k1.take (k1.length - 8)) (k2.take (k2.length - 8)) with
  | .eq => cmpBytes (k1.drop (k1.length - 8)) (k2.drop (k2.length - 8))
  | o => o

/-- `y.SameKey`. -/
def sameKey (a b : Bytes) : Bool :=
  if a.length != b.length then false else parseKey a == parseKey b

end Badger
