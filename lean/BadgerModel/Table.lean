import BadgerModel.Block
/-!
# SSTables (`table/builder.go`, `table/table.go`, `table/iterator.go`)

`Builder` (`Add` / `addInternal` / `addHelper` / `finishBlock` / `Done`), the opened `Table`
(`block(idx)`: read, decrypt, decompress, parse the block tail, checksum by `ChkMode`), the
table `Iterator` (`seekToFirst/Last`, `seekFrom`, `seek`, `seekForPrev`, `next`, `prev`, and the
`REVERSED` flag semantics of `Seek/Next/Rewind`) and `ConcatIterator`.

What is abstract:
* `Env`: block checksum (`pb.Checksum` protobuf of CRC32C — a concrete instance is in
  `Driver/Table.lean`), compression and encryption as per-block functions with partial inverses,
  the bloom filter (`y.NewFilter` / `MayContain`) and the key hash `y.Hash`.
* The flatbuffers `TableIndex` and the file trailer `index ++ len ++ checksum ++ len` are a
  record (`TableIndex`), not bytes.
-/
namespace Badger.Tbl
open Badger

/-- Abstract library functions. `enc` takes the block number (the random IV differs per block). -/
structure Env where
  cksum : Bytes → Bytes
  verify : Bytes → Bytes → Bool
  comp : Bytes → Bytes
  decomp : Bytes → Option Bytes
  enc : Nat → Bytes → Bytes
  dec : Bytes → Option Bytes
  hash : Bytes → Nat
  mkFilter : List Nat → Bytes
  mayContain : Bytes → Nat → Bool

/-- The laws the theorems need (`C18_roundtrip_codec`: any codec pair satisfying them). -/
structure Env.Lawful (env : Env) : Prop where
  verify_cksum : ∀ d, env.verify d (env.cksum d) = true
  decomp_comp : ∀ b, env.decomp (env.comp b) = some b
  dec_enc : ∀ i b, env.dec (env.enc i b) = some b
  /-- the IV (`aes.BlockSize` bytes) is appended to every encrypted block -/
  enc_len : ∀ i b, 16 ≤ (env.enc i b).length

/-- `table.Options`, the fields that matter. `chkMode`: 0 NoVerification, 1 OnTableRead,
    2 OnBlockRead, 3 OnTableAndBlockRead. -/
structure Opts where
  blockSize : Nat
  compress : Bool := false
  encrypt : Bool := false
  bloom : Bool := false
  chkMode : Nat := 0
deriving Repr, DecidableEq

structure BlockOffset where
  key : Bytes
  offset : Nat
  len : Nat
deriving Repr, DecidableEq

/-- `fb.TableIndex`. `onDiskSize` is the value *before* `MutateOnDiskSize` adds `len(index)`. -/
structure TableIndex where
  offsets : List BlockOffset
  bloom : Bytes
  maxVersion : Nat
  keyCount : Nat
  uncompressedSize : Nat
  onDiskSize : Nat
  staleDataSize : Nat
deriving Repr, DecidableEq

/-- A built table: the block region of the file and the index. -/
structure TableFile where
  data : Bytes
  index : TableIndex
deriving Repr, DecidableEq

/-! ## Builder -/

structure Builder where
  cur : BBlock := {}
  /-- finished blocks, uncompressed and unencrypted, in order -/
  blockList : List (BBlock × Bytes) := []
  keyHashes : List Nat := []
  maxVersion : Nat := 0
  onDiskSize : Nat := 0
  staleDataSize : Nat := 0
  lenOffsets : Nat := 0
  uncompressedSize : Nat := 0
deriving Repr

/-- `finishBlock` (the hand-over to the compression goroutines is in `done`). -/
def Builder.finishBlock (env : Env) (b : Builder) : Builder :=
  if b.cur.entryOffsets.length = 0 then b
  else
    let bytes := b.cur.finish env.cksum
    { b with
      blockList := b.blockList ++ [(b.cur, bytes)]
      uncompressedSize := u32 (b.uncompressedSize + u32 bytes.length)
      lenOffsets := u32 (b.lenOffsets + u32 ((b.cur.baseKey.length + 3) / 4 * 4) + 40) }

/-- `addHelper`. -/
def Builder.addHelper (env : Env) (b : Builder) (key : Bytes) (v : VS) (vpLen : Nat) : Option Builder :=
  let version := parseTs key
  match b.cur.addEntry key v with
  | none => none
  | some cur =>
    some { b with
      keyHashes := b.keyHashes ++ [env.hash (parseKey key)]
      maxVersion := if version > b.maxVersion then version else b.maxVersion
      cur := cur
      onDiskSize := u32 (b.onDiskSize + vpLen) }

/-- `addInternal` (`Add` is `isStale = false`, `AddStaleKey` is `isStale = true`). -/
def Builder.add (env : Env) (o : Opts) (b : Builder) (key : Bytes) (v : VS) (vpLen : Nat)
    (isStale : Bool := false) : Option Builder :=
  let b := if isStale then { b with staleDataSize := b.staleDataSize + (key.length + v.value.length + 4 + 4) } else b
  match shouldFinishBlock o.blockSize o.encrypt b.cur key v with
  | none => none
  | some true =>
    let b := if isStale then { b with staleDataSize := b.staleDataSize + (key.length + 4 + 4) } else b
    let b := b.finishBlock env
    ({ b with cur := {} } : Builder).addHelper env key v vpLen
  | some false => b.addHelper env key v vpLen

def Builder.addAll (env : Env) (o : Opts) (b : Builder) : List Entry → Option Builder
  | [] => some b
  | e :: es =>
    match b.add env o e.key e.vs 0 with
    | none => none
    | some b' => Builder.addAll env o b' es

/-- `handleBlock`: compress, then encrypt (IV appended — inside the abstract `enc`). -/
def storeBlock (env : Env) (o : Opts) (i : Nat) (bytes : Bytes) : Bytes :=
  let x := if o.compress then env.comp bytes else bytes
  if o.encrypt then env.enc i x else x

/-- `writeBlockOffsets`: offsets are running `uint32` sums of the stored block lengths. -/
def blockOffsets : Nat → List (Bytes × Bytes) → List BlockOffset
  | _, [] => []
  | start, (baseKey, stored) :: rest =>
    ⟨baseKey, start, u32 stored.length⟩ :: blockOffsets (u32 (start + u32 stored.length)) rest

def storeAll (env : Env) (o : Opts) : Nat → List (BBlock × Bytes) → List (Bytes × Bytes)
  | _, [] => []
  | i, (bb, bytes) :: rest => (bb.baseKey, storeBlock env o i bytes) :: storeAll env o (i + 1) rest

def dataSizeOf : Nat → List (Bytes × Bytes) → Nat
  | start, [] => start
  | start, (_, stored) :: rest => dataSizeOf (u32 (start + u32 stored.length)) rest

/-- `Done` / `Finish`; `none` = no block at all (`buildData{}`, an empty file). -/
def Builder.done (env : Env) (o : Opts) (b : Builder) : Option TableFile :=
  let b := b.finishBlock env
  if b.blockList.length = 0 then none
  else
    let stored := storeAll env o 0 b.blockList
    let bloom := if o.bloom then env.mkFilter b.keyHashes else []
    some
      { data := (stored.map (·.2)).flatten
        index :=
          { offsets := blockOffsets 0 stored
            bloom := bloom
            maxVersion := b.maxVersion
            keyCount := u32 b.keyHashes.length
            uncompressedSize := b.uncompressedSize
            onDiskSize := u32 (b.onDiskSize + dataSizeOf 0 stored)
            staleDataSize := u32 b.staleDataSize } }

/-- `NewTableBuilder` + `Add`* ; `none` = a builder assert fired. -/
def buildTable (env : Env) (o : Opts) (es : List Entry) : Option (Option TableFile) :=
  match Builder.addAll env o {} es with
  | none => none
  | some b => some (b.done env o)

/-! ## Opened table -/

inductive BlkRes where
  | ok (b : PBlock)
  | err (msg : String)
  | panic
deriving Repr, DecidableEq

/-- The part of `Table` that `block` needs (before smallest/biggest are known). -/
structure TableCore where
  o : Opts
  file : TableFile
deriving Repr

def TableCore.offsetsLength (t : TableCore) : Nat := t.file.index.offsets.length

/-- Block tail parsing in `Table.block` after decryption/decompression. -/
def parseBlock (chk : Bool) (verify : Bytes → Bytes → Bool) (d : Bytes) : BlkRes :=
  if d.length < 4 then .panic
  else
    let readPos := d.length - 4
    let chkLen := beNat (d.drop readPos)
    if chkLen > d.length then .err "invalid checksum length"
    else if readPos < chkLen then .panic
    else
      let readPos := readPos - chkLen
      let checksum := (d.take (readPos + chkLen)).drop readPos
      if readPos < 4 then .panic
      else
        let readPos := readPos - 4
        let numEntries := beNat ((d.take (readPos + 4)).drop readPos)
        if readPos < numEntries * 4 then .panic
        else
          let entriesIndexStart := readPos - numEntries * 4
          let entryOffsets := bytesToU32s ((d.take readPos).drop entriesIndexStart)
          let data := d.take (readPos + 4)
          if chk && !verify data checksum then .err "checksum mismatch"
          else .ok ⟨data, checksum, entriesIndexStart, entryOffsets⟩

/-- `Table.block(idx)` without the block cache. `idx < 0`: `y.AssertTruef` exits. -/
def TableCore.block (env : Env) (t : TableCore) (idx : Int) : BlkRes :=
  if idx < 0 then .panic
  else if idx.toNat ≥ t.offsetsLength then .err "block out of index"
  else
    match t.file.index.offsets[idx.toNat]? with
    | none => .panic
    | some ko =>
      -- MmapFile.Bytes(off, sz)
      if ko.offset > t.file.data.length then .panic
      else if t.file.data.length - ko.offset < ko.len then .err "EOF"
      else
        let raw := (t.file.data.drop ko.offset).take ko.len
        let dec? : Option (Option Bytes) :=
          if t.o.encrypt then (if raw.length < 16 then none else some (env.dec raw)) else some (some raw)
        match dec? with
        | none => .panic
        | some none => .err "decrypt"
        | some (some d1) =>
          let d2? := if t.o.compress then env.decomp d1 else some d1
          match d2? with
          | none => .err "failed to decompress"
          | some d2 => parseBlock (t.o.chkMode == 2 || t.o.chkMode == 3) env.verify d2

/-! ## Table iterator -/

structure TIter where
  bpos : Int := 0
  bi : BlockIter := {}
  err : Option Err := none
  reversed : Bool := false
deriving Repr, DecidableEq

def TIter.valid (it : TIter) : Bool := it.err.isNone
def TIter.key (it : TIter) : Bytes := it.bi.key
def TIter.val (it : TIter) : Bytes := it.bi.val

/-- The common sequence `block, err := t.block(bpos); if err … ; bi.setBlock(block); bi.<op>();
    itr.err = bi.Error()` of `seekToFirst`, `seekToLast`, `seekHelper`, `next`, `prev`. -/
def TIter.load (env : Env) (t : TableCore) (it : TIter) (op : BlockIter → Option BlockIter) :
    Option TIter :=
  match t.block env it.bpos with
  | .panic => none
  | .err m => some { it with err := some (.io m) }
  | .ok b =>
    (it.bi.setBlock b).bind fun bi =>
    (op bi).bind fun bi =>
    some { it with bi := bi, err := bi.err }

def TIter.seekToFirst (env : Env) (t : TableCore) (it : TIter) : Option TIter :=
  if t.offsetsLength = 0 then some { it with err := some .eof }
  else ({ it with bpos := 0 } : TIter).load env t BlockIter.seekToFirst

def TIter.seekToLast (env : Env) (t : TableCore) (it : TIter) : Option TIter :=
  if t.offsetsLength = 0 then some { it with err := some .eof }
  else ({ it with bpos := (t.offsetsLength : Int) - 1 } : TIter).load env t BlockIter.seekToLast

def TIter.seekHelper (env : Env) (t : TableCore) (it : TIter) (blockIdx : Int) (key : Bytes) :
    Option TIter :=
  ({ it with bpos := blockIdx } : TIter).load env t (fun bi => bi.seek key false)

/-- `seekFrom(key, whence)`; `current = false` is `origin` (`itr.reset()`). -/
def TIter.seekFrom (env : Env) (t : TableCore) (it : TIter) (key : Bytes) (current : Bool := false) :
    Option TIter :=
  let it := { it with err := none }
  let it := if current then it else { it with bpos := 0, err := none }
  (searchM (fun idx (u : Unit) =>
      match t.file.index.offsets[idx]? with
      | none => none
      | some ko => (compareKeysP ko.key key).bind fun o => some (o == .gt, u))
    0 t.offsetsLength ()).bind fun (idx, _) =>
  if idx = 0 then it.seekHelper env t 0 key
  else
    (it.seekHelper env t ((idx : Int) - 1) key).bind fun it =>
    if it.err = some .eof then
      if idx = t.offsetsLength then some it
      else it.seekHelper env t idx key
    else some it

def TIter.seek (env : Env) (t : TableCore) (it : TIter) (key : Bytes) : Option TIter :=
  it.seekFrom env t key false

/-- The re-entry of `next()` after `itr.bpos++; itr.bi.data = nil`: the recursive call takes
    either the EOF branch or the `len(itr.bi.data) == 0` branch. -/
def TIter.nextReenter (env : Env) (t : TableCore) (it : TIter) : Option TIter :=
  let it := { it with err := none }
  if it.bpos ≥ (t.offsetsLength : Int) then some { it with err := some .eof }
  else it.load env t BlockIter.seekToFirst

def TIter.next (env : Env) (t : TableCore) (it : TIter) : Option TIter :=
  let it := { it with err := none }
  if it.bpos ≥ (t.offsetsLength : Int) then some { it with err := some .eof }
  else if it.bi.data.length = 0 then it.load env t BlockIter.seekToFirst
  else
    it.bi.next.bind fun bi =>
    let it := { it with bi := bi }
    if !bi.valid then
      ({ it with bpos := it.bpos + 1, bi := { bi with data := [] } } : TIter).nextReenter env t
    else some it

def TIter.prevReenter (env : Env) (t : TableCore) (it : TIter) : Option TIter :=
  let it := { it with err := none }
  if it.bpos < 0 then some { it with err := some .eof }
  else it.load env t BlockIter.seekToLast

def TIter.prev (env : Env) (t : TableCore) (it : TIter) : Option TIter :=
  let it := { it with err := none }
  if it.bpos < 0 then some { it with err := some .eof }
  else if it.bi.data.length = 0 then it.load env t BlockIter.seekToLast
  else
    it.bi.prev.bind fun bi =>
    let it := { it with bi := bi }
    if !bi.valid then
      ({ it with bpos := it.bpos - 1, bi := { bi with data := [] } } : TIter).prevReenter env t
    else some it

def TIter.seekForPrev (env : Env) (t : TableCore) (it : TIter) (key : Bytes) : Option TIter :=
  (it.seekFrom env t key false).bind fun it =>
  if it.key ≠ key then it.prev env t else some it

/-- `Iterator.Next` -/
def TIter.apiNext (env : Env) (t : TableCore) (it : TIter) : Option TIter :=
  if !it.reversed then it.next env t else it.prev env t

/-- `Iterator.Rewind` -/
def TIter.apiRewind (env : Env) (t : TableCore) (it : TIter) : Option TIter :=
  if !it.reversed then it.seekToFirst env t else it.seekToLast env t

/-- `Iterator.Seek` -/
def TIter.apiSeek (env : Env) (t : TableCore) (it : TIter) (key : Bytes) : Option TIter :=
  if !it.reversed then it.seek env t key else it.seekForPrev env t key

/-- `for ; it.Valid(); step(it)` collecting the decoded entries (`Key()`, `Value()`), at most
    `fuel` of them. `none` = a panic (in `step` or in `ValueStruct.Decode`). -/
def TIter.scan (step : TIter → Option TIter) : Nat → TIter → Option (List Entry)
  | 0, _ => some []
  | fuel + 1, it =>
    if it.valid then
      (decodeVS it.val).bind fun v =>
      (step it).bind fun it' =>
      (TIter.scan step fuel it').bind fun rest => some (⟨it.key, v⟩ :: rest)
    else some []

/-- `it := t.NewIterator(opt); for it.Rewind(); it.Valid(); it.Next() { … }` -/
def TableCore.entries (env : Env) (t : TableCore) (reversed : Bool) (fuel : Nat) : Option (List Entry) :=
  (({ reversed := reversed } : TIter).apiRewind env t).bind
    (TIter.scan (fun it => it.apiNext env t) fuel)

/-- The entry under the iterator (`Key()`, `Value()`), `none` when it is not valid. -/
def TIter.entry? (it : TIter) : Option Entry :=
  if it.valid then (decodeVS it.val).map fun v => ⟨it.key, v⟩ else none

/-! ## `OpenTable` / `OpenInMemoryTable` -/

structure Table where
  core : TableCore
  smallest : Bytes
  biggest : Bytes
deriving Repr

inductive OpenRes where
  | ok (t : Table)
  | err (msg : String)
  | panic
deriving Repr

/-- `VerifyChecksum`: every block is read (`t.block`) and, unless `block` already verified it,
    its checksum is verified. `none` = panic, `some false` = an error is returned.
    As coded, an error from `t.block` is wrapped with `b.offset` where `b` is the nil block:
    a nil dereference, i.e. a panic rather than an error return. -/
def TableCore.verifyChecksum (env : Env) (t : TableCore) : Option Bool :=
  let rec go : Nat → Nat → Option Bool
    | 0, _ => some true
    | fuel + 1, i =>
      if i ≥ t.offsetsLength then some true
      else
        match t.block env i with
        | .panic => none
        | .err _ => none
        | .ok b =>
          if !(t.o.chkMode == 2 || t.o.chkMode == 3) && !env.verify b.data b.checksum then some false
          else go fuel (i + 1)
  go t.offsetsLength 0

/-- `initBiggestAndSmallest` followed by the `ChkMode` test of `OpenTable`
    (`inMemory = true`: `OpenInMemoryTable` does not verify). -/
def openTable (env : Env) (o : Opts) (f : TableFile) (inMemory : Bool := true) : OpenRes :=
  let t : TableCore := ⟨o, f⟩
  match f.index.offsets[0]? with
  | none => .panic   -- y.AssertTrue(index.Offsets(&bo, 0))
  | some ko =>
    match ({ reversed := true } : TIter).apiRewind env t with
    | none => .panic
    | some it2 =>
      if !it2.valid then .err "failed to initialize biggest"
      else
        let tbl : Table := ⟨t, ko.key, it2.key⟩
        if !inMemory && (o.chkMode == 1 || o.chkMode == 3) then
          match t.verifyChecksum env with
          | none => .panic
          | some false => .err "failed to verify checksum"
          | some true => .ok tbl
        else .ok tbl

def Table.hasBloomFilter (t : Table) : Bool := t.core.file.index.bloom.length > 0

/-- `DoesNotHave(hash)`. -/
def Table.doesNotHave (env : Env) (t : Table) (h : Nat) : Bool :=
  if !t.hasBloomFilter then false else !env.mayContain t.core.file.index.bloom h

def Table.maxVersion (t : Table) : Nat := t.core.file.index.maxVersion
def Table.keyCount (t : Table) : Nat := t.core.file.index.keyCount

/-! ## ConcatIterator -/

structure CIter where
  idx : Int := -1
  /-- `cur == nil`; otherwise `cur` is `iters[idx]` (the same pointer) -/
  curNil : Bool := true
  iters : List (Option TIter)
  reversed : Bool := false
deriving Repr, DecidableEq

def newConcat (tables : List Table) (reversed : Bool) : CIter :=
  { iters := tables.map (fun _ => none), reversed := reversed }

def CIter.setIdx (s : CIter) (idx : Int) : CIter :=
  let s := { s with idx := idx }
  if idx < 0 ∨ idx ≥ s.iters.length then { s with curNil := true }
  else
    let n := idx.toNat
    let s := match s.iters.getD n none with
      | none => { s with iters := s.iters.set n (some { reversed := s.reversed }) }
      | some _ => s
    { s with curNil := false }

def CIter.cur (s : CIter) : Option TIter :=
  if s.curNil then none else (s.iters.getD s.idx.toNat none)

def CIter.setCur (s : CIter) (it : TIter) : CIter :=
  { s with iters := s.iters.set s.idx.toNat (some it) }

def CIter.valid (s : CIter) : Bool :=
  match s.cur with
  | none => false
  | some it => it.valid

/-- `cur.<op>()` on the current table; `none` = nil dereference or a panic below. -/
def CIter.onCur (tables : List Table) (s : CIter)
    (op : TableCore → TIter → Option TIter) : Option CIter :=
  match s.cur, tables[s.idx.toNat]? with
  | some it, some t => (op t.core it).bind fun it' => some (s.setCur it')
  | _, _ => none

def CIter.rewind (env : Env) (tables : List Table) (s : CIter) : Option CIter :=
  if s.iters.length = 0 then some s
  else
    let s := if !s.reversed then s.setIdx 0 else s.setIdx ((s.iters.length : Int) - 1)
    s.onCur tables (fun t it => it.apiRewind env t)

def CIter.seek (env : Env) (tables : List Table) (s : CIter) (key : Bytes) : Option CIter :=
  let n := tables.length
  let idx? : Option Int :=
    if !s.reversed then
      (searchM (fun i (u : Unit) =>
          match tables[i]? with
          | none => none
          | some t => (compareKeysP t.biggest key).bind fun o => some (o != .lt, u))
        0 n ()).bind fun (i, _) => some (i : Int)
    else
      (searchM (fun i (u : Unit) =>
          match tables[n - 1 - i]? with
          | none => none
          | some t => (compareKeysP t.smallest key).bind fun o => some (o != .gt, u))
        0 n ()).bind fun (i, _) => some ((n : Int) - 1 - i)
  idx?.bind fun idx =>
  if idx ≥ n ∨ idx < 0 then some (s.setIdx (-1))
  else (s.setIdx idx).onCur tables (fun t it => it.apiSeek env t key)

/-- The `for` loop of `ConcatIterator.Next` (fuel = number of tables + 1 suffices: `idx`
    moves monotonically). -/
def CIter.nextLoop (env : Env) (tables : List Table) : Nat → CIter → Option CIter
  | 0, s => some s
  | fuel + 1, s =>
    let s := if !s.reversed then s.setIdx (s.idx + 1) else s.setIdx (s.idx - 1)
    if s.curNil then some s
    else
      (s.onCur tables (fun t it => it.apiRewind env t)).bind fun s =>
      if s.valid then some s else CIter.nextLoop env tables fuel s

def CIter.next (env : Env) (tables : List Table) (s : CIter) : Option CIter :=
  (s.onCur tables (fun t it => it.apiNext env t)).bind fun s =>
  if s.valid then some s else CIter.nextLoop env tables (tables.length + 1) s

def CIter.key (s : CIter) : Option Bytes := s.cur.map (·.key)
def CIter.val (s : CIter) : Option Bytes := s.cur.map (·.val)

/-- `for ; s.Valid(); s.Next()` over a `ConcatIterator`, collecting decoded entries. -/
def CIter.scan (env : Env) (tables : List Table) : Nat → CIter → Option (List Entry)
  | 0, _ => some []
  | fuel + 1, s =>
    if s.valid then
      match s.cur with
      | none => none
      | some it =>
        (decodeVS it.val).bind fun v =>
        (s.next env tables).bind fun s' =>
        (CIter.scan env tables fuel s').bind fun rest => some (⟨it.key, v⟩ :: rest)
    else some []

/-- `it := NewConcatIterator(tables, opt); for it.Rewind(); it.Valid(); it.Next() { … }` -/
def concatEntries (env : Env) (tables : List Table) (reversed : Bool) (fuel : Nat) : Option (List Entry) :=
  ((newConcat tables reversed).rewind env tables).bind (CIter.scan env tables fuel)

/-- The entry under the concat iterator, `none` when it is not valid. -/
def CIter.entry? (s : CIter) : Option Entry :=
  match s.cur with
  | none => none
  | some it => it.entry?

end Badger.Tbl
