import BadgerModel.Recover
/-!
# The durability protocol: which `FsOp`s each logical step emits, in the code's order

A small-step machine. The *writer* thread (`DB.writeRequests`, and in this model also the
caller of `doCompact`) executes the atoms of its current logical step one at a time (`Sched.w`);
the *flusher* goroutine (`DB.flushMemtable`) executes the atoms of the flush of the oldest
immutable memtable (`Sched.f`). A history is a list of `Sched` items, so every interleaving of
the two threads at the granularity of one persistence event is a history, and every prefix of
a history (= every crash point between two events) is again a history.

One atom = one persistence event of the real code (one `vevent` call site, see
`/repo/verif_on.go`) = one or two system calls:

| logical step | atoms, in order (db.go / value.go / memtable.go / levels.go) |
|---|---|
| commit | `valueLog.write`: one store per value ≥ threshold; if `numEntriesWritten` exceeds `ValueLogMaxEntries`: `doneWriting` (msync when SyncWrites, ftruncate) and `createVlogFile` (create+extend, header, zero); msync of the current vlog when SyncWrites. `ensureRoomForWrite`: if the memtable is full, push it to `imm`/`flushChan` and create the next `.mem` (create+extend, header, zero). `writeToLSM`: per entry store + zeroNextEntry, the end-of-transaction record, msync when SyncWrites. Then the commit is acknowledged. |
| flush (flusher) | `CreateTable`: create+extend `.sst`, store, msync; (**no directory fsync** — finding F4; the variant `Cfg.dirSyncFix` inserts it); MANIFEST append, fsync; `mt.DecrRef` ⇒ `wal.Delete` = ftruncate(0) + unlink |
| compaction | per output table create+extend, store, msync; `syncDir`; MANIFEST append (creates + deletes), fsync; per input table ftruncate(0) + unlink |

`create p; extend p` and `truncate p 0; unlink p` are two system calls inside one library call
(`z.OpenMmapFile`, `z.MmapFile.Delete`): one atom, but two crash points at the syscall level
(`C08`'s finding F17 lives in between).
-/
namespace Badger

structure Txn where
  ts : Nat
  ents : List CEnt
  deriving DecidableEq, Repr, Inhabited

structure Cfg where
  syncWrites : Bool := true
  vlogMaxEntries : Nat := 1000
  /-- the intended fix for F4: fsync the directory after creating a `.mem` / `.vlog` file and
      before the MANIFEST record of a flushed table -/
  dirSyncFix : Bool := false
  deriving DecidableEq, Repr, Inhabited

/-- one persistence event of the writer thread, with its effect on the logical state -/
inductive Atom
  | io (ops : List FsOp)            -- no effect on the logical state
  | pushImm                         -- `flushChan <- mt; imm = append(imm, mt)` (no FsOp)
  | newMem                          -- `newMemTable`: create+extend the next `.mem`
  | fin (t : Txn)                   -- the end-of-transaction record of `t` reaches the WAL
  | ack                             -- `Commit` returns nil (no FsOp)
  | vput (key : Bytes) (ver : Nat)  -- one value-log record
  | vrot                            -- `createVlogFile`: create+extend the next `.vlog`
  | mset (cs : List MChange) (conts : List (Nat × List CEnt))  -- MANIFEST change set of a compaction
  deriving Repr

structure PState where
  cfg : Cfg := {}
  nextTs : Nat := 1                       -- oracle.nextTxnTs
  cur : Nat := 1                          -- fid of the active memtable's WAL
  curOpen : Bool := true                  -- false between `pushImm` and `newMem`
  nextMem : Nat := 2
  imm : List Nat := []                    -- immutable memtables (fids), oldest first
  mtxns : List (Nat × List Txn) := []     -- fid ↦ complete transactions in that WAL
  fpc : Nat := 0                          -- flusher: next atom of the flush of `imm.head`
  fsst : Nat := 0                         -- flusher: table id reserved for it
  nextSst : Nat := 1
  tset : List (Nat × Nat) := []           -- MANIFEST: table id ↦ level
  tcont : List (Nat × List CEnt) := []    -- table id ↦ content
  vfid : Nat := 1
  vcount : Nat := 0                       -- valueLog.numEntriesWritten
  vchunks : Nat := 1                      -- chunks in the current vlog file (header included)
  wq : List Atom := []                    -- rest of the writer's current logical step
  commits : List Txn := []                -- ghost: issued commits in commit order
  done : Nat := 0                         -- ghost: commits whose end marker is in a WAL
  acked : Nat := 0                        -- ghost: commits acknowledged to the caller
  deriving Repr, Inhabited

def PState.memTxns (s : PState) (fid : Nat) : List Txn := (aget fid s.mtxns).getD []
def txnsEnts (ts : List Txn) : List CEnt := (ts.map (·.ents)).flatten
def PState.memEnts (s : PState) (fid : Nat) : List CEnt := txnsEnts (s.memTxns fid)
def PState.tableEnts (s : PState) (id : Nat) : List CEnt := (aget id s.tcont).getD []

/-- everything stored, in the order tables, immutable memtables, active memtable -/
def PState.lsmEnts (s : PState) : List CEnt :=
  (s.tset.map (fun x => s.tableEnts x.1)).flatten ++ (s.imm.map s.memEnts).flatten ++ s.memEnts s.cur

def syncDirIfFix (c : Cfg) : List FsOp := if c.dirSyncFix then [.syncDir] else []

/-- the `FsOp`s of one writer atom in state `s` -/
def Atom.ops (s : PState) : Atom → List FsOp
  | .io ops => ops
  | .pushImm => []
  | .newMem => mkFile (.mem s.nextMem)
  | .fin t => [.append (.mem s.cur) (.walFin t.ts)]
  | .ack => []
  | .vput k v => [.append (.vlog s.vfid) (.vEnt k v)]
  | .vrot => mkFile (.vlog (s.vfid + 1))
  | .mset cs _ => [.append .manifest (.mset cs)]

def Atom.eff (s : PState) : Atom → PState
  | .io _ => s
  | .pushImm => { s with imm := s.imm ++ [s.cur], curOpen := false }
  | .newMem => { s with cur := s.nextMem, curOpen := true, nextMem := s.nextMem + 1 }
  | .fin t => { s with mtxns := aset s.cur (s.memTxns s.cur ++ [t]) s.mtxns, done := s.done + 1 }
  | .ack => { s with acked := s.acked + 1 }
  | .vput _ _ => { s with vcount := s.vcount + 1, vchunks := s.vchunks + 1 }
  | .vrot => { s with vfid := s.vfid + 1, vcount := 0, vchunks := 1 }
  | .mset cs conts =>
    { s with tset := (applyMSet s.tset cs).getD s.tset,
             tcont := conts ++ s.tcont }

/-! ## programs of the logical steps -/

/-- `valueLog.write` for one request holding the transaction `t` -/
def vlogProg (s : PState) (t : Txn) : List Atom :=
  let bigs := t.ents.filter (fun e => e.vfid ≠ 0)
  let puts := bigs.map (fun e => Atom.vput e.key e.ver)
  let n := s.vcount + bigs.length
  let rot : List Atom :=
    if n > s.cfg.vlogMaxEntries then
      (if s.cfg.syncWrites then [Atom.io [.sync (.vlog s.vfid)]] else []) ++
      (if bigs.isEmpty then [] else [Atom.io [.truncate (.vlog s.vfid) (s.vchunks + bigs.length)]]) ++
      [Atom.vrot, .io [.append (.vlog (s.vfid + 1)) .hdr], .io [.zero (.vlog (s.vfid + 1))]] ++
      (if s.cfg.dirSyncFix then [Atom.io [.syncDir]] else [])
    else []
  let fidAfter := if n > s.cfg.vlogMaxEntries then s.vfid + 1 else s.vfid
  puts ++ rot ++ (if s.cfg.syncWrites then [Atom.io [.sync (.vlog fidAfter)]] else [])

/-- `ensureRoomForWrite` when the memtable is full -/
def rotateProg (s : PState) : List Atom :=
  [.pushImm, .newMem, .io [.append (.mem s.nextMem) .hdr], .io [.zero (.mem s.nextMem)]] ++
  (if s.cfg.dirSyncFix then [Atom.io [.syncDir]] else [])

/-- `writeToLSM` -/
def walProg (s : PState) (fid : Nat) (t : Txn) : List Atom :=
  (t.ents.map (fun e => [Atom.io [.append (.mem fid) (.walEnt t.ts e)], Atom.io [.zero (.mem fid)]])).flatten ++
  [.fin t, .io [.zero (.mem fid)]] ++
  (if s.cfg.syncWrites then [Atom.io [.sync (.mem fid)]] else []) ++ [.ack]

/-- the entries of a commit as stored: version = commit timestamp; a value at or above the
    threshold (`big`) goes to the current value-log file -/
def stamp (s : PState) (ents : List CEnt) : List CEnt :=
  ents.map (fun e => { e with ver := s.nextTs, vfid := if e.vfid ≠ 0 then s.vfid else 0 })

def commitProg (s : PState) (ents : List CEnt) (rot : Bool) : List Atom :=
  let t : Txn := { ts := s.nextTs, ents := stamp s ents }
  vlogProg s t ++ (if rot then rotateProg s else []) ++ walProg s (if rot then s.nextMem else s.cur) t

def compactProg (s : PState) (ins : List Nat) (outs : List (Nat × List CEnt)) : List Atom :=
  let ids := (List.range outs.length).map (· + s.nextSst)
  let mk := ((ids.zip outs).map (fun (id, o) =>
    [Atom.io (mkFile (.sst id)), Atom.io [.append (.sst id) (.table o.2)], Atom.io [.sync (.sst id)]])).flatten
  let cs := (ids.zip outs).map (fun (id, o) => MChange.create id o.1) ++ ins.map MChange.delete
  mk ++ [.io [.syncDir], .mset cs ((ids.zip outs).map (fun (id, o) => (id, o.2))), .io [.sync .manifest]] ++
  ins.map (fun id => Atom.io (delFile (.sst id)))

/-! ## scheduler -/

inductive Sched
  | commit (ents : List CEnt) (rot : Bool)   -- `Txn.Commit` (rot: the memtable was found full)
  | flushReq                                 -- rotate the memtable on request (`VerifFlush`)
  | compact (ins : List Nat) (outs : List (Nat × List CEnt))  -- level and content of each output
  | w                                        -- the writer executes its next atom
  | f                                        -- the flusher executes its next atom
  deriving Repr

def nodupNat : List Nat → Bool
  | [] => true
  | x :: xs => !xs.contains x && nodupNat xs

/-- the flusher's next atom: `(FsOps, next state)`, `none` when it has nothing to do -/
def flushAtom (s : PState) : Option (List FsOp × PState) :=
  match s.imm with
  | [] => none
  | k :: rest =>
    let es := s.memEnts k
    if es.isEmpty then
      -- `builder.Empty()`: no table; the memtable is dropped and its WAL deleted
      some (delFile (.mem k), { s with imm := rest, fpc := 0 })
    else
    match s.fpc with
    | 0 => some (mkFile (.sst s.nextSst), { s with fpc := 1, fsst := s.nextSst, nextSst := s.nextSst + 1 })
    | 1 => some ([.append (.sst s.fsst) (.table es)], { s with fpc := 2 })
    | 2 => some ([.sync (.sst s.fsst)], { s with fpc := if s.cfg.dirSyncFix then 3 else 4 })
    | 3 => some ([.syncDir], { s with fpc := 4 })
    | 4 => some ([.append .manifest (.mset [.create s.fsst 0])],
                 { s with fpc := 5, tset := aset s.fsst 0 s.tset, tcont := (s.fsst, es) :: s.tcont })
    | 5 => some ([.sync .manifest], { s with fpc := 6 })
    | _ => some (delFile (.mem k), { s with imm := rest, fpc := 0 })

/-- one scheduler step: the `FsOp`s emitted (one atom) and the next state. Steps that are not
    enabled (writer busy, ill-formed compaction, …) do nothing. -/
def PState.step (s : PState) : Sched → List FsOp × PState
  | .commit ents rot =>
    if s.wq.isEmpty ∧ s.curOpen ∧ !ents.isEmpty then
      let t : Txn := { ts := s.nextTs, ents := stamp s ents }
      ([], { s with wq := commitProg s ents rot, nextTs := s.nextTs + 1, commits := s.commits ++ [t] })
    else ([], s)
  | .flushReq =>
    if s.wq.isEmpty ∧ s.curOpen then ([], { s with wq := rotateProg s }) else ([], s)
  | .compact ins outs =>
    if s.wq.isEmpty ∧ nodupNat ins ∧ ins.all (fun id => (aget id s.tset).isSome) ∧ !ins.isEmpty then
      ([], { s with wq := compactProg s ins outs, nextSst := s.nextSst + outs.length })
    else ([], s)
  | .w =>
    match s.wq with
    | [] => ([], s)
    | a :: rest => (a.ops s, { a.eff s with wq := rest })
  | .f =>
    match flushAtom s with
    | some (ops, s') => (ops, s')
    | none => ([], s)

/-- machine state: logical state + file system -/
structure MState where
  p : PState := {}
  fs : Fs := {}
  deriving Repr, Inhabited

def MState.step (m : MState) (x : Sched) : MState :=
  let (ops, p') := m.p.step x
  { p := p', fs := m.fs.run ops }

def MState.exec (m : MState) (h : List Sched) : MState := h.foldl MState.step m

/-- all `FsOp`s a history emits from logical state `p`, atom by atom -/
def PState.atoms : PState → List Sched → List (List FsOp)
  | _, [] => []
  | p, x :: h => (p.step x).1 :: PState.atoms (p.step x).2 h

def PState.execP (p : PState) (h : List Sched) : PState := h.foldl (fun p x => (p.step x).2) p

/-- the `FsOp`s of the very first `Open` of an empty directory -/
def firstOpenOps : List FsOp :=
  match recover false [] with
  | .ok r => r.ops
  | .error _ => []

/-- the machine after the first `Open` of an empty directory -/
def MState.init (c : Cfg) : MState :=
  { p := { cfg := c }, fs := Fs.run {} firstOpenOps }

end Badger
