import BadgerModel.Recover
/-!
# The durability protocol: which `FsOp`s each logical step emits, in the code's order

A small-step machine. The *writer* thread (`DB.writeRequests`, and in this model also the
caller of `doCompact`) executes the atoms of its current logical step one at a time (`Sched.w`);
the *flusher* goroutine (`DB.flushMemtable`) executes the atoms of the flush of the oldest
immutable memtable (`Sched.f`). A history is a list of `Sched` items, so every interleaving of
the two threads at the granularity of one persistence event is a history, and every prefix of
a history (= every crash point between two events) is again a history.

One atom = one persistence event of the real code (one `vevent` call site, see
`/repo/verif_on.go`) = one or two system calls:

| logical step | atoms, in order (db.go / value.go / memtable.go / levels.go) |
|---|---|
| commit | `valueLog.write`: one store per value ≥ threshold; if `numEntriesWritten` exceeds `ValueLogMaxEntries`: `doneWriting` (msync when SyncWrites, ftruncate) and `createVlogFile` (create+extend, header, zero); msync of the current vlog when SyncWrites. `ensureRoomForWrite`: if the memtable is full, push it to `imm`/`flushChan` and create the next `.mem` (create+extend, header, zero). `writeToLSM`: per entry store + zeroNextEntry, the end-of-transaction record, msync when SyncWrites. Then the commit is acknowledged. |
| flush (flusher) | `CreateTable`: create+extend `.sst`, store, msync; directory fsync (the repair of finding F4; absent when `Cfg.dirSyncFix = false`); MANIFEST append, fsync; `mt.DecrRef` ⇒ `wal.Delete` = ftruncate(0) + unlink |
| compaction | per output table create+extend, store, msync; `syncDir`; MANIFEST append (creates + deletes), fsync; per input table ftruncate(0) + unlink |

`create p; extend p` and `truncate p 0; unlink p` are two system calls inside one library call
(`z.OpenMmapFile`, `z.MmapFile.Delete`): one atom, but two crash points at the syscall level
(`C08`'s finding F22 lives in between).

Every atom checks, on the logical state alone, the conditions under which the code executes it
(`Atom.guard`); an atom whose guard fails emits nothing. In the programs generated below the
guards always hold (the correspondence run would show a missing event otherwise); they make
every safety argument local to one atom.

For the power-loss argument (C10) the state carries durability bookkeeping, all of it ghost:
`curDirty` / `curDurEntry` (the active WAL has unsynced records / a directory entry that no fsync
of the directory has covered yet), `mdirty` / `tsetD` (the MANIFEST has an unsynced change set /
the table set as of its last fsync), `kdir` (a directory fsync has covered every compaction
output), `pendU` (WALs unlinked since the last directory fsync). The guards over them state the
order the code enforces: an acknowledgement (SyncWrites) follows the msync of the WAL, a MANIFEST
record follows the msync of the tables it names and a directory fsync, change sets are appended
and fsynced one at a time (`appendLock`), table ids are fresh (`tsetD` lists none of them).
-/
namespace Badger

structure Txn where
  ts : Nat
  ents : List CEnt
  deriving DecidableEq, Repr, Inhabited

structure Cfg where
  syncWrites : Bool := true
  vlogMaxEntries : Nat := 1000
  /-- the repair of F4 (`fix:` commit in /repo): fsync the directory right after a `.mem` /
      `.vlog` file has been created (`newMemTable`, `createVlogFile`) and between the msync of a
      flushed table and its MANIFEST record (`handleMemTableFlush`). `false` = the protocol
      before the repair, kept for the regression witnesses `C10_counterexample*`. -/
  dirSyncFix : Bool := true
  deriving DecidableEq, Repr, Inhabited

/-- one output table of a compaction in progress: id, level, content, stage
    (0 id reserved, 1 file created, 2 content written, 3 content msynced) -/
structure KOut where
  id : Nat
  level : Nat
  ents : List CEnt
  stage : Nat := 0
  deriving DecidableEq, Repr

/-- one persistence event of the writer thread -/
inductive Atom
  | sync (p : Path)                 -- msync / fsync
  | syncDir
  | zero (p : Path)                 -- zeroNextEntry
  | vput (key : Bytes) (ver : Nat)  -- one value-log record
  | vtrunc                          -- `doneWriting`: ftruncate the value log to its write offset
  | vrot                            -- `createVlogFile`: create+extend the next `.vlog`
  | vhdr                            -- `bootstrap` of the new `.vlog`
  | pushImm                         -- `flushChan <- mt; imm = append(imm, mt)` (no FsOp)
  | newMem                          -- `newMemTable`: create+extend the next `.mem`
  | mhdr                            -- `bootstrap` of the new `.mem`
  | wput (e : CEnt)                 -- one WAL record of the transaction in flight
  | fin                             -- its end-of-transaction record
  | ack                             -- `Commit` returns nil (no FsOp)
  | kmk (id : Nat)                  -- compaction: create+extend an output table
  | kwrite (id : Nat)               -- compaction: store its content
  | kmset                           -- compaction: MANIFEST change set (creates + deletes)
  | kdel (id : Nat)                 -- compaction: delete an input table
  deriving Repr, DecidableEq

structure PState where
  cfg : Cfg := {}
  nextTs : Nat := 1                       -- oracle.nextTxnTs
  cur : Nat := 1                          -- fid of the active memtable's WAL
  curOpen : Bool := true                  -- false between `pushImm` and `newMem`
  curHdr : Bool := true                   -- the active WAL has its header
  nextMem : Nat := 2
  imm : List Nat := []                    -- immutable memtables (fids), oldest first
  mtxns : List (Nat × List Txn) := []     -- fid ↦ complete transactions in that WAL
  inflight : Option Txn := none           -- the transaction being written
  pending : List CEnt := []               -- its entries already in the active WAL
  fpc : Nat := 0                          -- flusher: next atom of the flush of `imm.head`
  fsst : Nat := 0                         -- flusher: table id reserved for it
  nextSst : Nat := 1
  tset : List (Nat × Nat) := []           -- MANIFEST: table id ↦ level
  tcont : List (Nat × List CEnt) := []    -- table id ↦ content
  kins : List Nat := []                   -- compaction in progress: inputs
  kout : List KOut := []                  -- … outputs
  kdelq : List Nat := []                  -- … inputs still to be deleted
  vfid : Nat := 1
  vcount : Nat := 0                       -- valueLog.numEntriesWritten
  vchunks : Nat := 1                      -- chunks in the current vlog file (header included)
  curDirty : Bool := false                -- the active WAL has transaction records not yet msynced
  curDurEntry : Bool := true              -- a directory fsync has happened since the active WAL was created
  mdirty : Bool := false                  -- the MANIFEST has an appended change set not yet fsynced
  tsetD : List (Nat × Nat) := []          -- ghost: the table set as of the last MANIFEST fsync
  kdir : Bool := false                    -- a directory fsync has happened since the last output table was created
  pendU : List (Nat × Nat) := []          -- ghost: WALs unlinked since the last directory fsync (fid, table flushed to)
  wq : List Atom := []                    -- rest of the writer's current logical step
  commits : List Txn := []                -- ghost: issued commits in commit order
  done : Nat := 0                         -- ghost: commits whose end marker is in a WAL
  acked : Nat := 0                        -- ghost: commits acknowledged to the caller
  deriving Repr, Inhabited

def PState.memTxns (s : PState) (fid : Nat) : List Txn := (aget fid s.mtxns).getD []
def txnsEnts (ts : List Txn) : List CEnt := (ts.map (·.ents)).flatten
def PState.memEnts (s : PState) (fid : Nat) : List CEnt := txnsEnts (s.memTxns fid)
def PState.tableEnts (s : PState) (id : Nat) : List CEnt := (aget id s.tcont).getD []

/-- everything stored, in the order tables, immutable memtables, active memtable -/
def PState.lsmEnts (s : PState) : List CEnt :=
  (s.tset.map (fun x => s.tableEnts x.1)).flatten ++ (s.imm.map s.memEnts).flatten ++
    (if s.curOpen then s.memEnts s.cur else [])

def nodupNat : List Nat → Bool
  | [] => true
  | x :: xs => !xs.contains x && nodupNat xs

/-- the flusher holds the table file `id` (created, not yet in the MANIFEST) -/
def PState.flusherHolds (s : PState) (id : Nat) : Bool :=
  !s.imm.isEmpty && 1 ≤ s.fpc && s.fpc ≤ 4 && s.fsst == id

def kmsetChanges (s : PState) : List MChange :=
  s.kout.map (fun o => MChange.create o.id o.level) ++ s.kins.map MChange.delete

/-- the condition under which the code executes the atom -/
def Atom.guard (s : PState) : Atom → Bool
  | .sync _ => true
  | .syncDir => true
  | .zero _ => true
  | .vput _ _ => true
  | .vtrunc => 1 ≤ s.vchunks
  | .vrot => true
  | .vhdr => true
  | .pushImm => s.curOpen && s.pending.isEmpty && (!s.cfg.syncWrites || (!s.curDirty && (!s.cfg.dirSyncFix || s.curDurEntry)))
  | .newMem => !s.curOpen && s.pending.isEmpty
  | .mhdr => s.curOpen && !s.curHdr
  | .wput _ => s.curOpen && s.curHdr && s.inflight.isSome
  | .fin =>
    match s.inflight with
    | some t => s.curOpen && s.curHdr && s.pending == t.ents && !t.ents.isEmpty && t.ts != 0
    | none => false
  | .ack => s.acked < s.done && (!s.cfg.syncWrites || (s.curOpen && !s.curDirty && (!s.cfg.dirSyncFix || s.curDurEntry)))
  | .kmk id => s.kout.any (fun o => o.id == id && o.stage == 0) && !s.flusherHolds id && (aget id s.tset).isNone &&
    (aget id s.tsetD).isNone   -- (ghost) the id is fresh: no state of the MANIFEST, durable or not, lists it
  | .kwrite id => s.kout.any (fun o => o.id == id && o.stage == 1) && !s.flusherHolds id && (aget id s.tset).isNone &&
    (aget id s.tsetD).isNone
  | .kmset =>
    !s.kins.isEmpty && s.kout.all (fun o => o.stage == 3 && (aget o.id s.tset).isNone) &&
    !s.mdirty && s.kdir &&
    -- (modelling restriction) … nor while the deletion of that WAL is not yet durable
    s.pendU.all (fun x => !s.kins.contains x.2) &&
    nodupNat (s.kout.map (·.id)) && nodupNat s.kins &&
    s.kins.all (fun id => (aget id s.tset).isSome) && (applyMSet s.tset (kmsetChanges s)).isSome &&
    -- (modelling restriction) a table is not compacted away while the WAL it was flushed from
    -- is still waiting to be deleted
    !(!s.imm.isEmpty && 5 ≤ s.fpc && s.kins.contains s.fsst)
  | .kdel id =>
    s.kdelq.contains id && (aget id s.tset).isNone && !s.flusherHolds id && !s.kout.any (fun o => o.id == id) &&
    !s.mdirty

/-- the `FsOp`s of one writer atom in state `s` (when its guard holds) -/
def Atom.rawOps (s : PState) : Atom → List FsOp
  | .sync p => [.sync p]
  | .syncDir => [.syncDir]
  | .zero p => [.zero p]
  | .vput k v => [.append (.vlog s.vfid) (.vEnt k v)]
  | .vtrunc => [.truncate (.vlog s.vfid) s.vchunks]
  | .vrot => mkFile (.vlog (s.vfid + 1))
  | .vhdr => [.append (.vlog s.vfid) .hdr]
  | .pushImm => []
  | .newMem => mkFile (.mem s.nextMem)
  | .mhdr => [.append (.mem s.cur) .hdr]
  | .wput e => [.append (.mem s.cur) (.walEnt ((s.inflight.map (·.ts)).getD 0) e)]
  | .fin => [.append (.mem s.cur) (.walFin ((s.inflight.map (·.ts)).getD 0))]
  | .ack => []
  | .kmk id => mkFile (.sst id)
  | .kwrite id =>
    match s.kout.find? (fun o => o.id == id) with
    | some o => [.append (.sst id) (.table o.ents)]
    | none => []
  | .kmset => [.append .manifest (.mset (kmsetChanges s))]
  | .kdel id => delFile (.sst id)

def Atom.rawEff (s : PState) : Atom → PState
  | .sync p =>
    match p with
    | .mem fid => if fid = s.cur ∧ s.curOpen then { s with curDirty := false } else s
    | .manifest => { s with mdirty := false, tsetD := s.tset }
    | .sst id => { s with kout := s.kout.map (fun o => if o.id == id && o.stage == 2 then { o with stage := 3 } else o) }
    | _ => s
  | .syncDir =>
    { s with curDurEntry := if s.curOpen then true else s.curDurEntry, pendU := [],
             kdir := s.kdir || s.kout.all (fun o => 1 ≤ o.stage) }
  | .zero _ => s
  | .vput _ _ => { s with vcount := s.vcount + 1, vchunks := s.vchunks + 1 }
  | .vtrunc => s
  | .vrot => { s with vfid := s.vfid + 1, vcount := 0, vchunks := 0 }
  | .vhdr => { s with vchunks := s.vchunks + 1 }
  | .pushImm => { s with imm := s.imm ++ [s.cur], curOpen := false }
  | .newMem => { s with cur := s.nextMem, curOpen := true, curHdr := false, nextMem := s.nextMem + 1,
                        curDirty := false, curDurEntry := false }
  | .mhdr => { s with curHdr := true }
  | .wput e => { s with pending := s.pending ++ [e], curDirty := true }
  | .fin =>
    match s.inflight with
    | some t => { s with mtxns := aset s.cur (s.memTxns s.cur ++ [t]) s.mtxns, pending := [],
                         inflight := none, done := s.done + 1, curDirty := true }
    | none => s
  | .ack => { s with acked := s.acked + 1 }
  | .kmk id => { s with kout := s.kout.map (fun o => if o.id == id then { o with stage := 1 } else o) }
  | .kwrite id => { s with kout := s.kout.map (fun o => if o.id == id then { o with stage := 2 } else o) }
  | .kmset =>
    { s with tset := (applyMSet s.tset (kmsetChanges s)).getD s.tset,
             tcont := s.kout.map (fun o => (o.id, o.ents)) ++ s.tcont,
             kdelq := s.kins, kins := [], kout := [], mdirty := true }
  | .kdel id => { s with kdelq := s.kdelq.filter (· ≠ id) }

def Atom.ops (s : PState) (a : Atom) : List FsOp := if a.guard s then a.rawOps s else []
def Atom.eff (s : PState) (a : Atom) : PState := if a.guard s then a.rawEff s else s

/-! ## programs of the logical steps -/

def fixSync (c : Cfg) (_p : Path) : List Atom := if c.dirSyncFix then [.syncDir] else []

/-- `valueLog.write`, the part for one request holding the transaction `t`: the stores and,
    after the request, `toDisk` (rotation when the file has enough entries) -/
def vlogReqProg (s : PState) (t : Txn) : List Atom :=
  let bigs := t.ents.filter (fun e => e.vfid ≠ 0)
  let puts := bigs.map (fun e => Atom.vput e.key e.ver)
  let n := s.vcount + bigs.length
  let rot : List Atom :=
    if n > s.cfg.vlogMaxEntries then
      (if s.cfg.syncWrites then [Atom.sync (.vlog s.vfid)] else []) ++
      (if bigs.isEmpty then [] else [Atom.vtrunc]) ++
      [.vrot, .vhdr, .zero (.vlog (s.vfid + 1))] ++ fixSync s.cfg (.vlog (s.vfid + 1))
    else []
  puts ++ rot

/-- `valueLog.write` for a call with the single request `t` (the deferred msync of the
    current file closes every call when SyncWrites) -/
def vlogProg (s : PState) (t : Txn) : List Atom :=
  let bigs := t.ents.filter (fun e => e.vfid ≠ 0)
  let puts := bigs.map (fun e => Atom.vput e.key e.ver)
  let n := s.vcount + bigs.length
  let rot : List Atom :=
    if n > s.cfg.vlogMaxEntries then
      (if s.cfg.syncWrites then [Atom.sync (.vlog s.vfid)] else []) ++
      (if bigs.isEmpty then [] else [Atom.vtrunc]) ++
      [.vrot, .vhdr, .zero (.vlog (s.vfid + 1))] ++ fixSync s.cfg (.vlog (s.vfid + 1))
    else []
  let fidAfter := if n > s.cfg.vlogMaxEntries then s.vfid + 1 else s.vfid
  puts ++ rot ++ (if s.cfg.syncWrites then [Atom.sync (.vlog fidAfter)] else [])

/-- `ensureRoomForWrite` when the memtable is full -/
def rotateProg (s : PState) : List Atom :=
  [.pushImm, .newMem, .mhdr, .zero (.mem s.nextMem)] ++ fixSync s.cfg (.mem s.nextMem)

/-- `writeToLSM` -/
def walProg (s : PState) (fid : Nat) (t : Txn) : List Atom :=
  (t.ents.map (fun e => [Atom.wput e, Atom.zero (.mem fid)])).flatten ++
  [.fin, .zero (.mem fid)] ++
  (if s.cfg.syncWrites then [Atom.sync (.mem fid)] else []) ++ [.ack]

/-- the entries of a commit as stored: version = commit timestamp; a value at or above the
    threshold (`vfid ≠ 0` in the request) goes to the current value-log file -/
def stamp (s : PState) (ents : List CEnt) : List CEnt :=
  ents.map (fun e => { e with ver := s.nextTs, vfid := if e.vfid ≠ 0 then s.vfid else 0 })

def commitProg (s : PState) (t : Txn) (rot : Bool) : List Atom :=
  vlogProg s t ++ (if rot then rotateProg s else []) ++ walProg s (if rot then s.nextMem else s.cur) t

def compactProg (ids : List Nat) (ins : List Nat) : List Atom :=
  (ids.map (fun id => [Atom.kmk id, .kwrite id, .sync (.sst id)])).flatten ++
  [.syncDir, .kmset, .sync .manifest] ++ ins.map Atom.kdel

/-! ## scheduler -/

inductive Sched
  | commit (ents : List CEnt) (rot : Bool)   -- `Txn.Commit` (rot: the memtable was found full)
  | flushReq                                 -- rotate the memtable on request (`VerifFlush`)
  | compact (ins : List Nat) (outs : List (Nat × List CEnt))  -- level and content of each output
  | w                                        -- the writer executes its next atom
  | f                                        -- the flusher executes its next atom
  deriving Repr

/-- the flusher's next atom: `(FsOps, next state)`, `none` when it has nothing to do -/
def flushAtom (s : PState) : Option (List FsOp × PState) :=
  match s.imm with
  | [] => none
  | k :: rest =>
    let es := s.memEnts k
    if es.isEmpty then
      -- `builder.Empty()`: no table; the memtable is dropped and its WAL deleted
      some (delFile (.mem k), { s with imm := rest, fpc := 0, pendU := (k, s.fsst) :: s.pendU })
    else
    match s.fpc with
    | 0 => some (mkFile (.sst s.nextSst), { s with fpc := 1, fsst := s.nextSst, nextSst := s.nextSst + 1 })
    | 1 =>
      if ((aget s.fsst s.tset).isNone ∧ !s.kout.any (fun o => o.id == s.fsst)) ∧ (aget s.fsst s.tsetD).isNone then
        some ([.append (.sst s.fsst) (.table es)], { s with fpc := 2 })
      else none
    | 2 => some ([.sync (.sst s.fsst)], { s with fpc := if s.cfg.dirSyncFix then 3 else 4 })
    | 3 => some ([.syncDir], { (Atom.rawEff s .syncDir) with fpc := 4 })
    | 4 =>
      -- `manifestFile.addChanges` appends and fsyncs under `appendLock`: no other change set
      -- is waiting for its fsync
      if (aget s.fsst s.tset).isNone ∧ !s.mdirty then
        some ([.append .manifest (.mset [.create s.fsst 0])],
              { s with fpc := 5, tset := aset s.fsst 0 s.tset, tcont := (s.fsst, es) :: s.tcont, mdirty := true })
      else none
    | 5 => some ([.sync .manifest], { s with fpc := 6, mdirty := false, tsetD := s.tset })
    | _ => some (delFile (.mem k), { s with imm := rest, fpc := 0, pendU := (k, s.fsst) :: s.pendU })

/-- one scheduler step: the `FsOp`s emitted (one atom) and the next state. Steps that are not
    enabled (writer busy, ill-formed compaction, …) do nothing. -/
def PState.step (s : PState) : Sched → List FsOp × PState
  | .commit ents rot =>
    if s.wq.isEmpty ∧ s.inflight.isNone ∧ s.pending.isEmpty ∧ s.curOpen ∧ !ents.isEmpty ∧ s.nextTs ≠ 0 then
      let t : Txn := { ts := s.nextTs, ents := stamp s ents }
      ([], { s with wq := commitProg s t rot, nextTs := s.nextTs + 1, commits := s.commits ++ [t],
                    inflight := some t })
    else ([], s)
  | .flushReq =>
    if s.wq.isEmpty ∧ s.curOpen ∧ s.pending.isEmpty then ([], { s with wq := rotateProg s }) else ([], s)
  | .compact ins outs =>
    if s.wq.isEmpty ∧ s.kins.isEmpty ∧ s.kout.isEmpty ∧ s.kdelq.isEmpty ∧ nodupNat ins ∧
       ins.all (fun id => (aget id s.tset).isSome) ∧ !ins.isEmpty then
      let ids := (List.range outs.length).map (· + s.nextSst)
      ([], { s with wq := compactProg ids ins, nextSst := s.nextSst + outs.length, kins := ins, kdir := false,
                    kout := (ids.zip outs).map (fun (id, o) => { id := id, level := o.1, ents := o.2 }) })
    else ([], s)
  | .w =>
    match s.wq with
    | [] => ([], s)
    | a :: rest => (a.ops s, { a.eff s with wq := rest })
  | .f =>
    match flushAtom s with
    | some (ops, s') => (ops, s')
    | none => ([], s)

/-- machine state: logical state + file system -/
structure MState where
  p : PState := {}
  fs : Fs := {}
  deriving Repr, Inhabited

def MState.step (m : MState) (x : Sched) : MState :=
  { p := (m.p.step x).2, fs := m.fs.run (m.p.step x).1 }

def MState.exec (m : MState) (h : List Sched) : MState := h.foldl MState.step m

/-- the `FsOp`s a history emits from logical state `p`, atom by atom -/
def PState.atoms : PState → List Sched → List (List FsOp)
  | _, [] => []
  | p, x :: h => (p.step x).1 :: PState.atoms (p.step x).2 h

/-- the `FsOp`s of the very first `Open` of an empty directory -/
def firstOpenOps : List FsOp :=
  match recover false [] with
  | .ok r => r.ops
  | .error _ => []

/-- the machine after the first `Open` of an empty directory -/
def MState.init (c : Cfg) : MState :=
  { p := { cfg := c }, fs := Fs.run {} firstOpenOps }

end Badger
