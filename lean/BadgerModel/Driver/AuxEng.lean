import BadgerModel.ManifestPb
import BadgerModel.Bloom
import BadgerModel.Trie
import BadgerModel.Key
import BadgerModel.Publisher
import BadgerModel.Driver.Util
/-!
Engines of `bmd_aux`: `manifest` (stateful), `bloom` (stateless), `trie` (stateful).
Line protocol: see `harness/eng_aux.go` (the two files are kept in step).
-/
namespace Badger.Driver

open Badger

/-! ## shared helpers -/

def insertNat (x : Nat) : List Nat → List Nat
  | [] => [x]
  | y :: ys => if x ≤ y then x :: y :: ys else y :: insertNat x ys

def sortNat (l : List Nat) : List Nat := l.foldr insertNat []

def dedupSorted : List Nat → List Nat
  | a :: b :: rest => if a = b then dedupSorted (b :: rest) else a :: dedupSorted (b :: rest)
  | l => l

def joinWith (sep : String) (l : List String) : String := sep.intercalate l

def csv (s : String) : List String := if s == "-" then [] else s.splitOn ","

def intArg (s : String) : Option Int := s.toInt?

def allSome {α : Type} : List (Option α) → Option (List α)
  | [] => some []
  | none :: _ => none
  | some a :: rest => (allSome rest).map (a :: ·)

/-! ## manifest -/

def mErrStr : ManifestErr → String
  | .tableExists id => s!"err:exists:{id}"
  | .invalidOp => "err:invalid-op"

def rErrStr : ReplayErr → String
  | .badMagic => "err:bad-magic"
  | .unsupportedVersion v => s!"err:version:{v}"
  | .extMagicMismatch => "err:ext-magic"
  | .badChecksum => "err:bad-checksum"
  | .decode => "err:decode"
  | .apply e => mErrStr e

/-- Canonical dump: counters, tables sorted by id, level sets sorted. -/
def dumpManifest (m : Manifest) : String :=
  let ts := (sortById m.tables).map (fun e => s!"{e.1}:{e.2.level}:{e.2.keyID}:{e.2.compression}")
  let ls := m.levels.map (fun l => joinWith "." ((sortNat l).map toString))
  s!"c={m.creations},d={m.deletions},t=[{joinWith ";" ts}],l=[{joinWith "|" ls}]"

def parseChange (s : String) : Option Change :=
  match s.splitOn ":" with
  | ["c", id, lv, kid, comp] =>
    match id.toNat?, lv.toNat?, kid.toNat?, comp.toNat? with
    | some id, some lv, some kid, some comp => some (Change.create id lv kid comp)
    | _, _, _, _ => none
  | ["d", id] => id.toNat?.map Change.delete
  | ["x", id, op, lv, kid, enc, comp] =>
    match id.toNat?, op.toNat?, lv.toNat?, kid.toNat?, enc.toNat?, comp.toNat? with
    | some id, some op, some lv, some kid, some enc, some comp =>
      some { id, op, level := lv, keyId := kid, encAlgo := enc, compression := comp }
    | _, _, _, _, _, _ => none
  | _ => none

def parseChanges (s : String) : Option ChangeSet := allSome ((csv s).map parseChange)

def replayStr (r : ReplayResult) : String :=
  match r with
  | .error e => rErrStr e
  | .ok (m, off) => s!"ok {off} {dumpManifest m}"

/-- Short form used by the compound ops. -/
def replayDigest (r : ReplayResult) : String :=
  match r with
  | .error e => rErrStr e
  | .ok (m, off) => s!"ok:{off}:{m.tables.length}:{m.creations}:{m.deletions}"

/-- Offset of the last complete frame of a well-formed file (8 when there is none). -/
def lastFrameStart (file : Bytes) : Nat :=
  go file.length (file.drop 8) 8 8
where
  go : Nat → Bytes → Nat → Nat → Nat
    | 0, _, _, last => last
    | fuel + 1, rest, off, last =>
      if rest.length < 8 then last
      else
        let l := beNat (rest.take 4)
        if rest.length < 8 + l then last
        else go fuel (rest.drop (8 + l)) (off + 8 + l) off

/-- Run-length compression of a list of result strings: `n*res` joined by spaces. -/
def rle : List String → List String
  | [] => []
  | x :: xs => go x 1 xs
where
  go (cur : String) (n : Nat) : List String → List String
    | [] => [s!"{n}*{cur}"]
    | y :: ys => if y == cur then go cur (n + 1) ys else s!"{n}*{cur}" :: go y 1 ys

structure MState where
  mf : Option MFile := none

def manifestStep (st : MState) (line : String) : MState × String :=
  let cd := pbCodec
  match words line, st.mf with
  | ["reset", t, ext], _ =>
    match intArg t, natArg ext with
    | some t, some ext =>
      let mf := MFile.create cd ext t
      ({ mf := some mf }, s!"ok {toHex mf.file}")
    | _, _ => (st, "bad-op")
  | ["add", cs], some mf =>
    match parseChanges cs with
    | none => (st, "bad-op")
    | some cs =>
      let (mf', err) := mf.addChanges cd cs
      ({ mf := some mf' }, (match err with | none => "ok" | some e => mErrStr e) ++ " " ++ dumpManifest mf'.manifest)
  -- replay of the current file with one more frame (the session is not modified)
  | ["appendraw", cs], some mf =>
    match parseChanges cs with
    | none => (st, "bad-op")
    | some cs => (st, replayStr (replay cd (mf.file ++ frame cd (cd.enc cs)) mf.ext))
  -- a stale MANIFEST-REWRITE left in the directory by a rewrite that crashed before its rename:
  -- helpRewrite opens that path with O_TRUNC, so it has no effect on anything
  | ["leftover"], some _ => (st, "ok")
  | ["file"], some mf => (st, toHex mf.file)
  | ["replay"], some mf => (st, replayStr (replay cd mf.file mf.ext))
  | ["cut", k], some mf =>
    match natArg k with
    | some k => (st, replayStr (replay cd (mf.file.take (mf.file.length - k)) mf.ext))
    | none => (st, "bad-op")
  | ["zero", k, n], some mf =>
    match natArg k, natArg n with
    | some k, some n =>
      (st, replayStr (replay cd (mf.file.take (mf.file.length - k) ++ List.replicate n 0) mf.ext))
    | _, _ => (st, "bad-op")
  | ["flip", k, x], some mf =>
    match natArg k, natArg x with
    | some k, some x =>
      if k = 0 ∨ k > mf.file.length then (st, "bad-op")
      else
        let i := mf.file.length - k
        let f := mf.file.set i (mf.file.getD i 0 ^^^ UInt8.ofNat x)
        (st, replayStr (replay cd f mf.ext))
    | _, _ => (st, "bad-op")
  | ["cuts"], some mf =>
    let s := lastFrameStart mf.file
    let n := mf.file.length - s
    let rs := (List.range (n + 1)).map (fun j => replayDigest (replay cd (mf.file.take (s + j)) mf.ext))
    (st, s!"{s} {n} " ++ joinWith " " (rle rs))
  | ["zeros", extra], some mf =>
    match natArg extra with
    | some extra =>
      let s := lastFrameStart mf.file
      let n := mf.file.length - s
      let rs := (List.range (n + 1)).map (fun j =>
        replayDigest (replay cd (mf.file.take (s + j) ++ List.replicate (n - j + extra) 0) mf.ext))
      (st, s!"{s} {n} " ++ joinWith " " (rle rs))
    | none => (st, "bad-op")
  | ["reopen"], some mf =>
    match MFile.openExisting cd mf.file mf.ext mf.threshold with
    | .error e => (st, rErrStr e)
    | .ok (mf', m) => ({ mf := some mf' }, s!"ok {mf'.file.length} {dumpManifest m} {dumpManifest mf'.manifest}")
  -- crash while appending: the file on disk loses its last k bytes (`tear`) or gains a torn
  -- record (`tearapp`); the handle is closed and the file reopened (replay, truncate, seek to
  -- the end, clone); later `add`s go through the reopened handle
  | ["tear", k], some mf =>
    match natArg k with
    | none => (st, "bad-op")
    | some k =>
      match MFile.openExisting cd (mf.file.take (mf.file.length - k)) mf.ext mf.threshold with
      | .error e => ({ mf := none }, rErrStr e)
      | .ok (mf', m) => ({ mf := some mf' }, s!"ok {mf'.file.length} {dumpManifest m} {dumpManifest mf'.manifest}")
  | ["tearapp", h], some mf =>
    match hexArg h with
    | none => (st, "bad-op")
    | some t =>
      match MFile.openExisting cd (mf.file ++ t) mf.ext mf.threshold with
      | .error e => ({ mf := none }, rErrStr e)
      | .ok (mf', m) => ({ mf := some mf' }, s!"ok {mf'.file.length} {dumpManifest m} {dumpManifest mf'.manifest}")
  | ["rawreplay", h, ext], _ =>
    match hexArg h, natArg ext with
    | some f, some ext => (st, replayStr (replay cd f ext))
    | _, _ => (st, "bad-op")
  | ["rawopen", h, ext, t], _ =>
    match hexArg h, natArg ext, intArg t with
    | some f, some ext, some t =>
      match MFile.openExisting cd f ext t with
      | .error e => (st, rErrStr e)
      | .ok (mf', m) => ({ mf := some mf' }, s!"ok {mf'.file.length} {dumpManifest m} {dumpManifest mf'.manifest}")
    | _, _, _ => (st, "bad-op")
  | ["marshal", cs], _ =>
    match parseChanges cs with
    | some cs => (st, toHex (pbEncodeSet cs))
    | none => (st, "bad-op")
  | _, _ => (st, "bad-op")

/-! ## bloom -/

def optBoolStr : Option Bool → String
  | none => "panic"
  | some b => boolStr b

def bloomStep (line : String) : String :=
  match words line with
  | ["hash", h] =>
    match hexArg h with
    | some b => toString (hash b)
    | none => "bad-op"
  | ["filter", bpk, ks] =>
    match intArg bpk, allSome ((csv ks).map String.toNat?) with
    | some bpk, some ks =>
      match appendFilter ks bpk with
      | some f => toHex f
      | none => "panic"
    | _, _ => "bad-op"
  | ["may", f, h] =>
    match hexArg f, natArg h with
    | some f, some h => optBoolStr (mayContain f h)
    | _, _ => "bad-op"
  -- filter of `ks` then probes: one character per probe
  | ["probe", bpk, ks, ps] =>
    match intArg bpk, allSome ((csv ks).map String.toNat?), allSome ((csv ps).map String.toNat?) with
    | some bpk, some ks, some ps =>
      match appendFilter ks bpk with
      | none => "panic"
      | some f => String.ofList (ps.map (fun p => match mayContain f p with
          | none => 'p' | some true => '1' | some false => '0'))
    | _, _, _ => "bad-op"
  | ["krange", lo, hi] =>
    match intArg lo, intArg hi with
    | some lo, some hi =>
      let n := (hi - lo + 1).toNat
      joinWith " " (rle ((List.range n).map (fun (i : Nat) => toString (bloomK (lo + Int.ofNat i)))))
    | _, _ => "bad-op"
  -- tbl <hasFilter 0|1> <bits> <ts> <userkeys> <probes> <fp>: Table.DoesNotHave(Hash(probe));
  -- bits = BloomBitsPerKey(len(keys), fp) is float code evaluated by the harness
  | ["tbl", has, bits, ts, ks, ps, _fp] =>
    match natArg has, intArg bits, natArg ts, allSome ((csv ks).map fromHex), allSome ((csv ps).map fromHex) with
    | some has, some bits, some ts, some ks, some ps =>
      if has = 0 then String.ofList (ps.map (fun _ => '0'))
      else match tableFilter (ks.map (fun k => keyWithTs k ts)) bits with
        | none => "panic"
        | some f => String.ofList (ps.map (fun p => match doesNotHave f (hash p) with
            | none => 'p' | some true => '1' | some false => '0'))
    | _, _, _, _, _ => "bad-op"
  | _ => "bad-op"

/-! ## trie -/

/-- `publisher` (publisher.go) as far as the trie is concerned: `newSubscriber` registers the
    subscriber *before* adding its matches (a parse error leaves it registered with the matches
    added so far), `deleteSubscriber` deletes every match (errors ignored), `publishUpdates`
    queries the trie with the entry's **internal** key (user key ++ 8 timestamp bytes) — this is
    finding F10; when the fix (`y.ParseKey(e.Key)`) lands, `ppub` below must query with the user
    key instead. -/
structure PubState where
  trie : Trie := Trie.empty
  nextID : Nat := 0
  subs : List (Nat × List (Bytes × Bytes)) := []   -- p.subscribers
  okSubs : List Nat := []                          -- those whose newSubscriber returned nil error

structure TState where
  t : Trie := Trie.empty
  pub : PubState := {}

/-- The AddMatch loop of `newSubscriber`: stops at the first error. -/
def addMatches (t : Trie) (id : Nat) : List (Bytes × Bytes) → Trie × Bool
  | [] => (t, true)
  | (p, ig) :: rest =>
    match t.addMatch p ig id with
    | none => (t, false)
    | some t' => addMatches t' id rest

def delMatches (t : Trie) (id : Nat) : List (Bytes × Bytes) → Trie
  | [] => t
  | (p, ig) :: rest => delMatches ((t.deleteMatch p ig id).getD t) id rest

def parseMatchWords : List String → Option (List (Bytes × Bytes))
  | [] => some []
  | [_] => none
  | p :: ig :: rest =>
    match hexArg p, hexArg ig, parseMatchWords rest with
    | some p, some ig, some r => some ((p, ig) :: r)
    | _, _, _ => none

def idsStr (l : List Nat) : String :=
  let s := dedupSorted (sortNat l)
  if s.isEmpty then "-" else joinWith "," (s.map toString)

def trieStep (st : TState) (line : String) : TState × String :=
  match words line with
  | ["reset"] => ({ t := Trie.empty, pub := {} }, "ok")
  | "psub" :: ws =>
    match parseMatchWords ws with
    | none => (st, "bad-op")
    | some ms =>
      let id := st.pub.nextID
      let (t', ok) := addMatches st.pub.trie id ms
      -- on an error newSubscriber undoes the registration (fix of finding F24)
      let pub' : PubState :=
        if ok then { trie := t', nextID := id + 1, subs := (id, ms) :: st.pub.subs, okSubs := id :: st.pub.okSubs }
        else { st.pub with trie := delMatches t' id (okPrefix ms), nextID := id + 1 }
      ({ st with pub := pub' }, if ok then toString id else "err")
  | ["punsub", id] =>
    match natArg id with
    | none => (st, "bad-op")
    | some id =>
      match st.pub.subs.lookup id with
      | none => (st, "ok")
      | some ms =>
        let pub' : PubState := { st.pub with trie := delMatches st.pub.trie id ms,
                                             subs := st.pub.subs.filter (fun e => e.1 ≠ id),
                                             okSubs := st.pub.okSubs.filter (· ≠ id) }
        ({ st with pub := pub' }, "ok")
  | ["ppub", k, ts] =>
    match hexArg k, natArg ts with
    | some k, some ts =>
      -- the trie is queried with the user key (`y.ParseKey(e.Key)`; before the fix of finding F10
      -- it was queried with the internal key `keyWithTs k ts`)
      let _ := ts
      let ids := (st.pub.trie.get k).filter (fun id => st.pub.okSubs.contains id)
      (st, idsStr ids)
    | _, _ => (st, "bad-op")
  | ["add", p, ig, id] =>
    match hexArg p, hexArg ig, natArg id with
    | some p, some ig, some id =>
      match st.t.addMatch p ig id with
      | some t => ({ st with t := t }, "ok")
      | none => (st, "err")
    | _, _, _ => (st, "bad-op")
  | ["del", p, ig, id] =>
    match hexArg p, hexArg ig, natArg id with
    | some p, some ig, some id =>
      match st.t.deleteMatch p ig id with
      | some t => ({ st with t := t }, "ok")
      | none => (st, "err")
    | _, _, _ => (st, "bad-op")
  | ["get", k] =>
    match hexArg k with
    | some k => (st, idsStr (st.t.get k))
    | none => (st, "bad-op")
  | ["nodes"] => (st, toString (numNodes st.t.root))
  | ["parse", ig] =>
    match hexArg ig with
    | some ig =>
      match parseIgnoreBytes ig with
      | none => (st, "err")
      | some bs => (st, if bs.isEmpty then "-" else String.ofList (bs.map (fun b => if b then '1' else '0')))
    | none => (st, "bad-op")
  | _ => (st, "bad-op")

/-! ## subscribe (DB.Subscribe on a real DB; model: `BadgerModel/Publisher.lean`) -/

structure SubState where
  pub : Publisher := Publisher.empty
  ts : Nat := 0            -- last commit timestamp handed out

def badgerPrefix : Bytes := "!badger!".toUTF8.toList
def txnKey : Bytes := "!badger!txn".toUTF8.toList

/-- One write of a transaction: (user key, value, user meta, expiresAt). -/
def parseWrite (s : String) : Option (Bytes × Bytes × Nat × Nat) :=
  match s.splitOn ":" with
  | ["s", k, v, m, e] =>
    match fromHex k, fromHex v, m.toNat?, e.toNat? with
    | some k, some v, some m, some e => some (k, v, m, e)
    | _, _, _, _ => none
  | ["d", k] => (fromHex k).map (fun k => (k, [], 0, 0))
  | _ => none

def parseTxn (s : String) : Option (List (Bytes × Bytes × Nat × Nat)) :=
  allSome ((s.splitOn ";").map parseWrite)

/-- `txn.pendingWrites` is a map keyed by the user key: the last write of a key wins; the map is
    iterated in random order, so the canonical order (both sides) is by key. -/
def insertWrite (w : Bytes × Bytes × Nat × Nat) : List (Bytes × Bytes × Nat × Nat) → List (Bytes × Bytes × Nat × Nat)
  | [] => [w]
  | x :: xs =>
    match cmpBytes w.1 x.1 with
    | .lt => w :: x :: xs
    | .eq => w :: xs
    | .gt => x :: insertWrite w xs

def canonWrites (ws : List (Bytes × Bytes × Nat × Nat)) : List (Bytes × Bytes × Nat × Nat) :=
  ws.foldl (fun acc w => insertWrite w acc) []

/-- The request `commitAndSend` builds: the writes at version `ts` and the `!badger!txn` end marker. -/
def txnRequest (ws : List (Bytes × Bytes × Nat × Nat)) (ts : Nat) : List PubEntry :=
  (canonWrites ws).map (fun w => { ikey := keyWithTs w.1 ts, value := w.2.1, userMeta := w.2.2.1, expiresAt := w.2.2.2 })
    ++ [{ ikey := keyWithTs txnKey ts, value := (toString ts).toUTF8.toList, userMeta := 0, expiresAt := 0 }]

def kvStr (kv : KV) : String :=
  s!"{kv.version}:{toHex kv.key}:{toHex kv.value}:{kv.userMeta}:{kv.expiresAt}"

/-- `!badger!` keys are ignored on both sides of the comparison (DESIGN §8.11). -/
def kvListStr (l : List KV) : String :=
  let l := l.filter (fun kv => !(badgerPrefix.isPrefixOf kv.key))
  if l.isEmpty then "-" else joinWith "," (l.map kvStr)

def commitAll (st : SubState) : List (List (Bytes × Bytes × Nat × Nat)) → SubState × List (List PubEntry)
  | [] => (st, [])
  | ws :: rest =>
    let ts := st.ts + 1
    let (st', reqs) := commitAll { st with ts := ts } rest
    (st', txnRequest ws ts :: reqs)

def subscribeStep (st : SubState) (line : String) : SubState × String :=
  match words line with
  | ["reset"] =>
    let (p, _) := Publisher.empty.subscribe [([], [])]      -- the witness subscriber (empty prefix)
    ({ pub := p, ts := 0 }, "ok 0")
  | "sub" :: ws | "subg" :: ws =>
    match parseMatchWords ws with
    | none => (st, "bad-op")
    | some ms =>
      let (p, r) := st.pub.subscribe ms
      ({ st with pub := p }, match r with | some id => toString id | none => "err")
  | ["txn", t] =>
    match parseTxn t with
    | none => (st, "bad-op")
    | some ws =>
      let (st', reqs) := commitAll st [ws]
      ({ st' with pub := st'.pub.publish reqs }, s!"ok {st'.ts}")
  | "atxn" :: ts =>
    match allSome (ts.map parseTxn) with
    | none => (st, "bad-op")
    | some wss =>
      if wss.isEmpty then (st, "bad-op") else
      let (st', reqs) := commitAll st wss
      -- how the requests are grouped into publishUpdates calls does not matter (C32_exactly_once_in_order
      -- holds for every grouping); the driver hands them over in one call
      ({ st' with pub := st'.pub.publish reqs }, s!"ok {st'.ts}")
  | ["cancel", id] =>
    match natArg id with
    | none => (st, "bad-op")
    | some id =>
      if id = 0 then (st, "bad-op") else
      match st.pub.find id with
      | none => (st, "gone")
      | some s =>
        if !s.ok then (st, "gone") else
        -- the harness waits until the channel is empty before cancelling
        let p := (st.pub.deliver id s.queue.length).cancel id
        ({ st with pub := p }, kvListStr (p.deliveredTo id))
  | ["close"] =>
    let ids := (st.pub.subs.filter (·.ok)).map (·.id)
    let p := ids.foldl (fun p id => p.close id) st.pub
    ({ st with pub := p }, joinWith "|" (ids.map (fun id => s!"{id}={kvListStr (p.deliveredTo id)}")))
  | _ => (st, "bad-op")

end Badger.Driver
