import BadgerModel.Stream
import BadgerModel.Backup
import BadgerModel.StreamWriter
import BadgerModel.Spec.Mvcc
import BadgerModel.Driver.Mvcc
/-! `stream` / `backup` / `swriter` engines (harness/eng_stream.go): several databases in named
slots, the mvcc ops on the current one, plus Stream, Backup/Load and StreamWriter ops. -/
namespace Badger.Driver

open Badger

structure StreamDrv where
  dbs : List (Nat × Db) := []
  cur : Nat := 0
  backups : List (Nat × BackupOut) := []
  sw : Option SwState := none
  /-- a stepped run in progress (`stream-begin` … `stream-end`): its parameters and the read
      timestamp `Stream.beginRun` pinned -/
  run : Option (List (String × String) × Nat) := none
  deriving Inhabited

def StreamDrv.db (s : StreamDrv) : Db :=
  match s.dbs.find? (·.1 == s.cur) with
  | some (_, d) => d
  | none => Db.init {} 0

def StreamDrv.setDb (s : StreamDrv) (d : Db) : StreamDrv :=
  { s with dbs := (s.cur, d) :: s.dbs.filter (·.1 != s.cur) }

/-- `key@ver:meta:umeta:exp:val` -/
def parseEnt (w : String) : Option Ent :=
  match w.splitOn "@" with
  | [k, rest] =>
    match rest.splitOn ":" with
    | [ver, m, um, exp, v] =>
      match fromHex k, ver.toNat?, m.toNat?, um.toNat?, exp.toNat?, fromHex v with
      | some k, some ver, some m, some um, some exp, some v =>
        some { key := k, ver := ver, emeta := m, umeta := um, exp := exp, val := v }
      | _, _, _, _, _, _ => none
    | _ => none
  | _ => none

/-- `sid:done` or `sid:key@ver:meta:umeta:exp:val` -/
def parseSKV (w : String) : Option SKV :=
  match w.splitOn ":" with
  | sid :: rest =>
    match sid.toNat? with
    | none => none
    | some sid =>
      if rest == ["done"] then some { sid := sid, done := true, e := default }
      else (parseEnt (String.intercalate ":" rest)).map (fun e => { sid := sid, e := e })
  | _ => none

def fmtLists (ls : List (List Ent)) : String :=
  String.intercalate " " (ls.map (fun l => "[" ++ String.intercalate "," (l.map fmtEnt) ++ "]"))

/-- the deterministic `ChooseKey` predicates of the harness (0 = nil). -/
def chooseFn (c : Nat) (now : Nat) (e : Ent) : Bool :=
  match c with
  | 1 => e.key.length % 2 == 0
  | 2 => e.ver % 2 == 0
  | 3 => !deletedOrExpired e.emeta e.exp now
  | 4 => e.umeta % 2 == 0
  | _ => true

/-- `Stream.beginRun`: outside managed mode ONE read-only transaction is created when the run
    starts and held until it ends; every producer reads at its timestamp. The transaction `mid`
    (if any) commits while the run is in progress (`pre` only says after how many producers have
    started: it no longer matters). Returns the database after the run (read mark begun and done
    once, the commit applied), the read timestamp of the run, and the commit's output. -/
def runProducers (d : Db) (kv : List (String × String)) : Db × Nat × String :=
  let atTs := argNat kv "at" 0
  let rts0 := if d.opts.managed then atTs else d.nextTs - 1
  let d := if d.opts.managed then d else { d with readMark := d.readMark.begin rts0 }
  let (d, midOut) :=
    if argStr kv "mid" == "" then (d, "-") else
    let (d, r) := d.commit (argNat kv "mid" 0) (argNat kv "cts" 0)
    (d, match r with
      | .ok ts => s!"ok:{ts}"
      | .noop => "noop"
      | .conflict => "conflict"
      | .err s => s)
  let d := if d.opts.managed then d else { d with readMark := d.readMark.done rts0 }
  (d, rts0, midOut)

def streamRanges (kv : List (String × String)) : List KeyRange :=
  splitRanges (hexList (argStr kv "splits"))

/-- `levelHandler.initTables` on Open: level 0 is ordered by file id (deeper levels by key). -/
def insertById (t : Tbl) : List Tbl → List Tbl
  | [] => [t]
  | x :: xs => if t.id < x.id then t :: x :: xs else x :: insertById t xs

def reopenLevels : List (List Tbl) → List (List Tbl)
  | [] => []
  | l0 :: rest => l0.foldr insertById [] :: rest.map sortBySmallest

def maxVerOfLsm (l : Lsm) : Nat := l.allEntries.foldl (fun m e => if m < e.ver then e.ver else m) 0

/-- the `ok discard=… overlap=…` answer of the mvcc driver for a `compact` line (same parsing). -/
def compactOkLine (d : Db) (rest : List String) : String :=
  let kv := kvArgs rest
  let thisL := argNat kv "this" 0
  let nextL := argNat kv "next" 0
  let idxOf (lvl : Nat) (id : Nat) : Option Nat :=
    ((zipIdx (d.lsm.levels.getD lvl [])).find? (fun (_, t) => t.id == id)).map (·.1)
  let top := (natList (argStr kv "top")).filterMap (idxOf thisL)
  let bot := (natList (argStr kv "bot")).filterMap (idxOf nextL)
  let news := (if argStr kv "new" == "" then [] else (argStr kv "new").splitOn ",").filterMap (fun w =>
    match w.splitOn ":" with
    | [i, c] => match i.toNat?, c.toNat? with
      | some i, some c => some (i, c)
      | _, _ => none
    | _ => none)
  let cd : CompactDef := {
    thisLevel := thisL, nextLevel := nextL, top, bot,
    outSizes := news.map (·.2), outIds := news.map (·.1), dropPrefixes := hexList (argStr kv "drop") }
  let dtsModel := d.discardAtOrBelow
  let dts := match (kv.find? (·.1 == "lag")).bind (·.2.toNat?) with
    | some n => if n ≤ dtsModel then n else dtsModel
    | none => dtsModel
  let (_, ov) := compactOutput d.lsm cd dts d.opts.numKeep d.now
  s!"ok discard={dts} overlap={if ov then 1 else 0}"

def streamStep (s : StreamDrv) (line : String) : StreamDrv × String :=
  match words line with
  | "reset" :: _ =>
    let (d, o) := mvccStep (Db.init {} 0) line
    ({ dbs := [(0, d)], cur := 0 }, o)
  | "open" :: n :: rest =>
    match n.toNat? with
    | some n =>
      let (d, o) := mvccStep (Db.init {} 0) (String.intercalate " " ("reset" :: rest))
      (({ s with cur := n } : StreamDrv).setDb d, o)
    | none => (s, "bad-op")
  | ["use", n] =>
    match n.toNat? with
    | some n => if s.dbs.any (·.1 == n) then ({ s with cur := n }, "ok") else (s, "bad-op")
    | none => (s, "bad-op")
  | "reopen" :: rest =>
    let d := s.db
    let lsm := d.lsm.flush (argNat (kvArgs rest) "id" 0)
    let lsm := { lsm with levels := reopenLevels lsm.levels }
    let maxV := maxVerOfLsm lsm
    let d' : Db := { opts := d.opts, lsm := lsm, nextTs := maxV + 1, readMark := (({} : Wm).done maxV), now := d.now }
    (s.setDb d', s!"ok next={maxV + 1}")
  | "stream" :: rest =>
    let kv := kvArgs rest
    let d := s.db
    let (d, rts, midOut) := runProducers d kv
    let cfg : StreamCfg :=
      toListCfg d.opts.numKeep d.now ((fromHex (argStr kv "prefix")).getD []) (argNat kv "since" 0)
        (chooseFn (argNat kv "choose" 0) d.now)
    let ranges := streamRanges kv
    let out := streamRun (mergeAll d.lsm.sources) cfg d.now ranges rts
    let doneN := if argBool kv "done" then ranges.length else 0
    (s.setDb d, s!"ok mid={midOut} done={doneN} " ++ fmtLists out)
  -- a stepped run with a script at its mid-run point: `beginRun` holds the run's transaction (its
  -- read mark) from `stream-begin` to `stream-end`, so the discard watermark the lines in
  -- between see cannot pass the run's read timestamp. With NumVersionsToKeep = 1 (the harness
  -- generates these runs only then) what `ToList` delivers at that timestamp is the same before
  -- and after a compaction, so all ranges are computed at `stream-end`.
  | "stream-begin" :: rest =>
    let kv := kvArgs rest
    let d := s.db
    let rts0 := if d.opts.managed then argNat kv "at" 0 else d.nextTs - 1
    -- (the harness first takes its reference snapshot with a read-only transaction of its own,
    -- begun and discarded before the run starts: one begin/done pair at the same timestamp)
    let d := if d.opts.managed then d else
      { d with readMark := ((d.readMark.begin rts0).done rts0).begin rts0 }
    ({ (s.setDb d) with run := some (kv, rts0) }, "ok")
  | ["stream-end"] =>
    match s.run with
    | none => (s, "bad-op")
    | some (kv, rts0) =>
      let d := s.db
      let cfg : StreamCfg :=
        toListCfg d.opts.numKeep d.now ((fromHex (argStr kv "prefix")).getD []) (argNat kv "since" 0)
          (chooseFn (argNat kv "choose" 0) d.now)
      let ranges := streamRanges kv
      let out := streamRun (mergeAll d.lsm.sources) cfg d.now ranges rts0
      let doneN := if argBool kv "done" then ranges.length else 0
      let d := if d.opts.managed then d else { d with readMark := d.readMark.done rts0 }
      ({ (s.setDb d) with run := none }, s!"ok done={doneN} " ++ fmtLists out)
  | "backup" :: rest =>
    let kv := kvArgs rest
    let d := s.db
    let (d, rts, midOut) := runProducers d kv
    let ranges := streamRanges kv
    let since := argNat kv "since" 0
    let out := backupRun (mergeAll d.lsm.sources) ((fromHex (argStr kv "prefix")).getD []) since
      (argNat kv "sincets" since) d.now ranges rts
    let b := argNat kv "buf" 0
    ({ (s.setDb d) with backups := (b, out) :: s.backups.filter (·.1 != b) },
      s!"ok mid={midOut} max={out.maxVersion} " ++ fmtLists out.lists)
  | "load" :: rest =>
    let kv := kvArgs rest
    match s.backups.find? (·.1 == argNat kv "buf" 0) with
    | none => (s, "bad-op")
    | some (_, b) =>
      let (d, ok) := s.db.load b.lists.flatten
      (s.setDb d, (if ok then "ok" else "err") ++ s!" next={d.nextTs}")
  | "sw-prepare" :: rest =>
    let kv := kvArgs rest
    if argBool kv "inc" then
      match s.db.swPrepareIncremental with
      | .ok st => ({ s with sw := some st }, "ok")
      | .error .memHasData => ({ s with sw := none }, "err:memtable")
      | .error .needsFlatten => ({ s with sw := none }, "err:flatten-unmodelled")
    else
      let (d, st) := s.db.swPrepare
      ({ (s.setDb d) with sw := some st }, "ok")
  | "sw-write" :: rest =>
    match s.sw with
    | none => (s, "bad-op")
    | some st =>
      let kvs := rest.filterMap parseSKV
      if kvs.length != rest.length then (s, "bad-op") else
      let (st, r) := s.db.swWrite st kvs
      ({ s with sw := some st }, match r with | .ok => "ok" | .panicClosed => "panic")
  | "sw-flush" :: rest =>
    match s.sw with
    | none => (s, "bad-op")
    | some st =>
      let kv := kvArgs rest
      -- `out=id:count,…`: the tables the implementation produced, in level order
      let news := (if argStr kv "out" == "" then [] else (argStr kv "out").splitOn ",").filterMap (fun w =>
        match w.splitOn ":" with
        | [i, c] => match i.toNat?, c.toNat? with
          | some i, some c => some (i, c)
          | _, _ => none
        | _ => none)
      match s.db.swFlush st (news.map (·.2)) (news.map (·.1)) with
      | none => ({ s with sw := none }, s!"mismatch model-new={st.newEnts.length} " ++
          String.intercalate "," (st.newEnts.map fmtEnt))
      | some (d, valid) =>
        ({ (s.setDb d) with sw := none }, s!"ok next={d.nextTs} valid={boolStr valid}")
  | ["sw-cancel"] => ({ s with sw := none }, "ok")
  | "cmp-restore" :: _ => (s, "ok")
  -- free-running run with concurrent commits: not modelled, last op of its session
  | "stream-race" :: _ => (s, "ok")
  | _ =>
    let (d, o) := mvccStep s.db line
    -- The mvcc driver applies a compaction but answers `invalid-choice … jumps over a non-empty
    -- level` when L0 is compacted to a base level below a non-empty level: no production picker
    -- produces that in a state badger itself built. After StreamWriter.PrepareIncremental such
    -- states exist (tables at prevLevel-1, above the base level: finding F20) and the production
    -- picker does take that step, so here the line is answered like any other compaction.
    let o := match words line with
      | "compact" :: rest =>
        if o.startsWith "invalid-choice" && (o.splitOn "jumps over a non-empty level").length > 1
        then compactOkLine s.db rest else o
      | _ => o
    (s.setDb d, o)

end Badger.Driver
