import BadgerModel.Merge
import BadgerModel.Skiplist
import BadgerModel.SkipConc
import BadgerModel.Driver.Util
/-!
`bmd_iter merge` / `bmd_iter skl`: stateful line-protocol drivers for the merge iterator model
(`BadgerModel/Merge.lean`) and the sequential skiplist model (`BadgerModel/Skiplist.lean`).
Protocol: see `/verif/harness/eng_iter.go`.
-/
namespace Badger.Driver

open Badger

/-- `statefulLoop` for a state type in any universe (`AnyIter : Type 1`). -/
partial def statefulLoopU.{u} {σ : Type u} (h : IO.FS.Stream) (out : IO.FS.Stream)
    (step : σ → String → σ × String) (s : σ) : IO Unit := do
  let line ← h.getLine
  if line.isEmpty then return ()
  let (s', o) := step s (chomp line)
  out.putStrLn o
  statefulLoopU h out step s'

/-! ## merge -/

structure MergeDrv where
  reverse : Bool := false
  srcs : List (List ItEntry) := []
  it : Option AnyIter := none

def itParseEntry (s : String) : Option ItEntry :=
  match s.splitOn ":" with
  | [k, v] =>
    match hexArg k, hexArg v with
    | some k, some v => some ⟨k, v⟩
    | _, _ => none
  | _ => none

def itEntryStr (e : ItEntry) : String := toHex e.key ++ ":" ++ toHex e.val

def curStr (it : AnyIter) : String :=
  match it.cur with
  | some e => toHex e.key ++ " " ++ toHex e.val
  | none => "invalid"

/-- prefix tree expression: `s<i>` = source `i`; `m<k>` followed by `k` sub-expressions =
    `NewMergeIterator` of these.  `none` inside = Go `nil` iterator. -/
partial def parseTree (d : MergeDrv) : List String → Option (Option AnyIter × List String)
  | [] => none
  | t :: rest =>
    if t.startsWith "s" then
      match (t.drop 1).toNat? with
      | some i =>
        match d.srcs[i]? with
        | some l => some (some (Source.mk' l d.reverse).toIter, rest)
        | none => none
      | none => none
    else if t.startsWith "m" then
      match (t.drop 1).toNat? with
      | some k =>
        let rec many : Nat → List String → List AnyIter → Option (List AnyIter × List String)
          | 0, toks, acc => some (acc.reverse, toks)
          | n + 1, toks, acc =>
            match parseTree d toks with
            | some (some it, toks') => many n toks' (it :: acc)
            | _ => none
        match many k rest [] with
        | some (its, rest') => some (newMergeIterator its d.reverse, rest')
        | none => none
      | none => none
    else none

/-- `drain n`: the consumer loop, at most `n` entries. -/
def drainIt : Nat → AnyIter → List ItEntry → AnyIter × List ItEntry
  | 0, it, acc => (it, acc.reverse)
  | n + 1, it, acc =>
    match it.cur with
    | some e => drainIt n it.next (e :: acc)
    | none => (it, acc.reverse)

def mergeStep (d : MergeDrv) (line : String) : MergeDrv × String :=
  match words line with
  | ["reset", r] => ({ reverse := r == "1" }, "ok")
  | "src" :: i :: _kind :: es =>
    match natArg i, es.mapM itParseEntry with
    | some i, some es => if i == d.srcs.length then ({ d with srcs := d.srcs ++ [es] }, "ok") else (d, "bad-op")
    | _, _ => (d, "bad-op")
  | "build" :: toks =>
    match parseTree d toks with
    | some (some it, []) => ({ d with it := some it }, "ok")
    | some (none, []) => ({ d with it := none }, "nil")
    | _ => (d, "bad-op")
  | ["rewind"] =>
    match d.it with
    | some it => let it := it.rewind; ({ d with it := some it }, curStr it)
    | none => (d, "noiter")
  | ["seek", k] =>
    match d.it, hexArg k with
    | some it, some k => let it := it.seek k; ({ d with it := some it }, curStr it)
    | none, some _ => (d, "noiter")
    | _, _ => (d, "bad-op")
  | ["next"] =>
    match d.it with
    | some it => let it := it.next; ({ d with it := some it }, curStr it)
    | none => (d, "noiter")
  | ["drain", n] =>
    match d.it, natArg n with
    | some it, some n =>
      let (it, es) := drainIt n it []
      ({ d with it := some it }, if es.isEmpty then "-" else " ".intercalate (es.map itEntryStr))
    | none, some _ => (d, "noiter")
    | _, _ => (d, "bad-op")
  | _ => (d, "bad-op")

/-! ## skl -/

structure SklDrv where
  s : Skiplist := Skiplist.empty
  panicked : Bool := false
  it : SkRef := .nil          -- `Iterator.n`
  uni : SkRef := .nil         -- `UniIterator.iter.n`
  uniRev : Bool := false

def refStr (s : Skiplist) : SkRef → String
  | .node k => toHex k ++ " " ++ toHex (s.valueOf k)
  | _ => "invalid"

def itStep (d : SklDrv) (r : Option SkRef) : SklDrv × String :=
  match r with
  | some n => ({ d with it := n }, refStr d.s n)
  | none => (d, "panic")

def uniStep (d : SklDrv) (r : Option SkRef) : SklDrv × String :=
  match r with
  | some n => ({ d with uni := n }, refStr d.s n)
  | none => (d, "panic")

def sklStep (d : SklDrv) (line : String) : SklDrv × String :=
  match words line with
  | ["reset"] => ({}, "ok")
  | ["put", k, v, h] =>
    match hexArg k, hexArg v, natArg h with
    | some k, some v, some h =>
      match d.s.put k v h with
      | some s' => ({ d with s := s' }, "ok")
      | none => (d, "panic")
    | _, _, _ => (d, "bad-op")
  | ["get", k] =>
    match hexArg k with
    | some k => let (v, ver) := d.s.get k; (d, toHex v ++ " " ++ toString ver)
    | none => (d, "bad-op")
  | ["near", k, less, eq] =>
    match hexArg k with
    | some k =>
      let (n, found) := d.s.findNear k (less == "1") (eq == "1")
      (d, (match n with | .node nk => toHex nk | _ => "nil") ++ " " ++ boolStr found)
    | none => (d, "bad-op")
  | ["height"] => (d, toString d.s.height)
  | ["level", i] =>
    match natArg i with
    | some i => (d, let l := d.s.level i; if l.isEmpty then "-" else " ".intercalate (l.map toHex))
    | none => (d, "bad-op")
  | ["tower"] =>
    (d, " | ".intercalate ((List.range d.s.height).map (fun i =>
          let l := d.s.level i
          if l.isEmpty then "-" else " ".intercalate (l.map toHex))))
  | ["dump"] =>
    (d, let l := d.s.toList
        if l.isEmpty then "-" else " ".intercalate (l.map itEntryStr))
  | ["empty"] => (d, boolStr d.s.isEmpty)
  -- bidirectional `Iterator`
  | ["first"] => itStep d (some d.s.seekToFirst)
  | ["last"] => itStep d (some d.s.seekToLast)
  | ["seek", k] =>
    match hexArg k with
    | some k => itStep d (some (d.s.seek k))
    | none => (d, "bad-op")
  | ["seekprev", k] =>
    match hexArg k with
    | some k => itStep d (some (d.s.seekForPrev k))
    | none => (d, "bad-op")
  | ["next"] => itStep d (d.s.iterNext d.it)
  | ["prev"] => itStep d (d.s.iterPrev d.it)
  -- `UniIterator`
  | ["uni", r] => ({ d with uni := .nil, uniRev := r == "1" }, "ok")
  | ["urewind"] => uniStep d (some (d.s.uniRewind d.uniRev))
  | ["useek", k] =>
    match hexArg k with
    | some k => uniStep d (some (d.s.uniSeek d.uniRev k))
    | none => (d, "bad-op")
  | ["unext"] => uniStep d (d.s.uniNext d.uniRev d.uni)
  | _ => (d, "bad-op")

/-! ## sklsched: concurrent `Put`s under an explicit schedule (`BadgerModel/SkipConc.lean`)

The real code parks a goroutine at the schedule points of `Put` (`verifSklPoint`, /repo/skl);
`sched t,…` lets goroutine `t` run to its next point.  The model executes the same goroutine's
atomic steps until it is about to make the access that point stands for. -/

open SkipConc in
/-- program points at which the real `Put` has a schedule point -/
def isYieldPc : Pc → Bool
  | .setval _ | .casH _ | .cas _ | .done | .panic => true
  | _ => false

open SkipConc in
def pcToken : Pc → String
  | .start => "start"
  | .setval _ => "setval"
  | .casH _ => "cash"
  | .cas i => "cas" ++ toString i
  | .linkScan i _ true => "casfail" ++ toString i
  | .done => "done"
  | .panic => "panic"
  | _ => "running"

open SkipConc in
def runToYield : Nat → Skiplist → PutLocal → Skiplist × PutLocal
  | 0, s, l => (s, l)
  | n + 1, s, l =>
    if isYieldPc l.pc then (s, l)
    else let r := stepPut s l; runToYield n r.1 r.2

open SkipConc in
/-- let the goroutine run from its current schedule point to the next one -/
def advancePut (s : Skiplist) (l : PutLocal) : Skiplist × PutLocal :=
  let r := stepPut s l
  match l.pc, r.2.pc with
  | .cas _, .linkScan _ _ true => r          -- the CAS failed: point `casfail`
  | _, _ => runToYield 100000 r.1 r.2

structure SchedDrv where
  c : SkipConc.CState := { s := Skiplist.empty, ts := [] }

def schedStepOne (d : SchedDrv) (t : Nat) : Option (SchedDrv × String) :=
  match d.c.ts[t]? with
  | none => none
  | some l =>
    let r := advancePut d.c.s l
    some ({ c := { s := r.1, ts := d.c.ts.set t r.2 } }, pcToken r.2.pc)

def schedSteps (d : SchedDrv) : List Nat → List String → Option (SchedDrv × List String)
  | [], acc => some (d, acc.reverse)
  | t :: ts, acc =>
    match schedStepOne d t with
    | some (d', tok) => schedSteps d' ts (tok :: acc)
    | none => none

/-- `finish`: goroutines 0,1,… one after the other, each to completion -/
def schedFinish (d : SchedDrv) : Nat → Nat → List String → SchedDrv × List String
  | 0, _, acc => (d, acc.reverse)
  | fuel + 1, t, acc =>
    match d.c.ts[t]? with
    | none => (d, acc.reverse)
    | some l =>
      if l.pc == .done || l.pc == .panic then schedFinish d fuel (t + 1) acc
      else
        match schedStepOne d t with
        | some (d', tok) => schedFinish d' fuel t ((toString t ++ ":" ++ tok) :: acc)
        | none => (d, acc.reverse)

def schedStep (d : SchedDrv) (line : String) : SchedDrv × String :=
  match words line with
  | ["reset"] => ({}, "ok")
  | ["pre", k, v, h] =>
    match hexArg k, hexArg v, natArg h with
    | some k, some v, some h =>
      match d.c.s.put k v h with
      | some s' => ({ c := { d.c with s := s' } }, "ok")
      | none => (d, "panic")
    | _, _, _ => (d, "bad-op")
  | ["spawn", t, k, v, h] =>
    match natArg t, hexArg k, hexArg v, natArg h with
    | some t, some k, some v, some h =>
      if t == d.c.ts.length then
        ({ c := { d.c with ts := d.c.ts ++ [{ key := k, v := v, h := h }] } }, "start")
      else (d, "bad-op")
    | _, _, _, _ => (d, "bad-op")
  | ["sched", lst] =>
    match (lst.splitOn ",").mapM (fun x => x.toNat?) with
    | some ts =>
      match schedSteps d ts [] with
      | some (d', toks) => (d', ",".intercalate toks)
      | none => (d, "bad-op")
    | none => (d, "bad-op")
  | ["finish"] =>
    let (d', toks) := schedFinish d 100000 0 []
    (d', if toks.isEmpty then "-" else ",".intercalate toks)
  | ["get", k] =>
    match hexArg k with
    | some k => let (v, ver) := d.c.s.get k; (d, toHex v ++ " " ++ toString ver)
    | none => (d, "bad-op")
  | ["height"] => (d, toString d.c.s.height)
  | ["tower"] =>
    (d, " | ".intercalate ((List.range d.c.s.height).map (fun i =>
          let l := d.c.s.level i
          if l.isEmpty then "-" else " ".intercalate (l.map toHex))))
  | ["dump"] =>
    (d, let l := d.c.s.toList
        if l.isEmpty then "-" else " ".intercalate (l.map itEntryStr))
  | _ => (d, "bad-op")

end Badger.Driver
