import BadgerModel.Vlog
import BadgerModel.Driver.Mvcc
/-! `gc` engine (property C15): the database model with a value log, driven one op per line; see
    harness/eng_gc.go. Ops that do not touch the value log are delegated to `mvccStep`. -/
namespace Badger.Driver

open Badger

structure GcHold where
  h : Nat
  txn : Nat
  ent : Ent
  deriving Inhabited

structure GcIterM where
  h : Nat
  txn : Nat
  items : List Ent               -- what the scan will yield (materialised by `Rewind`: PrefetchSize ≥ number of keys)
  vals : Option (List Bytes)     -- `PrefetchValues`: values read when the items were filled
  pos : Nat := 0
  deriving Inhabited

structure GcDrv where
  g : GcDb := { db := Db.init {} 0, vl := {} }
  holds : List GcHold := []
  iters : List GcIterM := []
  run : Option GcRun := none
  deriving Inhabited

def fmtPtr (e : Ent) : String :=
  if hasBit e.emeta bitValuePointer then
    let p := decodePtr e.val
    s!"{p.1}.{p.2}"
  else "-"

def fmtPEnt (vl : Vlog) (e : Ent) : String :=
  let v := match resolve vl e with
    | some b => toHex b
    | none => "READERR"
  s!"{toHex e.key}@{e.ver}:{e.emeta}:{e.umeta}:{e.exp}:{v}:{fmtPtr e}"

def fmtPDump (vl : Vlog) (l : Lsm) : String :=
  let lv := (zipIdx l.levels).filter (fun (_, ts) => !ts.isEmpty)
  let parts := lv.map (fun (i, ts) =>
    s!"L{i}" ++ String.join (ts.map (fun t => s!"[#{t.id} " ++ String.intercalate "," (t.ents.map (fmtPEnt vl)) ++ "]")))
  let mem := "M[" ++ String.intercalate "," (l.mem.map (fmtPEnt vl)) ++ "]"
  String.intercalate " " (mem :: parts)

def fmtNats (l : List Nat) : String :=
  if l.isEmpty then "-" else String.intercalate "," (l.map toString)

def fmtRec (r : VRec) : String :=
  s!"{toHex r.key}@{r.ver}:{r.rmeta}:{r.umeta}:{r.exp}:{toHex r.val}"

def fmtVlog (vl : Vlog) : String :=
  let fs := vl.files.map (fun f => s!" F{f.fid}[" ++ String.intercalate "," (f.recs.map fmtRec) ++ "]")
  s!"max={vl.maxFid} nw={vl.nWritten} tbd={fmtNats vl.tbd} it={vl.iterCount}" ++ String.join fs

/-- the item as the public API shows it, its value fetched through `yieldItemValue` -/
def fmtItemV (now : Nat) (e : Ent) (ver : Nat) (val : Bytes) : String :=
  fmtItem now { e with val := val } ver

/-- the error branch of `yieldItemValue`: a fresh read-only transaction (a begin/done pair on the
    read mark in normal mode) with a key iterator (opened and closed) is used to log the versions -/
def failedReadEffects (g : GcDb) : GcDb :=
  let d := g.db
  let d := if d.opts.managed then d else
    let rts := d.nextTs - 1
    { d with readMark := (d.readMark.begin rts).done rts }
  { g with db := d, vl := g.vl.iterOpen.iterClose }

/-- `item.ValueCopy` now -/
def readItemNow (g : GcDb) (e : Ent) : GcDb × Bytes :=
  match resolve g.vl e with
  | some b => (g, b)
  | none => (failedReadEffects g, [])

def gcErrStr : GcErr → String
  | .marked => "err:marked" | .nofile => "err:nofile" | .norewrite => "norewrite"

def endStr (moved : Nat) (now : Bool) : String :=
  s!"ok moved={moved} del={if now then "now" else "deferred"}"

def gcStep (s : GcDrv) (line : String) : GcDrv × String :=
  let g := s.g
  let d := g.db
  let viaMvcc : GcDrv × String :=
    let (d', o) := mvccStep d line
    ({ s with g := { g with db := d' } }, o)
  match words line with
  | "reset" :: rest =>
    let kv := kvArgs rest
    let o : Opts := {
      managed := argBool kv "managed", numKeep := argNat kv "keep" 1, threshold := argNat kv "thr" 16,
      inMemory := false, detectConflicts := true, vlogFileSize := 1 <<< 20,
      maxBatchCount := argNat kv "maxcount" 0, maxBatchSize := argNat kv "maxsize" 0,
      maxLevels := argNat kv "levels" 7 }
    ({ g := { db := Db.init o (argNat kv "now" 0), vl := Vlog.init (argNat kv "maxent" 1000000) } }, "ok")
  | ["get", id, k] =>
    match id.toNat?, fromHex k with
    | some id, some k =>
      let (d', r) := d.txnGet id k
      let g' := { g with db := d' }
      match r with
      | .found e ver =>
        let (g'', v) := readItemNow g' e
        ({ s with g := g'' }, "found " ++ fmtItemV d'.now e ver v)
      | .notfound => ({ s with g := g' }, "notfound")
      | .err m => ({ s with g := g' }, m)
    | _, _ => (s, "bad-op")
  | "commit" :: id :: cts :: rest =>
    match id.toNat?, cts.toNat? with
    | some id, some cts =>
      let (g', r) := g.commit id cts (hexList (argStr (kvArgs rest) "vorder"))
      ({ s with g := g' }, match r with
        | .ok ts => s!"ok {ts}"
        | .noop => "ok noop"
        | .conflict => "conflict"
        | .err m => m)
    | _, _ => (s, "bad-op")
  | ["discard", id] =>
    match id.toNat? with
    | some id =>
      -- the harness closes the transaction's iterators first
      let mine := s.iters.filter (·.txn == id)
      let vl := mine.foldl (fun vl _ => vl.iterClose) g.vl
      ({ s with g := { g with db := d.discardTxn id, vl := vl }, iters := s.iters.filter (·.txn != id) }, "ok")
    | none => (s, "bad-op")
  | "compact" :: rest =>
    let kv := kvArgs rest
    let thisL := argNat kv "this" 0
    let nextL := argNat kv "next" 0
    let idxOf (lvl : Nat) (id : Nat) : Option Nat :=
      ((zipIdx (d.lsm.levels.getD lvl [])).find? (fun (_, t) => t.id == id)).map (·.1)
    let topIds := natList (argStr kv "top")
    let botIds := natList (argStr kv "bot")
    let top := topIds.filterMap (idxOf thisL)
    let bot := botIds.filterMap (idxOf nextL)
    let news := (if argStr kv "new" == "" then [] else (argStr kv "new").splitOn ",").filterMap (fun w =>
      match w.splitOn ":" with
      | [i, c] => match i.toNat?, c.toNat? with
        | some i, some c => some (i, c)
        | _, _ => none
      | _ => none)
    if top.length != topIds.length || bot.length != botIds.length then
      (s, s!"mismatch tables-not-found this={thisL} next={nextL}")
    else
    let cd : CompactDef := {
      thisLevel := thisL, nextLevel := nextL, top, bot,
      outSizes := news.map (·.2), outIds := news.map (·.1), dropPrefixes := hexList (argStr kv "drop") }
    let dts := g.discardTs
    let (out, ov) := compactOutput d.lsm cd dts d.opts.numKeep d.now
    match d.lsm.compact cd dts d.opts.numKeep d.now with
    | some l => ({ s with g := { g with db := { d with lsm := l } } }, s!"ok discard={dts} overlap={if ov then 1 else 0}")
    | none =>
      (s, s!"mismatch discard={dts} overlap={ov} model-out={out.length} " ++
          String.intercalate "," (out.map (fmtPEnt g.vl)))
  | ["dump"] => (s, fmtPDump g.vl d.lsm)
  | ["vlog"] => (s, fmtVlog g.vl)
  | ["hold", h, id, k] =>
    match h.toNat?, id.toNat?, fromHex k with
    | some h, some id, some k =>
      let (d', r) := d.txnGet id k
      let g' := { g with db := d' }
      match r with
      | .found e ver =>
        let (g'', v) := readItemNow g' e
        ({ s with g := g'', holds := { h, txn := id, ent := { e with ver := ver } } :: s.holds.filter (·.h != h) },
          "held " ++ fmtItemV d'.now e ver v)
      | .notfound => ({ s with g := g', holds := s.holds.filter (·.h != h) }, "notfound")
      | .err m => ({ s with g := g' }, m)
    | _, _, _ => (s, "bad-op")
  | ["hread", h] =>
    match h.toNat?.bind (fun h => s.holds.find? (·.h == h)) with
    | some hd =>
      let (g', v) := readItemNow g hd.ent
      ({ s with g := g' }, "val " ++ toHex v)
    | none => (s, "nohold")
  | "iopen" :: h :: id :: rest =>
    match h.toNat?, id.toNat? with
    | some h, some id =>
      let kv := kvArgs rest
      let o : IterOpts := { reverse := argBool kv "rev", allVersions := argBool kv "all" }
      match d.findTxn id with
      | none => (s, "err:discarded")
      | some t =>
        if t.discarded || (s.iters.any (·.h == h)) then (s, "err:discarded") else
        match d.iterate id o none with
        | none => (s, "err:discarded")
        | some items =>
          let vl := g.vl.iterOpen
          let vals := if argBool kv "prefetch" then some (items.map (itemValue vl)) else none
          ({ s with g := { g with vl := vl }, iters := { h, txn := id, items, vals } :: s.iters }, "ok")
    | _, _ => (s, "bad-op")
  | ["inext", h] =>
    match h.toNat?.bind (fun h => s.iters.find? (·.h == h)) with
    | none => (s, "noiter")
    | some it =>
      match it.items[it.pos]? with
      | none => (s, "end")
      | some e =>
        let (g', v) := match it.vals with
          | some vs => (g, vs.getD it.pos [])
          | none => readItemNow g e
        -- `Item()` records the read for conflict detection
        let d' := g'.db
        let d' := match d'.findTxn it.txn with
          | some t => if t.update then d'.setTxn { t with reads := e.key :: t.reads } else d'
          | none => d'
        let its := s.iters.map (fun x => if x.h == it.h then { x with pos := x.pos + 1 } else x)
        ({ s with g := { g' with db := d' }, iters := its }, "item " ++ fmtItemV d.now e e.ver v)
  | ["iclose", h] =>
    match h.toNat?.bind (fun h => s.iters.find? (·.h == h)) with
    | none => (s, "noiter")
    | some it => ({ s with g := { g with vl := g.vl.iterClose }, iters := s.iters.filter (·.h != it.h) }, "ok")
  | "gc" :: rest =>
    let kv := kvArgs rest
    let fid := argNat kv "fid" 0
    if s.run.isSome then (s, "rejected")
    else if fid == 0 then (s, "norewrite")
    else
      match g.gcBegin fid with
      | .error e => (s, gcErrStr e)
      | .ok (g1, run) =>
        let (g2, moved, now) := g1.gcEnd run
        ({ s with g := g2 }, endStr moved now)
  | "gcbegin" :: rest =>
    -- `at=K`: parked inside the scan after K records (when the file holds more than K records)
    let kv := kvArgs rest
    let fid := argNat kv "fid" 0
    if s.run.isSome then (s, "rejected")
    else
      match kv.find? (·.1 == "at") with
      | none =>
        match g.gcBegin fid with
        | .error e => (s, gcErrStr e)
        | .ok (g1, run) => ({ s with g := g1, run := some run }, "parked")
      | some _ =>
        let k := argNat kv "at" 0
        match g.gcBeginAt fid k with
        | .error e => (s, gcErrStr e)
        | .ok (g1, run) =>
          ({ s with g := g1, run := some run }, if run.rest.isEmpty then "parked" else s!"parked scanned={k}")
  | ["gccont"] =>
    match s.run with
    | none => (s, "norun")
    | some run =>
      if run.rest.isEmpty then (s, "noscan")
      else ({ s with run := some (g.gcCont run) }, "parked")
  | ["gcend"] =>
    match s.run with
    | none => (s, "norun")
    | some run =>
      let run := if run.rest.isEmpty then run else g.gcCont run
      let (g2, moved, now) := g.gcEnd run
      ({ s with g := g2, run := none }, endStr moved now)
  | _ => viaMvcc

end Badger.Driver
