import BadgerModel.Protocol
import BadgerModel.Driver.Util
/-! `crash` engine: the durability protocol and recovery, one logical step per line
    (see harness/eng_crash.go). Output of a step line = the persistence events the step
    emits (`W:` writer thread, `F:` flusher, or `S:` strictly sequential); output of a
    `crash` line = what `Open` finds in the directory image at that crash point. -/
namespace Badger.Driver

open Badger

def kvArgsC (ws : List String) : List (String × String) :=
  ws.filterMap (fun w => match w.splitOn "=" with
    | [k, v] => some (k, v)
    | _ => none)

def argNatC (kv : List (String × String)) (k : String) (dflt : Nat) : Nat :=
  match kv.find? (·.1 == k) with
  | some (_, v) => v.toNat?.getD dflt
  | none => dflt

def argStrC (kv : List (String × String)) (k : String) : String :=
  match kv.find? (·.1 == k) with
  | some (_, v) => v
  | none => ""

def pathTok : Path → String
  | .mem n => s!"mem{n}"
  | .vlog n => s!"vlog{n}"
  | .sst n => s!"sst{n}"
  | .manifest => "MANIFEST"
  | .manifestRewrite => "MANIFEST-REWRITE"
  | .keyRegistry => "KEYREGISTRY"
  | .keyRegistryRewrite => "REWRITE-KEYREGISTRY"

/-- split a list of `FsOp`s into persistence events (library calls) -/
partial def atomize : List FsOp → List (List FsOp)
  | [] => []
  | .create p :: .extend q :: rest => if p = q then [.create p, .extend q] :: atomize rest else [.create p] :: atomize (.extend q :: rest)
  | .truncate p 0 :: .unlink q :: rest => if p = q then [.truncate p 0, .unlink q] :: atomize rest else [.truncate p 0] :: atomize (.unlink q :: rest)
  | .append .manifestRewrite c :: .append .manifestRewrite d :: rest =>
    match atomize (.append .manifestRewrite d :: rest) with
    | a :: as => (.append .manifestRewrite c :: a) :: as
    | [] => [[.append .manifestRewrite c]]
  | op :: rest => [op] :: atomize rest

/-- the event token of one atom -/
def atomTok : List FsOp → String
  | [.create p, .extend _] => "create:" ++ pathTok p
  | [.create p] => "create:" ++ pathTok p
  | [.truncate p 0, .unlink _] => "delete:" ++ pathTok p
  | [.sync p, .truncate _ _] => "close:" ++ pathTok p ++ ":trunc"
  | .append p _ :: _ => "write:" ++ pathTok p
  | [.zero p] => "zero:" ++ pathTok p
  | [.truncate p _] => "truncate:" ++ pathTok p
  | [.sync p] => "sync:" ++ pathTok p
  | [.rename _ b] => "rename:" ++ pathTok b
  | [.unlink p] => "remove:" ++ pathTok p
  | [.syncDir] => "syncdir"
  | _ => "?"

structure StepRec where
  fs0 : Fs
  w : List (List FsOp)
  f : List (List FsOp)

structure CrashDrv where
  m : MState := {}
  thr : Nat := 32
  steps : List StepRec := []      -- oldest first
  vals : List ((Bytes × Nat) × CEnt) := []   -- every committed entry by (key, version)
  opened : Bool := false
  roDigest : Option String := none

def toks (as : List (List FsOp)) : String := String.intercalate " " (as.map atomTok)

/-- run the writer to the end of its program, collecting the non-empty atoms -/
partial def runW (m : MState) (acc : List (List FsOp)) : MState × List (List FsOp) :=
  if m.p.wq.isEmpty then (m, acc) else
  let (ops, p') := m.p.step .w
  runW { p := p', fs := m.fs.run ops } (if ops.isEmpty then acc else acc ++ [ops])

/-- run the flusher until no immutable memtable is left -/
partial def runF (m : MState) (acc : List (List FsOp)) : MState × List (List FsOp) :=
  if m.p.imm.isEmpty then (m, acc) else
  let (ops, p') := m.p.step .f
  runF { p := p', fs := m.fs.run ops } (if ops.isEmpty then acc else acc ++ [ops])

def parseEnts (thr : Nat) (s : String) : List CEnt :=
  if s == "-" || s == "" then [] else
  (s.splitOn ",").filterMap (fun p =>
    match p.splitOn ":" with
    | [k, d, v] =>
      match fromHex k, fromHex v with
      | some k, some v =>
        let del := d == "1"
        some { key := k, ver := 0, del := del, val := v, vfid := if !del && v.length ≥ thr then 1 else 0 }
      | _, _ => none
    | _ => none)

/-! ## canonical dump of a recovered state -/

def fnvStep (h : UInt64) (c : Char) : UInt64 := (h ^^^ (UInt64.ofNat c.toNat)) * 1099511628211

def fnv64 (s : String) : UInt64 := s.foldl fnvStep 14695981039346656037

def hex64 (x : UInt64) : String :=
  String.ofList ((List.range 16).map (fun i => hexDigit ((x.toNat / 16 ^ (15 - i)) % 16)))

def entLe (a b : CEnt) : Bool :=
  match cmpBytes a.key b.key with
  | .lt => true
  | .gt => false
  | .eq => b.ver ≤ a.ver

def dedupSorted : List CEnt → List CEnt
  | a :: b :: rest => if a.key = b.key ∧ a.ver = b.ver then dedupSorted (b :: rest) else a :: dedupSorted (b :: rest)
  | l => l

def canonEntsR (readable : CEnt → Bool) (es : List CEnt) : String :=
  String.join ((dedupSorted (es.mergeSort entLe)).map (fun e =>
    s!"{toHex e.key}@{e.ver}:{if e.del then 1 else 0}:{if readable e then toHex e.val else "!"};"))

def canonEnts (es : List CEnt) : String := canonEntsR (fun _ => true) es

/-- duplicates of one (key, version) (a value-log GC write-back next to the original entry):
    the dump shows a readable copy when there is one -/
def preferReadable (readable : CEnt → Bool) (es : List CEnt) : List CEnt :=
  es.filter readable ++ es.filter (fun e => !readable e)

/-- `dedupSorted` keeps the last of equal neighbours; feed it the preferred copy last -/
def digestOf (r : RState) : String :=
  let all := (preferReadable r.readable r.entries).reverse
  let es := dedupSorted (all.mergeSort entLe)
  s!"ok next={r.nextTxnTs} n={es.length} h={hex64 (fnv64 (canonEntsR r.readable all))}"

def recoverLine (fs : Fs) : String :=
  match recover false (crashKill fs) with
  | .ok r => digestOf r
  | .error e => "err:" ++ e.str

/-! ## close / reopen -/

/-- `DB.close`: flush (or drop) the active memtable, close the value log (msync, truncate the
    newest file to its write offset), close the tables (msync), fsync the directories. -/
def closeAtoms (m : MState) : MState × List (List FsOp) × List (List FsOp) :=
  let p := m.p
  let (m1, a1) :=
    if (p.memEnts p.cur).isEmpty then
      let ops := delFile (.mem p.cur)
      ({ m with fs := m.fs.run ops }, [ops])
    else
      let m' : MState := { m with p := Atom.eff p .pushImm }
      runF m' []
  let img := crashKill m1.fs
  let vl := img.vlogs
  let vmax := lastFid vl
  let vAtoms := vl.map (fun (fid, f) =>
    if fid = vmax then [FsOp.sync (.vlog fid), .truncate (.vlog fid) f.chunks.length] else [FsOp.sync (.vlog fid)])
  let tAtoms := (img.ssts.filter (fun x => (aget x.1 m1.p.tset).isSome)).map (fun (id, _) => [FsOp.sync (.sst id)])
  let rest := vAtoms ++ tAtoms ++ [[.syncDir], [.syncDir]]
  ({ m1 with fs := m1.fs.run rest.flatten }, a1, rest)

def closeTok (a : List FsOp) : String :=
  match a with
  | [.sync (.vlog n)] => s!"close:vlog{n}"
  | [.sync (.sst n)] => s!"close:sst{n}"
  | _ => atomTok a

/-- logical state after `Open` found `r` -/
def stateOfRecover (cfg : Cfg) (r : RState) (old : PState) : PState :=
  { cfg := cfg, nextTs := r.nextTxnTs, cur := r.nextMemFid, curOpen := true, curHdr := true, nextMem := r.nextMemFid + 1,
    imm := r.imms.map (·.1),
    mtxns := r.imms.map (fun (fid, es) => (fid, [{ ts := 0, ents := es }])),
    nextSst := r.nextSstId,
    tset := r.tables.map (fun t => (t.id, t.level)),
    tcont := r.tables.map (fun t => (t.id, t.ents)),
    vfid := r.vlogFid, vcount := 0, vchunks := 1,
    commits := old.commits, done := old.done, acked := old.acked }

def crashStep (d : CrashDrv) (line : String) : CrashDrv × String :=
  match words line with
  | "reset" :: rest =>
    let kv := kvArgsC rest
    let cfg : Cfg := { syncWrites := argNatC kv "sync" 1 != 0, vlogMaxEntries := argNatC kv "vmax" 1000 }
    let m := MState.init cfg
    let w := atomize firstOpenOps
    ({ m := m, thr := argNatC kv "thr" 32, steps := [{ fs0 := {}, w := w, f := [] }], opened := true },
     "W: " ++ toks w ++ " | F: ")
  | ["commit", ents, rot] =>
    let es := parseEnts d.thr ents
    let r := rot == "rot=1"
    let ts := d.m.p.nextTs
    let fs0 := d.m.fs
    let stamped := stamp d.m.p es
    let m1 := d.m.step (.commit es r)
    let (m2, w) := runW m1 []
    let (m3, f) := runF m2 []
    ({ d with m := m3, steps := d.steps ++ [{ fs0 := fs0, w := w, f := f }],
              vals := stamped.map (fun e => ((e.key, e.ver), e)) ++ d.vals },
     s!"ts={ts} W: {toks w} | F: {toks f}")
  | "batch" :: rotsS :: reqs =>
    -- `batch`: the first commit is served alone (it is the one the writer is stuck on while the
    -- others queue up), the remaining ones by ONE `writeRequests` call: `valueLog.write` for
    -- all of them (one deferred msync of the value log at the end), then per request
    -- `ensureRoomForWrite` (memtable rotation when full) and `writeToLSM` (WAL records, end
    -- marker, **msync of the WAL the request went to**); all are acknowledged at the end.
    let rots := (rotsS.drop 5).toString.splitOn ";" |>.filterMap (·.toNat?)
    let fs0 := d.m.fs
    let ts0 := d.m.p.nextTs
    match reqs with
    | [] => (d, "bad-op")
    | r0 :: rest =>
      -- first request: an ordinary commit
      let es0 := parseEnts d.thr r0
      let st0 := stamp d.m.p es0
      let m1 := d.m.step (.commit es0 (rots.headD 0 != 0))
      let (m2, w0) := runW m1 []
      -- the batch: timestamps are allocated when the commits are issued, in order
      let rec vl (m : MState) (rs : List String) (ts : Nat) (txns : List Txn) (acc : List (List FsOp)) :
          MState × List Txn × List (List FsOp) :=
        match rs with
        | [] => (m, txns, acc)
        | r :: rs' =>
          let es := (parseEnts d.thr r).map (fun e => { e with ver := ts, vfid := if e.vfid ≠ 0 then m.p.vfid else 0 })
          let t : Txn := { ts := ts, ents := es }
          let (m', a) := runW { m with p := { m.p with wq := vlogReqProg m.p t } } []
          vl m' rs' (ts + 1) (txns ++ [t]) (acc ++ a)
      let (m3, txns, wv) := vl m2 rest (ts0 + 1) [] []
      let vsync := if m3.p.cfg.syncWrites && !rest.isEmpty then [[FsOp.sync (.vlog m3.p.vfid)]] else []
      let m3 : MState := { m3 with fs := m3.fs.run vsync.flatten }
      let rec wl (m : MState) (ts : List Txn) (rts : List Nat) (acc : List (List FsOp)) : MState × List (List FsOp) :=
        match ts with
        | [] => (m, acc)
        | t :: ts' =>
          let rot := rts.headD 0 != 0
          let p := m.p
          let fid := if rot then p.nextMem else p.cur
          let p' : PState := { p with nextTs := t.ts + 1, commits := p.commits ++ [t], inflight := some t,
                                      wq := (if rot then rotateProg p else []) ++ walProg p fid t }
          let (m', a) := runW { m with p := p' } []
          wl m' ts' (rts.drop 1) (acc ++ a)
      let (m4, ww) := wl m3 txns (rots.drop 1) []
      let (m5, f) := runF m4 []
      let w := w0 ++ wv ++ vsync ++ ww
      let newVals := (st0 ++ (txns.map (·.ents)).flatten).map (fun e => ((e.key, e.ver), e))
      ({ d with m := m5, steps := d.steps ++ [{ fs0 := fs0, w := w, f := f }], vals := newVals ++ d.vals },
       s!"ts={ts0} W: {toks w} | F: {toks f}")
  | ["flush"] =>
    let fs0 := d.m.fs
    let m1 := d.m.step .flushReq
    let (m2, w) := runW m1 []
    let (m3, f) := runF m2 []
    ({ d with m := m3, steps := d.steps ++ [{ fs0 := fs0, w := w, f := f }] }, s!"W: {toks w} | F: {toks f}")
  | "compact" :: rest =>
    let kv := kvArgsC rest
    let dels := (argStrC kv "del").splitOn "," |>.filterMap (·.toNat?)
    -- outs=<level>/<key>@<ver>+<key>@<ver>,...   (one item per new table, in id order)
    let outsS := argStrC kv "outs"
    let outs : List (Nat × List CEnt) :=
      if outsS == "" || outsS == "-" then [] else
      (outsS.splitOn ",").map (fun o =>
        match o.splitOn "/" with
        | [lv, es] =>
          (lv.toNat?.getD 0, (es.splitOn "+").filterMap (fun kvs =>
            match kvs.splitOn "@" with
            | [k, v] =>
              match fromHex k, v.toNat? with
              | some k, some v => (d.vals.find? (fun x => x.1 == (k, v))).map (·.2)
              | _, _ => none
            | _ => none))
        | _ => (0, []))
    let fs0 := d.m.fs
    let m1 := d.m.step (.compact dels outs)
    let (m2, w) := runW m1 []
    ({ d with m := m2, steps := d.steps ++ [{ fs0 := fs0, w := w, f := [] }] }, "S: " ++ toks w)
  | "gc-none" :: _ =>
    ({ d with steps := d.steps ++ [{ fs0 := d.m.fs, w := [], f := [] }] }, "none")
  | "gc" :: rest =>
    -- value-log GC (`valueLog.rewrite`) of file `fid`: the live entries are written back in
    -- batches through `batchSet` (value log again, then WAL records *without* transaction bits,
    -- original versions), then the file is deleted
    let kv := kvArgsC rest
    let fid := argNatC kv "fid" 0
    let moved : List CEnt := ((argStrC kv "moved").splitOn "+").filterMap (fun kvs =>
      match kvs.splitOn "@" with
      | [k, v] =>
        match fromHex k, v.toNat? with
        | some k, some v => (d.vals.find? (fun x => x.1 == (k, v))).map (·.2)
        | _, _ => none
      | _ => none)
    let sizes := ((argStrC kv "batches").splitOn ";").filterMap (·.toNat?)
    let rots := ((argStrC kv "rots").splitOn ";").filterMap (·.toNat?)
    let fs0 := d.m.fs
    let rec go (m : MState) (vals : List ((Bytes × Nat) × CEnt)) (rest : List CEnt) (szs rts : List Nat)
        (acc : List (List FsOp)) (fuel : Nat) : MState × List ((Bytes × Nat) × CEnt) × List (List FsOp) :=
      match fuel, szs with
      | 0, _ => (m, vals, acc)
      | _, [] => (m, vals, acc)
      | fuel + 1, k :: szs' =>
        let batch := (rest.take k).map (fun e => { e with vfid := m.p.vfid })
        let t : Txn := { ts := 0, ents := batch }
        let rot := rts.headD 0 != 0
        let m1 : MState := { m with p := { m.p with wq := vlogProg m.p t ++ (if rot then rotateProg m.p else []) } }
        let (m2, a1) := runW m1 []
        let cur := m2.p.cur
        let walAtoms := (batch.map (fun e => [[FsOp.append (.mem cur) (.walPlain e)], [FsOp.zero (.mem cur)]])).flatten ++
          (if m2.p.cfg.syncWrites then [[FsOp.sync (.mem cur)]] else [])
        let m3 : MState := { p := { m2.p with mtxns := aset cur (m2.p.memTxns cur ++ [t]) m2.p.mtxns },
                             fs := m2.fs.run walAtoms.flatten }
        go m3 (batch.map (fun e => ((e.key, e.ver), e)) ++ vals) (rest.drop k) szs' (rts.drop 1) (acc ++ a1 ++ walAtoms) fuel
    let (m1, vals, a) := go d.m d.vals moved sizes rots [] (sizes.length + 1)
    let del := delFile (.vlog fid)
    let m2 : MState := { m1 with fs := m1.fs.run del }
    let (m3, f) := runF m2 []
    ({ d with m := m3, vals := vals, steps := d.steps ++ [{ fs0 := fs0, w := a ++ [del], f := f }] },
     s!"W: {toks (a ++ [del])} | F: {toks f}")
  | "compact-none" :: _ =>
    ({ d with steps := d.steps ++ [{ fs0 := d.m.fs, w := [], f := [] }] }, "none")
  | "crashes" :: _ => (d, "ok")
  | ["c07"] => (d, "ok")
  | ["reopen"] => (d, "ok")
  | "realkill" :: _ => (d, "checked")
  | ["close"] =>
    let fs0 := d.m.fs
    let (m1, a1, a2) := closeAtoms d.m
    ({ d with m := m1, steps := d.steps ++ [{ fs0 := fs0, w := a1 ++ a2, f := [] }] },
     "S: " ++ String.intercalate " " (a1.map atomTok ++ a2.map closeTok))
  | ["open"] =>
    let fs0 := d.m.fs
    match recover false (crashKill fs0) with
    | .error e => (d, "err:open:" ++ e.str)
    | .ok r =>
      let w := atomize r.ops
      let m1 : MState := { p := stateOfRecover d.m.p.cfg r d.m.p, fs := fs0.run r.ops }
      let (m2, f) := runF m1 []
      ({ d with m := m2, steps := d.steps ++ [{ fs0 := fs0, w := w, f := f }] }, s!"W: {toks w} | F: {toks f}")
  | "crash" :: rest =>
    let kv := kvArgsC rest
    if argNatC kv "same" 0 == 1 then (d, "same") else
    if argNatC kv "racy" 0 == 1 then (d, "judged") else
    let s := argNatC kv "step" 0
    let a := argNatC kv "w" 0
    let b := argNatC kv "f" 0
    match d.steps[s]? with
    | none => (d, "bad-op")
    | some sr =>
      let sub := argStrC kv "sub"
      if sub == "" then
        (d, recoverLine (sr.fs0.run ((sr.w.take a).flatten ++ (sr.f.take b).flatten)))
      else
        -- the event itself is the a-th writer (or b-th flusher) atom; only its first system
        -- call has happened
        let isF := argStrC kv "actor" == "F"
        let (a', b') := if isF then (a, b - 1) else (a - 1, b)
        let atom := if isF then sr.f.getD (b - 1) [] else sr.w.getD (a - 1) []
        (d, recoverLine (sr.fs0.run ((sr.w.take a').flatten ++ (sr.f.take b').flatten ++ atom.take 1)))
  | ["open-ro"] =>
    match recover true (crashKill d.m.fs) with
    | .error e => (d, "err:open:" ++ e.str)
    | .ok r =>
      let w := atomize r.ops
      let dg := digestOf r
      ({ d with steps := d.steps ++ [{ fs0 := d.m.fs, w := w, f := [] }], roDigest := some dg,
                m := { d.m with fs := d.m.fs.run r.ops } },
       s!"W: {toks w} | F: ")
  | ["close-ro"] =>
    let img := crashKill d.m.fs
    let vAtoms := img.vlogs.map (fun (fid, _) => [FsOp.sync (.vlog fid)])
    let tAtoms := (img.ssts.filter (fun x => (aget x.1 d.m.p.tset).isSome)).map (fun (id, _) => [FsOp.sync (.sst id)])
    let a := vAtoms ++ tAtoms ++ [[.syncDir], [.syncDir]]
    ({ d with steps := d.steps ++ [{ fs0 := d.m.fs, w := a, f := [] }], m := { d.m with fs := d.m.fs.run a.flatten } },
     "S: " ++ String.intercalate " " (a.map closeTok))
  | ["dump"] =>
    match d.roDigest with
    | some dg => ({ d with roDigest := none }, dg)
    | none =>
      let es := dedupSorted (d.m.p.lsmEnts.mergeSort entLe)
      (d, s!"ok next={d.m.p.nextTs} n={es.length} h={hex64 (fnv64 (canonEnts d.m.p.lsmEnts))}")
  | "power" :: rest =>
    let kv := kvArgsC rest
    let s := argNatC kv "step" 0
    let a := argNatC kv "w" 0
    let b := argNatC kv "f" 0
    match d.steps[s]? with
    | none => (d, "bad-op")
    | some sr =>
      let fs := sr.fs0.run ((sr.w.take a).flatten ++ (sr.f.take b).flatten)
      let items := (argStrC kv "lost").splitOn ","
      let pathOf (t : String) : Option Path :=
        if t.startsWith "mem" then (t.drop 3).toNat?.map Path.mem
        else if t.startsWith "vlog" then (t.drop 4).toNat?.map Path.vlog
        else if t.startsWith "sst" then (t.drop 3).toNat?.map Path.sst
        else if t == "MANIFEST" then some .manifest
        else if t == "MANIFEST-REWRITE" then some .manifestRewrite
        else if t == "KEYREGISTRY" then some .keyRegistry
        else if t == "REWRITE-KEYREGISTRY" then some .keyRegistryRewrite
        else none
      let lostEntries := items.filterMap (fun it => if it.startsWith "entry:" then pathOf (it.drop 6).toString else none)
      let lostDataP := items.filterMap (fun it => if it.startsWith "data:" then pathOf (it.drop 5).toString else none)
      -- a data item names the file by its volatile name, or by its durable name when it has
      -- been unlinked already
      let lostInos := lostDataP.filterMap (fun p => match aget p fs.dir with | some i => some i | none => aget p fs.ddir)
      let img := crashPowerWith fs (fun p => !lostEntries.contains p) (fun i => !lostInos.contains i)
      (d, match recover false img with
        | .ok r => digestOf r
        | .error e => "err:" ++ e.str)
  | _ => (d, "bad-op")

end Badger.Driver
