import BadgerModel.Mvcc
import BadgerModel.Drop
import BadgerModel.Picker
import BadgerModel.IterPick
import BadgerModel.Reopen
import BadgerModel.Namespace
import BadgerModel.Driver.Util
/-! `mvcc` engine: the whole-database model driven by one op per line (see harness/eng_mvcc.go). -/
namespace Badger.Driver

open Badger

def kvArgs (ws : List String) : List (String × String) :=
  ws.filterMap (fun w => match w.splitOn "=" with
    | [k, v] => some (k, v)
    | _ => none)

def argNat (kv : List (String × String)) (k : String) (dflt : Nat) : Nat :=
  match kv.find? (·.1 == k) with
  | some (_, v) => v.toNat?.getD dflt
  | none => dflt

def argBool (kv : List (String × String)) (k : String) : Bool := argNat kv k 0 != 0

def natList (s : String) : List Nat :=
  if s == "" || s == "-" then [] else (s.splitOn ",").filterMap (·.toNat?)

def hexList (s : String) : List Bytes :=
  if s == "" || s == "none" then [] else (s.splitOn ",").filterMap fromHex

def argStr (kv : List (String × String)) (k : String) : String :=
  match kv.find? (·.1 == k) with
  | some (_, v) => v
  | none => ""

def fmtEnt (e : Ent) : String :=
  s!"{toHex e.key}@{e.ver}:{e.emeta}:{e.umeta}:{e.exp}:{toHex e.val}"

def fmtDump (l : Lsm) : String :=
  let lv := (zipIdx l.levels).filter (fun (_, ts) => !ts.isEmpty)
  let parts := lv.map (fun (i, ts) =>
    s!"L{i}" ++ String.join (ts.map (fun t => s!"[#{t.id} " ++ String.intercalate "," (t.ents.map fmtEnt) ++ "]")))
  let mem := "M[" ++ String.intercalate "," (l.mem.map fmtEnt) ++ "]"
  String.intercalate " " (mem :: parts)

/-- what the public `Item` API shows: version, user meta, expiry, flags (`d` deleted-or-expired,
    `D` discard-earlier-versions), value. -/
def fmtItem (now : Nat) (e : Ent) (ver : Nat) : String :=
  let f1 := if deletedOrExpired e.emeta e.exp now then "d" else ""
  let f2 := if hasBit e.emeta bitDiscardEarlier then "D" else ""
  let fl := if f1 ++ f2 == "" then "." else f1 ++ f2
  s!"{toHex e.key}@{ver}:{e.umeta}:{e.exp}:{fl}:{toHex e.val}"

def mvccStepW (d : Db) (ws : List String) : Db × String :=
  match ws with
  | "reset" :: rest =>
    let kv := kvArgs rest
    let o : Opts := {
      managed := argBool kv "managed", numKeep := argNat kv "keep" 1, threshold := argNat kv "thr" 1024,
      inMemory := argBool kv "inmem", detectConflicts := argNat kv "detect" 1 != 0,
      vlogFileSize := argNat kv "vlogsz" (1 <<< 30), maxBatchCount := argNat kv "maxcount" 0,
      maxBatchSize := argNat kv "maxsize" 0, maxLevels := argNat kv "levels" 7,
      nsOffset := if argStr kv "nsoff" == "" then none else (argStr kv "nsoff").toNat? }
    (Db.init o (argNat kv "now" 0), "ok")
  | "now" :: t :: _ => ({ d with now := t.toNat?.getD d.now }, "ok")
  -- the harness waits for the wall clock to pass a pending expiry; the new time arrives as `now T`
  | "sleepuntil" :: _ => (d, "ok")
  | ["begin", id, upd, rts] =>
    match id.toNat?, upd.toNat?, rts.toNat? with
    | some id, some upd, some rts =>
      let (d, r) := d.begin id (upd != 0) rts
      (d, s!"ok {r}")
    | _, _, _ => (d, "bad-op")
  | ["set", id, k, m, um, exp, v, ver] =>
    match id.toNat?, fromHex k, m.toNat?, um.toNat?, exp.toNat?, fromHex v, ver.toNat? with
    | some id, some k, some m, some um, some exp, some v, some ver =>
      let (d, r) := d.modifyNs id { key := k, ver, emeta := m, umeta := um, exp, val := v }
      (d, match r with | none => "ok" | some e => e.str)
    | _, _, _, _, _, _, _ => (d, "bad-op")
  | ["get", id, k] =>
    match id.toNat?, fromHex k with
    | some id, some k =>
      let (d, r) := d.txnGetNs id k
      (d, match r with
        | .found e ver => "found " ++ fmtItem d.now e ver
        | .notfound => "notfound"
        | .err s => s)
    | _, _ => (d, "bad-op")
  | ["commit", id, cts] =>
    match id.toNat?, cts.toNat? with
    | some id, some cts =>
      let (d, r) := d.commit id cts
      (d, match r with
        | .ok ts => s!"ok {ts}"
        | .noop => "ok noop"
        | .conflict => "conflict"
        | .err s => s)
    | _, _ => (d, "bad-op")
  -- several commits issued while the write pipeline is parked and then written by one
  -- writeRequests call: timestamps and conflict checks happen at issue time, in this order, so the
  -- sequential model applies them one after the other
  | "batchcommit" :: items =>
    let (d, outs) := items.foldl (fun (acc : Db × List String) (w : String) =>
      let (d, outs) := acc
      match w.splitOn ":" with
      | [id, cts] =>
        match id.toNat?, cts.toNat? with
        | some id, some cts =>
          let (d, r) := d.commit id cts
          (d, outs ++ [match r with
            | .ok ts => s!"ok {ts}"
            | .noop => "ok noop"
            | .conflict => "conflict"
            | .err s => s])
        | _, _ => (d, outs ++ ["bad-op"])
      | _ => (d, outs ++ ["bad-op"])) (d, [])
    (d, String.intercalate ";" outs)
  | ["discard", id] =>
    match id.toNat? with
    | some id => (d.discardTxn id, "ok")
    | none => (d, "bad-op")
  | "iter" :: id :: rest =>
    match id.toNat? with
    | some id =>
      let kv := kvArgs rest
      let o : IterOpts := {
        reverse := argBool kv "rev", allVersions := argBool kv "all", internalAccess := argBool kv "internal",
        prefix_ := (fromHex (argStr kv "prefix")).getD [], sinceTs := argNat kv "since" 0,
        prefixIsKey := argBool kv "iskey" }
      let o := if o.prefixIsKey then { o with allVersions := true } else o
      let seekS := argStr kv "seek"
      let seek : Option Bytes := if seekS == "rewind" then none else fromHex seekS
      -- the iterator over the tables the code picks (pickTable / pickTables); the bloom answer is
      -- not exposed: `false` (no table excluded by the filter) is sound for forward key iterators
      match d.iteratePickedNs id o seek (fun _ => false), d.findTxn id with
      | some items, some t =>
        -- `Seek(key)` and every `Item()` call record a read (conflict detection)
        let newReads := (match seek with | some k => if k.isEmpty then [] else [k] | none => []) ++ items.map (·.key)
        let d := if t.update then d.setTxn { t with reads := newReads ++ t.reads } else d
        (d, "items " ++ String.intercalate ";" (items.map (fun e => fmtItem d.now e e.ver)))
      | _, _ => (d, "err:discarded")
    | none => (d, "bad-op")
  | "flush" :: rest =>
    let kv := kvArgs rest
    ({ d with lsm := d.lsm.flush (argNat kv "id" 0) }, "ok")
  | ["setdiscard", ts] =>
    match ts.toNat? with
    | some ts => (({ d with discardTs := ts } : Db).cleanup, "ok")
    | none => (d, "bad-op")
  | "compact" :: rest =>
    -- tables are named by file id; `new=id:count,…` are the tables the implementation produced
    let kv := kvArgs rest
    let thisL := argNat kv "this" 0
    let nextL := argNat kv "next" 0
    let idxOf (lvl : Nat) (id : Nat) : Option Nat :=
      ((zipIdx (d.lsm.levels.getD lvl [])).find? (fun (_, t) => t.id == id)).map (·.1)
    let topIds := natList (argStr kv "top")
    let botIds := natList (argStr kv "bot")
    let top := topIds.filterMap (idxOf thisL)
    let bot := botIds.filterMap (idxOf nextL)
    let news := (if argStr kv "new" == "" then [] else (argStr kv "new").splitOn ",").filterMap (fun w =>
      match w.splitOn ":" with
      | [i, c] => match i.toNat?, c.toNat? with
        | some i, some c => some (i, c)
        | _, _ => none
      | _ => none)
    if top.length != topIds.length || bot.length != botIds.length then
      (d, s!"mismatch tables-not-found this={thisL} next={nextL}")
    else
    let cd : CompactDef := {
      thisLevel := thisL, nextLevel := nextL, top, bot,
      outSizes := news.map (·.2), outIds := news.map (·.1), dropPrefixes := hexList (argStr kv "drop") }
    -- `lag=N`: compactions run inside DropPrefix read the discard watermark while the read mark of
    -- DropPrefix's own View may still be in flight (the watermark is processed asynchronously);
    -- the implementation's value N is accepted when it is not above the model's (a lower
    -- watermark only keeps more versions). Explicit compactions carry no `lag` and must agree.
    let dtsModel := d.discardAtOrBelow
    let dts := match (kv.find? (·.1 == "lag")).bind (·.2.toNat?) with
      | some n => if n ≤ dtsModel then n else dtsModel
      | none => dtsModel
    let (out, ov) := compactOutput d.lsm cd dts d.opts.numKeep d.now
    match d.lsm.compact cd dts d.opts.numKeep d.now with
    | some l =>
      -- the tables taken must be ones the production pickers can take (Picker.lean)
      match choiceProblem d.lsm cd, (if nextL == 0 then none else cutProblem cd.outSizes out) with
      | none, none => ({ d with lsm := l }, s!"ok discard={dts} overlap={if ov then 1 else 0}")
      | some msg, _ => ({ d with lsm := l }, s!"invalid-choice {msg}")
      | none, some k => ({ d with lsm := l }, s!"invalid-cut user key {toHex k} is spread over two output tables")
    | none =>
      (d, s!"mismatch discard={dts} overlap={ov} model-out={out.length} " ++
          String.intercalate "," (out.map fmtEnt))
  | "compact-none" :: _ => (d, "none")
  -- DropPrefix itself only blocks writes and flushes the memtables unfiltered; the flush and
  -- the prefix-dropping compactions arrive as their own `flush`/`compact … drop=` lines
  -- (`filterPrefixesToDrop` runs one read-only `View` per prefix: a begin/done pair on the read mark)
  | "dropprefix" :: ps =>
    let d := ps.foldl (fun (d : Db) _ =>
      if d.opts.managed then d else
      let rts := d.nextTs - 1
      { d with readMark := (d.readMark.begin rts).done rts }) d
    (d, "ok")
  -- DropAll ends with `db.threshold.Clear(db.opt)`; in InMemory mode `db.opt.ValueThreshold` was
  -- overwritten with MaxInt32 by Open, so from then on `valueThreshold()` is MaxInt32 (finding F18)
  -- the table groups `dropPrefixes` is going to rewrite on levels ≥ 1 (bottom-up), by file id
  | "dropplan" :: ps =>
    let pfx := (ps.filter (fun w => !w.contains '=')).filterMap fromHex
    let plan := d.lsm.dropPlan pfx
    (d, "plan " ++ String.intercalate ";" (plan.map (fun (lvl, gs) =>
      s!"L{lvl}:" ++ String.join (gs.map (fun g => "[" ++ String.intercalate "," (g.map toString) ++ "]")))))
  | ["dropall"] => (d.dropAll, "ok")   -- `Db.dropAll` (Drop.lean): the step `DbReach.dropall` of the composed theorems
  -- Close (its memtable flush arrives as a separate `flush` line before this one) + Open
  | "reopen" :: _ =>
    if d.opts.inMemory then (d, "err:inmem") else
    let d := d.closeOpen.reloadBanned
    (d, s!"ok next={d.nextTs}")
  -- `DB.BanNamespace(ns)`
  | ["ban", ns] =>
    match ns.toNat? with
    | some ns => match d.banNamespace ns with
      | some d => (d, "ok")
      | none => (d, "err:nsmode")
    | none => (d, "bad-op")
  | ["dump"] => (d, fmtDump d.lsm)
  | ["discardts"] => (d, toString d.discardAtOrBelow)
  | _ => (d, "bad-op")

/-- `xiter` / `xget`: the same read issued while a memtable flush runs (the flush follows as its
    own line); the model has no such interleaving — a flush changes no read — so they are `iter` / `get` -/
def mvccStep (d : Db) (line : String) : Db × String :=
  match words line with
  | "xiter" :: rest => mvccStepW d ("iter" :: rest)
  | "xget" :: rest => mvccStepW d ("get" :: rest)
  | ws => mvccStepW d ws

end Badger.Driver
