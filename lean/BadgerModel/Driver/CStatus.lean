import BadgerModel.CompactStatus
import BadgerModel.Driver.AuxEng
/-!
Engine `cstatus` of `bmd_aux`: the compactStatus model behind the line protocol of
`harness/eng_cstatus.go` (the two files are kept in step).
-/
namespace Badger.Driver

open Badger Badger.CS

def hexOrDash (s : String) : Option Bytes := if s == "-" then some [] else fromHex s

def dashHex (b : Bytes) : String := if b.isEmpty then "-" else toHex b

def rangeStr (r : KeyRange) : String := s!"{dashHex r.left}:{dashHex r.right}:{if r.inf then 1 else 0}"

def csDump (cs : CStatus) : String :=
  let ls := cs.levels.map (fun l => s!"{joinWith ";" (l.ranges.map rangeStr)}/{l.delSize}")
  let ts := sortNat cs.tables
  s!"[{joinWith "|" ls}] t={if ts.isEmpty then "-" else joinWith "," (ts.map toString)}"

def parseRange (l r i : String) : Option KeyRange :=
  match hexOrDash l, hexOrDash r, natArg i with
  | some l, some r, some i => some { left := l, right := r, inf := i != 0 }
  | _, _, _ => none

def parseIds (s : String) : Option (List Nat) := allSome ((csv s).map natArg)

def parseCDef : List String → Option CDef
  | [tl, nl, a, b, c, d, e, f, sz, ids] =>
    match natArg tl, natArg nl, parseRange a b c, parseRange d e f, intArg sz, parseIds ids with
    | some tl, some nl, some tr, some nr, some sz, some ids =>
      some { thisLevel := tl, nextLevel := nl, thisRange := tr, nextRange := nr, thisSize := sz, ids := ids }
    | _, _, _, _, _, _ => none
  | _ => none

def csIdsStr (l : List Nat) : String := if l.isEmpty then "-" else joinWith "," (l.map toString)

/-- Status plus the picks of the L0→L0 registrations in flight (newest first), for `dell0`. -/
structure CstSt where
  cs : CStatus
  l0 : List (List Nat) := []

def cstatusStep1 (cs : CStatus) (line : String) : CStatus × String :=
  match words line with
  | ["reset", n] =>
    match natArg n with
    | some n => (CStatus.init n, "ok")
    | none => (cs, "bad-op")
  | "caa" :: ws =>
    match parseCDef ws with
    | none => (cs, "bad-op")
    | some cd =>
      match cs.compareAndAdd cd with
      | none => (cs, "panic")
      | some (cs', ok) => (cs', s!"{boolStr ok} {csDump cs'}")
  | "del" :: ws =>
    match parseCDef ws with
    | none => (cs, "bad-op")
    | some cd =>
      match cs.delete cd with
      | none => (cs, "fatal")
      | some cs' => (cs', s!"ok {csDump cs'}")
  | ["l0l0", cands] =>
    match parseIds cands with
    | none => (cs, "bad-op")
    | some cands =>
      match cs.l0l0 cands with
      | (cs', none) => (cs', s!"false {csDump cs'}")
      | (cs', some out) => (cs', s!"true {csIdsStr out} {csDump cs'}")
  | ["ovl", l, a, b, c] =>
    match natArg l, parseRange a b c with
    | some l, some r => (cs, if l < cs.levels.length then boolStr (cs.overlapsWith l r) else "panic")
    | _, _ => (cs, "bad-op")
  | ["rovl", a, b, c, d, e, f] =>
    match parseRange a b c, parseRange d e f with
    | some r, some q => (cs, s!"{boolStr (r.overlapsWith q)} {boolStr (r.equals q)} {boolStr r.isEmpty}")
    | _, _ => (cs, "bad-op")
  | _ => (cs, "bad-op")

def cstatusStep (st : CstSt) (line : String) : CstSt × String :=
  match words line with
  | ["reset", _] => let (cs, o) := cstatusStep1 st.cs line; ({ cs, l0 := [] }, o)
  | ["l0l0", cands] =>
    match parseIds cands with
    | none => (st, "bad-op")
    | some cands =>
      match st.cs.l0l0 cands with
      | (cs', none) => ({ st with cs := cs' }, s!"false {csDump cs'}")
      | (cs', some out) => ({ cs := cs', l0 := out :: st.l0 }, s!"true {csIdsStr out} {csDump cs'}")
  | ["dell0"] =>
    match st.l0 with
    | [] => (st, "none")
    | out :: rest =>
      match st.cs.delete (l0l0Def out) with
      | none => (st, "fatal")
      | some cs' => ({ cs := cs', l0 := rest }, s!"ok {csDump cs'}")
  | _ => let (cs, o) := cstatusStep1 st.cs line; ({ st with cs }, o)

end Badger.Driver
