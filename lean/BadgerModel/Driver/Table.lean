import BadgerModel.Table
import BadgerModel.Driver.Util
/-!
`table` engine (stateful): builds tables with the model `Builder`, opens them, and runs table /
concat iterator ops. One output line per op line. See `harness/eng_table.go` for the Go side.

Concrete `Env`: CRC32C (Castagnoli, bit by bit) wrapped in the protobuf encoding of
`pb.Checksum{Algo: CRC32C, Sum: crc}` (field 1 = 0 is omitted, field 2 varint; nothing at all
when the sum is 0). Compression is the identity and "encryption" appends 16 zero bytes (the
IV slot): iteration results do not depend on the codec (`C18_roundtrip_codec`); raw block
bytes are only printed for uncompressed, unencrypted tables.
-/
namespace Badger.Driver
open Badger Badger.Tbl

def crcRound (c : UInt32) : UInt32 :=
  if c &&& 1 == 1 then (c >>> 1) ^^^ 0x82F63B78 else c >>> 1

def crcStep (crc : UInt32) (b : UInt8) : UInt32 :=
  let c := crc ^^^ b.toUInt32
  crcRound (crcRound (crcRound (crcRound (crcRound (crcRound (crcRound (crcRound c)))))))

def crc32c (d : Bytes) : UInt32 := (d.foldl crcStep 0xFFFFFFFF) ^^^ 0xFFFFFFFF

def pbChecksum (d : Bytes) : Bytes :=
  let sum := (crc32c d).toNat
  if sum = 0 then [] else 0x10 :: putUvarint sum

def realEnv : Env where
  cksum := pbChecksum
  verify := fun d ck => ck == pbChecksum d
  comp := id
  decomp := some
  enc := fun _ b => b ++ List.replicate 16 0
  dec := fun b => some (b.take (b.length - 16))
  hash := fun _ => 0
  mkFilter := fun _ => [1]
  mayContain := fun _ _ => true

def fnv64 (b : Bytes) : UInt64 :=
  b.foldl (fun h x => (h ^^^ x.toUInt64) * 1099511628211) 14695981039346656037

/-- Short byte strings in hex, long ones as `#len:fnv1a64`. -/
def showB (b : Bytes) : String :=
  if b.length ≤ 40 then toHex b else s!"#{b.length}:{(fnv64 b).toNat}"

structure TSt where
  o : Opts := { blockSize := 4096 }
  raw : Bool := false
  inMem : Bool := true
  builder : Option Builder := some {}
  added : List Bytes := []      -- user keys added to the current builder
  tables : List (Table × List Bytes) := []
  it : Option (Nat × TIter) := none
  cit : Option CIter := none

def showIt (it : TIter) : String :=
  match it.err with
  | some .eof => "invalid"
  | some (.io _) => "error"
  | none =>
    match decodeVS it.val with
    | none => "panic"
    | some v => s!"{showB it.key} {v.mt.toNat} {v.userMeta.toNat} {v.expiresAt} {showB v.value}"

def showC (s : CIter) : String :=
  match s.cur with
  | none => "invalid"
  | some it => showIt it

def sep (l : List String) : String := ",".intercalate l

def buildOut (st : TSt) (b : Builder) : TSt × String :=
  match b.done realEnv st.o with
  | none => ({ st with builder := some {}, added := [] }, "empty")
  | some tf =>
    match openTable realEnv st.o tf st.inMem with
    | .panic => ({ st with builder := some {}, added := [] }, "panic")
    | .err _ => ({ st with builder := some {}, added := [] }, "open-error")
    | .ok t =>
      let ix := tf.index
      let fb := (b.finishBlock realEnv).blockList
      let base := s!"ok nb={ix.offsets.length} smallest={showB t.smallest} biggest={showB t.biggest} maxv={ix.maxVersion} keys={ix.keyCount} usize={ix.uncompressedSize} stale={ix.staleDataSize} bloom={boolStr t.hasBloomFilter} base={sep (ix.offsets.map (showB ·.key))} n={sep (fb.map (fun p => toString p.1.entryOffsets.length))}"
      let rawS :=
        if st.raw then
          s!" ondisk={ix.onDiskSize} offs={sep (ix.offsets.map (fun ko => s!"{ko.offset}:{ko.len}"))} blocks={sep (fb.map (fun p => s!"{p.2.length}:{(fnv64 p.2).toNat}"))}"
        else ""
      ({ st with builder := some {}, added := [], tables := st.tables ++ [(t, st.added)], it := none, cit := none },
        base ++ rawS)

def itOp (st : TSt) (f : TableCore → TIter → Option TIter) : TSt × String :=
  match st.it with
  | none => (st, "dead")
  | some (ti, it) =>
    match st.tables[ti]? with
    | none => (st, "dead")
    | some (t, _) =>
      match f t.core it with
      | none => ({ st with it := none }, "panic")
      | some it' => ({ st with it := some (ti, it') }, showIt it')

def cOp (st : TSt) (f : List Table → CIter → Option CIter) : TSt × String :=
  match st.cit with
  | none => (st, "dead")
  | some s =>
    match f (st.tables.map (·.1)) s with
    | none => ({ st with cit := none }, "panic")
    | some s' => ({ st with cit := some s' }, showC s')

def tableStep (st : TSt) (line : String) : TSt × String :=
  match words line with
  | ["reset", bs, comp, enc, bloom, chk, file] =>
    match natArg bs, natArg comp, natArg enc, natArg bloom, natArg chk, natArg file with
    | some bs, some comp, some enc, some bloom, some chk, some file =>
      ({ o := { blockSize := bs, compress := comp != 0, encrypt := enc != 0, bloom := bloom != 0, chkMode := chk },
         raw := comp == 0 && enc == 0, inMem := file == 0 }, "ok")
    | _, _, _, _, _, _ => (st, "bad-op")
  | [op, k, mt, um, exp, v, vp] =>
    if op != "add" && op != "addstale" then (st, "bad-op") else
    match hexArg k, natArg mt, natArg um, natArg exp, hexArg v, natArg vp with
    | some k, some mt, some um, some exp, some v, some vp =>
      match st.builder with
      | none => (st, "dead")
      | some b =>
        if k.length > 65535 then ({ st with builder := none }, "fatal-long-key")
        else
          match b.add realEnv st.o k ⟨UInt8.ofNat mt, UInt8.ofNat um, exp, v⟩ vp (op == "addstale") with
          | none => ({ st with builder := none }, "fatal")
          | some b' => ({ st with builder := some b', added := st.added ++ [parseKey k] }, "ok")
    | _, _, _, _, _, _ => (st, "bad-op")
  | ["build"] =>
    match st.builder with
    | none => (st, "dead")
    | some b => buildOut st b
  | ["iter", ti, rev] =>
    match natArg ti, natArg rev with
    | some ti, some rev =>
      if ti < st.tables.length then ({ st with it := some (ti, { reversed := rev != 0 }) }, "ok")
      else (st, "bad-op")
    | _, _ => (st, "bad-op")
  | ["rewind", d] =>
    if d == "0" then itOp st (fun t it => it.seekToFirst realEnv t)
    else itOp st (fun t it => it.seekToLast realEnv t)
  | ["seek", k] =>
    match hexArg k with
    | some k => itOp st (fun t it => it.seek realEnv t k)
    | none => (st, "bad-op")
  | ["seekprev", k] =>
    match hexArg k with
    | some k => itOp st (fun t it => it.seekForPrev realEnv t k)
    | none => (st, "bad-op")
  | ["next"] => itOp st (fun t it => it.next realEnv t)
  | ["prev"] => itOp st (fun t it => it.prev realEnv t)
  | ["arewind"] => itOp st (fun t it => it.apiRewind realEnv t)
  | ["anext"] => itOp st (fun t it => it.apiNext realEnv t)
  | ["aseek", k] =>
    match hexArg k with
    | some k => itOp st (fun t it => it.apiSeek realEnv t k)
    | none => (st, "bad-op")
  | ["has", ti, k] =>
    match natArg ti, hexArg k with
    | some ti, some k =>
      match st.tables[ti]? with
      | none => (st, "bad-op")
      | some (t, added) =>
        (st, if !t.hasBloomFilter then "false" else if added.contains k then "false" else "maybe")
    | _, _ => (st, "bad-op")
  | ["verify", ti] =>
    match natArg ti with
    | some ti =>
      match st.tables[ti]? with
      | none => (st, "bad-op")
      | some (t, _) =>
        (st, match t.core.verifyChecksum realEnv with
             | none => "panic"
             | some true => "ok"
             | some false => "error")
    | none => (st, "bad-op")
  | ["concat", rev] =>
    match natArg rev with
    | some rev => ({ st with cit := some (newConcat (st.tables.map (·.1)) (rev != 0)) }, "ok")
    | none => (st, "bad-op")
  | ["crewind"] => cOp st (fun ts s => s.rewind realEnv ts)
  | ["cnext"] => cOp st (fun ts s => s.next realEnv ts)
  | ["cseek", k] =>
    match hexArg k with
    | some k => cOp st (fun ts s => s.seek realEnv ts k)
    | none => (st, "bad-op")
  | _ => (st, "bad-op")

end Badger.Driver
