import BadgerModel.DirLock
-- import BadgerModel.Pipeline
-- import BadgerModel.Crypto
import BadgerModel.Driver.Util
/-! Drivers of the `sys` area: `lock` (C35), `pipeline` (C38), `crypto` (C23); see
    harness/eng_lock.go and harness/eng_sys.go. -/
namespace Badger.Driver

open Badger

def kvArgsS (ws : List String) : List (String × String) :=
  ws.filterMap (fun w => match w.splitOn "=" with
    | [k, v] => some (k, v)
    | _ => none)

def argNatS (kv : List (String × String)) (k : String) (dflt : Nat) : Nat :=
  match kv.find? (·.1 == k) with
  | some (_, v) => v.toNat?.getD dflt
  | none => dflt

/-! ## lock engine -/

structure LockDrv where
  nd : Nat := 3
  sys : DirLock.Sys := DirLock.Sys.init

def lockChar : DirLock.LockSt → String
  | .free => "F" | .shared _ => "S" | .exclusive => "X"

def lockDump (d : LockDrv) : String :=
  let ds := List.range d.nd
  let ls := String.join (ds.map (fun i => lockChar (d.sys.locks i)))
  let ps := String.intercalate "," (ds.map (fun i => match d.sys.pidf i with
    | none => "-" | some p => toString p))
  s!"L={ls} P={ps}"

/-- paths `0..nd-1` are the directories, `nd..2nd-1` are second names (symlinks) of them -/
def lockRho (nd : Nat) (p : Nat) : Nat := if nd = 0 then p else p % nd

def lockStep (d : LockDrv) (line : String) : LockDrv × String :=
  match words line with
  | "reset" :: rest =>
    let kv := kvArgsS rest
    let d' : LockDrv := { nd := argNatS kv "nd" 3, sys := DirLock.Sys.init }
    (d', "ok " ++ lockDump d')
  | "open" :: rest =>
    let kv := kvArgsS rest
    let a : DirLock.OpenArgs := {
      inst := argNatS kv "i" 0, proc := argNatS kv "p" 0,
      dirPath := argNatS kv "d" 0, vdirPath := argNatS kv "v" 0,
      ro := argNatS kv "ro" 0 != 0, bypass := argNatS kv "bypass" 0 != 0,
      failLater := argNatS kv "later" 0 != 0 }
    let (s', r) := DirLock.openDb (lockRho d.nd) d.sys a
    let d' := { d with sys := s' }
    (d', r.str ++ " " ++ lockDump d')
  | "close" :: rest =>
    let kv := kvArgsS rest
    let (s', r) := DirLock.closeDb d.sys (argNatS kv "i" 0)
    let d' := { d with sys := s' }
    (d', r.str ++ " " ++ lockDump d')
  | "kill" :: rest =>
    let kv := kvArgsS rest
    if argNatS kv "p" 0 == 0 then (d, "bad-op") else
    let (s', r) := DirLock.crash d.sys (argNatS kv "p" 0)
    let d' := { d with sys := s' }
    (d', r.str ++ " " ++ lockDump d')
  | _ => (d, "bad-op")

end Badger.Driver
