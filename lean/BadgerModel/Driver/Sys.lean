import BadgerModel.DirLock
import BadgerModel.Pipeline
import BadgerModel.Crypto
import BadgerModel.Driver.Util
/-! Drivers of the `sys` area: `lock` (C35), `pipeline` (C38), `crypto` (C23); see
    harness/eng_lock.go and harness/eng_sys.go. -/
namespace Badger.Driver

open Badger

def kvArgsS (ws : List String) : List (String × String) :=
  ws.filterMap (fun w => match w.splitOn "=" with
    | [k, v] => some (k, v)
    | _ => none)

def argNatS (kv : List (String × String)) (k : String) (dflt : Nat) : Nat :=
  match kv.find? (·.1 == k) with
  | some (_, v) => v.toNat?.getD dflt
  | none => dflt

/-! ## lock engine -/

structure LockDrv where
  nd : Nat := 3
  sys : DirLock.Sys := DirLock.Sys.init

def lockChar : DirLock.LockSt → String
  | .free => "F" | .shared _ => "S" | .exclusive => "X"

def lockDump (d : LockDrv) : String :=
  let ds := List.range d.nd
  let ls := String.join (ds.map (fun i => lockChar (d.sys.locks i)))
  let ps := String.intercalate "," (ds.map (fun i => match d.sys.pidf i with
    | none => "-" | some p => toString p))
  s!"L={ls} P={ps}"

/-- paths `0..nd-1` are the directories, `nd..2nd-1` are second names (symlinks) of them -/
def lockRho (nd : Nat) (p : Nat) : Nat := if nd = 0 then p else p % nd

def lockStep (d : LockDrv) (line : String) : LockDrv × String :=
  match words line with
  | "reset" :: rest =>
    let kv := kvArgsS rest
    let d' : LockDrv := { nd := argNatS kv "nd" 3, sys := DirLock.Sys.init }
    (d', "ok " ++ lockDump d')
  | "open" :: rest =>
    let kv := kvArgsS rest
    let a : DirLock.OpenArgs := {
      inst := argNatS kv "i" 0, proc := argNatS kv "p" 0,
      dirPath := argNatS kv "d" 0, vdirPath := argNatS kv "v" 0,
      ro := argNatS kv "ro" 0 != 0, bypass := argNatS kv "bypass" 0 != 0,
      failLater := argNatS kv "later" 0 != 0 }
    let (s', r) := DirLock.openDb (lockRho d.nd) d.sys a
    let d' := { d with sys := s' }
    (d', r.str ++ " " ++ lockDump d')
  | "close" :: rest =>
    let kv := kvArgsS rest
    let (s', r) := DirLock.closeDb d.sys (argNatS kv "i" 0)
    let d' := { d with sys := s' }
    (d', r.str ++ " " ++ lockDump d')
  | "kill" :: rest =>
    let kv := kvArgsS rest
    if argNatS kv "p" 0 == 0 then (d, "bad-op") else
    let (s', r) := DirLock.crash d.sys (argNatS kv "p" 0)
    let d' := { d with sys := s' }
    (d', r.str ++ " " ++ lockDump d')
  | _ => (d, "bad-op")

/-! ## crypto engine (stateless) -/

/-- A concrete stand-in cipher for the driver (the theorems hold for every `E`): key-stream byte
    = key byte at that position + counter + position. Different first key bytes give different
    sanity texts, which is all the registry lines need. -/
def drvE : Crypto.BlockFn := fun key ctr j =>
  UInt8.ofNat ((key.getD (j % (if key.length = 0 then 1 else key.length)) 0).toNat + ctr % 251 + j)

def fmtRegOpen (r : Except Crypto.Err Crypto.Registry × List Crypto.Write) : String :=
  match r.1 with
  | .ok reg => s!"ok {reg.dataKeys.length}"
  | .error .keyMismatch => "mismatch"
  | .error .invalidKey => "invalid-key"
  | .error .invalidDataKeyID => "invalid-id"

def mkKeys (n : Nat) : List Crypto.DataKey :=
  (List.range n).map (fun i => { id := i + 1, data := [UInt8.ofNat (i + 3), 7, 9], createdAt := 100 + i, iv := 1000 + i })

def cryptoStep (line : String) : String :=
  match words line with
  | ["iv", base, off] =>
    match hexArg base, natArg off with
    | some b, some o => if b.length != 12 then "bad-op" else toHex (Crypto.generateIV b o)
    | _, _ => "bad-op"
  | ["ctrs", base, o1, l1, o2, l2] =>
    match hexArg base, natArg o1, natArg l1, natArg o2, natArg l2 with
    | some b, some o1, some l1, some o2, some l2 =>
      let iv1 := beNat (Crypto.generateIV b o1)
      let iv2 := beNat (Crypto.generateIV b o2)
      let c1 := (List.range (Crypto.blocks l1)).map (Crypto.ctrOf iv1)
      let c2 := (List.range (Crypto.blocks l2)).map (Crypto.ctrOf iv2)
      if c1.any (fun x => c2.contains x) then "overlap" else "disjoint"
    | _, _, _, _, _ => "bad-op"
  | "latest" :: rest =>
    let kv := kvArgsS rest
    let master : Bytes := if argNatS kv "master" 0 == 0 then [] else List.replicate (argNatS kv "master" 0) 1
    let next := argNatS kv "next" 0
    let last := argNatS kv "last" 0
    let keys : List Crypto.DataKey :=
      if argNatS kv "has" 0 != 0 then [{ id := next, data := [], createdAt := last, iv := 0 }] else []
    let r : Crypto.Registry := { master := master, rotationNs := (argNatS kv "rotns" 0 : Nat),
                                 dataKeys := keys, lastCreated := last, nextKeyID := next }
    let (r', dk) := r.latestDataKey (argNatS kv "now" 0) [1] 2
    match dk with
    | none => s!"nil next={r'.nextKeyID}"
    | some k => (if r'.nextKeyID == r.nextKeyID then "reuse " else "new ") ++ s!"{k.id} next={r'.nextKeyID}"
  | ["regopen", w, o, nk] =>
    match hexArg w, hexArg o, natArg nk with
    | some w, some o, some nk =>
      fmtRegOpen (Crypto.openRegistry drvE o 0 5 ⟨some (Crypto.writeKeyRegistry drvE w 1 (mkKeys nk))⟩)
    | _, _, _ => "bad-op"
  | ["rotate", old, new, nk, reopen] =>
    match hexArg old, hexArg new, natArg nk, hexArg reopen with
    | some old, some new, some nk, some re =>
      match Crypto.rotateMaster drvE old new 9 (Crypto.writeKeyRegistry drvE old 1 (mkKeys nk)) with
      | .error _ => "rotate-failed"
      | .ok f' =>
        match Crypto.readKeyRegistry drvE re 0 f' with
        | .error .keyMismatch => "mismatch"
        | .error _ => "err"
        | .ok r => if r.dataKeys == mkKeys nk then s!"ok {nk} same-keys" else s!"ok {r.dataKeys.length} changed-keys"
    | _, _, _, _ => "bad-op"
  | "session" :: _ => "ok"
  | _ => "bad-op"

/-! ## pipeline engine (stateless) -/

def pipelineStep (line : String) : String :=
  match words line with
  | "sample" :: rest =>
    let kv := kvArgsS rest
    let x : Pipeline.Coarse := {
      imm := argNatS kv "imm" 0, flushLen := argNatS kv "fc" 0, flushCap := argNatS kv "nm" 1,
      l0 := argNatS kv "l0" 0, l0Stall := argNatS kv "stall" 2,
      writeChLen := argNatS kv "wc" 0, writeChCap := argNatS kv "cap" 1000 }
    if Pipeline.coarseOK x then "ok" else "violates-invariant"
  | ["late-sender"] =>
    -- one committed write (dirty memtable), a caller passes the blockWrites check, Close runs to
    -- completion while the caller is parked, then the caller sends
    let c : Pipeline.Cfg := { writeChCap := 1000, numMemtables := 1, l0Tables := 1, l0Stall := 2, numCompactors := 2 }
    let pre : List Pipeline.Label := [.callBegin, .send, .dwRecv, .dwPush, .wrVlog, .wrRoomOk,
      .wrToLSM false, .wrFinish, .wrRelease, .callBegin, .closeCall]
    match Pipeline.run c Pipeline.State.init pre with
    | none => "model-error"
    | some s =>
      let s1 := Pipeline.runHelper c 200 s
      let closeS := if s1.cl = .returned then "returned" else "running"
      match Pipeline.step c s1 .sendPanic with
      | some s2 => s!"panic close={closeS} pending={Pipeline.pendingCalls s2}"
      | none =>
        match Pipeline.step c s1 .send with
        | some s2 => s!"enqueued close={closeS} pending={Pipeline.pendingCalls s2}"
        | none => s!"blocked close={closeS}"
  | ["late-flush"] =>
    -- a WriteBatch.Flush parked before commitAndSend, Close runs to completion (orc.Stop), the
    -- Flush is released: its commit is refused, then its next transaction asks for a read timestamp
    let (_, rs) := ({} : Pipeline.Orc).run [.stop, .commitRefused, .readTs]
    (if rs.getLast? == some "blocks-forever" then "flush-hangs" else "flush-returns") ++ " close=returned"
  | ["gc-read-during-removal"] => "ok r1=ok r2=ok gc=ok"
  | "stress" :: _ => "ok"
  | _ => "bad-op"

end Badger.Driver
