import BadgerModel.Watermark
import BadgerModel.Oracle
import BadgerModel.Driver.Util
/-!
`watermark` engine: a session is `reset` followed by marks. One output line per op:
`du=<doneUntil> li=<lastIndex> woke=<waiter:idx,…|->` (wake-ups sorted by waiter id),
`assert` when `process` would `log.Fatalf` (the harness does not issue that call, the model keeps
its state), `panic` for `BeginMany([])`.
-/
namespace Badger.Driver

open Badger

def insertWk (w : Wakeup) : List Wakeup → List Wakeup
  | [] => [w]
  | x :: xs => if w.waiter ≤ x.waiter then w :: x :: xs else x :: insertWk w xs

def sortWk (l : List Wakeup) : List Wakeup := l.foldr insertWk []

def wokeStr (l : List Wakeup) : String :=
  if l.isEmpty then "-" else
  ",".intercalate ((sortWk l).map (fun w => s!"{w.waiter}:{w.idx}"))

def natArgs (l : List String) : Option (List Nat) := l.mapM natArg

def wmOut (s : WM) (wk : List Wakeup) : String :=
  s!"du={s.doneUntil} li={s.lastIndex} woke={wokeStr wk}"

/-- Apply one mark; a mark on which `process` would die is reported and not applied. -/
def wmApply (s : WM) (m : Mark) : WM × String :=
  let r := s.step m
  if r.1.failed then (s, "assert") else (r.1, wmOut r.1 r.2)

def wmStep (s : WM) (line : String) : WM × String :=
  match words line with
  | "reset" :: _ => (WM.init, "ok")
  | ["begin", i] =>
    match natArg i with
    | some i => wmApply s (.begin i)
    | none => (s, "bad-op")
  | ["done", i] =>
    match natArg i with
    | some i => wmApply s (.done i)
    | none => (s, "bad-op")
  | "beginmany" :: is =>
    match natArgs is with
    | some [] => (s, "panic")
    | some is => wmApply s (.beginMany is)
    | none => (s, "bad-op")
  | "donemany" :: is =>
    match natArgs is with
    | some is => wmApply s (.doneMany is)
    | none => (s, "bad-op")
  | ["wait", i, w] =>
    match natArg i, natArg w with
    | some i, some w => let r := s.waitForMark i w; (r.1, wmOut r.1 r.2)
    | _, _ => (s, "bad-op")
  | ["waitraw", i, w] =>
    match natArg i, natArg w with
    | some i, some w => wmApply s (.wait i w)
    | _, _ => (s, "bad-op")
  | _ => (s, "bad-op")

/-! ## `oracle` engine (call level) and `txn` engine (a DB driven through the Txn API)

After every op the harness waits for quiescence of both watermarks (`VerifBarrier`), so the
driver drains both queues after every op (`sysDrain`). Output: `<result> woke=<tid:readTs,…|->
next=… lc=… dt=… rd=… td=… ct=<ts:k,k;…|->`. -/

def sortNat (l : List Nat) : List Nat := l.mergeSort (fun a b => decide (a ≤ b))

/-- Quiescence: every queued mark of both watermarks is processed, wake-ups delivered. -/
def sysDrain (s : Sys) : Sys × List Wakeup :=
  let r := s.o.drain
  ({ s with o := r.1, txns := wakeTxns s.txns r.2,
            crashed := s.crashed || r.1.txnMark.wm.failed || r.1.readMark.wm.failed }, r.2)

def ctStr (keyStr : Nat → String) (l : List CommittedTxn) : String :=
  if l.isEmpty then "-" else
  ";".intercalate (l.map (fun c =>
    s!"{c.ts}:" ++ ",".intercalate ((c.conflictKeys.map keyStr).mergeSort (fun a b => decide (a ≤ b)))))

def dumpStr (keyStr : Nat → String) (s : Sys) : String :=
  s!"next={s.o.nextTxnTs} lc={s.o.lastCleanupTs} dt={s.o.discardTs} rd={s.o.readMark.doneUntil} td={s.o.txnMark.doneUntil} da={s.o.discardAtOrBelow} ct={ctStr keyStr s.o.committedTxns}"

/-- `tid:readTs` of the transactions that were parked in `before` and are active in `after`. -/
def wokeTxnStr (before after : List TxnSt) : String :=
  let l := (List.range after.length).filterMap (fun i =>
    match before[i]?, after[i]? with
    | some b, some a => if b.phase = .parked ∧ a.phase = .active then some s!"{i}:{a.t.readTs}" else none
    | _, _ => none)
  if l.isEmpty then "-" else ",".intercalate l

def orcOut (keyStr : Nat → String) (res : String) (before : Sys) (after : Sys) : String :=
  s!"{res} woke={wokeTxnStr before.txns after.txns} {dumpStr keyStr after}"

/-- Apply a label; `none` when it is not enabled or when it would crash the process
    (the harness refuses such calls: `assert`). -/
def tryStep (s : Sys) (l : Label) : Option Sys :=
  match s.step l with
  | some s' => if s'.crashed then none else some s'
  | none => none

def isAssert (s : Sys) (l : Label) : Bool :=
  match s.step l with
  | some s' => s'.crashed
  | none => false

def boolArg (s : String) : Option Bool :=
  if s == "1" then some true else if s == "0" then some false else none

/-- Run labels in sequence, draining after each. -/
def stepDrain (s : Sys) (l : Label) : Option Sys :=
  match tryStep s l with
  | some s' => some (sysDrain s').1
  | none => none

def orcStep (s : Sys) (line : String) : Sys × String :=
  let ks : Nat → String := fun k => toString k
  let out (res : String) (s' : Sys) : Sys × String := (s', orcOut ks res s s')
  match words line with
  | ["reset", m, d, n] =>
    match boolArg m, boolArg d, natArg n with
    | some m, some d, some n =>
      let s' := (sysDrain (Sys.opened m d n)).1
      (s', orcOut ks "ok" s' s')
    | _, _, _ => (s, "bad-op")
  | ["readts", tid, upd] =>
    match natArg tid, boolArg upd with
    | some tid, some upd =>
      if tid ≠ s.txns.length then out "skip" s else
      match stepDrain s (.begin upd) with
      | some s1 =>
        match stepDrain s1 (.waitCheck tid) with
        | some s2 =>
          match s2.txns[tid]? with
          | some x => if x.phase = .active then out s!"r={x.t.readTs}" s2 else out "blocked" s2
          | none => out "skip" s
        | none => out "skip" s
      | none => out "skip" s
    | _, _ => (s, "bad-op")
  | ["beginat", tid, r, upd] =>
    match natArg tid, natArg r, boolArg upd with
    | some tid, some r, some upd =>
      if tid ≠ s.txns.length then out "skip" s else
      match stepDrain s (.beginAt r upd) with
      | some s1 => out "ok" s1
      | none => out "skip" s
    | _, _, _ => (s, "bad-op")
  | ["read", tid, fp] =>
    match natArg tid, natArg fp with
    | some tid, some fp =>
      match stepDrain s (.read tid fp) with
      | some s1 => out "ok" s1
      | none => out "skip" s
    | _, _ => (s, "bad-op")
  | ["write", tid, fp] =>
    match natArg tid, natArg fp with
    | some tid, some fp =>
      match stepDrain s (.write tid fp) with
      | some s1 => out "ok" s1
      | none => out "skip" s
    | _, _ => (s, "bad-op")
  | ["commit", tid] =>
    match natArg tid with
    | some tid =>
      if isAssert s (.commit tid) then out "assert" s else
      match stepDrain s (.commit tid) with
      | some s1 =>
        let res := match s1.txns[tid]? with
          | some x => match x.committedAt with
            | some ts => s!"ok ts={ts}"
            | none => "conflict"
          | none => "?"
        -- the harness calls cleanupCommittedTransactions after quiescence
        match stepDrain s1 .cleanup with
        | some s2 => out res s2
        | none => out res s1
      | none => out "skip" s
    | none => (s, "bad-op")
  | ["commitat", tid, ts] =>
    match natArg tid, natArg ts with
    | some tid, some ts =>
      if isAssert s (.commitAt tid ts) then out "assert" s else
      match stepDrain s (.commitAt tid ts) with
      | some s1 =>
        let res := match s1.txns[tid]? with
          | some x => match x.committedAt with
            | some ts => s!"ok ts={ts}"
            | none => "conflict"
          | none => "?"
        out res s1
      | none => out "skip" s
    | _, _ => (s, "bad-op")
  | ["discard", tid] =>
    match natArg tid with
    | some tid =>
      match stepDrain s (.discard tid) with
      | some s1 => out "ok" s1
      | none => out "skip" s
    | none => (s, "bad-op")
  | ["donecommit", ts] =>
    match natArg ts with
    | some ts =>
      match stepDrain s (.doneCommit ts) with
      | some s1 => out "ok" s1
      | none => out "skip" s
    | none => (s, "bad-op")
  | ["setdiscard", ts] =>
    match natArg ts with
    | some ts =>
      if isAssert s (.setDiscardTs ts) then out "assert" s else
      match stepDrain s (.setDiscardTs ts) with
      | some s1 => out "ok" s1
      | none => out "skip" s
    | none => (s, "bad-op")
  | ["cleanup"] =>
    if isAssert s .cleanup then out "assert" s else
    match stepDrain s .cleanup with
    | some s1 => out "ok" s1
    | none => out "skip" s
  | _ => (s, "bad-op")

/-! ### `txn` engine: a naive multi-version store next to the oracle model -/

structure TxnDrv where
  sys : Sys := Sys.opened false true 0
  /-- committed versions: key (hex), commit ts, value (`none` = deleted) -/
  store : List (String × Nat × Option String) := []
  /-- pending writes of open transactions: tid, key, value; latest last -/
  pend : List (Nat × String × Option String) := []
  /-- fingerprint → key -/
  keys : List (Nat × String) := []
  /-- `reset <detect> 2`: an on-disk DB in normal mode with the pipeline ops `block`/`unblock`/
      `hold`/`release` -/
  pipe : Bool := false
  /-- `blockWrite()` is in force: `sendToWriteCh` answers `ErrBlockedWrites` -/
  blocked : Bool := false
  /-- the commit (tid, ts) parked in the write pipeline (timestamp handed out, nothing applied) -/
  held : Option (Nat × Nat) := none

def keyFp (k : String) : Nat :=
  match fromHex k with
  | some b => leNat (b ++ [1])
  | none => 0

def TxnDrv.keyStr (d : TxnDrv) (fp : Nat) : String := (d.keys.lookup fp).getD "?"

def TxnDrv.note (d : TxnDrv) (k : String) : TxnDrv :=
  if (d.keys.lookup (keyFp k)).isSome then d else { d with keys := d.keys ++ [(keyFp k, k)] }

/-- Latest committed version of `k` with `ts ≤ r`. -/
def snapGet (store : List (String × Nat × Option String)) (k : String) (r : Nat) : Option String :=
  let vs := store.filter (fun e => e.1 == k && decide (e.2.1 ≤ r))
  match vs.foldl (fun (best : Option (Nat × Option String)) e =>
      match best with
      | some (bt, _) => if bt ≤ e.2.1 then some (e.2.1, e.2.2) else best
      | none => some (e.2.1, e.2.2)) none with
  | some (_, v) => v
  | none => none

def pendGet (pend : List (Nat × String × Option String)) (tid : Nat) (k : String) : Option (Option String) :=
  (pend.reverse.find? (fun e => e.1 == tid && e.2.1 == k)).map (·.2.2)

def hexLe (a b : String) : Bool :=
  match fromHex a, fromHex b with
  | some x, some y => cmpBytes x y != .gt
  | _, _ => decide (a ≤ b)

def dedup (l : List String) : List String :=
  l.foldl (fun acc k => if acc.contains k then acc else acc ++ [k]) []

def valStr (v : Option String) : String :=
  match v with
  | some v => s!"v={v}"
  | none => "nf"

/-- An op addressed to a transaction whose `NewTransaction` has not returned yet. -/
def onParked (s : Sys) (ws : List String) : Bool :=
  match ws with
  | op :: tid :: _ =>
    ["get", "set", "del", "iter", "commit", "discard", "hold"].contains op &&
    (match (natArg tid).bind (fun t => s.txns[t]?) with
     | some x => x.phase == .parked
     | none => false)
  | _ => false

def txnStep (d : TxnDrv) (line : String) : TxnDrv × String :=
  let s := d.sys
  let fin (res : String) (d' : TxnDrv) : TxnDrv × String :=
    (d', s!"{res} {dumpStr d'.keyStr d'.sys}")
  if onParked s (words line) then fin "blocked" d else
  match words line with
  | ["block"] =>
    if !d.pipe || d.held.isSome || d.blocked then fin "skip" d else fin "ok" { d with blocked := true }
  | ["unblock"] =>
    if !d.pipe || !d.blocked then fin "skip" d else fin "ok" { d with blocked := false }
  | ["hold", tid] =>
    match natArg tid with
    | some tid =>
      if !d.pipe || d.held.isSome || d.blocked then fin "skip" d else
      match s.txns[tid]? with
      | some x =>
        if x.phase ≠ .active then fin "err=discarded" d else
        if !(x.t.update && x.t.hasWrites) then fin "skip" d else
        match stepDrain s (.commit tid) with
        | some s1 =>
          match (s1.txns[tid]?).bind (·.committedAt) with
          | some ts =>
            -- timestamp handed out; the request sits in the pipeline, nothing is applied
            let s2 := (stepDrain s1 .cleanup).getD s1
            fin s!"held ts={ts}" { d with sys := s2, held := some (tid, ts) }
          | none =>
            let s2 := (stepDrain s1 (.discard tid)).getD s1
            let s3 := (stepDrain s2 .cleanup).getD s2
            fin "conflict" { d with sys := s3 }
        | none => fin "skip" d
      | none => fin "skip" d
    | none => (d, "bad-op")
  | ["release"] =>
    match d.held with
    | some (tid, ts) =>
      -- the batch is applied, the request signalled, `doneCommit(ts)`, `Commit` returns
      let mine := d.pend.filter (fun e => e.1 == tid)
      let ks := dedup (mine.map (·.2.1))
      let newVs := ks.filterMap (fun k => (pendGet d.pend tid k).map (fun v => (k, ts, v)))
      let s1 := (stepDrain s (.doneCommit ts)).getD s
      let s2 := (stepDrain s1 .cleanup).getD s1
      fin s!"ok ts={ts} woke={wokeTxnStr s.txns s2.txns}"
        { d with sys := s2, store := d.store ++ newVs, held := none }
    | none => fin "skip" d
  | ["reset", det, "2"] =>
    match boolArg det with
    | some det =>
      let d' : TxnDrv := { sys := (sysDrain (Sys.opened false det 0)).1, pipe := true }
      fin "ok" d'
    | none => (d, "bad-op")
  | ["reset", det] =>
    match boolArg det with
    | some det =>
      let d' : TxnDrv := { sys := (sysDrain (Sys.opened false det 0)).1 }
      fin "ok" d'
    | none => (d, "bad-op")
  | ["reset", det, mgd] =>
    -- `reset <detect> 1`: a managed DB (`OpenManaged`)
    match boolArg det, boolArg mgd with
    | some det, some mgd =>
      let d' : TxnDrv := { sys := (sysDrain (Sys.opened mgd det 0)).1 }
      fin "ok" d'
    | _, _ => (d, "bad-op")
  | ["beginat", tid, r, upd] =>
    match natArg tid, natArg r, boolArg upd with
    | some tid, some r, some upd =>
      if tid ≠ s.txns.length then fin "skip" d else
      match stepDrain s (.beginAt r upd) with
      | some s1 => fin s!"r={r}" { d with sys := s1 }
      | none => fin "skip" d
    | _, _, _ => (d, "bad-op")
  | ["commitat", tid, ts] =>
    match natArg tid, natArg ts with
    | some tid, some ts =>
      if !s.o.isManaged then fin "skip" d else
      match s.txns[tid]? with
      | some x =>
        if x.phase ≠ .active then fin "err=discarded" d else
        if !(x.t.update && x.t.hasWrites) then
          match stepDrain s (.discard tid) with
          | some s1 => fin "ok-empty" { d with sys := s1 }
          | none => fin "skip" d
        else
        if isAssert s (.commitAt tid ts) then fin "assert" d else
        match stepDrain s (.commitAt tid ts) with
        | some s1 =>
          match (s1.txns[tid]?).bind (·.committedAt) with
          | some cts =>
            let mine := d.pend.filter (fun e => e.1 == tid)
            let ks := dedup (mine.map (·.2.1))
            let newVs := ks.filterMap (fun k => (pendGet d.pend tid k).map (fun v => (k, cts, v)))
            fin s!"ok ts={cts}" { d with sys := s1, store := d.store ++ newVs }
          | none =>
            let s2 := (stepDrain s1 (.discard tid)).getD s1
            fin "conflict" { d with sys := s2 }
        | none => fin "skip" d
      | none => fin "skip" d
    | _, _ => (d, "bad-op")
  | ["setdiscard", ts] =>
    match natArg ts with
    | some ts =>
      if !s.o.isManaged then fin "skip" d else
      if isAssert s (.setDiscardTs ts) then fin "assert" d else
      match stepDrain s (.setDiscardTs ts) with
      | some s1 => fin "ok" { d with sys := s1 }
      | none => fin "skip" d
    | none => (d, "bad-op")
  | ["begin", tid, upd] =>
    match natArg tid, boolArg upd with
    | some tid, some upd =>
      if tid ≠ s.txns.length then fin "skip" d else
      match stepDrain s (.begin upd) with
      | some s1 =>
        match stepDrain s1 (.waitCheck tid) with
        | some s2 =>
          match s2.txns[tid]? with
          | some x => if x.phase = .active then fin s!"r={x.t.readTs}" { d with sys := s2 }
                      else fin "blocked" { d with sys := s2 }
          | none => fin "skip" d
        | none => fin "skip" d
      | none => fin "skip" d
    | _, _ => (d, "bad-op")
  | ["get", tid, k] =>
    match natArg tid with
    | some tid =>
      match s.txns[tid]? with
      | some x =>
        if x.phase ≠ .active then fin "err=discarded" d else
        let d := d.note k
        match (if x.t.update then pendGet d.pend tid k else none) with
        | some v => fin (valStr v) d
        | none =>
          match stepDrain s (.read tid (keyFp k)) with
          | some s1 => fin (valStr (snapGet d.store k x.t.readTs)) { d with sys := s1 }
          | none => fin "skip" d
      | none => fin "skip" d
    | none => (d, "bad-op")
  | ["set", tid, k, v] =>
    match natArg tid with
    | some tid =>
      match s.txns[tid]? with
      | some x =>
        if !x.t.update then fin "err=readonly" d else
        if x.phase ≠ .active then fin "err=discarded" d else
        let d := d.note k
        match stepDrain s (.write tid (keyFp k)) with
        | some s1 => fin "ok" { d with sys := s1, pend := d.pend ++ [(tid, k, some v)] }
        | none => fin "skip" d
      | none => fin "skip" d
    | none => (d, "bad-op")
  | ["del", tid, k] =>
    match natArg tid with
    | some tid =>
      match s.txns[tid]? with
      | some x =>
        if !x.t.update then fin "err=readonly" d else
        if x.phase ≠ .active then fin "err=discarded" d else
        let d := d.note k
        match stepDrain s (.write tid (keyFp k)) with
        | some s1 => fin "ok" { d with sys := s1, pend := d.pend ++ [(tid, k, none)] }
        | none => fin "skip" d
      | none => fin "skip" d
    | none => (d, "bad-op")
  | ["iter", tid] =>
    match natArg tid with
    | some tid =>
      match s.txns[tid]? with
      | some x =>
        if x.phase ≠ .active then fin "err=discarded" d else
        let own := if x.t.update then (d.pend.filter (fun e => e.1 == tid)).map (·.2.1) else []
        let cand := (dedup (own ++ d.store.map (·.1))).mergeSort hexLe
        let items := cand.filterMap (fun k =>
          let v := match (if x.t.update then pendGet d.pend tid k else none) with
            | some v => v
            | none => snapGet d.store k x.t.readTs
          v.map (fun v => (k, v)))
        -- `Iterator.Item` tracks every key it yields (own pending writes included)
        let s1 := items.foldl (fun acc kv =>
          match stepDrain acc (.read tid (keyFp kv.1)) with
          | some a => a
          | none => acc) s
        let res := if items.isEmpty then "items=-" else
          "items=" ++ ",".intercalate (items.map (fun kv => s!"{kv.1}:{kv.2}"))
        fin res { d with sys := s1 }
      | none => fin "skip" d
    | none => (d, "bad-op")
  | ["commit", tid] =>
    match natArg tid with
    | some tid =>
      if s.o.isManaged || d.held.isSome then fin "skip" d else
      match s.txns[tid]? with
      | some x =>
        if x.phase ≠ .active then fin "err=discarded" d else
        if !(x.t.update && x.t.hasWrites) then
          -- `len(pendingWrites) == 0`: Commit only discards
          match stepDrain s (.discard tid) with
          | some s1 => fin "ok-empty" { d with sys := (stepDrain s1 .cleanup).getD s1 }
          | none => fin "skip" d
        else
        match stepDrain s (.commit tid) with
        | some s1 =>
          match (s1.txns[tid]?).bind (·.committedAt) with
          | some ts =>
            if d.blocked then
              -- `sendToWriteCh` answers ErrBlockedWrites: the timestamp is consumed
              -- (`doneCommit(ts)`), nothing is written; the entry stays in `committedTxns` (F11)
              let s2 := (stepDrain s1 (.doneCommit ts)).getD s1
              let s3 := (stepDrain s2 .cleanup).getD s2
              fin "blocked-writes" { d with sys := s3 }
            else
            -- the write pipeline applies the batch, then `doneCommit(ts)`; `Commit` returns
            let mine := d.pend.filter (fun e => e.1 == tid)
            let ks := dedup (mine.map (·.2.1))
            let newVs := ks.filterMap (fun k => (pendGet d.pend tid k).map (fun v => (k, ts, v)))
            let s2 := (stepDrain s1 (.doneCommit ts)).getD s1
            let s3 := (stepDrain s2 .cleanup).getD s2
            fin s!"ok ts={ts}" { d with sys := s3, store := d.store ++ newVs }
          | none =>
            -- ErrConflict; the deferred Discard runs
            let s2 := (stepDrain s1 (.discard tid)).getD s1
            let s3 := (stepDrain s2 .cleanup).getD s2
            fin "conflict" { d with sys := s3 }
        | none => fin "skip" d
      | none => fin "skip" d
    | none => (d, "bad-op")
  | ["discard", tid] =>
    match natArg tid with
    | some tid =>
      match stepDrain s (.discard tid) with
      | some s1 => fin "ok" { d with sys := s1 }
      | none => fin "skip" d
    | none => (d, "bad-op")
  | _ => (d, "bad-op")

end Badger.Driver
