import BadgerModel.Watermark
import BadgerModel.Driver.Util
/-!
`watermark` engine: a session is `reset` followed by marks. One output line per op:
`du=<doneUntil> li=<lastIndex> woke=<waiter:idx,…|->` (wake-ups sorted by waiter id),
`assert` when `process` would `log.Fatalf` (the harness does not issue that call, the model keeps
its state), `panic` for `BeginMany([])`.
-/
namespace Badger.Driver

open Badger

def insertWk (w : Wakeup) : List Wakeup → List Wakeup
  | [] => [w]
  | x :: xs => if w.waiter ≤ x.waiter then w :: x :: xs else x :: insertWk w xs

def sortWk (l : List Wakeup) : List Wakeup := l.foldr insertWk []

def wokeStr (l : List Wakeup) : String :=
  if l.isEmpty then "-" else
  ",".intercalate ((sortWk l).map (fun w => s!"{w.waiter}:{w.idx}"))

def natArgs (l : List String) : Option (List Nat) := l.mapM natArg

def wmOut (s : WM) (wk : List Wakeup) : String :=
  s!"du={s.doneUntil} li={s.lastIndex} woke={wokeStr wk}"

/-- Apply one mark; a mark on which `process` would die is reported and not applied. -/
def wmApply (s : WM) (m : Mark) : WM × String :=
  let r := s.step m
  if r.1.failed then (s, "assert") else (r.1, wmOut r.1 r.2)

def wmStep (s : WM) (line : String) : WM × String :=
  match words line with
  | "reset" :: _ => (WM.init, "ok")
  | ["begin", i] =>
    match natArg i with
    | some i => wmApply s (.begin i)
    | none => (s, "bad-op")
  | ["done", i] =>
    match natArg i with
    | some i => wmApply s (.done i)
    | none => (s, "bad-op")
  | "beginmany" :: is =>
    match natArgs is with
    | some [] => (s, "panic")
    | some is => wmApply s (.beginMany is)
    | none => (s, "bad-op")
  | "donemany" :: is =>
    match natArgs is with
    | some is => wmApply s (.doneMany is)
    | none => (s, "bad-op")
  | ["wait", i, w] =>
    match natArg i, natArg w with
    | some i, some w => let r := s.waitForMark i w; (r.1, wmOut r.1 r.2)
    | _, _ => (s, "bad-op")
  | ["waitraw", i, w] =>
    match natArg i, natArg w with
    | some i, some w => wmApply s (.wait i w)
    | _, _ => (s, "bad-op")
  | _ => (s, "bad-op")

end Badger.Driver
