import BadgerModel.Batch
import BadgerModel.Sequence
import BadgerModel.MergeOp
import BadgerModel.Driver.Mvcc
/-! Engines `batch`, `seq`, `mergeop` of `bmd_misc` (see harness/eng_batch.go). -/
namespace Badger.Driver

open Badger

/-! ## `batch`: WriteBatch on the database model -/

structure BatchSt where
  d : Db := Db.init {} 0
  wb : Option WB := none
  made : Nat := 0
  deriving Inhabited

def errOut (e : Option String) (split : Bool) : String :=
  match e with
  | none => if split then "ok split" else "ok"
  | some s => if split then s ++ " split" else s

/-- all entries as a reader at any timestamp can reach them: the merge of every source in
    read-precedence order (first copy of a `(key, version)` wins) -/
def fmtScan (l : Lsm) : String :=
  "ents " ++ String.intercalate "," ((mergeAll l.sources).map fmtEnt)

def mkEnt (k v : Bytes) (um exp m : Nat) : Ent :=
  { key := k, ver := 0, emeta := m, umeta := um, exp := exp, val := v }

def batchStep (s : BatchSt) (line : String) : BatchSt × String :=
  let withWb (f : WB → Db × WB × Option String) (showSplit : Bool) : BatchSt × String :=
    match s.wb with
    | none => (s, "bad-op")
    | some w =>
      let (d, w', e) := f w
      ({ s with d := d, wb := some w' }, errOut e (showSplit && w'.txn != w.txn))
  match words line with
  | "reset" :: _ =>
    let (d, o) := mvccStep s.d line
    ({ d := d, wb := none, made := 0 }, o)
  | ["wb-new", kind, cts] =>
    let k : Option WbKind := match kind with
      | "normal" => some .normal
      | "at" => some (.at (cts.toNat?.getD 0))
      | "managed" => some .managed
      | _ => none
    match k with
    | none => (s, "bad-op")
    | some k =>
      match wbNew s.d k (1000000 + 1000 * s.made) with
      | none => ({ s with wb := none }, "panic")
      | some (d, w) => ({ s with d := d, wb := some w, made := s.made + 1 }, "ok")
  | ["wb-set", k, v] =>
    match fromHex k, fromHex v with
    | some k, some v => withWb (fun w => wbSetEntry s.d w (mkEnt k v 0 0 0)) true
    | _, _ => (s, "bad-op")
  | ["wb-setentry", k, v, um, exp, m] =>
    match fromHex k, fromHex v, um.toNat?, exp.toNat?, m.toNat? with
    | some k, some v, some um, some exp, some m => withWb (fun w => wbSetEntry s.d w (mkEnt k v um exp m)) true
    | _, _, _, _, _ => (s, "bad-op")
  | ["wb-setat", k, v, um, exp, m, ts] =>
    match fromHex k, fromHex v, um.toNat?, exp.toNat?, m.toNat?, ts.toNat? with
    | some k, some v, some um, some exp, some m, some ts =>
      withWb (fun w => wbSetEntryAt s.d w (mkEnt k v um exp m) ts) true
    | _, _, _, _, _, _ => (s, "bad-op")
  | ["wb-del", k] =>
    match fromHex k with
    | some k => withWb (fun w => wbDelete s.d w k) true
    | none => (s, "bad-op")
  | ["wb-delat", k, ts] =>
    match fromHex k, ts.toNat? with
    | some k, some ts => withWb (fun w => wbDeleteAt s.d w k ts) true
    | _, _ => (s, "bad-op")
  | ["wb-flush"] => withWb (fun w => wbFlush s.d w) false
  | ["wb-cancel"] =>
    withWb (fun w => let (d, w') := wbCancel s.d w; (d, w', none)) false
  | ["scan"] => (s, fmtScan s.d.lsm)
  | ["nextts"] => (s, toString s.d.nextTs)
  | _ =>
    -- plain database operations (flush, compact, transactions …) are those of the `mvcc` engine
    let (d, o) := mvccStep s.d line
    ({ s with d := d }, o)

/-! ## `seq`: the lease machine -/

structure SeqSt where
  s : SeqSys := {}
  old : Bool := false      -- `reset old=1`: the lease machine before commit 54a0fc5 (historical)
  deriving Inhabited

def seqResStr : SeqRes → String
  | .val n => s!"ok {n}"
  | .ok => "ok"
  | .conflict => "conflict"
  | .notfound => "notfound"
  | .badop => "bad-op"

def optNat : Option Nat → String
  | none => "none"
  | some n => toString n

def seqStep (st : SeqSt) (line : String) : SeqSt × String :=
  let lf : LeaseFn := if st.old then updateLeaseOld else updateLease
  let s := st.s
  match words line with
  | "reset" :: rest =>
    let kv := kvArgs rest
    ({ s := {}, old := argBool kv "old" }, "ok")
  | ["new", id, bw] =>
    match id.toNat?, bw.toNat? with
    | some id, some bw =>
      let (s', r) := s.getSequence lf id bw .ok
      match r, s'.find id with
      | .ok, some o => ({ st with s := s' }, s!"ok next={o.next} leased={o.leased}")
      | r, _ => ({ st with s := s' }, seqResStr r)
    | _, _ => (st, "bad-op")
  | ["next", id] =>
    match id.toNat? with
    | some id => let (s', r) := s.next lf id .ok; ({ st with s := s' }, seqResStr r)
    | none => (st, "bad-op")
  | "race" :: parts =>
    -- every renewing object read the value stored before the race; at most one of them commits
    let s0 := s.stored
    let (s', outs) := parts.foldl (fun (acc : SeqSys × List String) p =>
      match p.splitOn ":" with
      | [id, oc] =>
        match id.toNat? with
        | some id =>
          let out : TxnOut := if oc == "ok" then .ok else .conflict s0
          let (s', r) := acc.1.next lf id out
          (s', acc.2 ++ [match r with
            | .val n => s!"{id}=ok:{n}"
            | r => s!"{id}=" ++ seqResStr r])
        | none => (acc.1, acc.2 ++ ["bad-op"])
      | _ => (acc.1, acc.2 ++ ["bad-op"])) (s, [])
    ({ st with s := s' }, String.intercalate " " outs)
  | ["release", id] =>
    match id.toNat? with
    | some id => let (s', r) := s.release id .ok; ({ st with s := s' }, seqResStr r)
    | none => (st, "bad-op")
  | ["relrace", id, sched] =>
    -- Release is parked inside its transaction, then Next is called on the same object: both
    -- hold seq.lock for their whole body, so Next must have waited (`sched=blocked`); any other
    -- observed schedule is not a behaviour of the model
    match id.toNat? with
    | some id =>
      match s.find id with
      | none => (st, "bad-op")
      | some _ =>
        if sched != "sched=blocked" then (st, "impossible:seq.lock-is-held-by-Release-across-its-transaction") else
        let (s', r1, r2) := s.releaseThenNext lf id
        ({ st with s := s' }, "release=" ++ seqResStr r1 ++ " next=" ++
          (match r2 with | .val n => s!"ok:{n}" | r => seqResStr r))
    | none => (st, "bad-op")
  | ["state", id] =>
    match id.toNat? with
    | some id =>
      match s.find id with
      | some o => (st, s!"next={o.next} leased={o.leased}")
      | none => (st, "bad-op")
    | none => (st, "bad-op")
  | ["stored"] => (st, "stored=" ++ optNat s.stored)
  | ["drop", id] =>
    match id.toNat? with
    | some id => ({ st with s := s.step lf (.drop id) }, "ok")
    | none => (st, "bad-op")
  | ["reopen"] => ({ st with s := s.restart }, "ok")
  | ["crash"] => ({ st with s := s.restart }, "ok")
  | _ => (st, "bad-op")

/-! ## `mergeop`: MergeOperator on the database model -/

structure MergeSt where
  d : Db := Db.init {} 0
  key : Bytes := []
  fname : String := "cat"
  deriving Inhabited

def mergeFnOf (n : String) : MergeFn := if n == "add" then addF else catF

/-- scratch transaction ids of the operator's internal transactions -/
def mTid : Nat := 2000000

def mergeopStep (s : MergeSt) (line : String) : MergeSt × String :=
  let f := mergeFnOf s.fname
  let view (d : Db) := d.mergeView mTid s.key
  let lsmOp (d' : Db) (o : String) : MergeSt × String :=
    ({ s with d := d' }, o ++ (if lsmViewOk (view s.d) (view d') then "" else " ABS-DIVERGES"))
  match words line with
  | "reset" :: rest =>
    let kv := kvArgs rest
    let (d, o) := mvccStep s.d line
    ({ d := d, key := (fromHex (argStr kv "mkey")).getD [], fname := argStr kv "f" }, o)
  | ["madd", v] =>
    match fromHex v with
    | some v =>
      let before := view s.d
      let (d, r) := s.d.mergeAdd mTid s.key v
      let after := view d
      let absOk := match r, after with
        | .ok ts, it :: rest => it == ({ ver := ts, val := v } : MItem) && rest == before && before.all (·.ver < ts)
        | .ok _, [] => false
        | _, _ => after == before
      ({ s with d := d }, (match r with
        | .ok _ => "ok"
        | .noop => "ok noop"
        | .conflict => "conflict"
        | .err e => e) ++ (if absOk then "" else " ABS-DIVERGES"))
    | none => (s, "bad-op")
  | ["mget"] =>
    match s.d.mergeGet mTid f s.key with
    | (d, some v) => ({ s with d := d }, "val " ++ toHex v)
    | (d, none) => ({ s with d := d }, "notfound")
  | ["mcompact"] =>
    let before := view s.d
    let d := s.d.mergeCompact mTid f s.key
    let want := (MState.step f { items := before } .compact).items
    ({ s with d := d }, "ok" ++ (if view d == want then "" else " ABS-DIVERGES"))
  | ["mstop"] =>
    -- `Stop()` runs one last `compact`; the harness then creates a new operator
    let before := view s.d
    let d := s.d.mergeCompact mTid f s.key
    let want := (MState.step f { items := before } .compact).items
    ({ s with d := d }, "ok" ++ (if view d == want then "" else " ABS-DIVERGES"))
  | ["put", k, v] =>
    match fromHex k, fromHex v with
    | some k, some v =>
      let (d, _) := s.d.begin mTid true 0
      let (d, r) := d.modify mTid { key := k, ver := 0, emeta := 0, umeta := 0, exp := 0, val := v }
      match r with
      | some e => ({ s with d := d.discardTxn mTid }, e.str)
      | none =>
        let (d, r) := d.commit mTid 0
        lsmOp d (match r with | .ok _ => "ok" | .noop => "ok noop" | .conflict => "conflict" | .err e => e)
    | _, _ => (s, "bad-op")
  | ["reopen"] => lsmOp s.d.reopen "ok"
  | ["nextts"] => (s, toString s.d.nextTs)
  | ["view"] =>
    (s, "view " ++ String.intercalate "," ((view s.d).map (fun it =>
      s!"{it.ver}:{toHex it.val}:{if it.dead then "d" else ""}{if it.discard then "D" else ""}")))
  | _ =>
    let (d, o) := mvccStep s.d line
    lsmOp d o

end Badger.Driver
