import BadgerModel.Key
import BadgerModel.Driver.Util
/-! `codec` engine: stateless pure functions on hex byte strings. One line in, one line out. -/
namespace Badger.Driver

open Badger

def codecStep (line : String) : String :=
  match words line with
  | ["kwt", k, ts] =>
    match hexArg k, natArg ts with
    | some k, some ts => toHex (keyWithTs k ts)
    | _, _ => "bad-op"
  | ["pts", k] =>
    match hexArg k with
    | some k => toString (parseTs k)
    | _ => "bad-op"
  | ["pk", k] =>
    match hexArg k with
    | some k => if k.length < 8 then "nil" else toHex (parseKey k)
    | _ => "bad-op"
  | ["cmp", a, b] =>
    match hexArg a, hexArg b with
    | some a, some b =>
      if a.length < 8 ∨ b.length < 8 then "panic" else ordStr (compareKeys a b)
    | _, _ => "bad-op"
  | ["cmpk", k1, t1, k2, t2] =>
    match hexArg k1, natArg t1, hexArg k2, natArg t2 with
    | some k1, some t1, some k2, some t2 => ordStr (compareKeys (keyWithTs k1 t1) (keyWithTs k2 t2))
    | _, _, _, _ => "bad-op"
  | ["same", a, b] =>
    match hexArg a, hexArg b with
    | some a, some b => boolStr (sameKey a b)
    | _, _ => "bad-op"
  | _ => "bad-op"

end Badger.Driver
