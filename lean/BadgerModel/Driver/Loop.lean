import BadgerModel.Driver.Util
/-! stdin/stdout loops for the drivers: one op line in, exactly one output line out. -/
namespace Badger.Driver

partial def statelessLoop (h : IO.FS.Stream) (out : IO.FS.Stream) (f : String → String) : IO Unit := do
  let line ← h.getLine
  if line.isEmpty then return ()
  out.putStrLn (f (chomp line))
  statelessLoop h out f

partial def statefulLoop {σ : Type} (h : IO.FS.Stream) (out : IO.FS.Stream)
    (step : σ → String → σ × String) (s : σ) : IO Unit := do
  let line ← h.getLine
  if line.isEmpty then return ()
  let (s', o) := step s (chomp line)
  out.putStrLn o
  statefulLoop h out step s'

end Badger.Driver
