import BadgerModel.Bytes
/-! Line-protocol helpers shared by all driver engines. -/
namespace Badger.Driver

def words (line : String) : List String :=
  (line.splitOn " ").filter (· ≠ "")

def natArg (s : String) : Option Nat := s.toNat?

def hexArg (s : String) : Option Bytes := fromHex s

def boolStr (b : Bool) : String := if b then "true" else "false"

def optHex : Option Bytes → String
  | none => "nil"
  | some b => toHex b

/-- Strip a trailing newline / carriage return. -/
def chomp (s : String) : String :=
  let cs := s.toList.reverse.dropWhile (fun c => c == '\n' || c == '\r')
  String.ofList cs.reverse

end Badger.Driver
