import BadgerModel.Log
import BadgerModel.Driver.Util
/-! `log` engine: varints, header / ValueStruct / valuePointer codecs, CRC32-C, log records,
`safeRead.Entry`, `logFile.iterate`. Stateless: one op line in, one output line out. -/
namespace Badger.Driver

open Badger

def u8Arg (s : String) : Option UInt8 :=
  match s.toNat? with
  | some n => if n < 256 then some (UInt8.ofNat n) else none
  | none => none

/-- Key stream given as explicit bytes (`-` = unencrypted = all zero); positions beyond the given
    bytes are zero. (Takes the array, not the list: the conversion must happen once, not per
    byte.) -/
def ksOfArray (a : Array UInt8) (i : Nat) : UInt8 := a.getD i 0

/-- The key-stream bytes of an op line. Kept as data (not as a closure) so that the list→array
    conversion is evaluated once. -/
def ksArg (s : String) : Option (Array UInt8) := (hexArg s).map List.toArray

def cipherOfTable (tbl : Array (Nat × Array UInt8)) (off : Nat) (i : Nat) : UInt8 :=
  match tbl.find? (fun x => x.1 == off) with
  | some (_, a) => a.getD i 0
  | none => 0

/-- `off:hex,off:hex,...` (or `-`): key stream per record offset. -/
def cipherArg (s : String) : Option (Array (Nat × Array UInt8)) :=
  if s == "-" then some #[] else
  let parts := s.splitOn ","
  let parsed : Option (List (Nat × Array UInt8)) := parts.mapM fun p =>
    match p.splitOn ":" with
    | [o, h] => match o.toNat?, fromHex h with
      | some o, some b => some (o, b.toArray)
      | _, _ => none
    | _ => none
  parsed.map List.toArray

def entryStr (e : Entry) : String :=
  s!"{e.metaB.toNat} {e.userMeta.toNat} {e.expiresAt} {toHex e.key} {toHex e.value}"

def headerStr (h : Header) : String :=
  s!"{h.metaB.toNat} {h.userMeta.toNat} {h.klen} {h.vlen} {h.expiresAt}"

def deliveredStr (d : Entry × ValuePointer) : String :=
  let (e, vp) := d
  s!"{vp.fid}:{vp.offset}:{vp.len}:{e.metaB.toNat}:{e.userMeta.toNat}:{e.expiresAt}:{toHex e.key}:{toHex e.value}"

def iterStr (r : IterResult) : String :=
  if r.err = some .panic then "panic" else
  let st := match r.err with
    | none => "ok"
    | some e => e.str
  let items := r.delivered.map deliveredStr
  String.intercalate " " ([st, toString r.endOffset, toString r.delivered.length] ++ items)

/-- `meta:usermeta:expiresAt:keyhex:valhex` -/
def recArg (s : String) : Option Entry :=
  match s.splitOn ":" with
  | [m, um, ex, k, v] =>
    match u8Arg m, u8Arg um, natArg ex, hexArg k, hexArg v with
    | some m, some um, some ex, some k, some v =>
      some { key := k, value := v, expiresAt := ex, metaB := m, userMeta := um }
    | _, _, _, _, _ => none
  | _ => none

def logStep (line : String) : String :=
  match words line with
  | ["uvput", n] =>
    match natArg n with
    | some n => toHex (putUvarint n)
    | _ => "bad-op"
  | ["uvget", b] =>
    match hexArg b with
    | some b => let (v, c) := uvarint b; s!"{v} {c}"
    | _ => "bad-op"
  | ["uvread", b] =>
    match hexArg b with
    | some b =>
      match readUvarint b with
      | .ok (v, rest) => s!"ok {v} {b.length - rest.length}"
      | .error e => e.str
    | _ => "bad-op"
  | ["hdrenc", m, um, kl, vl, ex] =>
    match u8Arg m, u8Arg um, natArg kl, natArg vl, natArg ex with
    | some m, some um, some kl, some vl, some ex =>
      toHex (headerEncode { klen := kl, vlen := vl, expiresAt := ex, metaB := m, userMeta := um })
    | _, _, _, _, _ => "bad-op"
  | ["hdrdec", b] =>
    match hexArg b with
    | some b =>
      match headerDecode b with
      | some (h, n) => s!"{headerStr h} {n}"
      | none => "panic"
    | _ => "bad-op"
  | ["hdrfrom", b] =>
    match hexArg b with
    | some b =>
      match headerDecodeFrom b with
      | .ok (h, rest) => s!"ok {headerStr h} {b.length - rest.length}"
      | .error e => e.str
    | _ => "bad-op"
  | ["vsenc", m, um, ex, v] =>
    match u8Arg m, u8Arg um, natArg ex, hexArg v with
    | some m, some um, some ex, some v =>
      let vs : ValueStruct := { metaB := m, userMeta := um, expiresAt := ex, value := v }
      s!"{toHex (vsEncode vs)} {vsEncodedSize vs}"
    | _, _, _, _ => "bad-op"
  | ["vsdec", b] =>
    match hexArg b with
    | some b =>
      match vsDecode b with
      | some v => s!"{v.metaB.toNat} {v.userMeta.toNat} {v.expiresAt} {toHex v.value}"
      | none => "panic"
    | _ => "bad-op"
  | ["vpenc", f, l, o] =>
    match natArg f, natArg l, natArg o with
    | some f, some l, some o => toHex (vpEncode { fid := f, len := l, offset := o })
    | _, _, _ => "bad-op"
  | ["vpdec", b] =>
    match hexArg b with
    | some b =>
      match vpDecode b with
      | some p => s!"{p.fid} {p.len} {p.offset}"
      | none => "panic"
    | _ => "bad-op"
  | ["crc", b] =>
    match hexArg b with
    | some b => toString (crc32c b)
    | _ => "bad-op"
  | ["entenc", m, um, ex, k, v, _, _, _, ks] =>
    match u8Arg m, u8Arg um, natArg ex, hexArg k, hexArg v, ksArg ks with
    | some m, some um, some ex, some k, some v, some ks =>
      toHex (encodeEntry (ksOfArray ks) { key := k, value := v, expiresAt := ex, metaB := m, userMeta := um })
    | _, _, _, _, _, _ => "bad-op"
  | ["entdec", b, _, _, _, ks] =>
    match hexArg b, ksArg ks with
    | some b, some ks =>
      match decodeEntry (ksOfArray ks) b with
      | some e => entryStr e
      | none => "panic"
    | _, _ => "bad-op"
  | ["sread", b, _, _, _, ks] =>
    match hexArg b, ksArg ks with
    | some b, some ks =>
      match safeReadEntry (ksOfArray ks) b with
      | .ok (e, hlen) => s!"ok {entryStr e} {hlen}"
      | .error e => e.str
    | _, _ => "bad-op"
  | ["iter", fid, b, _, _, c] =>
    match natArg fid, hexArg b, cipherArg c with
    | some fid, some b, some c => iterStr (iterate fid (cipherOfTable c) b)
    | _, _, _ => "bad-op"
  | op :: fid :: _ :: _ :: c :: cut :: fill :: recs =>
    if op == "wal" || op == "walx" then
      match natArg fid, cipherArg c, natArg cut, natArg fill, recs.mapM recArg with
      | some fid, some c, some cut, some fill, some es =>
        let full := encodeAll (cipherOfTable c) vlogHeaderSize es
        let content := full.take cut ++ List.replicate fill 0
        s!"{iterStr (iterate fid (cipherOfTable c) content)} len={full.length} crc={crc32c content}"
      | _, _, _, _, _ => "bad-op"
    else "bad-op"
  | _ => "bad-op"

end Badger.Driver
