import BadgerModel.Bytes
/-!
# The subscription trie (`trie/trie.go`): `Add`/`AddMatch`, `Get`, `Delete`/`DeleteMatch`,
`parseIgnoreBytes`, `removeEmpty`, `numNodes`.

A Go `*node` is a `Node`; `Node.nil` is the nil pointer. `children map[byte]*node` is a total
function `UInt8 → Node` (absent key = `nil`), `ignore *node` a `Node`.
-/
namespace Badger

inductive Node where
  | nil : Node
  | node (ids : List Nat) (ignore : Node) (children : UInt8 → Node) : Node

namespace Node

/-- `newNode()`. -/
def new : Node := .node [] .nil (fun _ => .nil)

def isNil : Node → Bool
  | .nil => true
  | _ => false

def allBytes : List UInt8 := (List.range 256).map UInt8.ofNat

/-- `n.isEmpty()`: no children, no ids, no ignore edge. (`nil` counts as empty: it is only
    used to decide whether an edge is dropped.) -/
def isEmpty : Node → Bool
  | .nil => true
  | .node ids ig ch => ids.isEmpty && ig.isNil && allBytes.all (fun b => (ch b).isNil)

end Node

/-! ## `parseIgnoreBytes` -/

/-- Characters removed by `strings.TrimSpace` (ASCII part; the line protocol only carries
    ASCII ignore strings, bytes ≥ 0x80 are treated as non-space). -/
def isSpaceChar (c : UInt8) : Bool :=
  c == 0x20 || c == 0x09 || c == 0x0a || c == 0x0b || c == 0x0c || c == 0x0d

def trimSpace (s : Bytes) : Bytes :=
  ((s.dropWhile isSpaceChar).reverse.dropWhile isSpaceChar).reverse

/-- `strings.Split(s, sep)` for a one-byte separator: always at least one piece. -/
def splitOnByte (sep : UInt8) : Bytes → List Bytes
  | [] => [[]]
  | c :: cs =>
    if c == sep then [] :: splitOnByte sep cs
    else match splitOnByte sep cs with
      | [] => [[c]]
      | p :: ps => (c :: p) :: ps

def maxInt64 : Nat := 2 ^ 63 - 1

/-- Decimal digits only, non-empty. -/
def parseDigits : Bytes → Option Nat
  | [] => none
  | ds => ds.foldl (fun acc c =>
      match acc with
      | none => none
      | some n => if 0x30 ≤ c.toNat ∧ c.toNat ≤ 0x39 then some (n * 10 + (c.toNat - 0x30)) else none) (some 0)

/-- `strconv.Atoi` on a string without `-` (the callers split on `-` first, so a minus sign
    never reaches `Atoi`; `start`/`end` are therefore never negative and the `start == -1`
    test of the Go code is dead): optional `+`, decimal digits, range of `int64`. -/
def atoi (s : Bytes) : Option Nat :=
  let digits := match s with
    | c :: rest => if c == 0x2b then rest else s
    | [] => s
  match parseDigits digits with
  | some n => if n ≤ maxInt64 then some n else none
  | none => none

/-- `for x >= len(out) { out = append(out, false) }`. -/
def growTo (out : List Bool) (x : Nat) : List Bool :=
  out ++ List.replicate (x + 1 - out.length) false

/-- `for i := start; i <= stop; i++ { out[i] = true }` (indices are in range). -/
def setRange (out : List Bool) (start stop : Nat) : List Bool :=
  (List.range out.length).zipWith (fun i b => if start ≤ i ∧ i ≤ stop then true else b) out

/-- One comma-separated piece of the ignore string. `none` = error. -/
def parseIgnorePiece (out : List Bool) (piece : Bytes) : Option (List Bool) :=
  match splitOnByte 0x2d (trimSpace piece) with     -- Split(TrimSpace(each), "-")
  | [s] =>
    match atoi (trimSpace s) with
    | none => none
    | some st => some (setRange (growTo out st) st st)
  | [s, e] =>
    -- end is parsed first (its error wins), then start
    match atoi (trimSpace e) with
    | none => none
    | some en =>
      match atoi (trimSpace s) with
      | none => none
      | some st => some (setRange (growTo (growTo out st) en) st en)
  | _ => none

/-- `parseIgnoreBytes(ig)`. -/
def parseIgnoreBytes (ig : Bytes) : Option (List Bool) :=
  if ig.isEmpty then some []
  else (splitOnByte 0x2c (trimSpace ig)).foldl
    (fun acc piece => match acc with
      | none => none
      | some out => parseIgnorePiece out piece) (some [])

/-! ## `fix` (set / del) -/

/-- One step of the walk in `fix`: a pattern position is `none` (ignored byte) or `some b`. -/
abbrev Pattern := List (Option UInt8)

/-- `ignore` padded to the length of the prefix, zipped with the prefix: position `i` is a hole
    iff `ignore[i]`. Extra entries of `ignore` beyond the prefix are irrelevant. -/
def mkPattern : Bytes → List Bool → Pattern
  | [], _ => []
  | b :: bs, [] => some b :: mkPattern bs []
  | b :: bs, ig :: igs => (if ig then none else some b) :: mkPattern bs igs

/-- `fix(m, id, set)` below `n` along the remaining pattern (creates missing nodes). -/
def fixSet : Node → Pattern → Nat → Node
  | .nil, p, id => go p id
  | .node ids ig ch, [], id => .node (ids ++ [id]) ig ch
  | .node ids ig ch, none :: p, id => .node ids (fixSet ig p id) ch
  | .node ids ig ch, some b :: p, id =>
    .node ids ig (fun x => if x = b then fixSet (ch b) p id else ch x)
where
  /-- The chain of fresh nodes (`newNode()` at every step) ending in `ids = [id]`. -/
  go : Pattern → Nat → Node
    | [], id => .node [id] .nil (fun _ => .nil)
    | none :: p, id => .node [] (go p id) (fun _ => .nil)
    | some b :: p, id => .node [] .nil (fun x => if x = b then go p id else .nil)

/-- `fix(m, id, del)`: walk; a missing edge returns immediately; at the end every copy of
    `id` is filtered out of `ids`. -/
def fixDel : Node → Pattern → Nat → Node
  | .nil, _, _ => .nil
  | .node ids ig ch, [], id => .node (ids.filter (fun c => id != c)) ig ch
  | .node ids ig ch, none :: p, id => .node ids (fixDel ig p id) ch
  | .node ids ig ch, some b :: p, id =>
    .node ids ig (fun x => if x = b then fixDel (ch b) p id else ch x)

/-- `removeEmpty`: depth first, drop edges to nodes that have become empty. Returns the
    pruned node (the Go function mutates in place and returns `isEmpty`). -/
def removeEmpty : Node → Node
  | .nil => .nil
  | .node ids ig ch =>
    let ig' := removeEmpty ig
    .node ids (if ig'.isEmpty then .nil else ig')
      (fun b => let c := removeEmpty (ch b); if c.isEmpty then .nil else c)

/-- `Trie.get(curNode, key)` as a list (the Go map is its set of elements). -/
def trieGet : Node → Bytes → List Nat
  | .nil, _ => []        -- Go asserts curNode != nil; callers never pass nil
  | .node ids _ _, [] => ids
  | .node ids ig ch, k :: ks => ids ++ trieGet ig ks ++ trieGet (ch k) ks

/-- `numNodes`. -/
def numNodes : Node → Nat
  | .nil => 0
  | .node _ ig ch => numNodes ig + (Node.allBytes.map (fun b => numNodes (ch b))).sum + 1

/-! ## the exported API on a trie (root never nil) -/

structure Trie where
  root : Node

def Trie.empty : Trie := ⟨Node.new⟩

/-- `AddMatch(pb.Match{prefix, ignore}, id)`; `none` = parse error (trie unchanged). -/
def Trie.addMatch (t : Trie) (pfx ig : Bytes) (id : Nat) : Option Trie :=
  match parseIgnoreBytes ig with
  | none => none
  | some bools => some ⟨fixSet t.root (mkPattern pfx bools) id⟩

/-- `DeleteMatch`: `fix(del)` then `removeEmpty(root)` (the root itself stays). -/
def Trie.deleteMatch (t : Trie) (pfx ig : Bytes) (id : Nat) : Option Trie :=
  match parseIgnoreBytes ig with
  | none => none
  | some bools => some ⟨removeEmpty (fixDel t.root (mkPattern pfx bools) id)⟩

def Trie.get (t : Trie) (key : Bytes) : List Nat := trieGet t.root key

end Badger
