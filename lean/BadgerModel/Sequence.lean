import BadgerModel.Bytes
/-!
# Sequences (`db.go`: `Sequence`, `GetSequence`, `Next`, `updateLease`, `Release`)

The database side of a sequence is one number stored under the sequence key (the lease: every
number below it may have been handed out). Each `Sequence` object keeps `{next, leased,
bandwidth}` in memory. `updateLease` and `Release` are ordinary read-modify-write transactions
(`db.Update`), so under SSI each of them either commits (`ok`: then the value it read *is* the
stored value at its commit) or fails with `ErrConflict` (another transaction wrote the key
between its read timestamp and its commit: then the value it read is some older stored value).
The outcome is an input of the model (`TxnOut`).

`updateLease` is the code as it is (since badger commit 54a0fc5, the fix of finding F9): the
closure works on local variables and `seq.next` / `seq.leased` are assigned only after
`db.Update` returned nil. `updateLeaseOld` is the code before that commit: it assigned
`seq.next` and `seq.leased` **inside** the closure, before the outcome of the commit was known
(kept for the historical witness only).
-/
namespace Badger

def u64 (n : Nat) : Nat := n % 2 ^ 64

structure SeqObj where
  id : Nat
  next : Nat := 0
  leased : Nat := 0
  bandwidth : Nat
  deriving Repr, Inhabited, DecidableEq

/-- outcome of the `db.Update` transaction, decided by the SSI oracle. `conflict r`: the
    transaction read `r` (`none`: key absent in its snapshot) and its commit was refused. -/
inductive TxnOut
  | ok
  | conflict (read : Option Nat)
  deriving Repr, DecidableEq

structure SeqSys where
  stored : Option Nat := none              -- the 8-byte big-endian value under the key
  objs : List SeqObj := []                 -- live `Sequence` objects
  usedIds : List Nat := []                 -- ids ever given to an object (never reused)
  handed : List (Nat × Nat) := []          -- log: (object id, number) for every successful `Next`
  deriving Repr, Inhabited

def SeqSys.find (s : SeqSys) (id : Nat) : Option SeqObj := s.objs.find? (·.id == id)
def SeqSys.put (s : SeqSys) (o : SeqObj) : SeqSys :=
  { s with objs := o :: s.objs.filter (·.id != o.id) }

/-- `Sequence.updateLease` BEFORE commit 54a0fc5 (historical). Returns the object, the stored value and
    whether `db.Update` returned nil. The closure reads the key (`ErrKeyNotFound` ⇒ `next = 0`),
    computes `lease = next + bandwidth` (uint64 arithmetic), writes it and assigns
    `seq.leased = lease`; only then does `Update` try to commit. -/
def updateLeaseOld (o : SeqObj) (stored : Option Nat) (out : TxnOut) : SeqObj × Option Nat × Bool :=
  match out with
  | .ok =>
    let next := stored.getD 0
    let lease := u64 (next + o.bandwidth)
    ({ o with next := next, leased := lease }, some lease, true)
  | .conflict r =>
    let next := r.getD 0
    let lease := u64 (next + o.bandwidth)
    ({ o with next := next, leased := lease }, stored, false)     -- fields kept, nothing persisted

/-- `Sequence.updateLease` as it is: `next`/`lease` are locals of the closure (`ErrKeyNotFound` ⇒
    `next = 0`, `lease = next + bandwidth` in uint64, the lease is written), and
    `seq.next/seq.leased` are assigned after `Update` returned nil; on any error the object is
    unchanged. -/
def updateLease (o : SeqObj) (stored : Option Nat) (out : TxnOut) : SeqObj × Option Nat × Bool :=
  match out with
  | .ok =>
    let next := stored.getD 0
    let lease := u64 (next + o.bandwidth)
    ({ o with next := next, leased := lease }, some lease, true)
  | .conflict _ => (o, stored, false)

/-- which `updateLease` a run uses (today's, or the historical one) -/
abbrev LeaseFn := SeqObj → Option Nat → TxnOut → SeqObj × Option Nat × Bool

inductive SeqRes
  | val (n : Nat)
  | ok
  | conflict
  | notfound
  | badop
  deriving Repr, DecidableEq

/-- `DB.GetSequence(key, bandwidth)`: a fresh object, then `updateLease`. The object is returned
    to the caller together with the error. -/
def SeqSys.getSequence (lf : LeaseFn) (s : SeqSys) (id bw : Nat) (out : TxnOut) : SeqSys × SeqRes :=
  if s.usedIds.contains id || bw == 0 then (s, .badop) else
  let o : SeqObj := { id := id, bandwidth := bw }
  let (o, st, good) := lf o s.stored out
  ({ s with stored := st, objs := o :: s.objs, usedIds := id :: s.usedIds }, if good then .ok else .conflict)

/-- `Sequence.Next` -/
def SeqSys.next (lf : LeaseFn) (s : SeqSys) (id : Nat) (out : TxnOut) : SeqSys × SeqRes :=
  match s.find id with
  | none => (s, .badop)
  | some o =>
    if o.next ≥ o.leased then
      let (o, st, good) := lf o s.stored out
      let s := { s.put o with stored := st }
      if !good then (s, .conflict) else
      let v := o.next
      ({ s.put { o with next := u64 (o.next + 1) } with handed := s.handed ++ [(id, v)] }, .val v)
    else
      let v := o.next
      ({ s.put { o with next := u64 (o.next + 1) } with handed := s.handed ++ [(id, v)] }, .val v)

/-- `Sequence.Release`: a transaction that reads the key (`ErrKeyNotFound` is returned as is),
    writes back `next` when the stored value equals this object's `leased`, and — after a
    successful `Update` only — sets `leased = next`. -/
def SeqSys.release (s : SeqSys) (id : Nat) (out : TxnOut) : SeqSys × SeqRes :=
  match s.find id with
  | none => (s, .badop)
  | some o =>
    match out with
    | .conflict _ => (s, .conflict)
    | .ok =>
      match s.stored with
      | none => (s, .notfound)
      | some num =>
        let st := if num == o.leased then some o.next else some num
        ({ s.put { o with leased := o.next } with stored := st }, .ok)

/-- `Release ‖ Next` on ONE object. `Next` and `Release` both hold `seq.lock` from their first to
    their last statement (`seq.lock.Lock(); defer seq.lock.Unlock()`), the `db.Update`
    transaction included, so two calls on the same object are atomic sections: the only
    schedules are the two serial orders. The harness starts `Release`, parks it inside its
    transaction, then calls `Next`: under the lock `Next` waits (`sched=blocked`) and the
    outcome is `Release` followed by `Next`. -/
def SeqSys.releaseThenNext (lf : LeaseFn) (s : SeqSys) (id : Nat) : SeqSys × SeqRes × SeqRes :=
  let (s1, r1) := s.release id .ok
  let (s2, r2) := s1.next lf id .ok
  (s2, r1, r2)

/-- NOT a behaviour of the code: what a `Next` served from memory *between* Release's read of
    `seq.next / seq.leased` and its write-back would do if `Release` did not hold `seq.lock`
    across its transaction (snapshot; `Next` hands out the snapshotted `next`; the snapshot is
    written back and becomes the lease bound). Used only to show that the lock is load-bearing
    (`C30_release_lock_needed`). -/
def SeqSys.releaseInterleavedNext (s : SeqSys) (id : Nat) : SeqSys :=
  match s.find id with
  | none => s
  | some o =>
    if o.next < o.leased then
      let n := o.next
      let l := o.leased
      let st := match s.stored with
        | some num => if num == l then some n else some num
        | none => none
      { s.put { o with next := u64 (n + 1), leased := n } with
        stored := st, handed := s.handed ++ [(id, n)] }
    else s

/-- restart or crash: every in-memory object is gone, the stored value stays. -/
def SeqSys.restart (s : SeqSys) : SeqSys := { s with objs := [] }

/-- the operations of the lease machine -/
inductive SeqOp
  | new (id bw : Nat) (out : TxnOut)
  | next (id : Nat) (out : TxnOut)
  | release (id : Nat) (out : TxnOut)
  | drop (id : Nat)          -- the program forgets one object
  | restart                  -- close/reopen or crash
  deriving Repr, DecidableEq

def SeqSys.step (lf : LeaseFn) (s : SeqSys) : SeqOp → SeqSys
  | .new id bw out => (s.getSequence lf id bw out).1
  | .next id out => (s.next lf id out).1
  | .release id out => (s.release id out).1
  | .drop id => { s with objs := s.objs.filter (·.id != id) }
  | .restart => s.restart

def SeqSys.run (lf : LeaseFn) (s : SeqSys) (ops : List SeqOp) : SeqSys := ops.foldl (SeqSys.step lf) s

/-- the numbers one object handed out, in order -/
def SeqSys.handedBy (s : SeqSys) (id : Nat) : List Nat := (s.handed.filter (·.1 == id)).map (·.2)

end Badger
