import BadgerModel.Fs
/-!
# `Open` as a function of a directory image (db.go `Open`, memtable.go `openMemTables`,
# levels.go `revertToManifest` / `newLevelsController`, value.go `valueLog.open`)

Abstraction level: logical contents (`Chunk`s). The MANIFEST is a list of change sets, a WAL
a list of transaction records, a table one `Chunk.table`. The byte level of the same functions
is `BadgerModel/Log.lean` (`iterate`) and `BadgerModel/Manifest.lean` (`replay`).
-/
namespace Badger

/-! ## WAL replay: `logFile.iterate` + `memTable.UpdateSkipList` -/

structure WalScan where
  ents : List CEnt := []     -- entries handed to the replay function (complete transactions only)
  valid : Nat := 0           -- chunks up to `validEndOffset`
  deriving Repr, DecidableEq

/-- `logFile.iterate` over the records after the header. `lastCommit = 0` means "not inside a
    transaction" (timestamps of real commits are ≥ 1). `pos` counts the chunks consumed so far,
    `valid` those up to the last complete transaction. The loop ends at the first record that
    does not continue the current transaction (the Go code `break`s and the caller truncates). -/
def scanWal (lastCommit : Nat) (pend : List CEnt) (pos valid : Nat) (acc : List CEnt) :
    List Chunk → WalScan
  | [] => { ents := acc, valid := valid }
  | .walEnt ts e :: rest =>
    let lc := if lastCommit = 0 then ts else lastCommit
    if lc ≠ ts then { ents := acc, valid := valid }
    else scanWal lc (pend ++ [e]) (pos + 1) valid acc rest
  | .walFin ts :: rest =>
    if lastCommit ≠ ts then { ents := acc, valid := valid }
    else scanWal 0 [] (pos + 1) (pos + 1) (acc ++ pend) rest
  | .walPlain e :: rest =>
    -- "most likely an entry which was moved as part of GC": not allowed inside a transaction
    if lastCommit ≠ 0 then { ents := acc, valid := valid }
    else scanWal 0 [] (pos + 1) (pos + 1) (acc ++ [e]) rest
  | _ :: _ => { ents := acc, valid := valid }

/-- replay of one log file: skip the header (an all-zero header region is read as "no
    encryption, zero IV" and the file is an empty log), then scan. -/
def replayLog (chunks : List Chunk) : WalScan :=
  match chunks with
  | .hdr :: rest => scanWal 0 [] 1 1 [] rest
  | _ => { ents := [], valid := 0 }

/-! ## MANIFEST replay -/

def applyMChange (t : List (Nat × Nat)) : MChange → Option (List (Nat × Nat))
  | .create id lvl => if (aget id t).isSome then none else some (aset id lvl t)
  | .delete id => if (aget id t).isSome then some (aerase id t) else none

def applyMSet (t : List (Nat × Nat)) : List MChange → Option (List (Nat × Nat))
  | [] => some t
  | c :: cs => match applyMChange t c with
    | some t' => applyMSet t' cs
    | none => none

/-- table set (id ↦ level) after the change sets; `none` = replay error -/
def replayMSets (t : List (Nat × Nat)) : List Chunk → Option (List (Nat × Nat))
  | [] => some t
  | .mset cs :: rest => match applyMSet t cs with
    | some t' => replayMSets t' rest
    | none => none
  | _ :: _ => none

def replayManifest : List Chunk → Option (List (Nat × Nat))
  | .mhdr :: rest => replayMSets [] rest
  | _ => none

/-! ## directory listings

`os.ReadDir` + parse + sort ascending. The model enumerates the numbered names below a bound
that exceeds every number in the image, which yields the same ascending list. -/

def Path.num : Path → Nat
  | .mem n => n
  | .vlog n => n
  | .sst n => n
  | _ => 0

def Image.bound (img : Image) : Nat := (img.map (fun x => x.1.num)).foldl max 0 + 1

def listFiles (file : Path → Option Inode) (mk : Nat → Path) (B : Nat) : List (Nat × Inode) :=
  (List.range B).filterMap (fun n => (file (mk n)).map (fun f => (n, f)))

def Image.mems (img : Image) : List (Nat × Inode) := listFiles img.file .mem img.bound
def Image.vlogs (img : Image) : List (Nat × Inode) := listFiles img.file .vlog img.bound
def Image.ssts (img : Image) : List (Nat × Inode) := listFiles img.file .sst img.bound

/-! ## recovery -/

inductive RecErr
  | noManifestRO               -- "no manifest found, required for read-only db"
  | badManifest
  | zeroLengthLog (p : Path)   -- z.OpenMmapFile on a zero-length file answers `NewFile`, which
                               -- openMemTables / valueLog.open treat as an error
  | truncateNeeded (p : Path)  -- read-only open of a log with a tail to cut
  | missingTable (id : Nat)    -- "file does not exist for table %d"
  | badTable (id : Nat)        -- table file without a complete table image
  deriving DecidableEq, Repr

def RecErr.str : RecErr → String
  | .noManifestRO => "no-manifest"
  | .badManifest => "bad-manifest"
  | .zeroLengthLog _ => "zero-length-log"
  | .truncateNeeded _ => "truncate-needed"
  | .missingTable _ => "missing-table"
  | .badTable _ => "bad-table"

structure RTable where
  id : Nat
  level : Nat
  ents : List CEnt
  deriving Repr, DecidableEq

structure RState where
  tables : List RTable := []
  imms : List (Nat × List CEnt) := []   -- replayed, non-empty memtables (fid ascending)
  nextTxnTs : Nat := 0
  nextMemFid : Nat := 1                 -- fid given to the new active memtable
  nextSstId : Nat := 1
  vlogFid : Nat := 1                    -- fid of the value log created by this Open
  vlogs : List (Nat × List Chunk) := [] -- the value-log files found (after truncation)
  ops : List FsOp := []                 -- what Open itself did to the directory
  deriving Repr

def maxVer (es : List CEnt) : Nat := es.foldl (fun m e => max m e.ver) 0

def RState.entries (r : RState) : List CEnt :=
  (r.imms.map (·.2)).flatten ++ (r.tables.map (·.ents)).flatten

/-- can the value of `e` be read? (inline, or its value-log record is there) -/
def RState.readable (r : RState) (e : CEnt) : Bool :=
  e.vfid == 0 || (match aget e.vfid r.vlogs with
    | some cs => cs.contains (.vEnt e.key e.ver)
    | none => false)

def mkFile (p : Path) : List FsOp := [.create p, .extend p]
def delFile (p : Path) : List FsOp := [.truncate p 0, .unlink p]
def newLog (p : Path) : List FsOp := mkFile p ++ [.append p .hdr, .zero p]

/-- `openMemTables`: every `.mem` file in ascending fid order. Returns the immutable
    memtables, the operations performed (truncate to the valid end; an empty memtable's file is
    deleted by `DecrRef`) and the largest fid seen. -/
def openMems (old ro : Bool) : List (Nat × Inode) → Except RecErr (List (Nat × List CEnt) × List FsOp)
  | [] => .ok ([], [])
  | (fid, f) :: rest =>
    if f.size = .zero then
      -- `z.OpenMmapFile` sizes the empty file and answers `NewFile`; `logFile.open` writes a
      -- header. Before the repair of F22 (`old`) `openMemTables` took that answer for an error;
      -- now the file is an empty memtable, dropped (and its file deleted) like any other.
      if old ∨ ro then .error (.zeroLengthLog (.mem fid)) else
      match openMems old ro rest with
      | .error e => .error e
      | .ok (imms, ops) =>
        .ok (imms, mkFile (.mem fid) ++ [.append (.mem fid) .hdr, .zero (.mem fid)] ++ delFile (.mem fid) ++ ops)
    else
    let sc := replayLog f.chunks
    let needTrunc := f.size = .alloc ∨ sc.valid ≠ f.chunks.length
    if ro ∧ needTrunc then .error (.truncateNeeded (.mem fid)) else
    let topsT := if needTrunc then [FsOp.truncate (.mem fid) sc.valid] else []
    let topsD := if sc.ents.isEmpty then [FsOp.truncate (.mem fid) 0, FsOp.unlink (.mem fid)] else []
    match openMems old ro rest with
    | .error e => .error e
    | .ok (imms, ops) =>
      .ok ((if sc.ents.isEmpty then imms else (fid, sc.ents) :: imms), topsT ++ topsD ++ ops)

/-- the tables the MANIFEST lists, read from the image (`revertToManifest` step 1 +
    `OpenTable`) -/
def openTables (file : Path → Option Inode) : List (Nat × Nat) → Except RecErr (List RTable)
  | [] => .ok []
  | (id, lvl) :: rest =>
    match file (.sst id) with
    | none => .error (.missingTable id)
    | some f =>
      match f.chunks with
      | [.table es] =>
        match openTables file rest with
        | .ok ts => .ok ({ id := id, level := lvl, ents := es } :: ts)
        | .error e => .error e
      | _ => .error (.badTable id)

/-- `valueLog.open` (read-write): zero-length files are an error, header-only files other than
    the newest are deleted, the newest is truncated to its valid end, a new file is created. -/
def openVlogs (old ro : Bool) (maxFid : Nat) : List (Nat × Inode) → Except RecErr (List FsOp)
  | [] => .ok []
  | (fid, f) :: rest =>
    if f.size = .zero then
      -- as for `.mem` files: an error before the repair of F22, now an empty value-log file
      -- (sized, header written; the newest one is then cut back to its header)
      if old ∨ ro then .error (.zeroLengthLog (.vlog fid)) else
      match openVlogs old ro maxFid rest with
      | .ok ops =>
        .ok (mkFile (.vlog fid) ++ [.append (.vlog fid) .hdr, .zero (.vlog fid)] ++
             (if fid = maxFid then [FsOp.truncate (.vlog fid) 1] else []) ++ ops)
      | .error e => .error e
    else
    let del := !ro && f.size = .tight && f.chunks.length ≤ 1 && fid ≠ maxFid
    let ops1 := if del then [FsOp.truncate (.vlog fid) 0, FsOp.unlink (.vlog fid)] else []
    let ops2 :=
      if !ro && fid = maxFid then
        let n := f.chunks.length   -- value-log records are written whole before the WAL refers to them
        if f.size = .alloc then [FsOp.truncate (.vlog fid) (max n 1)] else []
      else []
    match openVlogs old ro maxFid rest with
    | .ok ops => .ok (ops1 ++ ops2 ++ ops)
    | .error e => .error e


/-- `helpRewrite`: the MANIFEST is written to MANIFEST-REWRITE, synced, renamed, and the
    directory is synced. -/
def manifestRewriteOps (sets : List Chunk) : List FsOp :=
  [.create .manifestRewrite] ++ (FsOp.append .manifestRewrite .mhdr :: sets.map (FsOp.append .manifestRewrite)) ++
  [.sync .manifestRewrite, .rename .manifestRewrite .manifest, .syncDir]

def lastFid {α : Type} (l : List (Nat × α)) : Nat := (l.map (·.1)).foldl max 0

/-- `badger.Open` as a function of "what is in the file called p" (`file`) and a bound `B`
    above every number used in a file name. `ro` = `Options.ReadOnly`; `old` = the behaviour
    before the repair of F22. -/
def recoverG (old ro : Bool) (file : Path → Option Inode) (B : Nat) : Except RecErr RState :=
  -- 1. MANIFEST
  let mres : Except RecErr (List (Nat × Nat) × List FsOp) :=
    match file .manifest with
    | none => if ro then .error .noManifestRO else .ok ([], manifestRewriteOps [])
    | some f =>
      match replayManifest f.chunks with
      | some t => .ok (t, if ro then [] else [.truncate .manifest f.chunks.length])
      | none => .error .badManifest
  match mres with
  | .error e => .error e
  | .ok (tset, mops) =>
  -- 2. key registry
  let kops : List FsOp :=
    if (file .keyRegistry).isSome ∨ ro then []
    else [.create .keyRegistryRewrite, .append .keyRegistryRewrite .kreg,
          .rename .keyRegistryRewrite .keyRegistry, .syncDir]
  -- 3. memtables
  let mems := listFiles file .mem B
  match openMems old ro mems with
  | .error e => .error e
  | .ok (imms, memOps) =>
  let nextMem := lastFid mems + 1
  let newMemOps := if ro then [] else newLog (.mem nextMem) ++ [.syncDir]
  -- 4. tables: revertToManifest + OpenTable
  match openTables file tset with
  | .error e => .error e
  | .ok tables =>
  let extra := ((listFiles file .sst B).filter (fun x => (aget x.1 tset).isNone)).map (fun x => FsOp.unlink (.sst x.1))
  let lvlOps := extra ++ [.syncDir]
  -- 5. oracle
  let mv := max (maxVer (imms.map (·.2)).flatten) (maxVer (tables.map (·.ents)).flatten)
  -- 6. value log
  let vls := listFiles file .vlog B
  let vmax := lastFid vls
  match openVlogs old ro vmax vls with
  | .error e => .error e
  | .ok vops =>
  let newV := if ro then [] else newLog (.vlog (vmax + 1)) ++ [.syncDir]
  .ok { tables := tables, imms := imms, nextTxnTs := mv + 1, nextMemFid := nextMem,
        nextSstId := lastFid (tset.map (fun x => (x.1, ()))) + 1,
        vlogFid := vmax + 1,
        vlogs := vls.map (fun x => (x.1, x.2.chunks)),
        ops := mops ++ kops ++ memOps ++ newMemOps ++ lvlOps ++ vops ++ newV }

/-- `badger.Open` as it is -/
def recoverF (ro : Bool) (file : Path → Option Inode) (B : Nat) : Except RecErr RState := recoverG false ro file B

/-- `badger.Open` of a directory image -/
def recover (ro : Bool) (img : Image) : Except RecErr RState := recoverF ro img.file img.bound

/-- `badger.Open` before the repair of finding F22 (zero-length log files were an error) -/
def recoverOld (ro : Bool) (img : Image) : Except RecErr RState := recoverG true ro img.file img.bound

end Badger
