/-!
# `y.WaterMark` (`/repo/y/watermark.go`): the `process` goroutine as a pure step function.

The Go type has two halves:

* the *callers* (`Begin`, `BeginMany`, `Done`, `DoneMany`, `WaitForMark`) which only store
  `lastIndex` and send a `mark` on the buffered channel `markCh` (FIFO);
* the single `process` goroutine which receives the marks one at a time and owns the heap of
  indices, the `pending` map and the `waiters` map; it is the only writer of `doneUntil`
  (`SetDoneUntil` is not used by badger outside tests and is not modelled).

`WM.step` is one iteration of the `for { select { case mark := <-w.markCh … } }` loop, i.e. the
processing of one mark, branch by branch. Everything is sequential inside that goroutine, so a
run of the watermark is exactly a fold of `WM.step` over the sequence of marks in channel order.
The asynchrony (marks sitting in the channel while callers go on) is modelled in
`Oracle.lean` by a queue in front of the `WM` (`AWM`).

Indices are `Nat`s (Go: `uint64`). Assumption recorded in `props/C34.json`: indices are
`< 2^64 - 1` (with `until = MaxUint64` the Go loop `for idx := doneUntil+1; idx <= until; idx++`
never terminates; badger never uses that index for a watermark: watermarks are unused in managed
mode and `nextTxnTs` would have to overflow).
Where Go would `log.Fatalf` (`AssertTruef(false, …)` when `doneUntil > index`) the model sets
the sticky flag `failed` and ignores every later mark (the process has exited).
-/
namespace Badger

/-- What is sent on `markCh`. `begin`/`done` are `mark{index, done}`, the `…Many` variants are
    `mark{index: 0, indices, done}`, `wait` is `mark{index, waiter}`. Waiter channels are
    identified by a number chosen by the caller. -/
inductive Mark where
  | begin (idx : Nat)
  | beginMany (idxs : List Nat)
  | done (idx : Nat)
  | doneMany (idxs : List Nat)
  | wait (idx : Nat) (waiter : Nat)
  deriving Repr, DecidableEq

/-- `close(ch)` of the waiter channel `waiter` that was waiting for index `idx`. -/
structure Wakeup where
  waiter : Nat
  idx : Nat
  deriving Repr, DecidableEq

/-- `map[uint64]int`. -/
abbrev Pending := Nat → Option Int

def Pending.empty : Pending := fun _ => none
def Pending.set (p : Pending) (i : Nat) (v : Int) : Pending := fun j => if j = i then some v else p j
def Pending.del (p : Pending) (i : Nat) : Pending := fun j => if j = i then none else p j
/-- `pending[i]` (Go returns the zero value for a missing key). -/
def Pending.val (p : Pending) (i : Nat) : Int := (p i).getD 0

/-- `map[uint64][]chan struct{}` kept as an association list sorted by index (Go's map has no
    order; the only place where the order could be observed is the order in which channels are
    closed, which no receiver can observe). -/
abbrev Waiters := List (Nat × List Nat)

structure WM where
  doneUntil : Nat := 0
  lastIndex : Nat := 0
  /-- `indices uint64Heap`: only the minimum is ever inspected, so a sorted list. -/
  heap : List Nat := []
  pending : Pending := Pending.empty
  waiters : Waiters := []
  /-- `AssertTruef(false, …)` fired: the process is gone. -/
  failed : Bool := false

def WM.init : WM := {}

/-- `heap.Push` on a sorted list. -/
def heapPush (x : Nat) : List Nat → List Nat
  | [] => [x]
  | y :: ys => if x ≤ y then x :: y :: ys else y :: heapPush x ys

/-- The `for len(indices) > 0 { min := indices[0]; if pending[min] > 0 {break}; Pop; delete; until = min }`
    loop. Returns the new heap, pending map and `til`. -/
def popLoop (p : Pending) : List Nat → Nat → List Nat × Pending × Nat
  | [], til => ([], p, til)
  | min :: rest, til =>
    if p.val min > 0 then (min :: rest, p, til)
    else popLoop (p.del min) rest min

def wakeAll (idx : Nat) (ws : List Nat) : List Wakeup := ws.map (fun w => ⟨w, idx⟩)

def Waiters.get (ws : Waiters) (idx : Nat) : Option (List Nat) := List.lookup idx ws
def Waiters.del (ws : Waiters) (idx : Nat) : Waiters := ws.filter (fun p => p.1 != idx)

/-- `waiters[idx] = append(waiters[idx], ch)` (creating the entry when absent). -/
def Waiters.add (idx w : Nat) : Waiters → Waiters
  | [] => [(idx, [w])]
  | (k, l) :: rest =>
    if idx < k then (idx, [w]) :: (k, l) :: rest
    else if idx = k then (k, l ++ [w]) :: rest
    else (k, l) :: Waiters.add idx w rest

/-- First notification path: `for idx := doneUntil+1; idx <= until; idx++ { if toNotify, ok :=
    waiters[idx]; ok { notifyAndRemove(idx, toNotify) } }`; `lo` is the current `idx`, `n` the
    number of iterations left. -/
def notifyRange (ws : Waiters) (lo : Nat) : Nat → Waiters × List Wakeup
  | 0 => (ws, [])
  | n + 1 =>
    match ws.get lo with
    | some l =>
      let r := notifyRange (ws.del lo) (lo + 1) n
      (r.1, wakeAll lo l ++ r.2)
    | none => notifyRange ws (lo + 1) n

/-- Second notification path: `for idx, toNotify := range waiters { if idx <= until {
    notifyAndRemove(idx, toNotify) } }` (iteration in index order, see `Waiters`). -/
def notifyMap (ws : Waiters) (til : Nat) : Waiters × List Wakeup :=
  (ws.filter (fun p => !(decide (p.1 ≤ til))),
   (ws.filter (fun p => decide (p.1 ≤ til))).flatMap (fun p => wakeAll p.1 p.2))

/-- `until - doneUntil` on `uint64`. -/
def u64sub (a b : Nat) : Nat := (a + 2 ^ 64 - b) % 2 ^ 64

/-- Which of the two notification paths the code takes. -/
def usesRangePath (doneUntil til nWaiters : Nat) : Bool :=
  decide (u64sub til doneUntil ≤ nWaiters)

def notify (ws : Waiters) (doneUntil til : Nat) : Waiters × List Wakeup :=
  if usesRangePath doneUntil til ws.length then
    notifyRange ws (doneUntil + 1) (til - doneUntil)
  else notifyMap ws til

/-- The closure `processOne(index, done)`. -/
def WM.processOne (s : WM) (index : Nat) (done : Bool) : WM × List Wakeup :=
  if s.failed then (s, []) else
  let present := (s.pending index).isSome
  let heap1 := if present then s.heap else heapPush index s.heap
  let delta : Int := if done then -1 else 1
  let pending1 := s.pending.set index (s.pending.val index + delta)
  if s.doneUntil > index then
    -- `AssertTruef(false, …)` = `log.Fatalf`: the process exits; the half-updated maps are dead.
    ({ s with failed := true }, [])
  else
    let r := popLoop pending1 heap1 s.doneUntil
    let til := r.2.2
    -- `if until != doneUntil { AssertTrue(CAS(doneUntil, until)) }`: `process` is the only writer.
    let n := notify s.waiters s.doneUntil til
    ({ s with doneUntil := til, heap := r.1, pending := r.2.1, waiters := n.1 }, n.2)

/-- `for _, index := range mark.indices { processOne(index, mark.done) }`. -/
def WM.processMany (s : WM) (done : Bool) : List Nat → WM × List Wakeup
  | [] => (s, [])
  | i :: is =>
    let r := s.processOne i done
    let r' := WM.processMany r.1 done is
    (r'.1, r.2 ++ r'.2)

/-- One received mark. The caller side of `Begin`/`BeginMany` (`lastIndex.Store`) is folded in.
    `BeginMany([])` panics in the caller (`indices[len(indices)-1]`) before anything is sent. -/
def WM.step (s : WM) (m : Mark) : WM × List Wakeup :=
  if s.failed then (s, []) else
  match m with
  | .wait idx w =>
    if s.doneUntil ≥ idx then (s, [⟨w, idx⟩])
    else ({ s with waiters := Waiters.add idx w s.waiters }, [])
  | .begin idx => ({ s with lastIndex := idx }).processOne idx false
  | .done idx => s.processOne idx true
  | .beginMany [] => (s, [])
  | .beginMany (i :: is) =>
    -- `mark.index == 0 && len(mark.indices) > 0`: index 0 itself is not processed
    ({ s with lastIndex := (i :: is).getLast?.getD 0 }).processMany false (i :: is)
  | .doneMany [] =>
    -- `mark.index == 0 && len(mark.indices) == 0` ⇒ `processOne(0, true)`
    s.processOne 0 true
  | .doneMany (i :: is) => s.processMany true (i :: is)

/-- Run a sequence of marks (channel order), collecting the wake-ups. -/
def WM.runW (s : WM) : List Mark → WM × List Wakeup
  | [] => (s, [])
  | m :: ms =>
    let r := s.step m
    let r' := WM.runW r.1 ms
    (r'.1, r.2 ++ r'.2)

def WM.run (s : WM) (ms : List Mark) : WM := (s.runW ms).1

/-- `WaitForMark` seen from the caller: fast path on `DoneUntil()`, otherwise send a `wait` mark
    (the result is the same as sending the mark unconditionally). -/
def WM.waitForMark (s : WM) (idx w : Nat) : WM × List Wakeup :=
  if s.doneUntil ≥ idx then (s, [⟨w, idx⟩]) else s.step (.wait idx w)

/-- All stored waiter ids with their index (flattened). -/
def WM.storedWaiters (s : WM) : List Wakeup := s.waiters.flatMap (fun p => wakeAll p.1 p.2)

end Badger
