import BadgerModel.Key
/-!
# `compactStatus` (compaction.go:30-260): the bookkeeping that keeps concurrently running
compactions apart.

`keyRange` (`isEmpty equals overlapsWith`), `levelCompactStatus` (`overlapsWith remove`),
`compactStatus.compareAndAdd`, `compactStatus.delete`, and the hand-written registration at the end
of `fillTablesL0ToL0` (levels.go:1186-1219), transcribed as they are:

* `overlapsWith`: an EMPTY receiver overlaps everything, an empty argument overlaps nothing, `inf`
  overlaps everything non-empty, otherwise the closed intervals are compared with `y.CompareKeys`;
* `remove` drops EVERY stored range equal to its argument and reports whether there was one;
* `compareAndAdd` tests both levels before it changes anything, then appends `thisRange` to this
  level and `nextRange` to the next level (the same object when both levels coincide);
* `delete` removes `thisRange`, and `nextRange` only when the two level handlers differ and the
  range is not empty; `log.Fatal` / `y.AssertTrue` are the `none` results;
* `cs.tables` is a Go map used as a set: a duplicate-free list here.
-/
namespace Badger.CS

open Badger

structure KeyRange where
  left : Bytes := []
  right : Bytes := []
  inf : Bool := false
deriving DecidableEq, Repr, Inhabited

/-- `keyRange.isEmpty`. -/
def KeyRange.isEmpty (r : KeyRange) : Bool := r.left.isEmpty && r.right.isEmpty && !r.inf

/-- `infRange`. -/
def infRange : KeyRange := { inf := true }

/-- `keyRange.equals` (the `size` field is not compared). -/
def KeyRange.equals (r d : KeyRange) : Bool := r.left == d.left && r.right == d.right && r.inf == d.inf

/-- `keyRange.overlapsWith`. -/
def KeyRange.overlapsWith (r dst : KeyRange) : Bool :=
  if r.isEmpty then true
  else if dst.isEmpty then false
  else if r.inf || dst.inf then true
  else if compareKeys r.left dst.right == .gt then false
  else if compareKeys r.right dst.left == .lt then false
  else true

structure LevelCS where
  ranges : List KeyRange := []
  delSize : Int := 0
deriving Repr, Inhabited

/-- `levelCompactStatus.overlapsWith`. -/
def LevelCS.overlapsWith (l : LevelCS) (dst : KeyRange) : Bool := l.ranges.any (·.overlapsWith dst)

/-- `levelCompactStatus.remove`: the remaining ranges and `found`. -/
def LevelCS.remove (l : LevelCS) (dst : KeyRange) : LevelCS × Bool :=
  ({ l with ranges := l.ranges.filter (fun r => !r.equals dst) }, l.ranges.any (·.equals dst))

/-- The part of `compactDef` the status looks at; `ids` = ids of `append(cd.top, cd.bot...)`. -/
structure CDef where
  thisLevel : Nat
  nextLevel : Nat
  thisRange : KeyRange
  nextRange : KeyRange
  thisSize : Int := 0
  ids : List Nat := []
deriving DecidableEq, Repr, Inhabited

structure CStatus where
  levels : List LevelCS
  tables : List Nat := []
deriving Repr, Inhabited

def CStatus.init (n : Nat) : CStatus := { levels := List.replicate n {} }

/-- Functional update of one slot (out of range: unchanged). -/
def modAt {α : Type} : Nat → (α → α) → List α → List α
  | _, _, [] => []
  | 0, f, x :: xs => f x :: xs
  | n + 1, f, x :: xs => x :: modAt n f xs

def CStatus.level (cs : CStatus) (l : Nat) : LevelCS := cs.levels.getD l {}

def setAdd (id : Nat) (t : List Nat) : List Nat := if id ∈ t then t else id :: t

def addIds (ids t : List Nat) : List Nat := ids.foldl (fun acc id => setAdd id acc) t

/-- `compactStatus.overlapsWith(level, this)`. -/
def CStatus.overlapsWith (cs : CStatus) (l : Nat) (r : KeyRange) : Bool := (cs.level l).overlapsWith r

/-- `compactStatus.compareAndAdd`; `none` = `y.AssertTruef(tl < len(cs.levels))` / index panic. -/
def CStatus.compareAndAdd (cs : CStatus) (cd : CDef) : Option (CStatus × Bool) :=
  if cd.thisLevel < cs.levels.length ∧ cd.nextLevel < cs.levels.length then
    if (cs.level cd.thisLevel).overlapsWith cd.thisRange then some (cs, false)
    else if (cs.level cd.nextLevel).overlapsWith cd.nextRange then some (cs, false)
    else
      let l1 := modAt cd.thisLevel
        (fun l => { l with ranges := l.ranges ++ [cd.thisRange], delSize := l.delSize + cd.thisSize }) cs.levels
      let l2 := modAt cd.nextLevel (fun l => { l with ranges := l.ranges ++ [cd.nextRange] }) l1
      some ({ levels := l2, tables := addIds cd.ids cs.tables }, true)
  else none

/-- The id loop at the end of `delete`: `y.AssertTrue(ok)` then `delete(cs.tables, id)`. -/
def delIds : List Nat → List Nat → Option (List Nat)
  | [], t => some t
  | id :: ids, t => if id ∈ t then delIds ids (t.filter (· ≠ id)) else none

/-- `compactStatus.delete`; `none` = `log.Fatal("keyRange not found")` / failed assertion. -/
def CStatus.delete (cs : CStatus) (cd : CDef) : Option CStatus :=
  if cd.thisLevel < cs.levels.length ∧ cd.nextLevel < cs.levels.length then
    let l1 := modAt cd.thisLevel
      (fun l => { (l.remove cd.thisRange).1 with delSize := l.delSize - cd.thisSize }) cs.levels
    let found1 := ((cs.level cd.thisLevel).remove cd.thisRange).2
    let both := decide (cd.thisLevel ≠ cd.nextLevel) && !cd.nextRange.isEmpty
    let l2 := if both then modAt cd.nextLevel (fun l => (l.remove cd.nextRange).1) l1 else l1
    let found := if both then ((l1.getD cd.nextLevel {}).remove cd.nextRange).2 && found1 else found1
    if found then
      (delIds cd.ids cs.tables).map (fun t => { levels := l2, tables := t })
    else none
  else none

/-- End of `fillTablesL0ToL0`: of the candidate tables (already filtered by size and age) keep the
ones not being compacted; with fewer than four give up; otherwise register `infRange` on level 0
(no overlap test) and the table ids. Returns the ids picked. -/
def CStatus.l0l0 (cs : CStatus) (cands : List Nat) : CStatus × Option (List Nat) :=
  let out := cands.filter (fun id => !(cs.tables.contains id))
  if out.length < 4 then (cs, none)
  else
    ({ levels := modAt 0 (fun l => { l with ranges := l.ranges ++ [infRange] }) cs.levels,
       tables := addIds out cs.tables }, some out)

/-- The `compactDef` that `fillTablesL0ToL0` leaves behind (what `delete` is called with). -/
def l0l0Def (out : List Nat) : CDef :=
  { thisLevel := 0, nextLevel := 0, thisRange := infRange, nextRange := {}, thisSize := 0, ids := out }

end Badger.CS
