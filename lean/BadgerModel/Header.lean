import BadgerModel.Varint
/-!
# Entry header, `y.ValueStruct`, `valuePointer` (structs.go, y/iterator.go)

* `header.Encode` / `header.Decode` (slice based, `binary.Uvarint`) / `header.DecodeFrom`
  (stream based, `binary.ReadUvarint`), including the `uint32(...)` truncation of
  `klen`/`vlen` on decode and Go's slice-bounds panics (`none`).
* `ValueStruct.Encode/Decode/EncodedSize`.
* `valuePointer.Encode/Decode`: the in-memory struct image, i.e. three little-endian `uint32`
  in the order `Fid, Len, Offset` (little-endian hosts).
-/
namespace Badger

structure Header where
  klen : Nat
  vlen : Nat
  expiresAt : Nat
  metaB : UInt8
  userMeta : UInt8
  deriving DecidableEq, Repr

/-- `header.Encode(out)`: the bytes written (`out[:index]`). -/
def headerEncode (h : Header) : Bytes :=
  h.metaB :: h.userMeta :: (putUvarint h.klen ++ putUvarint h.vlen ++ putUvarint h.expiresAt)

/-- Go slice expression `buf[i:]` for a signed index: panics (`none`) outside `0..len`. -/
def sliceFrom (buf : Bytes) (i : Int) : Option Bytes :=
  if i < 0 ∨ i > buf.length then none else some (buf.drop i.toNat)

/-- `header.Decode(buf)`: returns the header and the `int` result (`index + count`), `none` when
    the Go code panics (short buffer, or a negative `count` of `binary.Uvarint` driving the index
    below zero). A zero or negative `count` is *not* checked by the Go code and is mirrored. -/
def headerDecode (buf : Bytes) : Option (Header × Int) :=
  match buf with
  | m :: um :: _ =>
    let index : Int := 2
    match sliceFrom buf index with
    | none => none
    | some s1 =>
      let (klen, c1) := uvarint s1
      let index := index + c1
      match sliceFrom buf index with
      | none => none
      | some s2 =>
        let (vlen, c2) := uvarint s2
        let index := index + c2
        match sliceFrom buf index with
        | none => none
        | some s3 =>
          let (exp, c3) := uvarint s3
          some ({ klen := klen % 2 ^ 32, vlen := vlen % 2 ^ 32, expiresAt := exp,
                  metaB := m, userMeta := um }, index + c3)
  | _ => none

/-- `hashReader.ReadByte` on a stream. -/
def readByte : Bytes → Except RErr (UInt8 × Bytes)
  | [] => .error .eof
  | b :: bs => .ok (b, bs)

/-- `header.DecodeFrom(reader)`: header and unread rest (`reader.bytesRead` is the number of
    bytes consumed). -/
def headerDecodeFrom (b : Bytes) : Except RErr (Header × Bytes) :=
  match readByte b with
  | .error e => .error e
  | .ok (m, r0) =>
    match readByte r0 with
    | .error e => .error e
    | .ok (um, r1) =>
      match readUvarint r1 with
      | .error e => .error e
      | .ok (klen, r2) =>
        match readUvarint r2 with
        | .error e => .error e
        | .ok (vlen, r3) =>
          match readUvarint r3 with
          | .error e => .error e
          | .ok (exp, r4) =>
            .ok ({ klen := klen % 2 ^ 32, vlen := vlen % 2 ^ 32, expiresAt := exp,
                   metaB := m, userMeta := um }, r4)

/-! ## y.ValueStruct -/

structure ValueStruct where
  metaB : UInt8
  userMeta : UInt8
  expiresAt : Nat
  value : Bytes
  deriving DecidableEq, Repr

/-- `ValueStruct.EncodedSize` (before the `uint32` conversion). -/
def vsEncodedSize (v : ValueStruct) : Nat := v.value.length + 2 + sizeVarint v.expiresAt

/-- `ValueStruct.Encode(b)`: the bytes written `b[:n]` (for `len(b) ≥ EncodedSize`). -/
def vsEncode (v : ValueStruct) : Bytes :=
  v.metaB :: v.userMeta :: (putUvarint v.expiresAt ++ v.value)

/-- `ValueStruct.Decode(b)`; `none` = panic (`len(b) < 2`, or overflow count `sz < -2`). -/
def vsDecode (b : Bytes) : Option ValueStruct :=
  match b with
  | m :: um :: rest =>
    let (exp, sz) := uvarint rest
    match sliceFrom b (2 + sz) with
    | none => none
    | some v => some { metaB := m, userMeta := um, expiresAt := exp, value := v }
  | _ => none

/-! ## valuePointer -/

structure ValuePointer where
  fid : Nat
  len : Nat
  offset : Nat
  deriving DecidableEq, Repr

def vpEncode (p : ValuePointer) : Bytes := leBytes p.fid 4 ++ leBytes p.len 4 ++ leBytes p.offset 4

/-- `valuePointer.Decode(b)`; `none` = panic (`b[:12]` on a shorter slice). -/
def vpDecode (b : Bytes) : Option ValuePointer :=
  if b.length < 12 then none
  else some { fid := leNat (b.take 4), len := leNat ((b.drop 4).take 4),
              offset := leNat ((b.drop 8).take 4) }

end Badger
