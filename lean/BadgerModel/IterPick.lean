import BadgerModel.Mvcc
/-!
# Table picking for iterators (`IteratorOptions.pickTable` / `pickTables`, iterator.go:323-415;
`levelHandler.appendIterators`, level_handler.go:301)

`Txn.NewIterator` does not scan every table: level 0 tables are filtered one by one with
`pickTable`, every level ≥ 1 is narrowed with `pickTables` (two `sort.Search` binary searches on
`Biggest`/`Smallest` against the prefix, then the `SinceTs`/`MaxVersion` filter). Memtables are
never filtered. The bloom-filter answer `t.DoesNotHave(Hash(prefix))` used for key iterators
(`prefixIsKey`) is a parameter `dnh : Tbl → Bool` (only "no false negatives" is ever assumed
about it, in the proofs).
-/
namespace Badger

/-- `Table.MaxVersion()`: the largest version stored in the table (`builder.maxVersion`). -/
def Tbl.maxVersion (t : Tbl) : Nat := t.ents.foldl (fun m e => max m e.ver) 0

/-- user key of `Smallest()` / `Biggest()` (`y.ParseKey`; an empty table has the empty key) -/
def Tbl.smallestKey (t : Tbl) : Bytes := match t.smallest with | some e => e.key | none => []
def Tbl.biggestKey (t : Tbl) : Bytes := match t.biggest with | some e => e.key | none => []

/-- `opt.compareToPrefix(key)`: `bytes.Compare(ParseKey(key)[:len(prefix)], prefix)` — the user
    key truncated to the length of the prefix (a shorter key is compared as it is). -/
def compareToPrefix (pfx k : Bytes) : Ordering := cmpBytes (k.take pfx.length) pfx

/-- `opt.pickTable(t)` (level 0). -/
def pickTable (o : IterOpts) (dnh : Tbl → Bool) (t : Tbl) : Bool :=
  if t.maxVersion < o.sinceTs then false
  else if o.prefix_.isEmpty then true
  else if compareToPrefix o.prefix_ t.smallestKey == .gt then false
  else if compareToPrefix o.prefix_ t.biggestKey == .lt then false
  else if o.prefixIsKey && dnh t then false
  else true

/-- `sort.Search(n, f)`: binary search for the smallest index in `[0, n)` with `f` true (`n` if
    none), exactly the loop of the Go standard library (meaningful for monotone `f`). -/
def sortSearch (n : Nat) (f : Nat → Bool) : Nat :=
  go n 0 n
where
  go : Nat → Nat → Nat → Nat
  | 0, i, _ => i
  | fuel + 1, i, j =>
    if i < j then
      let h := (i + j) / 2
      if !f h then go fuel (h + 1) j else go fuel i h
    else i

/-- the `filterTables` closure of `pickTables` -/
def filterSince (o : IterOpts) (tables : List Tbl) : List Tbl :=
  if o.sinceTs > 0 then tables.filter (fun t => !decide (t.maxVersion < o.sinceTs)) else tables

/-- `opt.pickTables(all)` (levels ≥ 1, `all` sorted by key range). -/
def pickTables (o : IterOpts) (dnh : Tbl → Bool) (all : List Tbl) : List Tbl :=
  if o.prefix_.isEmpty then filterSince o all else
  let emptyT : Tbl := { ents := [] }
  let sIdx := sortSearch all.length
    (fun i => compareToPrefix o.prefix_ (all.getD i emptyT).biggestKey != .lt)
  if sIdx == all.length then [] else
  let filtered := all.drop sIdx
  if !o.prefixIsKey then
    let eIdx := sortSearch filtered.length
      (fun i => compareToPrefix o.prefix_ (filtered.getD i emptyT).smallestKey == .gt)
    filterSince o (filtered.take eIdx)
  else
    -- the loop: stop at the first table whose smallest key is above the prefix, skip the
    -- tables the bloom filter excludes
    filterSince o ((filtered.takeWhile (fun t => compareToPrefix o.prefix_ t.smallestKey != .gt)).filter
      (fun t => !dnh t))

/-- the sources an iterator really opens: memtables unfiltered, level 0 newest first filtered
    by `pickTable`, each level ≥ 1 the concatenation of `pickTables`. -/
def Lsm.pickedSources (s : Lsm) (o : IterOpts) (dnh : Tbl → Bool) : List (List Ent) :=
  (s.mem :: s.imm.reverse) ++
  (match s.levels with
   | [] => []
   | l0 :: rest =>
     (l0.filter (pickTable o dnh)).reverse.map (·.ents) ++
       rest.map (fun tbls => ((pickTables o dnh tbls).map (·.ents)).flatten))

/-- `Db.iterate` over the picked sources. -/
def Db.iteratePicked (d : Db) (id : Nat) (o : IterOpts) (seek : Option Bytes) (dnh : Tbl → Bool) :
    Option (List Ent) :=
  match d.findTxn id with
  | none => none
  | some t =>
    let srcs := pendingSource t :: d.lsm.pickedSources o dnh
    let merged := mergeAll srcs
    let rem := seekList merged o t.readTs seek
    some (validPrefix o (parseItems o t.readTs d.now (2 * rem.length + 2) none rem))

end Badger
