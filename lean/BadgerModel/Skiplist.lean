import BadgerModel.Source
/-!
# `skl.Skiplist` (skl/skl.go), sequential model

Tower structure as one key chain per level: `levels[i]` is the list of the keys of the nodes
linked at level `i`, in chain order (`head.tower[i] → … → nil`).  A node is identified by its
key (keys are unique in the list; `Put` of an existing key overwrites the value in place and
creates no node).  `vals` is the value part of the arena as an append-only log of slots
`(node key, encoded y.ValueStruct)` (what `arena.putVal` stores), newest slot first: the
value word `(offset, size)` of a node designates one slot; `setValue` allocates a *fresh*
slot and publishes it (`putVal` then `value.Store`), it never writes into an existing slot.
A `ValueStruct` handed to a reader aliases its slot, so the bytes a reader holds can only
stay valid if slots are immutable (`C22_seq_value_immutable`, `C22_conc_value_immutable`).
The current payload of a node is its newest slot (`valueOf`).

Node pointers are `SkRef`: the head node, `nil`, or the node with a given key.

What is *not* modelled here: the arena (offsets, sizes, the 2^32 limit), atomics/CAS failure by
concurrent writers (in a sequential execution the CAS on `prev[i].tower[i]` compares against
the value read a moment ago by `findSpliceForLevel`; the model still performs that comparison
and takes the retry branch if it fails), reference counting.

`Put` takes the tower height (`randomHeight()`, `1 ≤ h ≤ maxHeight`) as an argument.
Go `y.AssertTrue` failures are `none`.
-/
namespace Badger

def sklMaxHeight : Nat := 20

inductive SkRef where
  | head
  | nil
  | node (k : Bytes)
deriving DecidableEq, Repr, Inhabited

structure Skiplist where
  height : Nat
  levels : List (List Bytes)
  vals : List (Bytes × Bytes)
deriving Repr

namespace Skiplist

/-- `NewSkiplist`: height 1, empty towers. -/
def empty : Skiplist := ⟨1, [], []⟩

/-- encoded zero `y.ValueStruct{}` (meta, usermeta, uvarint 0) -/
def emptyValue : Bytes := [0, 0, 0]

def level (s : Skiplist) (i : Nat) : List Bytes := s.levels.getD i []

/-- node payload (`arena.getVal(n.getValueOffset())`) -/
def valueOf (s : Skiplist) (k : Bytes) : Bytes := (s.vals.lookup k).getD emptyValue

/-- the part of a level chain that follows node `x` -/
def after (x : SkRef) (chain : List Bytes) : List Bytes :=
  match x with
  | .head => chain
  | .nil => []
  | .node k => (chain.dropWhile (fun y => y != k)).tail

def refOfList : List Bytes → SkRef
  | [] => .nil
  | k :: _ => .node k

/-- `s.getNext(nd, height)` -/
def getNext (s : Skiplist) (x : SkRef) (lvl : Nat) : SkRef := refOfList (after x (s.level lvl))

/-- The loop of `findSpliceForLevel`, walking the chain that follows `before`. -/
def spliceScan (key : Bytes) : SkRef → List Bytes → SkRef × SkRef
  | before, [] => (before, .nil)
  | before, nk :: rest =>
    match compareKeys key nk with
    | .eq => (.node nk, .node nk)      -- Equality case.
    | .lt => (before, .node nk)        -- before.key < key < next.key
    | .gt => spliceScan key (.node nk) rest   -- Keep moving right on this level.

/-- `findSpliceForLevel(key, before, level)` -/
def findSpliceForLevel (s : Skiplist) (key : Bytes) (before : SkRef) (lvl : Nat) : SkRef × SkRef :=
  spliceScan key before (after before (s.level lvl))

/-- `node.setValue` on the node with key `k`: `arena.putVal(v)` takes a fresh slot, then the
    node's value word is switched to it; older slots are left untouched. -/
def setValue (s : Skiplist) (k v : Bytes) : Skiplist := { s with vals := (k, v) :: s.vals }

def insertAfterKey (p key : Bytes) : List Bytes → List Bytes
  | [] => []
  | y :: ys => if y == p then y :: key :: ys else y :: insertAfterKey p key ys

/-- link a new node with key `key` behind `prev` in a level chain
    (`x.tower[i] = next; prev.tower[i] = x`) -/
def insertAfter (prev : SkRef) (key : Bytes) (chain : List Bytes) : List Bytes :=
  match prev with
  | .head => key :: chain
  | .nil => chain
  | .node p => insertAfterKey p key chain

def setLevel : List (List Bytes) → Nat → List Bytes → List (List Bytes)
  | [], 0, c => [c]
  | [], i + 1, c => [] :: setLevel [] i c
  | _ :: ls, 0, c => c :: ls
  | l :: ls, i + 1, c => l :: setLevel ls i c

def insertAt (s : Skiplist) (lvl : Nat) (prev : SkRef) (key : Bytes) : Skiplist :=
  { s with levels := setLevel s.levels lvl (insertAfter prev key (s.level lvl)) }

/-- First loop of `Put`: `for i := listHeight-1; i >= 0; i-- { prev[i], next[i] =
    findSpliceForLevel(key, prev[i+1], i); if prev[i] == next[i] { … return } }`.
    `.inl k`: a node with key `k` (= `key`) exists; `.inr spl`: `spl[i] = (prev[i], next[i])`. -/
def putDescend (s : Skiplist) (key : Bytes) :
    Nat → SkRef → List (SkRef × SkRef) → Sum Bytes (List (SkRef × SkRef))
  | 0, _, acc => .inr acc
  | i + 1, before, acc =>
    let pn := s.findSpliceForLevel key before i
    if pn.1 == pn.2 then
      match pn.1 with
      | .node k => .inl k
      | _ => .inr acc   -- unreachable: `(before, nil)`/`(before, node)` are never equal refs
    else putDescend s key i pn.1 (pn :: acc)

/-- Second loop of `Put`: `for i := 0; i < height; i++ { for { … } }`; `n` = levels still to
    link, `i` = current level, `oldH` = `listHeight` read at the start of `Put`. -/
def linkFrom (key v : Bytes) (oldH : Nat) (spl : List (SkRef × SkRef)) :
    Nat → Nat → Skiplist → Option Skiplist
  | 0, _, s => some s
  | n + 1, i, s =>
    let pn : Option (SkRef × SkRef) :=
      if i < oldH then spl[i]?
      else if i == oldH then some (.head, .nil)   -- prev[listHeight] = s.head; next[listHeight] = nil
      else if i > 1 then                           -- prev[i] == nil: y.AssertTrue(i > 1)
        let pn := s.findSpliceForLevel key .head i
        if pn.1 == pn.2 then none else some pn     -- y.AssertTrue(prev[i] != next[i])
      else none
    match pn with
    | none => none
    | some (p, nx) =>
      -- prev[i].casNextOffset(i, nextOffset, x)
      if s.getNext p i == nx then linkFrom key v oldH spl n (i + 1) (s.insertAt i p key)
      else
        -- CAS failed: recompute prev and next
        let pn' := s.findSpliceForLevel key p i
        if pn'.1 == pn'.2 then
          if i == 0 then some (s.setValue key v) else none   -- y.AssertTruef(i == 0, …)
        else linkFrom key v oldH spl n (i + 1) (s.insertAt i pn'.1 key)

/-- `Skiplist.Put(key, v)` with `randomHeight() = h`. -/
def put (s : Skiplist) (key v : Bytes) (h : Nat) : Option Skiplist :=
  match putDescend s key s.height .head [] with
  | .inl k => some (s.setValue k v)
  | .inr spl =>
    -- x := newNode(s.arena, key, v, height)
    let s1 := s.setValue key v
    -- Try to increase s.height via CAS.
    let s2 := if h > s1.height then { s1 with height := h } else s1
    linkFrom key v s.height spl h 0 s2

/-- `putAll`: a sequence of `Put`s; `none` if one of them panics. -/
def putAll (s : Skiplist) : List (Bytes × Bytes × Nat) → Option Skiplist
  | [] => some s
  | (k, v, h) :: ops =>
    match s.put k v h with
    | some s' => putAll s' ops
    | none => none

/-- One level of the `findNear` loop: `x` is the current node, the list is the chain that
    follows `x` on level `lvl`; `descend x` continues on the level below. -/
def scanNear (s : Skiplist) (key : Bytes) (less allowEqual : Bool) (lvl : Nat)
    (descend : SkRef → SkRef × Bool) : SkRef → List Bytes → SkRef × Bool
  | x, [] =>
    -- next == nil
    if lvl > 0 then descend x
    else if !less then (.nil, false)
    else if x == .head then (.nil, false)
    else (x, false)
  | x, nk :: rest =>
    match compareKeys key nk with
    | .gt => scanNear s key less allowEqual lvl descend (.node nk) rest   -- x = next
    | .eq =>
      if allowEqual then (.node nk, true)
      else if !less then (s.getNext (.node nk) 0, false)
      else if lvl > 0 then descend x
      else if x == .head then (.nil, false)
      else (x, false)
    | .lt =>
      if lvl > 0 then descend x
      else if !less then (.node nk, false)
      else if x == .head then (.nil, false)
      else (x, false)

def findNearFrom (s : Skiplist) (key : Bytes) (less allowEqual : Bool) : Nat → SkRef → SkRef × Bool
  | 0, x => scanNear s key less allowEqual 0 (fun _ => (.nil, false)) x (after x (s.level 0))
  | l + 1, x =>
    scanNear s key less allowEqual (l + 1) (fun x' => findNearFrom s key less allowEqual l x') x
      (after x (s.level (l + 1)))

/-- `findNear(key, less, allowEqual)` -/
def findNear (s : Skiplist) (key : Bytes) (less allowEqual : Bool) : SkRef × Bool :=
  findNearFrom s key less allowEqual (s.height - 1) .head

def lastRef (n : SkRef) (rest : List Bytes) : SkRef :=
  match rest.getLast? with
  | some k => .node k
  | none => n

def findLastFrom (s : Skiplist) : Nat → SkRef → SkRef
  | 0, n =>
    let n' := lastRef n (after n (s.level 0))
    if n' == .head then .nil else n'
  | l + 1, n => findLastFrom s l (lastRef n (after n (s.level (l + 1))))

/-- `findLast` -/
def findLast (s : Skiplist) : SkRef := findLastFrom s (s.height - 1) .head

/-- `Empty` -/
def isEmpty (s : Skiplist) : Bool := s.findLast == .nil

/-- `Get(key)`: encoded value and `Version`; the zero `ValueStruct` when there is no entry
    with the same user key at or after `key`. -/
def get (s : Skiplist) (key : Bytes) : Bytes × Nat :=
  match (s.findNear key false true).1 with
  | .node nk => if sameKey key nk then (s.valueOf nk, parseTs nk) else (emptyValue, 0)
  | _ => (emptyValue, 0)

/-! ### `Iterator` (position = `n`) -/

def seekToFirst (s : Skiplist) : SkRef := s.getNext .head 0
def seekToLast (s : Skiplist) : SkRef := s.findLast
def seek (s : Skiplist) (target : Bytes) : SkRef := (s.findNear target false true).1
def seekForPrev (s : Skiplist) (target : Bytes) : SkRef := (s.findNear target true true).1

/-- `Next`; `none` = `y.AssertTrue(s.Valid())` fails -/
def iterNext (s : Skiplist) : SkRef → Option SkRef
  | .node k => some (s.getNext (.node k) 0)
  | _ => none

/-- `Prev` -/
def iterPrev (s : Skiplist) : SkRef → Option SkRef
  | .node k => some (s.findNear k true false).1
  | _ => none

/-! ### `UniIterator` -/

def uniRewind (s : Skiplist) (reversed : Bool) : SkRef :=
  if !reversed then s.seekToFirst else s.seekToLast
def uniSeek (s : Skiplist) (reversed : Bool) (key : Bytes) : SkRef :=
  if !reversed then s.seek key else s.seekForPrev key
def uniNext (s : Skiplist) (reversed : Bool) (n : SkRef) : Option SkRef :=
  if !reversed then s.iterNext n else s.iterPrev n

def isNode : SkRef → Bool
  | .node _ => true
  | _ => false

def refKey : SkRef → Bytes
  | .node k => k
  | _ => []

/-- `UniIterator` over a skiplist that is not modified meanwhile, as a `y.Iterator` method
    table (state = `iter.n`).  `Next` on an invalid iterator (Go: fatal assertion) is
    totalised to a no-op; `MergeIterator` never makes that call. -/
def uniOps (s : Skiplist) (reversed : Bool) : IterOps SkRef :=
  { rewind := fun _ => s.uniRewind reversed
    seek := fun k _ => s.uniSeek reversed k
    next := fun n => (s.uniNext reversed n).getD n
    valid := isNode
    key := refKey
    value := fun n => s.valueOf (refKey n)
    size := fun _ => (s.level 0).length }

/-- `s.NewUniIterator(reversed)` as an interface value -/
def uniIter (s : Skiplist) (reversed : Bool) : AnyIter := ⟨SkRef, uniOps s reversed, .nil⟩

/-- the level-0 chain with values: what a full forward iteration returns -/
def toList (s : Skiplist) : List ItEntry := (s.level 0).map (fun k => ⟨k, s.valueOf k⟩)

end Skiplist

/-! ## Specification: a sorted association list under `compareKeys` with insert-or-replace -/

def sortedInsert (k v : Bytes) : List ItEntry → List ItEntry
  | [] => [⟨k, v⟩]
  | e :: es =>
    match compareKeys k e.key with
    | .lt => ⟨k, v⟩ :: e :: es
    | .eq => ⟨k, v⟩ :: es
    | .gt => e :: sortedInsert k v es

def sortedInsertAll (puts : List (Bytes × Bytes)) : List ItEntry :=
  puts.foldl (fun acc p => sortedInsert p.1 p.2 acc) []

/-- first key `≥ key` of a chain -/
def lowerBound (key : Bytes) (c : List Bytes) : Option Bytes :=
  c.find? (fun k => compareKeys key k != .gt)
/-- first key `> key` -/
def upperBound (key : Bytes) (c : List Bytes) : Option Bytes :=
  c.find? (fun k => compareKeys key k == .lt)
/-- last key `≤ key` -/
def lastLE (key : Bytes) (c : List Bytes) : Option Bytes :=
  (c.filter (fun k => compareKeys key k != .lt)).getLast?
/-- last key `< key` -/
def lastLT (key : Bytes) (c : List Bytes) : Option Bytes :=
  (c.filter (fun k => compareKeys key k == .gt)).getLast?

/-- what `findNear(key, less, allowEqual)` has to return on a list with keys `c` -/
def nearSpec (c : List Bytes) (key : Bytes) : (less allowEqual : Bool) → Option Bytes
  | false, true => lowerBound key c
  | false, false => upperBound key c
  | true, true => lastLE key c
  | true, false => lastLT key c

def refOfOpt : Option Bytes → SkRef
  | none => .nil
  | some k => .node k

namespace Skiplist
/-- consumer loop of a forward `Iterator`: at most `n` entries starting at position `x` -/
def collectFwd (s : Skiplist) : Nat → SkRef → List ItEntry
  | n + 1, .node k => ⟨k, s.valueOf k⟩ :: collectFwd s n (s.getNext (.node k) 0)
  | _, _ => []

/-- consumer loop with `Prev` -/
def collectRev (s : Skiplist) : Nat → SkRef → List ItEntry
  | n + 1, .node k => ⟨k, s.valueOf k⟩ :: collectRev s n (s.findNear k true false).1
  | _, _ => []
end Skiplist

end Badger
