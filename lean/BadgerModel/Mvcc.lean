import BadgerModel.Lsm
/-!
# Transactions, the timestamp oracle and the user-visible iterator over the LSM model
(txn.go, iterator.go, db.go). One `Db` value is the whole modelled database.
-/
namespace Badger

structure Opts where
  managed : Bool := false
  numKeep : Nat := 1
  threshold : Nat := 1024          -- ValueThreshold (static: VLogPercentile = 0)
  inMemory : Bool := false
  detectConflicts : Bool := true
  vlogFileSize : Nat := 1 <<< 30
  maxBatchCount : Nat := 0
  maxBatchSize : Nat := 0
  maxLevels : Nat := 7
  nsOffset : Option Nat := none    -- `NamespaceOffset` (`none` = -1: namespaces off), see Namespace.lean
  deriving Repr, Inhabited

/-- A `y.WaterMark` after its channel has been drained: begun indices with their pending
    counts (the heap, kept sorted) and `doneUntil`. -/
structure Wm where
  pend : List (Nat × Int) := []
  doneUntil : Nat := 0
  deriving Repr, Inhabited

def Wm.bump (w : Wm) (idx : Nat) (d : Int) : Wm :=
  let rec ins : List (Nat × Int) → List (Nat × Int)
    | [] => [(idx, d)]
    | (i, c) :: rest =>
      if idx < i then (idx, d) :: (i, c) :: rest
      else if idx == i then (i, c + d) :: rest
      else (i, c) :: ins rest
  { w with pend := ins w.pend }

/-- the loop at the end of `processOne`: pop while the minimum has no pending work. -/
def Wm.advance (w : Wm) : Wm :=
  let rec go : List (Nat × Int) → Nat → List (Nat × Int) × Nat
    | [], u => ([], u)
    | (i, c) :: rest, u => if c > 0 then ((i, c) :: rest, u) else go rest i
  let (p, u) := go w.pend w.doneUntil
  { pend := p, doneUntil := u }

def Wm.begin (w : Wm) (idx : Nat) : Wm := (w.bump idx 1).advance
def Wm.done (w : Wm) (idx : Nat) : Wm := (w.bump idx (-1)).advance

structure TxnM where
  id : Nat
  readTs : Nat
  update : Bool
  pending : List Ent := []      -- `pendingWrites`, one entry per key, `ver = 0` means "commit ts"
  dups : List Ent := []         -- `duplicateWrites`
  reads : List Bytes := []
  writes : List Bytes := []     -- `conflictKeys` (keys instead of fingerprints)
  discarded : Bool := false
  doneRead : Bool := false
  count : Nat := 1
  size : Nat := 0
  deriving Repr, Inhabited

structure Db where
  opts : Opts
  lsm : Lsm
  nextTs : Nat := 1
  readMark : Wm := {}
  discardTs : Nat := 0                       -- managed mode `SetDiscardTs`
  committed : List (Nat × List Bytes) := []  -- `committedTxns` (after cleanups)
  lastCleanupTs : Nat := 0
  txns : List TxnM := []
  now : Nat := 0
  banned : List Nat := []                    -- `bannedNamespaces` (Namespace.lean)
  deriving Repr, Inhabited

def txnKeyLen : Nat := 11   -- len("!badger!txn")
def badgerPrefix : Bytes := [0x21, 0x62, 0x61, 0x64, 0x67, 0x65, 0x72, 0x21]  -- "!badger!"

def Db.init (o : Opts) (now : Nat) : Db :=
  { opts := o, lsm := Lsm.init o.maxLevels, now := now,
    -- Open: txnMark.Done(0); readMark.Done(0); nextTxnTs = 1
    readMark := (({} : Wm).done 0) }

def Db.findTxn (d : Db) (id : Nat) : Option TxnM := d.txns.find? (·.id == id)
def Db.setTxn (d : Db) (t : TxnM) : Db :=
  { d with txns := t :: d.txns.filter (·.id != t.id) }

/-- `orc.discardAtOrBelow()` -/
def Db.discardAtOrBelow (d : Db) : Nat :=
  if d.opts.managed then d.discardTs else d.readMark.doneUntil

/-- `newTransaction`: `readTs = nextTxnTs - 1`, `readMark.Begin(readTs)` (normal mode). -/
def Db.begin (d : Db) (id : Nat) (update : Bool) (managedTs : Nat) : Db × Nat :=
  let rts := if d.opts.managed then managedTs else d.nextTs - 1
  let t : TxnM := { id, readTs := rts, update, size := txnKeyLen + 30 }
  let d := if d.opts.managed then d else { d with readMark := d.readMark.begin rts }
  (d.setTxn t, rts)

def Db.doneRead (d : Db) (t : TxnM) : Db × TxnM :=
  if t.doneRead || d.opts.managed then (d, { t with doneRead := true })
  else ({ d with readMark := d.readMark.done t.readTs }, { t with doneRead := true })

def Db.discardTxn (d : Db) (id : Nat) : Db :=
  match d.findTxn id with
  | none => d
  | some t =>
    if t.discarded then d else
    let (d, t) := d.doneRead t
    d.setTxn { t with discarded := true }

/-- `Entry.estimateSizeAndSetThreshold` -/
def estimateSize (threshold : Nat) (e : Ent) : Nat :=
  if e.val.length < threshold then e.key.length + e.val.length + 2 else e.key.length + 12 + 2

inductive ModErr | readonly | discarded | emptykey | invalidkey | keytoobig | valtoobig | txntoobig | banned
  deriving Repr, DecidableEq

def ModErr.str : ModErr → String
  | .readonly => "err:readonly" | .discarded => "err:discarded" | .emptykey => "err:emptykey"
  | .invalidkey => "err:invalidkey" | .keytoobig => "err:keytoobig" | .valtoobig => "err:valtoobig"
  | .txntoobig => "err:txntoobig" | .banned => "err:banned"

/-- `Txn.modify` (validation order as in the `switch`, then `checkSize`, then the pending map). -/
def Db.modify (d : Db) (id : Nat) (e : Ent) : Db × Option ModErr :=
  match d.findTxn id with
  | none => (d, some .discarded)
  | some t =>
    if !t.update then (d, some .readonly)
    else if t.discarded then (d, some .discarded)
    else if e.key.isEmpty then (d, some .emptykey)
    else if badgerPrefix.isPrefixOf e.key then (d, some .invalidkey)
    else if e.key.length > 65000 then (d, some .keytoobig)
    else if e.val.length > d.opts.vlogFileSize then (d, some .valtoobig)
    else if d.opts.inMemory && e.val.length > d.opts.threshold then (d, some .valtoobig)
    else
      let count := t.count + 1
      let size := t.size + estimateSize d.opts.threshold e + 10
      if count ≥ d.opts.maxBatchCount || size ≥ d.opts.maxBatchSize then (d, some .txntoobig)
      else
        let old := t.pending.find? (·.key == e.key)
        let dups := match old with
          | some o => if o.ver != e.ver then t.dups ++ [o] else t.dups
          | none => t.dups
        let pending := (t.pending.filter (·.key != e.key)) ++ [e]
        let t' := { t with count, size, dups, pending,
                           writes := if d.opts.detectConflicts then e.key :: t.writes else t.writes }
        (d.setTxn t', none)

inductive GetRes
  | found (e : Ent) (ver : Nat)
  | notfound
  | err (s : String)

/-- `Txn.Get`: pending write first (its version reads as `readTs`), else the snapshot. -/
def Db.txnGet (d : Db) (id : Nat) (k : Bytes) : Db × GetRes :=
  match d.findTxn id with
  | none => (d, .err "err:discarded")
  | some t =>
    if k.isEmpty then (d, .err "err:emptykey")
    else if t.discarded then (d, .err "err:discarded")
    else
      match (if t.update then t.pending.find? (·.key == k) else none) with
      | some e =>
        if deletedOrExpired e.emeta e.exp d.now then (d, .notfound) else (d, .found e t.readTs)
      | none =>
        let d := if t.update then d.setTxn { t with reads := k :: t.reads } else d
        match d.lsm.get k t.readTs with
        | none => (d, .notfound)
        | some e =>
          if deletedOrExpired e.emeta e.exp d.now then (d, .notfound) else (d, .found e e.ver)

/-- `cleanupCommittedTransactions` -/
def Db.cleanup (d : Db) : Db :=
  if !d.opts.detectConflicts then d else
  let maxReadTs := d.discardAtOrBelow
  if maxReadTs == d.lastCleanupTs then d else
  { d with lastCleanupTs := maxReadTs, committed := d.committed.filter (fun (ts, _) => ts > maxReadTs) }

/-- `hasConflict`: a key read by `t` was written by a commit with `ts > t.readTs`. -/
def Db.hasConflict (d : Db) (t : TxnM) : Bool :=
  if t.reads.isEmpty then false else
  d.committed.any (fun (ts, keys) => ts > t.readTs && t.reads.any (fun r => keys.contains r))

/-- the LSM form of a committed entry: `writeToLSM` (value-pointer bit by the threshold). -/
def Db.lsmForm (d : Db) (e : Ent) : Ent :=
  if e.val.length < d.opts.threshold || d.opts.inMemory then { e with emeta := clearBit e.emeta bitValuePointer }
  else { e with emeta := setBit e.emeta bitValuePointer }

inductive CommitRes
  | ok (ts : Nat)
  | noop
  | conflict
  | err (s : String)

/-- `Txn.Commit` → `commitAndSend` → write path (applied synchronously). Entries are applied
    `duplicateWrites` first, then `pendingWrites` (the order of `commitAndSend`). -/
def Db.commit (d : Db) (id : Nat) (managedTs : Nat) : Db × CommitRes :=
  match d.findTxn id with
  | none => (d, .err "err:discarded")
  | some t =>
    if t.pending.isEmpty then (d.discardTxn id, .noop)
    else if t.discarded then (d, .err "err:discarded")
    else
      -- `commitPrecheck` looks at `pendingWrites` only; `commitAndSend` at both lists
      let keepTogetherPre := t.pending.all (·.ver == 0)
      let keepTogether := (t.pending ++ t.dups).all (·.ver == 0)
      if keepTogetherPre && d.opts.managed && managedTs == 0 then (d, .err "err:zerocommitts")
      else if d.opts.detectConflicts && d.hasConflict t then (d.discardTxn id, .conflict)
      else
        let (d, t) := d.doneRead t
        let d := if d.opts.managed then d else d.cleanup
        let cts := if d.opts.managed then managedTs else d.nextTs
        let d := if d.opts.managed then d else { d with nextTs := d.nextTs + 1 }
        let d := if d.opts.detectConflicts then { d with committed := (cts, t.writes) :: d.committed } else d
        let fin (e : Ent) : Ent :=
          let e := if e.ver == 0 then { e with ver := cts } else e
          let e := if keepTogether then { e with emeta := setBit e.emeta bitTxn } else e
          d.lsmForm e
        -- `duplicateWrites` (overwritten earlier writes) first, then `pendingWrites` (the latest
        -- write per key): the order of `commitAndSend` since the fix of finding F8
        let entries := (t.dups ++ t.pending).map fin
        let lsm := { d.lsm with mem := entries.foldl (fun m e => memPut e m) d.lsm.mem }
        let d := { d with lsm := lsm }
        ((d.setTxn t).discardTxn id, .ok cts)

/-! ## User-level iteration (`Iterator.Seek/Next/parseItem/Valid`) -/

structure IterOpts where
  reverse : Bool := false
  allVersions : Bool := false
  internalAccess : Bool := false
  prefix_ : Bytes := []
  sinceTs : Nat := 0
  prefixIsKey : Bool := false
  deriving Repr, Inhabited

/-- the merged internal iterator positioned after `Seek`/`Rewind`: the remaining entries in
    iteration order. Forward: first entry `≥ (key, readTs)`; reverse: last entry `≤ (key, 0)`. -/
def seekList (merged : List Ent) (o : IterOpts) (readTs : Nat) (seek : Option Bytes) : List Ent :=
  let key := match seek with
    | some k => if k.isEmpty then o.prefix_ else k
    | none => o.prefix_
  if key.isEmpty then (if o.reverse then merged.reverse else merged)
  else if !o.reverse then merged.dropWhile (fun e => kvCmp e.key e.ver key readTs == .lt)
  else merged.reverse.dropWhile (fun e => kvCmp e.key e.ver key 0 == .gt)

/-- `parseItem` over the remaining list; `lastKey` as in the code (forward only). Fuel = list
    length (every call consumes at least one entry). Returns the items pushed. -/
def parseItems (o : IterOpts) (readTs now : Nat) : Nat → Option Bytes → List Ent → List Ent
  | 0, _, _ => []
  | _, _, [] => []
  | fuel + 1, lastKey, e :: rest =>
    -- `hasPrefix(it)`: forward iteration stops at the first key without the prefix
    if !o.reverse && !o.prefix_.isEmpty && !o.prefix_.isPrefixOf e.key then [] else
    let isInternal := badgerPrefix.isPrefixOf e.ikey
    if !o.internalAccess && isInternal then parseItems o readTs now fuel lastKey rest
    else if e.ver > readTs || (o.sinceTs > 0 && e.ver ≤ o.sinceTs) then parseItems o readTs now fuel lastKey rest
    else if o.allVersions then e :: parseItems o readTs now fuel lastKey rest
    else if !o.reverse then
      if lastKey == some e.key then parseItems o readTs now fuel lastKey rest
      else if deletedOrExpired e.emeta e.exp now then parseItems o readTs now fuel (some e.key) rest
      else e :: parseItems o readTs now fuel (some e.key) rest
    else
      -- reverse: FILL loop — keep replacing the candidate while the next entry is a newer
      -- visible version of the same key
      revFill o readTs now fuel e rest
where
  revFill (o : IterOpts) (readTs now : Nat) : Nat → Ent → List Ent → List Ent
  | 0, _, _ => []
  | fuel + 1, e, rest =>
    if deletedOrExpired e.emeta e.exp now then parseItems o readTs now fuel none rest
    else
      match rest with
      | [] => [e]
      | n :: rest' =>
        if n.ver ≤ readTs && n.key == e.key then revFill o readTs now fuel n rest'
        else e :: parseItems o readTs now fuel none (n :: rest')

/-- `Valid()`: the user stops at the first item whose key lacks the prefix. -/
def validPrefix (o : IterOpts) (items : List Ent) : List Ent :=
  items.takeWhile (fun e => if o.prefixIsKey then e.key == o.prefix_ else o.prefix_.isPrefixOf e.key)

/-- pending writes as the first source: sorted by key, versions read as `readTs`. -/
def pendingSource (t : TxnM) : List Ent :=
  if !t.update then [] else
  (t.pending.map (fun e => { e with ver := t.readTs })).foldl (fun m e => memPut e m) []

def Db.iterate (d : Db) (id : Nat) (o : IterOpts) (seek : Option Bytes) : Option (List Ent) :=
  match d.findTxn id with
  | none => none
  | some t =>
    let srcs := pendingSource t :: d.lsm.sources
    let merged := mergeAll srcs
    let rem := seekList merged o t.readTs seek
    some (validPrefix o (parseItems o t.readTs d.now (2 * rem.length + 2) none rem))

end Badger
