import BadgerModel.IterPick
import BadgerModel.Spec.Mvcc
/-!
# Banned namespaces (`DB.BanNamespace`, `DB.isBanned`, db.go; the checks in `Txn.modify`, `Txn.Get`
and `Iterator.parseItem`)

With `Options.NamespaceOffset = off ≥ 0` a key longer than `off + 8` bytes carries a namespace: the
big-endian `uint64` at `key[off : off+8]`.  `BanNamespace(ns)` records the namespace in the in-memory
set and stores the internal key `!badger!banned<ns>` at version 1.  From then on

* `Txn.modify` answers `ErrBannedKey` — after the validation `switch` and before `checkSize`;
* `Txn.Get` answers `ErrBannedKey` — after the empty-key / discarded checks;
* `Iterator.parseItem` skips the entry — right after the version window check (since the repair of
  finding F30 the check is made on the USER key, as in the other two places).

The three layers are wrappers around `Db.modify`, `Db.txnGet` and `Db.iteratePicked`; with no banned
namespace they are those functions (`Props/C28Ns.lean`).
-/
namespace Badger

/-- `y.BytesToU64(key[off:])`: the first 8 bytes, big endian. -/
def nsOf (off : Nat) (key : Bytes) : Nat := beNat ((key.drop off).take 8)

/-- `DB.isBanned(key)` -/
def isBannedKey (off : Option Nat) (banned : List Nat) (key : Bytes) : Bool :=
  match off with
  | none => false
  | some off => if key.length ≤ off + 8 then false else banned.contains (nsOf off key)

def Db.isBanned (d : Db) (key : Bytes) : Bool := isBannedKey d.opts.nsOffset d.banned key

def bannedNsKey : Bytes := badgerPrefix ++ [0x62, 0x61, 0x6e, 0x6e, 0x65, 0x64]  -- "!badger!banned"

/-- `DB.BanNamespace(ns)`: `none` = `ErrNamespaceMode`. The marker entry goes through the write
    channel like any other entry (version 1, empty value, no transaction bits). -/
def Db.banNamespace (d : Db) (ns : Nat) : Option Db :=
  match d.opts.nsOffset with
  | none => none
  | some _ =>
    let e : Ent := { key := bannedNsKey ++ beBytes ns 8, ver := 1, emeta := 0, umeta := 0, exp := 0, val := [] }
    some { d with lsm := { d.lsm with mem := memPut e d.lsm.mem },
                  banned := if d.banned.contains ns then d.banned else ns :: d.banned }

/-- `Txn.modify` with the `isBanned` check in its place: the validation errors of the `switch`
    win over `ErrBannedKey`, which wins over `ErrTxnTooBig`; nothing changes on an error. -/
def Db.modifyNs (d : Db) (id : Nat) (e : Ent) : Db × Option ModErr :=
  match d.modify id e with
  | (d', none) => if d.isBanned e.key then (d, some .banned) else (d', none)
  | (d', some .txntoobig) => if d.isBanned e.key then (d, some .banned) else (d', some .txntoobig)
  | r => r

/-- `Txn.Get` with the `isBanned` check in its place. -/
def Db.txnGetNs (d : Db) (id : Nat) (k : Bytes) : Db × GetRes :=
  match d.findTxn id with
  | none => d.txnGet id k
  | some t =>
    if k.isEmpty || t.discarded then d.txnGet id k
    else if d.isBanned k then (d, .err "err:banned")
    else d.txnGet id k

/-- what `parseItem` does with a banned entry is what it does with an entry above the read
    timestamp (the two checks are adjacent and both just step the iterator): the entry is moved out
    of the version window -/
def hideBanned (d : Db) (readTs : Nat) (e : Ent) : Ent :=
  if d.isBanned e.key then { e with ver := readTs + 1 + e.ver } else e

/-- `Db.iteratePicked` with the `isBanned` check of `parseItem`. -/
def Db.iteratePickedNs (d : Db) (id : Nat) (o : IterOpts) (seek : Option Bytes) (dnh : Tbl → Bool) :
    Option (List Ent) :=
  match d.findTxn id with
  | none => none
  | some t =>
    let srcs := pendingSource t :: d.lsm.pickedSources o dnh
    let merged := mergeAll srcs
    let rem := (seekList merged o t.readTs seek).map (hideBanned d t.readTs)
    some (validPrefix o (parseItems o t.readTs d.now (2 * rem.length + 2) none rem))

/-- `Open`: the in-memory set is rebuilt from the stored markers (db.go, `Open`: a key-only
    iterator with `Prefix = bannedNsKey` and `InternalAccess`, at the newest timestamp). -/
def Db.reloadBanned (d : Db) : Db :=
  let stored := d.lsm.allEntries.filter (fun e => bannedNsKey.isPrefixOf e.key && !deletedOrExpired e.emeta e.exp d.now)
  { d with banned := (stored.map (fun e => beNat ((e.key.drop bannedNsKey.length).take 8))).eraseDups }

end Badger
