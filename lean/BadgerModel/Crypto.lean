import BadgerModel.Log
/-!
# Encryption at rest (`y/encrypt.go`, `key_registry.go`, `memtable.go` encodeEntry/decodeEntry,
# `table/builder.go` encrypt, `table/table.go` decrypt, `badger/cmd/rotate.go`)

* The block cipher is a parameter: `E key ctr j` = byte `j` (0..15) of AES_key applied to the
  128-bit counter block `ctr`. `cipher.NewCTR(block, iv)` XORs byte `i` of the data with
  `E key ((iv + i/16) mod 2^128) (i mod 16)` (the whole 16-byte counter is incremented, with
  carry). Nothing else is assumed about `E`; secrecy is not claimed anywhere, only "went through
  the cipher with this (key, IV)".
* Log records (`.mem` WAL and `.vlog`): IV = 12-byte base IV of the file ‖ 4-byte big-endian
  record offset; only `key ‖ value` is encrypted, the header (meta, user meta, lengths, expiry)
  and the CRC are plaintext by design.
* Table blocks and the table index (block base keys = user keys, bloom filter): encrypted as a
  whole with a fresh random 16-byte IV appended in the clear.
* Key registry: `IV ‖ E_master(sanity text) ‖ records(data key encrypted with the master key
  under the data key's own IV)`; `LatestDataKey` mirrored branch by branch (the rule before fix
  497bf84, which returned the nil entry `kr.dataKeys[0]` on a fresh registry when the rotation
  interval exceeds the age of the Unix epoch, is kept as `latestDataKeyOld`).
* Everything written to a file is classified symbolically (`Payload`) and the classification
  is tied to the byte-level record model of `BadgerModel/Log.lean` (`realize`).
-/
namespace Badger.Crypto

open Badger

/-- AES with a key, as a function from the 128-bit counter block to 16 bytes. -/
abbrev BlockFn := Bytes → Nat → Nat → UInt8

def ctrMod : Nat := 2 ^ 128

/-- Key-stream byte `i` of `cipher.NewCTR(aes(key), iv)`. -/
def ks (E : BlockFn) (key : Bytes) (iv : Nat) (i : Nat) : UInt8 :=
  E key ((iv + i / 16) % ctrMod) (i % 16)

/-- `y.XORBlock` / `y.XORBlockAllocate` / `y.XORBlockStream` (encryption = decryption). -/
def xorStream (E : BlockFn) (key : Bytes) (iv : Nat) (b : Bytes) : Bytes :=
  xorFrom (ks E key iv) 0 b

/-- Number of 16-byte counter blocks consumed by `len` bytes. -/
def blocks (len : Nat) : Nat := (len + 15) / 16

/-- The counter blocks AES is applied to when `len` bytes are encrypted under `iv`. -/
def ctrOf (iv j : Nat) : Nat := (iv + j) % ctrMod

/-! ## IVs of log records -/

/-- `logFile.generateIV(offset)`: 12 bytes of base IV followed by the big-endian offset. -/
def generateIV (baseIV : Bytes) (offset : Nat) : Bytes := baseIV.take 12 ++ beBytes (offset % 2 ^ 32) 4

/-- The same IV as a 128-bit big-endian number (what CTR mode increments). -/
def logIV (base : Nat) (offset : Nat) : Nat := base * 2 ^ 32 + offset

/-! ## Data keys and the key registry -/

structure DataKey where
  id : Nat
  data : Bytes
  createdAt : Nat       -- seconds since the epoch
  iv : Nat
  deriving DecidableEq, Repr

def sanityText : Bytes := [72, 101, 108, 108, 111, 32, 66, 97, 100, 103, 101, 114]   -- "Hello Badger"

structure Registry where
  master : Bytes                  -- opt.EncryptionKey ([] = no encryption)
  rotationNs : Int                -- opt.EncryptionKeyRotationDuration (time.Duration, ns)
  dataKeys : List DataKey         -- kr.dataKeys (map id ↦ key; ids are unique)
  lastCreated : Nat               -- kr.lastCreated (seconds)
  nextKeyID : Nat
  deriving Repr

def Registry.empty (master : Bytes) (rot : Int) : Registry :=
  { master := master, rotationNs := rot, dataKeys := [], lastCreated := 0, nextKeyID := 0 }

def Registry.lookup (r : Registry) (id : Nat) : Option DataKey := r.dataKeys.find? (fun k => k.id == id)

inductive Err where
  | keyMismatch          -- ErrEncryptionKeyMismatch
  | invalidKey           -- ErrInvalidEncryptionKey (length not 16/24/32)
  | invalidDataKeyID     -- ErrInvalidDataKeyID
  deriving DecidableEq, Repr

/-- `kr.DataKey(id)`: id 0 is "plain text". -/
def Registry.dataKey (r : Registry) (id : Nat) : Except Err (Option DataKey) :=
  if id = 0 then .ok none
  else match r.lookup id with
    | some k => .ok (some k)
    | none => .error .invalidDataKeyID

def maxDuration : Int := 2 ^ 63 - 1
def minDuration : Int := -(2 ^ 63)

/-- `time.Since(time.Unix(lastCreated, 0))` in nanoseconds (`time.Duration` saturates). -/
def sinceNs (nowNs : Nat) (lastCreated : Nat) : Int :=
  let d : Int := (nowNs : Int) - (lastCreated : Int) * 1000000000
  if d > maxDuration then maxDuration else if d < minDuration then minDuration else d

/-- A fresh data key with the next id, appended to the registry. -/
def Registry.newDataKey (r : Registry) (nowNs : Nat) (freshKey : Bytes) (freshIv : Nat) :
    Registry × Option DataKey :=
  let dk : DataKey := { id := r.nextKeyID + 1, data := freshKey, createdAt := nowNs / 1000000000, iv := freshIv }
  ({ r with nextKeyID := r.nextKeyID + 1, lastCreated := dk.createdAt,
            dataKeys := r.dataKeys.filter (fun k => k.id != dk.id) ++ [dk] }, some dk)

/-- `kr.LatestDataKey()` at wall-clock time `nowNs`, with the random key material and IV the
    call would draw. Mirrors the code (since fix 497bf84): no master key → nil; the key with id
    `nextKeyID` *exists* and is younger than the rotation interval → that key; otherwise (no key
    yet, or too old) a new key with the next id. -/
def Registry.latestDataKey (r : Registry) (nowNs : Nat) (freshKey : Bytes) (freshIv : Nat) :
    Registry × Option DataKey :=
  if r.master = [] then (r, none)
  else match r.lookup r.nextKeyID with
    | some k =>
      if sinceNs nowNs r.lastCreated < r.rotationNs then (r, some k)
      else r.newDataKey nowNs freshKey freshIv
    | none => r.newDataKey nowNs freshKey freshIv

/-- The rule before fix 497bf84 (finding F23a), kept for the regression witness: the age test
    came first and returned `kr.dataKeys[kr.nextKeyID]` whatever it was — nil on a fresh
    registry (`lastCreated = 0`) when the rotation interval exceeds the age of the Unix epoch. -/
def Registry.latestDataKeyOld (r : Registry) (nowNs : Nat) (freshKey : Bytes) (freshIv : Nat) :
    Registry × Option DataKey :=
  if r.master = [] then (r, none)
  else if sinceNs nowNs r.lastCreated < r.rotationNs then (r, r.lookup r.nextKeyID)
  else r.newDataKey nowNs freshKey freshIv

/-! ### registry file -/

/-- One stored data key: the key material is XORed with the master key stream under the data
    key's own IV (`storeDataKey`); nothing when there is no master key. -/
structure KeyRec where
  id : Nat
  encData : Bytes
  createdAt : Nat
  iv : Nat
  deriving DecidableEq, Repr

/-- KEYREGISTRY: `IV ‖ sanity ‖ records` (length/CRC/protobuf framing abstracted). -/
structure RegFile where
  iv : Nat
  eSanity : Bytes
  recs : List KeyRec
  deriving DecidableEq, Repr

def maybeXor (E : BlockFn) (master : Bytes) (iv : Nat) (b : Bytes) : Bytes :=
  if master = [] then b else xorStream E master iv b

def storeDataKey (E : BlockFn) (master : Bytes) (k : DataKey) : KeyRec :=
  { id := k.id, encData := maybeXor E master k.iv k.data, createdAt := k.createdAt, iv := k.iv }

def loadDataKey (E : BlockFn) (master : Bytes) (r : KeyRec) : DataKey :=
  { id := r.id, data := maybeXor E master r.iv r.encData, createdAt := r.createdAt, iv := r.iv }

/-- `WriteKeyRegistry(reg, opt)` with the master key of `opt` and a fresh IV. -/
def writeKeyRegistry (E : BlockFn) (master : Bytes) (iv : Nat) (keys : List DataKey) : RegFile :=
  { iv := iv, eSanity := maybeXor E master iv sanityText, recs := keys.map (storeDataKey E master) }

def validKeyLen (master : Bytes) : Bool :=
  master.length == 0 || master.length == 16 || master.length == 24 || master.length == 32

/-- `validRegistry`: decrypt the sanity text with the given key and compare. -/
def validRegistry (E : BlockFn) (master : Bytes) (f : RegFile) : Bool :=
  maybeXor E master f.iv f.eSanity == sanityText

def maxNat : List Nat → Nat
  | [] => 0
  | x :: xs => max x (maxNat xs)

/-- `readKeyRegistry`: all data keys decrypted with the master key; `nextKeyID` = largest id,
    `lastCreated` = largest creation time. -/
def readKeyRegistry (E : BlockFn) (master : Bytes) (rot : Int) (f : RegFile) : Except Err Registry :=
  if !validRegistry E master f then .error .keyMismatch
  else
    let keys := f.recs.map (loadDataKey E master)
    .ok { master := master, rotationNs := rot, dataKeys := keys,
          lastCreated := maxNat (keys.map (·.createdAt)), nextKeyID := maxNat (keys.map (·.id)) }

/-! ## What reaches the files -/

inductive FileKind where
  | lock | manifest | registry | wal | vlog | sst | discard
  deriving DecidableEq, Repr

/-- Symbolic classification of a run of bytes written to a file. -/
inductive Payload where
  | plain (b : Bytes)                              -- written as is
  | enc (keyId : Nat) (iv : Nat) (b : Bytes)       -- `b` XORed with the stream of data key `keyId` under `iv`
  | encMaster (iv : Nat) (b : Bytes)               -- `b` XORed with the master-key stream under `iv`
  deriving DecidableEq, Repr

def Payload.isEnc : Payload → Bool
  | .plain _ => false
  | _ => true

structure Write where
  kind : FileKind
  payload : Payload
  /-- the bytes contain user key or user value bytes -/
  user : Bool
  deriving DecidableEq, Repr

/-- The bytes a payload stands for, given the cipher and the key material. -/
def realize (E : BlockFn) (master : Bytes) (keyOf : Nat → Bytes) : Payload → Bytes
  | .plain b => b
  | .enc id iv b => xorStream E (keyOf id) iv b
  | .encMaster iv b => xorStream E master iv b

/-- `logFile.encodeEntry` at file offset `off` of a log file with data key `dk` (nil = plain)
    and base IV `base`: header in the clear, `key ‖ value` through the cipher, CRC in the clear. -/
def logRecordWrites (kind : FileKind) (dk : Option DataKey) (base off : Nat) (e : Entry)
    (crc : Bytes) : List Write :=
  [ ⟨kind, .plain (headerEncode (entryHeader e)), false⟩,
    (match dk with
     | some k => ⟨kind, .enc k.id (logIV base off) (e.key ++ e.value), true⟩
     | none => ⟨kind, .plain (e.key ++ e.value), true⟩),
    ⟨kind, .plain crc, false⟩ ]

/-- `logFile.bootstrap`: key id and base IV, in the clear. -/
def logHeaderWrites (kind : FileKind) (dk : Option DataKey) (base : Nat) : List Write :=
  [ ⟨kind, .plain (beBytes (match dk with | some k => k.id | none => 0) 8 ++ beBytes base 12), false⟩ ]

/-- `Builder.encrypt(data)`: ciphertext followed by the IV in the clear. -/
def blobWrites (dk : Option DataKey) (iv : Nat) (data : Bytes) : List Write :=
  match dk with
  | some k => [ ⟨.sst, .enc k.id iv data, true⟩, ⟨.sst, .plain (beBytes iv 16), false⟩ ]
  | none => [ ⟨.sst, .plain data, true⟩ ]

/-- A table file: every block (entries, i.e. user keys and values, entry offsets, checksum),
    then the index (block base keys, bloom filter, offsets) — all through `Builder.encrypt` when
    a data key is set — then index length, checksum and checksum length in the clear. -/
def tableWrites (dk : Option DataKey) (blocksData : List (Nat × Bytes)) (indexIv : Nat)
    (index : Bytes) (footer : Bytes) : List Write :=
  (blocksData.map (fun (iv, d) => blobWrites dk iv d)).flatten ++ blobWrites dk indexIv index ++
    [ ⟨.sst, .plain footer, false⟩ ]

/-- Encrypted block / index as bytes, and `Table.decrypt`. -/
def encryptBlob (E : BlockFn) (key : Bytes) (iv : Nat) (data : Bytes) : Bytes :=
  xorStream E key iv data ++ beBytes iv 16

def decryptBlob (E : BlockFn) (key : Bytes) (blob : Bytes) : Bytes :=
  xorStream E key (beNat (blob.drop (blob.length - 16))) (blob.take (blob.length - 16))

/-! ## A database as a source of file writes -/

structure LogFile where
  kind : FileKind
  dk : Option DataKey
  base : Nat
  writeAt : Nat
  deriving Repr

structure Db where
  reg : Registry
  logs : List LogFile
  deriving Repr

/-- Events that write user data. `now` is the wall clock of the event; `fk`/`fiv` the random
    key material / IV a key rotation at that moment would draw. -/
inductive Ev where
  /-- a new `.mem` or `.vlog` file: `bootstrap` asks for the latest data key, draws a base IV -/
  | newLog (kind : FileKind) (now : Nat) (fk : Bytes) (fiv : Nat) (base : Nat)
  /-- `writeEntry` / `vlog.write` of one entry into log file number `i` -/
  | append (i : Nat) (e : Entry) (crc : Bytes)
  /-- memtable flush or compaction output: `buildTableOptions` asks for the latest data key -/
  | table (now : Nat) (fk : Bytes) (fiv : Nat) (blocksData : List (Nat × Bytes)) (indexIv : Nat)
      (index : Bytes) (footer : Bytes)
  /-- MANIFEST change set: table ids, levels, key ids, compression — no user bytes -/
  | manifest (b : Bytes)

def recLen (e : Entry) : Nat := (headerEncode (entryHeader e)).length + e.key.length + e.value.length + 4

/-- The registry record appended to KEYREGISTRY when a data key is created. -/
def newKeyWrites (E : BlockFn) (r r' : Registry) (dk : Option DataKey) : List Write :=
  if r'.nextKeyID = r.nextKeyID then []
  else match dk with
    | some k => [ ⟨.registry, .encMaster k.iv k.data, false⟩ ]
    | none => []

def step (E : BlockFn) (d : Db) : Ev → Db × List Write
  | .newLog kind now fk fiv base =>
    let (r', dk) := d.reg.latestDataKey now fk fiv
    ({ reg := r', logs := d.logs ++ [⟨kind, dk, base, 20⟩] },
      newKeyWrites E d.reg r' dk ++ logHeaderWrites kind dk base)
  | .append i e crc =>
    match d.logs[i]? with
    | none => (d, [])
    | some lf =>
      ({ d with logs := d.logs.set i { lf with writeAt := lf.writeAt + recLen e } },
        logRecordWrites lf.kind lf.dk lf.base lf.writeAt e crc)
  | .table now fk fiv bs iiv idx footer =>
    let (r', dk) := d.reg.latestDataKey now fk fiv
    ({ d with reg := r' }, newKeyWrites E d.reg r' dk ++ tableWrites dk bs iiv idx footer)
  | .manifest b => (d, [ ⟨.manifest, .plain b, false⟩ ])

def runWrites (E : BlockFn) : Db → List Ev → List Write
  | _, [] => []
  | d, ev :: evs => (step E d ev).2 ++ runWrites E (step E d ev).1 evs

def Ev.time : Ev → Option Nat
  | .newLog _ now _ _ _ => some now
  | .table now _ _ _ _ _ _ => some now
  | _ => none

/-! ## Open with a key -/

structure DirState where
  reg : Option RegFile        -- KEYREGISTRY, if present

/-- `Open` up to and including `OpenKeyRegistry`: the LOCK pid file is written (and removed
    again on failure); an existing MANIFEST is only read; a missing registry is created; an
    existing one is validated against the given key *before* any memtable, value-log or table
    file is touched. Returns the registry or the error, and the writes performed. -/
def openRegistry (E : BlockFn) (master : Bytes) (rot : Int) (freshIv : Nat) (dir : DirState) :
    Except Err Registry × List Write :=
  let lockW : Write := ⟨.lock, .plain [], false⟩
  if !validKeyLen master then (.error .invalidKey, [lockW, lockW])
  else match dir.reg with
    | none =>
      (.ok (Registry.empty master rot),
        [lockW, ⟨.registry, .plain (beBytes freshIv 16), false⟩,
                ⟨.registry, (if master = [] then .plain sanityText else .encMaster freshIv sanityText), false⟩])
    | some f =>
      match readKeyRegistry E master rot f with
      | .error e => (.error e, [lockW, lockW])
      | .ok r => (.ok r, [lockW])

/-- `badger rotate`: read the registry with the old key, rewrite it with the new one. Only the
    registry file is written. -/
def rotateMaster (E : BlockFn) (oldKey newKey : Bytes) (freshIv : Nat) (f : RegFile) :
    Except Err RegFile :=
  match readKeyRegistry E oldKey 0 f with
  | .error e => .error e
  | .ok r => .ok (writeKeyRegistry E newKey freshIv r.dataKeys)

end Badger.Crypto
