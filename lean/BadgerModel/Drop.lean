import BadgerModel.Mvcc
/-!
# DropPrefix / DropAll (db.go `DropPrefix`, `DropAll`; levels.go `dropPrefixes`, `containsPrefix`,
`containsAnyPrefixes`, `dropTree`)

`DB.DropPrefix(ps)`: block writes, flush every non-empty memtable **unfiltered**
(`handleMemTableFlush` passes `nil` to `buildL0Table`), then `levelsController.dropPrefixes`:
for the levels from the last one down to 1, group the consecutive tables that
`containsAnyPrefixes` and rewrite each group in place (`thisLevel = nextLevel`, `top = nil`,
`bot = group`, `dropPrefixes = ps`); finally, if L0 is non-empty, compact **all** L0 tables into
the base level with `dropPrefixes = ps`. The filtering itself is done by the compaction
(`keepTable` in `compactOutput`, the prefix test of `filtStep`).

Tables are identified by *value* when a group computed up front is looked up again after
earlier groups of the same level have been rewritten (Go: by pointer); `dropPlan` reports
the groups by file id for the comparison with the implementation.
-/
namespace Badger

/-! ## `containsPrefix` -/

/-- `y.ParseKey(table.Smallest())` (`nil`, here `[]`, for a table without entries) -/
def Tbl.smallKey (t : Tbl) : Bytes := match t.smallest with | some e => e.key | none => []
def Tbl.bigKey (t : Tbl) : Bytes := match t.biggest with | some e => e.key | none => []

/-- `isPresent`: `ti.Seek(KeyWithTs(prefix, MaxUint64))` and then
    `HasPrefix(ParseKey(ti.Key()), prefix)`. The code does not check `ti.Valid()`; when the
    seek runs off the end the model answers `false`. This case cannot arise where `isPresent`
    is called (`prefix < biggest user key`, so the biggest entry is a seek result candidate):
    theorem `C29_containsPrefix_seek_valid`. -/
def Tbl.seekHasPrefix (t : Tbl) (p : Bytes) : Bool :=
  match seekGE p maxU64 t.ents with
  | some e => p.isPrefixOf e.key
  | none => false

/-- `containsPrefix(table, prefix)`, branch by branch -/
def Tbl.containsPrefix (t : Tbl) (p : Bytes) : Bool :=
  if p.isPrefixOf t.smallKey then true
  else if p.isPrefixOf t.bigKey then true
  else if cmpBytes p t.smallKey == .gt && cmpBytes p t.bigKey == .lt then t.seekHasPrefix p
  else false

def Tbl.containsAnyPrefixes (t : Tbl) (ps : List Bytes) : Bool := ps.any (fun p => t.containsPrefix p)

/-! ## the `tableGroups` loop -/

/-- `finishGroup` -/
def finishGroup (cur : List Nat) : List (List Nat) := if cur.isEmpty then [] else [cur]

/-- the loop over `l.tables` with the running index `i` and the open group `cur` -/
def dropGroupsAux (ps : List Bytes) : Nat → List Tbl → List Nat → List (List Nat)
  | _, [], cur => finishGroup cur
  | i, t :: ts, cur =>
    if t.containsAnyPrefixes ps then dropGroupsAux ps (i + 1) ts (cur ++ [i])
    else finishGroup cur ++ dropGroupsAux ps (i + 1) ts []

/-- maximal runs of consecutive table indices whose tables `containsAnyPrefixes` -/
def dropGroups (tbls : List Tbl) (ps : List Bytes) : List (List Nat) := dropGroupsAux ps 0 tbls []

/-- the levels `dropPrefixes` visits before L0: the last one first, down to level 1 -/
def dropLevels (s : Lsm) : List Nat := ((List.range s.levels.length).filter (fun i => 1 ≤ i)).reverse

/-- what `dropPrefixes` is going to rewrite: for the levels from the last down to 1 that have
    at least one group, the groups as lists of table file ids. (A same-level rewrite touches no
    other level, so the plan computed on the state after the flush is the plan the run follows.) -/
def Lsm.dropPlan (s : Lsm) (ps : List Bytes) : List (Nat × List (List Nat)) :=
  (dropLevels s).filterMap (fun i =>
    let tbls := s.levels.getD i []
    let gs := dropGroups tbls ps
    if gs.isEmpty then none
    else some (i, gs.map (fun g => g.filterMap (fun j => tbls[j]?.map (·.id)))))

/-! ## the run -/

/-- `db.imm = append(db.imm, db.mt)`; every non-empty memtable becomes an L0 table, oldest
    first, **unfiltered**; fresh empty memtable. `ids` are the file ids the implementation
    assigned (identification only). -/
def Lsm.flushAll (s : Lsm) (ids : List Nat) : Lsm :=
  match s.levels with
  | [] => s
  | l0 :: rest =>
    let mts := (s.imm ++ [s.mem]).filter (fun m => !m.isEmpty)
    let tbls := (zipIdx mts).map (fun (j, m) => ({ ents := m, id := ids.getD j 0 } : Tbl))
    { mem := [], imm := [], levels := (l0 ++ tbls) :: rest }

/-- what the implementation reports for one compaction of the run: the sizes (and ids) of the
    tables it wrote, and the discard watermark and clock it used -/
structure DropStep where
  outSizes : List Nat
  outIds : List Nat := []
  discardTs : Nat
  now : Nat
  deriving DecidableEq, Repr, Inhabited

/-- rewrite one group (given as tables) of level `lvl` in place: `bot` = the positions of the
    group's tables in the level as it is now (by value; Go: the same pointers) -/
def Lsm.dropGroupStep (s : Lsm) (lvl : Nat) (ps : List Bytes) (numKeep : Nat) (grp : List Tbl)
    (st : DropStep) : Option Lsm :=
  let cur := s.levels.getD lvl []
  let bot := (zipIdx cur).filterMap (fun (j, t) => if t ∈ grp then some j else none)
  if bot.length != grp.length then none else
  s.compact { thisLevel := lvl, nextLevel := lvl, top := [], bot := bot, outSizes := st.outSizes,
              outIds := st.outIds, dropPrefixes := ps } st.discardTs numKeep st.now

/-- all groups of one level, first to last; returns the unused steps -/
def Lsm.dropGroupsRun (lvl : Nat) (ps : List Bytes) (numKeep : Nat) :
    List (List Tbl) → Lsm → List DropStep → Option (Lsm × List DropStep)
  | [], s, steps => some (s, steps)
  | _ :: _, _, [] => none
  | g :: gs, s, st :: steps =>
    match s.dropGroupStep lvl ps numKeep g st with
    | some s' => Lsm.dropGroupsRun lvl ps numKeep gs s' steps
    | none => none

/-- one level `≥ 1`: the groups are computed up front from the level as it is now -/
def Lsm.dropLevelRun (s : Lsm) (lvl : Nat) (ps : List Bytes) (numKeep : Nat) (steps : List DropStep) :
    Option (Lsm × List DropStep) :=
  let tbls := s.levels.getD lvl []
  let groups := (dropGroups tbls ps).map (fun g => pickIdx tbls g)
  Lsm.dropGroupsRun lvl ps numKeep groups s steps

def Lsm.dropLevelsRun (ps : List Bytes) (numKeep : Nat) :
    List Nat → Lsm → List DropStep → Option (Lsm × List DropStep)
  | [], s, steps => some (s, steps)
  | lvl :: lvls, s, steps =>
    match s.dropLevelRun lvl ps numKeep steps with
    | some (s', steps') => Lsm.dropLevelsRun ps numKeep lvls s' steps'
    | none => none

/-- `overlappingTables(kr)`: `sort.Search` for the first table whose biggest key is `≥ kr.left`
    and the first whose smallest key is `> kr.right` (linear here; the same thing on a level whose
    tables are sorted and disjoint) -/
def overlapRange (tbls : List Tbl) (lo hi : Ent) : Nat × Nat :=
  let left := tbls.findIdx (fun t => match t.biggest with
    | some b => entCmp lo b != .gt
    | none => false)
  let right := tbls.findIdx (fun t => match t.smallest with
    | some a => entCmp hi a == .lt
    | none => false)
  (left, right)

/-- the final `doCompact(174, {level 0, dropPrefixes})` = `fillTablesL0ToLbase` with **all** L0
    tables on top and the overlapping run of the base level below. Nothing to do for an empty L0.
    (`baseLevel = 0` panics in the code.) -/
def Lsm.dropL0Run (s : Lsm) (ps : List Bytes) (baseLevel numKeep : Nat) (steps : List DropStep) :
    Option (Lsm × List DropStep) :=
  let l0 := s.levels.getD 0 []
  if l0.isEmpty then some (s, steps) else
  if baseLevel == 0 then none else
  match steps with
  | [] => none
  | st :: steps' =>
    let bot := match keyRangeOf l0 with
      | some (lo, hi) =>
        let (l, r) := overlapRange (s.levels.getD baseLevel []) lo hi
        List.range' l (r - l)
      | none => []
    match s.compact { thisLevel := 0, nextLevel := baseLevel, top := List.range l0.length, bot := bot,
                      outSizes := st.outSizes, outIds := st.outIds, dropPrefixes := ps }
            st.discardTs numKeep st.now with
    | some s' => some (s', steps')
    | none => none

/-- `DB.DropPrefix(ps)` after `filterPrefixesToDrop` (which only removes prefixes without data):
    flush, the levels bottom-up, L0. `none`: the reported steps do not fit (too few / too many /
    sizes that do not add up) or the code would fail. -/
def Lsm.dropPrefixRun (s : Lsm) (ps : List Bytes) (flushIds : List Nat) (baseLevel numKeep : Nat)
    (steps : List DropStep) : Option Lsm :=
  if ps.isEmpty then some s else
  let s1 := s.flushAll flushIds
  match Lsm.dropLevelsRun ps numKeep (dropLevels s1) s1 steps with
  | none => none
  | some (s2, steps2) =>
    match s2.dropL0Run ps baseLevel numKeep steps2 with
    | some (s3, []) => some s3
    | _ => none

/-! ## DropAll -/

/-- `dropAll`: memtables dropped, `dropTree` empties every level (the number of levels stays) -/
def Lsm.dropAll (s : Lsm) : Lsm := { mem := [], imm := [], levels := s.levels.map (fun _ => []) }

/-- `DB.DropAll` on the whole-database model: only the LSM tree is reset (`nextTxnTs`, the
    watermarks and the open transactions are untouched); `db.threshold.Clear(db.opt)` leaves
    `MaxInt32` as value threshold in InMemory mode (finding F18). -/
def Db.dropAll (d : Db) : Db :=
  let o := if d.opts.inMemory then { d.opts with threshold := 2147483647 } else d.opts
  { d with lsm := d.lsm.dropAll, opts := o }

end Badger
