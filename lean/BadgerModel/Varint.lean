import BadgerModel.Bytes
/-!
# Unsigned varints (`encoding/binary`): `PutUvarint`, `Uvarint`, `ReadUvarint`, and
`y.sizeVarint` (y/iterator.go).

Values are `Nat`s standing for Go `uint64`s (`n < 2^64`). The Go decoder accumulates with
`x |= uint64(b&0x7f) << s`; the 7-bit groups are disjoint and for the accepted inputs (at most
nine groups of 7 bits plus a tenth byte ≤ 1) nothing is shifted out of 64 bits, so `|`/`<<`
coincide with `+`/`* 128^i`, which is what the model uses.
-/
namespace Badger

/-- `binary.PutUvarint` with a fuel argument (`k` = number of continuation bytes still
    allowed). A `uint64` needs at most 9 continuation bytes plus a final byte. -/
def putUvarintF : Nat → Nat → Bytes
  | 0, n => [UInt8.ofNat n]
  | k + 1, n =>
    if n < 128 then [UInt8.ofNat n]
    else UInt8.ofNat (n % 128 + 128) :: putUvarintF k (n / 128)

/-- `binary.PutUvarint(buf, n)` (the bytes written; the returned count is their number). -/
def putUvarint (n : Nat) : Bytes := putUvarintF 9 n

/-- `y.sizeVarint`: `for { n++; x >>= 7; if x == 0 { break } }`. -/
def sizeVarintF : Nat → Nat → Nat
  | 0, _ => 1
  | k + 1, n => if n / 128 = 0 then 1 else 1 + sizeVarintF k (n / 128)

def sizeVarint (n : Nat) : Nat := sizeVarintF 9 n

/-- Loop of `binary.Uvarint(buf)`: `i` = index of the current byte, `x` = accumulator.
    Returns `(value, count)`; `count = 0`: buffer too small, `count < 0`: overflow
    (`-(i+1)`), exactly as the Go function. -/
def uvarintAux : Nat → Nat → Bytes → Nat × Int
  | _, _, [] => (0, 0)
  | i, x, b :: bs =>
    if i = 10 then (0, -((i : Int) + 1))
    else if b.toNat < 128 then
      if i = 9 ∧ b.toNat > 1 then (0, -((i : Int) + 1))
      else (x + b.toNat * 128 ^ i, (i : Int) + 1)
    else uvarintAux (i + 1) (x + b.toNat % 128 * 128 ^ i) bs

/-- `binary.Uvarint(buf)`. -/
def uvarint (buf : Bytes) : Nat × Int := uvarintAux 0 0 buf

/-- Errors of the streaming readers (`io.EOF`, `io.ErrUnexpectedEOF`, badger's `errTruncate`,
    `binary: varint overflows a 64-bit integer`, and a Go run-time panic). -/
inductive RErr where
  | eof | unexpectedEof | truncate | overflow | panic
  deriving DecidableEq, Repr

def RErr.str : RErr → String
  | .eof => "eof"
  | .unexpectedEof => "unexpected-eof"
  | .truncate => "truncate"
  | .overflow => "overflow"
  | .panic => "panic"

/-- Loop of `binary.ReadUvarint(r)`: `k` = iterations left (`i + k = 10`), `i` = index,
    `x` = accumulator. Returns the value and the unread rest of the stream. -/
def readUvarintAux : Nat → Nat → Nat → Bytes → Except RErr (Nat × Bytes)
  | 0, _, _, _ => .error .overflow
  | _ + 1, i, _, [] => .error (if i > 0 then .unexpectedEof else .eof)
  | k + 1, i, x, b :: bs =>
    if b.toNat < 128 then
      if i = 9 ∧ b.toNat > 1 then .error .overflow
      else .ok (x + b.toNat * 128 ^ i, bs)
    else readUvarintAux k (i + 1) (x + b.toNat % 128 * 128 ^ i) bs

/-- `binary.ReadUvarint` on a byte stream. -/
def readUvarint (b : Bytes) : Except RErr (Nat × Bytes) := readUvarintAux 10 0 0 b

end Badger
