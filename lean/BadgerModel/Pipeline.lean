/-!
# The write pipeline as a small-step transition system (C38)

Sources: `db.go` (`sendToWriteCh`, `doWrites` with its `pendingCh`, `writeRequests`,
`ensureRoomForWrite`, `flushMemtable`, `handleMemTableFlush`, `close`), `levels.go`
(`addLevel0Table` stall loop, `runCompactor`), `level_handler.go` (`tryAddLevel0Table`).

Only counters, queues and the control points of the goroutines are kept:

* callers: `senders` have passed the `blockWrites` check of `sendToWriteCh` and are about to
  execute `db.writeCh <- req`; a request then sits in `writeCh` (capacity `writeChCap`), in the
  batch `reqs` of `doWrites`, or with the `writeRequests` activity, until `done` wakes its
  caller (`req.Wait`).
* `doWrites` (`DW`): the outer select, the inner select (batch collected, trying `pendingCh`),
  the blocking push when `len(reqs) ≥ 3·cap`, and `closedCase` (drain, push, write inline).
  `pendingCh` (capacity 1) is occupied exactly while a `writeRequests` activity exists, so it is
  not a separate field.
* `writeRequests` (`WR`): value-log write, then per request `ensureRoomForWrite` (memtable not
  full / rotate into `flushChan` and `imm` / `errNoRoom` poll) and `writeToLSM` (which may fill
  the memtable: nondeterministic), then `done`, then `<-pendingCh`.
* `flushMemtable` (`FL`): take from `flushChan`, build the table, `addLevel0Table` (stalls by
  polling while L0 has `NumLevelZeroTablesStall` tables), pop `imm`.
* compactors: an L0 compaction may start when some compactor exists and is not stopped and
  `l0 ≥ NumLevelZeroTables` (score ≥ 1; worker 0 runs L0 whatever the adjusted score), picks
  `k ≥ 1` tables, and removes them when done. At most one L0 compaction at a time (the
  `cstatus` range check). Lower-level compactions are finite and take no pipeline resource: not
  modelled.
* `Close` (`CL`), in the order of `DB.close`: `blockWrites := 1` → wait for a running value-log
  GC → signal the `writes` closer and wait for `doWrites` → `close(writeCh)` → publisher →
  push a non-empty memtable to `flushChan` (polling) → `close(flushChan)` and wait for the
  flusher → signal the compactors and wait → the rest (value log, levels, locks). All the flags
  Close sets are functions of its control point (`blocked`, `writesSignalled`, …).

Polls (`time.Sleep(10ms)` loops) are steps that leave the state unchanged. Abstracted
(labelled in props/C38.json): scheduler fairness, `time.Sleep`, `sync.RWMutex` writer preference
(every lock-protected section is one atomic step), error paths of the value log / table
builder (they only shorten a run), `DropAll`/`DropPrefix`/`Flatten` (they stop and restart the
same goroutines), the publisher channel (subscriber callbacks are user code).
-/
namespace Badger.Pipeline

structure Cfg where
  writeChCap : Nat          -- kvWriteChCapacity
  numMemtables : Nat        -- NumMemtables = cap(flushChan)
  l0Tables : Nat            -- NumLevelZeroTables
  l0Stall : Nat             -- NumLevelZeroTablesStall
  numCompactors : Nat
  deriving Repr

/-- What `Open` guarantees (`levels.go:69` asserts `Stall > NumLevelZeroTables`). -/
def Cfg.WF (c : Cfg) : Prop :=
  1 ≤ c.writeChCap ∧ 1 ≤ c.numMemtables ∧ 1 ≤ c.l0Tables ∧ c.l0Tables < c.l0Stall

inductive DW where
  | idle | collect | pushPending | closedDrain | closedPush | closedWrite | exited
  deriving DecidableEq, Repr

inductive WR where
  | none | vlog | ensure | toLSM | finish | release
  deriving DecidableEq, Repr

inductive FL where
  | idle | build | addL0 | popImm | exited
  deriving DecidableEq, Repr

inductive CL where
  | notCalled | blocked | gcStopped | waitWrites | pub | mt | stopFlush | waitFlush | waitComp
  | tail | returned
  deriving DecidableEq, Repr

def CL.rank : CL → Nat
  | .notCalled => 0 | .blocked => 1 | .gcStopped => 2 | .waitWrites => 3 | .pub => 4 | .mt => 5
  | .stopFlush => 6 | .waitFlush => 7 | .waitComp => 8 | .tail => 9 | .returned => 10

structure State where
  senders : Nat
  writeCh : Nat
  batch : Nat
  dw : DW
  wr : WR
  wrReqs : Nat      -- requests held by the writeRequests activity (their callers still wait)
  wrLeft : Nat      -- of those, not yet written to the memtable
  mtFull : Bool
  mtDirty : Bool    -- the active memtable is not empty
  flushChan : Nat
  imm : Nat
  fl : FL
  l0 : Nat
  l0comp : Nat      -- tables picked by the running L0 compaction (0 = none running)
  gcRunning : Bool
  cl : CL
  /-- ghost: `Close` set `blockWrites` while a caller was between the check and the send -/
  late : Bool
  /-- ghost: callers whose send hit the closed channel (`panic: send on closed channel`) -/
  panicked : Nat
  deriving DecidableEq, Repr

def State.init : State :=
  { senders := 0, writeCh := 0, batch := 0, dw := .idle, wr := .none, wrReqs := 0, wrLeft := 0,
    mtFull := false, mtDirty := false, flushChan := 0, imm := 0, fl := .idle, l0 := 0, l0comp := 0,
    gcRunning := false, cl := .notCalled, late := false, panicked := 0 }

/-! flags set by `Close`, as functions of its control point -/
def State.blocked (s : State) : Bool := 1 ≤ s.cl.rank            -- db.blockWrites = 1
def State.writesSignalled (s : State) : Bool := 3 ≤ s.cl.rank    -- closers.writes signalled
def State.writeChClosed (s : State) : Bool := 4 ≤ s.cl.rank
def State.flushChanClosed (s : State) : Bool := 7 ≤ s.cl.rank
def State.compSignalled (s : State) : Bool := 8 ≤ s.cl.rank

inductive Label where
  -- environment: a new public call arrives
  | callBegin | closeCall | gcStart
  -- callers
  | send | sendPanic
  -- doWrites
  | dwRecv | dwPush | dwPushBlocking | dwSeeClosed | dwDrain | dwDrainDone | dwClosedPush
  -- writeRequests
  | wrVlog | wrRoomOk | wrRotate | pollNoRoom | wrToLSM (full : Bool) | wrFinish | wrRelease
  -- flushMemtable
  | flTake | flBuild | flAdd | pollL0Stall | flPop | flExit
  -- compactors
  | compStart (k : Nat) | compDone
  -- value-log GC
  | gcDone
  -- Close
  | closeGc | closeSignalWrites | closeWriteCh | closePub | closeSkipMt | closePushMt
  | pollClosePush | closeFlushChan | closeSignalComp | closeCompDone | closeReturn
  deriving DecidableEq, Repr

def Label.isPoll : Label → Bool
  | .pollNoRoom | .pollL0Stall | .pollClosePush => true
  | _ => false

/-- steps of the environment (new public calls); everything else is internal -/
def Label.isEnv : Label → Bool
  | .callBegin | .closeCall | .gcStart => true
  | _ => false

/-- the `writeRequests` activity starts with the batch of `doWrites` -/
def spawn (s : State) (dw' : DW) : State :=
  { s with wr := .vlog, wrReqs := s.batch, wrLeft := s.batch, batch := 0, dw := dw' }

def step (c : Cfg) (s : State) : Label → Option State
  | .callBegin => if !s.blocked then some { s with senders := s.senders + 1 } else none
  | .closeCall =>
    if s.cl = .notCalled then some { s with cl := .blocked, late := decide (0 < s.senders) } else none
  | .gcStart => if !s.blocked ∧ !s.gcRunning then some { s with gcRunning := true } else none
  | .send =>
    if 0 < s.senders ∧ !s.writeChClosed ∧ s.writeCh < c.writeChCap then
      some { s with senders := s.senders - 1, writeCh := s.writeCh + 1 } else none
  | .sendPanic =>
    if 0 < s.senders ∧ s.writeChClosed then
      some { s with senders := s.senders - 1, panicked := s.panicked + 1 } else none
  | .dwRecv =>
    if (s.dw = .idle ∨ s.dw = .collect) ∧ 0 < s.writeCh then
      some { s with writeCh := s.writeCh - 1, batch := s.batch + 1,
                    dw := if 3 * c.writeChCap ≤ s.batch + 1 then .pushPending else .collect }
    else none
  | .dwPush => if s.dw = .collect ∧ s.wr = .none then some (spawn s .idle) else none
  | .dwPushBlocking => if s.dw = .pushPending ∧ s.wr = .none then some (spawn s .idle) else none
  | .dwSeeClosed =>
    if (s.dw = .idle ∨ s.dw = .collect) ∧ s.writesSignalled then some { s with dw := .closedDrain } else none
  | .dwDrain =>
    if s.dw = .closedDrain ∧ 0 < s.writeCh then
      some { s with writeCh := s.writeCh - 1, batch := s.batch + 1 } else none
  | .dwDrainDone => if s.dw = .closedDrain ∧ s.writeCh = 0 then some { s with dw := .closedPush } else none
  | .dwClosedPush => if s.dw = .closedPush ∧ s.wr = .none then some (spawn s .closedWrite) else none
  | .wrVlog =>
    if s.wr = .vlog then some { s with wr := if s.wrLeft = 0 then .release else .ensure } else none
  | .wrRoomOk => if s.wr = .ensure ∧ !s.mtFull then some { s with wr := .toLSM } else none
  | .wrRotate =>
    if s.wr = .ensure ∧ s.mtFull ∧ s.flushChan < c.numMemtables then
      some { s with wr := .toLSM, mtFull := false, mtDirty := false,
                    flushChan := s.flushChan + 1, imm := s.imm + 1 } else none
  | .pollNoRoom =>
    if s.wr = .ensure ∧ s.mtFull ∧ c.numMemtables ≤ s.flushChan then some s else none
  | .wrToLSM full =>
    if s.wr = .toLSM ∧ 0 < s.wrLeft then
      some { s with wrLeft := s.wrLeft - 1, mtDirty := true, mtFull := full,
                    wr := if s.wrLeft = 1 then .finish else .ensure } else none
  | .wrFinish => if s.wr = .finish then some { s with wr := .release, wrReqs := 0 } else none
  | .wrRelease =>
    if s.wr = .release then
      some { s with wr := .none, dw := if s.dw = .closedWrite then .exited else s.dw } else none
  | .flTake =>
    if s.fl = .idle ∧ 0 < s.flushChan then some { s with fl := .build, flushChan := s.flushChan - 1 } else none
  | .flBuild => if s.fl = .build then some { s with fl := .addL0 } else none
  | .flAdd => if s.fl = .addL0 ∧ s.l0 < c.l0Stall then some { s with fl := .popImm, l0 := s.l0 + 1 } else none
  | .pollL0Stall => if s.fl = .addL0 ∧ c.l0Stall ≤ s.l0 then some s else none
  | .flPop => if s.fl = .popImm then some { s with fl := .idle, imm := s.imm - 1 } else none
  | .flExit =>
    if s.fl = .idle ∧ s.flushChan = 0 ∧ s.flushChanClosed then some { s with fl := .exited } else none
  | .compStart k =>
    if 2 ≤ c.numCompactors ∧ !s.compSignalled ∧ s.l0comp = 0 ∧ c.l0Tables ≤ s.l0 ∧ 1 ≤ k ∧ k ≤ s.l0 then
      some { s with l0comp := k } else none
  | .compDone => if 0 < s.l0comp then some { s with l0 := s.l0 - s.l0comp, l0comp := 0 } else none
  | .gcDone => if s.gcRunning then some { s with gcRunning := false } else none
  | .closeGc => if s.cl = .blocked ∧ !s.gcRunning then some { s with cl := .gcStopped } else none
  | .closeSignalWrites => if s.cl = .gcStopped then some { s with cl := .waitWrites } else none
  | .closeWriteCh => if s.cl = .waitWrites ∧ s.dw = .exited then some { s with cl := .pub } else none
  | .closePub => if s.cl = .pub then some { s with cl := .mt } else none
  | .closeSkipMt => if s.cl = .mt ∧ !s.mtDirty then some { s with cl := .stopFlush } else none
  | .closePushMt =>
    if s.cl = .mt ∧ s.mtDirty ∧ s.flushChan < c.numMemtables then
      some { s with cl := .stopFlush, mtDirty := false, mtFull := false,
                    flushChan := s.flushChan + 1, imm := s.imm + 1 } else none
  | .pollClosePush =>
    if s.cl = .mt ∧ s.mtDirty ∧ c.numMemtables ≤ s.flushChan then some s else none
  | .closeFlushChan => if s.cl = .stopFlush then some { s with cl := .waitFlush } else none
  | .closeSignalComp => if s.cl = .waitFlush ∧ s.fl = .exited then some { s with cl := .waitComp } else none
  | .closeCompDone => if s.cl = .waitComp ∧ s.l0comp = 0 then some { s with cl := .tail } else none
  | .closeReturn => if s.cl = .tail then some { s with cl := .returned } else none

/-- `Reach c s`: `s` is reachable from the initial state by finitely many steps. -/
inductive Reach (c : Cfg) : State → Prop where
  | init : Reach c State.init
  | step {s s' : State} (l : Label) : Reach c s → step c s l = some s' → Reach c s'

def run (c : Cfg) : State → List Label → Option State
  | s, [] => some s
  | s, l :: ls => match step c s l with
    | some s' => run c s' ls
    | none => none

/-- Public calls that have not returned: writers anywhere in the pipeline, a running value-log
    GC, a `Close` in progress. -/
def pendingCalls (s : State) : Nat :=
  s.senders + s.writeCh + s.batch + s.wrReqs + (if s.gcRunning then 1 else 0) +
    (if s.cl = .notCalled ∨ s.cl = .returned then 0 else 1)

/-! ## A scheduler that always finds progress (the witness used by `C38_no_stuck_partial`) -/

/-- a step of the flusher or of the L0 compaction that is enabled whenever somebody waits for
    room in `flushChan` -/
def flushProgress (c : Cfg) (s : State) : Label :=
  match s.fl with
  | .idle => if 0 < s.flushChan then .flTake else .flExit
  | .build => .flBuild
  | .addL0 => if s.l0 < c.l0Stall then .flAdd else if 0 < s.l0comp then .compDone else .compStart 1
  | .popImm => .flPop
  | .exited => .flExit

def writersProgress (s : State) : Label :=
  match s.dw with
  | .idle => if 0 < s.writeCh then .dwRecv else .send
  | .collect => .dwPush
  | .pushPending => .dwPushBlocking
  | .closedDrain => .dwDrain
  | .closedPush => .dwClosedPush
  | .closedWrite => .wrRelease
  | .exited => .send

/-- The witness of progress: which non-poll step is enabled in a state with a pending call. -/
def helper (c : Cfg) (s : State) : Label :=
  match s.wr with
  | .vlog => .wrVlog
  | .ensure =>
    if !s.mtFull then .wrRoomOk else if s.flushChan < c.numMemtables then .wrRotate else flushProgress c s
  | .toLSM => .wrToLSM false
  | .finish => .wrFinish
  | .release => .wrRelease
  | .none =>
    if s.gcRunning then .gcDone else
    match s.cl with
    | .blocked => .closeGc
    | .gcStopped => .closeSignalWrites
    | .waitWrites =>
      match s.dw with
      | .exited => .closeWriteCh
      | .idle => .dwSeeClosed
      | .collect => .dwSeeClosed
      | .pushPending => .dwPushBlocking
      | .closedDrain => if 0 < s.writeCh then .dwDrain else .dwDrainDone
      | .closedPush => .dwClosedPush
      | .closedWrite => .wrRelease
    | .pub => .closePub
    | .mt =>
      if !s.mtDirty then .closeSkipMt else if s.flushChan < c.numMemtables then .closePushMt
      else flushProgress c s
    | .stopFlush => .closeFlushChan
    | .waitFlush => if s.fl = .exited then .closeSignalComp else flushProgress c s
    | .waitComp => if s.l0comp = 0 then .closeCompDone else .compDone
    | .tail => .closeReturn
    | .notCalled => writersProgress s
    | .returned => writersProgress s

/-- Run `Close` (and everything it waits for) to completion by following `helper`; `fuel` bounds
    the number of steps. -/
def runHelper (c : Cfg) : Nat → State → State
  | 0, s => s
  | n + 1, s =>
    if s.cl = .returned then s
    else match step c s (helper c s) with
      | some s' => runHelper c n s'
      | none => s

/-! ## The transaction watermark across `Close` (finding F38c)

`oracle.readTs` returns `nextTxnTs − 1` after `txnMark.WaitForMark(readTs)`: immediately when
`DoneUntil ≥ readTs`, otherwise it queues a waiter on `markCh` and blocks until the
`WaterMark.process` goroutine releases it. `DB.close` ends with `orc.Stop()`, after which that
goroutine is gone: marks sent later (the `Begin`/`Done` of a commit that obtains a timestamp
and is then refused with `ErrBlockedWrites`, or of one that panicked — F38a — and never sent
its `Done`) are never processed, `DoneUntil` stays behind `nextTxnTs − 1`, and every later
`readTs` — `WriteBatch.commit` calls it right after its own refused commit, an `Update` that
passed `IsClosed` before `Close` calls it — waits for ever. -/

structure Orc where
  processing : Bool := true     -- txnMark's process goroutine runs (until orc.Stop)
  nextTxnTs : Nat := 1
  doneUntil : Nat := 0
  unprocessed : Nat := 0        -- marks sitting in markCh with nobody to take them
  deriving DecidableEq, Repr

inductive OrcOp where
  /-- `newCommitTs` (Begin mark), `sendToWriteCh` refused, `doneCommit` (Done mark) -/
  | commitRefused
  /-- `orc.Stop()` at the end of `DB.close` -/
  | stop
  /-- `oracle.readTs()` of a new transaction -/
  | readTs
  deriving DecidableEq, Repr

def Orc.step (o : Orc) : OrcOp → Orc × String
  | .commitRefused =>
    if o.processing ∧ o.doneUntil + 1 = o.nextTxnTs then
      ({ o with nextTxnTs := o.nextTxnTs + 1, doneUntil := o.nextTxnTs }, "err-blocked")
    else ({ o with nextTxnTs := o.nextTxnTs + 1, unprocessed := o.unprocessed + 2 }, "err-blocked")
  | .stop => ({ o with processing := false }, "ok")
  | .readTs =>
    if o.nextTxnTs ≤ o.doneUntil + 1 then (o, "returns")
    else if o.processing ∧ o.unprocessed = 0 then (o, "waits-for-running-commits")
    else (o, "blocks-forever")

def Orc.run (o : Orc) : List OrcOp → Orc × List String
  | [] => (o, [])
  | op :: ops => let (o', r) := o.step op; let (o'', rs) := o'.run ops; (o'', r :: rs)

/-! ## The coarse state sampled by the harness -/

/-- What the harness can observe through `db.Levels()` / the sampling hook. -/
structure Coarse where
  imm : Nat
  flushLen : Nat
  flushCap : Nat
  l0 : Nat
  l0Stall : Nat
  writeChLen : Nat
  writeChCap : Nat
  deriving Repr

/-- The projection of the model invariant onto the observable state: the immutable memtables
    are those queued in `flushChan` plus at most the one being flushed; `flushChan` and
    `writeCh` within capacity; L0 never above the stall threshold. -/
def coarseOK (x : Coarse) : Bool :=
  decide (x.flushLen ≤ x.flushCap) && decide (x.flushLen ≤ x.imm) && decide (x.imm ≤ x.flushLen + 1) &&
  decide (x.l0 ≤ x.l0Stall) && decide (x.writeChLen ≤ x.writeChCap)

def State.coarse (c : Cfg) (s : State) : Coarse :=
  { imm := s.imm, flushLen := s.flushChan, flushCap := c.numMemtables, l0 := s.l0,
    l0Stall := c.l0Stall, writeChLen := s.writeCh, writeChCap := c.writeChCap }

end Badger.Pipeline
