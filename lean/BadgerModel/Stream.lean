import BadgerModel.Mvcc
/-!
# Stream (stream.go): key ranges, producers, `ToList`, the single `Send` loop

A `pb.KV` is represented by an `Ent` (key, version, meta, user meta, expiry, value); the
stream id is implicit: the output of a run is one KV list per key range, in range order
(the implementation hands every range a fresh stream id, the harness groups by it).

The iterator every producer uses is the one of `Mvcc.lean` (`seekList`, `parseItems`,
`validPrefix`) with `AllVersions = true`, `Prefix`, `SinceTs`.
-/
namespace Badger

/-! ## Key ranges (`DB.Ranges`, `keyRange`) -/

/-- `keyRange{left, right}`: `[left, right)`; an empty `left` seeks to the prefix, an empty
    `right` is unbounded (`len(kr.right) > 0` guards the end test in `produceKVs`). -/
structure KeyRange where
  left : Bytes
  right : Bytes
  deriving Repr, DecidableEq, Inhabited

/-- `sort.Strings` as an insertion sort on byte strings. -/
def insertBytes (b : Bytes) : List Bytes → List Bytes
  | [] => [b]
  | x :: xs => if cmpBytes x b == .gt then b :: x :: xs else x :: insertBytes b xs

def sortBytes (l : List Bytes) : List Bytes := l.foldr insertBytes []

/-- the conversion loop at the end of the split phase of `DB.Ranges`:
    `for _, key := range splits { ranges = append(ranges, {start, key}); start = key }`
    followed by `ranges = append(ranges, {left: start})`. -/
def rangesFrom (start : Bytes) : List Bytes → List KeyRange
  | [] => [{ left := start, right := [] }]
  | s :: ss => { left := start, right := s } :: rangesFrom s ss

/-- `sort.Strings(splits)` then the conversion. (Which split points are taken — table
    boundaries, block base keys, every 10000th memtable key, and the later binning by size —
    depends on byte sizes that are not modelled: the split points are an input.) -/
def splitRanges (splits : List Bytes) : List KeyRange := rangesFrom [] (sortBytes splits)

/-- membership of a user key in a range, as `produceKVs` decides it: the iterator is sought
    to `left` (keys `≥ left`), the loop ends at the first key `≥ right` when `right` is set. -/
def KeyRange.contains (r : KeyRange) (k : Bytes) : Bool :=
  cmpBytes k r.left != .lt && (r.right.isEmpty || cmpBytes k r.right == .lt)

/-! ## `Stream.ToList` -/

/-- `Stream.ToList(key, itr)`; the argument list is the iterator from its current position.
    `kv.Meta` is never set by `ToList` (so it reads 0). -/
def toList (numKeep now : Nat) (key : Bytes) : List Ent → List Ent
  | [] => []
  | e :: rest =>
    if deletedOrExpired e.emeta e.exp now then []
    else if e.key != key then []
    else
      let kv : Ent := { key := key, ver := e.ver, emeta := 0, umeta := e.umeta, exp := e.exp, val := e.val }
      if numKeep == 1 then [kv]
      else if hasBit e.emeta bitDiscardEarlier then [kv]
      else kv :: toList numKeep now key rest

/-! ## Producers (`produceKVs`) -/

structure StreamCfg where
  prefix_ : Bytes := []
  sinceTs : Nat := 0
  /-- `ChooseKey` (`fun _ => true` when nil) -/
  choose : Ent → Bool := fun _ => true
  /-- `KeyToList(key, itr)`: `none` is an error (the key is skipped with a warning) -/
  ktl : Bytes → List Ent → Option (List Ent)
  doneMarkers : Bool := false

/-- the items the iterator of one producer yields after `itr.Seek(kr.left)`. -/
def rangeItems (merged : List Ent) (pfx : Bytes) (sinceTs readTs now : Nat) (left : Bytes) : List Ent :=
  let o : IterOpts := { allVersions := true, prefix_ := pfx, sinceTs := sinceTs }
  let rem := seekList merged o readTs (some left)
  validPrefix o (parseItems o readTs now (2 * rem.length + 2) none rem)

/-- the `for itr.Seek(kr.left); itr.Valid(); {…}` loop of `iterate`. One list element is
    consumed per step: an item whose key equals `prevKey` is skipped (`itr.Next()`); on a new
    key the range end is tested, then `ChooseKey`, then `KeyToList` is handed the iterator at
    this position (it only reads versions of this key; whatever it leaves unread of the key is
    skipped by the `prevKey` test). -/
def produceLoop (cfg : StreamCfg) (right : Bytes) : Option Bytes → List Ent → List Ent
  | _, [] => []
  | prev, e :: rest =>
    if prev == some e.key then produceLoop cfg right prev rest
    else if !right.isEmpty && cmpBytes e.key right != .lt then []
    else if !cfg.choose e then produceLoop cfg right (some e.key) rest
    else
      match cfg.ktl e.key (e :: rest) with
      | none => produceLoop cfg right (some e.key) rest
      | some l => l ++ produceLoop cfg right (some e.key) rest

/-- what one producer emits for one key range when its transaction reads at `readTs`. -/
def produceRange (merged : List Ent) (cfg : StreamCfg) (readTs now : Nat) (r : KeyRange) : List Ent :=
  produceLoop cfg r.right none (rangeItems merged cfg.prefix_ cfg.sinceTs readTs now r.left)

/-- a whole run. `Stream.beginRun` (called by `Orchestrate`) creates ONE read-only transaction
    when the run starts and holds it until the run ends; every producer creates its
    transaction at that transaction's read timestamp `ts` (managed mode: the timestamp given to
    `NewStreamAt`), so every key range is read at the same `ts`. -/
def streamRun (merged : List Ent) (cfg : StreamCfg) (now : Nat) (ranges : List KeyRange) (ts : Nat) :
    List (List Ent) :=
  ranges.map (produceRange merged cfg ts now)

/-- the default configuration: `KeyToList = ToList`. -/
def toListCfg (numKeep now : Nat) (pfx : Bytes) (sinceTs : Nat) (choose : Ent → Bool) : StreamCfg :=
  { prefix_ := pfx, sinceTs := sinceTs, choose := choose, ktl := fun k it => some (toList numKeep now k it) }

/-! ## The consumer (`streamKVs`): one goroutine, `slurp` + `Send` -/

inductive SendEv
  | enter (n : Nat)   -- `st.Send(batch)` called with a batch of `n` KVs
  | exit
  deriving Repr, DecidableEq

/-- `streamKVs`: the single loop takes the groups of buffers `slurp` concatenated (the
    grouping depends on timing: any grouping of the queue into consecutive runs), skips a
    batch of size 0 and calls `Send` synchronously. Returns the batches sent and the event
    trace of `Send`. -/
def consume : List (List (List Ent)) → List (List Ent) × List SendEv
  | [] => ([], [])
  | g :: gs =>
    let batch := g.flatten
    let (sent, tr) := consume gs
    if batch.isEmpty then (sent, tr)
    else (batch :: sent, SendEv.enter batch.length :: SendEv.exit :: tr)

/-- number of `Send` calls in flight after each event of a trace (`none`: `exit` without a
    matching `enter`). -/
def inflightAfter : Nat → List SendEv → Option (List Nat)
  | _, [] => some []
  | n, .enter _ :: t => (inflightAfter (n + 1) t).map ((n + 1) :: ·)
  | 0, .exit :: _ => none
  | n + 1, .exit :: t => (inflightAfter n t).map (n :: ·)

end Badger
