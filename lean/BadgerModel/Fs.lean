import BadgerModel.Bytes
/-!
# A small file-system model for the durability protocol (C07 C08 C10 C11)

Files hold *logical* content: a list of `Chunk`s (one per store badger performs: a WAL record,
a value-log record, a complete table image, a MANIFEST change set …) instead of bytes — the
byte level (record framing, CRCs, torn records) is the subject of C09/C16/C17. What matters
here is *which* stores, syncs, renames and unlinks happen, in which order, and which of them
survive a crash.

* `FsOp` — the system calls badger (and ristretto's `z.MmapFile`) issue. `create` is
  `open(O_CREAT)` (a zero-length file), `extend` the `ftruncate(fd, maxSz)` that follows it in
  `z.OpenMmapFile`; `truncate p 0; unlink p` is `z.MmapFile.Delete`.
* `Fs` — volatile state (directory + inode contents, i.e. the page cache) and durable state
  (what the last `sync` of an inode / the last `syncDir` made durable). Inodes make `rename`
  faithful: MANIFEST-REWRITE is synced under its old name and then renamed.
* `crashKill` — process kill: everything written survives.
* `PowerImage` — power loss: every inode independently keeps its volatile or its durable
  content; every directory entry independently is the volatile or the durable one.
-/
namespace Badger

inductive Path
  | mem (fid : Nat)          -- %05d.mem : WAL of a memtable
  | vlog (fid : Nat)         -- %06d.vlog
  | sst (id : Nat)           -- %06d.sst
  | manifest                 -- MANIFEST
  | manifestRewrite          -- MANIFEST-REWRITE
  | keyRegistry              -- KEYREGISTRY
  | keyRegistryRewrite       -- REWRITE-KEYREGISTRY
  deriving DecidableEq, Repr, Inhabited

/-- An entry as stored in a WAL record or a table: user key, version, delete marker, logical
    value, and the value-log file holding the value (`vfid = 0`: value stored inline). -/
structure CEnt where
  key : Bytes
  ver : Nat
  del : Bool
  val : Bytes
  vfid : Nat := 0
  deriving DecidableEq, Repr, Inhabited

/-- one MANIFEST change -/
inductive MChange
  | create (id level : Nat)
  | delete (id : Nat)
  deriving DecidableEq, Repr

inductive Chunk
  | hdr                              -- 20-byte log-file header (`logFile.bootstrap`)
  | walEnt (ts : Nat) (e : CEnt)     -- WAL record carrying `bitTxn`, transaction timestamp `ts`
  | walFin (ts : Nat)                -- the `bitFinTxn` end-of-transaction record
  | walPlain (e : CEnt)              -- WAL record without transaction bits (value-log GC write-back)
  | vEnt (key : Bytes) (ver : Nat)   -- value-log record
  | table (es : List CEnt)           -- the complete image of one SSTable
  | mhdr                             -- MANIFEST magic + version
  | mset (cs : List MChange)         -- one MANIFEST change set (length, CRC, payload)
  | kreg                             -- key-registry header
  deriving DecidableEq, Repr

/-- What `recover` needs to know about a file's size: `zero` = length 0 (freshly created, or
    `ftruncate(0)` inside `Delete`); `alloc` = pre-allocated beyond its content (`2*MemTableSize`
    …); `tight` = ends right after its last chunk. -/
inductive FSize | zero | alloc | tight
  deriving DecidableEq, Repr, Inhabited

structure Inode where
  chunks : List Chunk := []
  size : FSize := .zero
  deriving DecidableEq, Repr, Inhabited

inductive FsOp
  | create (p : Path)                -- open(O_CREAT|O_EXCL) / open(O_CREAT|O_TRUNC): empty file
  | extend (p : Path)                -- ftruncate(fd, maxSz) of a freshly created file
  | append (p : Path) (c : Chunk)    -- store at the write offset (mmap `copy` or `write(2)`)
  | zero (p : Path)                  -- `zeroNextEntry` (the bytes are zero already)
  | truncate (p : Path) (n : Nat)    -- ftruncate to the end of the first `n` chunks
  | sync (p : Path)                  -- msync / fsync of the file
  | rename (a b : Path)
  | unlink (p : Path)
  | syncDir
  deriving DecidableEq, Repr

/-- `true` for the operations that change file content or the directory. -/
def FsOp.mutating : FsOp → Bool
  | .sync _ => false
  | .syncDir => false
  | _ => true

/-! ## association lists without duplicates -/

def aset {α β : Type} [DecidableEq α] (k : α) (v : β) (l : List (α × β)) : List (α × β) :=
  (k, v) :: l.filter (fun x => x.1 ≠ k)

def aerase {α β : Type} [DecidableEq α] (k : α) (l : List (α × β)) : List (α × β) :=
  l.filter (fun x => x.1 ≠ k)

def aget {α β : Type} [DecidableEq α] (k : α) : List (α × β) → Option β
  | [] => none
  | (k', v) :: l => if k' = k then some v else aget k l

structure Fs where
  next : Nat := 0                         -- next inode number
  data : List (Nat × Inode) := []         -- page cache: inode ↦ content
  dir : List (Path × Nat) := []           -- directory: name ↦ inode
  ddata : List (Nat × Inode) := []        -- durable content (as of the inode's last sync)
  ddir : List (Path × Nat) := []          -- durable directory (as of the last syncDir)
  deriving Repr, Inhabited

def Fs.inoOf (s : Fs) (p : Path) : Option Nat := aget p s.dir

def Fs.file (s : Fs) (p : Path) : Option Inode :=
  match aget p s.dir with
  | some i => some ((aget i s.data).getD {})
  | none => none

/-- apply `f` to the content of `p` (no-op when `p` does not exist: the model's protocol
    never does that; Go would return an error). -/
def Fs.modify (s : Fs) (p : Path) (f : Inode → Inode) : Fs :=
  match aget p s.dir with
  | some i => { s with data := aset i (f ((aget i s.data).getD {})) s.data }
  | none => s

def Fs.step (s : Fs) : FsOp → Fs
  | .create p =>
    { s with next := s.next + 1, data := aset s.next {} s.data, dir := aset p s.next s.dir }
  | .extend p =>
    -- the size given to a fresh file is taken to be durable together with its directory
    -- entry (journalled metadata): a never-synced log file is a file of zeros, not a
    -- zero-length file
    match aget p s.dir with
    | some i => { s with data := aset i { (aget i s.data).getD {} with size := .alloc } s.data,
                         ddata := aset i { chunks := [], size := .alloc } s.ddata }
    | none => s
  | .append p c => s.modify p (fun f =>
      { chunks := f.chunks ++ [c], size := if f.size = .alloc then .alloc else .tight })
  | .zero _ => s
  | .truncate p n => s.modify p (fun f =>
      { chunks := f.chunks.take n, size := if n = 0 then .zero else .tight })
  | .sync p =>
    match aget p s.dir with
    | some i => { s with ddata := aset i ((aget i s.data).getD {}) s.ddata }
    | none => s
  | .rename a b =>
    match aget a s.dir with
    | some i => { s with dir := aset b i (aerase a s.dir) }
    | none => s
  | .unlink p => { s with dir := aerase p s.dir }
  | .syncDir => { s with ddir := s.dir }

def Fs.run (s : Fs) (ops : List FsOp) : Fs := ops.foldl Fs.step s

/-- A directory image: what `Open` finds. -/
abbrev Image := List (Path × Inode)

def Image.file (img : Image) (p : Path) : Option Inode := aget p img

/-- process kill: the page cache survives -/
def crashKill (s : Fs) : Image :=
  s.dir.map (fun (p, i) => (p, (aget i s.data).getD {}))

/-- the image a clean, complete write-back would leave: identical to `crashKill` -/
def Fs.image (s : Fs) : Image := crashKill s

/-- the image in which nothing unsynced survives -/
def crashPowerWorst (s : Fs) : Image :=
  s.ddir.map (fun (p, i) => (p, (aget i s.ddata).getD {}))

/-- power loss: `img` is a possible survivor of `s`. Each name is bound as in the volatile or
    as in the durable directory (or to nothing when one of them has no such name); the inode
    it is bound to has its volatile or its durable content (a never-synced inode is empty). -/
def PowerImage (s : Fs) (img : Image) : Prop :=
  (∀ p f, aget p img = some f →
    ∃ i, (aget p s.dir = some i ∨ aget p s.ddir = some i) ∧
      (f = (aget i s.data).getD {} ∨ f = (aget i s.ddata).getD {})) ∧
  (∀ p, aget p img = none → aget p s.dir = none ∨ aget p s.ddir = none)

/-- executable enumeration of one power-loss choice: `keepDir p` / `keepData i` say whether the
    volatile (true) or the durable (false) version of the entry / content survives. -/
def crashPowerWith (s : Fs) (keepDir : Path → Bool) (keepData : Nat → Bool) : Image :=
  let sel : Nat → Inode := fun i => if keepData i then (aget i s.data).getD {} else (aget i s.ddata).getD {}
  (s.dir.filter (fun x => keepDir x.1)).map (fun x => (x.1, sel x.2)) ++
  (s.ddir.filter (fun x => !keepDir x.1)).map (fun x => (x.1, sel x.2))

end Badger
