import BadgerModel.Bytes
import BadgerModel.Key
/-!
# Bloom filters (`y/bloom.go`): `Hash`, `appendFilter` / `NewFilter`, `Filter.MayContain`,
and the table-level use (`table.Builder` hashes `y.ParseKey(key)`, `Table.DoesNotHave`).

`uint32` values are `Nat`s; every Go `uint32` operation is followed by an explicit
`% 2^32` (wrap-around is what the property is about). Where Go panics
(`h % uint32(nBits)` with `uint32(nBits) = 0`) the model returns `none`.

Not modelled: Go `int` overflow of `len(keys) * bitsPerKey + 7` (needs ≥ 2^63) and the
implementation-specific `uint32(float64)` conversion for `bitsPerKey * 0.69 ≥ 2^32`
(both are listed as assumptions in `props/C19.json`).
-/
namespace Badger

def u32 : Nat := 2 ^ 32

/-! ## `y.Hash` -/

def hashM : Nat := 0xc6a4a793
def hashSeed : Nat := 0xbc9f1d34

/-- The 4-bytes-at-a-time loop of `y.Hash` followed by the tail `switch`. -/
def hashLoop : Nat → Bytes → Nat
  | h, b0 :: b1 :: b2 :: b3 :: rest =>
    let h := (h + (b0.toNat ||| b1.toNat <<< 8 ||| b2.toNat <<< 16 ||| b3.toNat <<< 24)) % u32
    let h := h * hashM % u32
    let h := h ^^^ (h >>> 16)
    hashLoop h rest
  | h, [b0, b1, b2] =>
    let h := (h + b2.toNat <<< 16) % u32
    let h := (h + b1.toNat <<< 8) % u32
    let h := (h + b0.toNat) % u32
    let h := h * hashM % u32
    h ^^^ (h >>> 24)
  | h, [b0, b1] =>
    let h := (h + b1.toNat <<< 8) % u32
    let h := (h + b0.toNat) % u32
    let h := h * hashM % u32
    h ^^^ (h >>> 24)
  | h, [b0] =>
    let h := (h + b0.toNat) % u32
    let h := h * hashM % u32
    h ^^^ (h >>> 24)
  | h, [] => h

/-- `y.Hash(b)`; `uint32(len(b)) * m` wraps. -/
def hash (b : Bytes) : Nat :=
  hashLoop (hashSeed ^^^ (b.length % u32 * hashM % u32)) b

/-! ## filter construction -/

/-- `k := uint32(float64(bitsPerKey) * 0.69)` clamped to `[1, 30]` (negative `bitsPerKey`
    is first replaced by 0). Integer characterisation `⌊bpk·69/100⌋`; equality with the
    float computation is checked exhaustively for `bpk ∈ [-1000, 100000]` by the harness
    op `krange` (for `bpk ≥ 45` both sides are ≥ 31 and clamp to 30). -/
def bloomK (bpk : Int) : Nat :=
  let b := bpk.toNat          -- if bitsPerKey < 0 { bitsPerKey = 0 }
  let k := b * 69 / 100
  if k < 1 then 1 else if k > 30 then 30 else k

/-- `nBytes` of `appendFilter`: `nBits = len(keys)*bitsPerKey`, at least 64, rounded up. -/
def bloomNBytes (nKeys : Nat) (bpk : Int) : Nat :=
  let nBits := nKeys * bpk.toNat
  let nBits := if nBits < 64 then 64 else nBits
  (nBits + 7) / 8

/-- `filter[pos/8] |= 1 << (pos%8)`. -/
def setBit (f : Bytes) (pos : Nat) : Bytes :=
  f.set (pos / 8) (f.getD (pos / 8) 0 ||| ((1 : UInt8) <<< UInt8.ofNat (pos % 8)))

/-- `f[pos/8] & (1 << (pos%8)) != 0`. -/
def testBit (f : Bytes) (pos : Nat) : Bool :=
  (f.getD (pos / 8) 0 &&& ((1 : UInt8) <<< UInt8.ofNat (pos % 8))) != 0

/-- `delta := h>>17 | h<<15` on `uint32`. -/
def bloomDelta (h : Nat) : Nat := (h >>> 17 ||| h <<< 15) % u32

/-- The inner loop of `appendFilter` for one key hash: `j` iterations left,
    `nb = uint32(nBits)` (non-zero). -/
def addKeyLoop (nb delta : Nat) : Nat → Nat → Bytes → Bytes
  | 0, _, f => f
  | j + 1, h, f => addKeyLoop nb delta j ((h + delta) % u32) (setBit f (h % nb))

/-- `appendFilter(nil, keys, bitsPerKey)`; `none` = Go panics with a division by zero
    (`uint32(nBits) = 0`, i.e. a filter of a multiple of 512 MiB, and at least one key). -/
def appendFilter (keys : List Nat) (bpk : Int) : Option Bytes :=
  let k := bloomK bpk
  let nBytes := bloomNBytes keys.length bpk
  let nb := nBytes * 8 % u32
  if nb = 0 ∧ keys ≠ [] then none
  else
    let filter := keys.foldl (fun f h => addKeyLoop nb (bloomDelta h) k h f) (List.replicate nBytes 0)
    some (filter ++ [UInt8.ofNat k])

/-! ## `Filter.MayContain` -/

/-- The probe loop of `MayContain`. -/
def mayLoop (f : Bytes) (nb delta : Nat) : Nat → Nat → Bool
  | 0, _ => true
  | j + 1, h => if testBit f (h % nb) then mayLoop f nb delta j ((h + delta) % u32) else false

/-- `Filter.MayContain(h)`; `none` = division-by-zero panic (`uint32(8*(len(f)-1)) = 0`
    with `1 ≤ k ≤ 30`; unreachable for filters shorter than 512 MiB). -/
def mayContain (f : Bytes) (h : Nat) : Option Bool :=
  if f.length < 2 then some false
  else
    let k := (f.getD (f.length - 1) 0).toNat
    if k > 30 then some true
    else
      let nb := 8 * (f.length - 1) % u32
      if nb = 0 ∧ k ≠ 0 then none
      else some (mayLoop f nb (bloomDelta h) k h)

/-! ## table level -/

/-- Filter written by `table.Builder`: hashes of `y.ParseKey` of every added internal key. -/
def tableFilter (internalKeys : List Bytes) (bpk : Int) : Option Bytes :=
  appendFilter (internalKeys.map (fun k => hash (parseKey k))) bpk

/-- `Table.DoesNotHave(hash)` for a table that has a bloom filter. -/
def doesNotHave (filter : Bytes) (h : Nat) : Option Bool :=
  (mayContain filter h).map (!·)

end Badger
