import BadgerModel.Mvcc
import BadgerModel.Spec.Mvcc
/-!
# The value log and its garbage collection (value.go, discard.go, db.go, iterator.go)

On top of `Lsm.lean` / `Mvcc.lean`. An LSM entry whose meta has `bitValuePointer` carries in
`Ent.val` the *encoded value pointer* `(fid, idx)` instead of the logical value (as the Go code
does: `vp.Encode()`); `idx` is the index of the record in its file (the Go code stores the byte
offset; only equality and order of offsets inside one file are ever looked at, and both are the
same for indices). `resolve` is `valueLog.Read` composed with the `bitValuePointer` test of
`Item.yieldItemValue`.

* `Vlog.writeReq` — `valueLog.write` for one request: entries whose value is shorter than the
  threshold stay inline (`skipVlogAndSetThreshold`), the others are appended to the file `maxFid`
  (record meta = entry meta without `bitTxn|bitFinTxn`) and replaced by pointers; after the
  request `toDisk` rotates when `numEntriesWritten > ValueLogMaxEntries` (the size criterion
  `woffset > ValueLogFileSize` is never reached by the sessions of the harness and is not modelled).
* `gcScan` / `gcMoves` — the callback `fe` of `rewrite` with `discardEntry`, branch by branch.
* `GcDb.gcBegin` (start of `rewrite` up to `vlogGCPauseHook`: checks, `gcDiscardTs`/`gcActive`, scan),
  `GcDb.gcEnd` (write-back through the normal write path: `batchSet` → `vlog.write` + `writeToLSM`;
  then deletion now iff `iteratorCount() == 0`, else `filesToBeDeleted`),
  `Vlog.iterClose` (`decrIteratorCount`: the last iterator unlinks the deferred files).
* `GcDb.discardTs` — `subcompact`'s discard timestamp with the `gcActive/gcDiscardTs` clamp (#2286).

Not modelled: the early `batchSet` inside the scan when `wb` reaches `maxBatchCount/maxBatchSize`, the
1024-entry batches and the `ErrTxnTooBig` halving of the write-back (files of the harness hold a
handful of records: one request), `pickLog`/discard statistics (the picked file is an input, like
the tables a compaction picks), encryption.
-/
namespace Badger

structure VRec where
  key : Bytes
  ver : Nat
  rmeta : Nat
  umeta : Nat
  exp : Nat
  val : Bytes
  deriving DecidableEq, Repr, Inhabited

structure VFile where
  fid : Nat
  recs : List VRec := []
  deriving DecidableEq, Repr, Inhabited

structure Vlog where
  files : List VFile := []     -- `filesMap`, ascending fid
  maxFid : Nat := 0
  nWritten : Nat := 0          -- `numEntriesWritten`
  tbd : List Nat := []         -- `filesToBeDeleted`
  iterCount : Nat := 0         -- `numActiveIterators`
  maxEntries : Nat := 1000000  -- `ValueLogMaxEntries`
  deriving Repr, Inhabited

/-- `valuePointer.Encode` (fid and position; `Len` is not looked at by anything modelled) -/
def encodePtr (fid idx : Nat) : Bytes := beBytes fid 4 ++ beBytes idx 4

def decodePtr (b : Bytes) : Nat × Nat := (beNat (b.take 4), beNat (b.drop 4))

def Vlog.file? (vl : Vlog) (fid : Nat) : Option VFile := vl.files.find? (·.fid == fid)

/-- `valueLog.Read`: `none` is the error "file with ID not found" / "Invalid value pointer offset" -/
def Vlog.read (vl : Vlog) (fid idx : Nat) : Option VRec :=
  match vl.file? fid with
  | some f => f.recs[idx]?
  | none => none

/-- the logical value of an LSM entry: inline, or through the pointer -/
def resolve (vl : Vlog) (e : Ent) : Option Bytes :=
  if hasBit e.emeta bitValuePointer then
    let p := decodePtr e.val
    (vl.read p.1 p.2).map (·.val)
  else some e.val

/-- `Item.yieldItemValue`/`ValueCopy`: a failed value-log read is logged and swallowed — the
    caller gets an empty value and a nil error -/
def itemValue (vl : Vlog) (e : Ent) : Bytes := (resolve vl e).getD []

/-- `createVlogFile` -/
def Vlog.rotate (vl : Vlog) : Vlog :=
  { vl with maxFid := vl.maxFid + 1, files := vl.files ++ [{ fid := vl.maxFid + 1 }], nWritten := 0 }

/-- `valueLog.open` on an empty directory: file 1 -/
def Vlog.init (maxEntries : Nat) : Vlog := ({ maxEntries := maxEntries } : Vlog).rotate

def Vlog.curLen (vl : Vlog) : Nat :=
  match vl.file? vl.maxFid with
  | some f => f.recs.length
  | none => 0

def Vlog.append (vl : Vlog) (r : VRec) : Vlog :=
  { vl with files := vl.files.map (fun f => if f.fid == vl.maxFid then { f with recs := f.recs ++ [r] } else f) }

/-- the record `valueLog.write` encodes for an entry: transaction bits are not stored -/
def recOf (e : Ent) : VRec :=
  { key := e.key, ver := e.ver, rmeta := clearBit (clearBit e.emeta bitTxn) bitFinTxn,
    umeta := e.umeta, exp := e.exp, val := e.val }

/-- the loop over the entries of one request: value log first, then the LSM form of each entry
    (`writeToLSM`: pointer entries get `bitValuePointer`, inline ones lose it) -/
def writeEntries (thr : Nat) : Vlog → Nat → List Ent → Vlog × Nat × List Ent
  | vl, n, [] => (vl, n, [])
  | vl, n, e :: es =>
    if e.val.length < thr then
      let (vl', n', out) := writeEntries thr vl n es
      (vl', n', { e with emeta := clearBit e.emeta bitValuePointer } :: out)
    else
      let idx := vl.curLen
      let vl1 := vl.append (recOf e)
      let (vl', n', out) := writeEntries thr vl1 (n + 1) es
      (vl', n', { e with emeta := setBit e.emeta bitValuePointer, val := encodePtr vl.maxFid idx } :: out)

/-- `valueLog.write` for one request + `toDisk` -/
def Vlog.writeReq (vl : Vlog) (thr : Nat) (es : List Ent) : Vlog × List Ent :=
  let (vl1, n, out) := writeEntries thr vl 0 es
  let vl2 := { vl1 with nWritten := vl1.nWritten + n }
  (if vl2.nWritten > vl2.maxEntries then vl2.rotate else vl2, out)

/-! ## the database with a value log -/

structure GcDb where
  db : Db
  vl : Vlog
  gcActive : Bool := false
  gcTs : Nat := 0            -- `gcDiscardTs`
  deriving Repr, Inhabited

def Lsm.putAll (s : Lsm) (es : List Ent) : Lsm := { s with mem := es.foldl (fun m e => memPut e m) s.mem }

/-- stable insertion sort by the position of the key in `order` (keys not listed go last) -/
def orderBy (order : List Bytes) (es : List Ent) : List Ent :=
  let pos (e : Ent) : Nat := order.idxOf e.key
  es.foldr (fun e acc =>
    let (lo, hi) := acc.span (fun x => pos x < pos e)
    lo ++ e :: hi) []

/-- `Txn.Commit` with the value log in the write path: the oracle bookkeeping is `Db.commit`'s, the
    write is `vlog.write` followed by `writeToLSM`. `commitAndSend` ranges over the Go map
    `pendingWrites`: the iteration order is an input (`order`, the keys in the order observed). -/
def GcDb.commit (g : GcDb) (id managedTs : Nat) (order : List Bytes := []) : GcDb × CommitRes :=
  let lsm0 := g.db.lsm
  let (d, r) := g.db.commit id managedTs
  match g.db.findTxn id, r with
  | some t, .ok cts =>
    let keepTogether := (t.pending ++ t.dups).all (·.ver == 0)
    let fin (e : Ent) : Ent :=
      let e := if e.ver == 0 then { e with ver := cts } else e
      if keepTogether then { e with emeta := setBit e.emeta bitTxn } else e
    let (vl, ents) := g.vl.writeReq d.opts.threshold ((t.dups ++ orderBy order t.pending).map fin)
    ({ g with db := { d with lsm := lsm0.putAll ents }, vl := vl }, r)
  | _, _ => ({ g with db := d }, r)

/-- `DB.MaxVersion` -/
def Lsm.maxVersion (s : Lsm) : Nat := s.allEntries.foldl (fun m e => max m e.ver) 0

/-- `subcompact`: `discardTs := orc.discardAtOrBelow()`, lowered to `gcDiscardTs` while a rewrite
    is in flight (#2286) -/
def GcDb.discardTs (g : GcDb) : Nat :=
  let d := g.db.discardAtOrBelow
  if g.gcActive && 0 < g.gcTs && g.gcTs < d then g.gcTs else d

/-! ## the scan -/

inductive ScanDecision
  | dead          -- `isDeletedOrExpired(e.meta, e.ExpiresAt)`
  | versionGone   -- `discardEntry`: `vs.Version != ParseTs(e.Key)`
  | notPointer    -- `discardEntry`: `vs.Meta & bitValuePointer == 0`
  | finTxn        -- `discardEntry`: `vs.Meta & bitFinTxn > 0`
  | newerFile     -- `vp.Fid > f.fid`
  | laterOffset   -- `vp.Offset > e.offset`
  | move          -- `vp.Fid == f.fid && vp.Offset == e.offset`
  | olderPtr      -- the empty `else` branch
  deriving DecidableEq, Repr

/-- the body of `fe` for the record at position `idx` of file `fid`: `vlog.db.get(e.Key)` is a
    lookup of the record's own internal key `key@ver` -/
def scanDecide (lsm : Lsm) (now fid idx : Nat) (r : VRec) : ScanDecision :=
  if deletedOrExpired r.rmeta r.exp now then .dead else
  match lsm.get r.key r.ver with
  | none => .versionGone          -- empty ValueStruct: version 0 (≠ ver), and not a pointer
  | some e =>
    if e.ver != r.ver then .versionGone
    else if !hasBit e.emeta bitValuePointer then .notPointer
    else if hasBit e.emeta bitFinTxn then .finTxn
    else
      let p := decodePtr e.val
      if p.1 > fid then .newerFile
      else if p.2 > idx then .laterOffset
      else if p.1 == fid && p.2 == idx then .move
      else .olderPtr

def gcMoves (lsm : Lsm) (now fid idx : Nat) (r : VRec) : Bool := scanDecide lsm now fid idx r == .move

/-- phase 1: the records of `f` that will be written back, in file order -/
def gcScan (lsm : Lsm) (now : Nat) (f : VFile) : List VRec :=
  (zipIdx f.recs).filterMap (fun (i, r) => if gcMoves lsm now f.fid i r then some r else none)

/-- the entry `rewrite` builds for a record (`ne`): same internal key, user meta, expiry, value;
    meta without `bitValuePointer|bitTxn|bitFinTxn` -/
def wbEnt (r : VRec) : Ent :=
  { key := r.key, ver := r.ver,
    emeta := clearBit (clearBit (clearBit r.rmeta bitValuePointer) bitTxn) bitFinTxn,
    umeta := r.umeta, exp := r.exp, val := r.val }

structure GcRun where
  fid : Nat
  wb : List VRec
  /-- records (with their positions) the scan has not examined yet: non-empty only while the rewrite
      is parked in the middle of its scan -/
  rest : List (Nat × VRec) := []
  deriving Repr, Inhabited

inductive GcErr | marked | nofile | norewrite
  deriving Repr, DecidableEq

/-- `rewrite` up to the pause hook (the `fid < maxFid` test is the wrapper's / `pickLog`'s) -/
def GcDb.gcBegin (g : GcDb) (fid : Nat) : Except GcErr (GcDb × GcRun) :=
  match g.vl.file? fid with
  | none => .error .nofile
  | some f =>
    if fid ≥ g.vl.maxFid then .error .norewrite
    else if g.vl.tbd.contains fid then .error .marked
    else
      let g1 := { g with gcTs := g.db.lsm.maxVersion, gcActive := true }
      .ok (g1, { fid := fid, wb := gcScan g.db.lsm g.db.now f })

/-- the scan over some of the records of file `fid` (given with their positions) -/
def gcScanPart (lsm : Lsm) (now fid : Nat) (irs : List (Nat × VRec)) : List VRec :=
  irs.filterMap (fun (i, r) => if gcMoves lsm now fid i r then some r else none)

/-- `rewrite` parked after its scan has examined the first `k` records: the clamp is armed BEFORE
    the scan (`gcDiscardTs`, `gcActive` are stored first), the first `k` records are judged against
    the LSM as it is now -/
def GcDb.gcBeginAt (g : GcDb) (fid k : Nat) : Except GcErr (GcDb × GcRun) :=
  match g.vl.file? fid with
  | none => .error .nofile
  | some f =>
    if fid ≥ g.vl.maxFid then .error .norewrite
    else if g.vl.tbd.contains fid then .error .marked
    else
      let g1 := { g with gcTs := g.db.lsm.maxVersion, gcActive := true }
      let irs := zipIdx f.recs
      .ok (g1, { fid := fid, wb := gcScanPart g.db.lsm g.db.now fid (irs.take k), rest := irs.drop k })

/-- the rest of the scan, judged against the LSM as it is when the scan resumes -/
def GcDb.gcCont (g : GcDb) (run : GcRun) : GcRun :=
  { run with wb := run.wb ++ gcScanPart g.db.lsm g.db.now run.fid run.rest, rest := [] }

/-- phase 3: unlink now iff no iterator is open -/
def Vlog.gcDelete (vl : Vlog) (fid : Nat) : Vlog × Bool :=
  if vl.iterCount == 0 then ({ vl with files := vl.files.filter (·.fid != fid) }, true)
  else ({ vl with tbd := vl.tbd ++ [fid] }, false)

/-- phases 2 and 3: write-back (one request through the normal write path), `gcActive` released,
    deletion. Returns (state, moved, deleted now). -/
def GcDb.gcEnd (g : GcDb) (run : GcRun) : GcDb × Nat × Bool :=
  let (vl1, ents) := if run.wb.isEmpty then (g.vl, []) else g.vl.writeReq g.db.opts.threshold (run.wb.map wbEnt)
  let lsm := g.db.lsm.putAll ents
  let (vl2, now) := vl1.gcDelete run.fid
  ({ g with db := { g.db with lsm := lsm }, vl := vl2, gcActive := false }, run.wb.length, now)

/-- `incrIteratorCount` -/
def Vlog.iterOpen (vl : Vlog) : Vlog := { vl with iterCount := vl.iterCount + 1 }

/-- `decrIteratorCount`: the last iterator deletes the deferred files -/
def Vlog.iterClose (vl : Vlog) : Vlog :=
  let n := vl.iterCount - 1
  if n != 0 then { vl with iterCount := n }
  else { vl with iterCount := 0, files := vl.files.filter (fun f => !vl.tbd.contains f.fid), tbd := [] }

/-! ## what a user sees -/

/-- the user-visible content of an entry: everything but the physical location of the value and
    the transaction bits -/
structure View where
  key : Bytes
  ver : Nat
  deleted : Bool
  discardEarlier : Bool
  merge : Bool
  umeta : Nat
  exp : Nat
  val : Option Bytes
  deriving DecidableEq, Repr

def viewOf (vl : Vlog) (e : Ent) : View :=
  { key := e.key, ver := e.ver, deleted := hasBit e.emeta bitDelete,
    discardEarlier := hasBit e.emeta bitDiscardEarlier, merge := hasBit e.emeta bitMerge,
    umeta := e.umeta, exp := e.exp, val := resolve vl e }

/-- what `Txn.Get(k)` at read timestamp `ts` shows (before the item's value is fetched lazily) -/
def GcDb.read (g : GcDb) (k : Bytes) (ts : Nat) : Option View :=
  (visible g.db.now (g.db.lsm.get k ts)).map (viewOf g.vl)

end Badger
