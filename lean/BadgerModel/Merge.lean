import BadgerModel.Source
/-!
# `table.MergeIterator` (table/merge_iterator.go), transcribed branch by branch.

`MergeIterator{left, right node; small *node; curKey []byte; reverse bool}` over two child
iterators of arbitrary dynamic type (`y.Iterator` interface values, here: state types `α`, `β`
with method tables `A`, `B`).  `small` always points to `&mi.left` or `&mi.right`; it is the
boolean `smallLeft`.

`node.merge` / `node.concat` are the child iterator type-asserted to its concrete type, used by
`setKey`/`next` only to devirtualise the calls `Valid()/Key()/Next()`:
`n.merge.small.valid` *is* `(*MergeIterator).Valid()`, `n.merge.small.key` *is*
`(*MergeIterator).Key()`.  The three arms of those `switch`es therefore coincide with the
interface arm, which is the one modelled.

Byte slices are values here; the Go code keeps `node.key` as an alias of the child's key buffer,
and refreshes it (`setKey`) after every call that moves the child.
-/
namespace Badger

/-- `type node struct{ valid bool; key []byte; iter y.Iterator; … }` -/
structure MNode (σ : Type) where
  valid : Bool
  key : Bytes
  iter : σ

namespace MNode
variable {σ : Type}

/-- `node.setKey`: the cached key is only refreshed when the child is valid. -/
def setKey (o : IterOps σ) (n : MNode σ) : MNode σ :=
  let v := o.valid n.iter
  { n with valid := v, key := if v then o.key n.iter else n.key }

/-- `node.next` -/
def next (o : IterOps σ) (n : MNode σ) : MNode σ := setKey o { n with iter := o.next n.iter }
/-- `node.rewind` -/
def rewind (o : IterOps σ) (n : MNode σ) : MNode σ := setKey o { n with iter := o.rewind n.iter }
/-- `node.seek` -/
def seek (o : IterOps σ) (k : Bytes) (n : MNode σ) : MNode σ :=
  setKey o { n with iter := o.seek k n.iter }
end MNode

structure MergeSt (α β : Type) where
  left : MNode α
  right : MNode β
  smallLeft : Bool      -- `mi.small == &mi.left`
  curKey : Bytes
  reverse : Bool

namespace MergeSt
variable {α β : Type}

def smallValid (m : MergeSt α β) : Bool := if m.smallLeft then m.left.valid else m.right.valid
def smallKey (m : MergeSt α β) : Bytes := if m.smallLeft then m.left.key else m.right.key
/-- `mi.bigger()` -/
def biggerValid (m : MergeSt α β) : Bool := if m.smallLeft then m.right.valid else m.left.valid
def biggerKey (m : MergeSt α β) : Bytes := if m.smallLeft then m.right.key else m.left.key

/-- `swapSmall` (small is one of the two nodes, so exactly one of the two `if`s fires). -/
def swapSmall (m : MergeSt α β) : MergeSt α β := { m with smallLeft := !m.smallLeft }

/-- `MergeIterator.fix` -/
def fix (_A : IterOps α) (B : IterOps β) (m : MergeSt α β) : MergeSt α β :=
  if !m.biggerValid then m
  else if !m.smallValid then m.swapSmall
  else
    match compareKeys m.smallKey m.biggerKey with
    | .eq =>
      -- Both the keys are equal: move the right iterator ahead.
      let m' := { m with right := m.right.next B }
      if !m'.smallLeft then m'.swapSmall else m'   -- `if &mi.right == mi.small`
    | .lt => if m.reverse then m.swapSmall else m
    | .gt => if m.reverse then m else m.swapSmall

/-- `mi.small.next()` -/
def smallNext (A : IterOps α) (B : IterOps β) (m : MergeSt α β) : MergeSt α β :=
  if m.smallLeft then { m with left := m.left.next A } else { m with right := m.right.next B }

/-- `mi.setCurrent`: `curKey` becomes a copy of `small.key` (also when small is invalid:
    the stale cached key is copied). -/
def setCurrent (m : MergeSt α β) : MergeSt α β := { m with curKey := m.smallKey }

/-- loop condition of `Next`: `mi.Valid() && bytes.Equal(mi.small.key, mi.curKey)` -/
def loopCond (m : MergeSt α β) : Bool := m.smallValid && m.smallKey == m.curKey

/-- `for mi.Valid() { if !bytes.Equal(small.key, curKey) { break }; small.next(); fix() }`
    with an explicit iteration bound (the Go loop has none). -/
def nextLoop (A : IterOps α) (B : IterOps β) : Nat → MergeSt α β → MergeSt α β
  | 0, m => m
  | n + 1, m => if m.loopCond then nextLoop A B n (fix A B (smallNext A B m)) else m

/-- ghost bound: entries the two children can still produce -/
def size (A : IterOps α) (B : IterOps β) (m : MergeSt α β) : Nat :=
  A.size m.left.iter + B.size m.right.iter

/-- `MergeIterator.Next`.  The loop bound `size + 1` is never the reason the loop stops in
    states reached from `NewMergeIterator` over strictly sorted inputs
    (`C21_next_loop_exits`). -/
def next (A : IterOps α) (B : IterOps β) (m : MergeSt α β) : MergeSt α β :=
  setCurrent (nextLoop A B (size A B m + 1) m)

/-- `MergeIterator.Rewind` -/
def rewind (A : IterOps α) (B : IterOps β) (m : MergeSt α β) : MergeSt α β :=
  setCurrent (fix A B { m with left := m.left.rewind A, right := m.right.rewind B })

/-- `MergeIterator.Seek` -/
def seek (A : IterOps α) (B : IterOps β) (k : Bytes) (m : MergeSt α β) : MergeSt α β :=
  setCurrent (fix A B { m with left := m.left.seek A k, right := m.right.seek B k })

/-- `Valid` -/
def valid (m : MergeSt α β) : Bool := m.smallValid
/-- `Key` -/
def key (m : MergeSt α β) : Bytes := m.smallKey
/-- `Value`: `mi.small.iter.Value()` -/
def value (A : IterOps α) (B : IterOps β) (m : MergeSt α β) : Bytes :=
  if m.smallLeft then A.value m.left.iter else B.value m.right.iter

def ops (A : IterOps α) (B : IterOps β) : IterOps (MergeSt α β) :=
  { rewind := rewind A B, seek := seek A B, next := next A B, valid := valid, key := key,
    value := value A B, size := size A B }

end MergeSt

/-- `NewMergeIterator` for exactly two inputs: `small = &mi.left`, nodes zero-valued apart
    from `iter`, `curKey = nil`. -/
def newMerge2 (a b : AnyIter) (reverse : Bool) : AnyIter :=
  { σ := MergeSt a.σ b.σ
    ops := MergeSt.ops a.ops b.ops
    st := { left := ⟨false, [], a.st⟩, right := ⟨false, [], b.st⟩, smallLeft := true,
            curKey := [], reverse := reverse } }

/-- `NewMergeIterator(iters, reverse)`: `nil` for no input, the input itself for one,
    a `MergeIterator` for two, otherwise the merge of the two recursively built halves
    `iters[:len/2]`, `iters[len/2:]`.  `fuel` only makes the recursion structural. -/
def newMergeIteratorF : Nat → List AnyIter → Bool → Option AnyIter
  | _, [], _ => none
  | _, [a], _ => some a
  | _, [a, b], reverse => some (newMerge2 a b reverse)
  | 0, _, _ => none
  | fuel + 1, iters, reverse =>
    let mid := iters.length / 2
    match newMergeIteratorF fuel (iters.take mid) reverse,
          newMergeIteratorF fuel (iters.drop mid) reverse with
    | some l, some r => some (newMerge2 l r reverse)
    | _, _ => none

def newMergeIterator (iters : List AnyIter) (reverse : Bool) : Option AnyIter :=
  newMergeIteratorF iters.length iters reverse

/-! ## Specification -/

/-- Insert `e` at its sorted position under `cmp` unless an entry with the same key is
    already present (then the existing entry, which came from an earlier input, wins). -/
def insertIfAbsent (cmp : Bytes → Bytes → Ordering) (e : ItEntry) : List ItEntry → List ItEntry
  | [] => [e]
  | x :: xs =>
    match cmp e.key x.key with
    | .lt => e :: x :: xs
    | .eq => x :: xs
    | .gt => x :: insertIfAbsent cmp e xs

/-- Sorted union under `cmp`; for equal keys the copy from the earliest input is kept:
    all entries, earliest input first, are inserted-if-absent into a sorted list. -/
def mergeSpecG (cmp : Bytes → Bytes → Ordering) (inputs : List (List ItEntry)) : List ItEntry :=
  inputs.flatten.foldl (fun acc e => insertIfAbsent cmp e acc) []

/-- `mergeSpec`: sorted union under `compareKeys` with earliest-input precedence. -/
def mergeSpec (inputs : List (List ItEntry)) : List ItEntry := mergeSpecG compareKeys inputs

end Badger
