/-!
# Bytes: byte strings, lexicographic comparison, fixed-width integer encodings, hex I/O.
Core Lean only (no Mathlib): this module is linked into the `bmdriver` executable.
-/
namespace Badger

abbrev Bytes := List UInt8

/-- `bytes.Compare`: lexicographic order on byte strings, shorter prefix first. -/
def cmpBytes : Bytes → Bytes → Ordering
  | [], [] => .eq
  | [], _ :: _ => .lt
  | _ :: _, [] => .gt
  | a :: as, b :: bs =>
    if a.toNat < b.toNat then .lt
    else if b.toNat < a.toNat then .gt
    else cmpBytes as bs

/-- Big-endian encoding of `n` on exactly `len` bytes (most significant first);
    `binary.BigEndian.PutUint64` is `beBytes n 8` for `n < 2^64`. -/
def beBytes (n : Nat) : (len : Nat) → Bytes
  | 0 => []
  | k + 1 => UInt8.ofNat (n / 256 ^ k % 256) :: beBytes (n % 256 ^ k) k

/-- Big-endian decoding. -/
def beNat : Bytes → Nat
  | [] => 0
  | b :: bs => b.toNat * 256 ^ bs.length + beNat bs

/-- Little-endian encoding on `len` bytes. -/
def leBytes (n : Nat) : (len : Nat) → Bytes
  | 0 => []
  | k + 1 => UInt8.ofNat (n % 256) :: leBytes (n / 256) k

def leNat : Bytes → Nat
  | [] => 0
  | b :: bs => b.toNat + 256 * leNat bs

def isPrefixOf (p b : Bytes) : Bool := p.isPrefixOf b

/-! ## hex I/O for the line protocol -/

def hexDigit (n : Nat) : Char :=
  if n < 10 then Char.ofNat (48 + n) else Char.ofNat (87 + n)

def toHex (b : Bytes) : String :=
  if b.isEmpty then "-" else
  String.ofList (b.foldr (fun x acc => hexDigit (x.toNat / 16) :: hexDigit (x.toNat % 16) :: acc) [])

def hexVal (c : Char) : Option Nat :=
  if '0' ≤ c ∧ c ≤ '9' then some (c.toNat - 48)
  else if 'a' ≤ c ∧ c ≤ 'f' then some (c.toNat - 87)
  else if 'A' ≤ c ∧ c ≤ 'F' then some (c.toNat - 55)
  else none

def fromHexChars : List Char → Option Bytes
  | [] => some []
  | [_] => none
  | a :: b :: rest => do
    let x ← hexVal a
    let y ← hexVal b
    let r ← fromHexChars rest
    pure (UInt8.ofNat (x * 16 + y) :: r)

/-- `-` is the empty byte string. -/
def fromHex (s : String) : Option Bytes :=
  if s == "-" then some [] else fromHexChars s.toList

def ordStr : Ordering → String
  | .lt => "-1"
  | .eq => "0"
  | .gt => "1"

end Badger
