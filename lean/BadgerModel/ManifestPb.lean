import BadgerModel.Manifest
import BadgerModel.Crc
/-!
# Protobuf wire format of `pb.ManifestChangeSet` (google.golang.org/protobuf v1.36.7,
`internal/impl/decode.go`, `encoding/protowire/wire.go`) and the concrete `Codec` of the driver.

```
message ManifestChangeSet { repeated ManifestChange changes = 1; }
message ManifestChange { uint64 Id = 1; Operation Op = 2; uint32 Level = 3; uint64 key_id = 4;
                         EncryptionAlgo encryption_algo = 5; uint32 compression = 6; }   // proto3
```
`pbEncodeSet` is `proto.Marshal` (fields in number order, zero values omitted, enums as
sign-extended `int32`). `pbDecodeSet` is `proto.Unmarshal`: unknown fields and known fields
with an unexpected wire type are skipped (`protowire.ConsumeFieldValue`, groups included),
varints may be non-canonical (≤ 10 bytes, tenth byte ≤ 1), `uint32`/enum fields keep the low
32 bits, a scalar given twice keeps the last value, every occurrence of field 1 appends a
change. The recursion limit (10000) of the Go decoder is not modelled.
-/
namespace Badger

/-! ## encoding -/

/-- `protowire.AppendVarint` (fuel: a `uint64` needs at most 10 bytes). -/
def pbVarintF : Nat → Nat → Bytes
  | 0, n => [UInt8.ofNat n]
  | k + 1, n => if n < 128 then [UInt8.ofNat n] else UInt8.ofNat (n % 128 + 128) :: pbVarintF k (n / 128)

def pbVarint (n : Nat) : Bytes := pbVarintF 9 n

/-- An `int32` (given as its `uint32` bit pattern) as the `uint64` that protobuf writes. -/
def signExtend32 (v : Nat) : Nat := if v ≥ 2 ^ 31 then v + (2 ^ 64 - 2 ^ 32) else v

/-- A proto3 scalar field: omitted when zero. -/
def pbField (num : Nat) (v : Nat) : Bytes :=
  if v = 0 then [] else pbVarint (num * 8) ++ pbVarint v

def pbEncodeChange (c : Change) : Bytes :=
  pbField 1 c.id ++ pbField 2 (signExtend32 c.op) ++ pbField 3 c.level ++ pbField 4 c.keyId ++
  pbField 5 (signExtend32 c.encAlgo) ++ pbField 6 c.compression

/-- `proto.Marshal(&pb.ManifestChangeSet{Changes: cs})`. -/
def pbEncodeSet (cs : ChangeSet) : Bytes :=
  cs.flatMap (fun c => let b := pbEncodeChange c; [0x0a] ++ pbVarint b.length ++ b)

/-! ## decoding -/

/-- `protowire.ConsumeVarint`: value and rest; `none` = truncated or overflow.
    `i` = index of the current byte (0-based), `acc` = value so far. -/
def pbConsumeVarintAux : Nat → Nat → Bytes → Option (Nat × Bytes)
  | _, _, [] => none
  | i, acc, b :: bs =>
    if i = 9 then (if b.toNat < 2 then some (acc + b.toNat * 2 ^ 63, bs) else none)
    else if b.toNat < 128 then some (acc + b.toNat * 128 ^ i, bs)
    else pbConsumeVarintAux (i + 1) (acc + (b.toNat - 128) * 128 ^ i) bs

def pbConsumeVarint (b : Bytes) : Option (Nat × Bytes) := pbConsumeVarintAux 0 0 b

/-- Drop exactly `n` bytes or fail (`errCodeTruncated`). -/
def pbSkipN (n : Nat) (b : Bytes) : Option Bytes := if b.length < n then none else some (b.drop n)

mutual
/-- `protowire.ConsumeFieldValue(num, typ, b)`: the rest after the value. -/
def pbSkipField : Nat → Nat → Nat → Bytes → Option Bytes
  | 0, _, _, _ => none
  | fuel + 1, num, typ, b =>
    if typ = 0 then (pbConsumeVarint b).map (·.2)
    else if typ = 1 then pbSkipN 8 b
    else if typ = 5 then pbSkipN 4 b
    else if typ = 2 then
      match pbConsumeVarint b with
      | none => none
      | some (m, rest) => pbSkipN m rest
    else if typ = 3 then pbSkipGroup fuel num b
    else none                     -- EndGroup (4) without start, reserved types 6 and 7
/-- The body of a group started with field number `num`: fields until the matching end tag. -/
def pbSkipGroup : Nat → Nat → Bytes → Option Bytes
  | 0, _, _ => none
  | fuel + 1, num, b =>
    match pbConsumeVarint b with          -- ConsumeTag
    | none => none
    | some (tag, rest) =>
      let num2 := tag / 8
      if num2 > 2 ^ 31 - 1 ∨ num2 < 1 then none    -- DecodeTag: > MaxInt32 ⇒ -1; < MinValidNumber
      else
        let typ2 := tag % 8
        if typ2 = 4 then (if num = num2 then some rest else none)
        else match pbSkipField fuel num2 typ2 rest with
          | none => none
          | some rest' => pbSkipGroup fuel num rest'
end

def pbMaxValidNumber : Nat := 2 ^ 29 - 1

/-- The field loop of `unmarshalPointerEager` for `ManifestChange` (`groupTag = 0`). -/
def pbDecodeChangeLoop : Nat → Bytes → Change → Option Change
  | 0, _, _ => none
  | _ + 1, [], c => some c
  | fuel + 1, b, c =>
    match pbConsumeVarint b with
    | none => none
    | some (tag, rest) =>
      let num := tag / 8
      let typ := tag % 8
      if num < 1 ∨ num > pbMaxValidNumber then none
      else if typ = 4 then none               -- end group with groupTag = 0
      else if 1 ≤ num ∧ num ≤ 6 ∧ typ = 0 then
        match pbConsumeVarint rest with
        | none => none
        | some (v, rest') =>
          let c' : Change :=
            if num = 1 then { c with id := v }
            else if num = 2 then { c with op := v % 2 ^ 32 }
            else if num = 3 then { c with level := v % 2 ^ 32 }
            else if num = 4 then { c with keyId := v }
            else if num = 5 then { c with encAlgo := v % 2 ^ 32 }
            else { c with compression := v % 2 ^ 32 }
          pbDecodeChangeLoop fuel rest' c'
      else
        match pbSkipField (2 * rest.length + 4) num typ rest with
        | none => none
        | some rest' => pbDecodeChangeLoop fuel rest' c

def Change.zero : Change := { id := 0, op := 0, level := 0, keyId := 0, encAlgo := 0, compression := 0 }

def pbDecodeChange (b : Bytes) : Option Change := pbDecodeChangeLoop (b.length + 1) b Change.zero

/-- The field loop for `ManifestChangeSet`; `acc` is in reverse order. -/
def pbDecodeSetLoop : Nat → Bytes → List Change → Option (List Change)
  | 0, _, _ => none
  | _ + 1, [], acc => some acc.reverse
  | fuel + 1, b, acc =>
    match pbConsumeVarint b with
    | none => none
    | some (tag, rest) =>
      let num := tag / 8
      let typ := tag % 8
      if num < 1 ∨ num > pbMaxValidNumber then none
      else if typ = 4 then none
      else if num = 1 ∧ typ = 2 then
        match pbConsumeVarint rest with
        | none => none
        | some (m, rest') =>
          if rest'.length < m then none
          else match pbDecodeChange (rest'.take m) with
            | none => none
            | some c => pbDecodeSetLoop fuel (rest'.drop m) (c :: acc)
      else
        match pbSkipField (2 * rest.length + 4) num typ rest with
        | none => none
        | some rest' => pbDecodeSetLoop fuel rest' acc

/-- `proto.Unmarshal(buf, &changeSet)`. -/
def pbDecodeSet (b : Bytes) : Option ChangeSet := pbDecodeSetLoop (b.length + 1) b []

/-! ## the concrete codec of the driver -/

/-- Insertion sort by table id (the canonical order the harness rewrites map-ordered change
    sets into). -/
def insertById (e : Nat × TableManifest) : List (Nat × TableManifest) → List (Nat × TableManifest)
  | [] => [e]
  | x :: xs => if e.1 ≤ x.1 then e :: x :: xs else x :: insertById e xs

def sortById (l : List (Nat × TableManifest)) : List (Nat × TableManifest) :=
  l.foldr insertById []

def pbCodec : Codec := { crc := crc32c, enc := pbEncodeSet, dec := pbDecodeSet, ord := sortById }

end Badger
