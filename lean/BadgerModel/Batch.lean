import BadgerModel.Mvcc
/-!
# WriteBatch (`batch.go`, with `Txn.modify` / `Txn.CommitWith` / `commitAndSend` of `txn.go`)

Two layers.

* **Buffer core** (`Buf`): the `pendingWrites` map and the `duplicateWrites` slice of one internal
  transaction as pure lists, `Buf.add` = the last five lines of `Txn.modify`, `Buf.emit` = the
  order in which `commitAndSend` hands the entries to the write channel: `duplicateWrites` (the
  overwritten, older writes) first, then `pendingWrites` (since badger commit 2dbbdab, the fix of
  finding F8). `Buf.emitOld` is the order before that commit (`pendingWrites` first), kept for
  the historical counterexample only.
  `batchRun` is the whole batch over an arbitrary *split oracle* (`full i` says that the `i`-th
  accepted operation found the internal transaction full, i.e. `modify` answered `ErrTxnTooBig`,
  so `handleEntry` committed, renewed the transaction and retried).
* **Concrete machine** on the database model `Db` of `Mvcc.lean`: `wbNew`, `wbSetEntry`,
  `wbDelete`, `wbSetEntryAt`, `wbDeleteAt`, `wbFlush`, `wbCancel`, `wbCommit`, mirroring
  `batch.go` statement by statement (this is what the driver executes against the real code).
  `Db.modify` updates `TxnM.pending/dups` with literally the expression of `Buf.add`.
-/
namespace Badger

/-! ## Buffer core -/

structure Buf where
  pending : List Ent := []      -- `pendingWrites` (one entry per key; `ver = 0`: "at the commit ts")
  dups : List Ent := []         -- `duplicateWrites`
  deriving Repr, Inhabited, DecidableEq

/-- `Txn.modify`, after validation and `checkSize`:
    `if old, ok := pendingWrites[key]; ok && old.version != e.version { duplicateWrites = append(…, old) }`
    `pendingWrites[key] = e`. -/
def Buf.add (b : Buf) (e : Ent) : Buf :=
  let old := b.pending.find? (·.key == e.key)
  let dups := match old with
    | some o => if o.ver != e.ver then b.dups ++ [o] else b.dups
    | none => b.dups
  { pending := (b.pending.filter (·.key != e.key)) ++ [e], dups := dups }

def Buf.addAll (b : Buf) (es : List Ent) : Buf := es.foldl Buf.add b

/-- `setVersion` of `commitAndSend`: version 0 becomes the commit timestamp. -/
def effVer (cts : Nat) (v : Nat) : Nat := if v == 0 then cts else v

def Ent.atTs (cts : Nat) (e : Ent) : Ent := { e with ver := effVer cts e.ver }

/-- the order of `commitAndSend`: `for _, e := range txn.duplicateWrites {…}` then
    `for _, e := range txn.pendingWrites {…}` (older, overwritten writes first). -/
def Buf.emit (b : Buf) : List Ent := b.dups ++ b.pending

/-- the order of `commitAndSend` BEFORE badger commit 2dbbdab (finding F8): `pendingWrites`
    first. Not today's code. -/
def Buf.emitOld (b : Buf) : List Ent := b.pending ++ b.dups

/-- the exact side condition under which the OLD order was harmless: no `duplicateWrites`
    entry collides, after `setVersion`, with the `pendingWrites` entry of its key. -/
def Buf.NoClash (cts : Nat) (b : Buf) : Prop :=
  ∀ d ∈ b.dups, ∀ p ∈ b.pending, d.key = p.key → effVer cts d.ver ≠ effVer cts p.ver

instance (cts : Nat) (b : Buf) : Decidable (b.NoClash cts) := by
  unfold Buf.NoClash; exact inferInstance

/-- One internal transaction of a batch as the spec sees it: its commit timestamp and the
    operations (entries as issued, `ver = 0` for Set/SetEntry/Delete) it received, in order. -/
structure Seg where
  cts : Nat
  ops : List Ent
  deriving Repr, Inhabited, DecidableEq

/-- the batch cut into internal transactions by the split oracle: `full i = true` means the
    `i`-th operation (0-based, counting accepted operations) was the one that found the
    transaction full, so it is the *first* operation of a new internal transaction. -/
def segments (full : Nat → Bool) : Nat → List Ent → List Ent → List (List Ent)
  | _, cur, [] => [cur]
  | i, cur, e :: es =>
    if full i then cur :: segments full (i + 1) [e] es
    else segments full (i + 1) (cur ++ [e]) es

/-- commit timestamps of consecutive internal transactions: normal mode takes a fresh, larger
    timestamp for every non-empty transaction (`ts0, ts0+1, …`; empty ones do not commit),
    a batch created by `NewWriteBatchAt(c)` / `NewManagedWriteBatch()` uses `c` / `0` for all. -/
def assignTs (managed : Bool) (ts0 : Nat) : List (List Ent) → List Seg
  | [] => []
  | ops :: rest =>
    if managed then { cts := ts0, ops := ops } :: assignTs managed ts0 rest
    else if ops.isEmpty then { cts := ts0, ops := ops } :: assignTs managed ts0 rest
    else { cts := ts0, ops := ops } :: assignTs managed (ts0 + 1) rest

/-- what one internal transaction sends to the write channel, with versions resolved -/
def Seg.emitted (s : Seg) : List Ent := ((Buf.addAll {} s.ops).emit).map (Ent.atTs s.cts)
def Seg.emittedOld (s : Seg) : List Ent := ((Buf.addAll {} s.ops).emitOld).map (Ent.atTs s.cts)
/-- what the spec says it wrote: the operations in issue order, versions resolved -/
def Seg.issued (s : Seg) : List Ent := s.ops.map (Ent.atTs s.cts)
def Seg.NoClash (s : Seg) : Prop := (Buf.addAll {} s.ops).NoClash s.cts

instance (s : Seg) : Decidable s.NoClash := by unfold Seg.NoClash; exact inferInstance

/-- the write stream of the whole batch (what reaches the memtable, in order) -/
def batchEmitted (segs : List Seg) : List Ent := (segs.map Seg.emitted).flatten
def batchEmittedOld (segs : List Seg) : List Ent := (segs.map Seg.emittedOld).flatten
/-- the specification stream: every issued operation, in issue order -/
def batchIssued (segs : List Seg) : List Ent := (segs.map Seg.issued).flatten

/-- the memtable after a stream of writes (`skiplist.Put` replaces an equal internal key) -/
def applyWrites (mem : List Ent) (ws : List Ent) : List Ent := ws.foldl (fun m e => memPut e m) mem

/-- the batch run against a memtable, by split oracle -/
def batchRun (managed : Bool) (ts0 : Nat) (full : Nat → Bool) (ops : List Ent) (mem : List Ent) : List Ent :=
  applyWrites mem (batchEmitted (assignTs managed ts0 (segments full 0 [] ops)))

/-- the same with the emission order before commit 2dbbdab (historical) -/
def batchRunOld (managed : Bool) (ts0 : Nat) (full : Nat → Bool) (ops : List Ent) (mem : List Ent) : List Ent :=
  applyWrites mem (batchEmittedOld (assignTs managed ts0 (segments full 0 [] ops)))

/-! ## Concrete machine on `Db` -/

structure WB where
  txn : Nat                      -- id (in `Db.txns`) of `wb.txn`
  nextId : Nat                   -- ids for the transactions created by `wb.commit`
  isManaged : Bool
  commitTs : Nat := 0
  finished : Bool := false
  err : Option String := none    -- `wb.err` (sticky)
  deriving Repr, Inhabited

inductive WbKind
  | normal                       -- `db.NewWriteBatch()`
  | at (ts : Nat)                -- `db.NewWriteBatchAt(ts)`
  | managed                      -- `db.NewManagedWriteBatch()`
  deriving Repr

/-- `NewWriteBatch` / `NewWriteBatchAt` / `NewManagedWriteBatch`; `none` = the constructor panics
    (wrong mode). `newTransaction(true, isManaged)`: read timestamp 0 in managed mode. -/
def wbNew (d : Db) (kind : WbKind) (baseId : Nat) : Option (Db × WB) :=
  match kind with
  | .normal =>
    if d.opts.managed then none else
    let (d, _) := d.begin baseId true 0
    some (d, { txn := baseId, nextId := baseId + 1, isManaged := false })
  | .at ts =>
    if !d.opts.managed then none else
    let (d, _) := d.begin baseId true 0
    some (d, { txn := baseId, nextId := baseId + 1, isManaged := true, commitTs := ts })
  | .managed =>
    if !d.opts.managed then none else
    let (d, _) := d.begin baseId true 0
    some (d, { txn := baseId, nextId := baseId + 1, isManaged := true })

/-- `WriteBatch.commit` (caller holds the lock). Returns the error it returns. -/
def wbCommit (d : Db) (w : WB) : Db × WB × Option String :=
  match w.err with
  | some e => (d, w, some e)                                    -- `if err := wb.Error(); err != nil`
  | none =>
    if w.finished then (d, w, some "err:commitafterfinish") else
    -- `wb.throttle.Do()`; `wb.txn.CommitWith(wb.callback)` with `txn.commitTs = wb.commitTs`: the
    -- write applied synchronously, the `CommitRes` is what the callback receives (`Db.commit`
    -- mirrors `commitPrecheck`, which looks at `pendingWrites` only, and `commitAndSend`)
    let (d, r) := d.commit w.txn w.commitTs
    let w := match r with
      | .ok _ => w
      | .noop => w
      | .conflict => { w with err := some "conflict" }
      | .err s => { w with err := some s }
    -- `wb.txn = wb.db.newTransaction(true, wb.isManaged)`; `wb.txn.commitTs = wb.commitTs`
    let (d, _) := d.begin w.nextId true 0
    let w := { w with txn := w.nextId, nextId := w.nextId + 1 }
    (d, w, w.err)                                                -- `return wb.Error()`

/-- `WriteBatch.handleEntry` (= `SetEntry` under the lock; `Delete` has the same shape). -/
def wbHandleEntry (d : Db) (w : WB) (e : Ent) : Db × WB × Option String :=
  let (d1, r) := d.modify w.txn e
  match r with
  | none => (d1, w, none)
  | some .txntoobig =>
    -- "Txn has reached it's zenith. Commit now."
    let (d2, w2, cerr) := wbCommit d1 w
    match cerr with
    | some c => (d2, w2, some c)
    | none =>
      let (d3, r3) := d2.modify w2.txn e
      match r3 with
      | none => (d3, w2, none)
      | some err => (d3, { w2 with err := some err.str }, some err.str)   -- "we make the error permanent"
  | some err => (d1, w, some err.str)

def delEnt (k : Bytes) (ts : Nat) : Ent := { key := k, ver := ts, emeta := bitDelete, umeta := 0, exp := 0, val := [] }

/-- `WriteBatch.SetEntry` -/
def wbSetEntry (d : Db) (w : WB) (e : Ent) : Db × WB × Option String := wbHandleEntry d w { e with ver := 0 }
/-- `WriteBatch.Delete` -/
def wbDelete (d : Db) (w : WB) (k : Bytes) : Db × WB × Option String := wbHandleEntry d w (delEnt k 0)
/-- `WriteBatch.SetEntryAt`: refused unless the *database* is in managed mode. -/
def wbSetEntryAt (d : Db) (w : WB) (e : Ent) (ts : Nat) : Db × WB × Option String :=
  if !d.opts.managed then (d, w, some "err:setentryat-unmanaged") else wbHandleEntry d w { e with ver := ts }
/-- `WriteBatch.DeleteAt`: no mode test in the code. -/
def wbDeleteAt (d : Db) (w : WB) (k : Bytes) (ts : Nat) : Db × WB × Option String :=
  wbHandleEntry d w (delEnt k ts)

/-- `WriteBatch.Flush` -/
def wbFlush (d : Db) (w : WB) : Db × WB × Option String :=
  let (d, w, cerr) := wbCommit d w
  match cerr with
  | some e => (d, w, some e)
  | none =>
    let w := { w with finished := true }
    let d := d.discardTxn w.txn
    (d, w, w.err)                                    -- `throttle.Finish()`, `return wb.Error()`

/-- `WriteBatch.Cancel` -/
def wbCancel (d : Db) (w : WB) : Db × WB :=
  (d.discardTxn w.txn, { w with finished := true })

end Badger
