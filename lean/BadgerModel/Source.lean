import BadgerModel.Key
/-!
# Source iterators (`y.Iterator` as provided by table iterators / skiplist `UniIterator`s)

An `ItEntry` is an internal key (user key ++ 8 byte inverted timestamp) plus an opaque value
payload.  A *source* is the abstract behaviour every leaf iterator that is handed to
`table.NewMergeIterator` has: a cursor over a list of entries that is strictly sorted under
`y.CompareKeys`; forward sources walk the list front to back, reverse sources back to front;
`Seek k` positions a forward source on the first key `≥ k` and a reverse source on the last
key `≤ k` (`table.Iterator.seek/seekForPrev`, `skl.UniIterator.Seek`).

The Go interface `y.Iterator` (y/iterator.go) is modelled by a record of functions
`IterOps σ` over a state type `σ`; a Go interface *value* (dynamic type + value + method
table) is `AnyIter`.
-/
namespace Badger

structure ItEntry where
  key : Bytes
  val : Bytes
deriving DecidableEq, Repr, Inhabited

/-- Direction-aware comparison: `compareKeys` for forward iteration, flipped for reverse. -/
def dcmp (reverse : Bool) (a b : Bytes) : Ordering :=
  if reverse then compareKeys b a else compareKeys a b

/-- The method table of `y.Iterator` (without `Close`).  `size` is a model-only ghost
    function: an upper bound on the number of entries the iterator can still produce; it is
    used only to bound the `for mi.Valid()` loop of `MergeIterator.Next`. -/
structure IterOps (σ : Type) where
  rewind : σ → σ
  seek : Bytes → σ → σ
  next : σ → σ
  valid : σ → Bool
  key : σ → Bytes
  value : σ → Bytes
  size : σ → Nat

/-- A Go interface value of type `y.Iterator`. -/
structure AnyIter : Type 1 where
  σ : Type
  ops : IterOps σ
  st : σ

/-- The calls a consumer can make on a positioned-or-not iterator. -/
inductive IterOp where
  | rewind
  | seek (k : Bytes)
  | next
deriving Repr, DecidableEq

namespace IterOps
variable {σ : Type} (o : IterOps σ)

/-- The entry under the cursor, `none` when `!Valid()`. -/
def cur (s : σ) : Option ItEntry := if o.valid s then some ⟨o.key s, o.value s⟩ else none

def apply (s : σ) : IterOp → σ
  | .rewind => o.rewind s
  | .seek k => o.seek k s
  | .next => o.next s

/-- State after a sequence of calls. -/
def run (s : σ) (ops : List IterOp) : σ := ops.foldl o.apply s

/-- What the consumer loop `for ; it.Valid() && steps < n; it.Next()` collects. -/
def collect : Nat → σ → List ItEntry
  | 0, _ => []
  | n + 1, s => if o.valid s then ⟨o.key s, o.value s⟩ :: collect n (o.next s) else []
end IterOps

namespace AnyIter
def rewind (it : AnyIter) : AnyIter := { it with st := it.ops.rewind it.st }
def seek (it : AnyIter) (k : Bytes) : AnyIter := { it with st := it.ops.seek k it.st }
def next (it : AnyIter) : AnyIter := { it with st := it.ops.next it.st }
def valid (it : AnyIter) : Bool := it.ops.valid it.st
def key (it : AnyIter) : Bytes := it.ops.key it.st
def value (it : AnyIter) : Bytes := it.ops.value it.st
def cur (it : AnyIter) : Option ItEntry := it.ops.cur it.st
def run (it : AnyIter) (ops : List IterOp) : AnyIter := { it with st := it.ops.run it.st ops }
def collect (n : Nat) (it : AnyIter) : List ItEntry := it.ops.collect n it.st
end AnyIter

/-! ## Slice-backed source -/

/-- `items`: all entries in ascending `compareKeys` order; `rest`: entries from the cursor
    on, in iteration order (so `rest = []` iff `!Valid()`). -/
structure Source where
  items : List ItEntry
  reverse : Bool
  rest : List ItEntry
deriving Repr

namespace Source

def mk' (items : List ItEntry) (reverse : Bool) : Source := ⟨items, reverse, []⟩

/-- All entries in iteration order. -/
def dirItems (s : Source) : List ItEntry := if s.reverse then s.items.reverse else s.items

def rewind (s : Source) : Source := { s with rest := s.dirItems }

/-- forward: first key `≥ k`; reverse: last key `≤ k`. -/
def seek (k : Bytes) (s : Source) : Source :=
  { s with rest := s.dirItems.dropWhile (fun e => dcmp s.reverse e.key k == .lt) }

def next (s : Source) : Source := { s with rest := s.rest.tail }

def valid (s : Source) : Bool := !s.rest.isEmpty

def key (s : Source) : Bytes :=
  match s.rest with
  | [] => []
  | e :: _ => e.key

def value (s : Source) : Bytes :=
  match s.rest with
  | [] => []
  | e :: _ => e.val

def ops : IterOps Source :=
  { rewind := rewind, seek := seek, next := next, valid := valid, key := key, value := value,
    size := fun s => s.rest.length }

def toIter (s : Source) : AnyIter := ⟨Source, ops, s⟩

end Source

end Badger
