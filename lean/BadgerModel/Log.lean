import BadgerModel.Header
import BadgerModel.Crc
import BadgerModel.Key
/-!
# WAL / value-log records (memtable.go, value.go)

* `encodeEntry`  — `logFile.encodeEntry`: `header ‖ key ‖ value ‖ crc32` where for encrypted
  files `key ‖ value` is XORed with the AES-CTR key stream for IV = `baseIV ‖ offset` — an
  abstract `ks : Nat → UInt8` (key-stream byte at position `i` of `key ‖ value`; the zero
  stream is the unencrypted file). The CRC is taken over the bytes *as written* (the hash
  sits behind the same `io.MultiWriter` as the buffer), i.e. over the encrypted bytes.
* `decodeEntry`  — `logFile.decodeEntry` (no checksum verification; Go slice panics = `none`).
* `safeReadEntry` — `safeRead.Entry` over the unread rest of the file.
* `iterate`      — `logFile.iterate(readOnly, 0, fn)` with `fn` never failing, as a function of
  the file content after the 20-byte header.

Offsets and lengths are `Nat`s (Go: `uint32`; badger caps log files below 4 GiB).
-/
namespace Badger

/-- The part of badger's `Entry` that is stored in a log record. -/
structure Entry where
  key : Bytes
  value : Bytes
  expiresAt : Nat
  metaB : UInt8
  userMeta : UInt8
  deriving DecidableEq, Repr

def bitTxn : UInt8 := 0x40
def bitFinTxn : UInt8 := 0x80
def vlogHeaderSize : Nat := 20

/-- XOR with the key stream starting at stream position `i` (`cipher.Stream.XORKeyStream`). -/
def xorFrom (ks : Nat → UInt8) : Nat → Bytes → Bytes
  | _, [] => []
  | i, b :: bs => (b ^^^ ks i) :: xorFrom ks (i + 1) bs

/-- Key stream of an unencrypted file. -/
def noKs : Nat → UInt8 := fun _ => 0

def entryHeader (e : Entry) : Header :=
  { klen := e.key.length % 2 ^ 32, vlen := e.value.length % 2 ^ 32, expiresAt := e.expiresAt,
    metaB := e.metaB, userMeta := e.userMeta }

/-- Everything the CRC covers: header and (encrypted) key ‖ value. -/
def encodeBody (ks : Nat → UInt8) (e : Entry) : Bytes :=
  headerEncode (entryHeader e) ++ xorFrom ks 0 (e.key ++ e.value)

/-- `logFile.encodeEntry`: the bytes appended to `buf` (the returned length is their number). -/
def encodeEntry (ks : Nat → UInt8) (e : Entry) : Bytes :=
  encodeBody ks e ++ beBytes (crc32c (encodeBody ks e)) 4

/-- `logFile.decodeEntry(buf, offset)` (with `cap(buf) = len(buf)`); `none` = Go panic. -/
def decodeEntry (ks : Nat → UInt8) (buf : Bytes) : Option Entry :=
  match headerDecode buf with
  | none => none
  | some (h, hlen) =>
    match sliceFrom buf hlen with
    | none => none
    | some kv0 =>
      let kv := xorFrom ks 0 kv0
      let hi := (h.klen + h.vlen) % 2 ^ 32        -- uint32 addition
      if h.klen > kv.length ∨ hi > kv.length ∨ hi < h.klen then none
      else some { key := kv.take h.klen, value := (kv.take hi).drop h.klen,
                  expiresAt := h.expiresAt, metaB := h.metaB, userMeta := h.userMeta }

/-- `io.ReadFull(r, buf)` with `len(buf) = n` on the rest of the stream, followed by badger's
    `if err == io.EOF { err = errTruncate }`. -/
def readFull (n : Nat) (b : Bytes) : Except RErr (Bytes × Bytes) :=
  if n = 0 then .ok ([], b)
  else if b.length = 0 then .error .truncate
  else if b.length < n then .error .unexpectedEof
  else .ok (b.take n, b.drop n)

/-- `safeRead.Entry(reader)` where `b` is the unread rest of the file and `ks` the key stream for
    `r.recordOffset`. Returns the entry and `e.hlen`. -/
def safeReadEntry (ks : Nat → UInt8) (b : Bytes) : Except RErr (Entry × Nat) :=
  match headerDecodeFrom b with
  | .error e => .error e
  | .ok (h, r1) =>
    let hlen := b.length - r1.length
    if h.klen > 65536 then .error .truncate
    else
      let n := (h.klen + h.vlen) % 2 ^ 32          -- make([]byte, h.klen+h.vlen): uint32 sum
      match readFull n r1 with
      | .error e => .error e
      | .ok (buf, r2) =>
        if h.klen > n then .error .panic           -- buf[:h.klen] beyond len(buf)
        else
          let kv := xorFrom ks 0 buf
          match readFull 4 r2 with
          | .error e => .error e
          | .ok (crcBuf, _) =>
            if beNat crcBuf ≠ crc32c (b.take (hlen + n)) then .error .truncate
            else .ok ({ key := kv.take h.klen, value := kv.drop h.klen, expiresAt := h.expiresAt,
                        metaB := h.metaB, userMeta := h.userMeta }, hlen)

/-- `strconv.ParseUint(s, 10, 64)`; `none` = any error (empty, non-digit, out of range). -/
def parseDigits : Nat → Bytes → Option Nat
  | acc, [] => some acc
  | acc, c :: cs =>
    if 48 ≤ c.toNat ∧ c.toNat ≤ 57 then parseDigits (acc * 10 + (c.toNat - 48)) cs else none

def parseUintDec (s : Bytes) : Option Nat :=
  if s = [] then none
  else match parseDigits 0 s with
    | some n => if n < 2 ^ 64 then some n else none
    | none => none

/-- `strconv.FormatUint(n, 10)` as bytes (fuel 20 ≥ number of digits of a `uint64`). -/
def decBytesF : Nat → Nat → Bytes → Bytes
  | 0, _, acc => acc
  | f + 1, n, acc =>
    let acc' := UInt8.ofNat (48 + n % 10) :: acc
    if n / 10 = 0 then acc' else decBytesF f (n / 10) acc'

def decBytes (n : Nat) : Bytes := decBytesF 20 n []

abbrev Delivered := List (Entry × ValuePointer)

/-- Result of `iterate`: `err = none` ⇒ Go returned `(endOffset, nil)`; `err = some e` ⇒ Go
    returned `(0, err)` (`overflow`) or panicked (`panic`). `delivered` = the calls of `fn`. -/
structure IterResult where
  err : Option RErr
  delivered : Delivered
  endOffset : Nat
  deriving DecidableEq, Repr

def IterResult.prepend (items : Delivered) (r : IterResult) : IterResult :=
  { r with delivered := items ++ r.delivered }

/-- Loop of `logFile.iterate`. `off` = `read.recordOffset`, `lastCommit`, `validEnd` =
    `validEndOffset`, `pending` = the `entries`/`vptrs` slices, `b` = unread rest of the file.
    `cipher off` is the key stream of the record at `off`. Fuel: every successful read consumes
    at least 9 bytes, so `b.length + 1` iterations always suffice. -/
def iterGo (fid : Nat) (cipher : Nat → Nat → UInt8) :
    Nat → Nat → Nat → Nat → Delivered → Bytes → IterResult
  | 0, _, _, validEnd, _, _ => ⟨none, [], validEnd⟩
  | fuel + 1, off, lastCommit, validEnd, pending, b =>
    match safeReadEntry (cipher off) b with
    | .error .eof => ⟨none, [], validEnd⟩
    | .error .unexpectedEof => ⟨none, [], validEnd⟩
    | .error .truncate => ⟨none, [], validEnd⟩
    | .error e => ⟨some e, [], 0⟩
    | .ok (e, hlen) =>
      if e.key = [] then ⟨none, [], validEnd⟩          -- e.isZero()
      else
        let len := hlen + e.key.length + e.value.length + 4
        let vp : ValuePointer := { fid := fid, len := len, offset := off }
        let off' := off + len
        let rest := b.drop len
        if e.metaB &&& bitTxn ≠ 0 then
          let txnTs := parseTs e.key
          let lc := if lastCommit = 0 then txnTs else lastCommit
          if lc ≠ txnTs then ⟨none, [], validEnd⟩
          else iterGo fid cipher fuel off' lc validEnd (pending ++ [(e, vp)]) rest
        else if e.metaB &&& bitFinTxn ≠ 0 then
          match parseUintDec e.value with
          | none => ⟨none, [], validEnd⟩
          | some txnTs =>
            if lastCommit ≠ txnTs then ⟨none, [], validEnd⟩
            else (iterGo fid cipher fuel off' 0 off' [] rest).prepend pending
        else
          if lastCommit ≠ 0 then ⟨none, [], validEnd⟩
          else (iterGo fid cipher fuel off' lastCommit off' pending rest).prepend [(e, vp)]

/-- `lf.iterate(true, 0, fn)` on a file whose bytes after the 20-byte header are `content`. -/
def iterate (fid : Nat) (cipher : Nat → Nat → UInt8) (content : Bytes) : IterResult :=
  iterGo fid cipher (content.length + 1) vlogHeaderSize 0 vlogHeaderSize [] content

/-- The content of a log file after writing `es` in order starting at file offset `off`
    (`writeEntry` encodes each entry at `lf.writeAt`). -/
def encodeAll (cipher : Nat → Nat → UInt8) : Nat → List Entry → Bytes
  | _, [] => []
  | off, e :: es =>
    encodeEntry (cipher off) e ++ encodeAll cipher (off + (encodeEntry (cipher off) e).length) es

end Badger
