import BadgerModel.Key
/-!
# Table blocks (`table/builder.go`, `table/iterator.go`): entry encoding, `keyDiff`,
`shouldFinishBlock`, `finishBlock`, and the block iterator (`setIdx` with the `prevOverlap`
reuse of the key buffer, `seek` as the `sort.Search` probe sequence).

Everything of the table area lives in `namespace Badger.Tbl` so that names (`Entry`, `VS`, …)
cannot clash with the models of the other areas.

Conventions: `Option α` results — `none` is a Go panic / `y.AssertTrue` (`log.Fatalf`) exit.
Go slices are modelled by their *length* (not capacity): `b[lo:hi]` with `hi > len(b)` is
`none` here, while Go would tolerate `hi ≤ cap(b)` and read stale buffer bytes. The
difference is unreachable for built tables (theorem `C18_block_key_any_order` shows that no
such slice is ever taken on a block produced by the builder).
-/
namespace Badger.Tbl
open Badger

def u32 (n : Nat) : Nat := n % 4294967296
def u16 (n : Nat) : Nat := n % 65536

/-! ## ValueStruct (`y/iterator.go`) -/

structure VS where
  mt : UInt8
  userMeta : UInt8
  expiresAt : Nat
  value : Bytes
deriving DecidableEq, Repr, Inhabited

/-- An entry handed to `Builder.Add`: internal key (user key ++ 8 version bytes) and value. -/
structure Entry where
  key : Bytes
  vs : VS
deriving DecidableEq, Repr, Inhabited

/-- `binary.PutUvarint` with the loop unrolled by fuel (`9` continuation bytes suffice for a
    `uint64`): `for x >= 0x80 { buf[i] = byte(x) | 0x80; x >>= 7 }; buf[i] = byte(x)`. -/
def putUvarintF : Nat → Nat → Bytes
  | 0, n => [UInt8.ofNat n]
  | f + 1, n =>
    if n < 128 then [UInt8.ofNat n]
    else UInt8.ofNat (n % 128 + 128) :: putUvarintF f (n / 128)

def putUvarint (n : Nat) : Bytes := putUvarintF 9 n

/-- `binary.Uvarint`: `(value, n)`; `n = 0` buffer too small, `n < 0` overflow.
    (`x | b<<s` is written `x + b * 2^s`: the bit ranges are disjoint.) -/
def uvarintF : Nat → Nat → Nat → Bytes → Nat × Int
  | _, _, _, [] => (0, 0)
  | i, s, x, b :: bs =>
    if i = 10 then (0, -((i : Int) + 1))
    else if b.toNat < 128 then
      if i = 9 ∧ b.toNat > 1 then (0, -((i : Int) + 1))
      else (x + b.toNat * 2 ^ s, (i : Int) + 1)
    else uvarintF (i + 1) (s + 7) (x + (b.toNat % 128) * 2 ^ s) bs

def uvarint (b : Bytes) : Nat × Int := uvarintF 0 0 0 b

/-- `ValueStruct.Encode` / `EncodeTo`. -/
def encVS (v : VS) : Bytes := v.mt :: v.userMeta :: (putUvarint v.expiresAt ++ v.value)

/-- `ValueStruct.EncodedSize` (`uint32`). `sizeVarint x` is the length of `PutUvarint x`. -/
def encodedSize (v : VS) : Nat := u32 (v.value.length + 2 + (putUvarint v.expiresAt).length)

/-- `ValueStruct.Decode`; `none` = index/slice panic (`b[0]`, `b[1]`, `b[2+sz:]` with `sz < -2`). -/
def decodeVS (b : Bytes) : Option VS :=
  match b with
  | m :: u :: rest =>
    match uvarint rest with
    | (x, sz) => if sz < 0 then none else some ⟨m, u, x, rest.drop sz.toNat⟩
  | _ => none

/-! ## Go slices -/

/-- Go `b[lo:hi]`; `none` = slice-bounds panic. -/
def slice (b : Bytes) (lo hi : Nat) : Option Bytes :=
  if lo ≤ hi ∧ hi ≤ b.length then some ((b.take hi).drop lo) else none

/-! ## Entry header and key diff -/

/-- `header.Encode`: `{overlap, diff}` as two native-endian (little-endian) `uint16`. -/
def hdr (overlap diff : Nat) : Bytes := leBytes overlap 2 ++ leBytes diff 2

def commonPrefixLen : Bytes → Bytes → Nat
  | a :: as, b :: bs => if a = b then commonPrefixLen as bs + 1 else 0
  | _, _ => 0

/-- `Builder.keyDiff`: the suffix of `newKey` after its common prefix with the base key. -/
def keyDiff (newKey base : Bytes) : Bytes := newKey.drop (commonPrefixLen newKey base)

/-- `y.U32SliceToBytes`: native (little-endian) `uint32`s. -/
def u32sLE : List Nat → Bytes
  | [] => []
  | x :: xs => leBytes x 4 ++ u32sLE xs

/-- `y.BytesToU32Slice`: `len(b)/4` little-endian words. -/
def bytesToU32s : Bytes → List Nat
  | a :: b :: c :: d :: rest => leNat [a, b, c, d] :: bytesToU32s rest
  | _ => []

/-! ## Block under construction (`bblock`) -/

structure BBlock where
  /-- `data[:end]` -/
  data : Bytes := []
  baseKey : Bytes := []
  /-- `uint32` values -/
  entryOffsets : List Nat := []
deriving Repr, DecidableEq

/-- The part of `addHelper` that touches the current block. `none` = one of the two
    `y.AssertTrue(… <= math.MaxUint16)` fails. -/
def BBlock.addEntry (cur : BBlock) (key : Bytes) (v : VS) : Option BBlock :=
  let base := if cur.baseKey.length = 0 then key else cur.baseKey
  let diffKey := if cur.baseKey.length = 0 then key else keyDiff key cur.baseKey
  if ¬ (key.length - diffKey.length ≤ 65535) then none
  else if ¬ (diffKey.length ≤ 65535) then none
  else some
    { data := cur.data ++ (hdr (key.length - diffKey.length) diffKey.length ++ diffKey ++ encVS v)
      baseKey := base
      entryOffsets := cur.entryOffsets ++ [u32 cur.data.length] }

/-- Adding a run of entries to one block (no `finishBlock` in between). -/
def BBlock.addEntries (cur : BBlock) : List Entry → Option BBlock
  | [] => some cur
  | e :: es =>
    match cur.addEntry e.key e.vs with
    | none => none
    | some c => BBlock.addEntries c es

/-- `shouldFinishBlock` (`uint32` arithmetic as coded). `none` = an overflow assert fails. -/
def shouldFinishBlock (blockSize : Nat) (encrypt : Bool) (cur : BBlock) (key : Bytes) (v : VS) :
    Option Bool :=
  if cur.entryOffsets.length = 0 then some false
  else if ¬ (u32 ((u32 cur.entryOffsets.length + 1) * 4 + 4 + 8 + 4) < 4294967295) then none
  else
    let entriesOffsetsSize := u32 ((cur.entryOffsets.length + 1) * 4 + 4 + 8 + 4)
    let est := u32 (u32 cur.data.length + 6 + u32 key.length + encodedSize v + entriesOffsetsSize)
    let est := if encrypt then u32 (est + 16) else est
    if ¬ (cur.data.length + est < 4294967295) then none
    else some (decide (est > u32 blockSize))

/-- `finishBlock`, block part: entries ++ offsets ++ count ++ checksum ++ checksum length.
    (`y.U32ToBytes` is big-endian.) -/
def BBlock.finish (cksum : Bytes → Bytes) (cur : BBlock) : Bytes :=
  let d1 := cur.data ++ u32sLE cur.entryOffsets ++ beBytes (u32 cur.entryOffsets.length) 4
  let ck := cksum d1
  d1 ++ ck ++ beBytes (u32 ck.length) 4

/-! ## Opened block (`table.Block`) and the block iterator -/

structure PBlock where
  /-- block bytes without checksum and checksum length -/
  data : Bytes
  checksum : Bytes
  entriesIndexStart : Nat
  entryOffsets : List Nat
deriving Repr, DecidableEq

inductive Err where
  | eof
  | io (msg : String)
deriving DecidableEq, Repr

structure BlockIter where
  data : Bytes := []
  idx : Int := 0
  err : Option Err := none
  baseKey : Bytes := []
  key : Bytes := []
  val : Bytes := []
  entryOffsets : List Nat := []
  prevOverlap : Nat := 0
deriving Repr, DecidableEq

def BlockIter.valid (it : BlockIter) : Bool := it.err.isNone

/-- `setBlock`: `none` when `b.data[:b.entriesIndexStart]` is out of range. -/
def BlockIter.setBlock (it : BlockIter) (b : PBlock) : Option BlockIter :=
  match slice b.data 0 b.entriesIndexStart with
  | none => none
  | some d =>
    some { it with err := none, idx := 0, baseKey := [], prevOverlap := 0, key := [], val := [],
                   data := d, entryOffsets := b.entryOffsets }

/-- "Set base key" in `setIdx`: decoded lazily from the first entry of the block. The
    `uint16` addition `headerSize + baseHeader.diff` wraps (as in Go). -/
def BlockIter.decodeBase (it : BlockIter) : Option Bytes :=
  if it.baseKey.length = 0 then
    (slice it.data 0 4).bind fun hb =>
      slice it.data 4 (u16 (4 + leNat (hb.drop 2)))
  else some it.baseKey

/-- `entryData := itr.data[startOffset:endOffset]` for entry `n < len(entryOffsets)`. -/
def BlockIter.entryData (it : BlockIter) (n : Nat) : Option Bytes :=
  let startOffset := it.entryOffsets.getD n 0
  let endOffset :=
    if n + 1 = it.entryOffsets.length then it.data.length else it.entryOffsets.getD (n + 1) 0
  slice it.data startOffset endOffset

/-- The two appends to the key buffer in `setIdx`:
    `if h.overlap > prevOverlap { key = append(key[:prevOverlap], baseKey[prevOverlap:h.overlap]...) }`
    then `key = append(key[:h.overlap], diffKey...)`. -/
def reuseKey (key baseKey : Bytes) (prevOverlap overlap : Nat) (diffKey : Bytes) : Option Bytes :=
  let key1? : Option Bytes :=
    if overlap > prevOverlap then
      (slice key 0 prevOverlap).bind fun a =>
      (slice baseKey prevOverlap overlap).bind fun b => some (a ++ b)
    else some key
  key1?.bind fun key1 =>
  (slice key1 0 overlap).bind fun kp => some (kp ++ diffKey)

/-- `setIdx`. The `uint16` addition `headerSize + h.diff` wraps (as in Go). -/
def BlockIter.setIdx (it : BlockIter) (i : Int) : Option BlockIter :=
  let it := { it with idx := i }
  if i ≥ it.entryOffsets.length ∨ i < 0 then some { it with err := some .eof }
  else
    let it := { it with err := none }
    let n := i.toNat
    it.decodeBase.bind fun baseKey =>
    let it := { it with baseKey := baseKey }
    (it.entryData n).bind fun entryData =>
    (slice entryData 0 4).bind fun hb =>
    let overlap := leNat (hb.take 2)
    let diff := leNat (hb.drop 2)
    let valueOff := u16 (4 + diff)
    (slice entryData 4 valueOff).bind fun diffKey =>
    (reuseKey it.key it.baseKey it.prevOverlap overlap diffKey).bind fun key =>
    (slice entryData valueOff entryData.length).bind fun val =>
    some { it with prevOverlap := overlap, key := key, val := val }

/-- `y.CompareKeys` with its panic for keys shorter than 8 bytes. -/
def compareKeysP (a b : Bytes) : Option Ordering :=
  if a.length < 8 ∨ b.length < 8 then none else some (compareKeys a b)

/-- `sort.Search(n, f)` with a stateful, possibly panicking predicate: the probe order is
    exactly Go's (`h := (i+j)/2`, `i = h+1` when `!f(h)`, else `j = h`). -/
def searchM {σ : Type} (f : Nat → σ → Option (Bool × σ)) (i j : Nat) (s : σ) : Option (Nat × σ) :=
  if _h : i < j then
    let m := (i + j) / 2
    match f m s with
    | none => none
    | some (b, s') => if !b then searchM f (m + 1) j s' else searchM f i m s'
  else some (i, s)
termination_by j - i
decreasing_by all_goals omega

/-- `blockIterator.seek(key, whence)`; `current = true` is `whence == current`. -/
def BlockIter.seek (it : BlockIter) (key : Bytes) (current : Bool) : Option BlockIter :=
  let it := { it with err := none }
  let startIndex : Int := if current then it.idx else 0
  (searchM (fun idx (it : BlockIter) =>
      if (idx : Int) < startIndex then some (false, it)
      else
        (it.setIdx idx).bind fun it =>
        (compareKeysP it.key key).bind fun o => some (o != .lt, it))
    0 it.entryOffsets.length it).bind fun (found, it) =>
  it.setIdx found

/-- An arbitrary sequence of `setIdx` probes (valid or out-of-range indices). -/
def BlockIter.probeAll (it : BlockIter) : List Int → Option BlockIter
  | [] => some it
  | p :: ps =>
    match it.setIdx p with
    | none => none
    | some it' => BlockIter.probeAll it' ps

def BlockIter.seekToFirst (it : BlockIter) : Option BlockIter := it.setIdx 0
def BlockIter.seekToLast (it : BlockIter) : Option BlockIter := it.setIdx (it.entryOffsets.length - 1)
def BlockIter.next (it : BlockIter) : Option BlockIter := it.setIdx (it.idx + 1)
def BlockIter.prev (it : BlockIter) : Option BlockIter := it.setIdx (it.idx - 1)

end Badger.Tbl
