import BadgerModel.Key
/-!
# LSM state machine: memtables, levels, get, flush, compaction (levels.go, level_handler.go, db.go)

Entries are kept as `(user key, version)` pairs rather than encoded internal keys; the
order `entCmp` is the order `y.CompareKeys` induces on encoded keys (theorem
`C20_compareKeys_order`). Where the Go code looks at the *encoded* key bytes (prefix tests
in `subcompact`), the model encodes explicitly with `keyWithTs`.
-/
namespace Badger

def bitDelete : Nat := 1
def bitValuePointer : Nat := 2
def bitDiscardEarlier : Nat := 4
def bitMerge : Nat := 8
def bitTxn : Nat := 64
def bitFinTxn : Nat := 128

/-- `meta & b > 0` for a power of two `b`. -/
def hasBit (m b : Nat) : Bool := (m / b) % 2 == 1

def setBit (m b : Nat) : Nat := if hasBit m b then m else m + b
def clearBit (m b : Nat) : Nat := if hasBit m b then m - b else m

structure Ent where
  key : Bytes
  ver : Nat
  emeta : Nat
  umeta : Nat
  exp : Nat
  val : Bytes
  deriving DecidableEq, Repr, Inhabited

def Ent.ikey (e : Ent) : Bytes := keyWithTs e.key e.ver

/-- Order of `(key, version)` pairs = `y.CompareKeys` on the encoded keys: user key
    ascending, then version descending. -/
def kvCmp (k1 : Bytes) (v1 : Nat) (k2 : Bytes) (v2 : Nat) : Ordering :=
  match cmpBytes k1 k2 with
  | .eq => compare v2 v1
  | o => o

def entCmp (a b : Ent) : Ordering := kvCmp a.key a.ver b.key b.ver

/-- `isDeletedOrExpired(meta, expiresAt)` with the clock as a parameter. -/
def deletedOrExpired (m exp now : Nat) : Bool :=
  hasBit m bitDelete || (exp != 0 && exp ≤ now)

/-! ## Sorted sources -/

/-- Skiplist `Put`: insert, or replace the value of an existing internal key. -/
def memPut (e : Ent) : List Ent → List Ent
  | [] => [e]
  | x :: xs =>
    match entCmp e x with
    | .lt => e :: x :: xs
    | .eq => e :: xs
    | .gt => x :: memPut e xs

/-- `Seek(key@ts)` on a sorted source: first entry `≥ (k, ts)`. -/
def seekGE (k : Bytes) (ts : Nat) : List Ent → Option Ent
  | [] => none
  | x :: xs => if kvCmp x.key x.ver k ts == .lt then seekGE k ts xs else some x

/-- Seek and `SameKey` test: the newest version `≤ ts` of `k` in one source. -/
def srcGet (es : List Ent) (k : Bytes) (ts : Nat) : Option Ent :=
  match seekGE k ts es with
  | some e => if e.key == k then some e else none
  | none => none

/-- Two-way merge, left input wins on equal internal keys (`MergeIterator`). -/
def merge2 : List Ent → List Ent → List Ent
  | [], ys => ys
  | xs, [] => xs
  | x :: xs, y :: ys =>
    match entCmp x y with
    | .lt => x :: merge2 xs (y :: ys)
    | .eq => x :: merge2 xs ys
    | .gt => y :: merge2 (x :: xs) ys
termination_by xs ys => xs.length + ys.length

/-- Merge of sources, earliest source wins. -/
def mergeAll (srcs : List (List Ent)) : List Ent := srcs.foldr merge2 []

/-! ## Tables and levels -/

structure Tbl where
  ents : List Ent
  id : Nat := 0     -- file id (identification only: no model function inspects it except lookups by the driver)
  deriving DecidableEq, Repr, Inhabited

def Tbl.smallest (t : Tbl) : Option Ent := t.ents.head?
def Tbl.biggest (t : Tbl) : Option Ent := t.ents.getLast?

structure Lsm where
  mem : List Ent
  imm : List (List Ent)        -- oldest first, as `db.imm`
  levels : List (List Tbl)     -- `levels[i]` in the code's slice order
  deriving Repr, Inhabited

def Lsm.init (maxLevels : Nat) : Lsm := { mem := [], imm := [], levels := List.replicate maxLevels [] }

/-- the running maximum of `db.get` / `levelsController.get`: `(found, entry)`; an exact
    version match returns immediately (`done`). -/
structure GetAcc where
  done : Bool := false
  best : Option Ent := none

def GetAcc.ver (a : GetAcc) : Nat := match a.best with | some e => e.ver | none => 0

def accStep (ts : Nat) (a : GetAcc) (r : Option Ent) : GetAcc :=
  if a.done then a else
  match r with
  | none => a
  | some e =>
    if e.ver == ts then { done := true, best := some e }
    else if a.ver < e.ver then { a with best := some e } else a

/-- `levelHandler.get` for level 0: every table, newest (last) first, strict `<` on versions. -/
def l0Get (tables : List Tbl) (k : Bytes) (ts : Nat) : Option Ent :=
  tables.reverse.foldl (fun (best : Option Ent) t =>
    match srcGet t.ents k ts with
    | some e =>
      let bv := match best with | some b => b.ver | none => 0
      if bv < e.ver then some e else best
    | none => best) none

/-- `levelHandler.get` for level ≥ 1: the first table whose biggest key is `≥ key@ts`.
    (`maxVs.Version < version` with `maxVs` empty: a version-0 entry is not returned.) -/
def liGet (tables : List Tbl) (k : Bytes) (ts : Nat) : Option Ent :=
  match tables.find? (fun t => match t.biggest with
      | some b => kvCmp b.key b.ver k ts != .lt
      | none => false) with
  | some t =>
    match srcGet t.ents k ts with
    | some e => if 0 < e.ver then some e else none
    | none => none
  | none => none

def levelGet (lvl : Nat) (tables : List Tbl) (k : Bytes) (ts : Nat) : Option Ent :=
  if lvl == 0 then l0Get tables k ts else liGet tables k ts

def zipIdx {α : Type} (l : List α) : List (Nat × α) := (List.range l.length).zip l

/-- `DB.get`: memtables newest first, then the levels top-down. -/
def Lsm.get (s : Lsm) (k : Bytes) (ts : Nat) : Option Ent :=
  let memRes := (s.mem :: s.imm.reverse).map (fun m => srcGet m k ts)
  let lvlRes := (zipIdx s.levels).map (fun (i, tbls) => levelGet i tbls k ts)
  ((memRes ++ lvlRes).foldl (accStep ts) {}).best

/-- all sources in read-precedence order: memtable, immutables newest first, L0 newest first,
    then each deeper level as one concatenated run. -/
def Lsm.sources (s : Lsm) : List (List Ent) :=
  (s.mem :: s.imm.reverse) ++
  (match s.levels with
   | [] => []
   | l0 :: rest => l0.reverse.map (·.ents) ++ rest.map (fun tbls => (tbls.map (·.ents)).flatten))

/-- `ensureRoomForWrite` rotation + `handleMemTableFlush`: the memtable becomes the last L0 table
    (nothing happens for an empty memtable). -/
def Lsm.flush (s : Lsm) (id : Nat := 0) : Lsm :=
  if s.mem.isEmpty then s else
  match s.levels with
  | [] => s
  | l0 :: rest => { s with mem := [], levels := (l0 ++ [{ ents := s.mem, id := id }]) :: rest }

/-! ## Compaction (`subcompact`, `compactBuildTables`, `runCompactDef`) -/

structure CParams where
  discardTs : Nat
  numKeep : Nat
  hasOverlap : Bool
  now : Nat
  dropPrefixes : List Bytes

structure FState where
  lastKey : Option Bytes := none
  skipKey : Option Bytes := none
  numVersions : Nat := 0

/-- `hasAnyPrefixes(y.ParseKey(it.Key()), cd.dropPrefixes)` — on the user key (since the fix of
    finding F14; before it the test ran on the encoded key including the version bytes). -/
def hasAnyPrefix (k : Bytes) (ps : List Bytes) : Bool := ps.any (fun p => p.isPrefixOf k)

/-- one iteration of the `addKeys` loop: new state, and whether the entry is written. -/
def filtStep (p : CParams) (st : FState) (e : Ent) : FState × Bool :=
  if hasAnyPrefix e.key p.dropPrefixes then (st, false) else
  let skipping := st.skipKey == some e.key
  if skipping then (st, false) else
  let st1 : FState := { st with skipKey := none }
  let st2 : FState := if st1.lastKey != some e.key then { st1 with lastKey := some e.key, numVersions := 0 } else st1
  let isExp := deletedOrExpired e.emeta e.exp p.now
  if e.ver ≤ p.discardTs && !hasBit e.emeta bitMerge then
    let n := st2.numVersions + 1
    let lastValid := hasBit e.emeta bitDiscardEarlier || n == p.numKeep
    let st3 : FState := { st2 with numVersions := n }
    if isExp || lastValid then
      let st4 : FState := { st3 with skipKey := some e.key }
      if !isExp && lastValid then (st4, true)
      else if p.hasOverlap then (st4, true)
      else (st4, false)
    else (st3, true)
  else (st2, true)

def filtRun (p : CParams) : FState → List Ent → List Ent
  | _, [] => []
  | st, e :: es =>
    let (st', keep) := filtStep p st e
    if keep then e :: filtRun p st' es else filtRun p st' es

def subcompact (p : CParams) (es : List Ent) : List Ent := filtRun p {} es

/-- key range test used by `checkOverlap`/`overlappingTables`: does table `t` intersect
    `[lo, hi]` (both ends encoded entries)? -/
def tblOverlaps (lo hi : Ent) (t : Tbl) : Bool :=
  match t.smallest, t.biggest with
  | some s, some b => entCmp lo b != .gt && entCmp hi s != .lt
  | _, _ => false

/-- `getKeyRange(tables...)`: smallest `Smallest()` and biggest `Biggest()`; the code widens
    the range to `(ParseKey smallest)@MaxUint64 … (ParseKey biggest)@0`. -/
def keyRangeOf (ts : List Tbl) : Option (Ent × Ent) :=
  let smalls := ts.filterMap (·.smallest)
  let bigs := ts.filterMap (·.biggest)
  match smalls, bigs with
  | s :: ss, b :: bs =>
    let lo := ss.foldl (fun a x => if entCmp x a == .lt then x else a) s
    let hi := bs.foldl (fun a x => if entCmp x a == .gt then x else a) b
    some ({ lo with ver := maxU64 }, { hi with ver := 0 })
  | _, _ => none

/-- `checkOverlap(tables, lev)`: any table at a level `≥ lev` intersecting the key range. -/
def checkOverlap (s : Lsm) (tables : List Tbl) (lev : Nat) : Bool :=
  match keyRangeOf tables with
  | none => false
  | some (lo, hi) =>
    (zipIdx s.levels).any (fun (i, tbls) => i ≥ lev && tbls.any (tblOverlaps lo hi))

/-- split a list into consecutive chunks of the given sizes (sizes come from the
    implementation's output tables; the table break rule depends on byte sizes that are
    not modelled). Returns `none` if the sizes do not add up. -/
def splitSizes : List Nat → List Ent → Option (List Tbl)
  | [], [] => some []
  | [], _ :: _ => none
  | n :: ns, es =>
    if n == 0 ∨ es.length < n then none else
    match splitSizes ns (es.drop n) with
    | some r => some ({ ents := es.take n } :: r)
    | none => none

/-- attach the file ids the implementation gave to the new tables (identification only) -/
def withIds : List Tbl → List Nat → List Tbl
  | t :: ts, i :: is => { t with id := i } :: withIds ts is
  | ts, _ => ts

def removeIdx {α : Type} (l : List α) (idx : List Nat) : List α :=
  ((zipIdx l).filter (fun (i, _) => !idx.contains i)).map (·.2)

def pickIdx {α : Type} (l : List α) (idx : List Nat) : List α :=
  idx.filterMap (fun i => l[i]?)

/-- insertion sort of tables by `Smallest` (`replaceTables`' `sort.Slice`, which is a stable
    insertion sort for ≤ 12 elements; ties between equal smallest keys can only occur on L0). -/
def insertBySmallest (t : Tbl) : List Tbl → List Tbl
  | [] => [t]
  | x :: xs =>
    match t.smallest, x.smallest with
    | some a, some b => if entCmp b a == .lt then x :: insertBySmallest t xs else t :: x :: xs
    | _, _ => x :: insertBySmallest t xs

def sortBySmallest (ts : List Tbl) : List Tbl := ts.foldr insertBySmallest []

structure CompactDef where
  thisLevel : Nat
  nextLevel : Nat
  top : List Nat        -- indices into `levels[thisLevel]`
  bot : List Nat        -- indices into `levels[nextLevel]`
  outSizes : List Nat   -- entry counts of the tables the implementation produced
  dropPrefixes : List Bytes
  outIds : List Nat := []  -- their file ids (identification only)

/-! ## user-key ranges (`getKeyRange`, `keyRange.overlapsWith`, `keyRange.extend`) -/

/-- user-key range of a table -/
def Tbl.keyRange (t : Tbl) : Option (Bytes × Bytes) :=
  match t.smallest, t.biggest with
  | some a, some b => some (a.key, b.key)
  | _, _ => none

/-- `keyRange.overlapsWith` on `getKeyRange` ranges (`key@MaxUint64 … key@0`): inclusive overlap of
    user-key intervals; the empty range overlaps everything. -/
def rangeOverlaps (r : Option (Bytes × Bytes)) (d : Bytes × Bytes) : Bool :=
  match r with
  | none => true
  | some (lo, hi) => cmpBytes lo d.2 != .gt && cmpBytes hi d.1 != .lt

def rangeExtend (r : Option (Bytes × Bytes)) (d : Bytes × Bytes) : Option (Bytes × Bytes) :=
  match r with
  | none => some d
  | some (lo, hi) =>
    some (if cmpBytes d.1 lo == .lt then d.1 else lo, if cmpBytes d.2 hi == .gt then d.2 else hi)

def rangeOfTables (ts : List Tbl) : Option (Bytes × Bytes) :=
  ts.foldl (fun r t => match t.keyRange with | some d => rangeExtend r d | none => r) none

/-- the entries a compaction writes: merge (L0 tops newest first, then the bottom run), filter. -/
def compactOutput (s : Lsm) (cd : CompactDef) (discardTs numKeep now : Nat) : List Ent × Bool :=
  let thisT := s.levels.getD cd.thisLevel []
  let nextT := s.levels.getD cd.nextLevel []
  let tops := pickIdx thisT cd.top
  let bots := pickIdx nextT cd.bot
  -- keepTable: bottom tables entirely inside a dropped prefix are not even iterated
  let validBots := bots.filter (fun t =>
    !(cd.dropPrefixes.any (fun p => match t.smallest, t.biggest with
      | some a, some b => p.isPrefixOf a.key && p.isPrefixOf b.key
      | _, _ => false)))
  let topSrcs := if cd.thisLevel == 0 then tops.reverse.map (·.ents) else tops.map (·.ents)
  let merged := mergeAll (topSrcs ++ [(validBots.map (·.ents)).flatten])
  -- L0→L0 counts as overlapping (fix of finding F1: the L0 tables left out of the compaction are
  -- not inspected by `checkOverlap`)
  let hasOverlap := (cd.thisLevel == 0 && cd.nextLevel == 0) || checkOverlap s (tops ++ bots) (cd.nextLevel + 1)
  (subcompact { discardTs, numKeep, hasOverlap, now, dropPrefixes := cd.dropPrefixes } merged, hasOverlap)

/-- `runCompactDef`: `nextLevel.replaceTables(bot, new)` (sorted by `Smallest`, on every level,
    level 0 included) then `thisLevel.deleteTables(top)`. -/
def Lsm.compact (s : Lsm) (cd : CompactDef) (discardTs numKeep now : Nat) : Option Lsm :=
  let (out, _) := compactOutput s cd discardTs numKeep now
  match splitSizes cd.outSizes out with
  | none => none
  | some newTables0 =>
    let newTables := withIds newTables0 cd.outIds
    let thisT := s.levels.getD cd.thisLevel []
    let nextT := s.levels.getD cd.nextLevel []
    if cd.thisLevel == cd.nextLevel then
      -- L0→L0 or Lmax→Lmax: bot and top are on the same level
      let kept := removeIdx thisT (cd.top ++ cd.bot)
      let lvl := sortBySmallest (kept ++ newTables)
      some { s with levels := s.levels.set cd.thisLevel lvl }
    else
      let nxt := sortBySmallest (removeIdx nextT cd.bot ++ newTables)
      let ths := removeIdx thisT cd.top
      some { s with levels := (s.levels.set cd.nextLevel nxt).set cd.thisLevel ths }

end Badger
