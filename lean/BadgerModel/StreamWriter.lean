import BadgerModel.Stream
/-!
# StreamWriter (stream_writer.go)

`Prepare` / `PrepareIncremental` choose the target level, `Write(buf)` demultiplexes the KVs
of a buffer by stream id into one `sortedWriter` per stream, `Flush` finishes every writer,
sorts the tables of each level by `Smallest`, resets the oracle and validates the levels.
Table cut points depend on byte sizes (`builder.ReachedCapacity`), which are not modelled:
they are an input (`outSizes`, as for `Lsm.compact`).
-/
namespace Badger

/-- one `pb.KV` of a `Write` buffer -/
structure SKV where
  sid : Nat
  done : Bool := false     -- `StreamDone`
  e : Ent
  deriving Repr, Inhabited

/-- a `sortedWriter`: the entries `Add`ed so far; `closed` = `sw.writers[id] = nil`. -/
structure SWriter where
  sid : Nat
  closed : Bool := false
  ents : List Ent := []
  deriving Repr, Inhabited

structure SwState where
  prevLevel : Nat := 0
  maxVersion : Nat := 0
  writers : List SWriter := []     -- in order of creation (a Go map in the code)
  deriving Repr, Inhabited

/-- `StreamWriter.Prepare`: `dropAll` — memtables, levels and value log are emptied; the
    oracle is left alone. -/
def Db.swPrepare (d : Db) : Db × SwState :=
  ({ d with lsm := Lsm.init d.opts.maxLevels }, {})

inductive SwErr | memHasData | needsFlatten
  deriving Repr, DecidableEq

/-- `StreamWriter.PrepareIncremental`: error when a memtable has data; `prevLevel` = the first
    non-empty level from the top; an empty DB keeps `prevLevel = 0`. When level 0 itself is
    non-empty the code runs `Flatten` (real compactions, not modelled: reported separately). -/
def Db.swPrepareIncremental (d : Db) : Except SwErr SwState :=
  if !d.lsm.mem.isEmpty || d.lsm.imm.any (fun m => !m.isEmpty) then .error .memHasData else
  match (zipIdx d.lsm.levels).find? (fun (_, ts) => !ts.isEmpty) with
  | none => .ok {}
  | some (i, _) => if i == 0 then .error .needsFlatten else .ok { prevLevel := i }

/-- the value struct `handleRequests` builds: a value below the threshold is stored inline with
    the value-pointer bit cleared (as `DB.writeToLSM` does; before the fix of F26 the bit was
    left as it came), a value at or above it goes to the value log and gets the bit. -/
def Db.swForm (d : Db) (e : Ent) : Ent :=
  if e.val.length < d.opts.threshold then { e with emeta := clearBit e.emeta bitValuePointer }
  else { e with emeta := setBit e.emeta bitValuePointer }

def swAdd (ws : List SWriter) (sid : Nat) (e : Ent) : List SWriter :=
  if ws.any (·.sid == sid) then ws.map (fun w => if w.sid == sid then { w with ents := w.ents ++ [e] } else w)
  else ws ++ [{ sid := sid, ents := [e] }]

inductive SwRes | ok | panicClosed
  deriving Repr, DecidableEq

/-- first pass of `Write` (the `SliceIterate` callback): a KV after a done marker of its own
    stream *within this buffer* panics. Returns the stream ids closed by this buffer. -/
def swScan : List Nat → List SKV → Option (List Nat)
  | closed, [] => some closed
  | closed, kv :: rest =>
    if kv.done then swScan (if closed.contains kv.sid then closed else closed ++ [kv.sid]) rest
    else if closed.contains kv.sid then none
    else swScan closed rest

/-- `StreamWriter.Write(buf)`. -/
def Db.swWrite (d : Db) (st : SwState) (buf : List SKV) : SwState × SwRes :=
  if buf.isEmpty then (st, .ok) else
  match swScan [] buf with
  | none => (st, .panicClosed)
  | some closedNow =>
    let data := buf.filter (!·.done)
    let maxV := data.foldl (fun m kv => if m < kv.e.ver then kv.e.ver else m) st.maxVersion
    let prevLevel := if st.prevLevel == 0 && !data.isEmpty then d.lsm.levels.length else st.prevLevel
    -- a request for a stream whose writer was closed by an earlier buffer panics
    if data.any (fun kv => st.writers.any (fun w => w.sid == kv.sid && w.closed)) then
      ({ st with maxVersion := maxV, prevLevel := prevLevel }, .panicClosed)
    else
      let ws := data.foldl (fun ws kv => swAdd ws kv.sid (d.swForm kv.e)) st.writers
      -- close: `writer.Done()` then `sw.writers[id] = nil` (a missing writer is only a warning)
      let ws := ws.map (fun w => if closedNow.contains w.sid then { w with closed := true } else w)
      ({ prevLevel := prevLevel, maxVersion := maxV, writers := ws }, .ok)

/-- a sequence of `Write` calls (stops at the first panic). -/
def Db.swWriteAll (d : Db) (st : SwState) : List (List SKV) → SwState × SwRes
  | [] => (st, .ok)
  | b :: bs =>
    match d.swWrite st b with
    | (st', .ok) => d.swWriteAll st' bs
    | r => r

/-- streams ordered by their first entry (the effect of `sortTables` on tables of different
    streams); an insertion sort. -/
def insertStream (s : List Ent) : List (List Ent) → List (List Ent)
  | [] => [s]
  | x :: xs =>
    match s.head?, x.head? with
    | some a, some b => if entCmp b a == .lt then x :: insertStream s xs else s :: x :: xs
    | _, _ => x :: insertStream s xs

def sortStreams (ss : List (List Ent)) : List (List Ent) := ss.foldr insertStream []

/-- every entry the writers hold, streams in key order -/
def SwState.newEnts (st : SwState) : List Ent :=
  (sortStreams ((st.writers.map (·.ents)).filter (!·.isEmpty))).flatten

/-- `sortedWriter.Add` starts a new table only between two different user keys
    (`!sameKey && w.builder.ReachedCapacity()`): a cut inside the versions of one key is impossible. -/
def keyCutsOk : List Tbl → Bool
  | a :: b :: rest =>
    (match a.ents.getLast?, b.ents.head? with
     | some x, some y => x.key != y.key
     | _, _ => false) && keyCutsOk (b :: rest)
  | _ => true

/-- the tables the writers build: the entries cut at the observed sizes, which must respect the
    `sameKey` rule. -/
def cutTables (sizes : List Nat) (es : List Ent) : Option (List Tbl) :=
  match splitSizes sizes es with
  | none => none
  | some ts => if keyCutsOk ts then some ts else none

/-- `levelsController.validate` for one level `≥ 1`: `Biggest(j-1) < Smallest(j)`. -/
def levelValid : List Tbl → Bool
  | [] => true
  | [_] => true
  | a :: b :: rest =>
    (match a.biggest, b.smallest with
     | some x, some y => entCmp x y == .lt
     | _, _ => false) && levelValid (b :: rest)

def Lsm.validate (s : Lsm) : Bool :=
  (zipIdx s.levels).all (fun (i, ts) => i == 0 || levelValid ts)

/-- `StreamWriter.Flush`: every writer's tables go to level `prevLevel - 1`; all levels are
    sorted by `Smallest`; in normal mode a new oracle starts at
    `max(readTs, maxVersion) + 1`; then `validate`. `none`: the cut sizes do not add up. -/
def Db.swFlush (d : Db) (st : SwState) (outSizes : List Nat) (outIds : List Nat := []) : Option (Db × Bool) :=
  match cutTables outSizes st.newEnts with
  | none => none
  | some tables0 =>
    let tables := withIds tables0 outIds   -- file ids: identification only
    let lvl := st.prevLevel - 1
    let levels := if tables.isEmpty then d.lsm.levels
                  else d.lsm.levels.set lvl (d.lsm.levels.getD lvl [] ++ tables)
    let levels := levels.map sortBySmallest
    let d := { d with lsm := { d.lsm with levels := levels } }
    let d := if d.opts.managed then d else
      let curMax := d.nextTs - 1
      let maxV := if curMax ≥ st.maxVersion then curMax else st.maxVersion
      { d with nextTs := maxV + 1, readMark := (({} : Wm).done maxV), committed := [],
               lastCleanupTs := 0, discardTs := 0 }
    some (d, d.lsm.validate)

end Badger
