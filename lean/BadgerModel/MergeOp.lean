import BadgerModel.Mvcc
/-!
# MergeOperator (`merge.go`)

* `iterMerge f items` is the loop of `MergeOperator.iterateAndMerge` over what
  `txn.NewKeyIterator(key, AllVersions)` yields (newest version first): stop *before* a deleted or
  expired item; the first item is the starting value and gives `latest`; every further item is
  folded in as `newVal = f(oldVal, newVal)`; stop *after* an item with the discard-earlier bit.
  The merge bit is not looked at.
* Concrete operations on the database model `Db` (what the driver runs against the real code):
  `Db.mergeAdd` (= `db.Update(txn.SetEntry(NewEntry(key, val).withMergeBit()))`), `Db.mergeGet`,
  `Db.mergeCompact` (= `MergeOperator.compact`: write the merged value back at the *newest
  operand's version*, no merge bit, `bitDiscardEarlierVersions`, through `batchSetAsync`, i.e.
  without transaction markers).
* Abstract machine `MState` over the version list of the key (what the key iterator sees), with
  an abstract LSM-compaction step that may drop versions *below* a discard-earlier entry
  (`subcompact`: entries with the merge bit are never counted or dropped by the version-count
  rule, everything older than a kept discard-earlier entry of the same key is skipped).
-/
namespace Badger

abbrev MergeFn := Bytes → Bytes → Bytes

/-- one version of the key as the iterator presents it -/
structure MItem where
  ver : Nat
  val : Bytes
  dead : Bool := false          -- `item.IsDeletedOrExpired()`
  discard : Bool := false       -- `item.DiscardEarlierVersions()`
  deriving Repr, Inhabited, DecidableEq

structure MAcc where
  num : Nat := 0                -- `numVersions`
  newVal : Bytes := []
  latest : Nat := 0
  deriving Repr, Inhabited, DecidableEq

/-- the `for it.Rewind(); it.Valid(); it.Next()` loop of `iterateAndMerge` -/
def iterLoop (f : MergeFn) : MAcc → List MItem → MAcc
  | a, [] => a
  | a, it :: rest =>
    if it.dead then a else
    let a' : MAcc :=
      if a.num == 0 then { num := 1, newVal := it.val, latest := it.ver }
      else { a with num := a.num + 1, newVal := f it.val a.newVal }
    if it.discard then a' else iterLoop f a' rest

inductive MergeRes
  | notfound                     -- `ErrKeyNotFound`
  | single (v : Bytes) (latest : Nat)   -- `errNoMerge`: exactly one version
  | merged (v : Bytes) (latest : Nat)
  deriving Repr, DecidableEq

def iterMerge (f : MergeFn) (items : List MItem) : MergeRes :=
  let a := iterLoop f {} items
  if a.num == 0 then .notfound
  else if a.num == 1 then .single a.newVal a.latest
  else .merged a.newVal a.latest

/-- `MergeOperator.Get`: `errNoMerge` is not an error for the caller. -/
def MergeRes.get : MergeRes → Option Bytes
  | .notfound => none
  | .single v _ => some v
  | .merged v _ => some v

/-! ## merge functions used by the harness -/

def catF : MergeFn := fun a b => a ++ b
/-- uint64 addition on 8-byte big-endian operands (wraps) -/
def addF : MergeFn := fun a b => beBytes ((beNat a + beNat b) % 2 ^ 64) 8

/-! ## concrete operations on `Db` -/

def mItemOf (now : Nat) (e : Ent) : MItem :=
  { ver := e.ver, val := e.val, dead := deletedOrExpired e.emeta e.exp now,
    discard := hasBit e.emeta bitDiscardEarlier }

/-- what `txn.NewKeyIterator(key, {AllVersions})` of a fresh read-only transaction yields, and
    the database after that transaction was begun and discarded (the read mark moves).
    `tid` is a scratch transaction id. -/
def Db.keyVersions (d : Db) (tid : Nat) (key : Bytes) : Db × List Ent :=
  let (d1, _) := d.begin tid false 0
  let o : IterOpts := { allVersions := true, prefix_ := key, prefixIsKey := true }
  (d1.discardTxn tid, (d1.iterate tid o none).getD [])

def Db.mergeView (d : Db) (tid : Nat) (key : Bytes) : List MItem :=
  (d.keyVersions tid key).2.map (mItemOf d.now)

/-- `iterateAndMerge` -/
def Db.iterateAndMerge (d : Db) (tid : Nat) (f : MergeFn) (key : Bytes) : Db × MergeRes :=
  ((d.keyVersions tid key).1, iterMerge f (d.mergeView tid key))

/-- `MergeOperator.Add` -/
def Db.mergeAdd (d : Db) (tid : Nat) (key val : Bytes) : Db × CommitRes :=
  let (d, _) := d.begin tid true 0
  let (d, r) := d.modify tid { key := key, ver := 0, emeta := bitMerge, umeta := 0, exp := 0, val := val }
  match r with
  | some e => (d.discardTxn tid, .err e.str)
  | none => d.commit tid 0

/-- `MergeOperator.Get` -/
def Db.mergeGet (d : Db) (tid : Nat) (f : MergeFn) (key : Bytes) : Db × Option Bytes :=
  let (d, r) := d.iterateAndMerge tid f key
  (d, r.get)

/-- `MergeOperator.compact`: nothing for `ErrKeyNotFound` / `errNoMerge`; otherwise one entry
    `{Key: KeyWithTs(key, latest), Value: merged, meta: bitDiscardEarlierVersions}` through
    `batchSetAsync` → `writeToLSM` (no `bitTxn`, no commit timestamp of its own). -/
def Db.mergeCompact (d : Db) (tid : Nat) (f : MergeFn) (key : Bytes) : Db :=
  let (d, r) := d.iterateAndMerge tid f key
  match r with
  | .merged v latest =>
    let e : Ent := d.lsmForm { key := key, ver := latest, emeta := bitDiscardEarlier, umeta := 0, exp := 0, val := v }
    { d with lsm := { d.lsm with mem := memPut e d.lsm.mem } }
  | _ => d

/-- the largest version stored anywhere (`db.MaxVersion()` after everything was flushed) -/
def Lsm.maxVersion (l : Lsm) : Nat :=
  (l.sources.flatten).foldl (fun m e => max m e.ver) 0

/-- `DB.Close` then `Open`: the memtable is flushed to level 0 on close, the oracle restarts at
    `MaxVersion() + 1`, no transaction survives. -/
def Db.reopen (d : Db) : Db :=
  let lsm := d.lsm.flush
  { d with lsm := lsm, nextTs := lsm.maxVersion + 1, txns := [], committed := [], lastCleanupTs := 0,
           readMark := (({} : Wm).done lsm.maxVersion) }

/-! ## abstract machine -/

/-- the version list of the key, newest first, and the history of `Add` arguments -/
structure MState where
  items : List MItem := []
  adds : List Bytes := []
  nextVer : Nat := 1
  deriving Repr, Inhabited

/-- the live prefix: everything up to and including the first discard-earlier item -/
def livePrefix : List MItem → List MItem
  | [] => []
  | it :: rest => if it.discard then [it] else it :: livePrefix rest

inductive MStep
  | add (v : Bytes)
  | compact                              -- `MergeOperator.compact` (tick of `runCompactions`, or `Stop`)
  | lsm (keep : List Bool)               -- an LSM compaction: `keep[i] = false` drops the i-th item *below the live prefix*
  | reopen
  deriving Repr

/-- drop the items of `l` whose flag is `false` (missing flags keep) -/
def dropByMask : List Bool → List MItem → List MItem
  | _, [] => []
  | [], l => l
  | b :: bs, x :: xs => if b then x :: dropByMask bs xs else dropByMask bs xs

def MState.step (f : MergeFn) (s : MState) : MStep → MState
  | .add v =>
    { items := { ver := s.nextVer, val := v } :: s.items, adds := s.adds ++ [v], nextVer := s.nextVer + 1 }
  | .compact =>
    match iterMerge f s.items, s.items with
    | .merged v latest, _ :: rest => { s with items := { ver := latest, val := v, discard := true } :: rest }
    | _, _ => s
  | .lsm keep =>
    let live := livePrefix s.items
    { s with items := live ++ dropByMask keep (s.items.drop live.length) }
  | .reopen => s

def MState.run (f : MergeFn) (s : MState) (steps : List MStep) : MState := steps.foldl (MState.step f) s

def MState.get (f : MergeFn) (s : MState) : Option Bytes := (iterMerge f s.items).get

/-- the specification: `f` folded over all `Add` arguments in `Add` order -/
def foldAdds (f : MergeFn) : List Bytes → Option Bytes
  | [] => none
  | a :: as => some (as.foldl f a)

/-- how one concrete operation may change the iterator's view of the key (the refinement
    relation the driver checks after every operation): an LSM-level operation (flush,
    compaction, reopen) keeps the live prefix and only loses items below it. -/
def lsmViewOk (before after : List MItem) : Bool :=
  let live := livePrefix before
  after.take live.length == live &&
    (after.drop live.length).all (fun x => (before.drop live.length).contains x)

end Badger
