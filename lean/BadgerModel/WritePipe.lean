import BadgerModel.Oracle
/-!
# The write pipeline around the oracle (`txn.go: commitAndSend`, `db.go: sendToWriteCh / doWrites /
writeRequests`), on top of `Sys` (`BadgerModel/Oracle.lean`).

A committer executes `commitAndSend` as the sequence of atomic steps

  `lock` (`orc.writeChLock.Lock()`), `stamp` (`orc.newCommitTs(txn)` = the oracle step
  `Label.commit`; on `ErrConflict` the deferred `Unlock` runs at once), `enqueue`
  (`db.sendToWriteCh`: the request is appended to `writeCh`, FIFO), `unlock`
  (`writeChLock.Unlock()`), then blocks in `req.Wait()`; once its request is signalled it runs `ack`
  (`orc.doneCommit(commitTs)` = the oracle step `Label.doneCommit`) and `Commit` returns.

The `doWrites` goroutine takes a batch = any non-empty prefix of `writeCh` (`dequeue k`); at most one
`writeRequests` call is in flight (`pendingCh` has capacity 1). `writeRequests` applies the
requests of the batch in order, every entry with its own memtable `Put` (`put`: one entry per step,
so partially applied transactions *are* states of the memtable), and only then signals all requests
of the batch (`signal`). Readers obtain read timestamps through the oracle steps `begin` /
`waitCheck` / `procTxnMark`. All steps of all goroutines interleave arbitrarily.

A commit may also be rejected by `sendToWriteCh` after its timestamp was handed out (`reject`:
`ErrBlockedWrites` while DropPrefix/DropAll have writes blocked, `ErrTxnTooBig`): the committer calls
`doneCommit` without anything being enqueued; the timestamp stays consumed (DESIGN F11).

Not modelled: value-log writes (they precede the memtable writes of the same batch and are invisible
to readers), memtable rotation (the entries of a request go
to the then-current memtable; readers search all memtables).
-/
namespace Badger

/-- One `request`: the entries of one transaction, all at version `ts`. -/
structure Req where
  ts : Nat
  keys : List Nat
  tid : Nat
  deriving Repr, DecidableEq

/-- `(key, version)` entries a request puts into the memtable, in order. -/
def Req.entries (r : Req) : List (Nat × Nat) := r.keys.map (fun k => (k, r.ts))

/-- Where a committer is inside `Commit`. -/
inductive CPhase where
  | idle
  | locked
  | stamped (ts : Nat) (keys : List Nat)
  | enqueued (ts : Nat)
  | waiting (ts : Nat)
  | acked (ts : Nat)
  deriving Repr, DecidableEq

/-- The committer holds `writeChLock`. -/
def CPhase.holds : CPhase → Bool
  | .locked => true
  | .stamped _ _ => true
  | .enqueued _ => true
  | _ => false

structure Pipe where
  sys : Sys
  /-- `orc.writeChLock` -/
  lockHolder : Option Nat := none
  cph : Nat → CPhase := fun _ => .idle
  /-- `db.writeCh` (FIFO) -/
  writeCh : List Req := []
  /-- the batch of the `writeRequests` call in flight -/
  batch : Option (List Req) := none
  /-- entries of the batch not yet put into the memtable -/
  pending : List (Nat × Nat) := []
  /-- `(key, version)` entries in the memtable, in the order they were put -/
  memtable : List (Nat × Nat) := []
  /-- commit timestamps whose `req.Wait()` has been released -/
  signalled : List Nat := []
  /-- ghost: requests of completed batches, in order -/
  finished : List Req := []
  /-- ghost: commit timestamps handed out to commits that `sendToWriteCh` then rejected -/
  rejected : List Nat := []

def Pipe.opened (detect : Bool) (n : Nat) : Pipe := { sys := Sys.opened false detect n }

def Pipe.setPh (p : Pipe) (tid : Nat) (c : CPhase) : Nat → CPhase :=
  fun t => if t = tid then c else p.cph t

/-- Every request ever enqueued, in channel order. -/
def Pipe.enq (p : Pipe) : List Req := p.finished ++ p.batch.getD [] ++ p.writeCh

inductive PLabel where
  /-- an oracle/transaction step other than `commit`/`doneCommit` (those belong to the pipeline) -/
  | sys (l : Label)
  | lock (tid : Nat)
  | stamp (tid : Nat)
  | enqueue (tid : Nat)
  /-- `sendToWriteCh` returns `ErrBlockedWrites`/`ErrTxnTooBig` after the timestamp was handed out:
      `orc.doneCommit(commitTs)`, the deferred `writeChLock.Unlock()`, `Commit` returns the error;
      nothing is enqueued, the timestamp stays consumed -/
  | reject (tid : Nat)
  | unlock (tid : Nat)
  /-- `doWrites` hands the first `k` queued requests to `writeRequests` -/
  | dequeue (k : Nat)
  /-- one memtable `Put` -/
  | put
  /-- `writeRequests` is done: every request of the batch is signalled -/
  | signal
  /-- `req.Wait()` returned: `doneCommit`, `Commit` returns -/
  | ack (tid : Nat)
  deriving Repr, DecidableEq

/-- Oracle labels a goroutine other than a committer inside `Commit` may take. A transaction is
    not thread-safe: its owner does not read/write/discard it while it is inside `Commit`. -/
def Pipe.sysAllowed (p : Pipe) : Label → Bool
  | .commit _ => false
  | .doneCommit _ => false
  | .commitAt _ _ => false
  | .read tid _ => p.cph tid == .idle
  | .write tid _ => p.cph tid == .idle
  | .discard tid => p.cph tid == .idle
  | _ => true

def Pipe.step (p : Pipe) : PLabel → Option Pipe
  | .sys l =>
    if p.sysAllowed l then
      match p.sys.step l with
      | some s => some { p with sys := s }
      | none => none
    else none
  | .lock tid =>
    if p.lockHolder.isSome ∨ p.cph tid ≠ .idle then none
    else some { p with lockHolder := some tid, cph := p.setPh tid .locked }
  | .stamp tid =>
    if p.cph tid ≠ .locked then none else
    match p.sys.step (.commit tid), p.sys.commitResult tid, p.sys.txns[tid]? with
    | some s, some (.ok ts), some x =>
      some { p with sys := s, cph := p.setPh tid (.stamped ts x.t.conflictKeys) }
    | some s, _, _ =>
      -- ErrConflict: the deferred `writeChLock.Unlock()` runs
      some { p with sys := s, lockHolder := none, cph := p.setPh tid .idle }
    | none, _, _ => none
  | .enqueue tid =>
    match p.cph tid with
    | .stamped ts keys =>
      some { p with writeCh := p.writeCh ++ [⟨ts, keys, tid⟩], cph := p.setPh tid (.enqueued ts) }
    | _ => none
  | .reject tid =>
    match p.cph tid with
    | .stamped ts _ =>
      match p.sys.step (.doneCommit ts) with
      | some s => some { p with sys := s, lockHolder := none, cph := p.setPh tid .idle,
                                rejected := p.rejected ++ [ts] }
      | none => none
    | _ => none
  | .unlock tid =>
    match p.cph tid with
    | .enqueued ts => some { p with lockHolder := none, cph := p.setPh tid (.waiting ts) }
    | _ => none
  | .dequeue k =>
    if p.batch.isSome ∨ k = 0 ∨ p.writeCh.length < k then none
    else some { p with batch := some (p.writeCh.take k), writeCh := p.writeCh.drop k,
                       pending := (p.writeCh.take k).flatMap Req.entries }
  | .put =>
    match p.batch, p.pending with
    | some _, e :: rest => some { p with memtable := p.memtable ++ [e], pending := rest }
    | _, _ => none
  | .signal =>
    match p.batch, p.pending with
    | some b, [] =>
      some { p with batch := none, finished := p.finished ++ b, signalled := p.signalled ++ b.map (·.ts) }
    | _, _ => none
  | .ack tid =>
    match p.cph tid with
    | .waiting ts =>
      if !p.signalled.contains ts then none else
      match p.sys.step (.doneCommit ts) with
      | some s => some { p with sys := s, cph := p.setPh tid (.acked ts) }
      | none => none
    | _ => none

inductive PReach (detect : Bool) (n : Nat) : Pipe → Prop where
  | init : PReach detect n (Pipe.opened detect n)
  | step {p p' : Pipe} (l : PLabel) : PReach detect n p → p.step l = some p' → PReach detect n p'

def Pipe.runLabels (p : Pipe) : List PLabel → Option Pipe
  | [] => some p
  | l :: ls => (p.step l).bind (fun p' => p'.runLabels ls)

end Badger
