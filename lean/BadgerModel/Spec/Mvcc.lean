import BadgerModel.Lsm
/-!
# The abstract MVCC reading of a collection of entries (the specification side)

`newestLE es k ts` is "the newest write to `k` with version ≤ `ts`" over an arbitrary list of
entries (first maximal element in list order, so the earliest source wins ties);
`visible now` turns a delete marker or an expired entry into "absent". Every read path of
the model is required to compute `visible now (newestLE allEntries k ts)`.
-/
namespace Badger

/-- strictly increasing in the internal-key order (user key ascending, version descending):
    what every skiplist, table and merged stream satisfies. -/
def SortedEnts (es : List Ent) : Prop := es.Pairwise (fun a b => entCmp a b = .lt)

/-- running "best so far" for `newestLE`: keep the first entry among those of maximal version. -/
def betterOf (best : Option Ent) (e : Ent) : Option Ent :=
  match best with
  | none => some e
  | some b => if b.ver < e.ver then some e else some b

/-- newest version `≤ ts` of user key `k` among `es` (ties: first in list order). -/
def newestLE (es : List Ent) (k : Bytes) (ts : Nat) : Option Ent :=
  es.foldl (fun best e => if e.key = k ∧ e.ver ≤ ts then betterOf best e else best) none

/-- a dead newest version (deleted / expired at `now`) reads as absent. -/
def visible (now : Nat) : Option Ent → Option Ent
  | some e => if deletedOrExpired e.emeta e.exp now then none else some e
  | none => none

/-- all entries of a state in read-precedence order -/
def Lsm.allEntries (s : Lsm) : List Ent := s.sources.flatten

/-- what a read of `k` at `ts` must return -/
def Lsm.specGet (s : Lsm) (k : Bytes) (ts now : Nat) : Option Ent :=
  visible now (newestLE s.allEntries k ts)

end Badger
