import BadgerModel.Protocol
/-!
# Specification side of the crash properties (C07 C08 C10 C11)

The visible state of a database is compared through a relation `ViewRel.r` on collections of
stored entries ("these two collections read the same"). Any equivalence that is coarser than
equality of the *sets* of entries and is a congruence for putting collections side by side
qualifies: set equality itself (`setView`: nothing is ever dropped) or "every read at or above
the discard watermark returns the same" (what a compaction guarantees, C12/C13). A compaction
step of a history is admissible when its outputs are related to its inputs.
-/
namespace Badger

structure ViewRel where
  r : List CEnt → List CEnt → Prop
  refl : ∀ a, r a a
  symm : ∀ a b, r a b → r b a
  trans : ∀ a b c, r a b → r b c → r a c
  /-- depends on the set of entries only (order and duplicates are irrelevant) -/
  of_mem_iff : ∀ a b, (∀ e, e ∈ a ↔ e ∈ b) → r a b
  /-- congruence for union -/
  app_congr : ∀ a a' b b', r a a' → r b b' → r (a ++ b) (a' ++ b')

/-- the finest admissible relation: the same set of entries -/
def setView : ViewRel where
  r a b := ∀ e, e ∈ a ↔ e ∈ b
  refl _ _ := Iff.rfl
  symm _ _ h e := (h e).symm
  trans _ _ _ h1 h2 e := (h1 e).trans (h2 e)
  of_mem_iff _ _ h := h
  app_congr a a' b b' h1 h2 e := by simp [List.mem_append, h1 e, h2 e]

/-- every compaction of the history, at the moment it starts, produces outputs that read like
    its inputs -/
def SchedHistOk (R : ViewRel) : PState → List Sched → Prop
  | _, [] => True
  | p, x :: h =>
    (match x with
     | .compact ins outs => R.r (outs.map (·.2)).flatten (ins.map p.tableEnts).flatten
     | _ => True) ∧ SchedHistOk R (p.step x).2 h

end Badger
