import BadgerModel.Stream
/-!
# Backup / Load (backup.go)

`Stream.Backup(w, since)` is a `Stream` run with its own `KeyToList` and a `Send` that tracks
the maximum version and writes length-prefixed `pb.KVList` frames; `DB.Load` feeds the KVs of
the frames through a `KVLoader` and moves `orc.nextTxnTs` above every loaded version.
The protobuf framing itself is not modelled: a backup is the list of its KV lists.
-/
namespace Badger

/-- `item.Version() - 1` on `uint64`. -/
def verPred (v : Nat) : Nat := if v == 0 then maxU64 else v - 1

/-- the `KeyToList` closure of `Stream.Backup`; `none` is the error return
    (`Backup: Item Version: %d less than sinceTs`), after which `produceKVs` skips the key. -/
def backupKtl (since now : Nat) (key : Bytes) : List Ent → Option (List Ent)
  | [] => some []
  | e :: rest =>
    if e.key != key then some []
    else if e.ver < since then none
    else
      let dead := deletedOrExpired e.emeta e.exp now
      let kv : Ent := { key := key, ver := e.ver, emeta := clearBit (clearBit e.emeta bitTxn) bitFinTxn,
                        umeta := e.umeta, exp := e.exp, val := if dead then [] else e.val }
      if hasBit e.emeta bitDiscardEarlier then
        -- a delete marker just below the current version
        some [kv, { key := key, ver := verPred e.ver, emeta := bitDelete, umeta := 0, exp := 0, val := [] }]
      else if dead then some [kv]
      else (backupKtl since now key rest).map (kv :: ·)

def backupCfg (pfx : Bytes) (since sinceTs now : Nat) : StreamCfg :=
  { prefix_ := pfx, sinceTs := sinceTs, ktl := backupKtl since now }

/-- the `Send` closure: `maxVersion` over every KV received. -/
def maxVersionOf (kvs : List Ent) : Nat := kvs.foldl (fun m e => if m < e.ver then e.ver else m) 0

structure BackupOut where
  lists : List (List Ent)     -- one per key range (frames may regroup them; order is irrelevant to `Load`)
  maxVersion : Nat
  deriving Repr

/-- `DB.Backup(w, since)`: `stream.SinceTs = since; stream.Backup(w, since)`; generalised to
    `Stream.Backup` on a stream whose `SinceTs`/`Prefix` the caller chose. -/
def backupRun (merged : List Ent) (pfx : Bytes) (since sinceTs now : Nat) (ranges : List KeyRange) (ts : Nat) :
    BackupOut :=
  let lists := streamRun merged (backupCfg pfx since sinceTs now) now ranges ts
  { lists := lists, maxVersion := maxVersionOf lists.flatten }

/-! ## Load -/

def flushThreshold : Nat := 100 * 2 ^ 20

structure KVLoader where
  entries : List Ent := []      -- pending, oldest first
  entriesSize : Nat := 0
  totalSize : Nat := 0
  deriving Repr, Inhabited

/-- `Entry.estimateSizeAndSetThreshold` for a loader entry (its key carries the 8 timestamp bytes). -/
def loadEstimate (threshold : Nat) (e : Ent) : Nat :=
  if e.val.length < threshold then e.key.length + 8 + e.val.length + 2 else e.key.length + 8 + 12 + 2

/-- `KVLoader.send` → `batchSetAsync` → `sendToWriteCh` (`ErrTxnTooBig` check) → `writeToLSM`;
    the write is asynchronous in the code but FIFO, and `Finish` waits for it. -/
def Db.loaderSend (d : Db) (l : KVLoader) : Option (Db × KVLoader) :=
  let count := l.entries.length
  let size := (l.entries.map (loadEstimate d.opts.threshold)).foldl (· + ·) 0
  if count ≥ d.opts.maxBatchCount || size ≥ d.opts.maxBatchSize then none
  else
    let mem := l.entries.foldl (fun m e => memPut (d.lsmForm e) m) d.lsm.mem
    some ({ d with lsm := { d.lsm with mem := mem } }, {})

/-- `KVLoader.Set` -/
def Db.loaderSet (d : Db) (l : KVLoader) (kv : Ent) : Option (Db × KVLoader) :=
  let est := loadEstimate d.opts.threshold kv
  let r := if l.entries.length + 1 ≥ d.opts.maxBatchCount || l.entriesSize + est ≥ d.opts.maxBatchSize
              || l.totalSize ≥ flushThreshold
           then d.loaderSend l else some (d, l)
  match r with
  | none => none
  | some (d, l) =>
    some (d, { entries := l.entries ++ [kv], entriesSize := l.entriesSize + est,
               totalSize := l.totalSize + est + kv.val.length })

/-- the body of the `for _, kv := range list.Kv` loop of `DB.Load`. -/
def Db.loadKV (d : Db) (l : KVLoader) (kv : Ent) : Option (Db × KVLoader) :=
  match d.loaderSet l kv with
  | none => none
  | some (d, l) =>
    let d := if kv.ver ≥ d.nextTs then { d with nextTs := kv.ver + 1 } else d
    some (d, l)

def Db.loadLoop (d : Db) (l : KVLoader) : List Ent → Db × KVLoader × Bool
  | [] => (d, l, true)
  | kv :: rest =>
    match d.loadKV l kv with
    | none => (d, l, false)
    | some (d, l) => d.loadLoop l rest

/-- `DB.Load` over the KVs of all frames, then `KVLoader.Finish`. The `Bool` is `err == nil`. -/
def Db.load (d : Db) (kvs : List Ent) : Db × Bool :=
  let (d, l, ok) := d.loadLoop {} kvs
  if !ok then (d, false) else
  if l.entries.isEmpty then (d, true) else
  match d.loaderSend l with
  | none => (d, false)
  | some (d, _) => (d, true)

end Badger
