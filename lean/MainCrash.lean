import BadgerModel.Driver.Loop
/-! `bmd_crash <engine>`: line-protocol driver (see CONVENTIONS.md). -/
open Badger.Driver

def main (args : List String) : IO UInt32 := do
  let stdin ← IO.getStdin
  let stdout ← IO.getStdout
  match args with
  | _ => IO.eprintln "usage: bmd_crash <engine>"; return 2
