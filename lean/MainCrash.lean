import BadgerModel.Driver.Loop
import BadgerModel.Driver.Crash
/-! `bmd_crash <engine>`: line-protocol driver (see CONVENTIONS.md). Engines: `crash`. -/
open Badger.Driver

def main (args : List String) : IO UInt32 := do
  let stdin ← IO.getStdin
  let stdout ← IO.getStdout
  match args with
  | ["crash"] => statefulLoop stdin stdout crashStep ({} : CrashDrv); return 0
  | _ => IO.eprintln "usage: bmd_crash <crash>"; return 2
