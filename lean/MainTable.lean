import BadgerModel.Driver.Loop
import BadgerModel.Driver.Table
/-! `bmd_table <engine>`: line-protocol driver (see CONVENTIONS.md). -/
open Badger.Driver

def main (args : List String) : IO UInt32 := do
  let stdin ← IO.getStdin
  let stdout ← IO.getStdout
  match args with
  | ["table"] => statefulLoop stdin stdout tableStep {}; return 0
  | _ => IO.eprintln "usage: bmd_table <engine>"; return 2
