import BadgerModel.Driver.Loop
import BadgerModel.Driver.Wm
/-! `bmd_wm <engine>`: line-protocol driver (see CONVENTIONS.md). Engines: `watermark`, `oracle`, `txn`. -/
open Badger.Driver

def main (args : List String) : IO UInt32 := do
  let stdin ← IO.getStdin
  let stdout ← IO.getStdout
  match args with
  | ["watermark"] => statefulLoop stdin stdout wmStep Badger.WM.init; return 0
  | ["oracle"] => statefulLoop stdin stdout orcStep (Badger.Sys.opened false true 0); return 0
  | ["txn"] => statefulLoop stdin stdout txnStep ({} : TxnDrv); return 0
  | _ => IO.eprintln "usage: bmd_wm <watermark|oracle|txn>"; return 2
